/-
  C05 (continued) — EDDM's maximum tracking, the analogue of `DDM.ddm_min`.

  At every *tested error position* (an error sample that is at least the
  `n_threshold`-th error of its epoch) `EDDM.update` computes
  `cur = dist_mean + 2 * dist_std`, replaces `_max_numerator` by `cur` when
  `_max_numerator < cur`, and decides on `cur / _max_numerator`; `reset()` (run by the
  update that follows a drift) puts `_max_numerator` back to `0`.

  Over ordered fields (any `sqrt`), for every configuration and every history:

  * `eddm_max : MaxSem c xs` — the stored maximum is `0` while the current epoch has no
    tested error position; otherwise it is `≥ 0`, an upper bound of the numerators
    computed at **all** tested error positions of the current epoch, and it is attained
    at one of them unless all those numerators are `≤ 0` (then it is the initial `0`);
  * `eddm_max_isGreatest` — the same as one formula:
    `_max_numerator = max (0, numerators at the tested error positions of the epoch)`;
  * `eddm_ratio_le_one` (one update) / `eddm_stat_le_one` (whole histories) — the test
    statistic `cur / _max_numerator` is `≤ 1` whenever `_max_numerator > 0`.

  "Tested error position `j` of the current epoch" (`TestedAt`) and "the numerator at
  position `j`" (`numAt`) are read off the history: the epoch is the last
  `samples_since_reset` samples (`eddm_epoch`), `j` is tested when `xs[j]` is an error and
  the samples of the epoch up to `j` contain at least `n_threshold` errors; `numAt` is
  `mean + 2 * std` of the run over the first `j + 1` samples.
-/
import MenelausVerif.Props.C05
import Mathlib.Order.Bounds.Basic

namespace MV
open MV.ErrTrace

namespace EDDM
section order
variable {K : Type} [Field K] [LinearOrder K] [IsStrictOrderedRing K] [HasSqrt K]

/-- `curr_numerator = dist_mean + 2 * dist_std` as computed by update `j` of the history -/
def numAt (c : Cfg K) (xs : List Bool) (j : Nat) : K :=
  numerator (run c (xs.take (j + 1))).distMean (run c (xs.take (j + 1))).distStd

/-- index of the first sample of the current epoch (`eddm_epoch`: right after the latest
    earlier drift) -/
def epochStart (c : Cfg K) (xs : List Bool) : Nat := xs.length - (run c xs).since

/-- `j` is a tested error position of the epoch that starts at `st`: sample `j` lies in the
    epoch, is an error, and is at least the `n_threshold`-th error of the epoch -/
def TestedAt (c : Cfg K) (xs : List Bool) (st j : Nat) : Prop :=
  st ≤ j ∧ j < xs.length ∧ xs[j]? = some true ∧
    c.nThreshold ≤ ((xs.take (j + 1)).drop st).count true

/-- what the stored maximum means after the history `xs` -/
structure MaxSem (c : Cfg K) (xs : List Bool) : Prop where
  /-- no tested error position in the epoch yet: the value after `__init__` / `reset()` -/
  quiet : (∀ j, ¬ TestedAt c xs (epochStart c xs) j) → (run c xs).maxNum = 0
  nonneg : 0 ≤ (run c xs).maxNum
  /-- upper bound of the numerators at all tested error positions of the epoch -/
  bound : ∀ j, TestedAt c xs (epochStart c xs) j → numAt c xs j ≤ (run c xs).maxNum
  /-- attained at a tested error position of the epoch, or the initial `0` when all
      numerators of the epoch are `≤ 0` -/
  attained : (∃ t, TestedAt c xs (epochStart c xs) t ∧ (run c xs).maxNum = numAt c xs t) ∨
    ((run c xs).maxNum = 0 ∧ ∀ j, TestedAt c xs (epochStart c xs) j → numAt c xs j ≤ 0)

omit [IsStrictOrderedRing K] in
theorem MaxSem.of {c : Cfg K} {xs : List Bool} (s : State K) (st : Nat) (hs : run c xs = s)
    (hst : epochStart c xs = st)
    (quiet : (∀ j, ¬ TestedAt c xs st j) → s.maxNum = 0)
    (nonneg : 0 ≤ s.maxNum)
    (bound : ∀ j, TestedAt c xs st j → numAt c xs j ≤ s.maxNum)
    (attained : (∃ t, TestedAt c xs st t ∧ s.maxNum = numAt c xs t) ∨ s.maxNum = 0) :
    MaxSem c xs := by
  subst hs hst
  refine ⟨quiet, nonneg, bound, ?_⟩
  rcases attained with h | h
  · exact Or.inl h
  · exact Or.inr ⟨h, fun j hj => h ▸ bound j hj⟩

/-! ### one update -/

omit [IsStrictOrderedRing K] in
theorem since_step (c : Cfg K) (s : State K) (x : Bool) :
    (step c s x).since = (pre s).since + 1 := by
  simp only [step, core, pre]; grind

omit [IsStrictOrderedRing K] in
theorem nErrors_step (c : Cfg K) (s : State K) (x : Bool) :
    (step c s x).nErrors = (pre s).nErrors + (if x = true then 1 else 0) := by
  simp only [step, core, pre]; grind

omit [IsStrictOrderedRing K] in
/-- the maximum moves only at a tested error, by `newMax` -/
theorem maxNum_step (c : Cfg K) (s : State K) (x : Bool) :
    (step c s x).maxNum =
      if x = true ∧ c.nThreshold ≤ (pre s).nErrors + 1 then
        newMax (pre s).maxNum (numerator (step c s x).distMean (step c s x).distStd)
      else (pre s).maxNum := by
  simp only [step, core, pre]; grind

omit [LinearOrder K] [IsStrictOrderedRing K] [HasSqrt K] in
theorem pre_maxNum (s : State K) :
    (pre s).maxNum = if s.drift = .drift then 0 else s.maxNum := by
  unfold pre; split <;> simp [reset, zero]

omit [Field K] [HasSqrt K] [IsStrictOrderedRing K] in
theorem newMax_spec (m cur : K) :
    m ≤ newMax m cur ∧ cur ≤ newMax m cur ∧ (newMax m cur = cur ∨ newMax m cur = m) := by
  unfold newMax
  by_cases h : m < cur
  · rw [if_pos h]; exact ⟨le_of_lt h, le_refl _, Or.inl rfl⟩
  · rw [if_neg h]; exact ⟨le_refl _, not_lt.mp h, Or.inr rfl⟩

/-! ### positions of a history and of its extension -/

omit [IsStrictOrderedRing K] in
theorem numAt_snoc_lt (c : Cfg K) {xs : List Bool} {x : Bool} {j : Nat} (h : j < xs.length) :
    numAt c (xs ++ [x]) j = numAt c xs j := by
  unfold numAt
  rw [List.take_append_of_le_length (by omega)]

omit [IsStrictOrderedRing K] in
theorem numAt_snoc_eq (c : Cfg K) (xs : List Bool) (x : Bool) :
    numAt c (xs ++ [x]) xs.length =
      numerator (step c (run c xs) x).distMean (step c (run c xs) x).distStd := by
  unfold numAt
  rw [List.take_of_length_le (by simp), run_snoc]

omit [Field K] [LinearOrder K] [IsStrictOrderedRing K] [HasSqrt K] in
theorem tested_snoc_lt (c : Cfg K) {xs : List Bool} {x : Bool} {st j : Nat} (h : j < xs.length) :
    TestedAt c (xs ++ [x]) st j ↔ TestedAt c xs st j := by
  unfold TestedAt
  rw [List.take_append_of_le_length (by omega), List.getElem?_append_left h]
  simp only [List.length_append, List.length_singleton]
  constructor
  · rintro ⟨a, -, b, d⟩; exact ⟨a, h, b, d⟩
  · rintro ⟨a, -, b, d⟩; exact ⟨a, by omega, b, d⟩

omit [Field K] [LinearOrder K] [IsStrictOrderedRing K] [HasSqrt K] in
theorem tested_snoc_last (c : Cfg K) (xs : List Bool) (x : Bool) (st : Nat) :
    TestedAt c (xs ++ [x]) st xs.length ↔
      st ≤ xs.length ∧ x = true ∧ c.nThreshold ≤ ((xs ++ [x]).drop st).count true := by
  unfold TestedAt
  rw [List.take_of_length_le (by simp)]
  simp

omit [IsStrictOrderedRing K] in
/-- `n_errors` counts the errors of the current epoch (`eddm_errors`) -/
theorem nErrors_eq_count (c : Cfg K) (xs : List Bool) :
    (run c xs).nErrors = (xs.drop (epochStart c xs)).count true :=
  (eddm_errors c xs).count

omit [IsStrictOrderedRing K] in
theorem epochStart_snoc (c : Cfg K) (xs : List Bool) (x : Bool) :
    epochStart c (xs ++ [x]) = if (run c xs).drift = .drift then xs.length else epochStart c xs := by
  have hle : (run c xs).since ≤ xs.length := (eddm_epoch c xs).since_le
  unfold epochStart
  rw [run_snoc, since_step]
  unfold pre
  split
  · simp [reset]
  · simp only [List.length_append, List.length_singleton]; omega

omit [IsStrictOrderedRing K] in
/-- the latest update is a tested error position iff it is an error and at least the
    `n_threshold`-th of the epoch — the guard of the code -/
theorem tested_last_iff (c : Cfg K) (xs : List Bool) (x : Bool) :
    TestedAt c (xs ++ [x]) (epochStart c (xs ++ [x])) xs.length ↔
      (x = true ∧ c.nThreshold ≤ (pre (run c xs)).nErrors + 1) := by
  have hle : epochStart c (xs ++ [x]) ≤ xs.length := by
    rw [epochStart_snoc]; split
    · exact le_refl _
    · unfold epochStart; omega
  have hc := nErrors_eq_count c (xs ++ [x])
  rw [run_snoc, nErrors_step] at hc
  rw [tested_snoc_last, ← hc]
  constructor
  · rintro ⟨-, hx, h⟩; subst hx; exact ⟨rfl, by simpa using h⟩
  · rintro ⟨hx, h⟩; subst hx; exact ⟨hle, rfl, by simpa using h⟩

/-! ### the theorem -/

omit [IsStrictOrderedRing K] in
/-- **EDDM's maximum tracking (ordered fields).**  After any history: while the current
    epoch has no tested error position the stored `_max_numerator` is `0`; otherwise it is
    an upper bound of `mean_j + 2 * std_j` over all tested error positions `j` of the
    epoch and equals that numerator at one of them, or is the initial `0` when all of them
    are `≤ 0`.  (Only the linear order is used: no law of `+`, `*`, `/`, `sqrt`.) -/
theorem eddm_max (c : Cfg K) (xs : List Bool) : MaxSem c xs := by
  induction xs using snoc_induction with
  | nil =>
    have h0 : (run c ([] : List Bool)).maxNum = 0 := by simp [run, init, zero]
    refine MaxSem.of _ _ rfl rfl (fun _ => h0) (by rw [h0]) ?_ (Or.inr h0)
    intro j hj; exact absurd hj.2.1 (by simp)
  | snoc xs x ih =>
    have hst := epochStart_snoc c xs x
    have hlast := tested_last_iff c xs x
    have hmax := maxNum_step c (run c xs) x
    have hnum := numAt_snoc_eq c xs x
    have hpm := pre_maxNum (run c xs)
    -- the value the update starts from has the property for the earlier positions of the new epoch
    have hpre : 0 ≤ (pre (run c xs)).maxNum ∧
        (∀ j, j < xs.length → TestedAt c (xs ++ [x]) (epochStart c (xs ++ [x])) j →
          numAt c (xs ++ [x]) j ≤ (pre (run c xs)).maxNum) ∧
        ((∃ t, t < xs.length ∧ TestedAt c (xs ++ [x]) (epochStart c (xs ++ [x])) t ∧
            (pre (run c xs)).maxNum = numAt c (xs ++ [x]) t) ∨ (pre (run c xs)).maxNum = 0) ∧
        ((∀ j, j < xs.length → ¬ TestedAt c (xs ++ [x]) (epochStart c (xs ++ [x])) j) →
          (pre (run c xs)).maxNum = 0) := by
      by_cases hd : (run c xs).drift = .drift
      · rw [if_pos hd] at hst hpm
        rw [hpm, hst]
        refine ⟨le_refl _, ?_, Or.inr rfl, fun _ => rfl⟩
        intro j hj hT
        exact absurd hT.1 (by omega)
      · rw [if_neg hd] at hst hpm
        rw [hpm, hst]
        refine ⟨ih.nonneg, ?_, ?_, ?_⟩
        · intro j hj hT
          rw [numAt_snoc_lt c hj]
          exact ih.bound j ((tested_snoc_lt c hj).mp hT)
        · rcases ih.attained with ⟨t, hT, ht⟩ | ⟨h0, -⟩
          · have hlt : t < xs.length := hT.2.1
            exact Or.inl ⟨t, hlt, (tested_snoc_lt c hlt).mpr hT, by rw [numAt_snoc_lt c hlt]; exact ht⟩
          · exact Or.inr h0
        · intro hno
          apply ih.quiet
          intro j hT
          exact hno j hT.2.1 ((tested_snoc_lt c hT.2.1).mpr hT)
    obtain ⟨p1, p2, p3, p4⟩ := hpre
    have hlen : (xs ++ [x]).length = xs.length + 1 := by simp
    refine MaxSem.of (step c (run c xs) x) (epochStart c (xs ++ [x])) (run_snoc c xs x) rfl ?_ ?_ ?_ ?_
    all_goals by_cases hT : x = true ∧ c.nThreshold ≤ (pre (run c xs)).nErrors + 1
    · -- quiet, but the latest position is tested
      intro hno
      exact absurd (hlast.mpr hT) (hno _)
    · intro hno
      rw [hmax, if_neg hT]
      exact p4 (fun j _ => hno j)
    · rw [hmax, if_pos hT]
      exact le_trans p1 (newMax_spec _ _).1
    · rw [hmax, if_neg hT]; exact p1
    · intro j hj
      rw [hmax, if_pos hT]
      by_cases hlt : j < xs.length
      · exact le_trans (p2 j hlt hj) (newMax_spec _ _).1
      · have : j = xs.length := by have := hj.2.1; omega
        subst this
        rw [hnum]; exact (newMax_spec _ _).2.1
    · intro j hj
      rw [hmax, if_neg hT]
      by_cases hlt : j < xs.length
      · exact p2 j hlt hj
      · have : j = xs.length := by have := hj.2.1; omega
        subst this
        exact absurd (hlast.mp hj) hT
    · rw [hmax, if_pos hT]
      rcases (newMax_spec (pre (run c xs)).maxNum
          (numerator (step c (run c xs) x).distMean (step c (run c xs) x).distStd)).2.2 with h | h
      · exact Or.inl ⟨xs.length, hlast.mpr hT, by rw [h, hnum]⟩
      · rw [h]
        rcases p3 with ⟨t, _, hTt, ht⟩ | h0
        · exact Or.inl ⟨t, hTt, ht⟩
        · exact Or.inr h0
    · rw [hmax, if_neg hT]
      rcases p3 with ⟨t, _, hTt, ht⟩ | h0
      · exact Or.inl ⟨t, hTt, ht⟩
      · exact Or.inr h0

omit [IsStrictOrderedRing K] in
/-- the same as one formula: `_max_numerator` is the greatest element of
    `{0} ∪ {mean_j + 2 * std_j | j a tested error position of the current epoch}` -/
theorem eddm_max_isGreatest (c : Cfg K) (xs : List Bool) :
    IsGreatest (insert 0 {v | ∃ j, TestedAt c xs (epochStart c xs) j ∧ v = numAt c xs j})
      (run c xs).maxNum := by
  have M := eddm_max c xs
  constructor
  · rcases M.attained with ⟨t, hT, ht⟩ | ⟨h0, -⟩
    · exact Or.inr ⟨t, hT, ht⟩
    · exact Or.inl h0
  · rintro v (hv | ⟨j, hj, hv⟩)
    · rw [hv]; exact M.nonneg
    · rw [hv]; exact M.bound j hj

/-- **The test statistic of one update is at most 1.**  At a tested error (`n_threshold`-th
    error of the epoch or later), `cur / _max_numerator ≤ 1` whenever the updated
    `_max_numerator` is positive. -/
theorem eddm_ratio_le_one (c : Cfg K) (s : State K) (h : c.nThreshold ≤ (pre s).nErrors + 1) :
    let s' := step c s true
    let cur := numerator s'.distMean s'.distStd
    s'.maxNum = newMax (pre s).maxNum cur ∧ (0 < s'.maxNum → cur / s'.maxNum ≤ 1) := by
  intro s' cur
  have hm : s'.maxNum = newMax (pre s).maxNum cur := by
    have := maxNum_step c s true
    rw [if_pos ⟨rfl, h⟩] at this
    exact this
  refine ⟨hm, fun hpos => ?_⟩
  rw [div_le_one hpos, hm]
  exact (newMax_spec _ _).2.1

/-- on whole histories: the numerator of every tested error position of the current epoch,
    divided by the stored maximum, is at most 1 (whenever the maximum is positive; it is
    never negative, `MaxSem.nonneg`) -/
theorem eddm_stat_le_one (c : Cfg K) (xs : List Bool) (j : Nat)
    (hj : TestedAt c xs (epochStart c xs) j) (hpos : 0 < (run c xs).maxNum) :
    numAt c xs j / (run c xs).maxNum ≤ 1 := by
  rw [div_le_one hpos]
  exact (eddm_max c xs).bound j hj

end order
end EDDM

/-! ## Non-vacuity: two tested error positions in one epoch, maximum attained at the earlier -/
namespace C05MaxExamples
local instance : HasSqrt ℚ := ⟨fun x => x⟩

def ce : EDDM.Cfg ℚ := ⟨2, 9/10, 1/2⟩
def xe : List Bool := [false, false, false, true, true, true]

/-- errors at 3, 4, 5 (one epoch, starting at 0); positions 4 and 5 are tested (`n_threshold = 2`),
    position 3 is not; the numerators are `4` and `25/9`; the stored maximum is the earlier one,
    and the statistic at position 5 is `25/36 ≤ 1` (a warning) -/
example : EDDM.epochStart ce xe = 0 ∧
    ¬ EDDM.TestedAt ce xe (EDDM.epochStart ce xe) 3 ∧
    EDDM.TestedAt ce xe (EDDM.epochStart ce xe) 4 ∧
    EDDM.TestedAt ce xe (EDDM.epochStart ce xe) 5 ∧
    EDDM.numAt ce xe 4 = 4 ∧ EDDM.numAt ce xe 5 = 25 / 9 ∧
    (EDDM.run ce xe).maxNum = EDDM.numAt ce xe 4 ∧
    EDDM.numAt ce xe 5 < (EDDM.run ce xe).maxNum ∧
    EDDM.numAt ce xe 5 / (EDDM.run ce xe).maxNum = 25 / 36 ∧
    (EDDM.run ce xe).drift = .warning := by
  unfold EDDM.TestedAt
  decide +kernel

/-- the theorem instantiated at this history -/
example : EDDM.numAt ce xe 5 ≤ (EDDM.run ce xe).maxNum :=
  (EDDM.eddm_max ce xe).bound 5 (by unfold EDDM.TestedAt; decide +kernel)

/-- the hypothesis of `eddm_ratio_le_one` is satisfiable -/
example : ce.nThreshold ≤ (EDDM.pre (EDDM.run ce (xe.take 4))).nErrors + 1 ∧
    0 < (EDDM.step ce (EDDM.run ce (xe.take 4)) true).maxNum := by decide +kernel

end C05MaxExamples

end MV
