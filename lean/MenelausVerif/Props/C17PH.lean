/-
  C17 for PageHinkley — *partial*, and the counter-example (finding F12).

  Full statement (NOT provable, see `ph_threshold_counterexample`): for thresholds
  `loose ≤ strict` the first drift under `strict` is never earlier.
  Proved (`ph_first_drift_mono_partial`): the same under the hypothesis that every running
  mean visited before the alarm is non-negative.  What is missing is exactly the case of a
  negative running mean, where `threshold * mean` makes a larger threshold a *lower* bound.
-/
import MenelausVerif.Props.C17
import MenelausVerif.Model.PageHinkley
import Mathlib.Algebra.Order.Field.Basic
namespace MV.PH
open MV MV.Mono

section carrier
variable {α : Type} [Add α] [Sub α] [Mul α] [Div α] [LT α] [DecidableLT α] [NatCast α]

/-- the Page-Hinkley difference of a state, in the configured direction -/
def diffOf (c : Cfg α) (s : State α) : α :=
  match c.dir with
  | .positive => s.sum - s.mn
  | .negative => s.mx - s.sum

/-- PageHinkley up to its first alarm: statistics without the drift flag; the threshold only
enters the decision -/
def sys (c : Cfg α) : Sys α (State α) α where
  init := init
  stat := fun s x => { (core c s x).1 with drift := .none }
  dec := fun θ s => decide (θ * s.mean < diffOf c s) && decide (s.since > c.burnIn)

/-- the statistics run does not depend on the threshold -/
theorem stat_threshold_free (c : Cfg α) (θ : α) (s : State α) (x : α) :
    (sys { c with threshold := θ }).stat s x = (sys c).stat s x := by
  simp [sys, core]

omit [Add α] [Sub α] [Mul α] [Div α] [LT α] [DecidableLT α] [NatCast α] in
theorem ite_beq_drift (p : Prop) [Decidable p] (d : Drift) (hd : d ≠ .drift) :
    ((if p then Drift.drift else d) == Drift.drift) = decide p := by
  by_cases hp : p <;> cases d <;> simp_all

/-- the detector's state with the drift flag blanked -/
def blank (s : State α) : State α := { s with drift := .none }

theorem link (c : Cfg α) (s s' : State α) (x : α) (hR : blank s = s') (hd : (s.drift == .drift) = false) :
    ((step c s x).1.drift == .drift) = (sys c).dec c.threshold ((sys c).stat s' x) ∧
    (((step c s x).1.drift == .drift) = false → blank (step c s x).1 = (sys c).stat s' x) := by
  subst hR
  have hnd : s.drift ≠ .drift := by simpa using hd
  obtain ⟨t, n, d, m, sm, mn, mx⟩ := s
  obtain ⟨cd, ct, cb, cdir⟩ := c
  simp only at hnd
  simp only [step, hnd, if_false, sys, core, blank, diffOf]
  cases cdir <;> cases d <;>
    simp_all [ite_beq_drift, Bool.decide_and] <;> rfl

/-- the first drift PageHinkley reports is the first alarm of `sys c` at its threshold -/
theorem first_drift_is_first_alarm (c : Cfg α) (xs : List α) :
    firstIdx (driftTrace (fun s x => (step c s x).1) (fun s => s.drift == .drift) init xs)
      = firstAlarm (sys c) c.threshold xs :=
  first_drift_eq _ _ (sys c) c.threshold (fun s s' => blank s = s') (fun s s' x hR hd => link c s s' x hR hd)
    xs init init (by simp [blank, init]) (by simp [init])

end carrier

section field
variable {K : Type} [Field K] [LinearOrder K] [IsStrictOrderedRing K]

/-- over an ordered field: with a non-negative running mean a larger threshold is a larger bound -/
theorem dec_antitone_of_mean_nonneg (c : Cfg K) (loose strict : K) (hle : loose ≤ strict)
    (s : State K) (hm : 0 ≤ s.mean) (h : (sys c).dec strict s = true) : (sys c).dec loose s = true := by
  simp only [sys, Bool.and_eq_true, decide_eq_true_eq] at *
  refine ⟨lt_of_le_of_lt ?_ h.1, h.2⟩
  exact mul_le_mul_of_nonneg_right hle hm

/-- **PageHinkley, partial.**  For thresholds `loose ≤ strict`, if every running mean of the
(un-reset) statistics run is non-negative, the first alarm under `strict` is never earlier. -/
theorem ph_first_alarm_mono_partial (c : Cfg K) (loose strict : K) (hle : loose ≤ strict) (xs : List K)
    (hmeans : ∀ k, k < xs.length → 0 ≤ ((xs.take (k + 1)).foldl (sys c).stat init).mean) :
    NoLater (firstAlarm (sys c) loose xs) (firstAlarm (sys c) strict xs) :=
  first_alarm_mono_on (sys c) loose strict (fun s => 0 ≤ s.mean)
    (fun s hm h => dec_antitone_of_mean_nonneg c loose strict hle s hm h) init xs hmeans

end field

/-- **Counter-example to the full statement (finding F12)**, checked by kernel evaluation over `ℤ`-valued data
embedded in `Int` arithmetic: on the stream −1, −1, −1, −1 with burn_in = 2, the stricter
threshold 1 alarms at the third sample while the looser threshold 0 never alarms. -/
theorem ph_threshold_counterexample :
    let c : Cfg Int := { delta := 0, threshold := 0, burnIn := 2, dir := .positive }
    firstAlarm (sys c) (1 : Int) [-1, -1, -1, -1] = some 2 ∧
    firstAlarm (sys c) (0 : Int) [-1, -1, -1, -1] = none := by
  decide

end MV.PH
