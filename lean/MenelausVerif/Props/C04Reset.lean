/-
  C04 — a manual `reset()` between updates restarts the epoch and touches nothing else.

  `Cusum.reset_frame`: `target`, `sd_hat`, the retained stream and the total counter are unchanged; the
  epoch counter, the drift state and both cumulative sums restart.  `Cusum.reset_prep`: resetting a
  detector that does not report drift never re-estimates (`prep` is the identity afterwards), so a
  user-supplied or estimated standardisation survives a manual reset.  `PH.reset_frame` likewise.
  Law-free: valid for every carrier, hence for the executed `Float` instance.
-/
import MenelausVerif.Model.Cusum
import MenelausVerif.Model.PageHinkley
set_option linter.unusedSectionVars false

namespace MV.Cusum
variable {α : Type} [Add α] [Sub α] [Mul α] [Div α] [LT α] [DecidableLT α] [NatCast α] [BEq α] [HasSqrt α]

theorem reset_frame (s : State α) :
    (reset s).target = s.target ∧ (reset s).sd = s.sd ∧ (reset s).hist = s.hist ∧ (reset s).total = s.total ∧
    (reset s).since = 0 ∧ (reset s).drift = .none ∧ (reset s).sh = zero ∧ (reset s).sl = zero := by
  simp [reset]

/-- after a manual reset the next update does not re-estimate `target` / `sd_hat` -/
theorem reset_prep (c : Cfg α) (s : State α) : prep c (reset s) = reset s := by
  simp [prep, reset]

theorem reset_idem (s : State α) : reset (reset s) = reset s := by simp [reset]
end MV.Cusum

namespace MV.PH
variable {α : Type} [Add α] [Sub α] [Mul α] [Div α] [LT α] [DecidableLT α] [NatCast α]

theorem reset_frame (s : State α) :
    (reset s).total = s.total ∧ (reset s).since = 0 ∧ (reset s).drift = .none ∧
    (reset s).mean = zero ∧ (reset s).sum = zero ∧ (reset s).mn = zero ∧ (reset s).mx = zero := by
  simp [reset]

theorem reset_idem (s : State α) : reset (reset s) = reset s := by simp [reset]
end MV.PH
