/-
  C20 — drift injectors change only the window and columns they are asked to change.

  Law-free part (every carrier, hence also the `Float` instance the driver executes): shape / labels /
  container preserved, rows outside `[from, to)` and all non-targeted columns unchanged (`Frame`),
  feature swap exchanges exactly the two columns and is an involution, the cell-level effect of label
  swap / join / shift / random walk as coded, resampled rows are rows of the window, cover spec.
  With lawful equality: label swap is an involution, swap / join cell specifications.
  Ordered fields: shift amount `shift_factor * (alpha + window mean)`, closed form of the random walk,
  the sampling vector `max(p + leftover, 0)` is non-negative and sums to at least one, always; when nothing
  is clamped (non-negative dictionary with sum at most one) it sums to one and gives each class present in the
  window its requested mass plus its per-sample share of the mass requested for absent classes.
-/
import MenelausVerif.Model.Inject
import Mathlib.Tactic.Ring
import Mathlib.Tactic.FieldSimp
import Mathlib.Tactic.Linarith
import Mathlib.Tactic.Positivity
import Mathlib.Algebra.Order.Field.Basic
import Mathlib.Algebra.Order.Field.Rat
import Mathlib.Tactic.NormNum
import Mathlib.Data.List.Nodup
import Mathlib.Data.List.Perm.Basic
import Mathlib.Algebra.BigOperators.Group.List.Basic
namespace MV.Inject
variable {α : Type}

theorem length_mapWin (f t : Nat) (g : Nat → List α → List α) (rows : List (List α)) :
    (mapWin f t g rows).length = rows.length := by
  simp [mapWin]

theorem getElem?_mapWin (f t : Nat) (g : Nat → List α → List α) (rows : List (List α)) (i : Nat) :
    (mapWin f t g rows)[i]? = (rows[i]?).map (fun r => if f ≤ i ∧ i < t then g (i - f) r else r) := by
  simp [mapWin, List.getElem?_mapIdx]

theorem mapWin_outside (f t : Nat) (g : Nat → List α → List α) (rows : List (List α)) (i : Nat)
    (h : ¬ (f ≤ i ∧ i < t)) : (mapWin f t g rows)[i]? = rows[i]? := by
  rw [getElem?_mapWin]; simp [h]

theorem mapWin_inside (f t : Nat) (g : Nat → List α → List α) (rows : List (List α)) (i : Nat)
    (h : f ≤ i ∧ i < t) : (mapWin f t g rows)[i]? = (rows[i]?).map (g (i - f)) := by
  rw [getElem?_mapWin]; simp [h]

theorem mapWin_mapWin (f t : Nat) (g h : Nat → List α → List α) (rows : List (List α)) :
    mapWin f t g (mapWin f t h rows) = mapWin f t (fun k r => g k (h k r)) rows := by
  apply List.ext_getElem?
  intro i
  simp only [getElem?_mapWin, Option.map_map]
  congr 1
  funext r
  by_cases hi : f ≤ i ∧ i < t <;> simp [hi]

theorem mapWin_id (f t : Nat) (g : Nat → List α → List α) (rows : List (List α))
    (hg : ∀ k r, g k r = r) : mapWin f t g rows = rows := by
  apply List.ext_getElem?
  intro i
  simp [getElem?_mapWin, hg]

/-- what "changes only the window `[f, t)` and the columns `cols`" means -/
structure Frame (f t : Nat) (cols : List Nat) (d d' : Data α) : Prop where
  labels : d'.labels = d.labels
  width : d'.width = d.width
  nrows : d'.rows.length = d.rows.length
  rowLen : ∀ i : Nat, (d'.rows[i]?).map List.length = (d.rows[i]?).map List.length
  outside : ∀ i : Nat, ¬ (f ≤ i ∧ i < t) → d'.rows[i]? = d.rows[i]?
  others : ∀ i j : Nat, j ∉ cols → cell d'.rows i j = cell d.rows i j

theorem frame_mapWin (d : Data α) (f t : Nat) (cols : List Nat) (g : Nat → List α → List α)
    (hlen : ∀ k r, (g k r).length = r.length)
    (hoth : ∀ k r j, j ∉ cols → (g k r)[j]? = r[j]?) :
    Frame f t cols d { d with rows := mapWin f t g d.rows } := by
  refine ⟨rfl, rfl, length_mapWin .., ?_, ?_, ?_⟩
  · intro i
    simp only [getElem?_mapWin, Option.map_map]
    cases d.rows[i]? with
    | none => rfl
    | some r => by_cases hi : f ≤ i ∧ i < t <;> simp [hi, hlen]
  · intro i hi
    exact mapWin_outside f t g d.rows i hi
  · intro i j hj
    simp only [cell, getElem?_mapWin]
    cases d.rows[i]? with
    | none => rfl
    | some r => by_cases hi : f ≤ i ∧ i < t <;> simp [hi, hoth _ _ _ hj]

/-! ### row-level helpers -/

theorem modify_other (c : Nat) (g : α → α) (r : List α) (j : Nat) (h : j ∉ [c]) :
    (r.modify c g)[j]? = r[j]? := by
  have : c ≠ j := by simpa [eq_comm] using h
  simp [this]

theorem modify_self (c : Nat) (g : α → α) (r : List α) :
    (r.modify c g)[c]? = (r[c]?).map g := by
  simp

theorem modify_modify (c : Nat) (g h : α → α) (r : List α) :
    (r.modify c h).modify c g = r.modify c (g ∘ h) := by
  apply List.ext_getElem?
  intro j
  simp only [List.getElem?_modify]
  cases r[j]? with
  | none => rfl
  | some a => by_cases hj : c = j <;> simp [hj]

theorem modify_id (c : Nat) (g : α → α) (r : List α) (hg : ∀ x, g x = x) : r.modify c g = r := by
  apply List.ext_getElem?
  intro j
  simp only [List.getElem?_modify]
  cases r[j]? with
  | none => rfl
  | some a => by_cases hj : c = j <;> simp [hj, hg]

theorem length_swapCells (c1 c2 : Nat) (r : List α) : (swapCells c1 c2 r).length = r.length := by
  unfold swapCells
  split <;> simp

theorem swapCells_other (c1 c2 : Nat) (r : List α) (j : Nat) (h : j ∉ [c1, c2]) :
    (swapCells c1 c2 r)[j]? = r[j]? := by
  have h1 : c1 ≠ j := by intro e; apply h; simp [e]
  have h2 : c2 ≠ j := by intro e; apply h; simp [e]
  unfold swapCells
  split
  · simp [h1, h2]
  · rfl

/-- inside a row that has both columns the two cells are exchanged -/
theorem swapCells_spec (c1 c2 : Nat) (r : List α) (h1 : c1 < r.length) (h2 : c2 < r.length) :
    (swapCells c1 c2 r)[c1]? = r[c2]? ∧ (swapCells c1 c2 r)[c2]? = r[c1]? := by
  unfold swapCells
  have e1 : r[c1]? = some r[c1] := List.getElem?_eq_getElem h1
  have e2 : r[c2]? = some r[c2] := List.getElem?_eq_getElem h2
  rw [e1, e2]
  simp only [List.getElem?_set, List.length_set]
  by_cases h : c1 = c2
  · subst h; simp [h1]
  · have h' : ¬ c2 = c1 := fun e => h e.symm
    simp [h', h1, h2]

theorem swapCells_eq (c1 c2 : Nat) (r : List α) (a b : α) (h1 : r[c1]? = some a) (h2 : r[c2]? = some b) :
    swapCells c1 c2 r = (r.set c1 b).set c2 a := by
  simp [swapCells, h1, h2]

theorem swapCells_swapCells (c1 c2 : Nat) (r : List α) : swapCells c1 c2 (swapCells c1 c2 r) = r := by
  by_cases h1 : c1 < r.length
  · by_cases h2 : c2 < r.length
    · obtain ⟨s1, s2⟩ := swapCells_spec c1 c2 r h1 h2
      have e1 : r[c1]? = some r[c1] := List.getElem?_eq_getElem h1
      have e2 : r[c2]? = some r[c2] := List.getElem?_eq_getElem h2
      rw [swapCells_eq c1 c2 (swapCells c1 c2 r) r[c2] r[c1] (by rw [s1, e2]) (by rw [s2, e1])]
      apply List.ext_getElem?
      intro j
      simp only [List.getElem?_set, List.length_set, length_swapCells]
      by_cases hj2 : c2 = j
      · subst hj2; simp [h2]
      · by_cases hj1 : c1 = j
        · subst hj1; simp [hj2, h1]
        · simp only [hj2, hj1, if_false]
          exact swapCells_other c1 c2 r j (by simp [eq_comm, hj1, hj2])
    · have : r[c2]? = none := by simp at h2; simp [h2]
      simp [swapCells, this]
  · have : r[c1]? = none := by simp at h1; simp [h1]
    simp [swapCells, this]

/-! ### the column argument resolves the same way on the returned data -/

theorem resolve_congr (d d' : Data α) (hl : d'.labels = d.labels) (hw : d'.width = d.width) (c : Lbl) :
    resolve d' c = resolve d c := by
  simp [resolve, hl, hw]


/-! ### FeatureShiftInjector -/

/-- shape, labels, rows outside the window and all other columns are untouched -/
theorem featureShift_frame [Add α] [Mul α] [Div α] [NatCast α] (d d' : Data α) (f t : Nat) (col : Lbl) (sf al : α)
    (h : featureShift d f t col sf al = .ok d') :
    ∃ c, resolve d col = .ok c ∧ Frame f t [c] d d' := by
  unfold featureShift at h
  cases hc : resolve d col with
  | error e => simp [hc] at h
  | ok c =>
    simp only [hc, Except.ok.injEq] at h
    subst h
    exact ⟨c, rfl, frame_mapWin d f t [c] _ (fun _ r => List.length_modify ..)
      (fun _ r j hj => modify_other c _ r j hj)⟩

/-- inside the window the cell of the column is `cell + (alpha + mean of the window column) * shift_factor` -/
theorem featureShift_spec [Add α] [Mul α] [Div α] [NatCast α] (d d' : Data α) (f t : Nat) (col : Lbl) (sf al : α) (c : Nat)
    (h : featureShift d f t col sf al = .ok d') (hc : resolve d col = .ok c)
    (i : Nat) (hi : f ≤ i ∧ i < t) :
    cell d'.rows i c = (cell d.rows i c).map (· + (al + meanL (colOf c (window f t d.rows))) * sf) := by
  unfold featureShift at h
  simp only [hc, Except.ok.injEq] at h
  subst h
  simp only [cell, mapWin_inside _ _ _ _ _ hi, shiftDelta]
  cases d.rows[i]? with
  | none => rfl
  | some r => simp

/-! ### FeatureSwapInjector -/

theorem featureSwap_frame (d d' : Data α) (f t : Nat) (col1 col2 : Lbl)
    (h : featureSwap d f t col1 col2 = .ok d') :
    ∃ c1 c2, resolve d col1 = .ok c1 ∧ resolve d col2 = .ok c2 ∧ Frame f t [c1, c2] d d' := by
  unfold featureSwap at h
  cases hc1 : resolve d col1 with
  | error e => simp [hc1] at h
  | ok c1 =>
    cases hc2 : resolve d col2 with
    | error e => simp [hc1, hc2] at h
    | ok c2 =>
      simp only [hc1, hc2, Except.ok.injEq] at h
      subst h
      exact ⟨c1, c2, rfl, rfl, frame_mapWin d f t [c1, c2] _ (fun _ r => length_swapCells c1 c2 r)
        (fun _ r j hj => swapCells_other c1 c2 r j hj)⟩

/-- inside the window the two columns are exchanged (rows that have both columns — all rows of a
    rectangular table, since `resolve` only yields columns inside the width) -/
theorem featureSwap_spec (d d' : Data α) (f t : Nat) (col1 col2 : Lbl) (c1 c2 : Nat)
    (h : featureSwap d f t col1 col2 = .ok d') (hc1 : resolve d col1 = .ok c1) (hc2 : resolve d col2 = .ok c2)
    (i : Nat) (hi : f ≤ i ∧ i < t) (r : List α) (hr : d.rows[i]? = some r)
    (h1 : c1 < r.length) (h2 : c2 < r.length) :
    cell d'.rows i c1 = cell d.rows i c2 ∧ cell d'.rows i c2 = cell d.rows i c1 := by
  unfold featureSwap at h
  simp only [hc1, hc2, Except.ok.injEq] at h
  subst h
  simp only [cell, mapWin_inside _ _ _ _ _ hi, hr, Option.map_some, Option.bind_some]
  exact swapCells_spec c1 c2 r h1 h2

/-- applying the swap twice restores the input -/
theorem featureSwap_involution (d d' : Data α) (f t : Nat) (col1 col2 : Lbl)
    (h : featureSwap d f t col1 col2 = .ok d') : featureSwap d' f t col1 col2 = .ok d := by
  obtain ⟨c1, c2, hc1, hc2, fr⟩ := featureSwap_frame d d' f t col1 col2 h
  unfold featureSwap at h ⊢
  simp only [hc1, hc2, Except.ok.injEq] at h
  rw [resolve_congr d d' fr.labels fr.width, resolve_congr d d' fr.labels fr.width, hc1, hc2]
  subst h
  simp only [mapWin_mapWin, swapCells_swapCells]
  rw [mapWin_id _ _ _ _ (fun _ _ => rfl)]

/-! ### LabelSwapInjector -/

theorem labelSwap_frame [BEq α] (d d' : Data α) (f t : Nat) (col : Lbl) (a b : α)
    (h : labelSwap d f t col a b = .ok d') :
    ∃ c, resolve d col = .ok c ∧ Frame f t [c] d d' := by
  unfold labelSwap at h
  cases hc : resolve d col with
  | error e => simp [hc] at h
  | ok c =>
    simp only [hc, Except.ok.injEq] at h
    subst h
    exact ⟨c, rfl, frame_mapWin d f t [c] _ (fun _ r => List.length_modify ..)
      (fun _ r j hj => modify_other c _ r j hj)⟩

theorem labelSwap_cell [BEq α] (d d' : Data α) (f t : Nat) (col : Lbl) (a b : α) (c : Nat)
    (h : labelSwap d f t col a b = .ok d') (hc : resolve d col = .ok c)
    (i : Nat) (hi : f ≤ i ∧ i < t) :
    cell d'.rows i c = (cell d.rows i c).map (swapLabel a b) := by
  unfold labelSwap at h
  simp only [hc, Except.ok.injEq] at h
  subst h
  simp only [cell, mapWin_inside _ _ _ _ _ hi]
  cases d.rows[i]? with
  | none => rfl
  | some r => simp

/-- the class exchange, cell by cell (equality of the carrier is the lawful one) -/
theorem swapLabel_spec [BEq α] [LawfulBEq α] (a b x : α) :
    (x = a → swapLabel a b x = b) ∧ (x = b → swapLabel a b x = a) ∧
    (x ≠ a → x ≠ b → swapLabel a b x = x) := by
  unfold swapLabel
  refine ⟨?_, ?_, ?_⟩
  · intro h; subst h
    by_cases hab : x = b
    · subst hab; simp
    · simp [hab]
  · intro h; subst h; simp
  · intro h1 h2; simp [h1, h2]

theorem swapLabel_swapLabel [BEq α] [LawfulBEq α] (a b x : α) : swapLabel a b (swapLabel a b x) = x := by
  unfold swapLabel
  by_cases h2 : x = b
  · subst h2
    by_cases hab : a = x
    · subst hab; simp
    · simp [hab]
  · by_cases h1 : x = a
    · subst h1; simp [h2]
    · simp [h1, h2]

/-- applying the class swap twice restores the input -/
theorem labelSwap_involution [BEq α] [LawfulBEq α] (d d' : Data α) (f t : Nat) (col : Lbl) (a b : α)
    (h : labelSwap d f t col a b = .ok d') : labelSwap d' f t col a b = .ok d := by
  obtain ⟨c, hc, fr⟩ := labelSwap_frame d d' f t col a b h
  unfold labelSwap at h ⊢
  simp only [hc, Except.ok.injEq] at h
  rw [resolve_congr d d' fr.labels fr.width, hc]
  subst h
  simp only [mapWin_mapWin, modify_modify]
  rw [mapWin_id f t _ d.rows (fun _ r => modify_id c (swapLabel a b ∘ swapLabel a b) r (fun x => swapLabel_swapLabel a b x))]

/-! ### LabelJoinInjector -/

theorem labelJoin_frame [BEq α] (d d' : Data α) (f t : Nat) (col : Lbl) (a b nw : α)
    (h : labelJoin d f t col a b nw = .ok d') :
    ∃ c, resolve d col = .ok c ∧ Frame f t [c] d d' := by
  unfold labelJoin at h
  cases hc : resolve d col with
  | error e => simp [hc] at h
  | ok c =>
    simp only [hc, Except.ok.injEq] at h
    subst h
    exact ⟨c, rfl, frame_mapWin d f t [c] _ (fun _ r => List.length_modify ..)
      (fun _ r j hj => modify_other c _ r j hj)⟩

theorem labelJoin_cell [BEq α] (d d' : Data α) (f t : Nat) (col : Lbl) (a b nw : α) (c : Nat)
    (h : labelJoin d f t col a b nw = .ok d') (hc : resolve d col = .ok c)
    (i : Nat) (hi : f ≤ i ∧ i < t) :
    cell d'.rows i c = (cell d.rows i c).map (joinLabel a b nw) := by
  unfold labelJoin at h
  simp only [hc, Except.ok.injEq] at h
  subst h
  simp only [cell, mapWin_inside _ _ _ _ _ hi]
  cases d.rows[i]? with
  | none => rfl
  | some r => simp

/-- both classes become the new class, every other label stays -/
theorem joinLabel_spec [BEq α] [LawfulBEq α] (a b nw x : α) :
    ((x = a ∨ x = b) → joinLabel a b nw x = nw) ∧ (x ≠ a → x ≠ b → joinLabel a b nw x = x) := by
  unfold joinLabel
  constructor
  · rintro (h | h) <;> subst h <;> simp
  · intro h1 h2; simp [h1, h2]

/-! ### BrownianNoiseInjector -/

section brownian
variable [Add α] [Div α] [Neg α] [NatCast α] [HasSqrt α]

theorem length_walkFrom (steps : Nat) (prev : α) (ds : List Bool) :
    (walkFrom steps prev ds).length = ds.length := by
  induction ds generalizing prev with
  | nil => rfl
  | cons u ds ih => simp [walkFrom, ih]

/-- one noise value per row of the window -/
theorem length_randomWalk [Mul α] (steps : Nat) (x0 : α) (draws : List Bool) (h : draws.length = steps - 1) :
    (randomWalk steps x0 draws).length = steps := by
  unfold randomWalk
  by_cases hs : steps = 0
  · simp [hs]
  · simp only [hs, if_false, List.length_cons, length_walkFrom]; omega

/-- the walk starts at `x0` (`np.ones(steps) * x0`) -/
theorem randomWalk_zero [Mul α] (steps : Nat) (x0 : α) (draws : List Bool) (h : steps ≠ 0) :
    (randomWalk steps x0 draws)[0]? = some (one * x0) := by
  simp [randomWalk, h]

theorem walkFrom_succ (steps : Nat) (prev : α) (ds : List Bool) (k : Nat) (up : Bool) (v : α)
    (hv : (prev :: walkFrom steps prev ds)[k]? = some v) (hu : ds[k]? = some up) :
    (prev :: walkFrom steps prev ds)[k + 1]? = some (v + walkStep steps up) := by
  induction ds generalizing prev k with
  | nil => simp at hu
  | cons u ds ih =>
    cases k with
    | zero =>
      simp only [List.getElem?_cons_zero, Option.some.injEq] at hv hu
      subst hv; subst hu
      simp [walkFrom]
    | succ k =>
      simp only [List.getElem?_cons_succ, walkFrom] at hv hu ⊢
      exact ih _ k hv hu

/-- `w[k+1] = w[k] + y_k / sqrt(steps)` where `y_k = ±1` is the `k`-th draw -/
theorem randomWalk_succ [Mul α] (steps : Nat) (x0 : α) (draws : List Bool) (k : Nat) (up : Bool) (v : α)
    (hv : (randomWalk steps x0 draws)[k]? = some v) (hu : draws[k]? = some up) :
    (randomWalk steps x0 draws)[k + 1]? = some (v + walkStep steps up) := by
  unfold randomWalk at hv ⊢
  by_cases hs : steps = 0
  · simp [hs] at hv
  · simp only [hs, if_false] at hv ⊢
    exact walkFrom_succ steps _ draws k up v hv hu

theorem brownian_frame [Mul α] (d d' : Data α) (f t : Nat) (col : Lbl) (x0 : α) (draws : List Bool)
    (h : brownian d f t col x0 draws = .ok d') :
    ∃ c, resolve d col = .ok c ∧ draws.length = t - f - 1 ∧ Frame f t [c] d d' := by
  unfold brownian at h
  cases hc : resolve d col with
  | error e => simp [hc] at h
  | ok c =>
    simp only [hc] at h
    by_cases hd : draws.length ≠ t - f - 1
    · simp [hd] at h
    · simp only [hd, if_false, Except.ok.injEq] at h
      subst h
      refine ⟨c, rfl, by omega, frame_mapWin d f t [c] _ ?_ ?_⟩
      · intro k r; split <;> simp
      · intro k r j hj; split
        · exact modify_other c _ r j hj
        · rfl

/-- inside the window, row `i` gets the walk value number `i - from` added in the column -/
theorem brownian_spec [Mul α] (d d' : Data α) (f t : Nat) (col : Lbl) (x0 : α) (draws : List Bool) (c : Nat)
    (h : brownian d f t col x0 draws = .ok d') (hc : resolve d col = .ok c)
    (i : Nat) (hi : f ≤ i ∧ i < t) :
    ∃ v, (randomWalk (t - f) x0 draws)[i - f]? = some v ∧
      cell d'.rows i c = (cell d.rows i c).map (· + v) := by
  obtain ⟨_, _, hlen, _⟩ := brownian_frame d d' f t col x0 draws h
  unfold brownian at h
  simp only [hc] at h
  have hd : ¬ draws.length ≠ t - f - 1 := by simp [hlen]
  simp only [hd, if_false, Except.ok.injEq] at h
  subst h
  have hw := length_randomWalk (t - f) x0 draws hlen
  have hlt : i - f < (randomWalk (t - f) x0 draws).length := by omega
  refine ⟨(randomWalk (t - f) x0 draws)[i - f], List.getElem?_eq_getElem hlt, ?_⟩
  simp only [cell, mapWin_inside _ _ _ _ _ hi, List.getElem?_eq_getElem hlt]
  cases d.rows[i]? with
  | none => rfl
  | some r => simp

end brownian

/-! ### LabelProbabilityInjector / LabelDirichletInjector: frame and "rows come from the window" -/

section prob
variable [Add α] [Sub α] [Div α] [Neg α] [LT α] [DecidableLT α] [NatCast α] [BEq α]

omit [Add α] [Sub α] [Div α] [Neg α] [LT α] [DecidableLT α] [NatCast α] in
theorem mem_classIdx (rows : List (List α)) (f t c : Nat) (cls : α) (s : Nat)
    (h : s ∈ classIdx rows f t c cls) : f ≤ s ∧ s < t ∧ s < rows.length := by
  simp only [classIdx, List.mem_filter, List.mem_range, Bool.and_eq_true, decide_eq_true_eq] at h
  omega

/-- the population handed to `np.random.choice` consists of rows of the window -/
theorem probPlan_grouped_mem (rows : List (List α)) (f t c : Nat) (cp : List (α × α)) (plan : Plan α)
    (h : probPlan rows f t c cp = .ok plan) (s : Nat) (hs : s ∈ plan.grouped) :
    f ≤ s ∧ s < t ∧ s < rows.length := by
  unfold probPlan at h
  simp only at h
  split at h
  · simp at h
  · split at h
    · simp at h
    · split at h
      · simp only [Except.ok.injEq] at h; subst h; simp at hs
      · simp only [Except.ok.injEq] at h; subst h
        simp only [groupsOf, List.mem_flatMap, List.mem_map] at hs
        obtain ⟨g, ⟨cls, _, rfl⟩, hs⟩ := hs
        exact mem_classIdx rows f t c cls s hs

omit [Add α] [Sub α] [Div α] [Neg α] [LT α] [DecidableLT α] [NatCast α] [BEq α] in
theorem length_resampleRows (rows : List (List α)) (f t : Nat) (sample : List Nat) :
    (resampleRows rows f t sample).length = rows.length := length_mapWin ..

/-- same container, labels, width and number of rows; rows outside the window untouched -/
theorem labelProb_frame (d d' : Data α) (f t : Nat) (col : Lbl) (cp : List (α × α)) (sample : List Nat)
    (plan : Plan α) (h : labelProb d f t col cp sample = .ok (d', plan)) :
    d'.labels = d.labels ∧ d'.width = d.width ∧ d'.rows.length = d.rows.length ∧
      ∀ i : Nat, ¬ (f ≤ i ∧ i < t) → d'.rows[i]? = d.rows[i]? := by
  unfold labelProb at h
  split at h
  · simp at h
  · split at h
    · simp at h
    · split at h
      · split at h
        · simp only [Except.ok.injEq, Prod.mk.injEq] at h
          obtain ⟨rfl, _⟩ := h
          exact ⟨rfl, rfl, rfl, fun _ _ => rfl⟩
        · simp at h
      · split at h
        · simp at h
        · split at h
          · simp at h
          · split at h
            · simp at h
            · simp only [Except.ok.injEq, Prod.mk.injEq] at h
              obtain ⟨rfl, _⟩ := h
              exact ⟨rfl, rfl, length_resampleRows .., fun i hi => by
                simp only [resampleRows]; exact mapWin_outside f t _ d.rows i hi⟩

/-- every row of the window of the result is a row of the window of the input -/
theorem labelProb_rows_from_window (d d' : Data α) (f t : Nat) (col : Lbl) (cp : List (α × α))
    (sample : List Nat) (plan : Plan α) (h : labelProb d f t col cp sample = .ok (d', plan))
    (i : Nat) (hi : f ≤ i ∧ i < t) :
    ∃ j : Nat, (f ≤ j ∧ j < t) ∧ d'.rows[i]? = d.rows[j]? := by
  unfold labelProb at h
  split at h
  · simp at h
  · rename_i c hc
    split at h
    · simp at h
    · rename_i pl hpl
      split at h
      · split at h
        · simp only [Except.ok.injEq, Prod.mk.injEq] at h
          obtain ⟨rfl, _⟩ := h
          exact ⟨i, hi, rfl⟩
        · simp at h
      · split at h
        · simp at h
        · split at h
          · simp at h
          · split at h
            · simp at h
            · rename_i hv
              simp only [Except.ok.injEq, Prod.mk.injEq] at h
              obtain ⟨rfl, _⟩ := h
              simp only [not_or, Decidable.not_not, Bool.not_eq_true, Bool.not_eq_false'] at hv
              obtain ⟨hlen, hall⟩ := hv
              by_cases hn : i < d.rows.length
              · have hk : i - f < sample.length := by omega
                have hs := List.getElem?_eq_getElem hk
                have hmem : sample[i - f] ∈ pl.grouped := by
                  have := List.all_eq_true.mp hall sample[i - f] (List.getElem_mem hk)
                  simpa using this
                obtain ⟨h1, h2, h3⟩ := probPlan_grouped_mem d.rows f t c cp pl hpl _ hmem
                refine ⟨sample[i - f], ⟨h1, h2⟩, ?_⟩
                simp only [resampleRows, mapWin_inside _ _ _ _ _ hi, hs, Option.bind_some,
                  List.getElem?_eq_getElem h3, List.getElem?_eq_getElem hn, Option.map_some]
              · refine ⟨i, hi, ?_⟩
                have hn' : d.rows.length ≤ i := by omega
                simp [resampleRows, mapWin_inside _ _ _ _ _ hi, hn']

/-- `LabelDirichletInjector` is `LabelProbabilityInjector` on the drawn vector -/
theorem labelDirichlet_eq (d : Data α) (f t : Nat) (col : Lbl) (keys dir : List α) (sample : List Nat)
    (res : Data α × Plan α) (h : labelDirichlet d f t col keys dir sample = .ok res) :
    labelProb d f t col (keys.zip dir) sample = .ok res := by
  unfold labelDirichlet at h
  split at h
  · simp at h
  · exact h

end prob
/-! ### FeatureCoverInjector -/

section cover
variable [LT α] [DecidableLT α] [BEq α]

omit [LT α] [DecidableLT α] in
theorem mem_groupIdx (rows : List (List α)) (c : Nat) (key : α) (i : Nat) :
    i ∈ groupIdx rows c key ↔ i < rows.length ∧ cellIs rows c key i = true := by
  simp [groupIdx, List.mem_filter, List.mem_range]

omit [LT α] [DecidableLT α] [BEq α] in
theorem mem_takeGroup (rows : List (List α)) (c : Nat) (idx ds : List Nat) (r' : List α)
    (h : r' ∈ takeGroup rows c idx ds) :
    ∃ i ∈ idx, ∃ r, rows[i]? = some r ∧ r' = r.eraseIdx c := by
  simp only [takeGroup, List.mem_filterMap] at h
  obtain ⟨j, _, hj⟩ := h
  cases hi : idx[j]? with
  | none => simp [hi] at hj
  | some i =>
    cases hr : rows[i]? with
    | none => simp [hi, hr] at hj
    | some r =>
      simp only [hi, hr, Option.bind_some, Option.map_some, Option.some.injEq] at hj
      exact ⟨i, List.mem_of_getElem? hi, r, hr, hj.symm⟩

omit [LT α] [DecidableLT α] [BEq α] in
theorem length_filterMap_of_isSome {β γ : Type} (g : β → Option γ) (l : List β)
    (h : ∀ x ∈ l, (g x).isSome = true) : (l.filterMap g).length = l.length := by
  induction l with
  | nil => rfl
  | cons x xs ih =>
    have hx := h x (by simp)
    cases hgx : g x with
    | none => simp [hgx] at hx
    | some y =>
      simp only [List.filterMap_cons, hgx, List.length_cons]
      rw [ih (fun z hz => h z (by simp [hz]))]

omit [LT α] [DecidableLT α] [BEq α] in
/-- a valid draw takes exactly `n` rows of the group -/
theorem length_takeGroup (rows : List (List α)) (c n : Nat) (idx ds : List Nat)
    (hidx : ∀ i ∈ idx, i < rows.length) (hv : validDraw n idx.length ds = true) :
    (takeGroup rows c idx ds).length = n := by
  simp only [validDraw, Bool.and_eq_true, beq_iff_eq, List.all_eq_true, decide_eq_true_eq] at hv
  obtain ⟨⟨hl, hlt⟩, _⟩ := hv
  unfold takeGroup
  rw [length_filterMap_of_isSome, hl]
  intro j hj
  have h1 : j < idx.length := hlt j hj
  have h2 : idx[j] < rows.length := hidx _ (List.getElem_mem h1)
  simp [List.getElem?_eq_getElem h1, List.getElem?_eq_getElem h2]

omit [LT α] [DecidableLT α] [BEq α] in
theorem cover_mem_aux (rows : List (List α)) (c : Nat) (gs ds : List (List Nat)) (r' : List α)
    (h : r' ∈ (List.zipWith (takeGroup rows c) gs ds).flatten) :
    ∃ g ∈ gs, ∃ i ∈ g, ∃ r, rows[i]? = some r ∧ r' = r.eraseIdx c := by
  induction gs generalizing ds with
  | nil => simp at h
  | cons g gs ih =>
    cases ds with
    | nil => simp at h
    | cons d ds =>
      simp only [List.zipWith_cons_cons, List.flatten_cons, List.mem_append] at h
      rcases h with h | h
      · obtain ⟨i, hi, r, hr, e⟩ := mem_takeGroup rows c g d r' h
        exact ⟨g, by simp, i, hi, r, hr, e⟩
      · obtain ⟨g', hg', rest⟩ := ih ds h
        exact ⟨g', by simp [hg'], rest⟩

omit [LT α] [DecidableLT α] [BEq α] in
theorem cover_len_aux (rows : List (List α)) (c n : Nat) (gs ds : List (List Nat))
    (hlen : ds.length = gs.length) (hidx : ∀ g ∈ gs, ∀ i ∈ g, i < rows.length)
    (hv : (List.zipWith (fun g d => validDraw n g.length d) gs ds).all id = true) :
    (List.zipWith (takeGroup rows c) gs ds).flatten.length = n * gs.length := by
  induction gs generalizing ds with
  | nil => simp
  | cons g gs ih =>
    cases ds with
    | nil => simp at hlen
    | cons d ds =>
      simp only [List.zipWith_cons_cons, List.all_cons, id, Bool.and_eq_true] at hv
      simp only [List.zipWith_cons_cons, List.flatten_cons, List.length_append, List.length_cons]
      rw [length_takeGroup rows c n g d (hidx g (by simp)) hv.1,
        ih ds (by simpa using hlen) (fun g' hg' => hidx g' (by simp [hg'])) hv.2]
      rw [Nat.mul_succ, Nat.add_comm]

/-- **cover spec.**  The hidden column is dropped from labels and width; the result has the requested
    sample per group (`sample_size // number of groups` rows for every group); every returned row is a row
    of the input with the column hidden. -/
theorem featureCover_spec (d d' : Data α) (col : Lbl) (ss : Nat) (draws : List (List Nat))
    (h : featureCover d col ss draws = .ok d') :
    ∃ c, resolveDf d col = .ok c ∧
      d'.labels = d.labels.map (·.eraseIdx c) ∧ d'.width = d.width - 1 ∧
      d'.rows.length = ss / (unique (colOf c d.rows)).length * (unique (colOf c d.rows)).length ∧
      ∀ r' ∈ d'.rows, ∃ key ∈ unique (colOf c d.rows), ∃ i r, d.rows[i]? = some r ∧
        cellIs d.rows c key i = true ∧ r' = r.eraseIdx c := by
  unfold featureCover at h
  cases hc : resolveDf d col with
  | error e => simp [hc] at h
  | ok c =>
    simp only [hc] at h
    split at h
    · simp at h
    · split at h
      · simp at h
      · split at h
        · simp at h
        · rename_i hv
          simp only [Except.ok.injEq] at h
          subst h
          simp only [not_or, Decidable.not_not, Bool.not_eq_true, Bool.not_eq_false'] at hv
          refine ⟨c, rfl, rfl, rfl, ?_, ?_⟩
          · have := cover_len_aux d.rows c (ss / (unique (colOf c d.rows)).length)
              ((unique (colOf c d.rows)).map (groupIdx d.rows c)) draws (by simpa using hv.1)
              (by
                intro g hg i hi
                simp only [List.mem_map] at hg
                obtain ⟨key, _, rfl⟩ := hg
                exact ((mem_groupIdx d.rows c key i).mp hi).1)
              hv.2
            simpa using this
          · intro r' hr'
            obtain ⟨g, hg, i, hi, r, hr, e⟩ := cover_mem_aux d.rows c _ draws r' hr'
            simp only [List.mem_map] at hg
            obtain ⟨key, hkey, rfl⟩ := hg
            exact ⟨key, hkey, i, r, hr, ((mem_groupIdx d.rows c key i).mp hi).2, e⟩

end cover
/-! ### the probability vector of LabelProbabilityInjector: structure (law-free) -/

section plan
variable [Add α] [Sub α] [Div α] [Neg α] [LT α] [DecidableLT α] [NatCast α] [BEq α]

/-- classes of the data that `class_probabilities` does not mention -/
def undefOf (rows : List (List α)) (c : Nat) (cp : List (α × α)) : List α :=
  (unique (colOf c rows)).filter (fun k => !keyIn cp k)

/-- the completed dictionary -/
def fullOf (rows : List (List α)) (c : Nat) (cp : List (α × α)) : List (α × α) :=
  completeProbs cp (undefOf rows c cp)

/-- per-sample probabilities before the leftover is spread -/
def rawPOf (rows : List (List α)) (f t c : Nat) (cp : List (α × α)) : List α :=
  rawP (fullOf rows c cp) (groupsOf rows f t c)

/-- `p_leftover` -/
def leftoverOf (rows : List (List α)) (f t c : Nat) (cp : List (α × α)) : α :=
  (one - sumL (rawPOf rows f t c cp)) / (((rawPOf rows f t c cp).length : Nat) : α)

/-- what an accepted call hands to `np.random.choice`: the sum test did not reject, and every entry is
    `max(p + p_leftover, 0.0)` -/
theorem probPlan_inv (rows : List (List α)) (f t c : Nat) (cp : List (α × α)) (plan : Plan α)
    (h : probPlan rows f t c cp = .ok plan) :
    ¬ rejectSum (sumL (cp.map (·.2))) ∧
    (((groupsOf rows f t c).flatMap (·.2) = [] ∧ plan = ⟨[], []⟩) ∨
     ((groupsOf rows f t c).flatMap (·.2) ≠ [] ∧
       plan = ⟨(groupsOf rows f t c).flatMap (·.2),
               (rawPOf rows f t c cp).map (fun x => pyMax (x + leftoverOf rows f t c cp) zero)⟩)) := by
  unfold probPlan at h
  simp only at h
  split at h
  · simp at h
  · rename_i hs
    refine ⟨hs, ?_⟩
    split at h
    · simp at h
    · split at h
      · rename_i he
        simp only [Except.ok.injEq] at h
        left; exact ⟨by simpa using he, h.symm⟩
      · rename_i he
        simp only [Except.ok.injEq] at h
        right; exact ⟨by simpa using he, h.symm⟩

omit [Add α] [Sub α] [Neg α] [LT α] [DecidableLT α] in
/-- one probability per member of the population, in the same (class-grouped) order -/
theorem length_rawP (full : List (α × α)) (groups : List (α × List Nat)) :
    (rawP full groups).length = (groups.flatMap (·.2)).length := by
  induction groups with
  | nil => rfl
  | cons g gs ih => simp [rawP, List.flatMap_cons] at ih ⊢

omit [Add α] [Sub α] [Neg α] [LT α] [DecidableLT α] in
/-- the vector, class by class: every window member of class `g.1` gets the image of
    `class_probabilities[g.1] / (members of the class in the window)` -/
theorem rawP_map (full : List (α × α)) (groups : List (α × List Nat)) (φ : α → α) :
    (rawP full groups).map φ =
      groups.flatMap (fun g => List.replicate g.2.length
        (φ (probOf full g.1 / ((g.2.length : Nat) : α)))) := by
  simp [rawP, List.map_flatMap]

end plan
/-! ### arithmetic content, for every ordered field -/

section field
variable {K : Type} [Field K]

theorem foldl_add_eq (a : K) (xs : List K) : xs.foldl (· + ·) a = a + xs.sum := by
  induction xs generalizing a with
  | nil => simp
  | cons x xs ih => simp [ih, add_assoc]

/-- Python's `sum` is the sum -/
theorem sumL_eq_sum (xs : List K) : sumL xs = xs.sum := by
  simp [sumL, zero, foldl_add_eq]

/-- **shift spec.**  `delta = shift_factor * (alpha + window mean)`, the mean being the sum of the
    window's column over its length -/
theorem shiftDelta_eq (rows : List (List K)) (f t c : Nat) (sf al : K) :
    shiftDelta rows f t c sf al =
      sf * (al + (colOf c (window f t rows)).sum / ((colOf c (window f t rows)).length : K)) := by
  simp [shiftDelta, meanL, sumL_eq_sum]; ring

/-- net number of up-steps among the draws -/
def net : List Bool → Int
  | [] => 0
  | u :: l => (if u then 1 else -1) + net l

theorem walkFrom_closed [HasSqrt K] (steps : Nat) (prev : K) (ds : List Bool) (k : Nat) (v : K)
    (hv : (prev :: walkFrom steps prev ds)[k]? = some v) :
    v = prev + ((net (ds.take k) : Int) : K) / sqrt ((steps : Nat) : K) := by
  induction ds generalizing prev k with
  | nil =>
    cases k with
    | zero => simp at hv; simp [net, hv]
    | succ k => simp [walkFrom] at hv
  | cons u ds ih =>
    cases k with
    | zero => simp at hv; simp [net, hv]
    | succ k =>
      simp only [List.getElem?_cons_succ, walkFrom] at hv
      have := ih _ k hv
      rw [this]
      simp only [List.take_succ_cons, net, walkStep, one]
      cases u <;> simp <;> ring

/-- **random-walk spec.**  The `k`-th noise value is `x0` plus the net number of up-steps among the first
    `k` draws, divided by `sqrt(steps)` (whatever `sqrt` is) -/
theorem randomWalk_closed [HasSqrt K] (steps : Nat) (x0 : K) (draws : List Bool) (k : Nat) (v : K)
    (hv : (randomWalk steps x0 draws)[k]? = some v) :
    v = x0 + ((net (draws.take k) : Int) : K) / sqrt ((steps : Nat) : K) := by
  unfold randomWalk at hv
  by_cases hs : steps = 0
  · simp [hs] at hv
  · simp only [hs, if_false] at hv
    have := walkFrom_closed steps _ draws k v hv
    simpa [one] using this

end field

/-! ### the sampling distribution of LabelProbabilityInjector, for every ordered field -/

section dist
variable {K : Type} [Field K] [LinearOrder K] [IsStrictOrderedRing K]

omit [LinearOrder K] [IsStrictOrderedRing K] in
theorem sum_map_add_const (xs : List K) (l : K) :
    (xs.map (· + l)).sum = xs.sum + (xs.length : K) * l := by
  induction xs with
  | nil => simp
  | cons x xs ih => simp [ih]; ring

theorem sum_replicate_div (k : Nat) (q l : K) (hk : k ≠ 0) :
    (List.replicate k (q / (k : K) + l)).sum = q + (k : K) * l := by
  have hk' : (k : K) ≠ 0 := Nat.cast_ne_zero.mpr hk
  rw [List.sum_replicate, nsmul_eq_mul]
  field_simp

/-- probability mass that the completed dictionary gives to the classes present in the window -/
def presentMass (full : List (K × K)) (groups : List (K × List Nat)) : K :=
  (groups.map (fun g => if g.2.length = 0 then 0 else probOf full g.1)).sum

theorem rawP_sum (full : List (K × K)) (groups : List (K × List Nat)) :
    (rawP full groups).sum = presentMass full groups := by
  induction groups with
  | nil => simp [rawP, presentMass]
  | cons g gs ih =>
    simp only [rawP, presentMass, List.flatMap_cons, List.sum_append, List.map_cons, List.sum_cons] at ih ⊢
    rw [ih]
    congr 1
    by_cases hk : g.2.length = 0
    · simp [hk]
    · have := sum_replicate_div g.2.length (probOf full g.1) 0 hk
      simpa [hk] using this

variable (rows : List (List K)) (f t c : Nat) (cp : List (K × K)) (plan : Plan K)

omit [IsStrictOrderedRing K] in
theorem pyMax_zero_nonneg (a : K) : 0 ≤ pyMax a (zero : K) := by
  unfold pyMax zero
  split <;> simp_all [not_lt]

omit [IsStrictOrderedRing K] in
theorem le_pyMax_zero (a : K) : a ≤ pyMax a (zero : K) := by
  unfold pyMax zero
  split
  · rename_i h; exact le_of_lt (by simpa using h)
  · exact le_refl _

omit [IsStrictOrderedRing K] in
theorem pyMax_zero_of_nonneg (a : K) (h : 0 ≤ a) : pyMax a (zero : K) = a := by
  unfold pyMax zero
  simp [not_lt.mpr h]

theorem sum_map_le (xs : List K) (φ ψ : K → K) (h : ∀ x ∈ xs, φ x ≤ ψ x) :
    (xs.map φ).sum ≤ (xs.map ψ).sum := by
  induction xs with
  | nil => simp
  | cons x xs ih =>
    have h1 := h x (by simp)
    have h2 := ih (fun y hy => h y (by simp [hy]))
    simp only [List.map_cons, List.sum_cons]
    linarith

/-- the leftover is what the present classes' masses lack to one, spread over the window -/
theorem leftover_eq :
    leftoverOf rows f t c cp =
      (1 - presentMass (fullOf rows c cp) (groupsOf rows f t c)) /
        (((groupsOf rows f t c).flatMap (·.2)).length : K) := by
  simp [leftoverOf, rawPOf, sumL_eq_sum, rawP_sum, length_rawP, one]

omit [IsStrictOrderedRing K] in
/-- **non-negative, unconditionally**: every entry is `max(p + p_leftover, 0)` -/
theorem p_nonneg (h : probPlan rows f t c cp = .ok plan) : ∀ x ∈ plan.p, 0 ≤ x := by
  obtain ⟨_, h | h⟩ := probPlan_inv rows f t c cp plan h
  · rw [h.2]; simp
  · obtain ⟨_, rfl⟩ := h
    intro x hx
    simp only [List.mem_map] at hx
    obtain ⟨y, _, rfl⟩ := hx
    exact pyMax_zero_nonneg _

theorem sum_unclamped (hg : (groupsOf rows f t c).flatMap (·.2) ≠ []) :
    ((rawPOf rows f t c cp).map (· + leftoverOf rows f t c cp)).sum = 1 := by
  have hlen : (rawPOf rows f t c cp).length ≠ 0 := by
    rw [rawPOf, length_rawP]; exact fun e => hg (List.eq_nil_of_length_eq_zero e)
  have hlen' : (((rawPOf rows f t c cp).length : Nat) : K) ≠ 0 := Nat.cast_ne_zero.mpr hlen
  rw [sum_map_add_const, leftoverOf, sumL_eq_sum]
  simp only [one, Nat.cast_one]
  field_simp
  ring

/-- **what the clamp can do.**  Whatever the dictionary, the vector sums to at least one: clamping only
    raises entries (those with `p + p_leftover < 0` become 0).  Over a field this happens only for a
    negative specified probability or a specified sum inside the `1e-12` tolerance above one; at `Float`
    also through rounding of the sums. -/
theorem p_sum_ge_one (h : probPlan rows f t c cp = .ok plan) (hne : plan.grouped ≠ []) :
    1 ≤ plan.p.sum := by
  obtain ⟨_, h | h⟩ := probPlan_inv rows f t c cp plan h
  · rw [h.2] at hne; simp at hne
  · obtain ⟨hg, rfl⟩ := h
    rw [← sum_unclamped rows f t c cp hg]
    exact sum_map_le _ _ _ (fun x _ => le_pyMax_zero _)

/-- nothing is clamped: every `p + p_leftover` is non-negative -/
def NoClamp : Prop := ∀ x ∈ rawPOf rows f t c cp, 0 ≤ x + leftoverOf rows f t c cp

/-- if the completed dictionary is non-negative on the classes and the present classes' requested masses do
    not exceed one (leftover ≥ 0), nothing is clamped -/
theorem noClamp_of (hq : ∀ g ∈ groupsOf rows f t c, 0 ≤ probOf (fullOf rows c cp) g.1)
    (hm : presentMass (fullOf rows c cp) (groupsOf rows f t c) ≤ 1) : NoClamp rows f t c cp := by
  have hl : 0 ≤ leftoverOf rows f t c cp := by
    rw [leftover_eq]
    exact div_nonneg (by linarith) (Nat.cast_nonneg _)
  intro x hx
  have hx' : x ∈ (rawPOf rows f t c cp).map id := by simpa using hx
  simp only [rawPOf, rawP_map, List.mem_flatMap, List.mem_replicate, id] at hx'
  obtain ⟨g, hg, _, rfl⟩ := hx'
  have : 0 ≤ probOf (fullOf rows c cp) g.1 / (g.2.length : K) := div_nonneg (hq g hg) (Nat.cast_nonneg _)
  linarith

omit [IsStrictOrderedRing K] in
theorem plan_p_of_noClamp (h : probPlan rows f t c cp = .ok plan) (hne : plan.grouped ≠ [])
    (hnc : NoClamp rows f t c cp) :
    plan.grouped = (groupsOf rows f t c).flatMap (·.2) ∧
      plan.p = (rawPOf rows f t c cp).map (· + leftoverOf rows f t c cp) := by
  obtain ⟨_, h | h⟩ := probPlan_inv rows f t c cp plan h
  · rw [h.2] at hne; simp at hne
  · obtain ⟨_, rfl⟩ := h
    exact ⟨rfl, List.map_congr_left (fun x hx => pyMax_zero_of_nonneg _ (hnc x hx))⟩

/-- **the per-sample distribution sums to one** when nothing is clamped (in particular when the leftover is
    non-negative and the dictionary is, see `noClamp_of`, `noClamp_of_dict`) -/
theorem p_sum_one (h : probPlan rows f t c cp = .ok plan) (hne : plan.grouped ≠ [])
    (hnc : NoClamp rows f t c cp) : plan.p.sum = 1 ∧ sumL plan.p = 1 := by
  obtain ⟨hgr, hp⟩ := plan_p_of_noClamp rows f t c cp plan h hne hnc
  have hg : (groupsOf rows f t c).flatMap (·.2) ≠ [] := hgr ▸ hne
  have := sum_unclamped rows f t c cp hg
  rw [hp]
  exact ⟨this, by rw [sumL_eq_sum]; exact this⟩

/-- **class mass** (nothing clamped).  The vector is laid out class by class (same order as the population); the
    members of a class `g` present in the window share `class_probabilities[g] + |g| * leftover`: the requested
    mass, plus the class's per-sample share of whatever mass was requested for classes absent from the window. -/
theorem p_class_mass (h : probPlan rows f t c cp = .ok plan) (hne : plan.grouped ≠ [])
    (hnc : NoClamp rows f t c cp) :
    plan.grouped = (groupsOf rows f t c).flatMap (·.2) ∧
    plan.p = (groupsOf rows f t c).flatMap (fun g => List.replicate g.2.length
        (probOf (fullOf rows c cp) g.1 / (g.2.length : K) + leftoverOf rows f t c cp)) ∧
    ∀ g ∈ groupsOf rows f t c, g.2.length ≠ 0 →
      (List.replicate g.2.length
        (probOf (fullOf rows c cp) g.1 / (g.2.length : K) + leftoverOf rows f t c cp)).sum =
        probOf (fullOf rows c cp) g.1 + (g.2.length : K) * leftoverOf rows f t c cp := by
  obtain ⟨hgr, hp⟩ := plan_p_of_noClamp rows f t c cp plan h hne hnc
  refine ⟨hgr, ?_, fun g _ hk => sum_replicate_div _ _ _ hk⟩
  rw [hp]
  simp only [rawPOf]
  exact rawP_map _ _ _

/-- if every class of the data occurs in the window and the completed dictionary sums to one over them,
    nothing is left over: each class gets exactly the requested mass -/
theorem leftover_zero (hm : presentMass (fullOf rows c cp) (groupsOf rows f t c) = 1) :
    leftoverOf rows f t c cp = 0 := by
  rw [leftover_eq, hm]; simp

end dist



section prob2
variable [Add α] [Sub α] [Div α] [Neg α] [LT α] [DecidableLT α] [NatCast α] [BEq α]

/-- an accepted `LabelProbabilityInjector` call, taken apart: the plan is the one of `probPlan` for the
    resolved column; either the window is empty (nothing drawn, data returned as it is), or
    `np.random.choice` accepted the vector (no negative entry, sum within `2^-26` of one), `to - from` members of the population were drawn and the
    window rows are the drawn rows, in order. -/
theorem labelProb_inv (d d' : Data α) (f t : Nat) (col : Lbl) (cp : List (α × α)) (sample : List Nat)
    (plan : Plan α) (h : labelProb d f t col cp sample = .ok (d', plan)) :
    ∃ c, resolve d col = .ok c ∧ probPlan d.rows f t c cp = .ok plan ∧
      ((plan.grouped = [] ∧ sample = [] ∧ d' = d) ∨
       (plan.grouped ≠ [] ∧ (∀ x ∈ plan.p, ¬ x < zero) ∧ ¬ (choiceTol < absOf (sumL plan.p - one)) ∧
         sample.length = t - f ∧
         (∀ s ∈ sample, s ∈ plan.grouped) ∧
         d' = { d with rows := resampleRows d.rows f t sample })) := by
  unfold labelProb at h
  split at h
  · simp at h
  · rename_i c hc
    split at h
    · simp at h
    · rename_i pl hpl
      refine ⟨c, hc, ?_⟩
      split at h
      · rename_i he
        split at h
        · rename_i hs
          simp only [Except.ok.injEq, Prod.mk.injEq] at h
          obtain ⟨rfl, rfl⟩ := h
          exact ⟨hpl, Or.inl ⟨by simpa using he, by simpa using hs, rfl⟩⟩
        · simp at h
      · rename_i he
        split at h
        · simp at h
        · rename_i hneg
          split at h
          · simp at h
          · rename_i hsum1
            split at h
            · simp at h
            · rename_i hv
              simp only [Except.ok.injEq, Prod.mk.injEq] at h
              obtain ⟨rfl, rfl⟩ := h
              simp only [not_or, Decidable.not_not, Bool.not_eq_true, Bool.not_eq_false'] at hv
              refine ⟨hpl, Or.inr ⟨by simpa using he, ?_, hsum1, hv.1, ?_, rfl⟩⟩
              · intro x hx hlt
                apply hneg
                simp only [List.any_eq_true, decide_eq_true_eq]
                exact ⟨x, hx, hlt⟩
              · intro s hs
                have := List.all_eq_true.mp hv.2 s hs
                simpa using this

/-- **resampling spec.**  Row `i` of the window becomes the row whose number is the `(i - from)`-th draw, and
    every draw is a member of the population, i.e. a row of the window. -/
theorem labelProb_resample_spec (d d' : Data α) (f t : Nat) (col : Lbl) (cp : List (α × α))
    (sample : List Nat) (plan : Plan α) (h : labelProb d f t col cp sample = .ok (d', plan))
    (hne : plan.grouped ≠ []) (i : Nat) (hi : f ≤ i ∧ i < t) (hn : i < d.rows.length) :
    ∃ s, sample[i - f]? = some s ∧ (f ≤ s ∧ s < t) ∧ d'.rows[i]? = d.rows[s]? := by
  obtain ⟨c, _, hpl, hcase⟩ := labelProb_inv d d' f t col cp sample plan h
  rcases hcase with ⟨he, _⟩ | ⟨_, _, _, hlen, hmem, rfl⟩
  · exact absurd he hne
  · have hk : i - f < sample.length := by omega
    have hs := List.getElem?_eq_getElem hk
    obtain ⟨h1, h2, h3⟩ := probPlan_grouped_mem d.rows f t c cp plan hpl _ (hmem _ (List.getElem_mem hk))
    refine ⟨sample[i - f], hs, ⟨h1, h2⟩, ?_⟩
    simp only [resampleRows, mapWin_inside _ _ _ _ _ hi, hs, Option.bind_some,
      List.getElem?_eq_getElem h3, List.getElem?_eq_getElem hn, Option.map_some]

end prob2

/-! ### FeatureCoverInjector: the sample per group, without replacement -/

section cover2
variable [LT α] [DecidableLT α] [BEq α]

/-- row numbers picked in one group: the drawn positions looked up in the group -/
def picksOf (idx ds : List Nat) : List Nat := ds.filterMap (idx[·]?)

omit [LT α] [DecidableLT α] [BEq α] in
theorem takeGroup_eq (rows : List (List α)) (c : Nat) (idx ds : List Nat) :
    takeGroup rows c idx ds = (picksOf idx ds).filterMap (fun i => (rows[i]?).map (·.eraseIdx c)) := by
  simp only [takeGroup, picksOf, List.filterMap_filterMap]
  congr 1
  funext j
  cases idx[j]? <;> simp

theorem picksOf_spec (n : Nat) (idx ds : List Nat) (hidx : idx.Nodup)
    (hv : validDraw n idx.length ds = true) :
    (picksOf idx ds).length = n ∧ (picksOf idx ds).Nodup ∧ ∀ i ∈ picksOf idx ds, i ∈ idx := by
  simp only [validDraw, Bool.and_eq_true, beq_iff_eq, List.all_eq_true, decide_eq_true_eq] at hv
  obtain ⟨⟨hl, hlt⟩, hnd⟩ := hv
  refine ⟨?_, ?_, ?_⟩
  · unfold picksOf
    rw [length_filterMap_of_isSome, hl]
    intro j hj
    simp [List.getElem?_eq_getElem (hlt j hj)]
  · unfold picksOf
    apply List.Nodup.filterMap _ hnd
    intro a a' b hb hb'
    simp only [Option.mem_def] at hb hb'
    have ha : a < idx.length := by
      rcases Nat.lt_or_ge a idx.length with h | h
      · exact h
      · simp [List.getElem?_eq_none h] at hb
    exact (List.getElem?_inj ha hidx).mp (hb.trans hb'.symm)
  · intro i hi
    simp only [picksOf, List.mem_filterMap] at hi
    obtain ⟨j, _, hj⟩ := hi
    exact List.mem_of_getElem? hj

omit [LT α] [DecidableLT α] in
theorem nodup_groupIdx (rows : List (List α)) (c : Nat) (key : α) : (groupIdx rows c key).Nodup :=
  List.Nodup.filter _ List.nodup_range

omit [LT α] [DecidableLT α] [BEq α] in
theorem zipWith_takeGroup_eq (rows : List (List α)) (c : Nat) (gs ds : List (List Nat)) :
    List.zipWith (takeGroup rows c) gs ds =
      (List.zipWith picksOf gs ds).map (fun is => is.filterMap (fun i => (rows[i]?).map (·.eraseIdx c))) := by
  induction gs generalizing ds with
  | nil => simp
  | cons g gs ih =>
    cases ds with
    | nil => simp
    | cons d ds => simp [takeGroup_eq, ih]

omit [LT α] [DecidableLT α] [BEq α] in
theorem picks_aux (n : Nat) (gs ds : List (List Nat)) (hnd : ∀ g ∈ gs, g.Nodup)
    (hv : (List.zipWith (fun g d => validDraw n g.length d) gs ds).all id = true)
    (k : Nat) (g is : List Nat) (hg : gs[k]? = some g) (his : (List.zipWith picksOf gs ds)[k]? = some is) :
    is.length = n ∧ is.Nodup ∧ ∀ i ∈ is, i ∈ g := by
  induction gs generalizing ds k with
  | nil => simp at hg
  | cons g0 gs ih =>
    cases ds with
    | nil => simp at his
    | cons d ds =>
      simp only [List.zipWith_cons_cons, List.all_cons, id, Bool.and_eq_true] at hv
      cases k with
      | zero =>
        simp only [List.zipWith_cons_cons, List.getElem?_cons_zero, Option.some.injEq] at hg his
        subst hg; subst his
        exact picksOf_spec n g0 d (hnd g0 (by simp)) hv.1
      | succ k =>
        simp only [List.zipWith_cons_cons, List.getElem?_cons_succ] at hg his
        exact ih ds (fun g' hg' => hnd g' (by simp [hg'])) hv.2 k hg his

/-- **cover spec, block form.**  The result is the concatenation, in the order of the sorted group keys, of one
    block per group; the block of the `k`-th key consists of `sample_size // number of groups` *distinct* rows
    of the input whose hidden column equals that key (sampling without replacement), each with the column
    removed. -/
theorem featureCover_blocks (d d' : Data α) (col : Lbl) (ss : Nat) (draws : List (List Nat))
    (h : featureCover d col ss draws = .ok d') :
    ∃ c, resolveDf d col = .ok c ∧ ∃ picks : List (List Nat),
      picks.length = (unique (colOf c d.rows)).length ∧
      d'.rows = (picks.map (fun is => is.filterMap (fun i => (d.rows[i]?).map (·.eraseIdx c)))).flatten ∧
      ∀ (k : Nat) (key : α) (is : List Nat), (unique (colOf c d.rows))[k]? = some key → picks[k]? = some is →
        is.length = ss / (unique (colOf c d.rows)).length ∧ is.Nodup ∧
          ∀ i ∈ is, i < d.rows.length ∧ cellIs d.rows c key i = true := by
  unfold featureCover at h
  cases hc : resolveDf d col with
  | error e => simp [hc] at h
  | ok c =>
    simp only [hc] at h
    split at h
    · simp at h
    · split at h
      · simp at h
      · split at h
        · simp at h
        · rename_i hv
          simp only [Except.ok.injEq] at h
          subst h
          simp only [not_or, Decidable.not_not, Bool.not_eq_true, Bool.not_eq_false'] at hv
          refine ⟨c, rfl, List.zipWith picksOf ((unique (colOf c d.rows)).map (groupIdx d.rows c)) draws, ?_, ?_, ?_⟩
          · simp [hv.1]
          · simp only [zipWith_takeGroup_eq]
          · intro k key is hkey his
            have hg : ((unique (colOf c d.rows)).map (groupIdx d.rows c))[k]? = some (groupIdx d.rows c key) := by
              simp [hkey]
            obtain ⟨h1, h2, h3⟩ := picks_aux (ss / (unique (colOf c d.rows)).length) _ draws
              (by
                intro g hg'
                simp only [List.mem_map] at hg'
                obtain ⟨key', _, rfl⟩ := hg'
                exact nodup_groupIdx d.rows c key')
              hv.2 k _ is hg his
            exact ⟨h1, h2, fun i hi => (mem_groupIdx d.rows c key i).mp (h3 i hi)⟩

end cover2



section complete
set_option linter.unusedSectionVars false
variable {K : Type} [Field K] [LinearOrder K] [IsStrictOrderedRing K]

/-! #### `np.unique`: strictly increasing, same members -/

theorem mem_insertU (x y : K) (l : List K) : y ∈ insertU x l ↔ y = x ∨ y ∈ l := by
  induction l with
  | nil => simp [insertU]
  | cons z zs ih =>
    unfold insertU
    by_cases h1 : x < z
    · simp [h1]
    · by_cases h2 : z < x
      · simp only [h1, h2, if_false, if_true, List.mem_cons, ih]
        constructor
        · rintro (h | h | h) <;> simp [h]
        · rintro (h | h | h) <;> simp [h]
      · have : x = z := le_antisymm (not_lt.mp h2) (not_lt.mp h1)
        subst this
        simp

theorem pairwise_insertU (x : K) (l : List K) (h : l.Pairwise (· < ·)) :
    (insertU x l).Pairwise (· < ·) := by
  induction l with
  | nil => simp [insertU]
  | cons z zs ih =>
    unfold insertU
    rw [List.pairwise_cons] at h
    by_cases h1 : x < z
    · simp only [h1, if_true, List.pairwise_cons]
      refine ⟨?_, h.1, h.2⟩
      intro a ha
      rcases List.mem_cons.mp ha with rfl | ha
      · exact h1
      · exact lt_trans h1 (h.1 a ha)
    · by_cases h2 : z < x
      · simp only [h1, h2, if_false, if_true, List.pairwise_cons]
        refine ⟨?_, ih h.2⟩
        intro a ha
        rcases (mem_insertU x a zs).mp ha with rfl | ha
        · exact h2
        · exact h.1 a ha
      · simp only [h1, h2, if_false, List.pairwise_cons]
        exact h

theorem pairwise_unique (xs : List K) : (unique xs).Pairwise (· < ·) := by
  induction xs with
  | nil => simp [unique]
  | cons x xs ih => simpa [unique] using pairwise_insertU x _ ih

theorem nodup_unique (xs : List K) : (unique xs).Nodup :=
  (pairwise_unique xs).imp (fun h => ne_of_lt h)

theorem mem_unique (xs : List K) (y : K) : y ∈ unique xs ↔ y ∈ xs := by
  induction xs with
  | nil => simp [unique]
  | cons x xs ih =>
    have : unique (x :: xs) = insertU x (unique xs) := rfl
    rw [this, mem_insertU, ih]; simp

/-! #### the completed dictionary -/

theorem keyIn_iff (cp : List (K × K)) (k : K) : keyIn cp k = true ↔ k ∈ cp.map (·.1) := by
  simp only [keyIn, List.any_eq_true, List.mem_map, beq_iff_eq]

theorem probOf_append_of_keyIn (cp ext : List (K × K)) (k : K) (h : keyIn cp k = true) :
    probOf (cp ++ ext) k = probOf cp k := by
  unfold probOf
  rw [List.find?_append]
  simp only [keyIn, List.any_eq_true] at h
  obtain ⟨e, he, hk⟩ := h
  cases hf : cp.find? (fun e => e.1 == k) with
  | none =>
    rw [List.find?_eq_none] at hf
    exact absurd hk (hf e he)
  | some e' => simp

theorem probOf_append_of_not_keyIn (cp ext : List (K × K)) (k : K) (h : keyIn cp k = false) :
    probOf (cp ++ ext) k = probOf ext k := by
  unfold probOf
  rw [List.find?_append]
  have : cp.find? (fun e => e.1 == k) = none := by
    rw [List.find?_eq_none]
    intro e he hk
    have : keyIn cp k = true := by
      simp only [keyIn, List.any_eq_true]; exact ⟨e, he, hk⟩
    rw [h] at this; cases this
  simp [this]

theorem probOf_const (us : List K) (v : K) (k : K) (hk : k ∈ us) :
    probOf (us.map (fun u => (u, v))) k = v := by
  unfold probOf
  cases hf : (us.map (fun u => (u, v))).find? (fun e => e.1 == k) with
  | none =>
    rw [List.find?_eq_none] at hf
    exact absurd (by simp) (hf (k, v) (by simp [hk]))
  | some e =>
    have := List.mem_of_find?_eq_some hf
    simp only [List.mem_map] at this
    obtain ⟨u, _, rfl⟩ := this
    rfl

/-- values of a dictionary with distinct keys, read back through its keys -/
theorem sum_probOf_keys (cp : List (K × K)) (hnd : (cp.map (·.1)).Nodup) :
    ((cp.map (·.1)).map (probOf cp)).sum = (cp.map (·.2)).sum := by
  induction cp with
  | nil => simp
  | cons e cp ih =>
    simp only [List.map_cons, List.nodup_cons] at hnd
    simp only [List.map_cons, List.sum_cons, List.map_map]
    have h0 : probOf (e :: cp) e.1 = e.2 := by simp [probOf]
    rw [h0]
    congr 1
    rw [← ih hnd.2, List.map_map]
    congr 1
    apply List.map_congr_left
    intro e' he'
    simp only [Function.comp]
    have hne : e.1 ≠ e'.1 := by
      intro heq
      exact hnd.1 (by rw [heq]; exact List.mem_map_of_mem (f := (·.1)) he')
    simp [probOf, hne]

theorem sum_filter_split (l : List K) (p : K → Bool) (g : K → K) :
    (l.map g).sum = ((l.filter p).map g).sum + ((l.filter (fun x => !p x)).map g).sum := by
  induction l with
  | nil => simp
  | cons x xs ih =>
    by_cases hp : p x = true
    · simp [hp, ih, add_assoc]
    · have hp' : p x = false := by simpa using hp
      simp only [List.map_cons, List.sum_cons, ih, hp', List.filter_cons, Bool.not_false, if_true]
      simp
      ring


theorem sum_replicate_like (us : List K) (v : K) : (us.map (fun _ => v)).sum = (us.length : K) * v := by
  induction us with
  | nil => simp
  | cons u us ih => simp only [List.map_cons, List.sum_cons, ih, List.length_cons, Nat.cast_succ]; ring

/-- an accepted dictionary only names classes of the data -/
theorem probPlan_keys_subset (rows : List (List K)) (f t c : Nat) (cp : List (K × K)) (plan : Plan K)
    (h : probPlan rows f t c cp = .ok plan) : ∀ k ∈ cp.map (·.1), k ∈ unique (colOf c rows) := by
  unfold probPlan at h
  simp only at h
  split at h
  · simp at h
  · split at h
    · simp at h
    · rename_i hs
      simp only [Bool.not_eq_true, Bool.not_eq_false'] at hs
      simp only [sameSet, Bool.and_eq_true] at hs
      intro k hk
      have := List.all_eq_true.mp hs.2 k (by simp only [List.mem_append]; exact Or.inl hk)
      simpa using this

/-- over the classes of the data the completed dictionary sums to the specified mass plus — when some class is
    unspecified — everything that is missing to one -/
theorem sum_full_classes (rows : List (List K)) (c : Nat) (cp : List (K × K))
    (hnd : (cp.map (·.1)).Nodup) (hsub : ∀ k ∈ cp.map (·.1), k ∈ unique (colOf c rows)) :
    ((unique (colOf c rows)).map (probOf (fullOf rows c cp))).sum =
      (cp.map (·.2)).sum + (if undefOf rows c cp = [] then 0 else 1 - (cp.map (·.2)).sum) := by
  rw [sum_filter_split _ (keyIn cp)]
  congr 1
  · -- the specified classes
    have h1 : ((unique (colOf c rows)).filter (keyIn cp)).map (probOf (fullOf rows c cp)) =
        ((unique (colOf c rows)).filter (keyIn cp)).map (probOf cp) := by
      apply List.map_congr_left
      intro k hk
      exact probOf_append_of_keyIn cp _ k (List.mem_filter.mp hk).2
    rw [h1, ← sum_probOf_keys cp hnd]
    apply List.Perm.sum_eq
    apply List.Perm.map
    apply (List.perm_ext_iff_of_nodup ((nodup_unique _).filter _) hnd).mpr
    intro a
    rw [List.mem_filter, keyIn_iff]
    exact ⟨fun h => h.2, fun h => ⟨hsub a h, h⟩⟩
  · -- the unspecified classes
    have h2 : ((unique (colOf c rows)).filter (fun x => !keyIn cp x)).map (probOf (fullOf rows c cp)) =
        (undefOf rows c cp).map (fun _ => (1 - (cp.map (·.2)).sum) / ((undefOf rows c cp).length : K)) := by
      apply List.map_congr_left
      intro k hk
      have hk' : keyIn cp k = false := by simpa using (List.mem_filter.mp hk).2
      have hk2 : k ∈ undefOf rows c cp := hk
      rw [fullOf, completeProbs, probOf_append_of_not_keyIn cp _ k hk']
      rw [probOf_const (undefOf rows c cp) _ k hk2]
      simp [sumL_eq_sum, one]
    rw [h2, sum_replicate_like]
    by_cases he : undefOf rows c cp = []
    · simp [he]
    · have : ((undefOf rows c cp).length : K) ≠ 0 := by
        simpa using he
      simp only [he, if_false]
      field_simp

variable (rows : List (List K)) (f t c : Nat) (cp : List (K × K)) (plan : Plan K)

theorem probOf_nonneg_of (cp' : List (K × K)) (h : ∀ e ∈ cp', 0 ≤ e.2) (k : K) : 0 ≤ probOf cp' k := by
  unfold probOf
  cases hf : cp'.find? (fun e => e.1 == k) with
  | none => simp [zero]
  | some e => exact h e (List.mem_of_find?_eq_some hf)

theorem presentMass_le (full : List (K × K)) (groups : List (K × List Nat))
    (hq : ∀ g ∈ groups, 0 ≤ probOf full g.1) :
    presentMass full groups ≤ (groups.map (fun g => probOf full g.1)).sum := by
  induction groups with
  | nil => simp [presentMass]
  | cons g gs ih =>
    have h1 := hq g (by simp)
    have h2 := ih (fun g' hg' => hq g' (by simp [hg']))
    simp only [presentMass, List.map_cons, List.sum_cons] at h2 ⊢
    split <;> linarith

theorem presentMass_eq (full : List (K × K)) (groups : List (K × List Nat))
    (hall : ∀ g ∈ groups, g.2.length ≠ 0) :
    presentMass full groups = (groups.map (fun g => probOf full g.1)).sum := by
  induction groups with
  | nil => simp [presentMass]
  | cons g gs ih =>
    have h1 := hall g (by simp)
    have h2 := ih (fun g' hg' => hall g' (by simp [hg']))
    simp only [presentMass, List.map_cons, List.sum_cons] at h2 ⊢
    rw [h2]; simp [h1]

theorem groups_map_probOf (full : List (K × K)) :
    ((groupsOf rows f t c).map (fun g => probOf full g.1)) = (unique (colOf c rows)).map (probOf full) := by
  simp [groupsOf, List.map_map, Function.comp_def]

/-- **nothing is clamped, from the caller's side.**  A dictionary with distinct keys, non-negative values and
    sum at most one (the documented domain; the code additionally lets sums up to `1 + 1e-12` pass) that names
    only classes of the data: every `p + p_leftover` is non-negative, so `p_sum_one` / `p_class_mass` apply. -/
theorem noClamp_of_dict (h : probPlan rows f t c cp = .ok plan)
    (hnd : (cp.map (·.1)).Nodup) (hv : ∀ e ∈ cp, 0 ≤ e.2) (hsum : (cp.map (·.2)).sum ≤ 1) :
    NoClamp rows f t c cp := by
  have hsub := probPlan_keys_subset rows f t c cp plan h
  have hfull : ∀ e ∈ fullOf rows c cp, 0 ≤ e.2 := by
    intro e he
    simp only [fullOf, completeProbs, List.mem_append, List.mem_map] at he
    rcases he with he | ⟨u, _, rfl⟩
    · exact hv e he
    · simp only [sumL_eq_sum, one, Nat.cast_one]
      exact div_nonneg (by linarith) (Nat.cast_nonneg _)
  apply noClamp_of rows f t c cp (fun g _ => probOf_nonneg_of _ hfull g.1)
  refine le_trans (presentMass_le _ _ (fun g _ => probOf_nonneg_of _ hfull g.1)) ?_
  rw [groups_map_probOf, sum_full_classes rows c cp hnd hsub]
  split <;> linarith

/-- **exact class masses.**  If every class of the data occurs in the window and either some class is left
    unspecified or the specified probabilities sum to one, the leftover is zero: by `p_class_mass` every class
    then gets exactly `class_probabilities[class]` (its specified value, or an equal share of what is missing). -/
theorem leftover_zero_of_all_present (h : probPlan rows f t c cp = .ok plan)
    (hnd : (cp.map (·.1)).Nodup) (hall : ∀ g ∈ groupsOf rows f t c, g.2.length ≠ 0)
    (hspec : undefOf rows c cp ≠ [] ∨ (cp.map (·.2)).sum = 1) :
    leftoverOf rows f t c cp = 0 := by
  apply leftover_zero
  rw [presentMass_eq _ _ hall, groups_map_probOf,
    sum_full_classes rows c cp hnd (probPlan_keys_subset rows f t c cp plan h)]
  rcases hspec with hu | hs
  · simp [hu]
  · split <;> simp [hs]

end complete

/-! ### non-vacuity: the hypotheses of the theorems above are met by concrete calls -/

section examples

/-- window `[1,3)` of a 3×2 ndarray, columns 0 and 1 exchanged; row 0 untouched -/
example : featureSwap (α := Int) ⟨none, 2, [[1, 2], [3, 4], [5, 6]]⟩ 1 3 (.int 0) (.int 1)
    = .ok ⟨none, 2, [[1, 2], [4, 3], [6, 5]]⟩ := rfl

/-- a DataFrame column is addressed by its label; `get_loc` of an unknown label is a `KeyError` -/
example : featureSwap (α := Int) ⟨some [.str "a", .str "b"], 2, [[1, 2]]⟩ 0 1 (.str "b") (.str "zz")
    = .error .key := rfl

example : labelSwap (α := Int) ⟨some [.str "a", .str "y"], 2, [[1, 0], [3, 1], [5, 2], [7, 1]]⟩ 0 3 (.str "y") 0 1
    = .ok ⟨some [.str "a", .str "y"], 2, [[1, 1], [3, 0], [5, 2], [7, 1]]⟩ := rfl

example : labelJoin (α := Int) ⟨none, 2, [[1, 0], [3, 1], [5, 2], [7, 1]]⟩ 1 4 (.int 1) 1 2 9
    = .ok ⟨none, 2, [[1, 0], [3, 9], [5, 9], [7, 9]]⟩ := rfl

/-- shift over ℚ: window mean 3, `delta = (1/8 + 3) * 2` -/
example : featureShift (α := ℚ) ⟨none, 1, [[1], [2], [4], [8]]⟩ 1 3 (.int 0) 2 (1/8)
    = .ok ⟨none, 1, [[1], [2 + 25/4], [4 + 25/4], [8]]⟩ := by
  simp [featureShift, resolve, shiftDelta, meanL, sumL, colOf, window, mapWin, zero]
  norm_num

local instance : HasSqrt Int := ⟨fun x => x⟩ in
/-- three steps, two draws: the hypotheses of `brownian_frame` / `brownian_spec` are satisfiable -/
example : ∃ d', brownian (α := Int) ⟨none, 1, [[1], [2], [4], [8]]⟩ 1 4 (.int 0) 5 [true, false] = .ok d' :=
  ⟨_, rfl⟩

/-- four rows with classes 0,1,1,2; the window `[0,3)` lacks class 2.  `{0: 1/2}` leaves 1/4 each to classes
    1 and 2; class 2's quarter is spread over the three window samples (1/12 each):
    class 0 gets 1/2 + 1/12, class 1 gets 1/4 + 2/12 -/
example : probPlan (α := ℚ) [[0], [1], [1], [2]] 0 3 0 [(0, 1/2)]
    = .ok ⟨[0, 1, 2], [7/12, 5/24, 5/24]⟩ := by
  simp [probPlan, unique, colOf, insertU, keyIn, sameSet, groupsOf, classIdx, cellIs, cell, rawP,
    completeProbs, probOf, sumL, one, zero, rejectSum, tol, absOf, pyMax, List.range, List.range.loop]
  norm_num

/-- all classes present: every class gets exactly the requested mass -/
example : probPlan (α := ℚ) [[0], [1], [1], [2]] 0 4 0 [(0, 1/2)]
    = .ok ⟨[0, 1, 2, 3], [1/2, 1/8, 1/8, 1/4]⟩ := by
  simp [probPlan, unique, colOf, insertU, keyIn, sameSet, groupsOf, classIdx, cellIs, cell, rawP,
    completeProbs, probOf, sumL, one, zero, rejectSum, tol, absOf, pyMax, List.range, List.range.loop]
  norm_num

/-- probabilities above one and classes the data does not have are rejected -/
example : probPlan (α := ℚ) [[0], [1]] 0 2 0 [(0, 3/4), (1, 1/2)] = .error .value := by
  simp [probPlan, sumL, one, zero, rejectSum, tol, absOf]
  norm_num

/-- the drawn rows (2, 2, 0) replace the window `[0,3)`; row 3 stays -/
example : labelProb (α := ℚ) ⟨none, 2, [[10, 0], [11, 1], [12, 1], [13, 2]]⟩ 0 3 (.int 1) [] [2, 2, 0]
    = .ok (⟨none, 2, [[12, 1], [12, 1], [10, 0], [13, 2]]⟩, ⟨[0, 1, 2], [4/9, 5/18, 5/18]⟩) := by
  simp [labelProb, resolve, probPlan, unique, colOf, insertU, keyIn, sameSet, groupsOf, classIdx, cellIs, cell, rawP,
    completeProbs, probOf, sumL, one, zero, rejectSum, tol, choiceTol, absOf, pyMax, resampleRows, mapWin,
    List.range, List.range.loop]
  norm_num
  intro h
  cases h

/-- groups 0 and 1 (sorted), `5 // 2 = 2` rows each, positions drawn inside each group, column 1 hidden -/
example : featureCover (α := Int) ⟨some [.str "a", .str "y"], 2, [[10, 1], [11, 0], [12, 1], [13, 0], [14, 1]]⟩
    (.str "y") 5 [[1, 0], [2, 0]]
    = .ok ⟨some [.str "a"], 1, [[13], [11], [14], [10]]⟩ := rfl

/-- a draw that repeats a position is not a sample without replacement -/
example : featureCover (α := Int) ⟨none, 2, [[10, 1], [11, 0], [12, 1], [13, 0]]⟩ (.int 1) 4 [[0, 0], [0, 1]]
    = .error .badDraws := rfl

end examples
end MV.Inject
