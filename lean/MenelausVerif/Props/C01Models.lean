/-
  C01, part 2 — every trace of the Lean detector models satisfies the lifecycle contract
  (is accepted by the acceptor of `Model/Lifecycle.lean`), for all configurations and all
  histories.  One section per detector model; each instantiates `Lifecycle.model_accepted`
  with an invariant linking the acceptor's memory to the model's state (MD3, whose rows are
  the accepted `update` calls of an arbitrary call history, has its own induction).

  The `Cfg` chosen for each model (`kind`, `a`, `b`, `restart`, `incAfterDrift`, `hasRecs`) is the
  one `harness/impl/zoo.py` (`Family.lifecycle`, `has_recs`) hands to the same acceptor for the
  real detector.  No clause of the acceptor had to be weakened: none of the theorems is `_partial`.
  Non-vacuity: the `example`s at the end exhibit, per detector, a trace with a drift and the
  restart that follows it.
-/
import MenelausVerif.Props.C01
import MenelausVerif.Model.PageHinkley
import MenelausVerif.Props.C03
import MenelausVerif.Props.C04
import MenelausVerif.Props.C05
import MenelausVerif.Props.C06
import MenelausVerif.Props.C10
import MenelausVerif.Props.C11
import MenelausVerif.Props.C19
namespace MV.Lifecycle
open MV

/-! ### PageHinkley (kind `burnin`, restart 1) -/
section PH
variable {α : Type} [Add α] [Sub α] [Mul α] [Div α] [LT α] [DecidableLT α] [NatCast α]

def phCfg (c : PH.Cfg α) : Cfg :=
  { kind := .burnin, a := c.burnIn, b := 1, restart := 1, incAfterDrift := 1, hasRecs := false }

def phRow (s : PH.State α) (_ : α) : Obs :=
  { drift := s.drift, total := s.total, since := s.since, recs := (none, none), err := false, refDone := false }

def phInv (c : PH.Cfg α) (m : Mon) (s : PH.State α) : Prop :=
  m.total = s.total ∧ m.since = s.since ∧ m.prevDrift = s.drift ∧ (s.drift ≠ .none → s.since > c.burnIn)

theorem ph_core_total (c : PH.Cfg α) (s : PH.State α) (x : α) : (PH.core c s x).1.total = s.total + 1 := rfl
theorem ph_core_since (c : PH.Cfg α) (s : PH.State α) (x : α) : (PH.core c s x).1.since = s.since + 1 := rfl
theorem ph_core_drift (c : PH.Cfg α) (s : PH.State α) (x : α) :
    (PH.core c s x).1.drift = s.drift ∨ ((PH.core c s x).1.drift = .drift ∧ s.since + 1 > c.burnIn) := by
  grind [PH.core]

theorem ph_step_ok (c : PH.Cfg α) (m : Mon) (s : PH.State α) (x : α) (h : phInv c m s) :
    violated (phCfg c) m (phRow (PH.step c s x).1 x) = none ∧
      phInv c (advance m (phRow (PH.step c s x).1 x)) (PH.step c s x).1 := by
  obtain ⟨h1, h2, h3, h4⟩ := h
  unfold PH.step
  by_cases hd : s.drift = .drift
  · simp only [hd, if_true]
    have ht := ph_core_total c (PH.reset s) x
    have hs := ph_core_since c (PH.reset s) x
    have hdr := ph_core_drift c (PH.reset s) x
    have r1 : (PH.reset s).total = s.total := rfl
    have r2 : (PH.reset s).since = 0 := rfl
    have r3 : (PH.reset s).drift = .none := rfl
    rw [r1] at ht; rw [r2] at hs hdr; rw [r3] at hdr
    constructor
    · rw [violated_none_iff]
      constructor <;> simp only [phCfg, phRow, expectedTotal, expectedSince, warm, h3, hd, ht, hs, h1] <;> simp
      rcases hdr with h | ⟨_, h⟩
      · intro hne; exact absurd h hne
      · intro _; omega
    · refine ⟨by simp [advance, phRow], by simp [advance, phRow], by simp [advance, phRow], ?_⟩
      rcases hdr with h | ⟨_, h⟩
      · intro hne; exact absurd h hne
      · intro _; rw [hs]; omega
  · simp only [hd, if_false]
    have ht := ph_core_total c s x
    have hs := ph_core_since c s x
    have hdr := ph_core_drift c s x
    have hmd : ¬ m.prevDrift = .drift := by rw [h3]; exact hd
    constructor
    · rw [violated_none_iff]
      constructor <;> simp only [phCfg, phRow, expectedTotal, expectedSince, warm, hmd, ht, hs, h1, h2] <;> simp
      rcases hdr with h | ⟨_, h⟩
      · intro hne; rw [h] at hne; have := h4 hne; omega
      · intro _; omega
    · refine ⟨by simp [advance, phRow], by simp [advance, phRow], by simp [advance, phRow], ?_⟩
      rcases hdr with h | ⟨_, h⟩
      · intro hne; rw [h] at hne; have := h4 hne; rw [hs]; omega
      · intro _; rw [hs]; omega

/-- **PageHinkley satisfies the lifecycle contract on every history.** -/
theorem ph_accepted (c : PH.Cfg α) (xs : List α) :
    accept (phCfg c) {} 0 (rowsOf (fun s x => (PH.step c s x).1) phRow PH.init xs) = none :=
  model_accepted (phCfg c) _ phRow (phInv c) (fun m s x h => ph_step_ok c m s x h) xs {} PH.init 0
    (by simp [phInv, PH.init])

end PH

/-! ### DDM (kind `ddm`, restart 1, recommendations) -/
section DDM
variable {α : Type} [Add α] [Sub α] [Mul α] [Div α] [LE α] [DecidableLE α] [NatCast α] [HasSqrt α]

def ddmCfg (c : DDM.Cfg α) : Cfg :=
  { kind := .ddm, a := c.nThreshold, b := 1, restart := 1, incAfterDrift := 1, hasRecs := true }

def ddmRow (s : DDM.State α) (_ : Bool) : Obs :=
  { drift := s.drift, total := s.total, since := s.since, recs := s.recs, err := false, refDone := false }

/-- the acceptor's memory mirrors the public counters; a non-`None` state is past the warm-up; a
    recommendation start is an index already seen -/
def ddmInv (c : DDM.Cfg α) (m : Mon) (s : DDM.State α) : Prop :=
  m.total = s.total ∧ m.since = s.since ∧ m.prevDrift = s.drift ∧
  (s.drift ≠ .none → s.since ≥ c.nThreshold) ∧ (∀ a, s.recs.1 = some a → a < s.total)

/-- everything the contract reads of one DDM update -/
theorem ddm_step_facts (c : DDM.Cfg α) (s : DDM.State α) (e : Bool)
    (hw : s.drift ≠ .none → s.since ≥ c.nThreshold) (hr : ∀ a, s.recs.1 = some a → a < s.total) :
    (DDM.step c s e).total = s.total + 1 ∧
    (DDM.step c s e).since = (if s.drift = .drift then 1 else s.since + 1) ∧
    ((DDM.step c s e).drift ≠ .none → (DDM.step c s e).since ≥ c.nThreshold) ∧
    (∀ a, (DDM.step c s e).recs.1 = some a → a < s.total + 1) ∧
    ((DDM.step c s e).drift = .drift → ∃ a, (DDM.step c s e).recs = (some a, some s.total) ∧ a ≤ s.total) ∧
    (s.drift = .drift → ((DDM.step c s e).recs.1 = none ∨ (DDM.step c s e).recs.1 = some s.total) ∧
      ((DDM.step c s e).recs.2 = none ∨ (DDM.step c s e).recs.2 = some s.total)) := by
  simp only [DDM.step, DDM.core, DDM.reset, incRecsFirst, Recs.empty]
  grind

theorem ddm_step_ok (c : DDM.Cfg α) (m : Mon) (s : DDM.State α) (e : Bool) (h : ddmInv c m s) :
    violated (ddmCfg c) m (ddmRow (DDM.step c s e) e) = none ∧
      ddmInv c (advance m (ddmRow (DDM.step c s e) e)) (DDM.step c s e) := by
  obtain ⟨h1, h2, h3, h4, h5⟩ := h
  obtain ⟨f1, f2, f3, f4, f5, f6⟩ := ddm_step_facts c s e h4 h5
  constructor
  · rw [violated_none_iff]
    constructor
    · simp [ddmCfg, ddmRow, expectedTotal, f1, h1]
    · simp only [ddmCfg, ddmRow, expectedSince, f2, h2, h3]; simp
    · intro hd; simpa [warm, ddmCfg, ddmRow] using f3 hd
    · intro _ hd
      obtain ⟨a, ha, hle⟩ := f5 hd
      simp [recsAtDrift, ddmRow, ha, hle, f1]
    · intro _ hp _
      rw [h3] at hp
      obtain ⟨g1, g2⟩ := f6 hp
      simp only [recsFresh, ddmRow, f1]
      rcases g1 with g1 | g1 <;> rcases g2 with g2 | g2 <;> simp [g1, g2]
    · intro hk; simp [ddmCfg] at hk
  · refine ⟨by simp [advance, ddmRow], by simp [advance, ddmRow], by simp [advance, ddmRow], f3, ?_⟩
    rw [f1]; exact f4

/-- **DDM satisfies the lifecycle contract on every history.** -/
theorem ddm_accepted (c : DDM.Cfg α) (xs : List Bool) :
    accept (ddmCfg c) {} 0 (rowsOf (DDM.step c) ddmRow DDM.init xs) = none :=
  model_accepted (ddmCfg c) _ ddmRow (ddmInv c) (fun m s x h => ddm_step_ok c m s x h) xs {} DDM.init 0
    (by simp [ddmInv, DDM.init, Recs.empty])

end DDM

/-! ### EDDM (kind `eddm`: the warm-up counts the *errors* of the epoch) -/
section EDDM
variable {α : Type} [Add α] [Sub α] [Mul α] [Div α] [LT α] [DecidableLT α] [LE α] [DecidableLE α]
  [NatCast α] [HasSqrt α]

def eddmCfg (c : EDDM.Cfg α) : Cfg :=
  { kind := .eddm, a := c.nThreshold, b := 1, restart := 1, incAfterDrift := 1, hasRecs := true }

/-- the row carries the input-derived signal "this sample was a misclassification" -/
def eddmRow (s : EDDM.State α) (e : Bool) : Obs :=
  { drift := s.drift, total := s.total, since := s.since, recs := s.recs, err := e, refDone := false }

/-- as for DDM, and the acceptor's error count of the epoch is the model's `_n_errors` -/
def eddmInv (c : EDDM.Cfg α) (m : Mon) (s : EDDM.State α) : Prop :=
  m.total = s.total ∧ m.since = s.since ∧ m.prevDrift = s.drift ∧ m.errs = s.nErrors ∧
  (s.drift ≠ .none → s.nErrors ≥ c.nThreshold) ∧ (∀ a, s.recs.1 = some a → a < s.total)

theorem eddm_step_facts (c : EDDM.Cfg α) (s : EDDM.State α) (e : Bool)
    (hw : s.drift ≠ .none → s.nErrors ≥ c.nThreshold) (hr : ∀ a, s.recs.1 = some a → a < s.total) :
    (EDDM.step c s e).total = s.total + 1 ∧
    (EDDM.step c s e).since = (if s.drift = .drift then 1 else s.since + 1) ∧
    (EDDM.step c s e).nErrors = (if s.drift = .drift then 0 else s.nErrors) + (if e then 1 else 0) ∧
    ((EDDM.step c s e).drift ≠ .none → (EDDM.step c s e).nErrors ≥ c.nThreshold) ∧
    (∀ a, (EDDM.step c s e).recs.1 = some a → a < s.total + 1) ∧
    ((EDDM.step c s e).drift = .drift → ∃ a, (EDDM.step c s e).recs = (some a, some s.total) ∧ a ≤ s.total) ∧
    (s.drift = .drift → ((EDDM.step c s e).recs.1 = none ∨ (EDDM.step c s e).recs.1 = some s.total) ∧
      ((EDDM.step c s e).recs.2 = none ∨ (EDDM.step c s e).recs.2 = some s.total)) := by
  simp only [EDDM.step, EDDM.core, EDDM.reset, incRecsFirst, Recs.empty]
  cases e <;> grind

theorem eddm_step_ok (c : EDDM.Cfg α) (m : Mon) (s : EDDM.State α) (e : Bool) (h : eddmInv c m s) :
    violated (eddmCfg c) m (eddmRow (EDDM.step c s e) e) = none ∧
      eddmInv c (advance m (eddmRow (EDDM.step c s e) e)) (EDDM.step c s e) := by
  obtain ⟨h1, h2, h3, h3e, h4, h5⟩ := h
  obtain ⟨f1, f2, fe, f3, f4, f5, f6⟩ := eddm_step_facts c s e h4 h5
  have herr : errsNow m (eddmRow (EDDM.step c s e) e) = (EDDM.step c s e).nErrors := by
    simp only [errsNow, eddmRow, fe, h3, h3e]
    cases e <;> rfl
  constructor
  · rw [violated_none_iff]
    constructor
    · simp [eddmCfg, eddmRow, expectedTotal, f1, h1]
    · simp only [eddmCfg, eddmRow, expectedSince, f2, h2, h3]; simp
    · intro hd
      have := f3 hd
      simp only [warm, eddmCfg, herr]; simpa using this
    · intro _ hd
      obtain ⟨a, ha, hle⟩ := f5 hd
      simp [recsAtDrift, eddmRow, ha, hle, f1]
    · intro _ hp _
      rw [h3] at hp
      obtain ⟨g1, g2⟩ := f6 hp
      simp only [recsFresh, eddmRow, f1]
      rcases g1 with g1 | g1 <;> rcases g2 with g2 | g2 <;> simp [g1, g2]
    · intro hk; simp [eddmCfg] at hk
  · refine ⟨by simp [advance, eddmRow], by simp [advance, eddmRow], by simp [advance, eddmRow], ?_, f3, ?_⟩
    · simp only [advance]; exact herr
    · rw [f1]; exact f4

/-- **EDDM satisfies the lifecycle contract on every history.** -/
theorem eddm_accepted (c : EDDM.Cfg α) (xs : List Bool) :
    accept (eddmCfg c) {} 0 (rowsOf (EDDM.step c) eddmRow EDDM.init xs) = none :=
  model_accepted (eddmCfg c) _ eddmRow (eddmInv c) (fun m s x h => eddm_step_ok c m s x h) xs {} EDDM.init 0
    (by simp [eddmInv, EDDM.init, Recs.empty])

end EDDM

/-! ### STEPD (kind `stepd`: two full windows) -/
section STEPD
variable {α : Type} [Add α] [Sub α] [Mul α] [Div α] [Neg α] [LT α] [DecidableLT α] [NatCast α] [HasSqrt α]

def stepdCfg (c : STEPD.Cfg α) : Cfg :=
  { kind := .stepd, a := c.window, b := 1, restart := 1, incAfterDrift := 1, hasRecs := true }

def stepdRow (s : STEPD.State) (_ : Bool) : Obs :=
  { drift := s.drift, total := s.total, since := s.since, recs := s.recs, err := false, refDone := false }

/-- the recommendation is empty while the state is `None`, otherwise a range of seen indices ending at
    the latest sample -/
def stepdInv (c : STEPD.Cfg α) (m : Mon) (s : STEPD.State) : Prop :=
  m.total = s.total ∧ m.since = s.since ∧ m.prevDrift = s.drift ∧
  (s.drift ≠ .none → s.since ≥ 2 * c.window) ∧
  (s.drift = .none → s.recs = Recs.empty) ∧
  (s.drift ≠ .none → ∃ a, s.recs = (some a, some (s.total - 1)) ∧ a + 1 ≤ s.total)

theorem stepd_push_fields (w : Nat) (s : STEPD.State) (ok : Bool) :
    (STEPD.push w s ok).total = s.total + 1 ∧ (STEPD.push w s ok).since = s.since + 1 ∧
    (STEPD.push w s ok).drift = s.drift ∧ (STEPD.push w s ok).recs = s.recs := by
  unfold STEPD.push
  simp only
  split
  · split <;> simp
  · simp

theorem stepd_step_facts (c : STEPD.Cfg α) (s : STEPD.State) (e : Bool)
    (hw : s.drift ≠ .none → s.since ≥ 2 * c.window)
    (hn : s.drift = .none → s.recs = Recs.empty)
    (hr : s.drift ≠ .none → ∃ a, s.recs = (some a, some (s.total - 1)) ∧ a + 1 ≤ s.total) :
    (STEPD.step c s e).total = s.total + 1 ∧
    (STEPD.step c s e).since = (if s.drift = .drift then 1 else s.since + 1) ∧
    ((STEPD.step c s e).drift ≠ .none → (STEPD.step c s e).since ≥ 2 * c.window) ∧
    ((STEPD.step c s e).drift = .none → (STEPD.step c s e).recs = Recs.empty) ∧
    ((STEPD.step c s e).drift ≠ .none → ∃ a, (STEPD.step c s e).recs = (some a, some s.total) ∧ a ≤ s.total) ∧
    (s.drift = .drift → (STEPD.step c s e).drift ≠ .none → (STEPD.step c s e).recs = (some s.total, some s.total)) := by
  obtain ⟨p1, p2, p3, p4⟩ := stepd_push_fields c.window (if s.drift = .drift then STEPD.reset s else s) (!e)
  simp only [STEPD.step, STEPD.core]
  generalize STEPD.push c.window (if s.drift = .drift then STEPD.reset s else s) (!e) = s1 at *
  generalize STEPD.decide3 c s1 = st
  by_cases hd : s.drift = .drift
  · simp only [hd, if_true, STEPD.reset, Recs.empty] at p1 p2 p3 p4 ⊢
    cases st <;> simp only [incRecsRun] <;> grind
  · simp only [hd, if_false] at p1 p2 p3 p4 ⊢
    by_cases hn' : s.drift = .none
    · have := hn hn'
      simp only [Recs.empty] at this ⊢
      cases st <;> simp only [incRecsRun] <;> grind
    · obtain ⟨a, ha, hle⟩ := hr hn'
      have := hw hn'
      cases st <;> simp only [incRecsRun, Recs.empty] <;> grind

theorem stepd_step_ok (c : STEPD.Cfg α) (m : Mon) (s : STEPD.State) (e : Bool) (h : stepdInv c m s) :
    violated (stepdCfg c) m (stepdRow (STEPD.step c s e) e) = none ∧
      stepdInv c (advance m (stepdRow (STEPD.step c s e) e)) (STEPD.step c s e) := by
  obtain ⟨h1, h2, h3, h4, h5, h6⟩ := h
  obtain ⟨f1, f2, f3, f4, f5, f6⟩ := stepd_step_facts c s e h4 h5 h6
  constructor
  · rw [violated_none_iff]
    constructor
    · simp [stepdCfg, stepdRow, expectedTotal, f1, h1]
    · simp only [stepdCfg, stepdRow, expectedSince, f2, h2, h3]; simp
    · intro hd; simpa [warm, stepdCfg, stepdRow] using f3 hd
    · intro _ hd
      obtain ⟨a, ha, hle⟩ := f5 (by simp only [stepdRow] at hd; rw [hd]; simp)
      simp [recsAtDrift, stepdRow, ha, hle, f1]
    · intro _ hp _
      rw [h3] at hp
      simp only [recsFresh, stepdRow, f1]
      by_cases hd : (STEPD.step c s e).drift = .none
      · rw [f4 hd]; simp [Recs.empty]
      · rw [f6 hp hd]; simp
    · intro hk; simp [stepdCfg] at hk
  · refine ⟨by simp [advance, stepdRow], by simp [advance, stepdRow], by simp [advance, stepdRow], f3, f4, ?_⟩
    intro hd
    obtain ⟨a, ha, hle⟩ := f5 hd
    exact ⟨a, by rw [ha, f1]; simp, by rw [f1]; omega⟩

/-- **STEPD satisfies the lifecycle contract on every history.** -/
theorem stepd_accepted (c : STEPD.Cfg α) (xs : List Bool) :
    accept (stepdCfg c) {} 0 (rowsOf (STEPD.step c) stepdRow STEPD.init xs) = none :=
  model_accepted (stepdCfg c) _ stepdRow (stepdInv c) (fun m s x h => stepd_step_ok c m s x h) xs {} STEPD.init 0
    (by simp [stepdInv, STEPD.init, Recs.empty])

end STEPD

/-! ### CUSUM (kind `burnin`, restart 1) -/
section CUSUM
variable {α : Type} [Add α] [Sub α] [Mul α] [Div α] [LT α] [DecidableLT α] [NatCast α] [BEq α]
  [HasSqrt α]

def cusumCfg (c : Cusum.Cfg α) : Cfg :=
  { kind := .burnin, a := c.burnIn, b := 1, restart := 1, incAfterDrift := 1, hasRecs := false }

def cusumRow (s : Cusum.State α) (_ : α) : Obs :=
  { drift := s.drift, total := s.total, since := s.since, recs := (none, none), err := false, refDone := false }

def cusumInv (c : Cusum.Cfg α) (m : Mon) (s : Cusum.State α) : Prop :=
  m.total = s.total ∧ m.since = s.since ∧ m.prevDrift = s.drift ∧ (s.drift ≠ .none → s.since > c.burnIn)

/-- an update either keeps the (reset) state or alarms past the burn-in — whatever its outcome -/
theorem cusum_step_drift (c : Cusum.Cfg α) (s : Cusum.State α) (x : α) :
    (Cusum.step c s x).1.drift = (if s.drift = .drift then .none else s.drift) ∨
    ((Cusum.step c s x).1.drift = .drift ∧ (Cusum.step c s x).1.since > c.burnIn) := by
  have hp : (Cusum.prep c s).drift = (if s.drift = .drift then .none else s.drift) := by
    unfold Cusum.prep; split <;> simp_all
  unfold Cusum.step
  rcases Cusum.core_cases c (Cusum.prep c s) x with h' | h' | ⟨t, d, _, _, _, h'⟩
  · left; rw [h'.1, ← hp]; rfl
  · left; rw [h'.1, ← hp]; rfl
  · rw [h']
    unfold Cusum.advance Cusum.finish
    split
    · right; rename_i h; exact ⟨rfl, h.1⟩
    · left; rw [← hp]; rfl

theorem cusum_step_ok (c : Cusum.Cfg α) (m : Mon) (s : Cusum.State α) (x : α) (h : cusumInv c m s) :
    violated (cusumCfg c) m (cusumRow (Cusum.step c s x).1 x) = none ∧
      cusumInv c (advance m (cusumRow (Cusum.step c s x).1 x)) (Cusum.step c s x).1 := by
  obtain ⟨h1, h2, h3, h4⟩ := h
  have ht := Cusum.step_total c s x
  have hs := Cusum.step_since c s x
  have hw : (Cusum.step c s x).1.drift ≠ .none → (Cusum.step c s x).1.since > c.burnIn := by
    intro hne
    rcases cusum_step_drift c s x with hd | ⟨_, hd⟩
    · by_cases hdd : s.drift = .drift
      · rw [if_pos hdd] at hd; exact absurd hd hne
      · rw [if_neg hdd] at hd hs
        rw [hd] at hne; have := h4 hne; omega
    · exact hd
  constructor
  · rw [violated_none_iff]
    constructor
    · simp [cusumCfg, cusumRow, expectedTotal, ht, h1]
    · simp only [cusumCfg, cusumRow, expectedSince, hs, h2, h3]; simp
    · intro hd; simpa [warm, cusumCfg, cusumRow] using hw hd
    · intro hk; simp [cusumCfg] at hk
    · intro hk; simp [cusumCfg] at hk
    · intro hk; simp [cusumCfg] at hk
  · exact ⟨by simp [advance, cusumRow], by simp [advance, cusumRow], by simp [advance, cusumRow], hw⟩

/-- **CUSUM satisfies the lifecycle contract on every history** — the rows are the states the detector
    is left in by *every* update, including one that raises (`total_samples` has then been
    incremented already, see `Model/Cusum.lean`); in particular on the histories in which no update
    raises (`Cusum.run c xs = some s`), which are the ones the contract quantifies over. -/
theorem cusum_accepted (c : Cusum.Cfg α) (xs : List α) :
    accept (cusumCfg c) {} 0 (rowsOf (fun s x => (Cusum.step c s x).1) cusumRow (Cusum.init c) xs) = none :=
  model_accepted (cusumCfg c) _ cusumRow (cusumInv c) (fun m s x h => cusum_step_ok c m s x h) xs {}
    (Cusum.init c) 0 (by simp [cusumInv, Cusum.init])

end CUSUM

/-! ### ADWIN / ADWINAccuracy (kind `adwin`: schedule and minimum width; the width is reconstructed
    from the public recommendation) -/
section ADWIN
variable {α : Type} [Add α] [Sub α] [Mul α] [Div α] [Neg α] [LT α] [DecidableLT α]
  [NatCast α] [HasSqrt α] [HasLogExp α]

def adwinCfg (c : Adwin.Cfg α) : Cfg :=
  { kind := .adwin, a := c.windowThresh, b := c.newSampleThresh, restart := 1, incAfterDrift := 1, hasRecs := true }

/-- `Model/Adwin.lean` leaves out `samples_since_reset` (ADWIN never reads it).  The contract observes
    it, so the model state is paired with it here, transcribed from `adwin.py:105-115`:
    `if self.drift_state is not None: self.reset()` (→ 0), then `super().update` (+ 1). -/
structure AdwinL (α : Type) where
  st : Adwin.State α
  since : Nat

def adwinInitL : AdwinL α := ⟨Adwin.init, 0⟩

def adwinStepL (c : Adwin.Cfg α) (s : AdwinL α) (x : α) : AdwinL α :=
  ⟨Adwin.step c s.st x, (if s.st.drift ≠ .none then 0 else s.since) + 1⟩

def adwinObs (s : AdwinL α) : Obs :=
  { drift := s.st.drift, total := s.st.total, since := s.since, recs := s.st.recs, err := false, refDone := false }

def adwinRow (s : AdwinL α) (_ : α) : Obs := adwinObs s

/-- the acceptor's reconstructed width is the model's `_window_size` -/
def adwinInv (m : Mon) (s : AdwinL α) : Prop :=
  m.total = s.st.total ∧ m.since = s.since ∧ m.prevDrift = s.st.drift ∧ m.width = s.st.W ∧ Adwin.SInv s.st

theorem adwin_step_ok (c : Adwin.Cfg α) (hsub : 1 ≤ c.subThresh) (m : Mon) (s : AdwinL α) (x : α)
    (h : adwinInv m s) :
    violated (adwinCfg c) m (adwinRow (adwinStepL c s x) x) = none ∧
      adwinInv (advance m (adwinRow (adwinStepL c s x) x)) (adwinStepL c s x) := by
  obtain ⟨h1, h2, h3, h4, h5⟩ := h
  obtain ⟨st, since⟩ := s
  simp only at h1 h2 h3 h4 h5
  obtain ⟨hinv, htot, _⟩ := Adwin.step_spec c hsub st h5 x
  obtain ⟨w1, w2, w3, w4⟩ := Adwin.width_step c hsub st h5 x
  have hdi := Adwin.step_drift_iff c hsub st h5 x
  obtain ⟨r1, r2⟩ := Adwin.step_recs c hsub st h5 x
  obtain ⟨_, a2, a3, _, _, _⟩ := Adwin.afterAdd_spec c st h5 x
  have hnw := hinv.nowarn
  have hnw0 := h5.nowarn
  -- the reconstructed width
  have hwidth : widthNow m (adwinRow (adwinStepL c ⟨st, since⟩ x) x) = (Adwin.step c st x).W := by
    simp only [widthNow, adwinRow, adwinObs, adwinStepL]
    by_cases hd : (Adwin.step c st x).drift = .drift
    · obtain ⟨e1, e2⟩ := r1 hd
      rw [hd, e1]; simp only; omega
    · have hn : (Adwin.step c st x).drift = .none := by
        cases hdd : (Adwin.step c st x).drift <;> simp_all
      rw [hn]; simp only; rw [h4]; exact (w3.mp hn).symm
  constructor
  · rw [violated_none_iff]
    constructor
    · simp [adwinCfg, adwinRow, adwinObs, adwinStepL, expectedTotal, htot, h1]
    · simp only [adwinCfg, adwinRow, adwinObs, adwinStepL, expectedSince, h2, h3]
      cases hdd : st.drift <;> simp_all
    · intro hd
      have hd' : (Adwin.step c st x).drift = .drift := by
        simp only [adwinRow, adwinObs, adwinStepL] at hd
        cases hdd : (Adwin.step c st x).drift <;> simp_all
      obtain ⟨hs, _⟩ := hdi.mp hd'
      simp only [Adwin.scheduled, a2, a3, decide_eq_true_eq] at hs
      simp only [warm, adwinCfg, adwinRow, adwinObs, adwinStepL, htot, h4]
      simp [hs.1, hs.2]
    · intro _ hd
      simp only [adwinRow, adwinObs, adwinStepL] at hd
      obtain ⟨e1, e2⟩ := r1 hd
      simp only [recsAtDrift, adwinRow, adwinObs, adwinStepL, e1]
      simp only [Bool.and_eq_true, decide_eq_true_eq]
      omega
    · intro _ _ hk
      have hd : (Adwin.step c st x).drift ≠ .drift := by
        intro hd; exact hk ⟨rfl, by simpa [adwinRow, adwinObs, adwinStepL] using hd⟩
      simp [recsFresh, adwinRow, adwinObs, adwinStepL, r2 hd, Recs.empty]
    · intro _ hd
      simp only [adwinRow, adwinObs, adwinStepL] at hd
      obtain ⟨e1, e2⟩ := r1 hd
      have horecs : (adwinRow (adwinStepL c ⟨st, since⟩ x) x).recs =
          (some ((Adwin.step c st x).total - (Adwin.step c st x).W), some ((Adwin.step c st x).total - 1)) := e1
      have hotot : (adwinRow (adwinStepL c ⟨st, since⟩ x) x).total = (Adwin.step c st x).total := rfl
      unfold adwinRecs
      rw [horecs]
      simp only [hwidth, hotot, Bool.and_eq_true, decide_eq_true_eq]
      omega
  · refine ⟨by simp [advance, adwinRow, adwinObs, adwinStepL], by simp [advance, adwinRow, adwinObs, adwinStepL],
      by simp [advance, adwinRow, adwinObs, adwinStepL], ?_, hinv⟩
    simp only [advance]; exact hwidth

/-- **ADWIN satisfies the lifecycle contract on every history** (`subwindow_size_thresh ≥ 1`, as in C03). -/
theorem adwin_accepted (c : Adwin.Cfg α) (hsub : 1 ≤ c.subThresh) (xs : List α) :
    accept (adwinCfg c) {} 0 (rowsOf (adwinStepL c) adwinRow adwinInitL xs) = none :=
  model_accepted (adwinCfg c) _ adwinRow adwinInv (fun m s x h => adwin_step_ok c hsub m s x h) xs {}
    adwinInitL 0 ⟨rfl, rfl, rfl, rfl, Adwin.sinv_init⟩

/-- the paired state's first component is the C03 model run -/
theorem adwinL_st (c : Adwin.Cfg α) (xs : List α) (s : AdwinL α) :
    (xs.foldl (adwinStepL c) s).st = xs.foldl (Adwin.step c) s.st := by
  induction xs generalizing s with
  | nil => rfl
  | cons x xs ih => simp only [List.foldl_cons]; rw [ih]; rfl

/-- **ADWINAccuracy** is ADWIN on the agreement indicator (`C03.adwinAcc_eq_adwin`), so its traces are
    accepted under the same configuration -/
theorem adwinAcc_accepted {β : Type} [DecidableEq β] (c : Adwin.Cfg α) (hsub : 1 ≤ c.subThresh)
    (ys : List (β × β)) :
    accept (adwinCfg c) {} 0
      (rowsOf (fun s (y : β × β) => adwinStepL c s (AdwinAcc.indicator y.1 y.2))
        (fun s _ => adwinObs s) adwinInitL ys) = none :=
  model_accepted (adwinCfg c) _ _ adwinInv
    (fun m s y h => adwin_step_ok c hsub m s (AdwinAcc.indicator y.1 y.2) h) ys {}
    adwinInitL 0 ⟨rfl, rfl, rfl, rfl, Adwin.sinv_init⟩

end ADWIN

/-! ### LinearFourRates (kind `lfr`: past the burn-in and on the subsample schedule) -/
section LFR
variable {α : Type} [Add α] [Sub α] [Mul α] [Div α] [LT α] [DecidableLT α] [LE α] [DecidableLE α]
  [NatCast α] [BEq α] [LFR.HasRound α]

def lfrCfg (c : LFR.Cfg α) : Cfg :=
  { kind := .lfr, a := c.burnIn, b := c.subsample, restart := 1, incAfterDrift := 1, hasRecs := true }

def lfrRow (s : LFR.State α) (_ : LFR.Op) : Obs :=
  { drift := s.drift, total := s.total, since := s.since, recs := s.recs, err := false, refDone := false }

def lfrStep (c : LFR.Cfg α) (s : LFR.State α) (o : LFR.Op) : LFR.State α := LFR.step c s o.yt o.yp o.blocks

def lfrInv (c : LFR.Cfg α) (m : Mon) (s : LFR.State α) : Prop :=
  m.total = s.total ∧ m.since = s.since ∧ m.prevDrift = s.drift ∧
  (s.drift ≠ .none → LFR.gate c s.since = true) ∧ (∀ a, s.recs.1 = some a → a < s.total)

/-- outside the gate (`since > burn_in` and `since % subsample = 0`) no rate is tested, so nothing is flagged -/
theorem lfr_quiet (c : LFR.Cfg α) (s : LFR.State α) (yt yp : Bool) (bl : List LFR.Block)
    (hg : LFR.gate c ((LFR.preReset s).since + 1) = false) : (LFR.step c s yt yp bl).drift = .none := by
  obtain ⟨_, _, a3, _⟩ := LFR.step_fields c s yt yp bl
  rw [a3]
  have hc := LFR.loop_closed c (LFR.ctxOf (LFR.preReset s) yt yp) c.tracked (LFR.acc0 (LFR.preReset s) bl)
    (by simpa [LFR.ctxOf] using hg)
  unfold LFR.decide3
  rw [hc.1, hc.2.1]
  simp [LFR.acc0, LFR.allRates]

theorem lfr_step_ok (c : LFR.Cfg α) (m : Mon) (s : LFR.State α) (o : LFR.Op) (h : lfrInv c m s) :
    violated (lfrCfg c) m (lfrRow (lfrStep c s o) o) = none ∧
      lfrInv c (advance m (lfrRow (lfrStep c s o) o)) (lfrStep c s o) := by
  obtain ⟨h1, h2, h3, h4, h5⟩ := h
  obtain ⟨a1, a2, a3, a4, _⟩ := LFR.step_fields c s o.yt o.yp o.blocks
  obtain ⟨p1, _, _, p4, p5, _⟩ := LFR.preReset_fields s
  rw [p1] at a1 a4
  rw [p4] at a2
  have hq := lfr_quiet c s o.yt o.yp o.blocks
  rw [p4] at hq
  have hw : (lfrStep c s o).drift ≠ .none → LFR.gate c (lfrStep c s o).since = true := by
    intro hne
    unfold lfrStep at *
    rw [a2]
    cases hg : LFR.gate c ((if s.drift = .drift then 0 else s.since) + 1) with
    | true => rfl
    | false => exact absurd (hq hg) hne
  generalize hst : LFR.decide3 _ = st at a3 a4
  have hrecs : (lfrStep c s o).recs = LFR.recsUpd (if s.drift = .drift then Recs.empty else s.recs) st s.total := by
    unfold lfrStep; rw [a4, p5]
  have hfirst : ∀ a, (lfrStep c s o).recs.1 = some a → a < s.total + 1 := by
    intro a ha
    rw [hrecs] at ha
    by_cases hd : s.drift = .drift
    · simp only [hd, if_true, Recs.empty] at ha
      cases st <;> simp [LFR.recsUpd] at ha <;> omega
    · simp only [hd, if_false] at ha
      cases hr : s.recs.1 with
      | none => cases st <;> simp [LFR.recsUpd, hr] at ha <;> omega
      | some b =>
        have := h5 b hr
        cases st <;> simp [LFR.recsUpd, hr] at ha <;> omega
  constructor
  · rw [violated_none_iff]
    constructor
    · simp [lfrCfg, lfrRow, lfrStep, expectedTotal, a1, h1]
    · simp only [lfrCfg, lfrRow, lfrStep, expectedSince, a2, h2, h3]
      split <;> simp
    · intro hd
      have := hw hd
      simp only [LFR.gate] at this
      simpa [warm, lfrCfg, lfrRow] using this
    · intro _ hd
      have hd' : st = .drift := by rw [← a3]; exact hd
      have hr := hrecs
      rw [hd'] at hr
      simp only [LFR.recsUpd] at hr
      have ht : (lfrRow (lfrStep c s o) o).total = s.total + 1 := a1
      have horecs : (lfrRow (lfrStep c s o) o).recs = (lfrStep c s o).recs := rfl
      unfold recsAtDrift
      rw [horecs, hr, ht]
      by_cases hd0 : s.drift = .drift
      · simp [hd0, Recs.empty]
      · simp only [hd0, if_false]
        cases hr1 : s.recs.1 with
        | none => simp
        | some b => have := h5 b hr1; simp; omega
    · intro _ hp _
      rw [h3] at hp
      have hr := hrecs
      rw [if_pos hp] at hr
      have ht : (lfrRow (lfrStep c s o) o).total = s.total + 1 := a1
      have horecs : (lfrRow (lfrStep c s o) o).recs = (lfrStep c s o).recs := rfl
      unfold recsFresh
      rw [horecs, hr, ht]
      cases st <;> simp [LFR.recsUpd, Recs.empty]
    · intro hk; simp [lfrCfg] at hk
  · refine ⟨by simp [advance, lfrRow], by simp [advance, lfrRow], by simp [advance, lfrRow], hw, ?_⟩
    unfold lfrStep at *
    rw [a1]; exact hfirst

/-- **LinearFourRates satisfies the lifecycle contract on every history** (every sequence of labelled
    predictions and Monte-Carlo draws). -/
theorem lfr_accepted (c : LFR.Cfg α) (ops : List LFR.Op) :
    accept (lfrCfg c) {} 0 (rowsOf (lfrStep c) lfrRow LFR.init ops) = none :=
  model_accepted (lfrCfg c) _ lfrRow (lfrInv c) (fun m s x h => lfr_step_ok c m s x h) ops {} LFR.init 0
    (by simp [lfrInv, LFR.init, Recs.empty])

end LFR

/-! ### NN-DVI (kind `batch1`: one test batch) -/
section NNDVI
variable {α : Type} [LT α] [DecidableLT α] [Add α] [Sub α] [Mul α] [Div α] [Neg α] [NatCast α] [HasSqrt α]

def nndviCfg : Cfg :=
  { kind := .batch1, a := 0, b := 1, restart := 1, incAfterDrift := 1, hasRecs := false }

/-- one `update(X)`: the batch, the k-NN graph of the pooled points, the permutations drawn -/
abbrev NndviIn (α : Type) := List (NNSP.Row α) × List (List Bool) × List (List Nat)

def nndviStep (c : NNDVI.Cfg α) (s : NNDVI.State α) (i : NndviIn α) : NNDVI.State α :=
  (NNDVI.step c s i.1 i.2.1 i.2.2).1

def nndviRow (s : NNDVI.State α) (_ : NndviIn α) : Obs :=
  { drift := s.drift, total := s.total, since := s.since, recs := (none, none), err := false, refDone := false }

def nndviInv (m : Mon) (s : NNDVI.State α) : Prop :=
  m.total = s.total ∧ m.since = s.since ∧ m.prevDrift = s.drift

theorem nndvi_step_ok (c : NNDVI.Cfg α) (m : Mon) (s : NNDVI.State α) (i : NndviIn α) (h : nndviInv m s) :
    violated nndviCfg m (nndviRow (nndviStep c s i) i) = none ∧
      nndviInv (advance m (nndviRow (nndviStep c s i) i)) (nndviStep c s i) := by
  obtain ⟨h1, h2, h3⟩ := h
  obtain ⟨ht, hs⟩ := NNDVI.step_counters c s i.1 i.2.1 i.2.2
  constructor
  · rw [violated_none_iff]
    constructor
    · simp [nndviCfg, nndviRow, nndviStep, expectedTotal, ht, h1]
    · simp only [nndviCfg, nndviRow, nndviStep, expectedSince, hs, h2, h3]; split <;> simp
    · intro _; simp [warm, nndviCfg, nndviRow, nndviStep, hs]
    · intro hk; simp [nndviCfg] at hk
    · intro hk; simp [nndviCfg] at hk
    · intro hk; simp [nndviCfg] at hk
  · exact ⟨by simp [advance, nndviRow], by simp [advance, nndviRow], by simp [advance, nndviRow]⟩

/-- the detector before its first update: fresh (`none`) or after `set_reference(X)` (`some X`) -/
def nndviInit (ref : Option (List (NNSP.Row α))) : NNDVI.State α :=
  { (NNDVI.init : NNDVI.State α) with reference := ref }

omit [LT α] [DecidableLT α] [Add α] [Sub α] [Mul α] [Div α] [Neg α] [NatCast α] [HasSqrt α] in
theorem nndviInit_some (X : List (NNSP.Row α)) : nndviInit (some X) = NNDVI.setReference NNDVI.init X := rfl

/-- **NN-DVI satisfies the lifecycle contract on every history of updates**, whatever reference batch
    `set_reference` installed before (`ref = none`: every update is rejected, and still counted). -/
theorem nndvi_accepted (c : NNDVI.Cfg α) (ref : Option (List (NNSP.Row α))) (xs : List (NndviIn α)) :
    accept nndviCfg {} 0 (rowsOf (nndviStep c) nndviRow (nndviInit ref) xs) = none :=
  model_accepted nndviCfg _ nndviRow nndviInv (fun m s x h => nndvi_step_ok c m s x h) xs {} _ 0
    (by simp [nndviInv, nndviInit, NNDVI.init])

end NNDVI

/-! ### MD3 (kind `md3`: no minimum; the rows are the accepted `update` calls) -/
section MD3
variable {α : Type} [Add α] [Sub α] [Mul α] [Div α] [Neg α] [LT α] [DecidableLT α] [NatCast α]

def md3Cfg : Cfg :=
  { kind := .md3, a := 0, b := 1, restart := 1, incAfterDrift := 1, hasRecs := false }

def md3Row (s : MD3.State α) : Obs :=
  { drift := s.drift, total := s.total, since := s.since, recs := (none, none), err := false, refDone := false }

/-- The rows of a call history (any interleaving of `update` and `give_oracle_label` calls, refused
    ones included): one row per *accepted* `update`, read when the next accepted update arrives or the
    history ends — i.e. after the label calls that answer it, which are not updates (this is how
    `harness/checks/c01.py` observes MD3).  `pending` = an accepted update still awaits its row. -/
def md3Rows (c : MD3.Cfg α) : MD3.State α → Bool → List (MD3.Op α) → List Obs
  | s, pending, [] => if pending then [md3Row s] else []
  | s, pending, op :: ops =>
    if MD3.countsAsUpdate s op then
      (if pending then [md3Row s] else []) ++ md3Rows c (MD3.step c s op).1 true ops
    else md3Rows c (MD3.step c s op).1 pending ops

/-- the acceptor's memory mirrors the detector -/
def md3Mirror (m : Mon) (s : MD3.State α) : Prop :=
  m.total = s.total ∧ m.since = s.since ∧ m.prevDrift = s.drift

/-- an update was accepted since the acceptor's last row: the counters are one update ahead -/
def md3Ahead (m : Mon) (s : MD3.State α) : Prop :=
  s.total = m.total + 1 ∧ s.since = (if m.prevDrift = .drift then 1 else m.since + 1)

def md3Inv (m : Mon) (s : MD3.State α) : Bool → Prop
  | false => md3Mirror m s ∧ s.waiting = false
  | true => md3Ahead m s

omit [Add α] [Sub α] [Mul α] [Div α] [Neg α] [LT α] [DecidableLT α] [NatCast α] in
theorem md3_row_ok (m : Mon) (s : MD3.State α) (h : md3Ahead m s) :
    violated md3Cfg m (md3Row s) = none ∧ md3Mirror (advance m (md3Row s)) s := by
  obtain ⟨h1, h2⟩ := h
  constructor
  · rw [violated_none_iff]
    constructor
    · simp [md3Cfg, md3Row, expectedTotal, h1]
    · simp only [md3Cfg, md3Row, expectedSince, h2]; simp
    · intro _; simp [warm, md3Cfg]
    · intro hk; simp [md3Cfg] at hk
    · intro hk; simp [md3Cfg] at hk
    · intro hk; simp [md3Cfg] at hk
  · exact ⟨by simp [advance, md3Row], by simp [advance, md3Row], by simp [advance, md3Row]⟩

theorem md3_update_ahead (c : MD3.Cfg α) (m : Mon) (s : MD3.State α) (op : MD3.Op α)
    (h : md3Mirror m s) (hc : MD3.countsAsUpdate s op = true) : md3Ahead m (MD3.step c s op).1 := by
  obtain ⟨h1, h2, h3⟩ := h
  have ht := MD3.step_total c s op
  have hs := MD3.step_since c s op
  rw [hc] at ht hs
  simp only [if_true] at ht hs
  refine ⟨by rw [ht, h1], ?_⟩
  rw [hs, h2, h3]; split <;> simp

theorem md3_other_ahead (c : MD3.Cfg α) (m : Mon) (s : MD3.State α) (op : MD3.Op α)
    (h : md3Ahead m s) (hc : MD3.countsAsUpdate s op = false) : md3Ahead m (MD3.step c s op).1 := by
  have ht := MD3.step_total c s op
  have hs := MD3.step_since c s op
  rw [hc] at ht hs
  simp only [Bool.false_eq_true, if_false, Nat.add_zero] at ht hs
  unfold md3Ahead
  rw [ht, hs]; exact h

theorem md3_other_idle (c : MD3.Cfg α) (s : MD3.State α) (op : MD3.Op α) (hw : s.waiting = false)
    (hc : MD3.countsAsUpdate s op = false) : (MD3.step c s op).1 = s := by
  cases op <;> grind [MD3.step, MD3.update, MD3.label, MD3.countsAsUpdate]

theorem md3_accepted_from (c : MD3.Cfg α) (ops : List (MD3.Op α)) :
    ∀ (m : Mon) (s : MD3.State α) (i : Nat) (p : Bool), md3Inv m s p →
      accept md3Cfg m i (md3Rows c s p ops) = none := by
  induction ops with
  | nil =>
    intro m s i p h
    cases p with
    | false => simp [md3Rows, accept]
    | true => simp [md3Rows, accept, (md3_row_ok m s h).1]
  | cons op ops ih =>
    intro m s i p h
    unfold md3Rows
    cases hc : MD3.countsAsUpdate s op with
    | true =>
      simp only [if_true]
      cases p with
      | false =>
        simp only [Bool.false_eq_true, if_false, List.nil_append]
        exact ih m _ i true (md3_update_ahead c m s op h.1 hc)
      | true =>
        obtain ⟨r1, r2⟩ := md3_row_ok m s h
        simp only [if_true, List.singleton_append, accept, r1]
        exact ih _ _ _ true (md3_update_ahead c _ s op r2 hc)
    | false =>
      simp only [Bool.false_eq_true, if_false]
      cases p with
      | false =>
        have := md3_other_idle c s op h.2 hc
        rw [this]
        exact ih m s i false h
      | true => exact ih m _ i true (md3_other_ahead c m s op h hc)

/-- **MD3 satisfies the lifecycle contract on every call history** (updates, labels and refused calls
    in any order), from the state after the constructor and the first `set_reference`. -/
theorem md3_accepted (c : MD3.Cfg α) (r : MD3.Ref α) (ops : List (MD3.Op α)) :
    accept md3Cfg {} 0 (md3Rows c (MD3.init c r) false ops) = none :=
  md3_accepted_from c ops {} (MD3.init c r) 0 false ⟨⟨rfl, rfl, rfl⟩, rfl⟩

end MD3

/-! ### PCA-CD (kind `pcacd`: restart 0; both windows full and on the schedule) -/
section PCACD
variable {X α : Type} [Add α] [Sub α] [Mul α] [Div α] [LT α] [DecidableLT α] [LE α] [DecidableLE α]
  [NatCast α] [IntCast α] [PCACD.HasTrunc α]

def pcacdCfg (c : PCACD.Cfg α) : Cfg :=
  { kind := .pcacd, a := c.w, b := c.step, restart := 0, incAfterDrift := 1, hasRecs := false }

def pcacdStep (c : PCACD.Cfg α) (s : PCACD.State X α) (xo : X × PCACD.Oracle α) : PCACD.State X α :=
  PCACD.step c s xo.1 xo.2

def pcacdRow (s : PCACD.State X α) (_ : X × PCACD.Oracle α) : Obs :=
  { drift := s.drift, total := s.total, since := s.since, recs := (none, none), err := false, refDone := false }

/-- how far the fill phase has come: `since` counts the samples put into the windows (first epoch: the
    reference, then the test window; later epochs: the test window only — the reference is the former
    test window and the sample after the drift is discarded); `first` = no drift reported yet -/
def pcacdFill (c : PCACD.Cfg α) (first : Bool) (s : PCACD.State X α) : Prop :=
  s.since ≥ s.test.length ∧
  (first = true → (s.ref.length < c.w → s.test.length = 0 ∧ s.since ≥ s.ref.length) ∧
                  (c.w ≤ s.ref.length → s.since ≥ c.w + s.test.length))

/-- the part of the invariant that does not mention the acceptor -/
structure PcacdReach (c : PCACD.Cfg α) (first : Bool) (s : PCACD.State X α) : Prop where
  notWarning : s.drift ≠ .warning
  drifted : s.drift ≠ .none → s.building = true ∧ first = false
  sliding : s.building = false → s.since ≥ (if first then 2 * c.w else c.w)
  filling : s.building = true → s.drift = .none → pcacdFill c first s

omit [IntCast α] in
theorem pcacd_step_facts (c : PCACD.Cfg α) (first : Bool) (s : PCACD.State X α) (x : X) (o : PCACD.Oracle α)
    (h : PcacdReach c first s) :
    (PCACD.step c s x o).drift ≠ .warning ∧
    ((PCACD.step c s x o).drift ≠ .none → (PCACD.step c s x o).building = true ∧ s.total % c.step = 0 ∧
      (PCACD.step c s x o).since ≥ (if first then 2 * c.w else c.w)) ∧
    ((PCACD.step c s x o).building = false → (PCACD.step c s x o).since ≥ (if first then 2 * c.w else c.w)) ∧
    ((PCACD.step c s x o).building = true → (PCACD.step c s x o).drift = .none →
      pcacdFill c first (PCACD.step c s x o)) := by
  obtain ⟨h1, h2, h3, h4⟩ := h
  unfold pcacdFill at *
  refine ⟨?_, ?_, ?_, ?_⟩
  · grind [PCACD.step, PCACD.fill, PCACD.build, PCACD.slide]
  · grind [PCACD.step, PCACD.fill, PCACD.build, PCACD.slide, PCACD.scheduled]
  · grind [PCACD.step, PCACD.fill, PCACD.build, PCACD.slide]
  · grind [PCACD.step, PCACD.fill, PCACD.build, PCACD.slide]


def pcacdInv (c : PCACD.Cfg α) (m : Mon) (s : PCACD.State X α) : Prop :=
  m.total = s.total ∧ m.since = s.since ∧ m.prevDrift = s.drift ∧ PcacdReach c (decide (m.epoch = 0)) s

theorem pcacd_step_ok (c : PCACD.Cfg α) (m : Mon) (s : PCACD.State X α) (xo : X × PCACD.Oracle α)
    (h : pcacdInv c m s) :
    violated (pcacdCfg c) m (pcacdRow (pcacdStep c s xo) xo) = none ∧
      pcacdInv c (advance m (pcacdRow (pcacdStep c s xo) xo)) (pcacdStep c s xo) := by
  obtain ⟨h1, h2, h3, h4⟩ := h
  obtain ⟨f1, f2, f3, f4⟩ := pcacd_step_facts c _ s xo.1 xo.2 h4
  have ht := PCACD.step_total c s xo.1 xo.2
  have hs := PCACD.step_since c s xo.1 xo.2
  have hdb : (s.building = true ∧ s.drift ≠ .none) ↔ m.prevDrift = .drift := by
    rw [h3]
    constructor
    · intro ⟨_, hd⟩
      have := h4.notWarning
      cases hdd : s.drift <;> simp_all
    · intro hd
      exact ⟨(h4.drifted (by rw [hd]; simp)).1, by rw [hd]; simp⟩
  constructor
  · rw [violated_none_iff]
    constructor
    · simp [pcacdCfg, pcacdRow, pcacdStep, expectedTotal, ht, h1]
    · simp only [pcacdCfg, pcacdRow, pcacdStep, expectedSince, hs, h2]
      by_cases hp : m.prevDrift = .drift
      · simp [hp, hdb.mpr hp]
      · have : ¬ (s.building = true ∧ s.drift ≠ .none) := fun hh => hp (hdb.mp hh)
        simp [hp, this]
    · intro hd
      obtain ⟨_, g2, g3⟩ := f2 hd
      simp only [warm, pcacdCfg, pcacdRow, pcacdStep, ht, Nat.add_sub_cancel, Bool.and_eq_true,
        beq_iff_eq, decide_eq_true_eq]
      refine ⟨g2, ?_⟩
      by_cases he : m.epoch = 0 <;> simpa [he] using g3
    · intro hk; simp [pcacdCfg] at hk
    · intro hk; simp [pcacdCfg] at hk
    · intro hk; simp [pcacdCfg] at hk
  · refine ⟨by simp [advance, pcacdRow], by simp [advance, pcacdRow], by simp [advance, pcacdRow], ?_⟩
    by_cases hd : (pcacdStep c s xo).drift = .drift
    · -- a drift row: the detector is rebuilding, the acceptor has left its first epoch
      have hne : (PCACD.step c s xo.1 xo.2).drift ≠ .none := by
        unfold pcacdStep at hd; rw [hd]; simp
      have hb := (f2 hne).1
      have he : decide ((advance m (pcacdRow (pcacdStep c s xo) xo)).epoch = 0) = false := by
        simp [advance, pcacdRow, hd]
      rw [he]
      have hsl : (pcacdStep c s xo).building = false →
          (pcacdStep c s xo).since ≥ (if false = true then 2 * c.w else c.w) := by
        intro h'; unfold pcacdStep at h'; rw [hb] at h'; cases h'
      exact ⟨f1, fun _ => ⟨hb, rfl⟩, hsl, fun _ h' => absurd h' hne⟩
    · have hn : (PCACD.step c s xo.1 xo.2).drift = .none := by
        unfold pcacdStep at hd
        cases hdd : (PCACD.step c s xo.1 xo.2).drift <;> simp_all
      have he : (advance m (pcacdRow (pcacdStep c s xo) xo)).epoch = m.epoch := by
        simp [advance, pcacdRow, hd]
      rw [he]
      exact ⟨f1, fun h' => absurd hn h', f3, f4⟩

/-- **PCA-CD satisfies the lifecycle contract on every history** (every sequence of samples and oracle
    values; no assumption on `window_size` or the step). -/
theorem pcacd_accepted (c : PCACD.Cfg α) (xs : List (X × PCACD.Oracle α)) :
    accept (pcacdCfg c) {} 0 (rowsOf (pcacdStep c) pcacdRow PCACD.init xs) = none :=
  model_accepted (pcacdCfg c) _ pcacdRow (pcacdInv c) (fun m s x h => pcacd_step_ok c m s x h) xs {}
    PCACD.init 0
    ⟨rfl, rfl, rfl, by
      constructor <;> simp [PCACD.init, pcacdFill]⟩

end PCACD

/-! ### Non-vacuity: per detector, a concrete trace with a drift (some with a preceding warning) and the
    restart on the update that follows — `(drift_state, samples_since_reset)` per row.  The `_accepted`
    theorems have no hypothesis other than ADWIN's `1 ≤ subThresh`, which `Adwin.cfgEx` meets. -/
section Examples
local instance : HasSqrt ℚ := ⟨fun x => x⟩
local instance : HasLogExp ℚ := ⟨fun _ => 1, fun _ => 1⟩
local instance : LFR.HasRound Int := ⟨Int.toNat, id⟩

/-- what the examples show of a trace -/
def view (os : List Obs) : List (Drift × Nat) := os.map (fun o => (o.drift, o.since))

example : view (rowsOf (fun s x => (PH.step (⟨0, 1, 1, .positive⟩ : PH.Cfg ℚ) s x).1) phRow PH.init [0, 0, 5, 0]) =
    [(.none, 1), (.none, 2), (.drift, 3), (.none, 1)] := by decide +kernel
example : view (rowsOf (DDM.step C05Examples.cd) ddmRow DDM.init [true, false, false, false, true, true]) =
    [(.none, 1), (.warning, 2), (.warning, 3), (.warning, 4), (.drift, 5), (.none, 1)] := by decide +kernel
example : (view (rowsOf (EDDM.step C05Examples.ce) eddmRow EDDM.init (C05Examples.xe ++ [false]))).drop 7 =
    [(.none, 8), (.warning, 9), (.warning, 10), (.drift, 11), (.none, 1)] := by decide +kernel
example : (view (rowsOf (STEPD.step C05Examples.cs) stepdRow STEPD.init C05Examples.xs)).drop 4 =
    [(.none, 5), (.warning, 6), (.drift, 7), (.none, 1), (.none, 2), (.none, 3), (.none, 4), (.none, 5), (.none, 6),
     (.drift, 7)] := by decide +kernel
example : view (rowsOf (fun s x => (Cusum.step Cusum.exKnown s x).1) cusumRow (Cusum.init Cusum.exKnown) [0, 0, 3, 4]) =
    [(.none, 1), (.none, 2), (.drift, 3), (.none, 1)] := by decide +kernel
example : Adwin.cfgEx.subThresh = 1 ∧
    (rowsOf (adwinStepL Adwin.cfgEx) adwinRow adwinInitL [0, 0, 0, 0, 8, 8]).map (fun o => (o.drift, o.since, o.recs)) =
    [(.none, 1, none, none), (.none, 2, none, none), (.none, 3, none, none), (.none, 4, none, none),
     (.drift, 5, some 4, some 4), (.none, 1, none, none)] := by decide +kernel
/-- LFR with `burn_in = 1`: silent at `since = 1`, drift at 2, restart, drift again (cached bounds) -/
example : view (rowsOf (lfrStep LFR.cI2) lfrRow LFR.init
      [⟨true, true, [[[true, true, false]]]⟩, ⟨true, true, [[[true, true, true, true]], [[true, true, true, true]]]⟩,
       ⟨true, true, []⟩, ⟨true, true, [[[true, true, true]]]⟩]) =
    [(.none, 1), (.drift, 2), (.none, 1), (.drift, 2)] := by decide +kernel
example : view (rowsOf (nndviStep NNDVI.demoCfg) nndviRow (nndviInit (some [[0], [1]]))
      [([[2], [3]], NNDVI.demoAdj, [[0, 1, 2, 3], [0, 2, 1, 3]]), ([[2], [3]], NNDVI.demoAdj, [[0, 1, 2, 3], [0, 2, 1, 3]])]) =
    [(.drift, 1), (.none, 1)] := by decide +kernel
/-- MD3: nine calls (four of them refused), three accepted updates, the second answered by a drift -/
example : view (md3Rows MD3.exCfg (MD3.init MD3.exCfg MD3.exRef) false MD3.exOps) =
    [(.none, 1), (.drift, 2), (.warning, 1)] := by decide +kernel
example : view (rowsOf (pcacdStep PCACD.exCfg) pcacdRow PCACD.init
      (PCACD.exInputs ++ [(5, ({} : PCACD.Oracle Int)), (6, { numPcs := 2 }), (7, { js := [5] })])) =
    [(.none, 1), (.none, 2), (.none, 3), (.drift, 4), (.none, 0), (.none, 1), (.none, 2)] := by decide +kernel

end Examples
end MV.Lifecycle
