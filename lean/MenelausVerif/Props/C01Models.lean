/-
  C01, part 2 — every trace of the Lean detector models satisfies the lifecycle contract
  (is accepted by the acceptor of `Model/Lifecycle.lean`), for all configurations and all
  histories.  One section per detector model; each instantiates `Lifecycle.model_accepted`
  with an invariant linking the acceptor's memory to the model's state.
-/
import MenelausVerif.Props.C01
import MenelausVerif.Model.PageHinkley
namespace MV.Lifecycle
open MV

/-! ### PageHinkley (kind `burnin`, restart 1) -/
section PH
variable {α : Type} [Add α] [Sub α] [Mul α] [Div α] [LT α] [DecidableLT α] [NatCast α]

def phCfg (c : PH.Cfg α) : Cfg :=
  { kind := .burnin, a := c.burnIn, b := 1, restart := 1, incAfterDrift := 1, hasRecs := false }

def phRow (s : PH.State α) (_ : α) : Obs :=
  { drift := s.drift, total := s.total, since := s.since, recs := (none, none), err := false, refDone := false }

def phInv (c : PH.Cfg α) (m : Mon) (s : PH.State α) : Prop :=
  m.total = s.total ∧ m.since = s.since ∧ m.prevDrift = s.drift ∧ (s.drift ≠ .none → s.since > c.burnIn)

theorem ph_core_total (c : PH.Cfg α) (s : PH.State α) (x : α) : (PH.core c s x).1.total = s.total + 1 := rfl
theorem ph_core_since (c : PH.Cfg α) (s : PH.State α) (x : α) : (PH.core c s x).1.since = s.since + 1 := rfl
theorem ph_core_drift (c : PH.Cfg α) (s : PH.State α) (x : α) :
    (PH.core c s x).1.drift = s.drift ∨ ((PH.core c s x).1.drift = .drift ∧ s.since + 1 > c.burnIn) := by
  grind [PH.core]

theorem ph_step_ok (c : PH.Cfg α) (m : Mon) (s : PH.State α) (x : α) (h : phInv c m s) :
    violated (phCfg c) m (phRow (PH.step c s x).1 x) = none ∧
      phInv c (advance m (phRow (PH.step c s x).1 x)) (PH.step c s x).1 := by
  obtain ⟨h1, h2, h3, h4⟩ := h
  unfold PH.step
  by_cases hd : s.drift = .drift
  · simp only [hd, if_true]
    have ht := ph_core_total c (PH.reset s) x
    have hs := ph_core_since c (PH.reset s) x
    have hdr := ph_core_drift c (PH.reset s) x
    have r1 : (PH.reset s).total = s.total := rfl
    have r2 : (PH.reset s).since = 0 := rfl
    have r3 : (PH.reset s).drift = .none := rfl
    rw [r1] at ht; rw [r2] at hs hdr; rw [r3] at hdr
    constructor
    · rw [violated_none_iff]
      constructor <;> simp only [phCfg, phRow, expectedTotal, expectedSince, warm, h3, hd, ht, hs, h1] <;> simp
      rcases hdr with h | ⟨_, h⟩
      · intro hne; exact absurd h hne
      · intro _; omega
    · refine ⟨by simp [advance, phRow], by simp [advance, phRow], by simp [advance, phRow], ?_⟩
      rcases hdr with h | ⟨_, h⟩
      · intro hne; exact absurd h hne
      · intro _; rw [hs]; omega
  · simp only [hd, if_false]
    have ht := ph_core_total c s x
    have hs := ph_core_since c s x
    have hdr := ph_core_drift c s x
    have hmd : ¬ m.prevDrift = .drift := by rw [h3]; exact hd
    constructor
    · rw [violated_none_iff]
      constructor <;> simp only [phCfg, phRow, expectedTotal, expectedSince, warm, hmd, ht, hs, h1, h2] <;> simp
      rcases hdr with h | ⟨_, h⟩
      · intro hne; rw [h] at hne; have := h4 hne; omega
      · intro _; omega
    · refine ⟨by simp [advance, phRow], by simp [advance, phRow], by simp [advance, phRow], ?_⟩
      rcases hdr with h | ⟨_, h⟩
      · intro hne; rw [h] at hne; have := h4 hne; rw [hs]; omega
      · intro _; rw [hs]; omega

/-- **PageHinkley satisfies the lifecycle contract on every history.** -/
theorem ph_accepted (c : PH.Cfg α) (xs : List α) :
    accept (phCfg c) {} 0 (rowsOf (fun s x => (PH.step c s x).1) phRow PH.init xs) = none :=
  model_accepted (phCfg c) _ phRow (phInv c) (fun m s x h => ph_step_ok c m s x h) xs {} PH.init 0
    (by simp [phInv, PH.init])

end PH
end MV.Lifecycle
