/-
  C17 — a stricter confidence setting never makes a detector alarm earlier.

  Generic part.  A detector, up to its first alarm, is a threshold-free statistics run
  (`stat`) observed through a threshold-dependent decision (`dec θ`): the two runs under two
  thresholds see *identical* statistics until the looser one alarms.  If the decision is
  antitone in strictness (`dec θ_strict s → dec θ_loose s`), the first alarm under the strict
  threshold is never earlier.  The per-detector files instantiate `Sys` and prove (i) that the
  model's drift trace up to its first drift is `decisions`, (ii) antitonicity of `dec`.
-/
import MenelausVerif.Base.Drift
namespace MV.Mono

/-- position of the first `true` -/
def firstIdx : List Bool → Option Nat
  | [] => none
  | true :: _ => some 0
  | false :: bs => (firstIdx bs).map (· + 1)

/-- `a` is no later than `b` (with `none` = never) -/
def NoLater : Option Nat → Option Nat → Prop
  | _, none => True
  | none, some _ => False
  | some i, some j => i ≤ j

/-- a detector up to its first alarm -/
structure Sys (Θ σ ι : Type) where
  init : σ
  stat : σ → ι → σ
  dec : Θ → σ → Bool

/-- the alarm decisions after each input, on the threshold-free statistics run -/
def decisions {Θ σ ι : Type} (S : Sys Θ σ ι) (θ : Θ) : σ → List ι → List Bool
  | _, [] => []
  | s, x :: xs => S.dec θ (S.stat s x) :: decisions S θ (S.stat s x) xs

def firstAlarm {Θ σ ι : Type} (S : Sys Θ σ ι) (θ : Θ) (xs : List ι) : Option Nat :=
  firstIdx (decisions S θ S.init xs)

/-- First-alarm monotonicity under a hypothesis that only the states actually visited need
satisfy (e.g. "all running means are non-negative"). -/
theorem first_alarm_mono_on {Θ σ ι : Type} (S : Sys Θ σ ι) (loose strict : Θ) (P : σ → Prop)
    (hanti : ∀ s, P s → S.dec strict s = true → S.dec loose s = true) :
    ∀ (s : σ) (xs : List ι), (∀ k, k < xs.length → P ((xs.take (k + 1)).foldl S.stat s)) →
      NoLater (firstIdx (decisions S loose s xs)) (firstIdx (decisions S strict s xs)) := by
  intro s xs
  induction xs generalizing s with
  | nil => intro _; simp [decisions, firstIdx, NoLater]
  | cons x xs ih =>
    intro hP
    have h0 : P (S.stat s x) := by simpa using hP 0 (by simp)
    have hrest : ∀ k, k < xs.length → P ((xs.take (k + 1)).foldl S.stat (S.stat s x)) := by
      intro k hk
      have := hP (k + 1) (by simp; omega)
      simpa [List.take_succ_cons] using this
    have ih' := ih (S.stat s x) hrest
    simp only [decisions]
    cases hb : S.dec strict (S.stat s x) with
    | true => simp [hanti _ h0 hb, firstIdx, NoLater]
    | false =>
      cases ha : S.dec loose (S.stat s x) with
      | true =>
        simp only [firstIdx]
        cases firstIdx (decisions S strict (S.stat s x) xs) <;> simp [NoLater]
      | false =>
        simp only [firstIdx]
        revert ih'
        cases firstIdx (decisions S loose (S.stat s x) xs) <;>
          cases firstIdx (decisions S strict (S.stat s x) xs) <;> simp [NoLater]

/-- **First-alarm monotonicity.**  If every state that alarms under the strict threshold also
alarms under the loose one, the loose run's first alarm is no later than the strict run's. -/
theorem first_alarm_mono {Θ σ ι : Type} (S : Sys Θ σ ι) (loose strict : Θ)
    (hanti : ∀ s, S.dec strict s = true → S.dec loose s = true) (xs : List ι) :
    NoLater (firstAlarm S loose xs) (firstAlarm S strict xs) :=
  first_alarm_mono_on S loose strict (fun _ => True) (fun s _ h => hanti s h) S.init xs (fun _ _ => trivial)

example : firstIdx [false, false, true, true] = some 2 := by decide

end MV.Mono

namespace MV.Mono

/-- drift flags of an actual detector run (with its automatic resets) -/
def driftTrace {σ ι : Type} (step : σ → ι → σ) (isDrift : σ → Bool) : σ → List ι → List Bool
  | _, [] => []
  | s, x :: xs => isDrift (step s x) :: driftTrace step isDrift (step s x) xs

/-- **Link lemma.**  If, as long as no drift has been reported, the detector's state is related
to the threshold-free statistics run and its drift flag is the decision on those statistics,
then the detector's first reported drift is the first alarm of the abstract system. -/
theorem first_drift_eq {Θ σ σ' ι : Type} (step : σ → ι → σ) (isDrift : σ → Bool)
    (S : Sys Θ σ' ι) (θ : Θ) (R : σ → σ' → Prop)
    (hstep : ∀ s s' x, R s s' → isDrift s = false →
      isDrift (step s x) = S.dec θ (S.stat s' x) ∧
      (isDrift (step s x) = false → R (step s x) (S.stat s' x))) :
    ∀ (xs : List ι) (s : σ) (s' : σ'), R s s' → isDrift s = false →
      firstIdx (driftTrace step isDrift s xs) = firstIdx (decisions S θ s' xs) := by
  intro xs
  induction xs with
  | nil => intro s s' _ _; rfl
  | cons x xs ih =>
    intro s s' hR hd
    obtain ⟨h1, h2⟩ := hstep s s' x hR hd
    simp only [driftTrace, decisions]
    rw [← h1]
    cases hb : isDrift (step s x) with
    | true => simp [firstIdx]
    | false =>
      simp only [firstIdx]
      rw [ih (step s x) (S.stat s' x) (h2 hb) hb]

end MV.Mono
