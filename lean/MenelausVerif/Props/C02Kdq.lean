/-
  C02 (continued) — the clean-slate twin theorems for the kdq-tree detectors
  (`Model/KdqDetect.lean`, transcription of menelaus/data_drift/kdq_tree.py).

  Shape (as in `Props/C02.lean`, `Props/C02Models.lean`): for EVERY state in which a drift has just
  been reported — hence for every history ending in a reported drift — and EVERY continuation, the
  running detector reports on the continuation what a newly constructed detector (plus the
  documented carry-over) reports on it, `total_samples` / `total_batches` shifted by the number of
  items seen before.  The bootstrap index draws of `np.random.choice` are per-update inputs of the
  model; both runs receive the same draws.

  * An update of the model can fail (`none`: `build` out of fuel = Python's `RecursionError`).
    Failure is part of every statement: `Twin.OptRel R` relates two partial results iff both
    failed or both succeeded with `R`-related values; an observation sequence (`trace`) has one
    entry per update and ends with `none` at the first update that raises.  So "equal traces" also
    says that the two detectors raise at the same position.
  * KdqTreeStreaming (`MV.KdqStream`): nothing is carried over.  `SameUpTo off s t`: every field of
    the state equal — drift state, `samples_since_reset`, the reference buffer `_ref_data`,
    `_test_data_size`, the tree (structure, build counts, test counts), `_critical_dist`,
    `_test_dist`, `_drift_counter` — except `total_samples`, which is larger by `off`.
    The event of every update (building / built / waiting / eval exceeds?) is equal too.
  * KdqTreeBatch (`MV.KdqBatch`): the drifted batch `B` is carried over: the twin is a newly
    constructed detector on which `set_reference(B)` was called.  The running detector performs
    that `set_reference` lazily at the start of the first update after the drift, with the draws of
    that update; the twin's `set_reference` therefore gets the draws of the first update of the
    continuation.  `SameUpTo off s t`: drift state, `batches_since_reset`, tree, critical value,
    divergence equal, `total_batches` larger by `off`, and the attribute `ref_data` equal
    *whenever a drift is pending* (the only time it is read; a newly constructed detector does not
    have the attribute before its first drift).  Counters: `set_reference` zeroes
    `batches_since_reset` on both sides, so it is part of the relation (unlike NNDVI); the first
    `update` of a newly constructed detector — which only installs the reference — counts one batch
    and restarts `batches_since_reset` to 0 (`first_update_twin`), so the twin "fed `B` first" is
    the same twin with offset one less (`twin_history_first_update`).
  * Second, third, … drift: `twin_epochs` (both detectors) is proved by induction on the number of
    epochs, for histories cut at any number of their reported drifts.

  No arithmetic law is used: every theorem holds for every carrier, including the executed `Float`.
-/
import MenelausVerif.Props.C02
import MenelausVerif.Props.C09
set_option linter.unusedSectionVars false
set_option linter.unusedSimpArgs false

namespace MV.Twin

/-- two partial results agree: both updates raise, or both return and the results are related -/
def OptRel {σ τ : Type} (R : σ → τ → Prop) : Option σ → Option τ → Prop
  | some a, some b => R a b
  | none, none => True
  | _, _ => False

end MV.Twin

/-! # KdqTreeStreaming -/
namespace MV.KdqStream
open MV MV.Kdq MV.KdqDet MV.Twin

variable {α : Type} [Inhabited α] [Add α] [Sub α] [Mul α] [Div α] [LT α] [DecidableLT α]
  [LE α] [DecidableLE α] [NatCast α] [BEq α] [HasLogExp α] [HasRint α] [HasTrunc α]

/-- running state `s` equals fresh state `t` in every field, except that `total_samples` is larger
    by `off` -/
def SameUpTo (off : Nat) (s t : SState α) : Prop :=
  s.total = t.total + off ∧ s.since = t.since ∧ s.drift = t.drift ∧ s.refData = t.refData ∧
  s.testSize = t.testSize ∧ s.tree = t.tree ∧ s.critical = t.critical ∧ s.testDist = t.testDist ∧
  s.counter = t.counter

/-- a state of the fresh twin, moved to the running detector's sample numbering -/
def shift (off : Nat) (t : SState α) : SState α := { t with total := t.total + off }

/-- the relation is functional: `s` is `t` with the total moved -/
theorem sameUpTo_iff (off : Nat) (s t : SState α) : SameUpTo off s t ↔ s = shift off t := by
  obtain ⟨t1, t2, t3, t4, t5, t6, t7, t8, t9⟩ := t
  obtain ⟨s1, s2, s3, s4, s5, s6, s7, s8, s9⟩ := s
  simp [SameUpTo, shift]

/-- the observables compared by the relation, spelled out -/
theorem sameUpTo_obs (off : Nat) (s t : SState α) (h : SameUpTo off s t) :
    s.drift = t.drift ∧ s.since = t.since ∧ s.testDist = t.testDist ∧ s.critical = t.critical ∧
    s.tree = t.tree ∧ s.counter = t.counter ∧ s.total = t.total + off :=
  ⟨h.2.2.1, h.2.1, h.2.2.2.2.2.2.2.1, h.2.2.2.2.2.2.1, h.2.2.2.2.2.1, h.2.2.2.2.2.2.2.2, h.1⟩

theorem sEvaluate_shift (c : SCfg α) (off : Nat) (t : SState α) (x : List α) (d : List (List Nat)) :
    sEvaluate c (shift off t) x d = (sEvaluate c t x d).map (fun r => (shift off r.1, r.2)) := by
  obtain ⟨t1, t2, t3, t4, t5, t6, t7, t8, t9⟩ := t
  unfold sEvaluate shift
  cases t6 with
  | none =>
    simp only
    split
    · cases build c.part x.length (t4 ++ [x]) <;> simp [sReset]
    · simp
  | some tr =>
    simp only
    split
    · split <;> simp
    · simp

theorem sStep_shift (c : SCfg α) (off : Nat) (t : SState α) (x : List α) (d : List (List Nat)) :
    sStep c (shift off t) x d = (sStep c t x d).map (fun r => (shift off r.1, r.2)) := by
  unfold sStep
  rw [← sEvaluate_shift]
  by_cases hd : t.drift = .drift <;> simp [shift, sReset, hd]
  all_goals rw [Nat.add_right_comm]

/-! ### histories -/

/-- one streaming update: the validated row and the bootstrap draws the update would consume -/
abbrev Inp (α : Type) := List α × List (List Nat)

/-- what one update leaves behind: the complete detector state and what the update did
    (`none`: the update raised — `build` out of fuel, Python's `RecursionError`) -/
abbrev Obs (α : Type) := Option (SState α × Ev)

/-- an observation of the fresh twin, moved to the running detector's sample numbering -/
def shiftObs (off : Nat) : Obs α → Obs α := Option.map (fun r => (shift off r.1, r.2))

/-- one update on a possibly already failed run -/
def stepO (c : SCfg α) (s? : Option (SState α)) (i : Inp α) : Option (SState α) :=
  s?.bind (fun s => (sStep c s i.1 i.2).map (·.1))

/-- the state after a history (`none` as soon as one update raised) -/
def run (c : SCfg α) (s : SState α) (ys : List (Inp α)) : Option (SState α) := ys.foldl (stepO c) (some s)

/-- the observation sequence of a history: one entry per update, ending with `none` at the first
    update that raises (nothing is observed after it) -/
def trace (c : SCfg α) : SState α → List (Inp α) → List (Obs α)
  | _, [] => []
  | s, i :: rest =>
    match sStep c s i.1 i.2 with
    | none => [none]
    | some r => some r :: trace c r.1 rest

theorem foldl_none (c : SCfg α) (ys : List (Inp α)) : ys.foldl (stepO c) none = none := by
  induction ys with
  | nil => rfl
  | cons y ys ih => simpa [stepO] using ih

@[simp] theorem run_nil (c : SCfg α) (s : SState α) : run c s [] = some s := rfl

theorem run_cons (c : SCfg α) (s : SState α) (i : Inp α) (ys : List (Inp α)) :
    run c s (i :: ys) = (sStep c s i.1 i.2).bind (fun r => run c r.1 ys) := by
  unfold run
  simp only [List.foldl_cons, stepO, Option.bind_some]
  cases sStep c s i.1 i.2 with
  | none => simpa using foldl_none c ys
  | some r => simp [stepO]

theorem run_append (c : SCfg α) (s : SState α) (xs ys : List (Inp α)) :
    run c s (xs ++ ys) = (run c s xs).bind (fun s' => run c s' ys) := by
  induction xs generalizing s with
  | nil => simp
  | cons x xs ih =>
    simp only [List.cons_append, run_cons]
    cases sStep c s x.1 x.2 with
    | none => simp
    | some r => simp [ih]

/-- `run` is the state component of `sRun` of `Props/C09.lean` -/
theorem run_eq_sRun (c : SCfg α) (s : SState α) (ys : List (Inp α)) :
    run c s ys = (sRun c s ys).map (·.1) := by
  induction ys generalizing s with
  | nil => simp [sRun]
  | cons y ys ih =>
    obtain ⟨x, d⟩ := y
    rw [run_cons]
    simp only [sRun]
    cases sStep c s x d with
    | none => simp
    | some r =>
      obtain ⟨s1, ev⟩ := r
      simp only [Option.bind_some, ih]
      cases sRun c s1 ys with
      | none => simp
      | some r2 => simp

theorem trace_append (c : SCfg α) (s : SState α) (xs ys : List (Inp α)) :
    trace c s (xs ++ ys) =
      trace c s xs ++ (match run c s xs with | none => [] | some s' => trace c s' ys) := by
  induction xs generalizing s with
  | nil => simp [trace]
  | cons x xs ih =>
    simp only [List.cons_append, trace, run_cons]
    cases sStep c s x.1 x.2 with
    | none => simp
    | some r => simp [ih]

theorem sEvaluate_total (c : SCfg α) (s s' : SState α) (x : List α) (d : List (List Nat)) (ev : Ev)
    (h : sEvaluate c s x d = some (s', ev)) : s'.total = s.total := by
  unfold sEvaluate at h
  cases ht : s.tree with
  | none =>
    simp only [ht] at h
    split at h
    · cases hb : build c.part x.length (s.refData ++ [x]) with
      | none => simp [hb] at h
      | some t =>
        simp only [hb, Option.some.injEq, Prod.mk.injEq] at h
        rw [← h.1]; simp [sReset]
    · simp only [Option.some.injEq, Prod.mk.injEq] at h
      rw [← h.1]
  | some t =>
    simp only [ht] at h
    split at h
    · split at h <;> (simp only [Option.some.injEq, Prod.mk.injEq] at h; rw [← h.1])
    · simp only [Option.some.injEq, Prod.mk.injEq] at h
      rw [← h.1]

/-- every successful update counts exactly one sample -/
theorem sStep_total (c : SCfg α) (s s' : SState α) (x : List α) (d : List (List Nat)) (ev : Ev)
    (h : sStep c s x d = some (s', ev)) : s'.total = s.total + 1 := by
  unfold sStep at h
  have := sEvaluate_total c _ s' x d ev h
  rw [this]
  by_cases hd : s.drift = .drift <;> simp [hd, sReset]

theorem run_total (c : SCfg α) (s s' : SState α) (ys : List (Inp α)) (h : run c s ys = some s') :
    s'.total = s.total + ys.length := by
  induction ys generalizing s with
  | nil => simp at h; subst h; simp
  | cons y ys ih =>
    rw [run_cons] at h
    cases hs : sStep c s y.1 y.2 with
    | none => simp [hs] at h
    | some r =>
      obtain ⟨s1, ev⟩ := r
      simp only [hs, Option.bind_some] at h
      rw [ih s1 h, sStep_total c s s1 y.1 y.2 ev hs, List.length_cons]
      omega

/-! ### the simulation -/

/-- **the relation is preserved by every update on the same sample and the same draws**: both
    updates raise, or both return, report the same event, and the states are related again -/
theorem step_sameUpTo (c : SCfg α) (off : Nat) (s t : SState α) (x : List α) (d : List (List Nat))
    (h : SameUpTo off s t) :
    OptRel (fun r r' => SameUpTo off r.1 r'.1 ∧ r.2 = r'.2) (sStep c s x d) (sStep c t x d) := by
  rw [(sameUpTo_iff off s t).mp h, sStep_shift]
  cases sStep c t x d with
  | none => trivial
  | some r => exact ⟨(sameUpTo_iff off _ _).mpr rfl, rfl⟩

/-- **the update that follows a drift** puts the running detector in relation with a freshly
    constructed detector that received the same sample: nothing is carried over -/
theorem first_after_drift (c : SCfg α) (s : SState α) (x : List α) (d : List (List Nat))
    (h : s.drift = .drift) :
    OptRel (fun r r' => SameUpTo s.total r.1 r'.1 ∧ r.2 = r'.2) (sStep c s x d) (sStep c sInit x d) := by
  have e : sReset s = shift s.total (sInit : SState α) := by simp [sReset, shift, sInit]
  rw [(stream_restart c s x d h).1, e, sStep_shift]
  cases sStep c sInit x d with
  | none => trivial
  | some r => exact ⟨(sameUpTo_iff _ _ _).mpr rfl, rfl⟩

theorem stepO_sameUpTo (c : SCfg α) (off : Nat) (s? t? : Option (SState α)) (i : Inp α)
    (h : OptRel (SameUpTo off) s? t?) : OptRel (SameUpTo off) (stepO c s? i) (stepO c t? i) := by
  cases s? with
  | none => cases t? with
    | none => trivial
    | some t => exact h.elim
  | some s => cases t? with
    | none => exact h.elim
    | some t =>
      have := step_sameUpTo c off s t i.1 i.2 h
      simp only [stepO, Option.bind_some]
      cases hs : sStep c s i.1 i.2 <;> cases ht : sStep c t i.1 i.2 <;> simp_all [OptRel]

/-- whole continuations preserve the relation (instance of `Twin.run_related`) -/
theorem run_sameUpTo (c : SCfg α) (off : Nat) (s t : SState α) (ys : List (Inp α)) (h : SameUpTo off s t) :
    OptRel (SameUpTo off) (run c s ys) (run c t ys) :=
  run_related (stepO c) (stepO c) (OptRel (SameUpTo off)) (stepO_sameUpTo c off) ys (some s) (some t) h

theorem trace_shift (c : SCfg α) (off : Nat) (t : SState α) (ys : List (Inp α)) :
    trace c (shift off t) ys = (trace c t ys).map (shiftObs off) := by
  induction ys generalizing t with
  | nil => rfl
  | cons y ys ih =>
    simp only [trace, sStep_shift]
    cases sStep c t y.1 y.2 with
    | none => simp [shiftObs]
    | some r => simp [shiftObs, ih]

theorem run_shift (c : SCfg α) (off : Nat) (t : SState α) (ys : List (Inp α)) :
    run c (shift off t) ys = (run c t ys).map (shift off) := by
  have := run_sameUpTo c off (shift off t) t ys ((sameUpTo_iff _ _ _).mpr rfl)
  cases h1 : run c (shift off t) ys <;> cases h2 : run c t ys <;> simp_all [OptRel, sameUpTo_iff]

/-- an update never looks at a pending drift other than to reset first -/
theorem sStep_pre (c : SCfg α) (s : SState α) (x : List α) (d : List (List Nat)) :
    sStep c (sPre s) x d = sStep c s x d := by
  have : sPre (sPre s) = sPre s := by
    show (if (sPre s).drift = .drift then sReset (sPre s) else sPre s) = sPre s
    rw [if_neg (sPre_not_drift s)]
  rw [sStep_eq c (sPre s), this, ← sStep_eq]

theorem trace_pre (c : SCfg α) (s : SState α) (ys : List (Inp α)) : trace c (sPre s) ys = trace c s ys := by
  cases ys with
  | nil => rfl
  | cons y ys => simp only [trace, sStep_pre]

theorem run_pre (c : SCfg α) (s : SState α) (y : Inp α) (ys : List (Inp α)) :
    run c (sPre s) (y :: ys) = run c s (y :: ys) := by
  simp only [run_cons, sStep_pre]

/-- for every later update `s` is a freshly constructed detector that has already counted `off`
    samples: it *is* one, or it holds a pending drift (which the next update clears first) -/
def FreshAt (off : Nat) (s : SState α) : Prop := sPre s = shift off sInit

theorem freshAt_init : FreshAt 0 (sInit : SState α) := by
  simp [FreshAt, sPre, sInit, shift]

theorem freshAt_of_drift (s : SState α) (h : s.drift = .drift) : FreshAt s.total s := by
  simp [FreshAt, sPre, h, sReset, shift, sInit]

theorem freshAt_trace (c : SCfg α) (off : Nat) (s : SState α) (h : FreshAt off s) (ys : List (Inp α)) :
    trace c s ys = (trace c sInit ys).map (shiftObs off) := by
  rw [← trace_pre, h, trace_shift]

theorem freshAt_run (c : SCfg α) (off : Nat) (s : SState α) (h : FreshAt off s) (y : Inp α) (ys : List (Inp α)) :
    run c s (y :: ys) = (run c sInit (y :: ys)).map (shift off) := by
  rw [← run_pre, h, run_shift]

/-- **KdqTreeStreaming twin theorem** (state form).  `s`: any state in which a drift has just been
    reported.  For every non-empty continuation (samples and bootstrap draws) the running detector
    and a freshly constructed one fed only the continuation either both raise at the same update, or
    end in states that agree on every field — drift state, `samples_since_reset`, reference buffer,
    test-window size, tree (structure and all counts), critical value, divergence, persistence
    counter — except `total_samples`, which is larger by the number of samples seen before.
    Nothing is carried over: the next `window_size` samples form the new reference. -/
theorem twin (c : SCfg α) (s : SState α) (h : s.drift = .drift) (y : Inp α) (ys : List (Inp α)) :
    OptRel (SameUpTo s.total) (run c s (y :: ys)) (run c sInit (y :: ys)) := by
  unfold run
  refine run_related_after_first (stepO c) (stepO c) (fun s' t => s' = some s ∧ t = some sInit)
    (OptRel (SameUpTo s.total)) ?_ (stepO_sameUpTo c s.total) y ys (some s) (some sInit) ⟨rfl, rfl⟩
  rintro s' t i ⟨rfl, rfl⟩
  have := first_after_drift c s i.1 i.2 h
  simp only [stepO, Option.bind_some]
  cases hs : sStep c s i.1 i.2 <;> cases ht : sStep c sInit i.1 i.2 <;> simp_all [OptRel]

/-- … and observation by observation: the sequence of (state, event) pairs the running detector
    produces on the continuation is the fresh detector's, totals shifted; if an update raises, it
    raises at the same position on both sides and both sequences end there -/
theorem twin_trace (c : SCfg α) (s : SState α) (h : s.drift = .drift) (ys : List (Inp α)) :
    trace c s ys = (trace c sInit ys).map (shiftObs s.total) :=
  freshAt_trace c _ s (freshAt_of_drift s h) ys

/-- **KdqTreeStreaming twin theorem** (history form): every history `xs` of a fresh detector that
    ends in a reported drift, every continuation `ys`: the observations on `ys` are those of a fresh
    detector on `ys`, totals shifted by the length of the history; final states as in `twin`. -/
theorem twin_history (c : SCfg α) (xs : List (Inp α)) (s : SState α) (hx : run c sInit xs = some s)
    (h : s.drift = .drift) (ys : List (Inp α)) :
    trace c sInit (xs ++ ys) = trace c sInit xs ++ (trace c sInit ys).map (shiftObs xs.length) ∧
    (ys ≠ [] → OptRel (SameUpTo xs.length) (run c sInit (xs ++ ys)) (run c sInit ys)) := by
  have ht : s.total = xs.length := by simpa [sInit] using run_total c sInit s xs hx
  constructor
  · rw [trace_append, hx, ← ht]
    simp only [twin_trace c s h ys]
  · intro hne
    obtain ⟨y, ys', rfl⟩ := List.exists_cons_of_ne_nil hne
    rw [run_append, hx, ← ht]
    exact twin c s h y ys'

/-! ### second, third, … drift -/

/-- started in `s`, the history `es.flatten` reports a drift at the end of every block of `es` -/
def DriftsAt (c : SCfg α) : SState α → List (List (Inp α)) → Prop
  | _, [] => True
  | s, e :: es => e ≠ [] ∧ ∃ s', run c s e = some s' ∧ s'.drift = .drift ∧ DriftsAt c s' es

/-- the observation sequences of *fresh* detectors, one per block, the `k`-th moved by the number of
    samples before it -/
def freshTraces (c : SCfg α) (off : Nat) : List (List (Inp α)) → List (Obs α)
  | [] => []
  | e :: es => (trace c sInit e).map (shiftObs off) ++ freshTraces c (off + e.length) es

/-- `DriftsAt` spelled out on prefixes: the running detector reports a drift after
    `e₁`, after `e₁ ++ e₂`, … -/
theorem driftsAt_of_prefixes (c : SCfg α) (es : List (List (Inp α))) (s : SState α)
    (hne : ∀ e ∈ es, e ≠ [])
    (h : ∀ k, k < es.length → (run c s (es.take (k + 1)).flatten).map (·.drift) = some .drift) :
    DriftsAt c s es := by
  induction es generalizing s with
  | nil => trivial
  | cons e es ih =>
    have h0 := h 0 (by simp)
    simp only [List.take_succ_cons, List.take_zero, List.flatten_cons, List.flatten_nil,
      List.append_nil, Option.map_eq_some_iff] at h0
    obtain ⟨s', hs', hd⟩ := h0
    refine ⟨hne e (by simp), s', hs', hd, ih s' (fun e' he' => hne e' (by simp [he'])) ?_⟩
    intro k hk
    have := h (k + 1) (by simpa using hk)
    simpa [List.take_succ_cons, run_append, hs'] using this

theorem twin_epochs_gen (c : SCfg α) (es : List (List (Inp α))) (s : SState α) (off : Nat)
    (hf : FreshAt off s) (h : DriftsAt c s es) :
    (∀ e ∈ es, ∃ t, run c sInit e = some t ∧ t.drift = .drift) ∧
    ∃ s', run c s es.flatten = some s' ∧ FreshAt (off + es.flatten.length) s' ∧
      ∀ ys, trace c s (es.flatten ++ ys) =
        freshTraces c off es ++ (trace c sInit ys).map (shiftObs (off + es.flatten.length)) := by
  induction es generalizing s off with
  | nil =>
    refine ⟨by simp, s, by simp, by simpa using hf, fun ys => ?_⟩
    simpa [freshTraces] using freshAt_trace c off s hf ys
  | cons e es ih =>
    obtain ⟨hne, s1, hr, hd, hrest⟩ := h
    obtain ⟨y, ys', rfl⟩ := List.exists_cons_of_ne_nil hne
    have hr' := freshAt_run c off s hf y ys'
    rw [hr] at hr'
    cases ht : run c sInit (y :: ys') with
    | none => simp [ht] at hr'
    | some t =>
      simp only [ht, Option.map_some, Option.some.injEq] at hr'
      have htd : t.drift = .drift := by rw [hr'] at hd; simpa [shift] using hd
      have htot : s1.total = off + (y :: ys').length := by
        have := run_total c sInit t _ ht
        rw [hr']; simp only [shift, this, sInit]; omega
      have hf1 : FreshAt (off + (y :: ys').length) s1 := htot ▸ freshAt_of_drift s1 hd
      obtain ⟨i1, s2, i2, i3, i4⟩ := ih s1 _ hf1 hrest
      refine ⟨?_, s2, ?_, ?_, fun ys => ?_⟩
      · intro e' he'
        rcases List.mem_cons.mp he' with rfl | he'
        · exact ⟨t, ht, htd⟩
        · exact i1 e' he'
      · rw [List.flatten_cons, run_append, hr]; exact i2
      · have e : off + (y :: ys').length + es.flatten.length = off + ((y :: ys') :: es).flatten.length := by
          simp only [List.flatten_cons, List.length_append]; omega
        exact e ▸ i3
      · rw [List.flatten_cons, List.append_assoc, trace_append, hr]
        have e : off + (y :: ys').length + es.flatten.length = off + ((y :: ys') :: es).flatten.length := by
          simp only [List.flatten_cons, List.length_append]; omega
        simp only [i4 ys, freshTraces, freshAt_trace c off s hf (y :: ys'), List.append_assoc, e,
          List.flatten_cons]

/-- **Second, third, … drift** (any number of epochs).  Let a history of a fresh detector be cut
    into non-empty blocks `e₁ … eₙ` at (any `n` of) its reported drifts.  Then
    * a fresh detector fed only block `eₖ` reports a drift at its end, for every `k`;
    * the observations of the running detector on `e₁ ++ … ++ eₙ ++ ys`, for every continuation
      `ys`, are the observations of `n + 1` fresh detectors fed `e₁`, …, `eₙ`, `ys` one after the
      other, the totals of each moved by the number of samples before its block.
    Proved by induction on the number of blocks. -/
theorem twin_epochs (c : SCfg α) (es : List (List (Inp α))) (h : DriftsAt c sInit es) (ys : List (Inp α)) :
    (∀ e ∈ es, ∃ t, run c sInit e = some t ∧ t.drift = .drift) ∧
    trace c sInit (es.flatten ++ ys) =
      freshTraces c 0 es ++ (trace c sInit ys).map (shiftObs es.flatten.length) := by
  obtain ⟨h1, _, _, _, h2⟩ := twin_epochs_gen c es sInit 0 freshAt_init h
  exact ⟨h1, by simpa using h2 ys⟩

end MV.KdqStream

/-! # KdqTreeBatch -/
namespace MV.KdqBatch
open MV MV.Kdq MV.KdqDet MV.Twin

variable {α : Type} [Inhabited α] [Add α] [Sub α] [Mul α] [Div α] [LT α] [DecidableLT α]
  [LE α] [DecidableLE α] [NatCast α] [BEq α] [HasLogExp α] [HasRint α] [HasTrunc α]

/-- running state `s` equals twin state `t`: drift state, `batches_since_reset`, tree, critical
    value, divergence equal; `total_batches` larger by `off`; `ref_data` equal whenever a drift is
    pending (it is read only then; the twin has no such attribute before its first drift) -/
def SameUpTo (off : Nat) (s t : BState α) : Prop :=
  s.total = t.total + off ∧ s.since = t.since ∧ s.drift = t.drift ∧ s.tree = t.tree ∧
  s.critical = t.critical ∧ s.testDist = t.testDist ∧ (t.drift = .drift → s.refData = t.refData)

/-- what is observable of a state: everything, `ref_data` only while a drift is pending -/
def view (s : BState α) : BState α :=
  { s with refData := if s.drift = .drift then s.refData else none }

/-- a state of the fresh twin, moved to the running detector's batch numbering -/
def shift (off : Nat) (t : BState α) : BState α := { t with total := t.total + off }

/-- the observables compared by the relation, spelled out -/
theorem sameUpTo_obs (off : Nat) (s t : BState α) (h : SameUpTo off s t) :
    s.drift = t.drift ∧ s.since = t.since ∧ s.testDist = t.testDist ∧ s.critical = t.critical ∧
    s.tree = t.tree ∧ s.total = t.total + off ∧ (s.drift = .drift → s.refData = t.refData) :=
  ⟨h.2.2.1, h.2.1, h.2.2.2.2.2.1, h.2.2.2.2.1, h.2.2.2.1, h.1, fun hd => h.2.2.2.2.2.2 (h.2.2.1 ▸ hd)⟩

/-- the relation says: the observable parts coincide up to the total offset -/
theorem sameUpTo_iff (off : Nat) (s t : BState α) : SameUpTo off s t ↔ view s = shift off (view t) := by
  obtain ⟨t1, t2, t3, t4, t5, t6, t7⟩ := t
  obtain ⟨s1, s2, s3, s4, s5, s6, s7⟩ := s
  simp only [SameUpTo, view, shift, BState.mk.injEq]
  constructor
  · rintro ⟨h1, h2, h3, h4, h5, h6, h7⟩
    subst h3
    refine ⟨h1, h2, rfl, h4, h5, h6, ?_⟩
    by_cases hd : s3 = .drift <;> simp [hd, h7]
  · rintro ⟨h1, h2, h3, h4, h5, h6, h7⟩
    subst h3
    refine ⟨h1, h2, rfl, h4, h5, h6, fun hd => ?_⟩
    simpa [hd] using h7

/-- the twin's start: a newly constructed detector on which `set_reference(B)` is called, the
    bootstrap of that call drawing `d` (`none` if building the tree of `B` raises) -/
def fresh (c : BCfg α) (m : Nat) (B : List (List α)) (d : List (List Nat)) : Option (BState α) :=
  bSetRef c bInit m B d

/-- first half of `update`: `set_reference(self.ref_data)` if a drift is pending -/
def bPre (c : BCfg α) (m : Nat) (s : BState α) (d : List (List Nat)) : Option (BState α) :=
  if s.drift = .drift then bSetRef c s m (s.refData.getD []) d else some s

/-- second half of `update`: count the batch, then install it as reference or evaluate it -/
def bCore (c : BCfg α) (m : Nat) (s : BState α) (X : List (List α)) (d : List (List Nat)) :
    Option (BState α × Option Bool) :=
  let s := { s with total := s.total + 1, since := s.since + 1 }
  match s.tree with
  | none => (bSetRef c s m X d).map (fun s => (s, none))
  | some t =>
    let t := fill testId true X t
    let dv := divergence t
    let exceeds := decide (s.critical.getD default < dv)
    some ({ s with tree := some t, testDist := some dv,
                   drift := if exceeds then .drift else s.drift,
                   refData := if exceeds then some X else s.refData }, some exceeds)

theorem bStep_eq (c : BCfg α) (m : Nat) (s : BState α) (X : List (List α)) (d : List (List Nat)) :
    bStep c s m X d = (bPre c m s d).bind (fun s' => bCore c m s' X d) := by
  unfold bStep bPre
  cases (if s.drift = .drift then bSetRef c s m (s.refData.getD []) d else some s) with
  | none => rfl
  | some s' => rfl

theorem setRef_sameUpTo (c : BCfg α) (m off : Nat) (s t : BState α) (R : List (List α)) (d : List (List Nat))
    (h : s.total = t.total + off) :
    OptRel (SameUpTo off) (bSetRef c s m R d) (bSetRef c t m R d) := by
  unfold bSetRef
  cases build c.part m R with
  | none => trivial
  | some tr => simp [OptRel, SameUpTo, h]

theorem pre_sameUpTo (c : BCfg α) (m off : Nat) (s t : BState α) (d : List (List Nat)) (h : SameUpTo off s t) :
    OptRel (SameUpTo off) (bPre c m s d) (bPre c m t d) := by
  unfold bPre
  rw [h.2.2.1]
  by_cases hd : t.drift = .drift
  · simp only [hd, if_true, h.2.2.2.2.2.2 hd]
    exact setRef_sameUpTo c m off s t _ d h.1
  · simp only [hd, if_false]; exact h

theorem core_sameUpTo (c : BCfg α) (m off : Nat) (s t : BState α) (X : List (List α)) (d : List (List Nat))
    (h : SameUpTo off s t) :
    OptRel (fun r r' => SameUpTo off r.1 r'.1 ∧ r.2 = r'.2) (bCore c m s X d) (bCore c m t X d) := by
  obtain ⟨t1, t2, t3, t4, t5, t6, t7⟩ := t
  obtain ⟨s1, s2, s3, s4, s5, s6, s7⟩ := s
  obtain ⟨h1, h2, h3, h4, h5, h6, h7⟩ := h
  simp only at h1 h2 h3 h4 h5 h6 h7
  subst h2 h3 h4 h5 h6
  subst h1
  unfold bCore
  cases s4 with
  | none =>
    simp only [bSetRef]
    cases build c.part m X with
    | none => trivial
    | some tr => simp [OptRel, SameUpTo]; omega
  | some tr =>
    simp only [OptRel, SameUpTo, and_true, true_and]
    refine ⟨by omega, ?_⟩
    split
    · intro _; rfl
    · exact h7

/-- **the relation is preserved by every update on the same batch and the same draws** -/
theorem step_sameUpTo (c : BCfg α) (m off : Nat) (s t : BState α) (X : List (List α)) (d : List (List Nat))
    (h : SameUpTo off s t) :
    OptRel (fun r r' => SameUpTo off r.1 r'.1 ∧ r.2 = r'.2) (bStep c s m X d) (bStep c t m X d) := by
  rw [bStep_eq, bStep_eq]
  have hp := pre_sameUpTo c m off s t d h
  cases hs : bPre c m s d <;> cases ht : bPre c m t d <;> simp only [hs, ht, OptRel] at hp
  · trivial
  · exact core_sameUpTo c m off _ _ X d hp

/-- a state without a pending drift and with a tree ignores the draws handed to its update -/
theorem bStep_draws_unused (c : BCfg α) (m : Nat) (s : BState α) (X : List (List α)) (d d' : List (List Nat))
    (hd : s.drift ≠ .drift) (ht : s.tree.isSome = true) : bStep c s m X d = bStep c s m X d' := by
  obtain ⟨tr, htr⟩ := Option.isSome_iff_exists.mp ht
  simp [bStep_eq, bPre, hd, bCore, htr]

theorem fresh_facts (c : BCfg α) (m : Nat) (B : List (List α)) (d : List (List Nat)) (t0 : BState α)
    (h : fresh c m B d = some t0) :
    t0.total = 0 ∧ t0.since = 0 ∧ t0.drift = .none ∧ t0.testDist = none ∧ t0.refData = none ∧
    t0.tree = build c.part m B := by
  unfold fresh bSetRef at h
  cases hb : build c.part m B with
  | none => simp [hb] at h
  | some tr =>
    simp only [hb, Option.some.injEq] at h
    subst h
    simp [bInit]

/-- **the update that follows a drift**: the drifted batch `B` becomes the reference — the running
    detector behaves like a newly constructed detector on which `set_reference(B)` was called (the
    bootstrap of that call drawing what the running detector's update draws) and which then
    receives the same batch.  If building the tree of `B` raises, it raises on both sides (in the
    twin's `set_reference`, in the running detector's update). -/
theorem first_after_drift (c : BCfg α) (m : Nat) (s : BState α) (B X : List (List α)) (d : List (List Nat))
    (h : s.drift = .drift) (hr : s.refData = some B) :
    OptRel (fun r r' => SameUpTo s.total r.1 r'.1 ∧ r.2 = r'.2) (bStep c s m X d)
      ((fresh c m B d).bind (fun t0 => bStep c t0 m X d)) := by
  have h0 := setRef_sameUpTo c m s.total s bInit B d (by simp [bInit])
  have e1 : bPre c m s d = bSetRef c s m B d := by simp [bPre, h, hr]
  rw [bStep_eq, e1]
  unfold fresh
  cases hs : bSetRef c s m B d <;> cases ht : bSetRef c bInit m B d <;> simp only [hs, ht, OptRel] at h0
  · trivial
  · rename_i s1 t0
    have e2 : bPre c m t0 d = some t0 := by
      have := (fresh_facts c m B d t0 ht).2.2.1
      simp [bPre, this]
    simp only [Option.bind_some, bStep_eq c m t0, e2]
    exact core_sameUpTo c m _ _ _ X d h0

/-! ### histories -/

/-- one batch update: the validated batch and the bootstrap draws the update would consume (they
    are consumed only by an update that builds a reference: the first one, and the one after a drift) -/
abbrev Op (α : Type) := List (List α) × List (List Nat)

/-- what one update leaves behind: the detector state (`ref_data` shown only while a drift is
    pending, see `view`) and the decision; `none`: the update raised -/
abbrev Obs (α : Type) := Option (BState α × Option Bool)

def shiftObs (off : Nat) : Obs α → Obs α := Option.map (fun r => (shift off r.1, r.2))

def stepO (c : BCfg α) (m : Nat) (s? : Option (BState α)) (op : Op α) : Option (BState α) :=
  s?.bind (fun s => (bStep c s m op.1 op.2).map (·.1))

def run (c : BCfg α) (m : Nat) (s : BState α) (ops : List (Op α)) : Option (BState α) :=
  ops.foldl (stepO c m) (some s)

def trace (c : BCfg α) (m : Nat) : BState α → List (Op α) → List (Obs α)
  | _, [] => []
  | s, op :: rest =>
    match bStep c s m op.1 op.2 with
    | none => [none]
    | some r => some (view r.1, r.2) :: trace c m r.1 rest

theorem foldl_none (c : BCfg α) (m : Nat) (ops : List (Op α)) : ops.foldl (stepO c m) none = none := by
  induction ops with
  | nil => rfl
  | cons y ys ih => simpa [stepO] using ih

@[simp] theorem run_nil (c : BCfg α) (m : Nat) (s : BState α) : run c m s [] = some s := rfl

theorem run_cons (c : BCfg α) (m : Nat) (s : BState α) (op : Op α) (ops : List (Op α)) :
    run c m s (op :: ops) = (bStep c s m op.1 op.2).bind (fun r => run c m r.1 ops) := by
  unfold run
  simp only [List.foldl_cons, stepO, Option.bind_some]
  cases bStep c s m op.1 op.2 with
  | none => simpa using foldl_none c m ops
  | some r => simp [stepO]

theorem run_append (c : BCfg α) (m : Nat) (s : BState α) (xs ys : List (Op α)) :
    run c m s (xs ++ ys) = (run c m s xs).bind (fun s' => run c m s' ys) := by
  induction xs generalizing s with
  | nil => simp
  | cons x xs ih =>
    simp only [List.cons_append, run_cons]
    cases bStep c s m x.1 x.2 with
    | none => simp
    | some r => simp [ih]

theorem trace_append (c : BCfg α) (m : Nat) (s : BState α) (xs ys : List (Op α)) :
    trace c m s (xs ++ ys) =
      trace c m s xs ++ (match run c m s xs with | none => [] | some s' => trace c m s' ys) := by
  induction xs generalizing s with
  | nil => simp [trace]
  | cons x xs ih =>
    simp only [List.cons_append, trace, run_cons]
    cases bStep c s m x.1 x.2 with
    | none => simp
    | some r => simp [ih]

theorem bSetRef_keeps (c : BCfg α) (m : Nat) (s s' : BState α) (R : List (List α)) (d : List (List Nat))
    (h : bSetRef c s m R d = some s') :
    s'.total = s.total ∧ s'.refData = s.refData ∧ s'.since = 0 ∧ s'.drift = .none ∧ s'.testDist = none := by
  unfold bSetRef at h
  cases hb : build c.part m R with
  | none => simp [hb] at h
  | some tr =>
    simp only [hb, Option.some.injEq] at h
    subst h; simp

/-- every successful update counts exactly one batch; and a reported drift means that the batch
    exceeded and is remembered as the next reference -/
theorem bStep_facts (c : BCfg α) (m : Nat) (s s' : BState α) (X : List (List α)) (d : List (List Nat))
    (f : Option Bool) (h : bStep c s m X d = some (s', f)) :
    s'.total = s.total + 1 ∧ (s'.drift = .drift → s'.refData = some X ∧ f = some true) := by
  rw [bStep_eq] at h
  cases hp : bPre c m s d with
  | none => simp [hp] at h
  | some s1 =>
    have hp1 : s1.total = s.total ∧ s1.drift ≠ .drift := by
      unfold bPre at hp
      by_cases hd : s.drift = .drift
      · simp only [hd, if_true] at hp
        obtain ⟨a, _, _, b, _⟩ := bSetRef_keeps c m s s1 _ d hp
        exact ⟨a, by simp [b]⟩
      · simp only [hd, if_false, Option.some.injEq] at hp
        subst hp; exact ⟨rfl, hd⟩
    simp only [hp, Option.bind_some] at h
    unfold bCore at h
    cases ht : s1.tree with
    | none =>
      simp only [ht, Option.map_eq_some_iff, Prod.mk.injEq] at h
      obtain ⟨s2, hb, h1, h2⟩ := h
      obtain ⟨a, _, _, b, _⟩ := bSetRef_keeps c m _ s2 _ d hb
      subst h1
      exact ⟨by rw [a]; simp [hp1.1], fun hd => by simp [b] at hd⟩
    | some tr =>
      simp only [ht, Option.some.injEq, Prod.mk.injEq] at h
      obtain ⟨h1, h2⟩ := h
      subst h1 h2
      refine ⟨by simp [hp1.1], ?_⟩
      simp only
      split
      · intro _; simp_all
      · intro hd; exact absurd hd hp1.2

theorem run_total (c : BCfg α) (m : Nat) (s s' : BState α) (ops : List (Op α)) (h : run c m s ops = some s') :
    s'.total = s.total + ops.length := by
  induction ops generalizing s with
  | nil => simp at h; subst h; simp
  | cons y ys ih =>
    rw [run_cons] at h
    cases hs : bStep c s m y.1 y.2 with
    | none => simp [hs] at h
    | some r =>
      obtain ⟨s1, f⟩ := r
      simp only [hs, Option.bind_some] at h
      rw [ih s1 h, (bStep_facts c m s s1 y.1 y.2 f hs).1, List.length_cons]
      omega

/-- the batch of the last update of a block (`B` for an empty block) -/
def lastBatch (B : List (List α)) (e : List (Op α)) : List (List α) :=
  match e.getLast? with
  | some op => op.1
  | none => B

/-- **a reported drift makes the batch just seen the next reference**, whatever the history -/
theorem drift_reference (c : BCfg α) (m : Nat) (s s' : BState α) (ops : List (Op α)) (hne : ops ≠ [])
    (B : List (List α)) (h : run c m s ops = some s') (hd : s'.drift = .drift) :
    s'.refData = some (lastBatch B ops) := by
  rcases List.eq_nil_or_concat ops with rfl | ⟨l, op, rfl⟩
  · exact absurd rfl hne
  · rw [List.concat_eq_append] at h ⊢
    rw [run_append] at h
    cases h1 : run c m s l with
    | none => simp [h1] at h
    | some s1 =>
      simp only [h1, Option.bind_some, run_cons, run_nil] at h
      cases h2 : bStep c s1 m op.1 op.2 with
      | none => simp [h2] at h
      | some r =>
        obtain ⟨s2, f⟩ := r
        simp only [h2, Option.bind_some, Option.some.injEq] at h
        subst h
        simp only [lastBatch, List.getLast?_concat]
        exact ((bStep_facts c m s1 s2 op.1 op.2 f h2).2 hd).1

/-! ### the simulation -/

theorem stepO_sameUpTo (c : BCfg α) (m off : Nat) (s? t? : Option (BState α)) (op : Op α)
    (h : OptRel (SameUpTo off) s? t?) : OptRel (SameUpTo off) (stepO c m s? op) (stepO c m t? op) := by
  cases s? with
  | none => cases t? with
    | none => trivial
    | some t => exact h.elim
  | some s => cases t? with
    | none => exact h.elim
    | some t =>
      have := step_sameUpTo c m off s t op.1 op.2 h
      simp only [stepO, Option.bind_some]
      cases hs : bStep c s m op.1 op.2 <;> cases ht : bStep c t m op.1 op.2 <;> simp_all [OptRel]

/-- whole continuations preserve the relation (instance of `Twin.run_related`) -/
theorem run_sameUpTo (c : BCfg α) (m off : Nat) (s t : BState α) (ops : List (Op α)) (h : SameUpTo off s t) :
    OptRel (SameUpTo off) (run c m s ops) (run c m t ops) :=
  run_related (stepO c m) (stepO c m) (OptRel (SameUpTo off)) (stepO_sameUpTo c m off) ops (some s) (some t) h

/-- … observation by observation -/
theorem trace_sameUpTo (c : BCfg α) (m off : Nat) (s t : BState α) (ops : List (Op α)) (h : SameUpTo off s t) :
    trace c m s ops = (trace c m t ops).map (shiftObs off) := by
  induction ops generalizing s t with
  | nil => rfl
  | cons op ops ih =>
    have := step_sameUpTo c m off s t op.1 op.2 h
    simp only [trace]
    cases hs : bStep c s m op.1 op.2 <;> cases ht : bStep c t m op.1 op.2 <;> simp only [hs, ht, OptRel] at this
    · simp [shiftObs]
    · rename_i r r'
      simp only [List.map_cons, shiftObs, Option.map_some, ← (sameUpTo_iff off _ _).mp this.1, this.2]
      rw [ih _ _ this.1]
      rfl

/-- the run of the fresh twin on a non-empty continuation: a newly constructed detector,
    `set_reference(B)` — its bootstrap drawing what the first update of the continuation carries —
    then the continuation -/
def twinRun (c : BCfg α) (m : Nat) (B : List (List α)) (op : Op α) (ops : List (Op α)) : Option (BState α) :=
  (fresh c m B op.2).bind (fun t0 => run c m t0 (op :: ops))

/-- … and its observation sequence (just `[none]` when its `set_reference(B)` raises) -/
def twinTrace (c : BCfg α) (m : Nat) (B : List (List α)) : List (Op α) → List (Obs α)
  | [] => []
  | op :: ops =>
    match fresh c m B op.2 with
    | none => [none]
    | some t0 => trace c m t0 (op :: ops)

/-- **KdqTreeBatch twin theorem** (state form).  `s`: any state in which a drift has just been
    reported on batch `B` (so `ref_data = B`, `drift_reference`).  For every non-empty continuation
    the running detector and a newly constructed detector with `set_reference(B)`, fed only the
    continuation with the same draws, either both raise at the same update or end in states that
    agree on drift state, `batches_since_reset`, tree (structure, reference counts, test counts),
    critical value, divergence, and on `ref_data` whenever a drift is pending; `total_batches` is
    larger by the number of batches seen before. -/
theorem twin (c : BCfg α) (m : Nat) (s : BState α) (B : List (List α)) (h : s.drift = .drift)
    (hr : s.refData = some B) (op : Op α) (ops : List (Op α)) :
    OptRel (SameUpTo s.total) (run c m s (op :: ops)) (twinRun c m B op ops) ∧
    trace c m s (op :: ops) = (twinTrace c m B (op :: ops)).map (shiftObs s.total) := by
  have hf := first_after_drift c m s B op.1 op.2 h hr
  unfold twinRun twinTrace
  cases ht0 : fresh c m B op.2 with
  | none =>
    simp only [ht0, Option.bind_none] at hf ⊢
    cases hs : bStep c s m op.1 op.2 with
    | some r => simp [hs, OptRel] at hf
    | none => simp [run_cons, trace, hs, OptRel, shiftObs]
  | some t0 =>
    simp only [ht0, Option.bind_some] at hf ⊢
    simp only [run_cons, trace]
    cases hs : bStep c s m op.1 op.2 <;> cases ht : bStep c t0 m op.1 op.2 <;> simp only [hs, ht, OptRel] at hf
    · simp [OptRel, shiftObs]
    · rename_i r r'
      refine ⟨run_sameUpTo c m _ _ _ ops hf.1, ?_⟩
      simp only [List.map_cons, shiftObs, Option.map_some, ← (sameUpTo_iff _ _ _).mp hf.1, hf.2]
      rw [trace_sameUpTo c m _ _ _ ops hf.1]
      rfl

theorem twin_trace (c : BCfg α) (m : Nat) (s : BState α) (B : List (List α)) (h : s.drift = .drift)
    (hr : s.refData = some B) (ys : List (Op α)) :
    trace c m s ys = (twinTrace c m B ys).map (shiftObs s.total) := by
  cases ys with
  | nil => rfl
  | cons op ops => exact (twin c m s B h hr op ops).2

/-- **KdqTreeBatch twin theorem** (history form): every start state `s0` (a fresh detector, or one
    with a user-supplied reference), every history `ops` followed by an update on `B` that reports a
    drift, every non-empty continuation: observations and final state are those of a newly
    constructed detector with `set_reference(B)`, totals shifted by the number of batches before. -/
theorem twin_history (c : BCfg α) (m : Nat) (s0 s : BState α) (ops : List (Op α)) (B : List (List α))
    (dB : List (List Nat)) (hx : run c m s0 (ops ++ [(B, dB)]) = some s) (h : s.drift = .drift)
    (op : Op α) (ops' : List (Op α)) :
    trace c m s0 (ops ++ [(B, dB)] ++ op :: ops') =
      trace c m s0 (ops ++ [(B, dB)]) ++
        (twinTrace c m B (op :: ops')).map (shiftObs (s0.total + ops.length + 1)) ∧
    OptRel (SameUpTo (s0.total + ops.length + 1)) (run c m s0 (ops ++ [(B, dB)] ++ op :: ops'))
      (twinRun c m B op ops') := by
  have hr : s.refData = some B := by
    have := drift_reference c m s0 s (ops ++ [(B, dB)]) (by simp) [] hx h
    simpa [lastBatch] using this
  have ht : s.total = s0.total + ops.length + 1 := by
    have := run_total c m s0 s _ hx
    simpa [Nat.add_assoc] using this
  obtain ⟨t1, t2⟩ := twin c m s B h hr op ops'
  rw [ht] at t1 t2
  exact ⟨by rw [trace_append, hx]; simp only [t2], by rw [run_append, hx]; exact t1⟩

/-! ### the same twin, built through `update` instead of `set_reference` -/

/-- the first update of a newly constructed detector is `set_reference` of its batch, counted as
    one batch (`batches_since_reset` is restarted to 0 by it) -/
theorem first_update_twin (c : BCfg α) (m : Nat) (B : List (List α)) (d : List (List Nat)) :
    bStep c (bInit : BState α) m B d = (fresh c m B d).map (fun t0 => (shift 1 t0, none)) := by
  unfold bStep fresh bSetRef
  cases build c.part m B with
  | none => simp [bInit]
  | some tr => simp [bInit, shift]

theorem sameUpTo_shift (off : Nat) (t : BState α) : SameUpTo off (shift off t) t := by
  simp [SameUpTo, shift]

theorem sameUpTo_cancel (a b : Nat) (s t u : BState α) (h1 : SameUpTo (a + b) s t) (h2 : SameUpTo b u t) :
    SameUpTo a s u := by
  obtain ⟨a1, a2, a3, a4, a5, a6, a7⟩ := h1
  obtain ⟨b1, b2, b3, b4, b5, b6, b7⟩ := h2
  refine ⟨by omega, a2.trans b2.symm, a3.trans b3.symm, a4.trans b4.symm, a5.trans b5.symm,
    a6.trans b6.symm, fun hd => ?_⟩
  rw [a7 (b3 ▸ hd), b7 (b3 ▸ hd)]

/-- **history form with the twin fed the drifted batch as its first batch**: after `xs ++ [B]`
    ending in a drift, the running detector on `xs ++ [B] ++ ys` ends as a newly constructed detector
    fed only `[B] ++ ys` (`B` with the draws of the first update of `ys`), `total_batches` larger by
    `|xs|` — "only the data that arrived after the drift, plus the carried-over drifted batch". -/
theorem twin_history_first_update (c : BCfg α) (m : Nat) (s : BState α) (ops : List (Op α))
    (B : List (List α)) (dB : List (List Nat)) (hx : run c m bInit (ops ++ [(B, dB)]) = some s)
    (h : s.drift = .drift) (op : Op α) (ops' : List (Op α)) :
    OptRel (SameUpTo ops.length) (run c m bInit (ops ++ [(B, dB)] ++ op :: ops'))
      (run c m bInit ((B, op.2) :: op :: ops')) := by
  have h1 := (twin_history c m bInit s ops B dB hx h op ops').2
  rw [run_cons c m bInit (B, op.2), first_update_twin]
  unfold twinRun at h1
  cases hf : fresh c m B op.2 with
  | none =>
    simp only [hf, Option.bind_none, Option.map_none] at h1 ⊢
    cases hr : run c m bInit (ops ++ [(B, dB)] ++ op :: ops') <;> simp only [hr, OptRel] at h1 ⊢
  | some t0 =>
    simp only [hf, Option.bind_some, Option.map_some] at h1 ⊢
    have h2 := run_sameUpTo c m 1 _ _ (op :: ops') (sameUpTo_shift 1 t0)
    cases hr : run c m bInit (ops ++ [(B, dB)] ++ op :: ops') <;>
      cases ht : run c m t0 (op :: ops') <;>
      cases hu : run c m (shift 1 t0) (op :: ops') <;>
      simp only [hr, ht, hu, OptRel] at h1 h2 ⊢
    rename_i r t u
    exact sameUpTo_cancel _ 1 r t u (by simpa [bInit] using h1) h2

/-! ### `set_reference` at any time -/

/-- **`set_reference` twin theorem.**  In any state `s` whatsoever (fresh, mid-epoch, drift pending)
    `set_reference(R)` either raises exactly when it raises on a newly constructed detector, or
    leaves a state that equals the newly constructed detector's after `set_reference(R)` with the
    same draws in drift state (`None`), `batches_since_reset` (0), tree, critical value and
    divergence (cleared).  The model keeps exactly two things: `total_batches`, and the stale
    `ref_data` attribute, which is never read before the next drift overwrites it (this is the last
    clause of `SameUpTo`).  Consequently every continuation is observed identically, totals shifted,
    and ends in related states. -/
theorem setReference_twin (c : BCfg α) (m : Nat) (s : BState α) (R : List (List α)) (d : List (List Nat)) :
    OptRel (SameUpTo s.total) (bSetRef c s m R d) (fresh c m R d) ∧
    ∀ s1 t1, bSetRef c s m R d = some s1 → fresh c m R d = some t1 →
      s1.total = s.total ∧ s1.refData = s.refData ∧
      ∀ ops, trace c m s1 ops = (trace c m t1 ops).map (shiftObs s.total) ∧
        OptRel (SameUpTo s.total) (run c m s1 ops) (run c m t1 ops) := by
  have h0 := setRef_sameUpTo c m s.total s bInit R d (by simp [bInit])
  refine ⟨h0, fun s1 t1 hs ht => ?_⟩
  obtain ⟨k1, k2, _⟩ := bSetRef_keeps c m s s1 R d hs
  unfold fresh at ht
  simp only [hs, ht, OptRel] at h0
  exact ⟨k1, k2, fun ops => ⟨trace_sameUpTo c m _ _ _ ops h0, run_sameUpTo c m _ _ _ ops h0⟩⟩

/-- … in particular after any history `ops` of a fresh detector (`total_batches = |ops|`) -/
theorem setReference_twin_history (c : BCfg α) (m : Nat) (ops : List (Op α)) (s : BState α)
    (hx : run c m bInit ops = some s) (R : List (List α)) (d : List (List Nat)) :
    OptRel (SameUpTo ops.length) (bSetRef c s m R d) (fresh c m R d) ∧
    ∀ s1 t1, bSetRef c s m R d = some s1 → fresh c m R d = some t1 →
      ∀ ops', trace c m s1 ops' = (trace c m t1 ops').map (shiftObs ops.length) ∧
        OptRel (SameUpTo ops.length) (run c m s1 ops') (run c m t1 ops') := by
  have ht : s.total = ops.length := by simpa [bInit] using run_total c m bInit s ops hx
  obtain ⟨h1, h2⟩ := setReference_twin c m s R d
  rw [ht] at h1 h2
  exact ⟨h1, fun s1 t1 hs hf ops' => (h2 s1 t1 hs hf).2.2 ops'⟩

/-! ### second, third, … drift -/

/-- started in `s`, the history `es.flatten` reports a drift at the end of every block of `es` -/
def DriftsAt (c : BCfg α) (m : Nat) : BState α → List (List (Op α)) → Prop
  | _, [] => True
  | s, e :: es => e ≠ [] ∧ ∃ s', run c m s e = some s' ∧ s'.drift = .drift ∧ DriftsAt c m s' es

/-- the observation sequences of the fresh twins, one per block: the twin of a block has as its
    reference the last batch of the block before it (`B` for the first block); the `k`-th sequence
    is moved by the number of batches before its block -/
def twinTraces (c : BCfg α) (m : Nat) : Nat → List (List α) → List (List (Op α)) → List (Obs α)
  | _, _, [] => []
  | off, B, e :: es => (twinTrace c m B e).map (shiftObs off) ++ twinTraces c m (off + e.length) (lastBatch B e) es

/-- every fresh twin (reference = the last batch of the previous block) reports a drift at the end of
    its own block -/
def TwinDrifts (c : BCfg α) (m : Nat) : List (List α) → List (List (Op α)) → Prop
  | _, [] => True
  | _, [] :: _ => False
  | B, (op :: ops) :: es =>
    (∃ t, twinRun c m B op ops = some t ∧ t.drift = .drift) ∧ TwinDrifts c m (lastBatch B (op :: ops)) es

theorem driftsAt_of_prefixes (c : BCfg α) (m : Nat) (es : List (List (Op α))) (s : BState α)
    (hne : ∀ e ∈ es, e ≠ [])
    (h : ∀ k, k < es.length → (run c m s (es.take (k + 1)).flatten).map (·.drift) = some .drift) :
    DriftsAt c m s es := by
  induction es generalizing s with
  | nil => trivial
  | cons e es ih =>
    have h0 := h 0 (by simp)
    simp only [List.take_succ_cons, List.take_zero, List.flatten_cons, List.flatten_nil,
      List.append_nil, Option.map_eq_some_iff] at h0
    obtain ⟨s', hs', hd⟩ := h0
    refine ⟨hne e (by simp), s', hs', hd, ih s' (fun e' he' => hne e' (by simp [he'])) ?_⟩
    intro k hk
    have := h (k + 1) (by simpa using hk)
    simpa [List.take_succ_cons, run_append, hs'] using this

theorem twin_epochs_gen (c : BCfg α) (m : Nat) (es : List (List (Op α))) (s : BState α) (B : List (List α))
    (h : s.drift = .drift) (hr : s.refData = some B) (hd : DriftsAt c m s es) :
    TwinDrifts c m B es ∧
    ∀ ys, trace c m s (es.flatten ++ ys) =
      twinTraces c m s.total B es ++
        (twinTrace c m (es.foldl lastBatch B) ys).map (shiftObs (s.total + es.flatten.length)) := by
  induction es generalizing s B with
  | nil =>
    refine ⟨trivial, fun ys => ?_⟩
    simpa [twinTraces] using twin_trace c m s B h hr ys
  | cons e es ih =>
    obtain ⟨hne, s1, hrun, hd1, hrest⟩ := hd
    obtain ⟨op, ops, rfl⟩ := List.exists_cons_of_ne_nil hne
    obtain ⟨t1, t2⟩ := twin c m s B h hr op ops
    have hr1 := drift_reference c m s s1 (op :: ops) hne B hrun hd1
    have htot : s1.total = s.total + (op :: ops).length := run_total c m s s1 _ hrun
    obtain ⟨i1, i2⟩ := ih s1 _ hd1 hr1 hrest
    constructor
    · refine ⟨?_, i1⟩
      rw [hrun] at t1
      cases ht : twinRun c m B op ops with
      | none => simp [ht, OptRel] at t1
      | some t =>
        simp only [ht, OptRel] at t1
        exact ⟨t, rfl, t1.2.2.1 ▸ hd1⟩
    · intro ys
      have e : s.total + (op :: ops).length + es.flatten.length = s.total + ((op :: ops) :: es).flatten.length := by
        simp only [List.flatten_cons, List.length_append]; omega
      rw [List.flatten_cons, List.append_assoc, trace_append, hrun]
      simp only [i2 ys, twinTraces, t2, htot, List.append_assoc, List.foldl_cons, e, List.flatten_cons]

/-- **Second, third, … drift** (any number of epochs).  Let a history from any start state `s0` be
    cut into non-empty blocks `e₀, e₁ … eₙ` at (any of) its reported drifts, and let `Bₖ` be the last
    batch of `eₖ`.  Then
    * for every `k ≥ 1` the newly constructed detector with `set_reference(Bₖ₋₁)` fed only `eₖ`
      reports a drift at the end of `eₖ`;
    * the observations of the running detector on `e₀ ++ e₁ ++ … ++ eₙ ++ ys`, for every continuation
      `ys`, are its observations on `e₀`, followed by those of the fresh twins with references
      `B₀, …, Bₙ` fed `e₁, …, eₙ, ys` respectively, totals moved by the number of batches before
      the respective block.
    Proved by induction on the number of blocks. -/
theorem twin_epochs (c : BCfg α) (m : Nat) (s0 : BState α) (e0 : List (Op α)) (es : List (List (Op α)))
    (h : DriftsAt c m s0 (e0 :: es)) (ys : List (Op α)) :
    TwinDrifts c m (lastBatch [] e0) es ∧
    trace c m s0 ((e0 :: es).flatten ++ ys) =
      trace c m s0 e0 ++ twinTraces c m (s0.total + e0.length) (lastBatch [] e0) es ++
        (twinTrace c m ((e0 :: es).foldl lastBatch []) ys).map
          (shiftObs (s0.total + (e0 :: es).flatten.length)) := by
  obtain ⟨hne, s1, hrun, hd1, hrest⟩ := h
  have hr1 := drift_reference c m s0 s1 e0 hne [] hrun hd1
  have htot : s1.total = s0.total + e0.length := run_total c m s0 s1 _ hrun
  obtain ⟨i1, i2⟩ := twin_epochs_gen c m es s1 _ hd1 hr1 hrest
  refine ⟨i1, ?_⟩
  have e : s0.total + e0.length + es.flatten.length = s0.total + (e0 :: es).flatten.length := by
    simp only [List.flatten_cons, List.length_append]; omega
  rw [List.flatten_cons, List.append_assoc, trace_append, hrun]
  simp only [i2 ys, htot, List.append_assoc, List.foldl_cons, e, List.flatten_cons]

end MV.KdqBatch

/-! ## Non-vacuity (rational carrier, the surrogate instances of `Props/C09.lean`) -/
section examples
open MV MV.KdqDet

namespace MV.KdqStream

/-- the history of `Props/C09.lean` ends in a drift (building, built, waiting, two exceeding
    evaluations), and so does the same block fed again: a history with two drifts, cut at both -/
theorem ex_driftsAt : DriftsAt exS sInit [exIn.take 5, exIn.take 5] :=
  driftsAt_of_prefixes _ _ _ (by decide) (by decide +kernel)

/-- the hypotheses of `twin` / `twin_history` hold for that history … -/
example : (run exS sInit (exIn.take 5)).map (fun s => (s.drift, s.total)) = some (.drift, 5) := by
  decide +kernel

/-- … and `twin_epochs` applies: e.g. the 12 observations of the running detector on
    block, block, 2 further samples are those of three fresh detectors -/
example : trace exS sInit ([exIn.take 5, exIn.take 5].flatten ++ exIn.take 2) =
    freshTraces exS 0 [exIn.take 5, exIn.take 5] ++ (trace exS sInit (exIn.take 2)).map (shiftObs 10) :=
  (twin_epochs exS _ ex_driftsAt (exIn.take 2)).2

end MV.KdqStream

namespace MV.KdqBatch

/-- reference {0,1} (critical value 0), then {0,0,1}: drift -/
def exE0 : List (Op ℚ) := [([[0], [1]], [[0, 1, 0, 1]]), ([[0], [0], [1]], [])]
/-- the next update rebuilds the tree from {0,0,1} (two leaves, bootstrap draw 0,0,1,0,0,1:
    critical value 0) and compares {1,1,1} with it: drift again -/
def exE1 : List (Op ℚ) := [([[1], [1], [1]], [[0, 0, 1, 0, 0, 1]])]

/-- a history with two drifts, cut at both: the hypothesis of `twin_epochs` -/
theorem ex_driftsAt : DriftsAt exB 1 bInit [exE0, exE1] :=
  driftsAt_of_prefixes _ _ _ _ (by decide) (by decide +kernel)

/-- the hypotheses of `twin` (`B` = {0,0,1}) and of `twin_history` hold after the first block -/
example : (run exB 1 bInit exE0).map (fun s => (s.drift, s.refData, s.total)) =
    some (.drift, some [[0], [0], [1]], 2) := by decide +kernel

/-- consequence of `twin_epochs`: the fresh detector with `set_reference({0,0,1})` fed {1,1,1}
    reports the second drift as well -/
example : ∃ t, twinRun exB 1 [[0], [0], [1]] ([[1], [1], [1]], [[0, 0, 1, 0, 0, 1]]) [] = some t ∧ t.drift = .drift :=
  (twin_epochs exB 1 bInit exE0 [exE1] ex_driftsAt []).1.1

end MV.KdqBatch
end examples
