/-
  C02 (continued) — the clean-slate twin theorems for DDM, EDDM, STEPD, CUSUM, PageHinkley
  (history form) and NNDVI (after a drift and after `set_reference`).

  Shape of every theorem (as in `Props/C02.lean`): for EVERY state `s` in which a drift is pending
  (so for every history that ends in a reported drift) and EVERY non-empty continuation, the
  running detector is, after the continuation, in the state of a freshly constructed detector (plus
  the documented carry-over) that was fed only the continuation — drift state, since-reset counter
  and every statistic equal, `total_samples` shifted by the number of samples seen before and the
  indices in `retraining_recs` shifted by the same amount (`s.recs = shiftRecs off t.recs`).
  Because the continuation is arbitrary the statement holds position by position (`twin_positions`).

  Second, third, … drift: the twin is an *ordinary run* of the model, so when the continuation
  itself ends in a drift the theorem applies again — to the running detector (history `xs ++ ys`)
  and to the twin (history `ys`).  No induction on the number of epochs is needed; `twin_epochs`
  spells the instance out.

  Carry-over: none (DDM, EDDM, STEPD, PageHinkley); CUSUM: `target` / `sd_hat` = mean / population
  standard deviation of the last `burn_in` observations before the drift (and no older observation
  is read: `Cusum.carry_epoch_only`); NNDVI: the reference is the drifted batch.

  No arithmetic law is used anywhere: both sides perform the same operations, so every theorem
  holds for every carrier, including the executed `Float` instance.
-/
import MenelausVerif.Props.C02
import MenelausVerif.Props.C04
import MenelausVerif.Props.C05
import MenelausVerif.Props.C10
set_option linter.unusedSectionVars false

namespace MV.Twin

/-- index shift of one side of `retraining_recs` -/
def shiftOpt (off : Nat) : Option Nat → Option Nat
  | none => none
  | some k => some (k + off)

/-- `retraining_recs` of the twin, moved to the running detector's sample numbering -/
def shiftRecs (off : Nat) (r : Recs) : Recs := (shiftOpt off r.1, shiftOpt off r.2)

@[simp] theorem shiftRecs_empty (off : Nat) : shiftRecs off Recs.empty = Recs.empty := rfl

/-- the DDM / EDDM bookkeeping commutes with the shift -/
theorem incRecsFirst_shift (st : Drift) (k off : Nat) (r : Recs) :
    incRecsFirst st (k + off) (shiftRecs off r) = shiftRecs off (incRecsFirst st k r) := by
  obtain ⟨a, b⟩ := r
  cases st <;> cases a <;> simp [incRecsFirst, shiftRecs, shiftOpt]

/-- the STEPD bookkeeping commutes with the shift -/
theorem incRecsRun_shift (k off : Nat) (r : Recs) :
    incRecsRun (k + off) (shiftRecs off r) = shiftRecs off (incRecsRun k r) := by
  obtain ⟨a, b⟩ := r
  cases a <;> cases b <;> simp [incRecsRun, shiftRecs, shiftOpt]; omega

end MV.Twin

/-! ## DDM -/
namespace MV.DDM
open MV MV.Twin
section anyCarrier
variable {α : Type} [Add α] [Sub α] [Mul α] [Div α] [LE α] [DecidableLE α] [NatCast α] [HasSqrt α]

/-- running state `s` equals fresh state `t` up to the offset of `total_samples` and of the indices
    held in `retraining_recs` -/
def SameUpTo (off : Nat) (s t : State α) : Prop :=
  s.total = t.total + off ∧ s.since = t.since ∧ s.drift = t.drift ∧ s.rate = t.rate ∧
  s.std = t.std ∧ s.mins = t.mins ∧ s.recs = shiftRecs off t.recs

theorem core_sameUpTo (c : Cfg α) (off : Nat) (s t : State α) (e : Bool) (h : SameUpTo off s t) :
    SameUpTo off (core c s e) (core c t e) := by
  obtain ⟨t1, t2, t3, t4, t5, t6, t7⟩ := t
  obtain ⟨s1, s2, s3, s4, s5, s6, s7⟩ := s
  obtain ⟨h1, h2, h3, h4, h5, h6, h7⟩ := h
  simp only at h1 h2 h3 h4 h5 h6 h7
  subst h1 h2 h3 h4 h5 h6 h7
  by_cases hc : s2 + 1 < c.nThreshold
  · simp only [core, hc, if_true, SameUpTo, and_self, and_true]; omega
  · simp only [core, hc, if_false, SameUpTo, and_self, and_true, incRecsFirst_shift]; omega

theorem reset_sameUpTo (off : Nat) (s t : State α) (h : s.total = t.total + off) :
    SameUpTo off (reset s) (reset t) := by
  simp only [reset, SameUpTo, h, shiftRecs_empty, and_self]

/-- the relation is preserved by every update on the same input -/
theorem step_sameUpTo (c : Cfg α) (off : Nat) (s t : State α) (e : Bool) (h : SameUpTo off s t) :
    SameUpTo off (step c s e) (step c t e) := by
  unfold step
  rw [h.2.2.1]
  by_cases hd : t.drift = .drift
  · simp only [hd, if_true]; exact core_sameUpTo c off _ _ e (reset_sameUpTo off s t h.1)
  · simp only [hd, if_false]; exact core_sameUpTo c off _ _ e h

/-- the update after a drift establishes it against a freshly constructed detector -/
theorem first_after_drift (c : Cfg α) (s : State α) (e : Bool) (h : s.drift = .drift) :
    SameUpTo s.total (step c s e) (step c init e) := by
  unfold step
  have hn : ¬ ((init : State α).drift = Drift.drift) := by simp [init]
  simp only [h, if_true, hn, if_false]
  apply core_sameUpTo
  simp only [reset, init, SameUpTo, shiftRecs_empty, and_self, and_true]
  omega

/-- **DDM twin theorem** (state form).  After any state with a pending drift, for every non-empty
    continuation the running detector equals a fresh detector fed only the continuation: drift state,
    since-reset counter, error rate, std, stored minima; `total_samples` and the indices in
    `retraining_recs` are shifted by the number of samples seen before. -/
theorem twin (c : Cfg α) (s : State α) (h : s.drift = .drift) (y : Bool) (ys : List Bool) :
    SameUpTo s.total ((y :: ys).foldl (step c) s) (run c (y :: ys)) := by
  unfold run
  exact run_related_after_first (step c) (step c) (fun s' t => s' = s ∧ t = init) (SameUpTo s.total)
    (fun s' t i ⟨hs, ht⟩ => by subst hs; subst ht; exact first_after_drift c s' i h)
    (fun s' t i hR => step_sameUpTo c _ s' t i hR) y ys s init ⟨rfl, rfl⟩

theorem run_total (c : Cfg α) (xs : List Bool) : (run c xs).total = xs.length :=
  (ddm_epoch c xs).total

/-- **DDM twin theorem** (history form): every history `xs` that ends in a reported drift, every
    non-empty continuation. -/
theorem twin_history (c : Cfg α) (xs : List Bool) (h : (run c xs).drift = .drift) (y : Bool)
    (ys : List Bool) : SameUpTo xs.length (run c (xs ++ y :: ys)) (run c (y :: ys)) := by
  have := twin c (run c xs) h y ys
  rw [run_total] at this
  simpa [run, List.foldl_append] using this

/-- … position by position along a continuation -/
theorem twin_positions (c : Cfg α) (xs ys : List Bool) (h : (run c xs).drift = .drift) :
    ∀ k, 1 ≤ k → k ≤ ys.length →
      SameUpTo xs.length (run c (xs ++ ys.take k)) (run c (ys.take k)) := by
  intro k h1 h2
  cases hk : ys.take k with
  | nil =>
    simp at hk
    rcases hk with hk | hk
    · omega
    · subst hk; simp at h2; omega
  | cons y ys' => exact twin_history c xs h y ys'

/-- **Second, third, … drift.**  If the continuation `ys` ends in a drift again, the twin reports it
    too, and after it the running detector, the first twin and a second fresh twin all agree (each up
    to its own offset).  Every clause is an instance of `twin_history`: the twin is an ordinary run. -/
theorem twin_epochs (c : Cfg α) (xs : List Bool) (h : (run c xs).drift = .drift) (y : Bool)
    (ys : List Bool) (h2 : (run c (xs ++ y :: ys)).drift = .drift) (z : Bool) (zs : List Bool) :
    (run c (y :: ys)).drift = .drift ∧
    SameUpTo xs.length (run c (xs ++ (y :: ys) ++ z :: zs)) (run c ((y :: ys) ++ z :: zs)) ∧
    SameUpTo (xs.length + (y :: ys).length) (run c (xs ++ (y :: ys) ++ z :: zs)) (run c (z :: zs)) ∧
    SameUpTo (y :: ys).length (run c ((y :: ys) ++ z :: zs)) (run c (z :: zs)) := by
  have e := (twin_history c xs h y ys).2.2.1
  have hd : (run c (y :: ys)).drift = .drift := e ▸ h2
  refine ⟨hd, ?_, ?_, twin_history c (y :: ys) hd z zs⟩
  · have := twin_history c xs h y (ys ++ z :: zs)
    simpa using this
  · have := twin_history c (xs ++ y :: ys) h2 z zs
    simpa using this

end anyCarrier

section examples
local instance : HasSqrt ℚ := ⟨fun x => x⟩
/-- non-vacuity: a history ending in a drift, and a continuation ending in a second drift (the
    hypotheses of `twin`, `twin_history`, `twin_epochs` are satisfiable) -/
example : (run (α := ℚ) ⟨2, 1/2, 2⟩ [true, false, false, false, true]).drift = .drift ∧
    (run (α := ℚ) ⟨2, 1/2, 2⟩ ([true, false, false, false, true] ++ [true, false, false, false, true])).drift
      = .drift := by
  decide +kernel
end examples

end MV.DDM

/-! ## EDDM -/
namespace MV.EDDM
open MV MV.Twin
section anyCarrier
variable {α : Type} [Add α] [Sub α] [Mul α] [Div α] [LT α] [DecidableLT α] [LE α] [DecidableLE α]
  [NatCast α] [HasSqrt α]

/-- running state `s` equals fresh state `t` up to the offset of `total_samples` and of the indices
    held in `retraining_recs` (the index of the latest error is epoch-relative, hence equal) -/
def SameUpTo (off : Nat) (s t : State α) : Prop :=
  s.total = t.total + off ∧ s.since = t.since ∧ s.drift = t.drift ∧ s.nErrors = t.nErrors ∧
  s.idxCurr = t.idxCurr ∧ s.distMean = t.distMean ∧ s.distStd = t.distStd ∧ s.maxNum = t.maxNum ∧
  s.recs = shiftRecs off t.recs

theorem core_sameUpTo (c : Cfg α) (off : Nat) (s t : State α) (e : Bool) (h : SameUpTo off s t) :
    SameUpTo off (core c s e) (core c t e) := by
  obtain ⟨t1, t2, t3, t4, t5, t6, t7, t8, t9⟩ := t
  obtain ⟨s1, s2, s3, s4, s5, s6, s7, s8, s9⟩ := s
  obtain ⟨h1, h2, h3, h4, h5, h6, h7, h8, h9⟩ := h
  simp only at h1 h2 h3 h4 h5 h6 h7 h8 h9
  subst h1 h2 h3 h4 h5 h6 h7 h8 h9
  cases e
  · simp only [core, SameUpTo, Bool.not_false, if_true, and_self, and_true]; omega
  · by_cases hc : s4 + 1 < c.nThreshold
    · simp only [core, hc, SameUpTo, Bool.not_true, Bool.false_eq_true, if_false, if_true, and_self,
        and_true]; omega
    · simp only [core, hc, SameUpTo, Bool.not_true, Bool.false_eq_true, if_false, and_self, and_true,
        incRecsFirst_shift]; omega

theorem reset_sameUpTo (off : Nat) (s t : State α) (h : s.total = t.total + off) :
    SameUpTo off (reset s) (reset t) := by
  simp only [reset, SameUpTo, h, shiftRecs_empty, and_self]

/-- the relation is preserved by every update on the same input -/
theorem step_sameUpTo (c : Cfg α) (off : Nat) (s t : State α) (e : Bool) (h : SameUpTo off s t) :
    SameUpTo off (step c s e) (step c t e) := by
  unfold step
  rw [h.2.2.1]
  by_cases hd : t.drift = .drift
  · simp only [hd, if_true]; exact core_sameUpTo c off _ _ e (reset_sameUpTo off s t h.1)
  · simp only [hd, if_false]; exact core_sameUpTo c off _ _ e h

/-- the update after a drift establishes it against a freshly constructed detector -/
theorem first_after_drift (c : Cfg α) (s : State α) (e : Bool) (h : s.drift = .drift) :
    SameUpTo s.total (step c s e) (step c init e) := by
  unfold step
  have hn : ¬ ((init : State α).drift = Drift.drift) := by simp [init]
  simp only [h, if_true, hn, if_false]
  apply core_sameUpTo
  simp only [reset, init, SameUpTo, shiftRecs_empty, and_self, and_true]
  omega

/-- **EDDM twin theorem** (state form).  After any state with a pending drift, for every non-empty
    continuation the running detector equals a fresh detector fed only the continuation: drift state,
    since-reset counter, number of errors, index of the latest error, mean / std of the distances
    between errors, the maximum of `mean + 2·std`; `total_samples` and the indices in
    `retraining_recs` are shifted by the number of samples seen before. -/
theorem twin (c : Cfg α) (s : State α) (h : s.drift = .drift) (y : Bool) (ys : List Bool) :
    SameUpTo s.total ((y :: ys).foldl (step c) s) (run c (y :: ys)) := by
  unfold run
  exact run_related_after_first (step c) (step c) (fun s' t => s' = s ∧ t = init) (SameUpTo s.total)
    (fun s' t i ⟨hs, ht⟩ => by subst hs; subst ht; exact first_after_drift c s' i h)
    (fun s' t i hR => step_sameUpTo c _ s' t i hR) y ys s init ⟨rfl, rfl⟩

theorem run_total (c : Cfg α) (xs : List Bool) : (run c xs).total = xs.length :=
  (eddm_epoch c xs).total

/-- **EDDM twin theorem** (history form): every history `xs` that ends in a reported drift, every
    non-empty continuation. -/
theorem twin_history (c : Cfg α) (xs : List Bool) (h : (run c xs).drift = .drift) (y : Bool)
    (ys : List Bool) : SameUpTo xs.length (run c (xs ++ y :: ys)) (run c (y :: ys)) := by
  have := twin c (run c xs) h y ys
  rw [run_total] at this
  simpa [run, List.foldl_append] using this

/-- … position by position along a continuation -/
theorem twin_positions (c : Cfg α) (xs ys : List Bool) (h : (run c xs).drift = .drift) :
    ∀ k, 1 ≤ k → k ≤ ys.length →
      SameUpTo xs.length (run c (xs ++ ys.take k)) (run c (ys.take k)) := by
  intro k h1 h2
  cases hk : ys.take k with
  | nil =>
    simp at hk
    rcases hk with hk | hk
    · omega
    · subst hk; simp at h2; omega
  | cons y ys' => exact twin_history c xs h y ys'

/-- **Second, third, … drift** (see `DDM.twin_epochs`): every clause is an instance of
    `twin_history`, because the twin is an ordinary run. -/
theorem twin_epochs (c : Cfg α) (xs : List Bool) (h : (run c xs).drift = .drift) (y : Bool)
    (ys : List Bool) (h2 : (run c (xs ++ y :: ys)).drift = .drift) (z : Bool) (zs : List Bool) :
    (run c (y :: ys)).drift = .drift ∧
    SameUpTo xs.length (run c (xs ++ (y :: ys) ++ z :: zs)) (run c ((y :: ys) ++ z :: zs)) ∧
    SameUpTo (xs.length + (y :: ys).length) (run c (xs ++ (y :: ys) ++ z :: zs)) (run c (z :: zs)) ∧
    SameUpTo (y :: ys).length (run c ((y :: ys) ++ z :: zs)) (run c (z :: zs)) := by
  have e := (twin_history c xs h y ys).2.2.1
  have hd : (run c (y :: ys)).drift = .drift := e ▸ h2
  refine ⟨hd, ?_, ?_, twin_history c (y :: ys) hd z zs⟩
  · have := twin_history c xs h y (ys ++ z :: zs)
    simpa using this
  · have := twin_history c (xs ++ y :: ys) h2 z zs
    simpa using this

end anyCarrier

section examples
local instance : HasSqrt ℚ := ⟨fun x => x⟩
/-- non-vacuity: a history ending in a drift, and a continuation ending in a second drift -/
example :
    (run (α := ℚ) ⟨2, 9/10, 1/2⟩ [false, false, false, true, false, false, true, true, true, true, true]).drift
      = .drift ∧
    (run (α := ℚ) ⟨2, 9/10, 1/2⟩ ([false, false, false, true, false, false, true, true, true, true, true] ++
      [false, false, false, true, false, false, true, true, true, true, true])).drift = .drift := by
  decide +kernel
end examples

end MV.EDDM

/-! ## STEPD -/
namespace MV.STEPD
open MV MV.Twin

/-- running state `s` equals fresh state `t` up to the offset of `total_samples` and of the indices
    held in `retraining_recs` -/
def SameUpTo (off : Nat) (s t : State) : Prop :=
  s.total = t.total + off ∧ s.since = t.since ∧ s.drift = t.drift ∧ s.sIn = t.sIn ∧
  s.rPast = t.rPast ∧ s.win = t.win ∧ s.recs = shiftRecs off t.recs

theorem push_sameUpTo (w off : Nat) (s t : State) (ok : Bool) (h : SameUpTo off s t) :
    SameUpTo off (push w s ok) (push w t ok) := by
  obtain ⟨t1, t2, t3, t4, t5, t6, t7⟩ := t
  obtain ⟨s1, s2, s3, s4, s5, s6, s7⟩ := s
  obtain ⟨h1, h2, h3, h4, h5, h6, h7⟩ := h
  simp only at h1 h2 h3 h4 h5 h6 h7
  subst h1 h2 h3 h4 h5 h6 h7
  unfold push SameUpTo
  simp only
  split
  · split <;> simp <;> omega
  · simp; omega

section anyCarrier
variable {α : Type} [Add α] [Sub α] [Mul α] [Div α] [Neg α] [LT α] [DecidableLT α] [NatCast α] [HasSqrt α]

/-- the test reads the epoch counters and the window only -/
theorem decide3_sameUpTo (c : Cfg α) (off : Nat) (s t : State) (h : SameUpTo off s t) :
    decide3 c s = decide3 c t := by
  obtain ⟨t1, t2, t3, t4, t5, t6, t7⟩ := t
  obtain ⟨s1, s2, s3, s4, s5, s6, s7⟩ := s
  obtain ⟨h1, h2, h3, h4, h5, h6, h7⟩ := h
  simp only at h1 h2 h3 h4 h5 h6 h7
  subst h1 h2 h3 h4 h5 h6 h7
  rfl

theorem core_sameUpTo (c : Cfg α) (off : Nat) (s t : State) (e : Bool) (h : SameUpTo off s t) :
    SameUpTo off (core c s e) (core c t e) := by
  have hp := push_sameUpTo c.window off s t (!e) h
  have hd := decide3_sameUpTo c off _ _ hp
  unfold core
  simp only [hd]
  by_cases hc : 2 * c.window ≤ (push c.window t !e).since
  · rw [if_pos (show 2 * c.window ≤ (push c.window s !e).since by rw [hp.2.1]; exact hc), if_pos hc]
    generalize decide3 c (push c.window t !e) = st
    obtain ⟨p1, p2, p3, p4, p5, p6, p7⟩ := hp
    cases st
    · exact ⟨p1, p2, rfl, p4, p5, p6, rfl⟩
    · refine ⟨p1, p2, rfl, p4, p5, p6, ?_⟩
      show incRecsRun s.total _ = shiftRecs off (incRecsRun t.total _)
      rw [h.1, p7, incRecsRun_shift]
    · refine ⟨p1, p2, rfl, p4, p5, p6, ?_⟩
      show incRecsRun s.total _ = shiftRecs off (incRecsRun t.total _)
      rw [h.1, p7, incRecsRun_shift]
  · rw [if_neg (show ¬ 2 * c.window ≤ (push c.window s !e).since by rw [hp.2.1]; exact hc), if_neg hc]
    exact hp

theorem reset_sameUpTo (off : Nat) (s t : State) (h : s.total = t.total + off) :
    SameUpTo off (reset s) (reset t) := by
  simp only [reset, SameUpTo, h, shiftRecs_empty, and_self]

/-- the relation is preserved by every update on the same input -/
theorem step_sameUpTo (c : Cfg α) (off : Nat) (s t : State) (e : Bool) (h : SameUpTo off s t) :
    SameUpTo off (step c s e) (step c t e) := by
  unfold step
  rw [h.2.2.1]
  by_cases hd : t.drift = .drift
  · simp only [hd, if_true]; exact core_sameUpTo c off _ _ e (reset_sameUpTo off s t h.1)
  · simp only [hd, if_false]; exact core_sameUpTo c off _ _ e h

/-- the update after a drift establishes it against a freshly constructed detector -/
theorem first_after_drift (c : Cfg α) (s : State) (e : Bool) (h : s.drift = .drift) :
    SameUpTo s.total (step c s e) (step c init e) := by
  unfold step
  have hn : ¬ (init.drift = Drift.drift) := by simp [init]
  simp only [h, if_true, hn, if_false]
  apply core_sameUpTo
  simp only [reset, init, SameUpTo, shiftRecs_empty, and_self, and_true]
  omega

/-- **STEPD twin theorem** (state form).  After any state with a pending drift, for every non-empty
    continuation the running detector equals a fresh detector fed only the continuation: drift state,
    since-reset counter, the window and the two counters of correct predictions (hence the three
    accuracies and the test statistic); `total_samples` and the indices in `retraining_recs` are
    shifted by the number of samples seen before. -/
theorem twin (c : Cfg α) (s : State) (h : s.drift = .drift) (y : Bool) (ys : List Bool) :
    SameUpTo s.total ((y :: ys).foldl (step c) s) (run c (y :: ys)) := by
  unfold run
  exact run_related_after_first (step c) (step c) (fun s' t => s' = s ∧ t = init) (SameUpTo s.total)
    (fun s' t i ⟨hs, ht⟩ => by subst hs; subst ht; exact first_after_drift c s' i h)
    (fun s' t i hR => step_sameUpTo c _ s' t i hR) y ys s init ⟨rfl, rfl⟩

/-- the public accuracies agree whenever the states are related -/
theorem accuracies_sameUpTo (off : Nat) (s t : State) (h : SameUpTo off s t) :
    (recentAcc s : α) = recentAcc t ∧ (pastAcc s : α) = pastAcc t ∧ (overallAcc s : α) = overallAcc t := by
  obtain ⟨_, h2, _, h4, h5, h6, _⟩ := h
  simp only [recentAcc, pastAcc, overallAcc, h2, h4, h5, h6, and_self]

theorem run_total (c : Cfg α) (xs : List Bool) : (run c xs).total = xs.length :=
  (stepd_epoch c xs).total

/-- **STEPD twin theorem** (history form): every history `xs` that ends in a reported drift, every
    non-empty continuation. -/
theorem twin_history (c : Cfg α) (xs : List Bool) (h : (run c xs).drift = .drift) (y : Bool)
    (ys : List Bool) : SameUpTo xs.length (run c (xs ++ y :: ys)) (run c (y :: ys)) := by
  have := twin c (run c xs) h y ys
  rw [run_total] at this
  simpa [run, List.foldl_append] using this

/-- … position by position along a continuation -/
theorem twin_positions (c : Cfg α) (xs ys : List Bool) (h : (run c xs).drift = .drift) :
    ∀ k, 1 ≤ k → k ≤ ys.length →
      SameUpTo xs.length (run c (xs ++ ys.take k)) (run c (ys.take k)) := by
  intro k h1 h2
  cases hk : ys.take k with
  | nil =>
    simp at hk
    rcases hk with hk | hk
    · omega
    · subst hk; simp at h2; omega
  | cons y ys' => exact twin_history c xs h y ys'

/-- **Second, third, … drift** (see `DDM.twin_epochs`): every clause is an instance of
    `twin_history`, because the twin is an ordinary run. -/
theorem twin_epochs (c : Cfg α) (xs : List Bool) (h : (run c xs).drift = .drift) (y : Bool)
    (ys : List Bool) (h2 : (run c (xs ++ y :: ys)).drift = .drift) (z : Bool) (zs : List Bool) :
    (run c (y :: ys)).drift = .drift ∧
    SameUpTo xs.length (run c (xs ++ (y :: ys) ++ z :: zs)) (run c ((y :: ys) ++ z :: zs)) ∧
    SameUpTo (xs.length + (y :: ys).length) (run c (xs ++ (y :: ys) ++ z :: zs)) (run c (z :: zs)) ∧
    SameUpTo (y :: ys).length (run c ((y :: ys) ++ z :: zs)) (run c (z :: zs)) := by
  have e := (twin_history c xs h y ys).2.2.1
  have hd : (run c (y :: ys)).drift = .drift := e ▸ h2
  refine ⟨hd, ?_, ?_, twin_history c (y :: ys) hd z zs⟩
  · have := twin_history c xs h y (ys ++ z :: zs)
    simpa using this
  · have := twin_history c (xs ++ y :: ys) h2 z zs
    simpa using this

end anyCarrier

section examples
local instance : HasSqrt ℚ := ⟨fun x => x⟩
/-- non-vacuity: a history ending in a drift (update 6), and a continuation ending in a second
    drift (update 13) -/
example :
    (run (α := ℚ) ⟨2, 1/4, 3/2⟩ [false, false, false, false, false, true, true]).drift = .drift ∧
    (run (α := ℚ) ⟨2, 1/4, 3/2⟩ ([false, false, false, false, false, true, true] ++
      [true, false, false, false, false, true, true])).drift = .drift := by
  decide +kernel
end examples

end MV.STEPD

/-! ## PageHinkley: history form of `MV.PH.twin` (`Props/C02.lean`) joined with the rows of
    `PH.after_drift_fresh` (`Props/C04.lean`) -/
namespace MV.PH
open MV MV.Twin
section anyCarrier
variable {α : Type} [Add α] [Sub α] [Mul α] [Div α] [LT α] [DecidableLT α] [NatCast α]

theorem run_length (c : Cfg α) (xs : List α) : (run c xs).total = xs.length := by
  have := run_total c xs init
  simpa [runFrom, run, init] using this

/-- **PageHinkley twin theorem** (history form): after every history `xs` that ends in a reported
    drift, for every non-empty continuation the detector equals a fresh one fed only the continuation
    (`total_samples` shifted by `|xs|`), and the `to_dataframe()` rows appended along the
    continuation are the fresh detector's rows. -/
theorem twin_history (c : Cfg α) (xs : List α) (h : (run c xs).drift = .drift) (y : α) (ys : List α) :
    SameUpTo xs.length (run c (xs ++ y :: ys)) (run c (y :: ys)) ∧
    rowsFrom c (run c xs) (y :: ys) = rowsFrom c init (y :: ys) := by
  refine ⟨?_, (after_drift_fresh c xs h y ys).1⟩
  have := twin c (run c xs) h y ys
  rw [run_length] at this
  simpa [run, List.foldl_append] using this

/-- … position by position along a continuation -/
theorem twin_positions (c : Cfg α) (xs ys : List α) (h : (run c xs).drift = .drift) :
    ∀ k, 1 ≤ k → k ≤ ys.length →
      SameUpTo xs.length (run c (xs ++ ys.take k)) (run c (ys.take k)) := by
  intro k h1 h2
  cases hk : ys.take k with
  | nil =>
    simp at hk
    rcases hk with hk | hk
    · omega
    · subst hk; simp at h2; omega
  | cons y ys' => exact (twin_history c xs h y ys').1

/-- **Second, third, … drift** (see `DDM.twin_epochs`): every clause is an instance of
    `twin_history`, because the twin is an ordinary run. -/
theorem twin_epochs (c : Cfg α) (xs : List α) (h : (run c xs).drift = .drift) (y : α)
    (ys : List α) (h2 : (run c (xs ++ y :: ys)).drift = .drift) (z : α) (zs : List α) :
    (run c (y :: ys)).drift = .drift ∧
    SameUpTo xs.length (run c (xs ++ (y :: ys) ++ z :: zs)) (run c ((y :: ys) ++ z :: zs)) ∧
    SameUpTo (xs.length + (y :: ys).length) (run c (xs ++ (y :: ys) ++ z :: zs)) (run c (z :: zs)) ∧
    SameUpTo (y :: ys).length (run c ((y :: ys) ++ z :: zs)) (run c (z :: zs)) := by
  have e := (twin_history c xs h y ys).1.2.2.1
  have hd : (run c (y :: ys)).drift = .drift := e ▸ h2
  refine ⟨hd, ?_, ?_, (twin_history c (y :: ys) hd z zs).1⟩
  · have := (twin_history c xs h y (ys ++ z :: zs)).1
    simpa using this
  · have := (twin_history c (xs ++ y :: ys) h2 z zs).1
    simpa using this

end anyCarrier

/-- non-vacuity: a history ending in a drift, and a continuation ending in a second drift -/
example :
    (run (α := Int) { delta := 0, threshold := 0, burnIn := 0, dir := .positive } [5, 9]).drift = .drift ∧
    (run (α := Int) { delta := 0, threshold := 0, burnIn := 0, dir := .positive } ([5, 9] ++ [5, 9])).drift
      = .drift := by
  decide

end MV.PH

/-! ## CUSUM -/
namespace MV.Cusum
open MV MV.Twin
section anyCarrier
variable {α : Type} [Add α] [Sub α] [Mul α] [Div α] [LT α] [DecidableLT α] [NatCast α] [BEq α]
  [HasSqrt α]

/-- the documented carry-over: a fresh detector constructed with `target` / `sd_hat` = mean /
    population standard deviation of the last `burn_in` observations of the stream so far
    (`hist`, newest first) -/
def carry (c : Cfg α) (hist : List α) : Cfg α :=
  { c with target0 := some (mean (window c.burnIn hist)), sd0 := some (std (window c.burnIn hist)) }

/-- running state `s` equals fresh state `t`: everything `update` reads or publishes (since-reset
    counter, drift state, `target`, `sd_hat`, the two statistics, the observations of the current
    epoch — `EpochRel`), `total_samples` shifted by `off`, and the running detector's `_stream` is
    the twin's `_stream` on top of the observations `past` seen before. -/
structure TwinRel (b off : Nat) (past : List α) (s t : State α) : Prop where
  epoch : EpochRel b s t
  total : s.total = t.total + off
  hist : s.hist = t.hist ++ past

/-- **CUSUM twin theorem** (state form).  After any state with a pending drift, for every non-empty
    continuation: the running detector raises iff the fresh detector with the carried-over constants
    raises on the continuation alone, and otherwise both end in related states.
    (`burn_in = 0` is excluded: there `_stream[-0:]` is the whole stream, so the re-estimation reads
    every observation ever seen.) -/
theorem twin (c : Cfg α) (hb : 1 ≤ c.burnIn) (s : State α) (hd : s.drift = .drift) (y : α)
    (ys : List α) :
    OptRel (TwinRel c.burnIn s.total s.hist) (runFrom c s (y :: ys)) (run (carry c s.hist) (y :: ys)) := by
  have hrel : EpochRel c.burnIn (prep c s) (init (carry c s.hist)) := by
    unfold prep carry
    rw [if_pos hd]
    constructor <;> simp [init]
  have h1 := runFrom_epoch_only c hb (y :: ys) _ _ hrel
  have e : runFrom c (prep c s) (y :: ys) = runFrom c s (y :: ys) := by
    simp only [runFrom, step_prep]
  have e' : run (carry c s.hist) (y :: ys) = runFrom c (init (carry c s.hist)) (y :: ys) := by
    unfold run carry; rw [runFrom_cfg_consts]
  rw [e] at h1
  rw [e']
  cases hr : runFrom c s (y :: ys) with
  | none =>
    cases hr' : runFrom c (init (carry c s.hist)) (y :: ys) with
    | none => trivial
    | some t' => rw [hr, hr'] at h1; exact h1.elim
  | some s' =>
    cases hr' : runFrom c (init (carry c s.hist)) (y :: ys) with
    | none => rw [hr, hr'] at h1; exact h1.elim
    | some t' =>
      rw [hr, hr'] at h1
      have a := runFrom_hist c _ _ _ hr
      have b := runFrom_hist c _ _ _ hr'
      refine ⟨h1, ?_, ?_⟩
      · rw [a.2, b.2]; simp [init]; omega
      · rw [a.1, b.1]; simp [init]

/-- **CUSUM twin theorem** (history form; `Cusum.after_drift_fresh` of `Props/C04.lean` plus the
    counter shift): every history `xs` that ends in a reported drift, every non-empty continuation. -/
theorem twin_history (c : Cfg α) (hb : 1 ≤ c.burnIn) (xs : List α) (s : State α)
    (h : run c xs = some s) (hd : s.drift = .drift) (y : α) (ys : List α) :
    OptRel (TwinRel c.burnIn xs.length xs.reverse) (run c (xs ++ y :: ys))
      (run (carry c xs.reverse) (y :: ys)) := by
  obtain ⟨ht, hh, _⟩ := run_lifecycle c xs s h
  have := twin c hb s hd y ys
  rw [ht, hh] at this
  have e : run c (xs ++ y :: ys) = runFrom c s (y :: ys) := by
    unfold run at h ⊢
    rw [runFrom_append, h]; rfl
  rw [e]; exact this

/-- … position by position along a continuation -/
theorem twin_positions (c : Cfg α) (hb : 1 ≤ c.burnIn) (xs ys : List α) (s : State α)
    (h : run c xs = some s) (hd : s.drift = .drift) :
    ∀ k, 1 ≤ k → k ≤ ys.length →
      OptRel (TwinRel c.burnIn xs.length xs.reverse) (run c (xs ++ ys.take k))
        (run (carry c xs.reverse) (ys.take k)) := by
  intro k h1 h2
  cases hk : ys.take k with
  | nil =>
    simp at hk
    rcases hk with hk | hk
    · omega
    · subst hk; simp at h2; omega
  | cons y ys' => exact twin_history c hb xs s h hd y ys'

/-- **No observation older than the epoch is carried over**: when a history `ys` of a detector ends
    in a drift, the constants re-estimated then are the same whatever was observed before `ys`. -/
theorem carry_epoch_only (c c' : Cfg α) (hc : c'.burnIn = c.burnIn) (hb : 1 ≤ c.burnIn) (ys : List α)
    (t : State α) (h : run c' ys = some t) (hd : t.drift = .drift) (past : List α) :
    carry c (ys.reverse ++ past) = carry c ys.reverse := by
  obtain ⟨ht, _, hw⟩ := run_lifecycle c' ys t h
  have h1 := hw.past hd
  have h2 := hw.le
  have hlen : c.burnIn ≤ ys.reverse.length := by simp; omega
  have : window c.burnIn (ys.reverse ++ past) = window c.burnIn ys.reverse := by
    unfold window
    rw [if_neg (by omega), if_neg (by omega), List.take_append_of_le_length hlen]
  unfold carry
  rw [this]

/-- **Second, third, … drift.**  If the continuation `y :: ys` ends in a drift again, the twin
    reports it too; the constants carried over at that drift are computed from the second epoch alone;
    and afterwards the running detector and the first twin both continue like the *same* second
    fresh detector.  Every clause is an instance of `twin_history` (the twin is an ordinary run);
    no induction on the number of epochs is involved. -/
theorem twin_epochs (c : Cfg α) (hb : 1 ≤ c.burnIn) (xs : List α) (s : State α)
    (h : run c xs = some s) (hd : s.drift = .drift) (y : α) (ys : List α) (s2 : State α)
    (h2 : run c (xs ++ y :: ys) = some s2) (hd2 : s2.drift = .drift) (z : α) (zs : List α) :
    (∃ t2, run (carry c xs.reverse) (y :: ys) = some t2 ∧ t2.drift = .drift) ∧
    carry c (xs ++ y :: ys).reverse = carry c (y :: ys).reverse ∧
    OptRel (TwinRel c.burnIn (xs.length + (y :: ys).length) (xs ++ y :: ys).reverse)
      (run c (xs ++ (y :: ys) ++ z :: zs)) (run (carry c (y :: ys).reverse) (z :: zs)) ∧
    OptRel (TwinRel c.burnIn (y :: ys).length (y :: ys).reverse)
      (run (carry c xs.reverse) ((y :: ys) ++ z :: zs)) (run (carry c (y :: ys).reverse) (z :: zs)) := by
  have r := twin_history c hb xs s h hd y ys
  rw [h2] at r
  cases ht : run (carry c xs.reverse) (y :: ys) with
  | none => rw [ht] at r; exact r.elim
  | some t2 =>
    rw [ht] at r
    have hdt : t2.drift = .drift := r.epoch.drift ▸ hd2
    have hcarry : carry c (xs ++ y :: ys).reverse = carry c (y :: ys).reverse := by
      rw [List.reverse_append]
      exact carry_epoch_only c (carry c xs.reverse) rfl hb (y :: ys) t2 ht hdt xs.reverse
    refine ⟨⟨t2, rfl, hdt⟩, hcarry, ?_, ?_⟩
    · have := twin_history c hb (xs ++ y :: ys) s2 h2 hd2 z zs
      rw [hcarry] at this
      simpa using this
    · exact twin_history (carry c xs.reverse) hb (y :: ys) t2 ht hdt z zs

end anyCarrier
end MV.Cusum

namespace MV.Cusum
section examples
local instance : HasSqrt ℚ := ⟨fun x => x⟩
/-- non-vacuity: a history ending in a drift and a continuation ending in a second drift
    (`twin`, `twin_history`, `twin_epochs` have satisfiable hypotheses; `exKnown.burnIn = 2`) -/
example : (run exKnown [0, 0, 3]).map (·.drift) = some .drift ∧
    (run exKnown ([0, 0, 3] ++ [4, 4, 4])).map (·.drift) = some .drift ∧ 1 ≤ exKnown.burnIn := by
  decide +kernel
end examples
end MV.Cusum

/-! ## NNDVI -/
namespace MV.NNDVI
open MV MV.NNSP MV.Twin
section anyCarrier
variable {α : Type} [LT α] [DecidableLT α] [Add α] [Sub α] [Mul α] [Div α] [Neg α] [NatCast α] [HasSqrt α]

/-- one update: the batch, the k-NN graph of the pooled points, the permutations drawn -/
abbrev Op (α : Type) := List (Row α) × List (List Bool) × List (List Nat)

/-- what the updates of a history return (accepted or not, distance, threshold, validity of the
    supplied k-NN graph) -/
def outs (c : Cfg α) (s : State α) : List (Op α) → List (Out α)
  | [] => []
  | op :: ops => (step c s op.1 op.2.1 op.2.2).2 :: outs c (step c s op.1 op.2.1 op.2.2).1 ops

/-- running state `s` equals fresh state `t` up to the offset of `total_batches` -/
def SameUpTo (off : Nat) (s t : State α) : Prop :=
  s.total = t.total + off ∧ s.since = t.since ∧ s.drift = t.drift ∧ s.reference = t.reference

/-- the weaker relation that survives `set_reference` (which does not touch `batches_since_reset`) -/
def SameDecisions (off : Nat) (s t : State α) : Prop :=
  s.total = t.total + off ∧ s.drift = t.drift ∧ s.reference = t.reference

/-- the state `update` starts from -/
def pre (s : State α) : State α := if s.drift = .drift then reset s else s

theorem step_pre (c : Cfg α) (s : State α) (X : List (Row α)) (adj : List (List Bool))
    (perms : List (List Nat)) : step c (pre s) X adj perms = step c s X adj perms := by
  unfold pre
  by_cases hd : s.drift = .drift
  · rw [if_pos hd]; unfold step; simp [reset, hd]
  · rw [if_neg hd]

/-- equal inputs and equal draws: the relation is preserved and the update returns the same -/
theorem step_sameDecisions (c : Cfg α) (off : Nat) (s t : State α) (X : List (Row α))
    (adj : List (List Bool)) (perms : List (List Nat)) (h : SameDecisions off s t) :
    SameDecisions off (step c s X adj perms).1 (step c t X adj perms).1 ∧
    (step c s X adj perms).2 = (step c t X adj perms).2 := by
  obtain ⟨t1, t2, t3, t4⟩ := t
  obtain ⟨s1, s2, s3, s4⟩ := s
  obtain ⟨h1, h3, h4⟩ := h
  simp only at h1 h3 h4
  subst h1 h3 h4
  unfold step SameDecisions
  by_cases hd : s3 = .drift
  · simp only [hd, if_true, reset]
    cases s4 with
    | none => simp; omega
    | some ref =>
      simp only
      cases build c.k ref X adj with
      | none => simp; omega
      | some b => simp only; split <;> simp <;> omega
  · simp only [hd, if_false]
    cases s4 with
    | none => simp; omega
    | some ref =>
      simp only
      cases build c.k ref X adj with
      | none => simp; omega
      | some b => simp only; split <;> simp <;> omega

theorem step_sameUpTo (c : Cfg α) (off : Nat) (s t : State α) (X : List (Row α))
    (adj : List (List Bool)) (perms : List (List Nat)) (h : SameUpTo off s t) :
    SameUpTo off (step c s X adj perms).1 (step c t X adj perms).1 ∧
    (step c s X adj perms).2 = (step c t X adj perms).2 := by
  obtain ⟨⟨a1, a2, a3⟩, a4⟩ := step_sameDecisions c off s t X adj perms ⟨h.1, h.2.2.1, h.2.2.2⟩
  refine ⟨⟨a1, ?_, a2, a3⟩, a4⟩
  rw [(step_counters c s X adj perms).2, (step_counters c t X adj perms).2, h.2.1, h.2.2.1]

theorem run_sameDecisions (c : Cfg α) (off : Nat) (ops : List (Op α)) (s t : State α)
    (h : SameDecisions off s t) :
    SameDecisions off (run c s ops) (run c t ops) ∧ outs c s ops = outs c t ops ∧
    flags c s ops = flags c t ops := by
  induction ops generalizing s t with
  | nil => exact ⟨h, rfl, rfl⟩
  | cons op ops ih =>
    obtain ⟨h1, h2⟩ := step_sameDecisions c off s t op.1 op.2.1 op.2.2 h
    obtain ⟨i1, i2, i3⟩ := ih _ _ h1
    refine ⟨by simpa only [run] using i1, by simp only [outs, h2, i2], ?_⟩
    simp only [flags, h1.2.1, i3]

theorem run_sameUpTo (c : Cfg α) (off : Nat) (ops : List (Op α)) (s t : State α)
    (h : SameUpTo off s t) :
    SameUpTo off (run c s ops) (run c t ops) ∧ outs c s ops = outs c t ops ∧
    flags c s ops = flags c t ops := by
  induction ops generalizing s t with
  | nil => exact ⟨h, rfl, rfl⟩
  | cons op ops ih =>
    obtain ⟨h1, h2⟩ := step_sameUpTo c off s t op.1 op.2.1 op.2.2 h
    obtain ⟨i1, i2, i3⟩ := ih _ _ h1
    refine ⟨by simpa only [run] using i1, by simp only [outs, h2, i2], ?_⟩
    simp only [flags, h1.2.2.1, i3]

theorem run_pre (c : Cfg α) (s : State α) (op : Op α) (ops : List (Op α)) :
    run c (pre s) (op :: ops) = run c s (op :: ops) ∧ outs c (pre s) (op :: ops) = outs c s (op :: ops) ∧
    flags c (pre s) (op :: ops) = flags c s (op :: ops) := by
  simp only [run, outs, flags, step_pre, and_self]

/-- **NNDVI twin theorem** (state form).  After any state with a pending drift — its reference `B`
    is then the drifted batch, see `drift_reference` — for every non-empty continuation (batches,
    k-NN graphs, draws) the running detector equals a fresh detector on which `set_reference(B)` was
    called and which is fed only the continuation with the same draws: every update returns the same
    (accepted / rejected, distance, threshold), and drift state, `batches_since_reset` and reference
    batch are equal; `total_batches` is shifted by the number of batches seen before. -/
theorem twin (c : Cfg α) (s : State α) (hd : s.drift = .drift) (B : List (Row α))
    (hr : s.reference = some B) (op : Op α) (ops : List (Op α)) :
    SameUpTo s.total (run c s (op :: ops)) (run c (setReference init B) (op :: ops)) ∧
    outs c s (op :: ops) = outs c (setReference init B) (op :: ops) ∧
    flags c s (op :: ops) = flags c (setReference init B) (op :: ops) := by
  have h0 : SameUpTo s.total (pre s) (setReference init B) := by
    simp [pre, hd, reset, setReference, init, SameUpTo, hr]
  obtain ⟨e1, e2, e3⟩ := run_pre c s op ops
  rw [← e1, ← e2, ← e3]
  exact run_sameUpTo c _ (op :: ops) _ _ h0

/-- a reported drift makes the batch just seen the reference (whatever the state before) -/
theorem drift_reference (c : Cfg α) (s : State α) (X : List (Row α)) (adj : List (List Bool))
    (perms : List (List Nat)) (h : (step c s X adj perms).1.drift = .drift) :
    (step c s X adj perms).1.reference = some X := by
  rw [← step_pre] at h ⊢
  have hp : (pre s).drift ≠ .drift := by unfold pre; split <;> simp_all [reset]
  generalize pre s = s0 at h hp ⊢
  unfold step at h ⊢
  rw [if_neg hp] at h ⊢
  simp only at h ⊢
  cases hs : s0.reference with
  | none => simp [hs] at h; exact absurd h hp
  | some ref =>
    simp only [hs] at h ⊢
    cases hb : build c.k ref X adj with
    | none => simp [hb] at h; exact absurd h hp
    | some b =>
      simp only [hb] at h ⊢
      split
      · rfl
      · rename_i hx; simp [hx] at h; exact absurd h hp

theorem run_append (c : Cfg α) (s : State α) (ops ops' : List (Op α)) :
    run c s (ops ++ ops') = run c (run c s ops) ops' := by
  induction ops generalizing s with
  | nil => rfl
  | cons op ops ih => simp only [List.cons_append, run, ih]

theorem outs_append (c : Cfg α) (s : State α) (ops ops' : List (Op α)) :
    outs c s (ops ++ ops') = outs c s ops ++ outs c (run c s ops) ops' := by
  induction ops generalizing s with
  | nil => rfl
  | cons op ops ih => simp only [List.cons_append, run, outs, ih]

/-- **NNDVI twin theorem** (history form): every start state `s0` (typically
    `setReference init R`), every history `ops` followed by an update on `X` that reports drift, every
    non-empty continuation: the running detector equals the fresh detector with reference `X`. -/
theorem twin_history (c : Cfg α) (s0 : State α) (ops : List (Op α)) (X : List (Row α))
    (adj : List (List Bool)) (perms : List (List Nat))
    (h : (run c s0 (ops ++ [(X, adj, perms)])).drift = .drift) (op : Op α) (ops' : List (Op α)) :
    SameUpTo (s0.total + ops.length + 1) (run c s0 (ops ++ [(X, adj, perms)] ++ op :: ops'))
      (run c (setReference init X) (op :: ops')) ∧
    outs c s0 (ops ++ [(X, adj, perms)] ++ op :: ops') =
      outs c s0 (ops ++ [(X, adj, perms)]) ++ outs c (setReference init X) (op :: ops') := by
  have hr : (run c s0 (ops ++ [(X, adj, perms)])).reference = some X := by
    rw [run_append] at h ⊢
    exact drift_reference c _ X adj perms h
  have ht : (run c s0 (ops ++ [(X, adj, perms)])).total = s0.total + ops.length + 1 := by
    rw [run_total]; simp; omega
  obtain ⟨t1, t2, _⟩ := twin c _ h X hr op ops'
  rw [ht] at t1
  exact ⟨by rw [run_append]; exact t1, by rw [outs_append, t2]⟩

/-- the state is only ever `none` or `drift`, along every history -/
theorem run_state_range (c : Cfg α) (s : State α) (hs : s.drift ≠ .warning) (ops : List (Op α)) :
    (run c s ops).drift ≠ .warning := by
  induction ops generalizing s with
  | nil => exact hs
  | cons op ops ih => exact ih _ (step_state_range c s _ _ _ hs)

/-- **`set_reference` twin theorem.**  At any time (any state NNDVI can be in, pending drift or not)
    `set_reference(B)` makes all later decisions those of a fresh detector started on `B`: for
    every non-empty continuation with the same draws, every update returns the same (accepted /
    rejected, distance, threshold), the drift flags are the same, and drift state and reference
    batch agree after it; `total_batches` is shifted.  (`batches_since_reset` is not part of the
    relation: `set_reference` does not reset it.  From the next drift on it is — `twin`.) -/
theorem setReference_twin (c : Cfg α) (s : State α) (hw : s.drift ≠ .warning) (B : List (Row α))
    (op : Op α) (ops : List (Op α)) :
    SameDecisions s.total (run c (setReference s B) (op :: ops)) (run c (setReference init B) (op :: ops)) ∧
    outs c (setReference s B) (op :: ops) = outs c (setReference init B) (op :: ops) ∧
    flags c (setReference s B) (op :: ops) = flags c (setReference init B) (op :: ops) := by
  have h0 : SameDecisions s.total (pre (setReference s B)) (setReference init B) := by
    unfold pre
    cases hd : s.drift with
    | none => simp [hd, setReference, init, SameDecisions]
    | warning => exact absurd hd hw
    | drift => simp [hd, reset, setReference, init, SameDecisions]
  obtain ⟨e1, e2, e3⟩ := run_pre c (setReference s B) op ops
  rw [← e1, ← e2, ← e3]
  exact run_sameDecisions c _ (op :: ops) _ _ h0

/-- … in particular after any history `ops` from any legal start -/
theorem setReference_twin_history (c : Cfg α) (s0 : State α) (hw : s0.drift ≠ .warning)
    (ops : List (Op α)) (B : List (Row α)) (op : Op α) (ops' : List (Op α)) :
    SameDecisions (s0.total + ops.length) (run c (setReference (run c s0 ops) B) (op :: ops'))
      (run c (setReference init B) (op :: ops')) ∧
    outs c (setReference (run c s0 ops) B) (op :: ops') = outs c (setReference init B) (op :: ops') ∧
    flags c (setReference (run c s0 ops) B) (op :: ops') = flags c (setReference init B) (op :: ops') := by
  have := setReference_twin c (run c s0 ops) (run_state_range c s0 hw ops) B op ops'
  rw [run_total] at this
  exact this

/-- **Second, third, … drift**: when the continuation ends in a drift again (on batch `X'`) the twin
    reports it too, and from then on the running detector and the first twin both equal the fresh
    detector with reference `X'` — instances of `twin_history`, the twin being an ordinary run. -/
theorem twin_epochs (c : Cfg α) (s0 : State α) (ops : List (Op α)) (X : List (Row α))
    (adj : List (List Bool)) (perms : List (List Nat))
    (h : (run c s0 (ops ++ [(X, adj, perms)])).drift = .drift)
    (ops1 : List (Op α)) (X' : List (Row α)) (adj' : List (List Bool)) (perms' : List (List Nat))
    (h2 : (run c s0 (ops ++ [(X, adj, perms)] ++ (ops1 ++ [(X', adj', perms')]))).drift = .drift)
    (op : Op α) (ops2 : List (Op α)) :
    (run c (setReference init X) (ops1 ++ [(X', adj', perms')])).drift = .drift ∧
    SameUpTo (s0.total + (ops ++ [(X, adj, perms)] ++ ops1).length + 1)
      (run c s0 (ops ++ [(X, adj, perms)] ++ ops1 ++ [(X', adj', perms')] ++ op :: ops2))
      (run c (setReference init X') (op :: ops2)) ∧
    SameUpTo (ops1.length + 1)
      (run c (setReference init X) (ops1 ++ [(X', adj', perms')] ++ op :: ops2))
      (run c (setReference init X') (op :: ops2)) := by
  have hne : ops1 ++ [(X', adj', perms')] ≠ [] := by simp
  obtain ⟨o, os, ho⟩ := List.exists_cons_of_ne_nil hne
  have r := (twin_history c s0 ops X adj perms h o os).1
  rw [← ho] at r
  have hd : (run c (setReference init X) (ops1 ++ [(X', adj', perms')])).drift = .drift :=
    r.2.2.1 ▸ h2
  refine ⟨hd, ?_, ?_⟩
  · have h2' : (run c s0 ((ops ++ [(X, adj, perms)] ++ ops1) ++ [(X', adj', perms')])).drift = .drift := by
      simpa [List.append_assoc] using h2
    exact (twin_history c s0 _ X' adj' perms' h2' op ops2).1
  · have := (twin_history c (setReference init X) ops1 X' adj' perms' hd op ops2).1
    simpa [setReference, init] using this

end anyCarrier

/- non-vacuity, at ℚ with a stand-in square root (the demo of `Props/C10.lean`): from reference
   {0,1} the batch {2,3} is reported as drift, so `twin` / `twin_history` apply to this state, and
   `setReference_twin` to any state, e.g. this one -/
section Demo
local instance : HasSqrt ℚ := ⟨fun x => x⟩
example :
    (run demoCfg demoState [([[2], [3]], demoAdj, [[0, 1, 2, 3], [0, 2, 1, 3]])]).drift = .drift ∧
    (run demoCfg demoState [([[2], [3]], demoAdj, [[0, 1, 2, 3], [0, 2, 1, 3]])]).reference = some [[2], [3]] ∧
    demoState.drift ≠ .warning := by
  decide +kernel
end Demo

end MV.NNDVI
