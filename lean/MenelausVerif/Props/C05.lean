/-
  C05 — DDM, EDDM and STEPD decide from the error sequence exactly as specified.

  The executable specification of each method is its model (`Model/DDM.lean`,
  `Model/EDDM.lean`, `Model/STEPD.lean`; tied to the code by `harness/checks/c05.py`).
  This file proves what that specification *means*, for every history of
  correct / incorrect predictions, every configuration and across epochs:

  * for every numeric carrier (so also for the executed `Float` instance):
    the counters (`total_samples`, `samples_since_reset`, where the epoch starts),
    the decision tables (state after an update exactly by the documented
    comparisons and guards), the guards on whole histories, and the semantics of
    `retraining_recs` (`*_recs_semantics`);
  * over ordered fields: DDM's running error rate is errors / n of the epoch,
    its stored minimum pair is a minimiser of p + s over the tested positions of the
    epoch; EDDM's running mean distance telescopes to (index of the latest error) /
    (number of errors); STEPD's counters are the numbers of correct predictions
    inside / before the most recent window of the epoch (Nat-valued, no carrier).

  Inputs the real code rejects: STEPD `window_size = 0` (ZeroDivisionError).
-/
import MenelausVerif.Model.DDM
import MenelausVerif.Model.EDDM
import MenelausVerif.Model.STEPD
import MenelausVerif.Lemmas.ErrTrace
import Mathlib.Tactic.Ring
import Mathlib.Tactic.FieldSimp
import Mathlib.Tactic.LinearCombination
import Mathlib.Algebra.Order.Field.Basic
import Mathlib.Algebra.Order.Field.Rat

namespace MV
open MV.ErrTrace

/-! ## DDM -/
namespace DDM
section anyCarrier
variable {α : Type} [Add α] [Sub α] [Mul α] [Div α] [LE α] [DecidableLE α] [NatCast α] [HasSqrt α]

/-- the public observables `drift_state`, `total_samples`, `samples_since_reset`, `retraining_recs` -/
def obs : Obs (State α) := ⟨State.drift, State.total, State.since, State.recs⟩

/-- the state in which an update computes: `reset()` first when the previous update reported drift -/
def pre (s : State α) : State α := if s.drift = .drift then reset s else s

theorem run_eq (c : Cfg α) (xs : List Bool) : run c xs = ErrTrace.run (step c) init xs := rfl

theorem run_snoc (c : Cfg α) (xs : List Bool) (e : Bool) : run c (xs ++ [e]) = step c (run c xs) e := by
  simp [run, List.foldl_append]

theorem counters (c : Cfg α) : Counters (step c) init (obs (α := α)) := by
  refine ⟨rfl, rfl, rfl, rfl, ?_, ?_⟩ <;> intro s x <;> simp only [obs, step, core, reset] <;> grind

/-- step invariant used for the `retraining_recs` rule -/
def Inv (s : State α) : Prop := s.drift = .warning → s.recs.1 ≠ none

theorem firstRule (c : Cfg α) : FirstRule (step c) init (obs (α := α)) Inv := by
  refine ⟨by simp [Inv, init], ?_, ?_⟩
  · intro s x hI
    simp only [Inv, step, core, reset, incRecsFirst] at *
    grind
  · intro s x hI
    simp only [Inv, obs, step, core, reset, incRecsFirst, Recs.empty] at *
    grind

/-- **Counters and epochs (every carrier).**  After any history `xs`:
    `total_samples = |xs|`; the last `samples_since_reset` updates are the current
    epoch, which starts right after the latest earlier drift and contains no drift
    before its last position. -/
theorem ddm_epoch (c : Cfg α) (xs : List Bool) : EpochSem (step c) init (obs (α := α)) xs :=
  epochSem _ _ _ (counters c) xs

/-- **`retraining_recs` (every carrier).**  After any history, `recs[0]` is the index of
    the first update of the current epoch that left the detector in `warning` or
    `drift` (`None` if there was none — so it is the drift index when no warning
    preceded the drift) and `recs[1]` is set exactly while the state is `drift`, to
    that update's index.  Both are cleared by the update after the drift (it opens
    a new epoch). -/
theorem ddm_recs_semantics (c : Cfg α) (xs : List Bool) : FirstSem (step c) init (obs (α := α)) xs :=
  firstSem _ _ _ (counters c) (firstRule c) xs

/-- the same as an equivalence: `recs[0] = i` iff `i` is the first alarmed index of the epoch -/
theorem ddm_recs_first_iff (c : Cfg α) (xs : List Bool) (i : Nat) :
    (run c xs).recs.1 = some i ↔
      (xs.length - (run c xs).since ≤ i ∧ i < xs.length ∧ stateAt (step c) init obs xs i ≠ .none ∧
       ∀ j, xs.length - (run c xs).since ≤ j → j < i → stateAt (step c) init obs xs j = .none) :=
  (ddm_recs_semantics c xs).iff _ _ _ i

/-- **Statistics of one update (every carrier)**: the running error rate and the
    running "std" recurrence, computed from the state after the optional reset. -/
theorem ddm_step_stats (c : Cfg α) (s : State α) (e : Bool) :
    (step c s e).since = (pre s).since + 1 ∧
    (step c s e).rate = newRate (pre s).rate (bit e) ((pre s).since + 1) ∧
    (step c s e).std = newStd (pre s).std (pre s).rate (step c s e).rate (bit e) ((pre s).since + 1) := by
  simp only [step, core, pre]; grind

/-- **Decision table, burn-in row (every carrier)**: while the epoch has fewer than
    `n_threshold` samples nothing but the statistics changes. -/
theorem ddm_step_burnin (c : Cfg α) (s : State α) (e : Bool) (h : (pre s).since + 1 < c.nThreshold) :
    (step c s e).drift = (pre s).drift ∧ (step c s e).mins = (pre s).mins ∧
    (step c s e).recs = (pre s).recs := by
  simp only [step, core, pre] at *; grind

/-- **Decision table, tested rows (every carrier)**: from `n_threshold` samples on, the
    minimum pair is updated when `p + s <= p_min + s_min` (always the first time),
    and the state is `drift` / `warning` / `None` exactly by
    `p + s >= p_min + drift_scale * s`, else `p + s >= p_min + warning_scale * s`. -/
theorem ddm_step_tested (c : Cfg α) (s : State α) (e : Bool) (h : c.nThreshold ≤ (pre s).since + 1) :
    ∃ pm sm, (step c s e).mins = some (pm, sm) ∧
      (pm, sm) = newMins (pre s).mins (step c s e).rate (step c s e).std ∧
      ((step c s e).drift = .drift ↔
        pm + c.driftScale * (step c s e).std ≤ (step c s e).rate + (step c s e).std) ∧
      ((step c s e).drift = .warning ↔
        ¬ pm + c.driftScale * (step c s e).std ≤ (step c s e).rate + (step c s e).std ∧
        pm + c.warningScale * (step c s e).std ≤ (step c s e).rate + (step c s e).std) ∧
      ((step c s e).drift = .none ↔
        ¬ pm + c.driftScale * (step c s e).std ≤ (step c s e).rate + (step c s e).std ∧
        ¬ pm + c.warningScale * (step c s e).std ≤ (step c s e).rate + (step c s e).std) ∧
      (step c s e).recs = incRecsFirst (step c s e).drift s.total (pre s).recs := by
  have hn : ¬ (pre s).since + 1 < c.nThreshold := by omega
  refine ⟨(newMins (pre s).mins (step c s e).rate (step c s e).std).1,
          (newMins (pre s).mins (step c s e).rate (step c s e).std).2, ?_⟩
  simp only [step, core, pre, decide3] at *
  simp only [hn, if_false]
  refine ⟨trivial, trivial, ?_, ?_, ?_, ?_⟩ <;> grind [reset]

omit [Sub α] [Mul α] [Div α] [NatCast α] [HasSqrt α] in
/-- the minimum tracking rule spelled out -/
theorem ddm_newMins (mins : Option (α × α)) (rate std : α) :
    newMins mins rate std =
      match mins with
      | none => (rate, std)
      | some (pm, sm) => if rate + std ≤ pm + sm then (rate, std) else (pm, sm) := rfl

/-- **Guard on whole histories (every carrier)**: while the current epoch has fewer than
    `n_threshold` samples the state is `None`, `retraining_recs = [None, None]` and
    no minimum has been recorded. -/
theorem ddm_quiet_before_threshold (c : Cfg α) (xs : List Bool) :
    (run c xs).since < c.nThreshold →
      (run c xs).drift = .none ∧ (run c xs).recs = Recs.empty ∧ (run c xs).mins = none := by
  induction xs using snoc_induction with
  | nil => intro _; exact ⟨rfl, rfl, rfl⟩
  | snoc xs x ih =>
    rw [run_snoc]
    intro h
    simp only [step, core, reset] at *
    grind

end anyCarrier
section field
variable {K : Type} [Field K] [LinearOrder K] [IsStrictOrderedRing K] [HasSqrt K]

omit [IsStrictOrderedRing K] in
@[simp] theorem erun (c : Cfg K) (xs : List Bool) : ErrTrace.run (step c) init xs = run c xs := rfl

omit [LinearOrder K] [IsStrictOrderedRing K] [HasSqrt K] in
theorem bit_eq (e : Bool) : (([e].count true : Nat) : K) = bit e := by
  cases e <;> simp [bit]

/-- **DDM's running error rate is the error fraction of the epoch (ordered fields).**
    `rate * n = number of errors among the n samples of the current epoch`, for every
    history, every configuration, in every epoch (whatever `sqrt` is). -/
theorem ddm_rate_mul (c : Cfg K) (xs : List Bool) :
    (run c xs).rate * ((run c xs).since : K) = (((epoch (step c) init obs xs).count true : Nat) : K) := by
  induction xs using snoc_induction with
  | nil => simp [run, init, epoch]
  | snoc xs x ih =>
    have hst := ddm_step_stats c (run c xs) x
    rw [epoch_snoc _ _ _ (counters c), run_snoc, hst.2.1, hst.1]
    have hne : (((pre (run c xs)).since : Nat) : K) + 1 ≠ 0 := Nat.cast_add_one_ne_zero _
    unfold newRate
    simp only [List.count_append, Nat.cast_add, bit_eq, Nat.cast_one]
    by_cases hd : (run c xs).drift = .drift
    · simp only [erun, obs, hd, if_true, pre, reset, zero]
      field_simp
      simp
    · simp only [erun, obs, hd, if_false, pre] at ih hne ⊢
      rw [← ih]
      field_simp
      ring

/-- `error_rate = errors / n` (ordered fields), after at least one update -/
theorem ddm_rate (c : Cfg K) (xs : List Bool) (h : xs ≠ []) :
    (run c xs).rate = (((epoch (step c) init obs xs).count true : Nat) : K) / ((run c xs).since : K) := by
  have h1 := (ddm_epoch c xs).since_pos h
  have hne : (((run c xs).since : Nat) : K) ≠ 0 := by
    simp only [erun, obs] at h1
    exact Nat.cast_ne_zero.mpr (by omega)
  rw [← ddm_rate_mul c xs]
  field_simp

end field

section order
variable {K : Type} [Field K] [LinearOrder K] [IsStrictOrderedRing K] [HasSqrt K]

/-- running estimates after update `j` of the history -/
def rateAt (c : Cfg K) (xs : List Bool) (j : Nat) : K := (run c (xs.take (j + 1))).rate
def stdAt (c : Cfg K) (xs : List Bool) (j : Nat) : K := (run c (xs.take (j + 1))).std

/-- `j` is a tested position of an epoch that consists of the last `since` of `n` updates:
    it lies in the epoch and is at least its `n_threshold`-th sample -/
def TestedAt (c : Cfg K) (n since j : Nat) : Prop :=
  n - since ≤ j ∧ j < n ∧ c.nThreshold ≤ j + 1 - (n - since)

/-- what the stored minimum pair means after the history `xs` -/
structure MinSem (c : Cfg K) (xs : List Bool) : Prop where
  quiet : (run c xs).since < c.nThreshold → (run c xs).mins = none
  tested : c.nThreshold ≤ (run c xs).since → xs ≠ [] → ∃ pm sm, (run c xs).mins = some (pm, sm) ∧
    (∀ j, TestedAt c xs.length (run c xs).since j → pm + sm ≤ rateAt c xs j + stdAt c xs j) ∧
    (∃ t, TestedAt c xs.length (run c xs).since t ∧ pm = rateAt c xs t ∧ sm = stdAt c xs t)

omit [IsStrictOrderedRing K] in
theorem MinSem.of {c : Cfg K} {xs : List Bool} (s : State K) (n : Nat) (hs : run c xs = s) (hn : xs.length = n)
    (quiet : s.since < c.nThreshold → s.mins = none)
    (tested : c.nThreshold ≤ s.since → xs ≠ [] → ∃ pm sm, s.mins = some (pm, sm) ∧
      (∀ j, TestedAt c n s.since j → pm + sm ≤ rateAt c xs j + stdAt c xs j) ∧
      (∃ t, TestedAt c n s.since t ∧ pm = rateAt c xs t ∧ sm = stdAt c xs t)) : MinSem c xs := by
  subst hs hn; exact ⟨quiet, tested⟩

omit [IsStrictOrderedRing K] in
theorem at_snoc_lt (c : Cfg K) {xs : List Bool} {x : Bool} {j : Nat} (h : j < xs.length) :
    rateAt c (xs ++ [x]) j = rateAt c xs j ∧ stdAt c (xs ++ [x]) j = stdAt c xs j := by
  unfold rateAt stdAt
  rw [List.take_append_of_le_length (by omega)]
  exact ⟨rfl, rfl⟩

omit [IsStrictOrderedRing K] in
theorem at_snoc_eq (c : Cfg K) (xs : List Bool) (x : Bool) :
    rateAt c (xs ++ [x]) xs.length = (step c (run c xs) x).rate ∧
    stdAt c (xs ++ [x]) xs.length = (step c (run c xs) x).std := by
  unfold rateAt stdAt
  rw [List.take_of_length_le (by simp), run_snoc]
  exact ⟨rfl, rfl⟩

omit [HasSqrt K] in
theorem newMins_le (m : Option (K × K)) (r s : K) :
    (newMins m r s).1 + (newMins m r s).2 ≤ r + s ∧
    (∀ pm sm, m = some (pm, sm) → (newMins m r s).1 + (newMins m r s).2 ≤ pm + sm) ∧
    (newMins m r s = (r, s) ∨ ∃ pm sm, m = some (pm, sm) ∧ newMins m r s = (pm, sm)) := by
  unfold newMins
  cases m with
  | none => simp
  | some p =>
    obtain ⟨pm, sm⟩ := p
    by_cases h : r + s ≤ pm + sm
    · simp [h]
    · simp only [h, if_false]
      refine ⟨le_of_lt (not_le.mp h), ?_, Or.inr ⟨pm, sm, rfl, rfl⟩⟩
      intro a b hab; cases hab; exact le_refl _

/-- **DDM's minimum tracking (ordered fields).**  After any history whose current epoch has
    reached `n_threshold` samples, the stored pair `(p_min, s_min)` is the pair
    `(p_t, s_t)` of some tested position `t` of the epoch, and `p_min + s_min` is a lower
    bound of `p_j + s_j` over all tested positions `j` of the epoch: it is a minimiser of
    `p + s`.  Before `n_threshold` samples nothing is stored. -/
theorem ddm_min (c : Cfg K) (xs : List Bool) : MinSem c xs := by
  induction xs using snoc_induction with
  | nil =>
    refine ⟨fun _ => rfl, fun _ h => absurd rfl h⟩
  | snoc xs x ih =>
    have E := ddm_epoch c xs
    have hle : (run c xs).since ≤ xs.length := E.since_le
    have hlen : (xs ++ [x]).length = xs.length + 1 := by simp
    have hs : (step c (run c xs) x).since = (pre (run c xs)).since + 1 := (ddm_step_stats c (run c xs) x).1
    obtain ⟨hre, hse⟩ := at_snoc_eq c xs x
    have hpl : (pre (run c xs)).since ≤ xs.length := by
      unfold pre; split
      · simp [reset]
      · exact hle
    refine MinSem.of (step c (run c xs) x) (xs.length + 1) (run_snoc c xs x) hlen ?_ ?_
    · -- fewer than n_threshold samples in the epoch
      intro h
      rw [hs] at h
      obtain ⟨-, hm, -⟩ := ddm_step_burnin c (run c xs) x h
      rw [hm]
      by_cases hd : (run c xs).drift = .drift
      · simp [pre, hd, reset]
      · have hp : pre (run c xs) = run c xs := by simp [pre, hd]
        rw [hp] at h ⊢
        exact ih.quiet (by omega)
    · intro h _
      rw [hs] at h
      obtain ⟨pm, sm, hm, hnew, -⟩ := ddm_step_tested c (run c xs) x h
      obtain ⟨n1, n2, n3⟩ := newMins_le (pre (run c xs)).mins (step c (run c xs) x).rate (step c (run c xs) x).std
      rw [← hnew] at n1 n2 n3
      simp only [] at n1 n2
      refine ⟨pm, sm, hm, ?_, ?_⟩
      · intro j ⟨j1, j2, j3⟩
        rw [hs] at j1 j3
        by_cases hj : j < xs.length
        · -- an earlier tested position: only possible when no reset happened
          obtain ⟨e1, e2⟩ := at_snoc_lt c (x := x) hj
          rw [e1, e2]
          by_cases hd : (run c xs).drift = .drift
          · exfalso; simp [pre, hd, reset] at j1; omega
          · have hp : pre (run c xs) = run c xs := by simp [pre, hd]
            rw [hp] at j1 j3 n2
            have hT : TestedAt c xs.length (run c xs).since j := ⟨by omega, hj, by omega⟩
            have hne : xs ≠ [] := by intro he; subst he; simp at hj
            obtain ⟨pm0, sm0, hm0, lb0, -⟩ := ih.tested (by omega) hne
            exact le_trans (n2 pm0 sm0 hm0) (lb0 j hT)
        · have : j = xs.length := by omega
          subst this; rw [hre, hse]; exact n1
      · rcases n3 with h3 | ⟨pm0, sm0, hm0, h3⟩
        · refine ⟨xs.length, ⟨by rw [hs]; omega, by omega, by rw [hs]; omega⟩, ?_, ?_⟩
          · rw [hre]; exact congrArg Prod.fst h3
          · rw [hse]; exact congrArg Prod.snd h3
        · -- the old pair survives: it was attained at an earlier tested position of this epoch
          have hd : ¬ (run c xs).drift = .drift := by
            intro hd; simp [pre, hd, reset] at hm0
          have hp : pre (run c xs) = run c xs := by simp [pre, hd]
          rw [hp] at hm0 h
          have hge : c.nThreshold ≤ (run c xs).since := by
            rcases Nat.lt_or_ge (run c xs).since c.nThreshold with hlt | hge
            · rw [ih.quiet hlt] at hm0; cases hm0
            · exact hge
          have hne : xs ≠ [] := by
            intro he; subst he; simp [run, init] at hm0
          obtain ⟨pm1, sm1, hm1, -, t, ⟨t1, t2, t3⟩, a1, a2⟩ := ih.tested hge hne
          rw [hm0] at hm1
          obtain ⟨e1, e2⟩ := at_snoc_lt c (x := x) t2
          have epm : pm = pm1 := by have := congrArg Prod.fst h3; simp at this; rw [this]; injection hm1 with h'; exact congrArg Prod.fst h'
          have esm : sm = sm1 := by have := congrArg Prod.snd h3; simp at this; rw [this]; injection hm1 with h'; exact congrArg Prod.snd h'
          refine ⟨t, ⟨by rw [hs, hp]; omega, by omega, by rw [hs, hp]; omega⟩, ?_, ?_⟩
          · rw [e1, epm]; exact a1
          · rw [e2, esm]; exact a2

end order

end DDM

/-! ## EDDM -/
namespace EDDM
section anyCarrier
variable {α : Type} [Add α] [Sub α] [Mul α] [Div α] [LT α] [DecidableLT α] [LE α] [DecidableLE α]
  [NatCast α] [HasSqrt α]

def obs : Obs (State α) := ⟨State.drift, State.total, State.since, State.recs⟩

/-- the state in which an update computes: `reset()` first when the previous update reported drift -/
def pre (s : State α) : State α := if s.drift = .drift then reset s else s

theorem run_eq (c : Cfg α) (xs : List Bool) : run c xs = ErrTrace.run (step c) init xs := rfl

theorem run_snoc (c : Cfg α) (xs : List Bool) (e : Bool) : run c (xs ++ [e]) = step c (run c xs) e := by
  simp [run, List.foldl_append]

theorem step_eq (c : Cfg α) (s : State α) (e : Bool) : step c s e = core c (pre s) e := rfl

theorem counters (c : Cfg α) : Counters (step c) init (obs (α := α)) := by
  refine ⟨rfl, rfl, rfl, rfl, ?_, ?_⟩ <;> intro s x <;> simp only [obs, step, core, reset] <;> grind

def Inv (s : State α) : Prop := s.drift = .warning → s.recs.1 ≠ none

theorem firstRule (c : Cfg α) : FirstRule (step c) init (obs (α := α)) Inv := by
  refine ⟨by simp [Inv, init], ?_, ?_⟩
  · intro s x hI
    simp only [Inv, step, core, reset, incRecsFirst] at *
    grind
  · intro s x hI
    simp only [Inv, obs, step, core, reset, incRecsFirst, Recs.empty] at *
    grind

/-- **Counters and epochs (every carrier)**, as for DDM. -/
theorem eddm_epoch (c : Cfg α) (xs : List Bool) : EpochSem (step c) init (obs (α := α)) xs :=
  epochSem _ _ _ (counters c) xs

/-- **`retraining_recs` (every carrier)**: `recs[0]` = index of the first update of the
    current epoch that left the detector in `warning` or `drift` (so the drift index
    when no warning preceded), `recs[1]` = the drift index, set exactly while the
    state is `drift`; both cleared by the next update. -/
theorem eddm_recs_semantics (c : Cfg α) (xs : List Bool) : FirstSem (step c) init (obs (α := α)) xs :=
  firstSem _ _ _ (counters c) (firstRule c) xs

theorem eddm_recs_first_iff (c : Cfg α) (xs : List Bool) (i : Nat) :
    (run c xs).recs.1 = some i ↔
      (xs.length - (run c xs).since ≤ i ∧ i < xs.length ∧ stateAt (step c) init obs xs i ≠ .none ∧
       ∀ j, xs.length - (run c xs).since ≤ j → j < i → stateAt (step c) init obs xs j = .none) :=
  (eddm_recs_semantics c xs).iff _ _ _ i

/-- **Decision table, correct prediction (every carrier)**: only the two counters move;
    state, `retraining_recs` and every statistic stay (after the optional reset). -/
theorem eddm_step_correct (c : Cfg α) (s : State α) :
    step c s false = { pre s with total := s.total + 1, since := (pre s).since + 1 } := by
  simp only [step, core, pre, reset]; grind

/-- **Statistics of an error (every carrier)**: error count, index of the error inside
    the epoch, distance to the previous error (to index 0 for the first error), and
    the running mean / "std" recurrences. -/
theorem eddm_step_error_stats (c : Cfg α) (s : State α) :
    (step c s true).nErrors = (pre s).nErrors + 1 ∧
    (step c s true).idxCurr = (pre s).since ∧
    (step c s true).distMean =
      newMean (pre s).distMean (((pre s).since - (pre s).idxCurr : Nat) : α) ((pre s).nErrors + 1) ∧
    (step c s true).distStd =
      newStd (pre s).distStd (pre s).distMean (step c s true).distMean
        (((pre s).since - (pre s).idxCurr : Nat) : α) ((pre s).nErrors + 1) := by
  simp only [step, core, pre]; grind

/-- **Decision table, error during burn-in (every carrier)**: with fewer than
    `n_threshold` errors in the epoch, state, maximum and `retraining_recs` stay. -/
theorem eddm_step_error_burnin (c : Cfg α) (s : State α) (h : (pre s).nErrors + 1 < c.nThreshold) :
    (step c s true).drift = (pre s).drift ∧ (step c s true).maxNum = (pre s).maxNum ∧
    (step c s true).recs = (pre s).recs := by
  simp only [step, core, pre] at *; grind

/-- **Decision table, tested error (every carrier)**: from the `n_threshold`-th error on,
    with `cur = mean + 2 * std`: the maximum becomes `cur` iff `max < cur`, and the
    state is `drift` / `warning` / `None` exactly by `cur / max <= drift_thresh`, else
    `cur / max <= warning_thresh`. -/
theorem eddm_step_error_tested (c : Cfg α) (s : State α) (h : c.nThreshold ≤ (pre s).nErrors + 1) :
    let s' := step c s true
    let cur := numerator s'.distMean s'.distStd
    s'.maxNum = newMax (pre s).maxNum cur ∧
    (s'.drift = .drift ↔ cur / s'.maxNum ≤ c.driftThresh) ∧
    (s'.drift = .warning ↔ ¬ cur / s'.maxNum ≤ c.driftThresh ∧ cur / s'.maxNum ≤ c.warningThresh) ∧
    (s'.drift = .none ↔ ¬ cur / s'.maxNum ≤ c.driftThresh ∧ ¬ cur / s'.maxNum ≤ c.warningThresh) ∧
    s'.recs = incRecsFirst s'.drift s.total (pre s).recs := by
  have hn : ¬ (pre s).nErrors + 1 < c.nThreshold := by omega
  simp only [step, core, pre, decide3] at *
  simp only [hn, if_false]
  refine ⟨?_, ?_, ?_, ?_, ?_⟩ <;> grind [reset]

/-- **Guard on whole histories (every carrier)**: while the current epoch has fewer than
    `n_threshold` errors the state is `None` and `retraining_recs = [None, None]`. -/
theorem eddm_quiet_before_threshold (c : Cfg α) (xs : List Bool) :
    (run c xs).nErrors < c.nThreshold →
      (run c xs).drift = .none ∧ (run c xs).recs = Recs.empty := by
  induction xs using snoc_induction with
  | nil => intro _; exact ⟨rfl, rfl⟩
  | snoc xs x ih =>
    rw [run_snoc]
    intro h
    simp only [step, core, reset] at *
    grind

/-- what the error bookkeeping means for the samples `ep` of the current epoch -/
structure ErrSem (s : State α) (ep : List Bool) : Prop where
  len : ep.length = s.since
  count : s.nErrors = ep.count true
  zero : s.nErrors = 0 → s.idxCurr = 0
  last : 0 < s.nErrors → ep[s.idxCurr]? = some true ∧
    ∀ j, s.idxCurr < j → j < ep.length → ep[j]? = some false

theorem errSem_core (c : Cfg α) (s : State α) (ep : List Bool) (x : Bool) (h : ErrSem s ep) :
    ErrSem (core c s x) (ep ++ [x]) := by
  obtain ⟨h1, h2, h3, h4⟩ := h
  cases x
  · have hc : core c s false = { s with total := s.total + 1, since := s.since + 1 } := by
      simp [core]
    rw [hc]
    refine ⟨by simp [h1], by simp [h2], h3, ?_⟩
    intro hp
    obtain ⟨g1, g2⟩ := h4 hp
    have hlt : s.idxCurr < ep.length := by
      rcases Nat.lt_or_ge s.idxCurr ep.length with h | h
      · exact h
      · rw [List.getElem?_eq_none h] at g1; cases g1
    refine ⟨by simp only []; rw [List.getElem?_append_left hlt]; exact g1, ?_⟩
    intro j hj1 hj2
    simp only [List.length_append, List.length_singleton] at hj2
    by_cases hj : j < ep.length
    · rw [List.getElem?_append_left hj]; exact g2 j hj1 hj
    · have : j = ep.length := by omega
      subst this; simp
  · have hn : (core c s true).nErrors = s.nErrors + 1 := by simp only [core]; grind
    have hi : (core c s true).idxCurr = s.since := by simp only [core]; grind
    have hs : (core c s true).since = s.since + 1 := by simp only [core]; grind
    refine ⟨by simp [h1, hs], by simp [hn, h2], by omega, ?_⟩
    intro _
    rw [hi, ← h1]
    refine ⟨by simp, ?_⟩
    intro j hj1 hj2
    simp only [List.length_append, List.length_singleton] at hj2
    omega

/-- **Error bookkeeping (every carrier).**  After any history: `n_errors` is the number
    of errors in the current epoch; `index_error_curr` is the epoch-relative index of
    the latest of them (0 while there is none). -/
theorem eddm_errors (c : Cfg α) (xs : List Bool) :
    ErrSem (run c xs) (epoch (step c) init (obs (α := α)) xs) := by
  induction xs using snoc_induction with
  | nil => exact ⟨by simp [epoch, run, init], by simp [epoch, run, init], fun _ => rfl,
      fun h => by simp [run, init] at h⟩
  | snoc xs x ih =>
    rw [epoch_snoc _ _ _ (counters c), run_snoc, step_eq]
    unfold pre
    by_cases hd : (run c xs).drift = .drift
    · have : obs.drift (ErrTrace.run (step c) init xs) = .drift := hd
      rw [if_pos hd, if_pos this]
      exact errSem_core c _ [] x ⟨rfl, by simp [reset], fun _ => rfl, fun h => by simp [reset] at h⟩
    · have : ¬ obs.drift (ErrTrace.run (step c) init xs) = .drift := hd
      rw [if_neg hd, if_neg this]
      exact errSem_core c _ _ x ih


end anyCarrier
section field
variable {K : Type} [Field K] [LinearOrder K] [IsStrictOrderedRing K] [HasSqrt K]

theorem mean_core (c : Cfg K) (s : State K) (x : Bool) (hle : s.idxCurr ≤ s.since)
    (h : s.distMean * (s.nErrors : K) = (s.idxCurr : K)) :
    (core c s x).distMean * ((core c s x).nErrors : K) = ((core c s x).idxCurr : K) := by
  cases x
  · simpa [core] using h
  · have hn : (core c s true).nErrors = s.nErrors + 1 := by simp only [core]; grind
    have hi : (core c s true).idxCurr = s.since := by simp only [core]; grind
    have hm : (core c s true).distMean
        = newMean s.distMean (((s.since - s.idxCurr : Nat)) : K) (s.nErrors + 1) := by
      simp only [core]; grind
    rw [hn, hi, hm]
    unfold newMean
    have hne : ((s.nErrors : Nat) : K) + 1 ≠ 0 := Nat.cast_add_one_ne_zero _
    rw [Nat.cast_sub hle]
    push_cast
    field_simp
    linear_combination h

/-- **EDDM's running mean distance telescopes (ordered fields).**
    `dist_mean * n_errors = index of the latest error inside the epoch`, for every
    history, every configuration, in every epoch (whatever `sqrt` is). -/
theorem eddm_mean_mul (c : Cfg K) (xs : List Bool) :
    (run c xs).distMean * ((run c xs).nErrors : K) = ((run c xs).idxCurr : K) := by
  induction xs using snoc_induction with
  | nil => simp [run, init]
  | snoc xs x ih =>
    rw [run_snoc, step_eq]
    unfold pre
    by_cases hd : (run c xs).drift = .drift
    · rw [if_pos hd]
      exact mean_core c _ x (by simp [reset]) (by simp [reset])
    · rw [if_neg hd]
      refine mean_core c _ x ?_ ih
      have E := eddm_errors c xs
      rcases Nat.eq_zero_or_pos (run c xs).nErrors with h0 | hp
      · rw [E.zero h0]; omega
      · have g := (E.last hp).1
        rcases Nat.lt_or_ge (run c xs).idxCurr (epoch (step c) init obs xs).length with h | h
        · rw [E.len] at h; omega
        · rw [List.getElem?_eq_none h] at g; cases g

/-- `dist_mean = (index of the latest error) / n_errors` once an error occurred in the epoch -/
theorem eddm_mean (c : Cfg K) (xs : List Bool) (h : (run c xs).nErrors ≠ 0) :
    (run c xs).distMean = ((run c xs).idxCurr : K) / ((run c xs).nErrors : K) := by
  have hne : (((run c xs).nErrors : Nat) : K) ≠ 0 := Nat.cast_ne_zero.mpr h
  rw [← eddm_mean_mul c xs]
  field_simp

end field

end EDDM

/-! ## STEPD -/
namespace STEPD

def obs : Obs State := ⟨State.drift, State.total, State.since, State.recs⟩

/-- the state in which an update computes: `reset()` first when the previous update reported drift -/
def pre (s : State) : State := if s.drift = .drift then reset s else s

/-- the window bookkeeping touches neither state nor `retraining_recs` -/
theorem push_fields (w : Nat) (s : State) (ok : Bool) :
    (push w s ok).total = s.total + 1 ∧ (push w s ok).since = s.since + 1 ∧
    (push w s ok).drift = s.drift ∧ (push w s ok).recs = s.recs := by
  unfold push
  grind

/-- what window and counters mean for the outcomes `okl` (`true` = correct) of the current epoch -/
structure WinSem (w : Nat) (s : State) (okl : List Bool) : Prop where
  len : okl.length = s.since
  win : s.win = okl.drop (okl.length - w)
  sIn : s.sIn = s.win.count true
  rPast : s.rPast = (okl.take (okl.length - w)).count true

theorem count_single (b : Bool) : [b].count true = b2n b := by cases b <;> rfl

set_option linter.unnecessarySeqFocus false in
theorem winSem_push (w : Nat) (s : State) (okl : List Bool) (ok : Bool) (h : WinSem w s okl) :
    WinSem w (push w s ok) (okl ++ [ok]) := by
  obtain ⟨h1, h2, h3, h4⟩ := h
  by_cases hL : okl.length < w
  · -- the window is not full yet: nothing leaves it
    have e0 : okl.length - w = 0 := by omega
    have e1 : (okl ++ [ok]).length - w = 0 := by simp; omega
    have hw : s.win = okl := by rw [h2, e0]; simp
    have hp : push w s ok =
        { s with total := s.total + 1, since := s.since + 1, sIn := s.sIn + b2n ok, win := s.win ++ [ok] } := by
      unfold push
      have : ¬ (s.win ++ [ok]).length > w := by rw [hw]; simp; omega
      simp only [this, if_false]
    rw [hp]
    refine ⟨by simp [h1], ?_, ?_, ?_⟩
    · simp only [e1, List.drop_zero, hw]
    · simp only [List.count_append, count_single, h3]
    · simp only [e1, List.take_zero, h4, e0]
  · -- the window is full: its oldest element moves to the past
    have hk : okl.length - w ≤ okl.length := by omega
    have hd : (okl ++ [ok]).drop (okl.length - w) = s.win ++ [ok] := by
      rw [List.drop_append_of_le_length hk, h2]
    have e1 : (okl ++ [ok]).length - w = (okl.length - w) + 1 := by simp; omega
    have hlen : (s.win ++ [ok]).length > w := by rw [h2]; simp; omega
    cases hwin : s.win ++ [ok] with
    | nil => simp at hwin
    | cons hd0 tl =>
      have hp : push w s ok =
          { s with total := s.total + 1, since := s.since + 1, sIn := s.sIn + b2n ok - b2n hd0,
                   rPast := s.rPast + b2n hd0, win := tl } := by
        unfold push
        simp only [hlen, if_true]
        rw [hwin]
      rw [hp]
      rw [hwin] at hd
      have hcnt : s.sIn + b2n ok = b2n hd0 + tl.count true := by
        have := congrArg (List.count true) hwin
        rw [List.count_append, count_single, ← h3, List.count_cons] at this
        rw [this]
        cases hd0 <;> simp [b2n] <;> omega
      refine ⟨by simp [h1], ?_, ?_, ?_⟩
      · show tl = _
        rw [e1, ← List.drop_drop, hd]; simp
      · show s.sIn + b2n ok - b2n hd0 = tl.count true
        omega
      · show s.rPast + b2n hd0 = _
        rw [e1, List.take_add_one, List.count_append, ← List.head?_drop, hd]
        simp only [List.head?_cons, Option.toList_some, count_single]
        rw [List.take_append_of_le_length hk, h4]

section anyCarrier
variable {α : Type} [Add α] [Sub α] [Mul α] [Div α] [Neg α] [LT α] [DecidableLT α] [NatCast α] [HasSqrt α]

theorem step_eq (c : Cfg α) (s : State) (e : Bool) : step c s e = core c (pre s) e := rfl

theorem run_eq (c : Cfg α) (xs : List Bool) : run c xs = ErrTrace.run (step c) init xs := rfl

theorem run_snoc (c : Cfg α) (xs : List Bool) (e : Bool) : run c (xs ++ [e]) = step c (run c xs) e := by
  simp [run, List.foldl_append]

/-- **Decision table, before `2 * window_size` samples of the epoch (every carrier)**:
    only counters and window move. -/
theorem stepd_step_untested (c : Cfg α) (s : State) (e : Bool) (h : (pre s).since + 1 < 2 * c.window) :
    step c s e = push c.window (pre s) (!e) := by
  have h2 := (push_fields c.window (pre s) (!e)).2.1
  rw [step_eq]; unfold core
  simp only []
  rw [if_neg (by omega)]

/-- **Decision table, tested rows (every carrier)**: from `2 * window_size` samples on the
    state is the outcome of the test on the updated counters; `retraining_recs` is
    cleared on `None`, started at the current index or extended otherwise. -/
theorem stepd_step_tested (c : Cfg α) (s : State) (e : Bool) (h : 2 * c.window ≤ (pre s).since + 1) :
    (step c s e).drift = decide3 c (push c.window (pre s) (!e)) ∧
    (step c s e).sIn = (push c.window (pre s) (!e)).sIn ∧
    (step c s e).rPast = (push c.window (pre s) (!e)).rPast ∧
    (step c s e).win = (push c.window (pre s) (!e)).win ∧
    (step c s e).total = s.total + 1 ∧ (step c s e).since = (pre s).since + 1 ∧
    (step c s e).recs =
      (if decide3 c (push c.window (pre s) (!e)) = .none then Recs.empty
       else incRecsRun s.total (pre s).recs) := by
  obtain ⟨h1, h2, h3, h4⟩ := push_fields c.window (pre s) (!e)
  have ht : (pre s).total = s.total := by unfold pre reset; split <;> rfl
  rw [step_eq]; unfold core
  simp only []
  rw [if_pos (by omega)]
  cases hd : decide3 c (push c.window (pre s) (!e)) <;> simp [h1, h2, h4, ht]

/-- the test itself: `drift` iff accuracy decreased and `z > z_drift`; else `warning` iff
    accuracy decreased and `z > z_warning`; else `None` -/
theorem stepd_decide3 (c : Cfg α) (s : State) :
    (decide3 c s = .drift ↔
      ((recentAcc s : α) < pastAcc s ∧ c.zDrift < statistic c.window s)) ∧
    (decide3 c s = .warning ↔
      (¬ ((recentAcc s : α) < pastAcc s ∧ c.zDrift < statistic c.window s) ∧
       ((recentAcc s : α) < pastAcc s ∧ c.zWarn < statistic c.window s))) ∧
    (decide3 c s = .none ↔
      (¬ ((recentAcc s : α) < pastAcc s ∧ c.zDrift < statistic c.window s) ∧
       ¬ ((recentAcc s : α) < pastAcc s ∧ c.zWarn < statistic c.window s))) := by
  unfold decide3
  simp only [decide_eq_true_eq]
  refine ⟨?_, ?_, ?_⟩ <;> split <;> (try split) <;> simp_all

theorem counters (c : Cfg α) : Counters (step c) init obs := by
  refine ⟨rfl, rfl, rfl, rfl, ?_, ?_⟩ <;> intro s x
  · by_cases h : 2 * c.window ≤ (pre s).since + 1
    · exact (stepd_step_tested c s x h).2.2.2.2.1
    · show (step c s x).total = s.total + 1
      rw [stepd_step_untested c s x (by omega), (push_fields _ _ _).1]
      unfold pre reset; split <;> rfl
  · have hp : (pre s).since = if obs.drift s = .drift then 0 else obs.since s := by
      unfold pre reset obs; split <;> rfl
    by_cases h : 2 * c.window ≤ (pre s).since + 1
    · rw [← hp]; exact (stepd_step_tested c s x h).2.2.2.2.2.1
    · show (step c s x).since = _
      rw [stepd_step_untested c s x (by omega), ← hp]; exact (push_fields _ _ _).2.1

/-- step invariant: an alarm needs `2 * window_size` samples; no alarm, no recs -/
def Inv (c : Cfg α) (s : State) : Prop :=
  (s.drift ≠ .none → 2 * c.window ≤ s.since) ∧ (s.drift = .none → s.recs = Recs.empty)

omit [Add α] [Sub α] [Mul α] [Div α] [Neg α] [LT α] [DecidableLT α] [NatCast α] [HasSqrt α] in
theorem pre_inv (c : Cfg α) (s : State) (h : Inv c s) : Inv c (pre s) ∧ (pre s).drift ≠ .drift := by
  unfold pre
  split
  · exact ⟨⟨fun h => absurd rfl h, fun _ => rfl⟩, by simp [reset]⟩
  · exact ⟨h, by assumption⟩

theorem pre_recs (s : State) :
    (pre s).recs = if obs.drift s = .drift then Recs.empty else obs.recs s := by
  unfold pre reset obs; split <;> rfl

theorem runRule (c : Cfg α) : RunRule (step c) init obs (Inv c) := by
  refine ⟨⟨fun h => absurd rfl h, fun _ => rfl⟩, ?_, ?_, ?_⟩
  · intro s x hI
    obtain ⟨⟨g1, g2⟩, g3⟩ := pre_inv c s hI
    by_cases h : 2 * c.window ≤ (pre s).since + 1
    · obtain ⟨t1, -, -, -, -, t6, t7⟩ := stepd_step_tested c s x h
      refine ⟨fun _ => by rw [t6]; exact h, fun hn => ?_⟩
      rw [t7, ← t1, if_pos hn]
    · obtain ⟨-, p2, p3, p4⟩ := push_fields c.window (pre s) (!x)
      rw [stepd_step_untested c s x (by omega)]
      refine ⟨fun hn => ?_, fun hn => ?_⟩
      · rw [p3] at hn; have := g1 hn; omega
      · rw [p3] at hn; rw [p4]; exact g2 hn
  · intro s x hI hn
    obtain ⟨⟨g1, g2⟩, g3⟩ := pre_inv c s hI
    by_cases h : 2 * c.window ≤ (pre s).since + 1
    · obtain ⟨t1, -, -, -, -, t6, t7⟩ := stepd_step_tested c s x h
      show (step c s x).recs = _
      have hn' : (step c s x).drift = .none := hn
      rw [t7, ← t1, if_pos hn']
    · obtain ⟨-, p2, p3, p4⟩ := push_fields c.window (pre s) (!x)
      show (step c s x).recs = _
      have hn' : (step c s x).drift = .none := hn
      rw [stepd_step_untested c s x (by omega)] at hn' ⊢
      rw [p3] at hn'; rw [p4]; exact g2 hn'
  · intro s x hI hn
    obtain ⟨⟨g1, g2⟩, g3⟩ := pre_inv c s hI
    have hn' : (step c s x).drift ≠ .none := hn
    by_cases h : 2 * c.window ≤ (pre s).since + 1
    · obtain ⟨t1, -, -, -, -, t6, t7⟩ := stepd_step_tested c s x h
      show (step c s x).recs = _
      rw [t7, ← t1, if_neg hn', pre_recs]; rfl
    · exfalso
      obtain ⟨-, p2, p3, p4⟩ := push_fields c.window (pre s) (!x)
      rw [stepd_step_untested c s x (by omega), p3] at hn'
      have := g1 hn'; omega

/-- **Counters and epochs (every carrier)**, as for DDM. -/
theorem stepd_epoch (c : Cfg α) (xs : List Bool) : EpochSem (step c) init obs xs :=
  epochSem _ _ _ (counters c) xs

/-- **`retraining_recs` (every carrier).**  After any history it is `[None, None]` while
    the state is `None`; otherwise `[a, k]` where `k` is the index of the latest update
    and `a` the index at which the current uninterrupted warning/drift run began
    (so `[k, k]` for a drift that no warning preceded); cleared by the update after
    the drift. -/
theorem stepd_recs_semantics (c : Cfg α) (xs : List Bool) : RunSem (step c) init obs xs :=
  runSem _ _ _ (counters c) (runRule c) xs

/-- **Guard on whole histories (every carrier)**: while the epoch has fewer than
    `2 * window_size` samples the state is `None` and `retraining_recs = [None, None]`. -/
theorem stepd_quiet_before_threshold (c : Cfg α) (xs : List Bool) :
    (run c xs).since < 2 * c.window → (run c xs).drift = .none ∧ (run c xs).recs = Recs.empty := by
  intro h
  obtain ⟨g1, g2⟩ := (runRule c).inv_run _ _ _ xs
  have hd : (run c xs).drift = .none := by
    cases hd : (run c xs).drift with
    | none => rfl
    | warning => have := g1 (by rw [run_eq] at hd; rw [hd]; simp); rw [run_eq] at h; omega
    | drift => have := g1 (by rw [run_eq] at hd; rw [hd]; simp); rw [run_eq] at h; omega
  exact ⟨hd, g2 hd⟩

/-- **STEPD's counters (every carrier; Nat-valued).**  After any history, with `okl` the
    outcomes (`true` = correct) of the current epoch: `_window` holds its last
    `window_size` entries, `_s` is the number of correct predictions inside that window
    and `_r` the number of correct predictions before it in the epoch — so
    `recent_accuracy()`, `past_accuracy()`, `overall_accuracy()` are the corresponding
    fractions of correct predictions. -/
theorem stepd_counts (c : Cfg α) (xs : List Bool) :
    WinSem c.window (run c xs) ((epoch (step c) init obs xs).map (!·)) := by
  induction xs using snoc_induction with
  | nil => exact ⟨by simp [epoch, run, init], by simp [epoch, run, init], by simp [run, init],
      by simp [epoch, run, init]⟩
  | snoc xs x ih =>
    have key : ∀ (s : State) (okl : List Bool), WinSem c.window s okl →
        WinSem c.window (core c s x) (okl ++ [!x]) := by
      intro s okl hW
      have hp := winSem_push c.window s okl (!x) hW
      by_cases h : 2 * c.window ≤ (push c.window s (!x)).since
      · unfold core
        simp only [h, if_true]
        obtain ⟨p1, p2, p3, p4⟩ := hp
        cases decide3 c (push c.window s (!x)) <;> exact ⟨p1, p2, p3, p4⟩
      · unfold core
        simp only [h, if_false]
        exact hp
    rw [epoch_snoc _ _ _ (counters c), run_snoc, step_eq]
    unfold pre
    by_cases hd : (run c xs).drift = .drift
    · have : obs.drift (ErrTrace.run (step c) init xs) = .drift := hd
      rw [if_pos hd, if_pos this]
      exact key _ [] ⟨rfl, by simp [reset], by simp [reset], by simp [reset]⟩
    · have : ¬ obs.drift (ErrTrace.run (step c) init xs) = .drift := hd
      rw [if_neg hd, if_neg this, List.map_append]
      exact key _ _ ih

omit [Add α] [Sub α] [Mul α] [Neg α] [LT α] [DecidableLT α] [HasSqrt α] in
/-- the three accessors as fractions of the counters (definitional) -/
theorem stepd_accuracies (s : State) (h1 : s.win.length ≠ 0) (h2 : s.since - s.win.length ≠ 0) (h3 : s.since ≠ 0) :
    (recentAcc s : α) = (s.sIn : α) / (s.win.length : α) ∧
    (pastAcc s : α) = (s.rPast : α) / ((s.since - s.win.length : Nat) : α) ∧
    (overallAcc s : α) = ((s.rPast + s.sIn : Nat) : α) / (s.since : α) := by
  simp [recentAcc, pastAcc, overallAcc, h1, h2, h3]

end anyCarrier
end STEPD

/-! ## Non-vacuity: concrete histories over ℚ (with `sqrt := id`, any function will do
    for the statements above) that exercise warning → drift → next epoch -/
namespace C05Examples
local instance : HasSqrt ℚ := ⟨fun x => x⟩

def cd : DDM.Cfg ℚ := ⟨2, 1/2, 2⟩
/-- DDM: warning from update 1 on, drift at update 4: `recs = [1, 4]`; cleared by update 5 -/
example : (DDM.run cd [true, false]).drift = .warning ∧
    (DDM.run cd [true, false, false, false, true]).drift = .drift ∧
    (DDM.run cd [true, false, false, false, true]).recs = (some 1, some 4) ∧
    (DDM.run cd [true, false, false, false, true, true]).recs = Recs.empty ∧
    (DDM.run cd [true, false, false, false, true, true]).since = 1 := by decide +kernel
/-- the rate theorem at ℚ: 2 errors in 5 samples -/
example : (DDM.run cd [true, false, false, false, true]).rate = 2 / 5 := by
  have h := DDM.ddm_rate cd [true, false, false, false, true] (by simp)
  rw [h]; decide +kernel
/-- the hypotheses of `ddm_min`'s second clause are satisfiable -/
example : cd.nThreshold ≤ (DDM.run cd [true, false, false]).since ∧
    (DDM.run cd [true, false, false]).mins = some (1 / 3, 5 / 36) := by decide +kernel
/-- the hypothesis of the tested rows is satisfiable (and the burn-in one, with `n_threshold = 2`) -/
example : cd.nThreshold ≤ (DDM.pre (DDM.run cd [true])).since + 1 ∧
    (DDM.pre (DDM.init (α := ℚ))).since + 1 < cd.nThreshold := by decide +kernel

def ce : EDDM.Cfg ℚ := ⟨2, 9/10, 1/2⟩
def xe : List Bool := [false, false, false, true, false, false, true, true, true, true, true]
/-- EDDM: warning at update 8, drift at update 10: `recs = [8, 10]`; the mean distance is
    (index of the latest error) / (number of errors) = 10 / 6; cleared by the next update -/
example : (EDDM.run ce (xe.take 9)).drift = .warning ∧ (EDDM.run ce xe).drift = .drift ∧
    (EDDM.run ce xe).recs = (some 8, some 10) ∧ (EDDM.run ce xe).distMean = 10 / 6 ∧
    (EDDM.run ce (xe ++ [false])).recs = Recs.empty := by decide +kernel
example : (EDDM.run ce xe).distMean = ((EDDM.run ce xe).idxCurr : ℚ) / ((EDDM.run ce xe).nErrors : ℚ) :=
  EDDM.eddm_mean ce xe (by decide +kernel)

def cs : STEPD.Cfg ℚ := ⟨2, 1/4, 3/2⟩
def xs : List Bool := [false, false, false, false, false, true, true, true, false, false, false, false, true, true]
/-- STEPD: warning at update 5, drift at update 6: `recs = [5, 6]`; in the next epoch a drift
    without a preceding warning at update 13: `recs = [13, 13]`; `_s`, `_r`, `_window` as stated -/
example : (STEPD.run cs (xs.take 6)).drift = .warning ∧ (STEPD.run cs (xs.take 6)).recs = (some 5, some 5) ∧
    (STEPD.run cs (xs.take 7)).drift = .drift ∧ (STEPD.run cs (xs.take 7)).recs = (some 5, some 6) ∧
    (STEPD.run cs (xs.take 8)).recs = Recs.empty ∧ (STEPD.run cs (xs.take 8)).since = 1 ∧
    (STEPD.run cs xs).drift = .drift ∧ (STEPD.run cs xs).recs = (some 13, some 13) ∧
    (STEPD.run cs (xs.take 6)).win = [true, false] ∧ (STEPD.run cs (xs.take 6)).rPast = 4 := by
  decide +kernel

end C05Examples

end MV
