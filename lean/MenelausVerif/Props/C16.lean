/-
  C16 — only agreement between label and prediction matters to error-based
  detectors; documented-unused arguments are unused.

  The models of DDM, EDDM and STEPD (`Model/DDM.lean`, …) consume one `Bool` per
  update — the error bit `y_pred != y_true` — and nothing else.  This file states
  what that buys, for labels of an *arbitrary* type with decidable equality:

  * `trace_depends_on_agreement` — two label histories (over possibly different
    label types: ints, strings, booleans, floats, three and more classes …) with
    the same agreement bits produce the same trace of *complete* states (hence the
    same `drift_state`, `retraining_recs`, counters and statistics after every
    update); replacing a pair by another pair with the same agreement is the
    special case of one label type;
  * `injective_relabel` — any injective re-encoding of the labels preserves the
    agreement bits, hence the trace;
  * `unused_argument` — an update that receives a further argument `X` which the
    step function is not given produces the same trace whatever is passed;
  * `cell_only` — a detector whose step takes the confusion-matrix cell of a 0/1
    pair (LinearFourRates) is invariant under any two encodings that decode to the
    same cells.

  The statements are generic in the step function (any state type, any numeric
  carrier), so they cover the executed `Float` instances of the three models and
  any detector whose update has this shape; they are instantiated for DDM, EDDM
  and STEPD below, and for the ADWINAccuracy and LinearFourRates models in
  `Props/C16More.lean` (`adwinAcc_agreement`, `lfr_cell_only`).  That the Python
  classes feed exactly `int(y_pred != y_true)` to the modelled step is likewise
  checked there (twin runs under re-encodings), not proved.
-/
import MenelausVerif.Model.DDM
import MenelausVerif.Model.EDDM
import MenelausVerif.Model.STEPD
namespace MV.C16

/-- the complete state after every update -/
def trace {σ ι : Type} (step : σ → ι → σ) : σ → List ι → List σ
  | _, [] => []
  | s, x :: xs => step s x :: trace step (step s x) xs

/-- `y_true == y_pred` -/
def agree {L : Type} [DecidableEq L] (p : L × L) : Bool := decide (p.1 = p.2)

/-- a detector that is handed `(y_true, y_pred)` and passes the error bit to its step -/
def labelStep {σ L : Type} [DecidableEq L] (step : σ → Bool → σ) (s : σ) (p : L × L) : σ :=
  step s (!agree p)

theorem trace_map {σ ι κ : Type} (step : σ → κ → σ) (f : ι → κ) (s : σ) (xs : List ι) :
    trace (fun s x => step s (f x)) s xs = trace step s (xs.map f) := by
  induction xs generalizing s with
  | nil => rfl
  | cons x xs ih => simp [trace, ih]

/-- **Only agreement matters.**  Label histories over any two label types with the same
    agreement bits give the same trace of complete states, from any starting state. -/
theorem trace_depends_on_agreement {σ L L' : Type} [DecidableEq L] [DecidableEq L']
    (step : σ → Bool → σ) (s : σ) (ps : List (L × L)) (qs : List (L' × L'))
    (h : ps.map agree = qs.map agree) :
    trace (labelStep step) s ps = trace (labelStep step) s qs := by
  unfold labelStep
  rw [trace_map step (fun p : L × L => !agree p), trace_map step (fun p : L' × L' => !agree p)]
  have : ps.map (fun p => !agree p) = qs.map (fun p => !agree p) := by
    have := congrArg (List.map (fun b : Bool => !b)) h
    simpa [List.map_map, Function.comp_def] using this
  rw [this]

/-- an injective re-encoding preserves agreement … -/
theorem agree_relabel {L L' : Type} [DecidableEq L] [DecidableEq L'] (f : L → L')
    (hf : ∀ a b, f a = f b → a = b) (p : L × L) : agree (f p.1, f p.2) = agree p := by
  unfold agree
  by_cases h : p.1 = p.2
  · simp [h]
  · have : ¬ f p.1 = f p.2 := fun e => h (hf _ _ e)
    simp [h, this]

/-- … **hence the trace**: other integers, strings, booleans, floats, any number of classes. -/
theorem injective_relabel {σ L L' : Type} [DecidableEq L] [DecidableEq L']
    (step : σ → Bool → σ) (s : σ) (f : L → L') (hf : ∀ a b, f a = f b → a = b) (ps : List (L × L)) :
    trace (labelStep step) s (ps.map (fun p => (f p.1, f p.2))) = trace (labelStep step) s ps := by
  apply trace_depends_on_agreement
  rw [List.map_map]
  apply List.map_congr_left
  intro p _
  exact agree_relabel f hf p

/-- an update with a further argument that the step is not given (`X` of the concept-drift
    detectors; `y_true` / `y_pred` of change and data-drift detectors, with `ι` the data) -/
def withUnused {σ ι ξ : Type} (step : σ → ι → σ) (s : σ) (a : ι × ξ) : σ := step s a.1

/-- **Unused arguments are unused**: whatever is passed there, the trace is the same. -/
theorem unused_argument {σ ι ξ ξ' : Type} (step : σ → ι → σ) (s : σ)
    (as : List (ι × ξ)) (bs : List (ι × ξ')) (h : as.map Prod.fst = bs.map Prod.fst) :
    trace (withUnused step) s as = trace (withUnused step) s bs := by
  unfold withUnused
  rw [trace_map step (Prod.fst : ι × ξ → ι), trace_map step (Prod.fst : ι × ξ' → ι), h]

/-- a detector that is handed 0/1 labels in some encoding and passes the confusion-matrix
    cell `(y_pred, y_true)` to its step (LinearFourRates: `_confusion[1*y_pred][1*y_true] += 1`) -/
def cellStep {σ L : Type} (bit : L → Bool) (step : σ → Bool × Bool → σ) (s : σ) (p : L × L) : σ :=
  step s (bit p.2, bit p.1)

/-- **Only the cell matters.**  Two encodings of 0/1 labels whose histories decode to the
    same cells give the same trace. -/
theorem cell_only {σ L L' : Type} (bit : L → Bool) (bit' : L' → Bool)
    (step : σ → Bool × Bool → σ) (s : σ) (ps : List (L × L)) (qs : List (L' × L'))
    (h : ps.map (fun p => (bit p.2, bit p.1)) = qs.map (fun p => (bit' p.2, bit' p.1))) :
    trace (cellStep bit step) s ps = trace (cellStep bit' step) s qs := by
  unfold cellStep
  rw [trace_map step (fun p : L × L => (bit p.2, bit p.1)),
      trace_map step (fun p : L' × L' => (bit' p.2, bit' p.1)), h]

/-! ### the three modelled detectors, every carrier (so also `Float`) -/

theorem ddm_agreement {α : Type} [Add α] [Sub α] [Mul α] [Div α] [LE α] [DecidableLE α] [NatCast α]
    [HasSqrt α] {L L' : Type} [DecidableEq L] [DecidableEq L'] (c : DDM.Cfg α) (s : DDM.State α)
    (ps : List (L × L)) (qs : List (L' × L')) (h : ps.map agree = qs.map agree) :
    trace (labelStep (DDM.step c)) s ps = trace (labelStep (DDM.step c)) s qs :=
  trace_depends_on_agreement _ s ps qs h

theorem eddm_agreement {α : Type} [Add α] [Sub α] [Mul α] [Div α] [LT α] [DecidableLT α] [LE α]
    [DecidableLE α] [NatCast α] [HasSqrt α] {L L' : Type} [DecidableEq L] [DecidableEq L']
    (c : EDDM.Cfg α) (s : EDDM.State α)
    (ps : List (L × L)) (qs : List (L' × L')) (h : ps.map agree = qs.map agree) :
    trace (labelStep (EDDM.step c)) s ps = trace (labelStep (EDDM.step c)) s qs :=
  trace_depends_on_agreement _ s ps qs h

theorem stepd_agreement {α : Type} [Add α] [Sub α] [Mul α] [Div α] [Neg α] [LT α] [DecidableLT α]
    [NatCast α] [HasSqrt α] {L L' : Type} [DecidableEq L] [DecidableEq L'] (c : STEPD.Cfg α)
    (s : STEPD.State) (ps : List (L × L)) (qs : List (L' × L')) (h : ps.map agree = qs.map agree) :
    trace (labelStep (STEPD.step c)) s ps = trace (labelStep (STEPD.step c)) s qs :=
  trace_depends_on_agreement _ s ps qs h

/-- the last state of the labelled trace is the model's `run` on the error bits
    (ties this file's `trace` to `DDM.run` of C05) -/
theorem ddm_trace_last {α : Type} [Add α] [Sub α] [Mul α] [Div α] [LE α] [DecidableLE α] [NatCast α]
    [HasSqrt α] {L : Type} [DecidableEq L] (c : DDM.Cfg α) (ps : List (L × L)) (h : ps ≠ []) :
    (trace (labelStep (DDM.step c)) DDM.init ps).getLast? =
      some (DDM.run c (ps.map (fun p => !agree p))) := by
  have gen : ∀ (s : DDM.State α) (ps : List (L × L)), ps ≠ [] →
      (trace (labelStep (DDM.step c)) s ps).getLast? =
        some ((ps.map (fun p => !agree p)).foldl (DDM.step c) s) := by
    intro s ps
    induction ps generalizing s with
    | nil => intro h; exact absurd rfl h
    | cons p ps ih =>
      intro _
      cases ps with
      | nil => simp [trace, labelStep]
      | cons q qs =>
        have := ih (labelStep (DDM.step c) s p) (by simp)
        simp only [trace, List.getLast?_cons_cons] at this ⊢
        rw [this]; simp [labelStep]
  exact gen DDM.init ps h

/-! ### non-vacuity: strings vs. three integer classes with the same agreement pattern,
    and an injective map -/

example : ([("cat", "cat"), ("cat", "dog"), ("dog", "dog")].map agree)
    = ([((2 : Nat), 2), (0, 1), (1, 1)].map agree) := by decide

example : ∀ a b : Bool, (fun b : Bool => if b then "yes" else "no") a
    = (fun b : Bool => if b then "yes" else "no") b → a = b := by decide

end MV.C16
