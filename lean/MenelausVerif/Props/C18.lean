/-
  C18 — batch detectors ignore the order of the rows inside a batch.

  Models: Model/HDM.lean (HDDDM / CDBD), Model/NNSP.lean (NNSpacePartitioner, NNDVI).
  `l ~ l'` below is `List.Perm` (core Lean).

  HDM (any carrier whose `<` / `≤` come from a linear order — "lawful order"; no arithmetic law is
  used, `+ - * / sqrt log trunc ==` are arbitrary):
    `minmax_perm`       per-feature (min, max) over reference ∪ batch
    `hist_perm`, `histPair_perm`   the bin count vectors of reference and batch
    `hdm_distance_perm` per-feature distances and `current_distance` of `update`
    `updateCore_perm`   the whole body of `update` (ε, ε-list, β, drift test, reference update)
    `update_perm`       one public `update`, for `detect_batch ≠ 1` — or for any `detect_batch` as long
                        as no `reset` is pending; `update_perm_observables` spells out the attributes
    `setReference_perm` `set_reference`, `detect_batch ≠ 1`
    `run_perm`          whole histories, `detect_batch ≠ 1`, the same oracle inputs (ε₀, t-crit) in both
                        runs: both runs are accepted or both rejected, final states related
    `trace_perm`        … and the observables after every call are equal (distance, ε, β, drift state,
                        the three public dicts, `feature_info`)
    `trace_perm_db3`    `detect_batch = 3`: ε₀ is never read (`update_eps0_irrelevant_db3`), so only the
                        t-critical values need to agree (they depend on row *counts* only)
  `detect_batch = 1` is outside `update_perm` / `run_perm` whenever a `reset` runs (after a drift, in
  `set_reference`): `reset` then halves the reference *by position* (`take` / `drop`), which is not
  invariant under permutations — the property excludes it.  `detect_batch = 2`: the bootstrap
  estimate ε₀ is computed by the real code from positional splits with the global RNG; in the model
  it is the oracle input `eps0`, and `run_perm` / `trace_perm` *assume* the two runs receive equal
  ε₀ (and t-crit) batch by batch.  That is a hypothesis, not a theorem.

  NNSP / NNDVI (any linear order on the coordinates, no arithmetic law):
    `unique_perm`       `np.unique(axis=0)` of permuted data (indeed of data with the same set of rows)
    `parts_perm`        pool, v1, v2 equal for `s1 ~ s1'`, `s2 ~ s2'` (`pool_perm`, `member_perm`)
    `build_perm`, `nnps_distance_perm`   `build` and the distance for the same adjacency input
    `nndvi_step_perm`   one NNDVI `update`: same output (distance, threshold, k-NN validity flag) for the
                        same adjacency and the same draws, related states
    `nndvi_trace_perm`  whole histories of `set_reference` / `update`
    `nndvi_flags_perm`  the drift flags of C10's `run` / `flags`
  The adjacency matrix and the drawn index permutations are inputs of the model; they refer to
  pool positions, and the pool is the same list in both runs, so "the same inputs" is meaningful.

  All declarations live in the sub-namespaces `MV.HDM.C18`, `MV.NNSP.C18`, `MV.NNDVI.C18` (other
  property files define their own `Op` / `Rel` / `trace` in the parent namespaces).

  kdq-tree: `build_perm` / `fill_perm` / `kl_distance_perm` and the KdqTreeBatch decision traces are proved in
  `Props/C18Kdq.lean` (over `Model/KdqTree.lean`, `Model/KdqDetect.lean`).
-/
import MenelausVerif.Model.HDM
import MenelausVerif.Model.NNSP
import MenelausVerif.Lemmas.NNSPOrder
import MenelausVerif.Props.C07
import MenelausVerif.Props.C10
import Mathlib.Order.Basic
import Mathlib.Order.Lattice
set_option linter.unusedSectionVars false

/-- both rejected, or both accepted with related results -/
def MV.C18.OptRel {σ τ : Type} (R : σ → τ → Prop) : Option σ → Option τ → Prop
  | some a, some b => R a b
  | none, none => True
  | _, _ => False

namespace MV.HDM.C18
open MV MV.C18

section perm
variable {α : Type} [Add α] [Sub α] [Mul α] [Div α] [Neg α] [LinearOrder α]
  [NatCast α] [BEq α] [HasSqrt α] [HasLogExp α] [HasLog1p α] [HasTrunc α]

/-! ### min / max -/

theorem pyMin_eq_min (a b : α) : pyMin a b = min a b := by
  unfold pyMin
  split
  · rename_i h; exact (min_eq_right (le_of_lt h)).symm
  · rename_i h; exact (min_eq_left (not_lt.mp h)).symm

theorem pyMax_eq_max (a b : α) : pyMax a b = max a b := by
  unfold pyMax
  split
  · rename_i h; exact (max_eq_right (le_of_lt h)).symm
  · rename_i h; exact (max_eq_left (not_lt.mp h)).symm

theorem foldl_pyMin_least (xs : List α) (x : α) :
    xs.foldl pyMin x ∈ x :: xs ∧ ∀ y ∈ x :: xs, xs.foldl pyMin x ≤ y := by
  induction xs generalizing x with
  | nil => simp
  | cons z zs ih =>
    simp only [List.foldl_cons]
    obtain ⟨h1, h2⟩ := ih (pyMin x z)
    have hm : pyMin x z = min x z := pyMin_eq_min x z
    constructor
    · rcases List.mem_cons.mp h1 with h | h
      · rw [h, hm]
        rcases min_choice x z with e | e <;> simp [e]
      · simp [h]
    · intro y hy
      have hle : zs.foldl pyMin (pyMin x z) ≤ pyMin x z := h2 _ List.mem_cons_self
      rcases List.mem_cons.mp hy with e | hy
      · rw [e]; exact le_trans hle (by rw [hm]; exact min_le_left _ _)
      · rcases List.mem_cons.mp hy with e | hy
        · rw [e]; exact le_trans hle (by rw [hm]; exact min_le_right _ _)
        · exact h2 _ (List.mem_cons_of_mem _ hy)

theorem foldl_pyMax_greatest (xs : List α) (x : α) :
    xs.foldl pyMax x ∈ x :: xs ∧ ∀ y ∈ x :: xs, y ≤ xs.foldl pyMax x := by
  induction xs generalizing x with
  | nil => simp
  | cons z zs ih =>
    simp only [List.foldl_cons]
    obtain ⟨h1, h2⟩ := ih (pyMax x z)
    have hm : pyMax x z = max x z := pyMax_eq_max x z
    constructor
    · rcases List.mem_cons.mp h1 with h | h
      · rw [h, hm]
        rcases max_choice x z with e | e <;> simp [e]
      · simp [h]
    · intro y hy
      have hle : pyMax x z ≤ zs.foldl pyMax (pyMax x z) := h2 _ List.mem_cons_self
      rcases List.mem_cons.mp hy with e | hy
      · rw [e]; exact le_trans (by rw [hm]; exact le_max_left _ _) hle
      · rcases List.mem_cons.mp hy with e | hy
        · rw [e]; exact le_trans (by rw [hm]; exact le_max_right _ _) hle
        · exact h2 _ (List.mem_cons_of_mem _ hy)

/-- `minOf` of a non-empty array is its least element -/
theorem minOf_least (l : List α) (hne : l ≠ []) : minOf l ∈ l ∧ ∀ y ∈ l, minOf l ≤ y := by
  cases l with
  | nil => exact absurd rfl hne
  | cons x xs => exact foldl_pyMin_least xs x

/-- `maxOf` of a non-empty array is its greatest element -/
theorem maxOf_greatest (l : List α) (hne : l ≠ []) : maxOf l ∈ l ∧ ∀ y ∈ l, y ≤ maxOf l := by
  cases l with
  | nil => exact absurd rfl hne
  | cons x xs => exact foldl_pyMax_greatest xs x

theorem minOf_perm {l l' : List α} (h : l.Perm l') : minOf l = minOf l' := by
  by_cases hne : l = []
  · subst hne; rw [h.symm.eq_nil]
  · have hne' : l' ≠ [] := fun e => hne (by subst e; exact h.eq_nil)
    obtain ⟨m1, m2⟩ := minOf_least l hne
    obtain ⟨n1, n2⟩ := minOf_least l' hne'
    exact le_antisymm (m2 _ (h.mem_iff.mpr n1)) (n2 _ (h.mem_iff.mp m1))

theorem maxOf_perm {l l' : List α} (h : l.Perm l') : maxOf l = maxOf l' := by
  by_cases hne : l = []
  · subst hne; rw [h.symm.eq_nil]
  · have hne' : l' ≠ [] := fun e => hne (by subst e; exact h.eq_nil)
    obtain ⟨m1, m2⟩ := maxOf_greatest l hne
    obtain ⟨n1, n2⟩ := maxOf_greatest l' hne'
    exact le_antisymm (n2 _ (h.mem_iff.mp m1)) (m2 _ (h.mem_iff.mpr n1))

/-! ### columns, ranges, histograms -/

theorem colOf_perm {rows rows' : List (List α)} (h : rows.Perm rows') (f : Nat) :
    (colOf rows f).Perm (colOf rows' f) := h.filterMap _

/-- **min / max**: the per-feature `(min, max)` over reference ∪ batch does not depend on the row
    order of either -/
theorem minmax_perm {ref ref' X X' : List (List α)} (hr : ref.Perm ref') (hX : X.Perm X') (f : Nat) :
    rangeOf ref X f = rangeOf ref' X' f := by
  have h := (colOf_perm hr f).append (colOf_perm hX f)
  unfold rangeOf
  simp only [minOf_perm h, maxOf_perm h]

/-- **histogram**: `np.histogram` of a permuted column gives the same counts (any range, any carrier
    operations) -/
theorem hist_perm (bins : Nat) (lo hi : α) {xs xs' : List α} (h : xs.Perm xs') :
    hist bins lo hi xs = hist bins lo hi xs' := by
  unfold hist binIndices
  apply List.map_congr_left
  intro k _
  exact ((h.filter _).map _).count_eq k

/-- the aligned histograms of reference and batch, feature by feature -/
theorem histPair_perm (bins : Nat) {ref ref' X X' : List (List α)} (hr : ref.Perm ref') (hX : X.Perm X')
    (f : Nat) : histPair bins ref X f = histPair bins ref' X' f := by
  unfold histPair
  simp only [minmax_perm hr hX f, hist_perm _ _ _ (colOf_perm hr f), hist_perm _ _ _ (colOf_perm hX f)]

theorem featureDistances_perm (d : Divergence α) (dim bins : Nat) {ref ref' X X' : List (List α)}
    (hr : ref.Perm ref') (hX : X.Perm X') :
    featureDistances d dim bins ref X = featureDistances d dim bins ref' X' := by
  unfold featureDistances
  apply List.map_congr_left
  intro f _
  unfold featureDistance
  rw [histPair_perm bins hr hX f]

/-- **distance**: the per-feature distances and `current_distance` computed by `update` are the same
    for permuted reference rows and permuted batch rows (Hellinger, Jensen–Shannon or any user
    divergence of the two count vectors) -/
theorem hdm_distance_perm (d : Divergence α) (dim bins : Nat) {ref ref' X X' : List (List α)}
    (hr : ref.Perm ref') (hX : X.Perm X') :
    featureDistances d dim bins ref X = featureDistances d dim bins ref' X' ∧
    average dim (featureDistances d dim bins ref X) = average dim (featureDistances d dim bins ref' X') := by
  rw [featureDistances_perm d dim bins hr hX]
  exact ⟨rfl, rfl⟩

/-! ### one `update` -/

/-- two detector states that differ only in the row order of the stored reference -/
def Rel (s s' : State α) : Prop := ∃ r', s.reference.Perm r' ∧ s' = { s with reference := r' }

theorem Rel.refl (s : State α) : Rel s s := ⟨s.reference, List.Perm.refl _, rfl⟩

theorem rel_of_perm (s : State α) {r' : List (List α)} (h : s.reference.Perm r') :
    Rel s { s with reference := r' } := ⟨r', h, rfl⟩

/-- everything but the row order of the reference is shared by related states -/
theorem Rel.fields {s s' : State α} (h : Rel s s') :
    s.reference.Perm s'.reference ∧ s'.dim = s.dim ∧ s'.hasRef = s.hasRef ∧ s'.total = s.total ∧
    s'.since = s.since ∧ s'.drift = s.drift ∧ s'.refN = s.refN ∧ s'.bins = s.bins ∧ s'.eps = s.eps ∧
    s'.totalEps = s.totalEps ∧ s'.lambda = s.lambda ∧ s'.prevDist = s.prevDist ∧
    s'.prevFeat = s.prevFeat ∧ s'.curDist = s.curDist ∧ s'.featEps = s.featEps ∧ s'.beta = s.beta ∧
    s'.featInfo = s.featInfo ∧ s'.distances = s.distances ∧ s'.epsValues = s.epsValues ∧
    s'.thresholds = s.thresholds := by
  obtain ⟨r', hp, rfl⟩ := h
  simp [hp]

variable (c : Cfg α) (o : Oracle α) (s : State α) (dim : Nat)

theorem stepFd_perm {r' X X' : List (List α)} (hp : s.reference.Perm r') (hX : X.Perm X') :
    stepFd c { s with reference := r' } dim X' = stepFd c s dim X := by
  unfold stepFd
  exact (featureDistances_perm c.div dim s.bins hp hX).symm

theorem stepDist_perm {r' X X' : List (List α)} (hp : s.reference.Perm r') (hX : X.Perm X') :
    stepDist c { s with reference := r' } dim X' = stepDist c s dim X := by
  unfold stepDist
  rw [stepFd_perm c s dim hp hX]

theorem stepEps_perm {r' X X' : List (List α)} (hp : s.reference.Perm r') (hX : X.Perm X') :
    stepEps c { s with reference := r' } dim X' = stepEps c s dim X := by
  unfold stepEps
  rw [stepDist_perm c s dim hp hX]

theorem stepEpsList_perm {r' X X' : List (List α)} (hp : s.reference.Perm r') (hX : X.Perm X') :
    stepEpsList c o { s with reference := r' } dim X' = stepEpsList c o s dim X := by
  unfold stepEpsList
  rw [stepEps_perm c s dim hp hX]

theorem stepThr_perm {r' X X' : List (List α)} (hp : s.reference.Perm r') (hX : X.Perm X') :
    stepThr c o { s with reference := r' } dim X' = stepThr c o s dim X := by
  unfold stepThr
  rw [stepEpsList_perm c o s dim hp hX]

theorem stepFeatEps_perm {r' X X' : List (List α)} (hp : s.reference.Perm r') (hX : X.Perm X') :
    stepFeatEps c { s with reference := r' } dim X' = stepFeatEps c s dim X := by
  unfold stepFeatEps
  rw [stepFd_perm c s dim hp hX]

/-- **the body of `update`** (any `detect_batch`): on a state whose reference is permuted and a
    batch whose rows are permuted, every field of the result is the same — distance, ε, the ε list,
    β, the drift decision, the recorded dicts, `feature_info` — except the new reference, which is a
    permutation of the other run's new reference. -/
theorem updateCore_perm {s' : State α} {X X' : List (List α)} (hs : Rel s s') (hX : X.Perm X') :
    Rel (updateCore c o s dim X) (updateCore c o s' dim X') := by
  obtain ⟨r', hp, rfl⟩ := hs
  have e1 := stepFd_perm c s dim hp hX
  have e2 := stepDist_perm c s dim hp hX
  have e3 := stepEps_perm c s dim hp hX
  have e4 := stepEpsList_perm c o s dim hp hX
  have e5 := stepThr_perm c o s dim hp hX
  have e6 := stepFeatEps_perm c s dim hp hX
  have hl : (r' ++ X').length = (s.reference ++ X).length := ((hp.append hX).length_eq).symm
  unfold Rel updateCore appendRef
  simp only [e1, e2, e3, e4, e5, e6, hl]
  by_cases h2 : s.since + 1 ≥ 2
  · by_cases htd : testsDrift c (s.since + 1) = true
    · by_cases hb : (stepThr c o s dim X).beta < stepEps c s dim X
      · exact ⟨X', by simp [h2, htd, hb, hX], by simp [h2, htd, hb]⟩
      · exact ⟨r' ++ X', by simp [h2, htd, hb, hp.append hX], by simp [h2, htd, hb]⟩
    · exact ⟨r' ++ X', by simp [h2, htd, hp.append hX], by simp [h2, htd]⟩
  · exact ⟨r' ++ X', by simp [h2, hp.append hX], by simp [h2]⟩

/-- `_validate_X` looks at the number of rows and at the row widths only -/
theorem validBatch_perm (dimo : Option Nat) {X X' : List (List α)} (hX : X.Perm X') :
    validBatch c dimo X' = validBatch c dimo X := by
  have key : ∀ {Y Y' : List (List α)}, Y.Perm Y' → ∀ d, validBatch c dimo Y = some d →
      validBatch c dimo Y' = some d := by
    intro Y Y' hY d h
    cases Y with
    | nil => simp [validBatch] at h
    | cons r rs =>
      cases Y' with
      | nil => exact absurd hY.length_eq (by simp)
      | cons r' rs' =>
        have hr' : r' ∈ r :: rs := hY.mem_iff.mpr (by simp)
        have hlen : (r' :: rs').length = (r :: rs).length := hY.length_eq.symm
        unfold validBatch at h ⊢
        cases dimo with
        | some w =>
          simp only at h ⊢
          split at h
          · rename_i hc
            obtain ⟨hc1, hc2, hc3⟩ := hc
            have hall : (r' :: rs').all (fun x => x.length == w) = true := by
              rw [List.all_eq_true] at hc2 ⊢
              intro x hx; exact hc2 x (hY.mem_iff.mpr hx)
            rw [if_pos ⟨by omega, hall, hc3⟩]; exact h
          · exact absurd h (by simp)
        | none =>
          simp only at h ⊢
          split at h
          · rename_i hc
            obtain ⟨hc1, hc2, hc3⟩ := hc
            rw [List.all_eq_true] at hc2
            have hw : r'.length = r.length := by simpa using hc2 r' hr'
            have hall : (r' :: rs').all (fun x => x.length == r'.length) = true := by
              rw [List.all_eq_true]
              intro x hx; rw [hw]; exact hc2 x (hY.mem_iff.mpr hx)
            rw [if_pos ⟨by omega, hall, by rw [hw]; exact hc3⟩]
            rw [hw]; exact h
          · exact absurd h (by simp)
  cases h : validBatch c dimo X with
  | some d => exact key hX d h
  | none =>
    cases h' : validBatch c dimo X' with
    | none => rfl
    | some d => rw [key hX.symm d h'] at h; exact absurd h (by simp)

/-- `reset` when the reference is not split (`detect_batch ≠ 1`) -/
theorem reset_perm {s' : State α} (h1 : c.detectBatch ≠ 1) (hs : Rel s s') :
    OptRel Rel (reset c o s) (reset c o s') := by
  obtain ⟨r', hp, rfl⟩ := hs
  rw [reset_restarts c o s h1, reset_restarts c o _ h1]
  exact ⟨r', hp, by simp [hp.length_eq]⟩

/-- **one `update`**: related states, permuted batch, the same oracle inputs ⇒ both calls are
    rejected or both are accepted with related results.  Holds for `detect_batch ≠ 1`, and for
    `detect_batch = 1` too as long as no `reset` is pending (the state is not `drift`); the `reset`
    of `detect_batch = 1` splits the reference by position and is not covered. -/
theorem update_perm {s' : State α} {X X' : List (List α)} (h1 : c.detectBatch ≠ 1 ∨ s.drift ≠ .drift)
    (hs : Rel s s') (hX : X.Perm X') :
    OptRel Rel (update c o s X) (update c o s' X') := by
  have hf := hs.fields
  have hpre : OptRel Rel (if s.drift = .drift then reset c o s else some s)
      (if s'.drift = .drift then reset c o s' else some s') := by
    rw [hf.2.2.2.2.2.1]
    by_cases hd : s.drift = .drift
    · rw [if_pos hd, if_pos hd]
      rcases h1 with h1 | h1
      · exact reset_perm c o s h1 hs
      · exact absurd hd h1
    · rw [if_neg hd, if_neg hd]; exact hs
  unfold update
  rw [hf.2.2.1]
  cases hr : s.hasRef with
  | false => simp [OptRel]
  | true =>
    simp only [if_true]
    generalize (if s.drift = .drift then reset c o s else some s) = p at hpre
    generalize (if s'.drift = .drift then reset c o s' else some s') = p' at hpre
    cases p with
    | none => cases p' with
      | none => simp [OptRel]
      | some _ => exact absurd hpre (by simp [OptRel])
    | some t =>
      cases p' with
      | none => exact absurd hpre (by simp [OptRel])
      | some t' =>
        have ht : Rel t t' := hpre
        simp only
        rw [validBatch_perm c _ hX, ht.fields.2.1]
        cases validBatch c t.dim X with
        | none => simp [OptRel]
        | some d => exact updateCore_perm c o t d ht hX

/-- **`set_reference`** with permuted rows (`detect_batch ≠ 1`; with `detect_batch = 1` the new
    reference is halved by position at once) -/
theorem setReference_perm {s' : State α} {X X' : List (List α)} (h1 : c.detectBatch ≠ 1)
    (hs : Rel s s') (hX : X.Perm X') :
    OptRel Rel (setReference c o s X) (setReference c o s' X') := by
  obtain ⟨r', hp, rfl⟩ := hs
  unfold setReference
  rw [validBatch_perm c _ hX]
  show OptRel Rel _ (match validBatch c s.dim X with | none => none | some d => _)
  cases validBatch c s.dim X with
  | none => simp [OptRel]
  | some d =>
    simp only
    apply reset_perm c o _ h1
    exact ⟨X', hX, rfl⟩

/-- **one `update`, read off the public attributes**: if the call on the original rows is accepted,
    so is the call on the permuted rows, with the same distance, ε record, β, thresholds and drift
    decision, the same counters and `reference_n`, and a new reference that is a permutation of the
    other one. -/
theorem update_perm_observables {s' t : State α} {X X' : List (List α)}
    (h1 : c.detectBatch ≠ 1 ∨ s.drift ≠ .drift) (hs : Rel s s') (hX : X.Perm X')
    (ht : update c o s X = some t) :
    ∃ t', update c o s' X' = some t' ∧ t'.curDist = t.curDist ∧ t'.distances = t.distances ∧
      t'.epsValues = t.epsValues ∧ t'.eps = t.eps ∧ t'.beta = t.beta ∧ t'.thresholds = t.thresholds ∧
      t'.drift = t.drift ∧ t'.featInfo = t.featInfo ∧ t'.total = t.total ∧ t'.since = t.since ∧
      t'.refN = t.refN ∧ t.reference.Perm t'.reference := by
  have h := update_perm c o s h1 hs hX
  rw [ht] at h
  cases h' : update c o s' X' with
  | none => rw [h'] at h; exact absurd h (by simp [OptRel])
  | some t' =>
    rw [h'] at h
    have hf := Rel.fields (show Rel t t' from h)
    exact ⟨t', rfl, hf.2.2.2.2.2.2.2.2.2.2.2.2.2.1, hf.2.2.2.2.2.2.2.2.2.2.2.2.2.2.2.2.2.1,
      hf.2.2.2.2.2.2.2.2.2.2.2.2.2.2.2.2.2.2.1, hf.2.2.2.2.2.2.2.2.1, hf.2.2.2.2.2.2.2.2.2.2.2.2.2.2.2.1,
      hf.2.2.2.2.2.2.2.2.2.2.2.2.2.2.2.2.2.2.2, hf.2.2.2.2.2.1, hf.2.2.2.2.2.2.2.2.2.2.2.2.2.2.2.2.1,
      hf.2.2.2.1, hf.2.2.2.2.1, hf.2.2.2.2.2.2.1, hf.1⟩

/-! ### whole histories -/

/-- the same call with permuted rows and the same oracle inputs -/
def OpRel : Op α → Op α → Prop
  | .setRef X o, .setRef X' o' => X.Perm X' ∧ o = o'
  | .batch X o, .batch X' o' => X.Perm X' ∧ o = o'
  | _, _ => False

theorem step_perm {s' : State α} {op op' : Op α} (h1 : c.detectBatch ≠ 1) (hs : Rel s s')
    (ho : OpRel op op') : OptRel Rel (step c s op) (step c s' op') := by
  cases op with
  | setRef X o =>
    cases op' with
    | setRef X' o' => obtain ⟨hX, rfl⟩ := ho; exact setReference_perm c o s h1 hs hX
    | batch X' o' => exact absurd ho (by simp [OpRel])
  | batch X o =>
    cases op' with
    | setRef X' o' => exact absurd ho (by simp [OpRel])
    | batch X' o' => obtain ⟨hX, rfl⟩ := ho; exact update_perm c o s (Or.inl h1) hs hX

/-- **histories** (`detect_batch ≠ 1`, i.e. 2 or 3): two runs whose references and batches are row
    permutations of each other call by call, fed the same oracle inputs (ε₀ — the positional
    bootstrap of `detect_batch = 2` is an input of the model — and t-crit), are both rejected at the
    same call or both accepted, and end in states that differ in the row order of the reference
    only. -/
theorem run_perm {s s' : State α} {ops ops' : List (Op α)} (h1 : c.detectBatch ≠ 1) (hs : Rel s s')
    (ho : List.Forall₂ OpRel ops ops') : OptRel Rel (run c s ops) (run c s' ops') := by
  induction ho generalizing s s' with
  | nil => exact hs
  | @cons op op' ops ops' hop _ ih =>
    have h := step_perm c s h1 hs hop
    simp only [run]
    cases h2 : step c s op with
    | none =>
      cases h3 : step c s' op' with
      | none => simp [OptRel]
      | some t' => rw [h2, h3] at h; exact absurd h (by simp [OptRel])
    | some t =>
      cases h3 : step c s' op' with
      | none => rw [h2, h3] at h; exact absurd h (by simp [OptRel])
      | some t' =>
        rw [h2, h3] at h
        exact ih h

/-- what a caller can read after a call -/
structure Obs (α : Type) where
  drift : Drift
  curDist : Option α
  beta : Option α
  featEps : Option (List α)
  featInfo : Option (FeatInfo α)
  distances : List (Nat × α)
  epsValues : List (Nat × α)
  thresholds : List (Nat × α)
  total : Nat
  since : Nat
  refN : Nat

def obs (s : State α) : Obs α :=
  { drift := s.drift, curDist := s.curDist, beta := s.beta, featEps := s.featEps, featInfo := s.featInfo,
    distances := s.distances, epsValues := s.epsValues, thresholds := s.thresholds, total := s.total,
    since := s.since, refN := s.refN }

/-- the observables after every call of a history; `none` = the call was rejected (the trace stops) -/
def trace (c : Cfg α) : State α → List (Op α) → List (Option (Obs α))
  | _, [] => []
  | s, op :: ops => match step c s op with
    | some s' => some (obs s') :: trace c s' ops
    | none => [none]

theorem obs_rel {s s' : State α} (h : Rel s s') : obs s' = obs s := by
  obtain ⟨r', _, rfl⟩ := h
  rfl

/-- **distance / drift traces** (`detect_batch ≠ 1`): permuted runs with the same oracle inputs show
    the same observables after every call — distance, ε, β, drift state, the public dicts
    `distances` / `epsilon_values` / `thresholds`, `feature_info`, the counters. -/
theorem trace_perm {s s' : State α} {ops ops' : List (Op α)} (h1 : c.detectBatch ≠ 1) (hs : Rel s s')
    (ho : List.Forall₂ OpRel ops ops') : trace c s' ops' = trace c s ops := by
  induction ho generalizing s s' with
  | nil => rfl
  | @cons op op' ops ops' hop _ ih =>
    have h := step_perm c s h1 hs hop
    simp only [trace]
    cases h2 : step c s op with
    | none =>
      cases h3 : step c s' op' with
      | none => rfl
      | some t' => rw [h2, h3] at h; exact absurd h (by simp [OptRel])
    | some t =>
      cases h3 : step c s' op' with
      | none => rw [h2, h3] at h; exact absurd h (by simp [OptRel])
      | some t' =>
        rw [h2, h3] at h
        simp only
        rw [ih h, obs_rel h]

/-! ### `detect_batch = 3`: no bootstrap -/

theorem updateCore_eps0_irrelevant_db3 (h3 : c.detectBatch = 3) (e : α) (X : List (List α)) :
    updateCore c { o with eps0 := e } s dim X = updateCore c o s dim X := by
  have e4 : stepEpsList c { o with eps0 := e } s dim X = stepEpsList c o s dim X := by
    unfold stepEpsList; simp [h3]
  have e5 : stepThr c { o with eps0 := e } s dim X = stepThr c o s dim X := by
    unfold stepThr; rw [e4]
  unfold updateCore
  simp only [e4, e5]

/-- with `detect_batch = 3` the bootstrap estimate ε₀ is never read by `update` -/
theorem update_eps0_irrelevant_db3 (h3 : c.detectBatch = 3) (e : α) (X : List (List α)) :
    update c { o with eps0 := e } s X = update c o s X := by
  have h1 : c.detectBatch ≠ 1 := by omega
  unfold update
  rw [reset_restarts c o s h1, reset_restarts c _ s h1]
  simp only [updateCore_eps0_irrelevant_db3 c o _ _ h3 e X]

theorem setReference_eps0_irrelevant_db3 (h3 : c.detectBatch = 3) (e : α) (X : List (List α)) :
    setReference c { o with eps0 := e } s X = setReference c o s X := by
  have h1 : c.detectBatch ≠ 1 := by omega
  unfold setReference
  simp only [reset_restarts c o _ h1, reset_restarts c { o with eps0 := e } _ h1]

/-- the same call with permuted rows and the same t-critical value (ε₀ may differ) -/
def OpRel3 : Op α → Op α → Prop
  | .setRef X o, .setRef X' o' => X.Perm X' ∧ o.tcrit = o'.tcrit
  | .batch X o, .batch X' o' => X.Perm X' ∧ o.tcrit = o'.tcrit
  | _, _ => False

/-- replace the ε₀ of every call by those of another history -/
theorem step_eps0_db3 (h3 : c.detectBatch = 3) {op op' : Op α} (h : OpRel3 op op') :
    ∃ op'', OpRel op op'' ∧ step c s op'' = step c s op' ∧ ∀ t, step c t op'' = step c t op' := by
  cases op with
  | setRef X o =>
    cases op' with
    | setRef X' o' =>
      obtain ⟨hX, ht⟩ := h
      refine ⟨.setRef X' o, ⟨hX, rfl⟩, ?_, ?_⟩
      all_goals
        intros
        have : o = { o' with eps0 := o.eps0 } := by
          obtain ⟨a, b⟩ := o; obtain ⟨a', b'⟩ := o'; simp_all
        simp only [step]
        rw [this]; exact setReference_eps0_irrelevant_db3 c o' _ h3 _ X'
    | batch X' o' => exact absurd h (by simp [OpRel3])
  | batch X o =>
    cases op' with
    | setRef X' o' => exact absurd h (by simp [OpRel3])
    | batch X' o' =>
      obtain ⟨hX, ht⟩ := h
      refine ⟨.batch X' o, ⟨hX, rfl⟩, ?_, ?_⟩
      all_goals
        intros
        have : o = { o' with eps0 := o.eps0 } := by
          obtain ⟨a, b⟩ := o; obtain ⟨a', b'⟩ := o'; simp_all
        simp only [step]
        rw [this]; exact update_eps0_irrelevant_db3 c o' _ h3 _ X'

/-- **distance / drift traces, `detect_batch = 3`**: no bootstrap is involved; permuted runs show the
    same observables after every call provided the t-critical values agree (the real code computes
    them from `reference_n + test_n`, which permutations do not change). -/
theorem trace_perm_db3 {s s' : State α} {ops ops' : List (Op α)} (h3 : c.detectBatch = 3) (hs : Rel s s')
    (ho : List.Forall₂ OpRel3 ops ops') : trace c s' ops' = trace c s ops := by
  have h1 : c.detectBatch ≠ 1 := by omega
  have : ∃ ops'', List.Forall₂ OpRel ops ops'' ∧ ∀ t, trace c t ops'' = trace c t ops' := by
    clear hs
    induction ho with
    | nil => exact ⟨[], List.Forall₂.nil, fun _ => rfl⟩
    | @cons op op' ops ops' hop _ ih =>
      obtain ⟨ops'', hr, ht⟩ := ih
      obtain ⟨op'', hr1, _, ht1⟩ := step_eps0_db3 c s h3 hop
      refine ⟨op'' :: ops'', List.Forall₂.cons hr1 hr, ?_⟩
      intro t
      simp only [trace, ht1 t]
      cases step c t op' with
      | none => rfl
      | some u => simp only [ht u]
  obtain ⟨ops'', hr, ht⟩ := this
  rw [← ht s']
  exact trace_perm c h1 hs hr

end perm

/-! ### non-vacuity -/
namespace Demo18
open MV.HDM.Demo
local instance : HasSqrt Int := ⟨id⟩
local instance : HasLogExp Int := ⟨id, id⟩
local instance : HasLog1p Int := ⟨id⟩
local instance : HasTrunc Int := ⟨Int.toNat⟩

/-- the C07 demo history continued by a drifting batch and two more batches … -/
def opsA : List (Op Int) :=
  Demo.ops ++ [.batch [[0], [0], [0], [0], [4]] Demo.o, .batch [[0], [4], [4]] Demo.o,
    .batch [[4], [0], [0]] Demo.o]

/-- … and the same history with the rows of every call reordered, and different (unread) ε₀ -/
def opsB : List (Op Int) :=
  [.setRef [[4], [0]] { eps0 := 7, tcrit := 0 }, .batch [[4], [0]] { eps0 := 8, tcrit := 0 },
   .batch [[4], [0]] { eps0 := 9, tcrit := 0 }, .batch [[0], [4], [0], [0], [0]] { eps0 := 1, tcrit := 0 },
   .batch [[4], [0], [4]] { eps0 := 2, tcrit := 0 }, .batch [[0], [0], [4]] { eps0 := 3, tcrit := 0 }]

theorem ops_rel : List.Forall₂ OpRel3 opsA opsB := by
  refine .cons ⟨?_, rfl⟩ (.cons ⟨?_, rfl⟩ (.cons ⟨?_, rfl⟩ (.cons ⟨?_, rfl⟩ (.cons ⟨?_, rfl⟩
    (.cons ⟨?_, rfl⟩ .nil)))))
  all_goals decide

/-- the permuted history is accepted, drifts at its fourth batch (the batch becomes the reference,
    `reset` runs at the next call) and goes on: (drift state, distance, reference_n) per call -/
example : (trace Demo.cfg init opsB).map (fun x => x.map (fun y => (y.drift, y.curDist, y.refN))) =
    [some (.none, none, 2), some (.none, some 2, 4), some (.none, some 1, 6), some (.drift, some 4, 6),
     some (.none, some 1, 8), some (.none, some 2, 11)] := by decide +kernel

/-- `trace_perm_db3` applies to the pair of histories -/
example : trace Demo.cfg init opsB = trace Demo.cfg init opsA :=
  trace_perm_db3 Demo.cfg rfl (Rel.refl _) ops_rel

/-- `detect_batch = 1` is rightly excluded: `set_reference` halves the data by position, and two
    row orders of the same eight rows give different recorded distances (0 vs 2) -/
example :
    (setReference { Demo.cfg with detectBatch := 1 } Demo.o init
        [[0], [0], [0], [0], [4], [4], [4], [4]]).map (·.distances) = some [(1, 0)] ∧
    (setReference { Demo.cfg with detectBatch := 1 } Demo.o init
        [[0], [4], [0], [4], [0], [4], [0], [4]]).map (·.distances) = some [(1, 2)] := by
  decide +kernel

example : histPair 2 ([[0], [4], [1]] : List (List Int)) [[4], [3]] 0 = ([2, 1], [0, 2]) ∧
    histPair 2 ([[1], [0], [4]] : List (List Int)) [[3], [4]] 0 = ([2, 1], [0, 2]) := by decide

end Demo18

end MV.HDM.C18

/-! ## NNSP / NNDVI -/
namespace MV.NNSP.C18

section perm
variable {α : Type} [LinearOrder α]

/-- a strictly sorted list is determined by its set of members -/
theorem sorted_ext {l l' : List (Row α)} (h : l.Pairwise (· < ·)) (h' : l'.Pairwise (· < ·))
    (hm : ∀ x, x ∈ l ↔ x ∈ l') : l = l' := by
  have hn : l.Nodup := h.imp (fun h => ne_of_lt h)
  have hn' : l'.Nodup := h'.imp (fun h => ne_of_lt h)
  have hp : l.Perm l' := (List.perm_ext_iff_of_nodup hn hn').mpr hm
  exact List.Perm.eq_of_pairwise (le := (· < ·)) (fun a b _ _ hab hba => absurd hba (not_lt_of_gt hab)) h h' hp

/-- `np.unique(axis=0)` depends on the *set* of rows only -/
theorem unique_ext {l l' : List (Row α)} (hm : ∀ x, x ∈ l ↔ x ∈ l') : unique l = unique l' := by
  obtain ⟨h1, h2⟩ := unique_spec l
  obtain ⟨h1', h2'⟩ := unique_spec l'
  exact sorted_ext h1 h1' (fun x => by rw [h2, h2', hm])

/-- **pool**: `np.unique(axis=0)` of permuted rows -/
theorem unique_perm {l l' : List (Row α)} (h : l.Perm l') : unique l = unique l' :=
  unique_ext (fun _ => h.mem_iff)

/-- **pool, v1, v2** are the same for permuted samples -/
theorem parts_perm {s1 s1' s2 s2' : List (Row α)} (h1 : s1.Perm s1') (h2 : s2.Perm s2') :
    parts s1 s2 = parts s1' s2' := by
  have hp : (parts s1 s2).pool = (parts s1' s2').pool := unique_perm (h1.append h2)
  have hv1 : (parts s1 s2).v1 = (parts s1' s2').v1 := by
    rw [v1_exact, v1_exact, hp]
    apply List.map_congr_left
    intro p _
    exact decide_eq_decide.mpr h1.mem_iff
  have hv2 : (parts s1 s2).v2 = (parts s1' s2').v2 := by
    rw [v2_exact, v2_exact, hp]
    apply List.map_congr_left
    intro p _
    exact decide_eq_decide.mpr h2.mem_iff
  generalize parts s1 s2 = a at hp hv1 hv2
  generalize parts s1' s2' = b at hp hv1 hv2
  obtain ⟨_, _, _⟩ := a
  obtain ⟨_, _, _⟩ := b
  simp_all

/-- the pooled distinct points `D` (DESIGN: `pool_perm`) -/
theorem pool_perm {s1 s1' s2 s2' : List (Row α)} (h1 : s1.Perm s1') (h2 : s2.Perm s2') :
    (parts s1 s2).pool = (parts s1' s2').pool := by rw [parts_perm h1 h2]

/-- the membership vectors (DESIGN: `member_perm`) -/
theorem member_perm {s1 s1' s2 s2' : List (Row α)} (h1 : s1.Perm s1') (h2 : s2.Perm s2') :
    (parts s1 s2).v1 = (parts s1' s2').v1 ∧ (parts s1 s2).v2 = (parts s1' s2').v2 := by
  rw [parts_perm h1 h2]; exact ⟨rfl, rfl⟩

end perm

section build
variable {α : Type} [LinearOrder α] [Add α] [Sub α] [Mul α] [NatCast α]

/-- **`build`** on permuted samples with the same adjacency input: the same pool, membership
    vectors, validity flag of the adjacency matrix, and NNPS matrix -/
theorem build_perm (k : Nat) {s1 s1' s2 s2' : List (Row α)} (h1 : s1.Perm s1') (h2 : s2.Perm s2')
    (adj : List (List Bool)) : build k s1 s2 adj = build k s1' s2' adj := by
  unfold build
  rw [parts_perm h1 h2]

end build

section dist
variable {α : Type} [LinearOrder α] [Add α] [Sub α] [Mul α] [Div α] [Neg α] [NatCast α]

/-- **distance**: `compute_nnps_distance` after `build` on permuted samples -/
theorem nnps_distance_perm (k : Nat) {s1 s1' s2 s2' : List (Row α)} (h1 : s1.Perm s1') (h2 : s2.Perm s2')
    (adj : List (List Bool)) :
    (build k s1 s2 adj).map (fun b => (nnpsDistance b.nnps b.v1 b.v2 : α)) =
      (build k s1' s2' adj).map (fun b => (nnpsDistance b.nnps b.v1 b.v2 : α)) := by
  rw [build_perm k h1 h2]

end dist

example : (parts [[1], [2], [2], [0]] [[5], [1]] : Parts Nat).pool = [[0], [1], [2], [5]] ∧
    (parts [[1], [2], [2], [0]] [[5], [1]] : Parts Nat).v1 = [true, true, true, false] ∧
    (parts [[1], [2], [2], [0]] [[5], [1]] : Parts Nat).v2 = [false, true, false, true] ∧
    (parts [[2], [0], [2], [1]] [[1], [5]] : Parts Nat).v1 = [true, true, true, false] := by decide

end MV.NNSP.C18

namespace MV.NNDVI.C18
open MV MV.C18 MV.NNSP MV.NNSP.C18

section perm
variable {α : Type} [LinearOrder α] [Add α] [Sub α] [Mul α] [Div α] [Neg α] [NatCast α] [HasSqrt α]

/-- references that are row permutations of each other (or both unset) -/
def RefRel : Option (List (Row α)) → Option (List (Row α)) → Prop := OptRel List.Perm

/-- two NNDVI states that differ only in the row order of the stored reference -/
def Rel (s s' : State α) : Prop := ∃ r', RefRel s.reference r' ∧ s' = { s with reference := r' }

theorem Rel.refl (s : State α) : Rel s s := by
  refine ⟨s.reference, ?_, rfl⟩
  cases s.reference with
  | none => trivial
  | some r => exact List.Perm.refl r

theorem Rel.fields {s s' : State α} (h : Rel s s') :
    RefRel s.reference s'.reference ∧ s'.total = s.total ∧ s'.since = s.since ∧ s'.drift = s.drift := by
  obtain ⟨r', hp, rfl⟩ := h
  exact ⟨hp, rfl, rfl, rfl⟩

theorem setReference_perm {s s' : State α} {X X' : List (Row α)} (hs : Rel s s') (hX : X.Perm X') :
    Rel (setReference s X) (setReference s' X') := by
  obtain ⟨r', _, rfl⟩ := hs
  exact ⟨some X', hX, rfl⟩

/-- **one NNDVI `update`** on related states with a permuted batch, the same adjacency input and
    the same draws: the same output (rejected, or distance / threshold / validity flag), hence the
    same drift decision, and related states afterwards. -/
theorem nndvi_step_perm (c : Cfg α) {s s' : State α} {X X' : List (Row α)} (hs : Rel s s') (hX : X.Perm X')
    (adj : List (List Bool)) (perms : List (List Nat)) :
    (step c s' X' adj perms).2 = (step c s X adj perms).2 ∧
    Rel (step c s X adj perms).1 (step c s' X' adj perms).1 := by
  obtain ⟨r', hp, rfl⟩ := hs
  unfold step
  simp only
  have hr : ∀ t : State α, (if t.drift = .drift then reset t else t).reference = t.reference := by
    intro t; split <;> simp [reset]
  have h0 : (if s.drift = .drift then reset { s with reference := r' } else { s with reference := r' }) =
      { (if s.drift = .drift then reset s else s) with reference := r' } := by
    split <;> simp [reset]
  rw [h0]
  have hr0 := hr s
  generalize (if s.drift = .drift then reset s else s) = s0 at hr0
  simp only [hr0]
  cases href : s.reference with
  | none =>
    rw [href] at hp
    cases r' with
    | none => exact ⟨rfl, ⟨none, trivial, rfl⟩⟩
    | some _ => exact absurd hp (by simp [RefRel, OptRel])
  | some ref =>
    rw [href] at hp
    cases r' with
    | none => exact absurd hp (by simp [RefRel, OptRel])
    | some ref' =>
      have hp' : ref.Perm ref' := hp
      simp only
      rw [← build_perm c.k hp' hX adj]
      cases build c.k ref X adj with
      | none => exact ⟨rfl, ⟨some ref', hp', rfl⟩⟩
      | some b =>
        simp only
        split
        · exact ⟨rfl, ⟨some X', hX, rfl⟩⟩
        · exact ⟨rfl, ⟨some ref', hp', rfl⟩⟩

/-! ### whole histories -/

inductive Op (α : Type) where
  | setRef (X : List (Row α))
  | batch (X : List (Row α)) (adj : List (List Bool)) (perms : List (List Nat))

/-- the same call with permuted rows, the same adjacency matrix and the same draws -/
def OpRel : Op α → Op α → Prop
  | .setRef X, .setRef X' => X.Perm X'
  | .batch X adj perms, .batch X' adj' perms' => X.Perm X' ∧ adj = adj' ∧ perms = perms'
  | _, _ => False

def stepOp (c : Cfg α) (s : State α) : Op α → State α × Option (Out α)
  | .setRef X => (setReference s X, none)
  | .batch X adj perms => ((step c s X adj perms).1, some (step c s X adj perms).2)

/-- what every call of a history shows: the output of `update` (none for `set_reference`), the
    drift state and the counters -/
def trace (c : Cfg α) : State α → List (Op α) → List (Option (Out α) × Drift × Nat × Nat)
  | _, [] => []
  | s, op :: ops =>
    ((stepOp c s op).2, (stepOp c s op).1.drift, (stepOp c s op).1.total, (stepOp c s op).1.since) ::
      trace c (stepOp c s op).1 ops

theorem stepOp_perm (c : Cfg α) {s s' : State α} {op op' : Op α} (hs : Rel s s') (ho : OpRel op op') :
    (stepOp c s' op').2 = (stepOp c s op).2 ∧ Rel (stepOp c s op).1 (stepOp c s' op').1 := by
  cases op with
  | setRef X =>
    cases op' with
    | setRef X' => exact ⟨rfl, setReference_perm hs ho⟩
    | batch X' adj' perms' => exact absurd ho (by simp [OpRel])
  | batch X adj perms =>
    cases op' with
    | setRef X' => exact absurd ho (by simp [OpRel])
    | batch X' adj' perms' =>
      obtain ⟨hX, rfl, rfl⟩ := ho
      have h := nndvi_step_perm c hs hX adj perms
      exact ⟨by simp only [stepOp]; rw [h.1], h.2⟩

/-- **NNDVI histories**: two runs whose references and batches are row permutations of each other
    call by call, given the same k-NN graphs and the same draws, report the same distances,
    thresholds and drift decisions at every call, and end in related states. -/
theorem nndvi_trace_perm (c : Cfg α) {s s' : State α} {ops ops' : List (Op α)} (hs : Rel s s')
    (ho : List.Forall₂ OpRel ops ops') : trace c s' ops' = trace c s ops := by
  induction ho generalizing s s' with
  | nil => rfl
  | cons hop _ ih =>
    obtain ⟨h1, h2⟩ := stepOp_perm c hs hop
    simp only [trace]
    rw [ih h2, h1, h2.fields.2.1, h2.fields.2.2.1, h2.fields.2.2.2]

/-- the same for C10's `run` / `flags` (histories of `update` only) -/
theorem nndvi_flags_perm (c : Cfg α) {s s' : State α}
    {ops ops' : List (List (Row α) × List (List Bool) × List (List Nat))} (hs : Rel s s')
    (ho : List.Forall₂ (fun a b => a.1.Perm b.1 ∧ a.2 = b.2) ops ops') :
    flags c s' ops' = flags c s ops ∧ Rel (run c s ops) (run c s' ops') := by
  induction ho generalizing s s' with
  | nil => exact ⟨rfl, hs⟩
  | @cons a b as bs hop _ ih =>
    obtain ⟨hX, h2⟩ := hop
    have h := nndvi_step_perm c hs hX a.2.1 a.2.2
    have hb : step c s' b.1 b.2.1 b.2.2 = step c s' b.1 a.2.1 a.2.2 := by rw [h2]
    simp only [flags, run, hb]
    obtain ⟨i1, i2⟩ := ih h.2
    rw [i1, h.2.fields.2.2.2]
    exact ⟨rfl, i2⟩

end perm

/-! ### non-vacuity (C10's demo detector at ℚ) -/
deriving instance DecidableEq for Out

section Demo18
local instance : HasSqrt ℚ := ⟨fun x => x⟩

/-- reference {0,1} against batch {2,3}, rows of both reordered: the same output (drift) -/
example : (step demoCfg (setReference init [[1], [0]]) [[3], [2]] demoAdj [[0, 1, 2, 3], [0, 2, 1, 3]]).2 =
    (step demoCfg demoState [[2], [3]] demoAdj [[0, 1, 2, 3], [0, 2, 1, 3]]).2 ∧
    (step demoCfg (setReference init [[1], [0]]) [[3], [2]] demoAdj [[0, 1, 2, 3], [0, 2, 1, 3]]).1.drift = .drift := by
  decide +kernel

example : Rel demoState (setReference init [[1], [0]]) :=
  ⟨some [[1], [0]], List.Perm.swap _ _ _, rfl⟩

end Demo18

end MV.NNDVI.C18
