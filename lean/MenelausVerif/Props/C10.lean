/-
  C10 — NN-DVI measures neighbourhood density change between exactly the given batches.

  Statement (properties.jsonl): NNSpacePartitioner marks, for any two samples of any
  sizes, exactly the points of the first sample in v1 and exactly those of the second in
  v2 over the de-duplicated union, its adjacency matrix is the k-nearest-neighbour
  relation (each point included) of that union, and the NNPS distance is symmetric in the
  two samples, lies in [0, 1] and is 0 when both samples are the same set.  NNDVI reports
  drift for a test batch exactly when its NNPS distance to the reference exceeds the
  (1 - alpha) quantile of the normal distribution fitted to the distances obtained under
  sampling_times random re-assignments of the pooled points; on drift the test batch
  becomes the reference, otherwise the reference is kept.

  How the theorems below cover it (model: Model/NNSP.lean).
    * pool / membership  (every linearly ordered coordinate type; rows of any width, any
      sizes, duplicates anywhere):  `pool_spec`, `v1_exact`, `v2_exact`, `cover`.
    * adjacency: an *input* of the model (sklearn's search), validated by the executable
      predicate `isKnnRelation`; `isKnn_iff` says the predicate *is* the k-NN relation with
      self-inclusion, ties free (every carrier, no law used).  That sklearn's answer passes is checked per case by the
      correspondence check, not proved.
    * weights: `weights_uniform` (k ones per row ⇒ nnps_matrix = adjacency).
    * distance (every ordered field): `dist_range`, `dist_symm`, `dist_self`,
      `dist_same_set`; `vecMat_spec` (np.dot = column sums of the selected rows) and
      `build_denominators_pos` (no 0/0 for a built partition: each point is its own
      neighbour and belongs to a sample), so the field statements are not true merely
      because `x / 0 = 0` in a field.
    * NNDVI (every carrier, no law used — in particular the executed Float instance):
      `shuffle_reassigns`, `threshold_def`, `nndvi_drift_iff`, `reference_replaced_iff_drift`,
      `step_counters`, `step_state_range`, `run_reference`; over ℝ: `threshold_real`, `threshold_zero_spread`
      (mean + z·(population standard deviation)).

  The threshold is defined for every list of re-assignment distances (also when they all
  coincide, std = 0, where it is their mean — /repo commit fe25b1e), so `nndvi_drift_iff`
  carries no definedness side condition; `threshold_zero_spread` records that case over ℝ.
-/
import MenelausVerif.Model.NNSP
import MenelausVerif.Lemmas.NNSPOrder
import MenelausVerif.Lemmas.NNSPDist
import MenelausVerif.Lemmas.NNSPKnn
import Mathlib.Analysis.Real.Sqrt
namespace MV.NNSP

/-! ## pool and membership -/
section Membership
variable {α : Type} [LinearOrder α]

/-- `D` is strictly increasing lexicographically (so duplicate-free) and consists of exactly
    the rows of the two samples. -/
theorem pool_spec (s1 s2 : List (Row α)) :
    (parts s1 s2).pool.Pairwise (· < ·) ∧ ∀ x, x ∈ (parts s1 s2).pool ↔ x ∈ s1 ∨ x ∈ s2 := by
  have h := unique_spec (s1 ++ s2)
  exact ⟨h.1, fun x => by rw [← List.mem_append]; exact h.2 x⟩

/-- `v1[i] = 1 ↔ D[i] ∈ sample1` — for samples of any (equal or unequal) sizes. -/
theorem v1_exact (s1 s2 : List (Row α)) :
    (parts s1 s2).v1 = (parts s1 s2).pool.map (fun p => decide (p ∈ s1)) := by
  have h := onehot_index (unique (s1 ++ s2)) (unique_nodup _) s1
  show onehot (unique (s1 ++ s2)).length (((s1 ++ s2).map (indexIn (unique (s1 ++ s2)))).take s1.length) = _
  rw [List.map_append, List.take_left' (by simp)]
  exact h

theorem v2_exact (s1 s2 : List (Row α)) :
    (parts s1 s2).v2 = (parts s1 s2).pool.map (fun p => decide (p ∈ s2)) := by
  have h := onehot_index (unique (s1 ++ s2)) (unique_nodup _) s2
  show onehot (unique (s1 ++ s2)).length (((s1 ++ s2).map (indexIn (unique (s1 ++ s2)))).drop s1.length) = _
  rw [List.map_append, List.drop_left' (by simp)]
  exact h

/-- index form of `v1_exact` / `v2_exact` -/
theorem v1_exact_get (s1 s2 : List (Row α)) (i : Nat) (hi : i < (parts s1 s2).pool.length) :
    (parts s1 s2).v1[i]? = some true ↔ (parts s1 s2).pool[i] ∈ s1 := by
  rw [v1_exact]; simp [hi]

theorem v2_exact_get (s1 s2 : List (Row α)) (i : Nat) (hi : i < (parts s1 s2).pool.length) :
    (parts s1 s2).v2[i]? = some true ↔ (parts s1 s2).pool[i] ∈ s2 := by
  rw [v2_exact]; simp [hi]

/-- every pooled point belongs to at least one of the samples -/
theorem cover (s1 s2 : List (Row α)) (i : Nat) (hi : i < (parts s1 s2).pool.length) :
    (parts s1 s2).v1.getD i false = true ∨ (parts s1 s2).v2.getD i false = true := by
  have hm := ((pool_spec s1 s2).2 ((parts s1 s2).pool[i])).mp (List.getElem_mem hi)
  rw [v1_exact, v2_exact]
  simp only [List.getD_eq_getElem?_getD, List.getElem?_map, List.getElem?_eq_getElem hi, Option.map_some,
    Option.getD_some, decide_eq_true_eq]
  exact hm

example : (parts [[2], [0], [2], [1]] [[1], [5]] : Parts Nat).pool = [[0], [1], [2], [5]] ∧
    (parts [[2], [0], [2], [1]] [[1], [5]] : Parts Nat).v1 = [true, true, true, false] ∧
    (parts [[2], [0], [2], [1]] [[1], [5]] : Parts Nat).v2 = [false, true, false, true] := by decide

end Membership

/-! ## weights -/

/-- when every row of the adjacency matrix has `k ≥ 1` ones (as a k-NN graph has), the
    weights are all 1: `nnps_matrix = adjacency_matrix` -/
theorem weights_uniform (adj : List (List Bool)) (k : Nat) (hk : 0 < k)
    (h : ∀ row ∈ adj, row.count true = k) :
    nnpsMatrix adj = adj.map (fun row => row.map (fun b => if b then 1 else 0)) :=
  nnpsMatrix_uniform adj k hk h

example : nnpsMatrix [[true, true, false], [false, true, true], [true, false, true]] =
    [[1, 1, 0], [0, 1, 1], [1, 0, 1]] := by decide

/-- non-uniform row sums (not a k-NN graph) are normalised by lcm / row sum -/
example : nnpsMatrix [[true, true, false], [false, true, false], [true, true, true]] =
    [[3, 3, 0], [0, 6, 0], [2, 2, 2]] := by decide

/-! ## the k-NN predicate -/
section Knn
variable {α : Type} [LT α] [DecidableLT α] [Add α] [Sub α] [Mul α] [NatCast α]

/-- The validation predicate is exactly the k-nearest-neighbour relation with self-inclusion:
    `adj` is a square 0/1 matrix over the pool, every row has exactly `k` ones, every point is
    its own neighbour, and no excluded point is strictly closer (squared Euclidean distance)
    than an included one — ties may be broken either way.  No law of the carrier is used. -/
theorem isKnn_iff (D : List (Row α)) (k : Nat) (adj : List (List Bool)) :
    isKnnRelation D k adj = true ↔
    (adj.length = D.length ∧
     ∀ i (hi : i < D.length) (hi' : i < adj.length),
      adj[i].length = D.length ∧ adj[i].count true = k ∧ adj[i].getD i false = true ∧
      ∀ j l (hj : j < D.length) (hl : l < D.length), adj[i].getD j false = true → adj[i].getD l false = false →
        ¬ sqDist D[i] D[l] < sqDist D[i] D[j]) :=
  ⟨isKnnRelation_sound D k adj, fun h => isKnnRelation_complete D k adj h.1 h.2⟩

example : isKnnRelation ([[0], [1], [3]] : List (Row Int)) 2
    [[true, true, false], [true, true, false], [false, true, true]] = true := by decide

/-- a row that prefers a farther point is rejected -/
example : isKnnRelation ([[0], [1], [3]] : List (Row Int)) 2
    [[true, false, true], [true, true, false], [false, true, true]] = false := by decide

end Knn

/-! ## no vanishing denominators (any linearly ordered carrier, no arithmetic law) -/
section Denominators
variable {α : Type} [LinearOrder α] [Add α] [Sub α] [Mul α] [NatCast α]

/-- for a partition built from a valid k-NN graph the distance is a sum of |D| honest
    fractions: no denominator vanishes -/
theorem build_denominators_pos (k : Nat) (s1 s2 : List (Row α)) (adj : List (List Bool)) (b : Built α)
    (hb : build k s1 s2 adj = some b) (hok : b.knnOk = true) (j : Nat) (hj : j < b.pool.length) :
    0 < (vecMat b.v1 b.nnps (ncols b.nnps)).getD j 0 + (vecMat b.v2 b.nnps (ncols b.nnps)).getD j 0 := by
  simp only [build] at hb
  split at hb
  · exact absurd hb (by simp)
  · rename_i hk
    simp only [Option.some.injEq] at hb
    subst hb
    simp only at hok hj ⊢
    have hk' : 0 < k := by omega
    exact denominators_pos (parts s1 s2).pool k hk' adj hok (parts s1 s2).v1 (parts s1 s2).v2 j hj (cover s1 s2 j hj)

end Denominators

/-! ## the distance over an ordered field -/
section Distance
variable {K : Type} [Field K] [LinearOrder K] [IsStrictOrderedRing K]

/-- the distance lies in [0, 1] whenever the matrix is not wider than the membership vectors
    (for a built partition both are |D|) -/
theorem dist_range (M : List (List Nat)) (v1 v2 : List Bool) (h : ncols M ≤ v1.length) :
    (0 : K) ≤ nnpsDistance M v1 v2 ∧ (nnpsDistance M v1 v2 : K) ≤ 1 := by
  unfold nnpsDistance
  obtain ⟨h0, h1⟩ := termSum_bounds (K := K) (vecMat v1 M (ncols M)) (vecMat v2 M (ncols M))
  have hn : (0 : K) ≤ ((v1.length : Nat) : K) := Nat.cast_nonneg _
  refine ⟨div_nonneg h0 hn, div_le_one_of_le₀ (le_trans h1 ?_) hn⟩
  exact_mod_cast le_trans (vecMat_length_le v1 M (ncols M)) h

/-- symmetric in the two samples -/
theorem dist_symm (M : List (List Nat)) (v1 v2 : List Bool) (h : v1.length = v2.length) :
    (nnpsDistance M v1 v2 : K) = nnpsDistance M v2 v1 := by
  simp only [nnpsDistance]
  have : ∀ m1 m2 : List Nat, List.zipWith (term (α := K)) m1 m2 = List.zipWith (term (α := K)) m2 m1 := by
    intro m1 m2
    rw [List.zipWith_comm]
    congr 1
    funext a b
    exact term_comm b a
  rw [this, h]

/-- identical membership vectors ⇒ distance 0 -/
theorem dist_self (M : List (List Nat)) (v : List Bool) : (nnpsDistance M v v : K) = 0 := by
  simp only [nnpsDistance]
  have : ∀ m : List Nat, (List.zipWith (term (α := K)) m m).foldl (· + ·) ((0 : Nat) : K) = 0 := by
    intro m
    rw [foldl_add_eq_sum, Nat.cast_zero, zero_add]
    apply List.sum_eq_zero
    intro x hx
    rw [List.zipWith_self] at hx
    obtain ⟨a, _, rfl⟩ := List.mem_map.mp hx
    exact term_self a
  rw [this]; simp

/-- two samples with the same *set* of points (any multiplicities, any order, any sizes) are at distance 0 -/
theorem dist_same_set (s1 s2 : List (Row K)) (hset : ∀ x, x ∈ s1 ↔ x ∈ s2) (M : List (List Nat)) :
    (nnpsDistance M (parts s1 s2).v1 (parts s1 s2).v2 : K) = 0 := by
  have : (parts s1 s2).v1 = (parts s1 s2).v2 := by
    rw [v1_exact, v2_exact]
    apply List.map_congr_left
    intro p _
    simp [hset p]
  rw [this]; exact dist_self M _

/-- in a built partition both membership vectors and the matrix have size |D| -/
theorem build_dist_range (k : Nat) (s1 s2 : List (Row K)) (adj : List (List Bool)) (b : Built K)
    (hb : build k s1 s2 adj = some b) (hok : b.knnOk = true) :
    (0 : K) ≤ nnpsDistance b.nnps b.v1 b.v2 ∧ (nnpsDistance b.nnps b.v1 b.v2 : K) ≤ 1 ∧
    (nnpsDistance b.nnps b.v1 b.v2 : K) = nnpsDistance b.nnps b.v2 b.v1 := by
  simp only [build] at hb
  split at hb
  · exact absurd hb (by simp)
  · simp only [Option.some.injEq] at hb
    subst hb
    simp only at hok ⊢
    have hl1 : (parts s1 s2).v1.length = (parts s1 s2).pool.length := by rw [v1_exact]; simp
    have hl2 : (parts s1 s2).v2.length = (parts s1 s2).pool.length := by rw [v2_exact]; simp
    have hc : ncols (nnpsMatrix adj) ≤ (parts s1 s2).v1.length := by
      rw [hl1]; exact ncols_nnps_le (parts s1 s2).pool k adj hok
    exact ⟨(dist_range _ _ _ hc).1, (dist_range _ _ _ hc).2, dist_symm _ _ _ (by rw [hl1, hl2])⟩

/-- a concrete distance: D = {0,1,2,3}, k = 2, s1 = {0,1}, s2 = {2,3} -/
example : (nnpsDistance [[1, 1, 0, 0], [1, 1, 0, 0], [0, 0, 1, 1], [0, 0, 1, 1]]
    [true, true, false, false] [false, false, true, true] : ℚ) = 1 := by
  simp [nnpsDistance, vecMat, ncols, term, absOf]; norm_num

example : (nnpsDistance [[1, 1, 0, 0], [0, 1, 1, 0], [0, 1, 1, 0], [0, 0, 1, 1]]
    [true, true, false, false] [false, true, true, true] : ℚ) = 5 / 8 := by
  simp [nnpsDistance, vecMat, ncols, term, absOf]; norm_num

end Distance

end MV.NNSP

/-! ## NNDVI -/
namespace MV.NNDVI
open MV MV.NNSP

section Lifecycle
variable {α : Type} [LT α] [DecidableLT α] [Add α] [Sub α] [Mul α] [Div α] [Neg α] [NatCast α] [HasSqrt α]

omit [Neg α] [LT α] [DecidableLT α] in
/-- the threshold is `z·std + mean` of the re-assignment distances (the code's operation order),
    for every list of distances -/
theorem threshold_def (z : α) (ds : List α) : threshold z ds = z * stdPop ds + mean ds := rfl

/-- NNDVI reports drift for a batch exactly when the batch is accepted and the distance between
    reference and batch strictly exceeds the threshold fitted to the re-assignment distances.
    (Hypothesis: the state before is `none` or `drift` — the only states NNDVI ever has,
    see `step_state_range`.) -/
theorem nndvi_drift_iff (c : Cfg α) (s : State α) (X : List (Row α)) (adj : List (List Bool))
    (perms : List (List Nat)) (hs : s.drift ≠ .warning) :
    (step c s X adj perms).1.drift = .drift ↔
      ∃ ref b, s.reference = some ref ∧ build c.k ref X adj = some b ∧
        threshold c.z (perms.map (shuffleDist b.nnps b.v1)) < nnpsDistance b.nnps b.v1 b.v2 := by
  unfold step
  have h0 : (if s.drift = .drift then reset s else s).drift = .none := by
    cases hd : s.drift <;> simp_all [reset]
  have hr : (if s.drift = .drift then reset s else s).reference = s.reference := by
    split <;> simp [reset]
  generalize (if s.drift = .drift then reset s else s) = s0 at h0 hr
  simp only
  cases href : s.reference with
  | none => simp [hr, href, h0]
  | some ref =>
    simp only [hr, href]
    cases hb : build c.k ref X adj with
    | none => simp [h0, hb]
    | some b =>
      simp only
      by_cases hlt : threshold c.z (perms.map (shuffleDist b.nnps b.v1)) < nnpsDistance b.nnps b.v1 b.v2
      · simp [exceeds, hlt, hb]
      · simp [exceeds, hlt, h0, hb]

/-- on drift the test batch becomes the reference, otherwise the reference is kept -/
theorem reference_replaced_iff_drift (c : Cfg α) (s : State α) (X : List (Row α)) (adj : List (List Bool))
    (perms : List (List Nat)) (hs : s.drift ≠ .warning) :
    (step c s X adj perms).1.reference =
      if (step c s X adj perms).1.drift = .drift then some X else s.reference := by
  unfold step
  have h0 : (if s.drift = .drift then reset s else s).drift = .none := by
    cases hd : s.drift <;> simp_all [reset]
  have hr : (if s.drift = .drift then reset s else s).reference = s.reference := by
    split <;> simp [reset]
  generalize (if s.drift = .drift then reset s else s) = s0 at h0 hr
  simp only
  cases href : s.reference with
  | none => simp [hr, href, h0]
  | some ref =>
    simp only [hr, href]
    cases hb : build c.k ref X adj with
    | none => simp [h0]
    | some b =>
      simp only
      split <;> simp [h0]

omit [Mul α] [HasSqrt α] in
/-- well-formed draws (what the driver checks before it answers): the threshold is fitted to exactly
    `sampling_times` re-assignment distances, each from a permutation of the pool indices -/
theorem draws_count (c : Cfg α) (s : State α) (X : List (Row α)) (perms : List (List Nat)) (ref : List (Row α))
    (href : s.reference = some ref) (h : drawsOk c s X perms = true) :
    (∀ (M : List (List Nat)) (v : List Bool), (perms.map (shuffleDist (α := α) M v)).length = c.samplingTimes) ∧
    ∀ π ∈ perms, isPerm (parts ref X).pool.length π = true := by
  unfold drawsOk at h
  simp only [href, Bool.and_eq_true, beq_iff_eq, List.all_eq_true] at h
  exact ⟨fun _ _ => by simp [h.1], h.2⟩

/-- counters: every call counts; `batches_since_reset` restarts after a drift -/
theorem step_counters (c : Cfg α) (s : State α) (X : List (Row α)) (adj : List (List Bool)) (perms : List (List Nat)) :
    (step c s X adj perms).1.total = s.total + 1 ∧
    (step c s X adj perms).1.since = (if s.drift = .drift then 0 else s.since) + 1 := by
  grind [step, reset]

/-- the state is only ever `none` or `drift` -/
theorem step_state_range (c : Cfg α) (s : State α) (X : List (Row α)) (adj : List (List Bool)) (perms : List (List Nat))
    (hs : s.drift ≠ .warning) : (step c s X adj perms).1.drift ≠ .warning := by
  grind [step, reset]

/-- a whole history of updates -/
def run (c : Cfg α) (s : State α) : List (List (Row α) × List (List Bool) × List (List Nat)) → State α
  | [] => s
  | op :: ops => run c (step c s op.1 op.2.1 op.2.2).1 ops

/-- the drift flags reported along a history -/
def flags (c : Cfg α) (s : State α) : List (List (Row α) × List (List Bool) × List (List Nat)) → List Bool
  | [] => []
  | op :: ops => decide ((step c s op.1 op.2.1 op.2.2).1.drift = .drift) :: flags c (step c s op.1 op.2.1 op.2.2).1 ops

/-- after any history the reference is the most recent batch that was reported as drift
    (the initially set reference if there was none) -/
theorem run_reference (c : Cfg α) (s : State α) (hs : s.drift ≠ .warning)
    (ops : List (List (Row α) × List (List Bool) × List (List Nat))) :
    (run c s ops).reference =
      (List.zip ops (flags c s ops)).foldl (fun r x => if x.2 = true then some x.1.1 else r) s.reference := by
  induction ops generalizing s with
  | nil => simp [run, flags]
  | cons op ops ih =>
    simp only [run, flags, List.zip_cons_cons, List.foldl_cons]
    rw [ih _ (step_state_range c s _ _ _ hs), reference_replaced_iff_drift c s _ _ _ hs]
    simp

/-- and the counters after any history -/
theorem run_total (c : Cfg α) (s : State α) (ops : List (List (Row α) × List (List Bool) × List (List Nat))) :
    (run c s ops).total = s.total + ops.length := by
  induction ops generalizing s with
  | nil => simp [run]
  | cons op ops ih => simp only [run, ih, (step_counters c s _ _ _).1, List.length_cons]; omega

end Lifecycle

/-! ### the random re-assignments -/

/-- a drawn index permutation re-assigns the pooled points: the shuffled first sample has as
    many points as the reference sample and the shuffled second sample is its complement -/
theorem shuffle_reassigns (v : List Bool) (π : List Nat) (h : isPerm v.length π = true) :
    (permute v π).length = v.length ∧ (permute v π).count true = v.count true ∧
    ((permute v π).map (!·)).count true = v.count false :=
  permute_counts v π h

example : isPerm 4 [2, 0, 3, 1] = true ∧ permute [true, true, false, false] [2, 0, 3, 1] = [false, true, false, true] := by
  decide

/-! ### the threshold over ℝ -/
section Real
noncomputable local instance : HasSqrt ℝ := ⟨Real.sqrt⟩

/-- over ℝ: `mean` is the arithmetic mean, `stdPop` the *population* standard deviation
    (divisor n), and the threshold is `mean + z·std` -/
theorem threshold_real (z : ℝ) (ds : List ℝ) :
    (mean ds = ds.sum / ds.length) ∧
    (0 ≤ stdPop ds) ∧
    (stdPop ds ^ 2 = (ds.map (fun d => (d - ds.sum / ds.length) ^ 2)).sum / ds.length) ∧
    (threshold z ds = ds.sum / ds.length + z * stdPop ds) := by
  have hm : mean ds = ds.sum / ds.length := by unfold mean; rw [sumL_eq_sum]
  refine ⟨hm, Real.sqrt_nonneg _, ?_, ?_⟩
  · unfold stdPop
    simp only [hm, sumL_eq_sum]
    show Real.sqrt _ ^ 2 = _
    rw [Real.sq_sqrt]
    · congr 2
      apply List.map_congr_left
      intro d _; ring
    · apply div_nonneg
      · apply List.sum_nonneg
        intro x hx
        obtain ⟨d, _, rfl⟩ := List.mem_map.mp hx
        exact mul_self_nonneg _
      · exact Nat.cast_nonneg _
  · rw [threshold_def, hm, add_comm]

/-- when all re-assignment distances coincide the threshold is that common value (for every z):
    drift is then reported iff the distance exceeds it -/
theorem threshold_zero_spread (z c : ℝ) (n : Nat) (hn : 0 < n) : threshold z (List.replicate n c) = c := by
  have hm : mean (List.replicate n c) = c := by
    unfold mean; rw [sumL_eq_sum]
    have : (n : ℝ) ≠ 0 := Nat.cast_ne_zero.mpr (by omega)
    simp [List.sum_replicate]; field_simp
  have hs : stdPop (List.replicate n c) = 0 := by
    unfold stdPop
    simp only [hm, List.map_replicate, sub_self, mul_zero, sumL_eq_sum, List.sum_replicate, smul_zero, zero_div]
    exact Real.sqrt_zero
  rw [threshold_def, hs, hm]; simp

/-- non-vacuity: the reproducer of the former NaN case — five equal distances 0, distance 1/5 -/
example : threshold (2 : ℝ) [0, 0, 0, 0, 0] < 1 / 5 := by
  have := threshold_zero_spread 2 0 5 (by norm_num)
  simp only [List.replicate] at this
  rw [this]; norm_num

end Real

/- non-vacuity of `nndvi_drift_iff` in both directions, at ℚ with a stand-in square root:
   reference {0,1}, batch {2,3} (k = 2): distance 1, re-assignment distances 0 and 1 -/
section Demo
local instance : HasSqrt ℚ := ⟨fun x => x⟩   -- any function will do for an example: std = variance here

def demoCfg : Cfg ℚ := { k := 2, samplingTimes := 2, z := 1 }
def demoAdj : List (List Bool) :=
  [[true, true, false, false], [true, true, false, false], [false, false, true, true], [false, false, true, true]]
def demoState : State ℚ := setReference init [[0], [1]]

example : (step demoCfg demoState [[2], [3]] demoAdj [[0, 1, 2, 3], [0, 2, 1, 3]]).1.drift = .drift ∧
    (step demoCfg demoState [[2], [3]] demoAdj [[0, 1, 2, 3], [0, 2, 1, 3]]).1.reference = some [[2], [3]] := by
  decide +kernel

example : (step demoCfg demoState [[0], [1], [1]] [[true, true], [true, true]] [[0, 1], [1, 0]]).1.drift = .none ∧
    (step demoCfg demoState [[0], [1], [1]] [[true, true], [true, true]] [[0, 1], [1, 0]]).1.reference = some [[0], [1]] := by
  decide +kernel

end Demo

end MV.NNDVI
