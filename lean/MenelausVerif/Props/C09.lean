/-
  C09 — kdq-tree detectors alarm exactly when the leaf divergence exceeds a bootstrap bound.

  Model: `Model/KdqDetect.lean` around the partitioner of `Model/KdqTree.lean`
  (transcription of menelaus/data_drift/kdq_tree.py).  The bootstrap index draws of
  `np.random.choice` are inputs of the model.  All theorems below hold for every carrier
  (no arithmetic law is used), hence for the executed `Float` instance; `sample_size_*`
  additionally use C08's conservation theorem (complementarity of the routing tests).
-/
import MenelausVerif.Model.KdqDetect
import MenelausVerif.Props.C08
set_option linter.unusedSectionVars false
set_option linter.unusedSimpArgs false
namespace MV.KdqDet
open MV MV.Kdq

variable {α : Type} [Inhabited α] [Add α] [Sub α] [Mul α] [Div α] [LT α] [DecidableLT α]
  [LE α] [DecidableLE α] [NatCast α] [BEq α] [HasLogExp α] [HasRint α] [HasTrunc α]

/-! ## Streaming: one update -/

/-- an update in state `"drift"` is an update of the reset detector: a new epoch starts -/
theorem stream_restart (c : SCfg α) (s : SState α) (x : List α) (d : List (List Nat)) (h : s.drift = .drift) :
    sStep c s x d = sStep c (sReset s) x d ∧
    (sReset s).tree = none ∧ (sReset s).refData = [] ∧ (sReset s).testSize = 0 ∧ (sReset s).counter = 0 ∧
    (sReset s).drift = .none ∧ (sReset s).since = 0 ∧ (sReset s).total = s.total := by
  simp [sStep, sReset, h]

/-- the detector state at the start of the update proper (after the reset-if-drift) -/
def sPre (s : SState α) : SState α := if s.drift = .drift then sReset s else s

theorem sPre_not_drift (s : SState α) : (sPre s).drift ≠ .drift := by
  unfold sPre; split <;> simp_all [sReset]

theorem sStep_eq (c : SCfg α) (s : SState α) (x : List α) (d : List (List Nat)) :
    sStep c s x d = sEvaluate c { sPre s with total := (sPre s).total + 1, since := (sPre s).since + 1 } x d := rfl

/-- reference phase, window not yet full: the sample is appended, nothing else happens -/
theorem stream_building (c : SCfg α) (s : SState α) (x : List α) (d : List (List Nat))
    (ht : (sPre s).tree = none) (hw : (sPre s).refData.length + 1 ≠ c.window) :
    sStep c s x d = some ({ sPre s with total := (sPre s).total + 1, since := (sPre s).since + 1,
                                        refData := (sPre s).refData ++ [x] }, .building) := by
  rw [sStep_eq]; unfold sEvaluate
  simp [ht, hw]

/-- the `window_size`-th sample of an epoch completes the reference: the tree is built from exactly
    those samples, the critical value is the nearest-rank `(1 - alpha)` quantile of the bootstrap
    divergences for sample size `window_size`, everything else restarts; no alarm -/
theorem stream_built (c : SCfg α) (s : SState α) (x : List α) (d : List (List Nat)) (t : Kdq.Tree α)
    (ht : (sPre s).tree = none) (hw : (sPre s).refData.length + 1 = c.window)
    (hb : build c.part x.length ((sPre s).refData ++ [x]) = some t) :
    ∃ s', sStep c s x d = some (s', .built) ∧ s'.tree = some t ∧ s'.drift = .none ∧ s'.counter = 0 ∧
      s'.testSize = 0 ∧ s'.testDist = none ∧ s'.refData = [] ∧ s'.total = (sPre s).total + 1 ∧
      s'.critical = some (quantileNearest (d.map (bootKld (leafCountsD t 0).length c.window)) (((1 : Nat) : α) - c.alpha)) := by
  rw [sStep_eq]; unfold sEvaluate
  simp [ht, hw, hb, sReset, criticalKld]

/-- test phase, fewer than `window_size` test samples so far: the sample is filed into the tree
    (accumulating), no evaluation, no alarm -/
theorem stream_waiting (c : SCfg α) (s : SState α) (x : List α) (d : List (List Nat)) (t : Kdq.Tree α)
    (ht : (sPre s).tree = some t) (hw : (sPre s).testSize + 1 < c.window) :
    ∃ s', sStep c s x d = some (s', .waiting) ∧ s'.tree = some (fill testId false [x] t) ∧
      s'.testSize = (sPre s).testSize + 1 ∧ s'.drift = (sPre s).drift ∧ s'.counter = (sPre s).counter ∧
      s'.testDist = (sPre s).testDist ∧ s'.critical = (sPre s).critical := by
  rw [sStep_eq]; unfold sEvaluate
  have : ¬ c.window ≤ (sPre s).testSize + 1 := by omega
  simp [ht, this]

/-- test phase with at least `window_size` test samples: the divergence of the accumulated test
    counts is compared (strictly) with the critical value; an exceeding evaluation increments the
    counter and alarms iff the counter then exceeds `persistence * window_size`; a non-exceeding
    evaluation sets the counter back to 0 -/
theorem stream_eval (c : SCfg α) (s : SState α) (x : List α) (d : List (List Nat)) (t : Kdq.Tree α)
    (ht : (sPre s).tree = some t) (hw : c.window ≤ (sPre s).testSize + 1) :
    ∃ s', sStep c s x d =
        some (s', .eval (decide ((sPre s).critical.getD default < divergence (fill testId false [x] t)))) ∧
      s'.tree = some (fill testId false [x] t) ∧ s'.testSize = (sPre s).testSize + 1 ∧
      s'.testDist = some (divergence (fill testId false [x] t)) ∧ s'.critical = (sPre s).critical ∧
      ((sPre s).critical.getD default < divergence (fill testId false [x] t) →
        s'.counter = (sPre s).counter + 1 ∧
        s'.drift = (if c.persistence * (c.window : α) < (((sPre s).counter + 1 : Nat) : α) then .drift else (sPre s).drift) ∧
        (s'.drift = .drift ↔ c.persistence * (c.window : α) < (((sPre s).counter + 1 : Nat) : α))) ∧
      (¬ (sPre s).critical.getD default < divergence (fill testId false [x] t) →
        s'.counter = 0 ∧ s'.drift = (sPre s).drift) := by
  rw [sStep_eq]; unfold sEvaluate
  have hnd := sPre_not_drift s
  by_cases hex : (sPre s).critical.getD default < divergence (fill testId false [x] t)
  · simp only [ht, hw, hex, decide_true, if_true]
    refine ⟨_, rfl, rfl, rfl, rfl, rfl, ?_, fun h => absurd trivial h⟩
    intro _
    refine ⟨rfl, ?_, ?_⟩
    · simp only [alarms]
      by_cases ha : c.persistence * (c.window : α) < (((sPre s).counter + 1 : Nat) : α) <;> simp [ha]
    · simp only [alarms]
      by_cases ha : c.persistence * (c.window : α) < (((sPre s).counter + 1 : Nat) : α)
      · simp [ha]
      · simp [ha, hnd]
  · simp only [ht, hw, hex, decide_false, if_true, Bool.false_eq_true, if_false]
    exact ⟨_, rfl, rfl, rfl, rfl, rfl, fun h => h.elim, fun _ => ⟨rfl, rfl⟩⟩

/-! ## Streaming: every history -/

/-- run a list of samples (each with the bootstrap draws its update would consume), collecting
    what every update did -/
def sRun (c : SCfg α) : SState α → List (List α × List (List Nat)) → Option (SState α × List Ev)
  | s, [] => some (s, [])
  | s, (x, d) :: rest =>
    match sStep c s x d with
    | none => none
    | some (s', ev) =>
      match sRun c s' rest with
      | none => none
      | some (s'', evs) => some (s'', ev :: evs)

/-- length of the current uninterrupted run of exceeding evaluations: the trailing block of
    `eval true` events (anything else — a non-exceeding evaluation, a new reference — ends it) -/
def runLength (evs : List Ev) : Nat := (evs.reverse.takeWhile (· == .eval true)).length

theorem runLength_snoc (evs : List Ev) (e : Ev) :
    runLength (evs ++ [e]) = if e = .eval true then runLength evs + 1 else 0 := by
  unfold runLength
  by_cases h : e = .eval true
  · subst h; simp [List.takeWhile_cons]
  · simp [List.takeWhile_cons, h]

/-- invariant of the streaming detector along any history with event list `evs` -/
structure SInv (c : SCfg α) (s : SState α) (evs : List Ev) : Prop where
  cnt : s.counter = runLength evs
  pos : 0 < s.counter → c.window ≤ s.testSize ∧ s.tree.isSome = true
  drift : s.drift = .drift ↔ (evs.getLast? = some (.eval true) ∧ alarms c s.counter = true)
  nowarn : s.drift ≠ .warning

theorem sInv_init (c : SCfg α) : SInv c (sInit : SState α) [] := by
  constructor <;> simp [sInit, runLength]

theorem sPre_facts (c : SCfg α) (s : SState α) (evs : List Ev) (h : SInv c s evs) :
    (sPre s).drift = .none ∧
    (0 < (sPre s).counter → c.window ≤ (sPre s).testSize ∧ (sPre s).tree.isSome = true) ∧
    ((sPre s).tree.isSome = true → (sPre s).counter = runLength evs) := by
  unfold sPre
  by_cases hd : s.drift = .drift
  · simp [hd, sReset]
  · simp only [hd, if_false]
    refine ⟨?_, h.pos, fun _ => h.cnt⟩
    have := h.nowarn
    cases hs : s.drift <;> simp_all

/-- one update preserves the invariant -/
theorem sInv_step (c : SCfg α) (s : SState α) (evs : List Ev) (h : SInv c s evs)
    (x : List α) (d : List (List Nat)) (s' : SState α) (ev : Ev) (hstep : sStep c s x d = some (s', ev)) :
    SInv c s' (evs ++ [ev]) := by
  obtain ⟨pd, ppos, pcnt⟩ := sPre_facts c s evs h
  cases ht : (sPre s).tree with
  | none =>
    have hc0 : (sPre s).counter = 0 := by
      by_contra hne
      have := (ppos (Nat.pos_of_ne_zero hne)).2
      simp [ht] at this
    by_cases hw : (sPre s).refData.length + 1 = c.window
    · cases hb : build c.part x.length ((sPre s).refData ++ [x]) with
      | none =>
        rw [sStep_eq] at hstep; unfold sEvaluate at hstep
        simp [ht, hw, hb] at hstep
      | some t =>
        obtain ⟨s1, e1, _, hdr, hcn, _⟩ := stream_built c s x d t ht hw hb
        rw [e1] at hstep; cases hstep
        constructor <;> simp [hdr, hcn, runLength_snoc]
    · have e1 := stream_building c s x d ht hw
      rw [e1] at hstep; cases hstep
      constructor <;> simp [hc0, pd, runLength_snoc]
  | some t =>
    by_cases hw : c.window ≤ (sPre s).testSize + 1
    · obtain ⟨s1, e1, htr, hts, _, _, hex, hnex⟩ := stream_eval c s x d t ht hw
      rw [e1] at hstep; cases hstep
      have hcnt := pcnt (by simp [ht])
      by_cases hx : (sPre s).critical.getD default < divergence (fill testId false [x] t)
      · obtain ⟨h1, h3, h2⟩ := hex hx
        constructor
        · simp [h1, hcnt, runLength_snoc, hx]
        · intro _; simp [hts, htr]; omega
        · simp only [List.getLast?_concat, hx, decide_true, true_and, alarms, h1]
          rw [h2]; simp
        · rw [h3, pd]; split <;> simp
      · obtain ⟨h1, h2⟩ := hnex hx
        constructor <;> simp [h1, h2, pd, runLength_snoc, hx]
    · obtain ⟨s1, e1, _, hts, hdr, hcn, _⟩ := stream_waiting c s x d t ht (by omega)
      rw [e1] at hstep; cases hstep
      have hc0 : (sPre s).counter = 0 := by
        by_contra hne
        have := (ppos (Nat.pos_of_ne_zero hne)).1
        omega
      constructor <;> simp [hdr, hcn, hc0, pd, runLength_snoc]

theorem sInv_run (c : SCfg α) : ∀ (inputs : List (List α × List (List Nat))) (s : SState α) (evs0 : List Ev),
    SInv c s evs0 → ∀ s' evs, sRun c s inputs = some (s', evs) → SInv c s' (evs0 ++ evs) := by
  intro inputs
  induction inputs with
  | nil => intro s evs0 h s' evs hr; simp [sRun] at hr; obtain ⟨rfl, rfl⟩ := hr; simpa using h
  | cons xd rest ih =>
    intro s evs0 h s' evs hr
    obtain ⟨x, d⟩ := xd
    simp only [sRun] at hr
    cases h1 : sStep c s x d with
    | none => simp [h1] at hr
    | some r1 =>
      obtain ⟨s1, ev⟩ := r1
      cases h2 : sRun c s1 rest with
      | none => simp [h1, h2] at hr
      | some r2 =>
        obtain ⟨s2, evs2⟩ := r2
        simp only [h1, h2, Option.some.injEq, Prod.mk.injEq] at hr
        obtain ⟨rfl, rfl⟩ := hr
        have := ih s1 (evs0 ++ [ev]) (sInv_step c s evs0 h x d s1 ev h1) s2 evs2 h2
        simpa using this

/-- **streaming rule, for every history from a fresh detector** (any samples, any bootstrap draws,
    any number of epochs): the persistence counter is the length of the current uninterrupted run
    of exceeding evaluations, and `drift_state` is `"drift"` exactly when the last update was an
    exceeding evaluation and that run is longer than `persistence * window_size`; never `"warning"`. -/
theorem stream_drift_iff (c : SCfg α) (inputs : List (List α × List (List Nat))) (s : SState α) (evs : List Ev)
    (h : sRun c sInit inputs = some (s, evs)) :
    s.counter = runLength evs ∧
    (s.drift = .drift ↔
      evs.getLast? = some (.eval true) ∧ c.persistence * (c.window : α) < ((runLength evs : Nat) : α)) ∧
    s.drift ≠ .warning := by
  have hi := sInv_run c inputs sInit [] (sInv_init c) s evs h
  simp only [List.nil_append] at hi
  refine ⟨hi.cnt, ?_, hi.nowarn⟩
  rw [hi.drift, hi.cnt]
  simp [alarms]

/-! ## Streaming: phases of an epoch -/

/-- index (from 0) of the next sample within the current epoch -/
def epochPos (c : SCfg α) (s : SState α) : Nat :=
  match s.tree with
  | none => s.refData.length
  | some _ => c.window + s.testSize

inductive Phase where
  | building | built | waiting | eval
  deriving DecidableEq, Repr

def Ev.phase : Ev → Phase
  | .building => .building | .built => .built | .waiting => .waiting | .eval _ => .eval

/-- what the `i`-th update of an epoch does: the first `w` samples build the tree, a further
    `w - 1` are only filed, from sample `2w` on every update evaluates the divergence -/
def phaseAt (w i : Nat) : Phase :=
  if i + 1 < w then .building else if i + 1 = w then .built else if i + 1 < 2 * w then .waiting else .eval

theorem epochPos_restart (c : SCfg α) (s : SState α) (h : s.drift = .drift) : epochPos c (sPre s) = 0 := by
  simp [sPre, h, sReset, epochPos]

/-- the phases of an epoch: the kind of every update is determined by its position in the epoch,
    the position advances by one, and an update that is not an evaluation never alarms -/
theorem stream_phases (c : SCfg α) (hw : 0 < c.window) (s : SState α) (x : List α) (d : List (List Nat))
    (hinv : (sPre s).tree = none → (sPre s).refData.length < c.window)
    (s' : SState α) (ev : Ev) (hstep : sStep c s x d = some (s', ev)) :
    ev.phase = phaseAt c.window (epochPos c (sPre s)) ∧
    epochPos c s' = epochPos c (sPre s) + 1 ∧
    (s'.tree = none → s'.refData.length < c.window) ∧
    (ev.phase ≠ .eval → s'.drift ≠ .drift) := by
  have hnd := sPre_not_drift s
  cases ht : (sPre s).tree with
  | none =>
    have hl := hinv ht
    by_cases hwin : (sPre s).refData.length + 1 = c.window
    · cases hb : build c.part x.length ((sPre s).refData ++ [x]) with
      | none =>
        rw [sStep_eq] at hstep; unfold sEvaluate at hstep
        simp [ht, hwin, hb] at hstep
      | some t =>
        obtain ⟨s1, e1, htr, hdr, _, hts, _, _, _⟩ := stream_built c s x d t ht hwin hb
        rw [e1] at hstep; cases hstep
        simp only [Ev.phase, phaseAt, epochPos, ht, htr, hts, hdr]
        refine ⟨?_, by omega, by simp, by simp⟩
        rw [if_neg (by omega), if_pos hwin]
    · have e1 := stream_building c s x d ht hwin
      rw [e1] at hstep; cases hstep
      simp only [Ev.phase, phaseAt, epochPos, ht, List.length_append, List.length_cons, List.length_nil]
      refine ⟨?_, by simp [epochPos, ht], fun _ => by simp; omega, fun _ => hnd⟩
      rw [if_pos (by omega)]
  | some t =>
    by_cases hwin : c.window ≤ (sPre s).testSize + 1
    · obtain ⟨s1, e1, htr, hts, _⟩ := stream_eval c s x d t ht hwin
      rw [e1] at hstep; cases hstep
      simp only [Ev.phase, phaseAt, epochPos, ht, htr, hts]
      refine ⟨?_, by omega, by simp, by simp⟩
      rw [if_neg (by omega), if_neg (by omega), if_neg (by omega)]
    · obtain ⟨s1, e1, htr, hts, hdr, _⟩ := stream_waiting c s x d t ht (by omega)
      rw [e1] at hstep; cases hstep
      simp only [Ev.phase, phaseAt, epochPos, ht, htr, hts, hdr]
      refine ⟨?_, by omega, by simp, fun _ => hnd⟩
      rw [if_neg (by omega), if_neg (by omega), if_pos (by omega)]

/-! ## Batch -/

/-- **batch rule**: with a reference in place (and no pending drift) the batch is filed into the
    reference tree with `reset`, and drift is reported iff `KL(reference ‖ batch)` over the leaves of
    the reference tree strictly exceeds the critical value; the drifted batch is remembered as the
    next reference, otherwise nothing about the reference changes -/
theorem batch_drift_iff (c : BCfg α) (s : BState α) (m : Nat) (X : List (List α)) (d : List (List Nat))
    (t : Kdq.Tree α) (crit : α) (hs : s.drift = .none) (ht : s.tree = some t) (hc : s.critical = some crit) :
    ∃ s', bStep c s m X d = some (s', some (decide (crit < divergence (fill testId true X t)))) ∧
      (s'.drift = .drift ↔ crit < divergence (fill testId true X t)) ∧
      s'.testDist = some (divergence (fill testId true X t)) ∧
      s'.tree = some (fill testId true X t) ∧ s'.critical = some crit ∧
      s'.total = s.total + 1 ∧ s'.since = s.since + 1 ∧
      (s'.drift = .drift → s'.refData = some X) ∧ (s'.drift ≠ .drift → s'.refData = s.refData ∧ s'.drift = .none) := by
  unfold bStep
  by_cases hex : crit < divergence (fill testId true X t)
  · simp [hs, ht, hc, hex]
  · simp [hs, ht, hc, hex]

/-- `set_reference` / the adoption of a reference: tree of the given batch, critical value = the
    nearest-rank `(1 - alpha)` quantile of the bootstrap divergences with sample size = the sum of
    the reference leaf counts; state and divergence cleared -/
theorem batch_set_reference (c : BCfg α) (s : BState α) (m : Nat) (R : List (List α)) (d : List (List Nat))
    (t : Kdq.Tree α) (hb : build c.part m R = some t) :
    ∃ s0, bSetRef c s m R d = some s0 ∧ s0.tree = some t ∧ s0.drift = .none ∧ s0.since = 0 ∧
      s0.testDist = none ∧ s0.total = s.total ∧ s0.refData = s.refData ∧
      s0.critical = some (quantileNearest (d.map (bootKld (leafCountsD t 0).length (leafCountsD t 0).sum))
        (((1 : Nat) : α) - c.alpha)) := by
  simp [bSetRef, hb, criticalKld]

/-- **the drifted batch becomes the reference**: the update that follows a drift first rebuilds the
    tree from the batch `R` that drifted (with the bootstrap draws of this call), then files the new
    batch into *that* tree and applies the batch rule to it -/
theorem batch_next_reference (c : BCfg α) (s : BState α) (m : Nat) (R X : List (List α)) (d : List (List Nat))
    (t : Kdq.Tree α) (hs : s.drift = .drift) (hr : s.refData = some R) (hb : build c.part m R = some t) :
    ∃ s0, bSetRef c s m R d = some s0 ∧ bStep c s m X d = bStep c s0 m X d ∧
      s0.tree = some t ∧ s0.drift = .none ∧ s0.since = 0 ∧
      ∃ s', bStep c s m X d = some (s', some (decide (s0.critical.getD default < divergence (fill testId true X t)))) ∧
        s'.tree = some (fill testId true X t) ∧ s'.since = 1 ∧
        (s'.drift = .drift ↔ s0.critical.getD default < divergence (fill testId true X t)) := by
  obtain ⟨s0, h0, h1, h2, h3, _, _, _, h7⟩ := batch_set_reference c s m R d t hb
  refine ⟨s0, h0, ?_, h1, h2, h3, ?_⟩
  · unfold bStep
    simp [hs, hr, h0, h2]
  · unfold bStep
    by_cases hex : s0.critical.getD default < divergence (fill testId true X t)
    · simp [hs, hr, h0, h1, h2, h3, hex]
    · simp [hs, hr, h0, h1, h2, h3, hex]

/-- the first update of a fresh batch detector only installs its batch as the reference -/
theorem batch_first_update (c : BCfg α) (m : Nat) (X : List (List α)) (d : List (List Nat)) (t : Kdq.Tree α)
    (hb : build c.part m X = some t) :
    ∃ s', bStep c (bInit : BState α) m X d = some (s', none) ∧ s'.tree = some t ∧ s'.drift = .none ∧
      s'.total = 1 ∧ s'.since = 0 ∧ s'.testDist = none := by
  unfold bStep
  simp [bInit, bSetRef, hb]

/-! ## Sample sizes and the critical value -/

/-- the bootstrap sample size of the batch detector, `sum(ref_counts)`, is the size of the reference
    batch (conservation, C08) — for every carrier with complementary routing tests -/
theorem sample_size_batch (hc : Kdq.Compl α) (c : BCfg α) {m : Nat} (hm : 0 < m) (R : List (List α)) (t : Kdq.Tree α)
    (hb : build c.part m R = some t) : (leafCountsD t 0).sum = R.length :=
  build_leaf_sum hc c.part hm R t hb

section order
variable {K : Type} [LinearOrder K]

theorem insertAsc_perm (x : K) (l : List K) : (insertAsc x l).Perm (x :: l) := by
  induction l with
  | nil => simp [insertAsc]
  | cons y ys ih =>
    simp only [insertAsc]
    split
    · exact List.Perm.refl _
    · exact (List.Perm.cons y ih).trans (List.Perm.swap x y ys)

/-- `sortAsc` rearranges its input … -/
theorem sortAsc_perm (l : List K) : (sortAsc l).Perm l := by
  induction l with
  | nil => simp [sortAsc]
  | cons x xs ih =>
    simp only [sortAsc, List.foldr_cons]
    exact (insertAsc_perm x _).trans (List.Perm.cons x ih)

theorem insertAsc_sorted (x : K) (l : List K) (h : l.Pairwise (· ≤ ·)) : (insertAsc x l).Pairwise (· ≤ ·) := by
  induction l with
  | nil => simp [insertAsc]
  | cons y ys ih =>
    simp only [insertAsc]
    split
    · rename_i hxy
      refine List.Pairwise.cons ?_ h
      intro z hz
      simp only [List.mem_cons] at hz
      rcases hz with rfl | hz
      · exact le_of_lt hxy
      · exact le_trans (le_of_lt hxy) ((List.pairwise_cons.mp h).1 z hz)
    · rename_i hxy
      have hyx : y ≤ x := not_lt.mp hxy
      refine List.Pairwise.cons ?_ (ih (List.pairwise_cons.mp h).2)
      intro z hz
      have := (insertAsc_perm x ys).mem_iff.mp hz
      simp only [List.mem_cons] at this
      rcases this with rfl | hz
      · exact hyx
      · exact (List.pairwise_cons.mp h).1 z hz

/-- … into ascending order: so `quantileNearest xs q` is the order statistic of rank
    `rint((n-1)·q)` of `xs`, and the critical value is the order statistic of rank
    `rint((B-1)·(1-alpha))` of the `B` bootstrap divergences -/
theorem sortAsc_sorted (l : List K) : (sortAsc l).Pairwise (· ≤ ·) := by
  induction l with
  | nil => simp [sortAsc]
  | cons x xs ih =>
    simp only [sortAsc, List.foldr_cons]
    exact insertAsc_sorted x _ ih

end order

theorem critical_is_order_statistic (k s : Nat) (draws : List (List Nat)) (alpha : α) :
    criticalKld k s draws alpha =
      (sortAsc (draws.map (bootKld k s : List Nat → α))).getD
        (HasRint.rint ((((draws.length - 1 : Nat) : α)) * (((1 : Nat) : α) - alpha))) default := by
  simp [criticalKld, quantileNearest]


/-! ## Non-vacuity: a computable history (rational carrier) -/

section examples

/-- surrogate `log` (`x - 1`) on ℚ, only to obtain a *computable* witness: the lifecycle theorems
    hold for every carrier, so any instance shows that their hypotheses are satisfiable -/
instance : HasLogExp ℚ := ⟨fun x => x - 1, fun x => x + 1⟩
instance : HasRint ℚ := ⟨fun x =>
  let f := ⌊x⌋
  if x - f < 1 / 2 then f.toNat else if 1 / 2 < x - f then f.toNat + 1 else if f % 2 = 0 then f.toNat else f.toNat + 1⟩

def exS : SCfg ℚ := { window := 2, persistence := 1/2, alpha := 1/2, part := { countUbound := 1, cplb := 0 } }
/-- reference 0, 1 (tree with two leaves, bootstrap draw 0,1,0,1), then three samples in the left
    leaf, then a sample that starts the next epoch -/
def exIn : List (List ℚ × List (List Nat)) :=
  [([0], []), ([1], [[0, 1, 0, 1]]), ([0], []), ([0], []), ([0], []), ([1], [])]

/-- building, built, waiting, then two exceeding evaluations in a row: 1 is not > 1/2·2, 2 is -/
theorem ex_stream : (sRun exS sInit (exIn.take 5)).map (fun r => (r.2, r.1.drift, r.1.counter)) =
    some ([.building, .built, .waiting, .eval true, .eval true], .drift, 2) := by decide +kernel

/-- the next sample starts a new epoch: state cleared, the sample is the first of the new reference -/
example : (sRun exS sInit exIn).map (fun r => (r.2, r.1.drift, r.1.counter, r.1.refData)) =
    some ([.building, .built, .waiting, .eval true, .eval true, .building], .none, 0, [[1]]) := by decide +kernel

/-- `stream_drift_iff` applied to that history -/
example : ∃ s evs, sRun exS sInit (exIn.take 5) = some (s, evs) ∧ s.drift = .drift ∧ runLength evs = 2 := by
  cases h : sRun exS sInit (exIn.take 5) with
  | none => have := ex_stream; rw [h] at this; simp at this
  | some r =>
    have := ex_stream; rw [h] at this
    simp only [Option.map_some, Option.some.injEq, Prod.mk.injEq] at this
    refine ⟨r.1, r.2, rfl, this.2.1, ?_⟩
    rw [this.1]; decide

def exB : BCfg ℚ := { alpha := 1/2, part := { countUbound := 1, cplb := 0 } }
/-- batch: reference {0,1}; the batch {0,0} exceeds (drift, remembered as next reference); the next
    update rebuilds the tree from {0,0} (a single leaf) and compares the new batch with it -/
example : ((bStep exB bInit 1 [[0], [1]] [[0, 1, 0, 1]]).bind (fun r => bStep exB r.1 1 [[0], [0]] [])).map
    (fun r => (r.2, r.1.drift, r.1.refData)) = some (some true, .drift, some [[0], [0]]) := by decide +kernel

end examples

end MV.KdqDet
