/-
  C19 — MD3 follows its warn / ask-the-oracle / confirm protocol.

  Part A (every carrier, no arithmetic law — so also the executed `Float` instance):
  refusal rules and "a refused call changes nothing", the reachable-state invariant,
  exactly N labels before a decision whatever is interleaved, the decision itself
  (`confirm_iff`, adoption of the new reference, restart of the margin density),
  the warning rule, the deprecated base counters.
  Part B (fields): the margin density is the exponentially forgotten average
  md_t = λ^t·md_0 + (1-λ)·Σ_{i<t} λ^(t-1-i)·sig_i with λ = (N-1)/N.

  Oracle inputs (not modelled, see Model/MD3.lean): margin bit, correctness bit,
  k-fold reference statistics.
-/
import MenelausVerif.Model.MD3
import Mathlib.Tactic.Ring
import Mathlib.Tactic.FieldSimp
import Mathlib.Tactic.Linarith
import Mathlib.Algebra.Order.Field.Basic
import Mathlib.Algebra.BigOperators.Group.Finset.Basic
import Mathlib.Algebra.BigOperators.Ring.Finset
namespace MV.MD3
open MV

section anyCarrier
set_option linter.unusedSectionVars false
variable {α : Type} [Add α] [Sub α] [Mul α] [Div α] [Neg α] [LT α] [DecidableLT α] [NatCast α]

/-! ### Refusal rules -/

theorem run_cons (c : Cfg α) (s : State α) (op : Op α) (ops : List (Op α)) :
    run c s (op :: ops) = run c (step c s op).1 ops := rfl


/-- the column guard compares the *number* and the *set* of names (order is not looked at) -/
theorem sameColumns_iff (a b : List Nat) :
    sameColumns a b = true ↔ a.length = b.length ∧ ∀ x, x ∈ a ↔ x ∈ b := by
  unfold sameColumns
  simp only [Bool.and_eq_true, beq_iff_eq, List.all_eq_true, List.contains_iff_mem]
  constructor
  · rintro ⟨⟨h1, h2⟩, h3⟩
    exact ⟨h1, fun x => ⟨h2 x, h3 x⟩⟩
  · rintro ⟨h1, h2⟩
    exact ⟨⟨h1, fun x hx => (h2 x).1 hx⟩, fun x hx => (h2 x).2 hx⟩

/-- which `update` calls are refused, and by which guard (source order) -/
theorem update_outcome (c : Cfg α) (s : State α) (rows : Nat) (sig : Bool) :
    (update c s rows sig).2 =
      if s.waiting = true then .refused .updateWaiting
      else if rows ≠ 1 then .refused .updateRows else .accepted := by
  grind [update]

/-- which `give_oracle_label` calls are refused, and by which guard (source order) -/
theorem label_outcome (c : Cfg α) (s : State α) (rows : Nat) (cols : List Nat) (b : Bool) (nr : Ref α) :
    (label c s rows cols b nr).2 =
      if s.waiting = false then .refused .labelNotWaiting
      else if rows ≠ 1 then .refused .labelRows
      else if sameColumns cols c.refCols = false then .refused .labelCols else .accepted := by
  grind [label]

theorem update_accepted (c : Cfg α) (s : State α) (sig : Bool) (hw : s.waiting = false) :
    update c s 1 sig = (updateCore c s sig, .accepted) := by
  simp [update, hw]

theorem label_accepted (c : Cfg α) (s : State α) (cols : List Nat) (b : Bool) (nr : Ref α)
    (hw : s.waiting = true) (hc : sameColumns cols c.refCols = true) :
    label c s 1 cols b nr = (labelCore c s b nr, .accepted) := by
  simp [label, hw, hc]

/-- **refusals**: a refused call (whatever the reason) leaves the whole state as it was -/
theorem refused_unchanged (c : Cfg α) (s : State α) (op : Op α) (r : Refusal)
    (h : (step c s op).2 = .refused r) : (step c s op).1 = s := by
  cases op <;> grind [step, update, label]

theorem accepted_or_unchanged (c : Cfg α) (s : State α) (op : Op α) :
    (step c s op).2 = .accepted ∨ (step c s op).1 = s := by
  cases h : (step c s op).2 with
  | accepted => exact Or.inl rfl
  | refused r => exact Or.inr (refused_unchanged c s op r h)

/-- a history in which every call is refused ends in the state it started from -/
theorem run_all_refused (c : Cfg α) (s : State α) (ops : List (Op α))
    (h : ∀ o ∈ outcomes c s ops, o ≠ .accepted) : run c s ops = s := by
  induction ops generalizing s with
  | nil => rfl
  | cons op ops ih =>
    have h0 : (step c s op).2 ≠ .accepted := h _ (by simp [outcomes])
    have hs : (step c s op).1 = s := (accepted_or_unchanged c s op).resolve_left h0
    have : run c s (op :: ops) = run c (step c s op).1 ops := rfl
    rw [this, hs]
    apply ih
    intro o ho
    apply h
    simp only [outcomes, List.mem_cons]
    right; rw [hs]; exact ho

/-! ### Reachable states -/

/-- what holds in every state reachable from `init` (see `inv_init`, `inv_step`, `inv_run`) -/
structure Inv (s : State α) : Prop where
  /-- outside an oracle round no labelled sample is kept -/
  idle_no_labels : s.waiting = false → s.labels = []
  /-- fewer than N samples are ever held: the N-th one triggers the decision and empties the store -/
  labels_lt : s.labels.length < s.oracleReq
  /-- `"warning"` is shown from the update that raised it until the first accepted label -/
  warning_imp : s.drift = .warning → s.waiting = true ∧ s.labels = []
  /-- `"drift"` is only shown outside an oracle round -/
  drift_imp : s.drift = .drift → s.waiting = false
  /-- the forgetting factor is (N-1)/N for the current reference's N -/
  lam_eq : s.lam = forgetting s.ref.len
  since_le : s.since ≤ s.total

theorem inv_init (c : Cfg α) (r : Ref α) (h : 0 < c.oracleLen.getD r.len) : Inv (init c r) := by
  constructor <;> simp [init]
  exact h

theorem inv_updateCore (c : Cfg α) (s : State α) (sig : Bool) (hi : Inv s) (hw : s.waiting = false) :
    Inv (updateCore c s sig) := by
  obtain ⟨h1, h2, h3, h4, h5, h6⟩ := hi
  have hl := h1 hw
  constructor <;> grind [updateCore, prep, reset]

theorem inv_labelCore (c : Cfg α) (s : State α) (b : Bool) (nr : Ref α) (hi : Inv s)
    (hw : s.waiting = true) : Inv (labelCore c s b nr) := by
  obtain ⟨h1, h2, h3, h4, h5, h6⟩ := hi
  constructor <;> grind [labelCore, decide_, setReference]

theorem inv_step (c : Cfg α) (s : State α) (op : Op α) (hi : Inv s) : Inv (step c s op).1 := by
  cases op with
  | update rows sig =>
    simp only [step]
    by_cases hw : s.waiting = true
    · have : (update c s rows sig).1 = s := by grind [update]
      rw [this]; exact hi
    · by_cases hr : rows = 1
      · subst hr
        rw [update_accepted c s sig (by simpa using hw)]
        exact inv_updateCore c s sig hi (by simpa using hw)
      · have : (update c s rows sig).1 = s := by grind [update]
        rw [this]; exact hi
  | label rows cols b nr =>
    simp only [step]
    by_cases hacc : s.waiting = true ∧ rows = 1 ∧ sameColumns cols c.refCols = true
    · obtain ⟨hw, hr, hc⟩ := hacc
      subst hr
      rw [label_accepted c s cols b nr hw hc]
      exact inv_labelCore c s b nr hi hw
    · have : (label c s rows cols b nr).1 = s := by grind [label]
      rw [this]; exact hi

theorem inv_run (c : Cfg α) (s : State α) (ops : List (Op α)) (hi : Inv s) : Inv (run c s ops) := by
  induction ops generalizing s with
  | nil => exact hi
  | cons op ops ih => exact ih _ (inv_step c s op hi)

/-- every state of every history of a detector created with a positive oracle length -/
theorem inv_reachable (c : Cfg α) (r : Ref α) (h : 0 < c.oracleLen.getD r.len) (ops : List (Op α)) :
    Inv (run c (init c r) ops) := inv_run c _ ops (inv_init c r h)

/-! ### Exactly N labels, whatever is interleaved -/

/-- the correctness bit of a call that passes the shape guards of `give_oracle_label`
    (one row, same number and set of column names); `none` for every other call -/
def labelBit (c : Cfg α) : Op α → Option Bool
  | .label rows cols correct _ => if rows = 1 ∧ sameColumns cols c.refCols = true then some correct else none
  | .update _ _ => none

/-- the bits of the well-formed labelled samples of a history, in call order -/
def labelBits (c : Cfg α) (ops : List (Op α)) : List Bool := ops.filterMap (labelBit c)

theorem step_waiting_other (c : Cfg α) (s : State α) (op : Op α) (hw : s.waiting = true)
    (hb : labelBit c op = none) : (step c s op).1 = s := by
  cases op <;> grind [step, update, label, labelBit]

theorem step_waiting_label (c : Cfg α) (s : State α) (op : Op α) (b : Bool) (hw : s.waiting = true)
    (hb : labelBit c op = some b) (hn : s.labels.length + 1 < s.oracleReq) :
    (step c s op).1 = { s with drift := .none, labels := b :: s.labels } := by
  cases op <;> grind [step, update, label, labelBit, labelCore]

/-- **exactly N labels (1)**: while fewer than N well-formed labelled samples have been
supplied, nothing but the sample store (and the `"warning"` flag, cleared by the first accepted
sample) changes — whatever refused `update`s, malformed or wrongly-named samples are
interleaved.  In particular no decision is taken, the detector keeps waiting, and margin density,
reference and counters are untouched. -/
theorem waiting_run (c : Cfg α) (s : State α) (ops : List (Op α)) (hw : s.waiting = true)
    (hn : s.labels.length + (labelBits c ops).length < s.oracleReq) :
    run c s ops = { s with labels := (labelBits c ops).reverse ++ s.labels,
                           drift := if labelBits c ops = [] then s.drift else .none } := by
  induction ops generalizing s with
  | nil => simp [run, labelBits]
  | cons op ops ih =>
    have hrun : run c s (op :: ops) = run c (step c s op).1 ops := rfl
    rw [hrun]
    cases hb : labelBit c op with
    | none =>
      rw [step_waiting_other c s op hw hb]
      have : labelBits c (op :: ops) = labelBits c ops := by simp [labelBits, hb]
      rw [this] at hn ⊢
      exact ih s hw hn
    | some b =>
      have hl : labelBits c (op :: ops) = b :: labelBits c ops := by
        simp [labelBits, hb]
      rw [hl] at hn ⊢
      simp only [List.length_cons] at hn
      rw [step_waiting_label c s op b hw hb (by omega)]
      rw [ih { s with drift := .none, labels := b :: s.labels } hw
        (by simp only [List.length_cons]; omega)]
      simp

/-- **exactly N labels (2)** and **after_confirmation**: the well-formed sample that brings the
store to N triggers the decision: drift is reported iff the confirmation test holds on the N
bits, the supplied statistics become the reference, the forgetting factor follows the new
reference's length, the margin density restarts at the new reference's, the store is emptied and
the detector stops waiting; the base counters are not touched. -/
theorem decision_step (c : Cfg α) (s : State α) (op : Op α) (b : Bool) (hw : s.waiting = true)
    (hb : labelBit c op = some b) (hn : s.labels.length + 1 = s.oracleReq) :
    ∃ nr, (∃ rows cols, op = .label rows cols b nr) ∧
      (step c s op).1 =
        { s with drift := if confirmTest c s.ref (b :: s.labels) = true then .drift else .none,
                 waiting := false, labels := [], ref := nr, lam := forgetting nr.len, md := nr.md } := by
  cases op with
  | update rows sig => simp [labelBit] at hb
  | label rows cols b' nr =>
    refine ⟨nr, ⟨rows, cols, ?_⟩, ?_⟩
    · grind [labelBit]
    · grind [step, label, labelBit, labelCore, decide_, setReference]

/-- **confirm_iff**: the decision reports drift iff
`acc_ref - correct/N > sensitivity * acc_std` (strictly), `correct` counted over the N gathered bits -/
theorem confirm_iff (c : Cfg α) (r : Ref α) (bits : List Bool) :
    confirmTest c r bits = true ↔
      c.sens * r.accStd < r.acc - ((bits.count true : Nat) : α) / ((bits.length : Nat) : α) := by
  unfold confirmTest accOf
  exact decide_eq_true_iff

/-- one complete oracle round: from the state in which the warning was raised, any history
containing exactly N-1 well-formed samples followed by one more well-formed sample ends in the
decided state; the decision is taken on exactly these N bits. -/
theorem oracle_round (c : Cfg α) (s : State α) (ops : List (Op α)) (last : Op α) (b : Bool)
    (hw : s.waiting = true) (hl : s.labels = [])
    (hn : (labelBits c ops).length + 1 = s.oracleReq) (hb : labelBit c last = some b) :
    ∃ nr, (∃ rows cols, last = .label rows cols b nr) ∧
      run c s (ops ++ [last]) =
        { s with drift := if confirmTest c s.ref (b :: (labelBits c ops).reverse) = true then .drift else .none,
                 waiting := false, labels := [], ref := nr, lam := forgetting nr.len, md := nr.md } ∧
      (b :: (labelBits c ops).reverse).length = s.oracleReq := by
  have h1 : run c s (ops ++ [last]) = (step c (run c s ops) last).1 := by
    simp [run, List.foldl_append]
  have h2 := waiting_run c s ops hw (by rw [hl]; simp; omega)
  rw [hl, List.append_nil] at h2
  have hw' : (run c s ops).waiting = true := by rw [h2]; exact hw
  have hn' : (run c s ops).labels.length + 1 = (run c s ops).oracleReq := by
    rw [h2]; simpa using hn
  obtain ⟨nr, hop, hst⟩ := decision_step c (run c s ops) last b hw' hb hn'
  refine ⟨nr, hop, ?_, by simpa using hn⟩
  rw [h1, hst, h2]

/-! ### An accepted update: recurrence, warning rule, counters -/

/-- the margin density an accepted update starts from: the reference's after a reported drift
    (the update resets first), the current one otherwise -/
def mdBase (s : State α) : α := if s.drift = .drift then s.ref.md else s.md

/-- the margin density after an accepted update of `s` with margin bit `sig` -/
def mdNext (s : State α) (sig : Bool) : α := mdRec s.lam (mdBase s) sig

/-- **the accepted update, field by field** (reachable, non-waiting state): one step of the
recurrence from `mdBase`; `total + 1`; `since + 1`, restarting from 0 after a reported drift;
warning and waiting iff the warning test holds on the *new* margin density, otherwise no state
is shown; reference, forgetting factor, oracle length and (empty) sample store untouched. -/
theorem updateCore_eq (c : Cfg α) (s : State α) (sig : Bool) (hi : Inv s) (hw : s.waiting = false) :
    updateCore c s sig =
      { s with total := s.total + 1,
               since := (if s.drift = .drift then 0 else s.since) + 1,
               md := mdNext s sig,
               drift := if warnTest c s.ref (mdNext s sig) = true then .warning else .none,
               waiting := warnTest c s.ref (mdNext s sig) } := by
  obtain ⟨h1, h2, h3, h4, h5, h6⟩ := hi
  have hnw : s.drift ≠ .warning := by grind
  cases hd : s.drift <;> grind [updateCore, prep, reset, mdNext, mdBase]

/-- **warning_iff**: an accepted update enters warning and starts waiting exactly when the new
margin density deviates from the reference's by more than `sensitivity` standard deviations
(strictly); otherwise it shows no drift state and does not wait. -/
theorem warning_iff (c : Cfg α) (s : State α) (sig : Bool) (hi : Inv s) (hw : s.waiting = false) :
    let s' := (step c s (.update 1 sig)).1
    ((s'.drift = .warning ∧ s'.waiting = true) ↔
        c.sens * s.ref.mdStd < absOf (mdNext s sig - s.ref.md)) ∧
    ((s'.drift = .none ∧ s'.waiting = false) ↔
        ¬ c.sens * s.ref.mdStd < absOf (mdNext s sig - s.ref.md)) ∧
    s'.drift ≠ .drift := by
  simp only [step, update_accepted c s sig hw, updateCore_eq c s sig hi hw]
  have hd : warnTest c s.ref (mdNext s sig) = true ↔
      c.sens * s.ref.mdStd < absOf (mdNext s sig - s.ref.md) := by
    unfold warnTest; exact decide_eq_true_iff
  by_cases h : c.sens * s.ref.mdStd < absOf (mdNext s sig - s.ref.md)
  · have := hd.2 h; simp [this, h]
  · have : warnTest c s.ref (mdNext s sig) = false := by
      cases hh : warnTest c s.ref (mdNext s sig) with
      | false => rfl
      | true => exact absurd (hd.1 hh) h
    simp [this, h]

/-- **after_confirmation, next update**: whether or not the decision reported drift, the first
update after it starts from the *new* reference margin density with the *new* forgetting factor. -/
theorem update_after_decision (c : Cfg α) (s : State α) (nr : Ref α) (d : Drift) (sig : Bool)
    (hd : d = .drift ∨ d = .none) :
    let dec : State α := { s with drift := d, waiting := false, labels := [], ref := nr,
                                  lam := forgetting nr.len, md := nr.md }
    (step c dec (.update 1 sig)).1.md = mdRec (forgetting nr.len) nr.md sig ∧
    (step c dec (.update 1 sig)).1.since = (if d = .drift then 0 else s.since) + 1 ∧
    (step c dec (.update 1 sig)).2 = .accepted := by
  rcases hd with rfl | rfl <;> grind [step, update, updateCore, prep, reset]

/-- **the whole cycle**: from a reachable idle state, an update whose new margin density trips
the warning test, then *any* history containing exactly N-1 well-formed labelled samples (and any
number of refused calls), then one more well-formed sample: the detector has counted one update,
decided on exactly those N bits, adopted the supplied statistics as its reference, restarted the
margin density there, emptied its store and stopped waiting. -/
theorem warn_then_round (c : Cfg α) (s : State α) (sig : Bool) (ops : List (Op α)) (last : Op α)
    (b : Bool) (hi : Inv s) (hw : s.waiting = false)
    (hwarn : c.sens * s.ref.mdStd < absOf (mdNext s sig - s.ref.md))
    (hn : (labelBits c ops).length + 1 = s.oracleReq) (hb : labelBit c last = some b) :
    ∃ nr, (∃ rows cols, last = .label rows cols b nr) ∧
      run c s (.update 1 sig :: (ops ++ [last])) =
        { s with total := s.total + 1,
                 since := (if s.drift = .drift then 0 else s.since) + 1,
                 drift := if confirmTest c s.ref (b :: (labelBits c ops).reverse) = true then .drift else .none,
                 waiting := false, labels := [], ref := nr, lam := forgetting nr.len, md := nr.md } := by
  have hwt : warnTest c s.ref (mdNext s sig) = true := by
    unfold warnTest; exact decide_eq_true_iff.2 hwarn
  have hstep : (step c s (.update 1 sig)).1 =
      { s with total := s.total + 1, since := (if s.drift = .drift then 0 else s.since) + 1,
               md := mdNext s sig, drift := .warning, waiting := true } := by
    simp [step, update_accepted c s sig hw, updateCore_eq c s sig hi hw, hwt]
  obtain ⟨nr, hop, hrun, _⟩ := oracle_round c (step c s (.update 1 sig)).1 ops last b
    (by rw [hstep]) (by rw [hstep]; exact hi.idle_no_labels hw) (by rw [hstep]; exact hn) hb
  refine ⟨nr, hop, ?_⟩
  rw [run_cons, hrun, hstep]

/-! ### The deprecated base counters and the lifetime of `"drift"` -/

/-- is this call an accepted `update`? -/
def countsAsUpdate (s : State α) : Op α → Bool
  | .update rows _ => !s.waiting && rows == 1
  | .label .. => false

/-- `total_updates` counts the accepted `update` calls; nothing else moves it -/
theorem step_total (c : Cfg α) (s : State α) (op : Op α) :
    (step c s op).1.total = s.total + (if countsAsUpdate s op then 1 else 0) := by
  cases op <;> grind [step, update, label, updateCore, prep, reset, labelCore, decide_, setReference, countsAsUpdate]

/-- `updates_since_reset`: +1 per accepted update, restarted (to 1) only by the accepted update
that follows a reported drift — the one place `reset()` is called from; labels never touch it -/
theorem step_since (c : Cfg α) (s : State α) (op : Op α) :
    (step c s op).1.since =
      if countsAsUpdate s op then (if s.drift = .drift then 0 else s.since) + 1 else s.since := by
  cases op <;> grind [step, update, label, updateCore, prep, reset, labelCore, decide_, setReference, countsAsUpdate]

/-- the number of accepted updates of a history -/
def acceptedUpdates (c : Cfg α) (s : State α) : List (Op α) → Nat
  | [] => 0
  | op :: ops => (if countsAsUpdate s op then 1 else 0) + acceptedUpdates c (step c s op).1 ops

theorem run_total (c : Cfg α) (s : State α) (ops : List (Op α)) :
    (run c s ops).total = s.total + acceptedUpdates c s ops := by
  induction ops generalizing s with
  | nil => simp [run, acceptedUpdates]
  | cons op ops ih =>
    have : run c s (op :: ops) = run c (step c s op).1 ops := rfl
    rw [this, ih, step_total, acceptedUpdates]; omega

/-- `"drift"` appears only through the decision of an oracle round whose confirmation test holds -/
theorem drift_only_by_decision (c : Cfg α) (s : State α) (op : Op α) (hs : s.drift ≠ .drift)
    (h : (step c s op).1.drift = .drift) :
    ∃ b, labelBit c op = some b ∧ s.waiting = true ∧ s.labels.length + 1 = s.oracleReq ∧
      confirmTest c s.ref (b :: s.labels) = true := by
  cases op with
  | update rows sig =>
    exfalso
    grind [step, update, updateCore, prep, reset]
  | label rows cols b nr =>
    refine ⟨b, ?_⟩
    grind [step, label, labelCore, decide_, setReference, labelBit]

/-- a reported drift stays on display until the next accepted update (refused calls keep the
state, and every label call is refused because the detector is not waiting), and that update
clears it -/
theorem drift_until_next_update (c : Cfg α) (s : State α) (op : Op α) (hi : Inv s)
    (hs : s.drift = .drift) :
    (countsAsUpdate s op = false → (step c s op).1 = s) ∧
    (countsAsUpdate s op = true → (step c s op).1.drift ≠ .drift ∧ (step c s op).1.since = 1) := by
  have hw := hi.drift_imp hs
  cases op <;> grind [step, update, label, updateCore, prep, reset, countsAsUpdate]

/-! ### The margin density over a stretch of updates (recurrence form, every carrier) -/

/-- the recurrence iterated over a list of margin bits -/
def mdFold (lam md0 : α) (sigs : List Bool) : α := sigs.foldl (mdRec lam) md0

/-- one well-formed `update` call per margin bit -/
def updates (sigs : List Bool) : List (Op α) := sigs.map (fun b => Op.update 1 b)

theorem run_updates_aux (c : Cfg α) (sigs : List Bool) : ∀ (s : State α), Inv s → s.drift ≠ .drift →
    (∀ k, k < sigs.length → (run c s (updates (sigs.take k))).waiting = false) →
    (run c s (updates sigs)).md = mdFold s.lam s.md sigs ∧ (run c s (updates sigs)).lam = s.lam ∧
    (run c s (updates sigs)).ref = s.ref ∧ (run c s (updates sigs)).total = s.total + sigs.length := by
  induction sigs with
  | nil => intro s _ _ _; simp [run, updates, mdFold]
  | cons b t ih =>
    intro s hi hd hq
    have hw : s.waiting = false := by simpa [run, updates] using hq 0 (by simp)
    have hstep : (step c s (.update 1 b)).1 = updateCore c s b := by
      simp [step, update_accepted c s b hw]
    have heq := updateCore_eq c s b hi hw
    have hi1 : Inv (updateCore c s b) := inv_updateCore c s b hi hw
    have hd1 : (updateCore c s b).drift ≠ .drift := by rw [heq]; grind
    have hq1 : ∀ k, k < t.length → (run c (updateCore c s b) (updates (t.take k))).waiting = false := by
      intro k hk
      have := hq (k + 1) (by simp; omega)
      simpa [updates, run_cons, hstep] using this
    obtain ⟨h1, h2, h3, h4⟩ := ih (updateCore c s b) hi1 hd1 hq1
    have hr : run c s (updates (b :: t)) = run c (updateCore c s b) (updates t) := by
      simp [updates, run_cons, hstep]
    rw [hr, h1, h2, h3, h4, heq]
    refine ⟨?_, rfl, rfl, ?_⟩
    · simp [mdFold, mdNext, mdBase, hd]
    · simp only [List.length_cons]; omega

/-- **md recurrence over a stretch**: as long as no update of the stretch raises a warning before
the last one, the margin density after the stretch is the recurrence iterated from `mdBase`
(the reference's density right after a reported drift, the current one otherwise), with the
forgetting factor and the reference unchanged; every call of the stretch is counted. -/
theorem run_updates_md (c : Cfg α) (s : State α) (sigs : List Bool) (hi : Inv s) (hne : sigs ≠ [])
    (hq : ∀ k, k < sigs.length → (run c s (updates (sigs.take k))).waiting = false) :
    (run c s (updates sigs)).md = mdFold s.lam (mdBase s) sigs ∧
    (run c s (updates sigs)).lam = s.lam ∧ (run c s (updates sigs)).ref = s.ref ∧
    (run c s (updates sigs)).total = s.total + sigs.length := by
  cases sigs with
  | nil => exact absurd rfl hne
  | cons b t =>
    have hw : s.waiting = false := by simpa [run, updates] using hq 0 (by simp)
    have hstep : (step c s (.update 1 b)).1 = updateCore c s b := by
      simp [step, update_accepted c s b hw]
    have heq := updateCore_eq c s b hi hw
    have hi1 : Inv (updateCore c s b) := inv_updateCore c s b hi hw
    have hd1 : (updateCore c s b).drift ≠ .drift := by rw [heq]; grind
    have hq1 : ∀ k, k < t.length → (run c (updateCore c s b) (updates (t.take k))).waiting = false := by
      intro k hk
      have := hq (k + 1) (by simp; omega)
      simpa [updates, run_cons, hstep] using this
    obtain ⟨h1, h2, h3, h4⟩ := run_updates_aux c t (updateCore c s b) hi1 hd1 hq1
    have hr : run c s (updates (b :: t)) = run c (updateCore c s b) (updates t) := by
      simp [updates, run_cons, hstep]
    rw [hr, h1, h2, h3, h4, heq]
    refine ⟨?_, rfl, rfl, ?_⟩
    · simp [mdFold, mdNext]
    · simp only [List.length_cons]; omega

end anyCarrier

/-! ### Non-vacuity: a concrete history over ℚ

Reference of 4 rows (λ = 3/4), md_ref = 1/2 ± 1/8, acc_ref = 3/4 ± 1/8, sensitivity 1, N = 2.
Two in-margin updates bring md to 5/8 (deviation 1/8: not more than 1/8, no warning) and to
23/32 (deviation 7/32: warning).  Then: a refused update, a sample with a renamed column
(refused), a wrong sample in permuted column order (accepted: same set), a two-row sample
(refused), a correct sample (the 2nd: accuracy 1/2, drop 1/4 > 1/8: drift, reference replaced),
a label while idle (refused), and an update that restarts from the new reference density 1. -/

def exRef : Ref ℚ := { len := 4, md := 1/2, mdStd := 1/8, acc := 3/4, accStd := 1/8 }
def exNew : Ref ℚ := { len := 2, md := 1, mdStd := 0, acc := 1/2, accStd := 1/2 }
def exCfg : Cfg ℚ := { sens := 1, oracleLen := some 2, refCols := [1, 2, 3] }
def exOps : List (Op ℚ) :=
  [.update 1 true, .update 1 true, .update 1 false, .label 1 [1, 4, 3] true exNew,
   .label 1 [3, 1, 2] false exNew, .label 2 [1, 2, 3] true exNew, .label 1 [1, 2, 3] true exNew,
   .label 1 [1, 2, 3] true exNew, .update 1 false]
/-- the state in which the warning has just been raised -/
def exWarned : State ℚ := run exCfg (init exCfg exRef) (exOps.take 2)

example : Inv (init exCfg exRef) := inv_init exCfg exRef (by decide)
-- refusal rules: every guard fires once in this history
example : outcomes exCfg (init exCfg exRef) exOps =
    [.accepted, .accepted, .refused .updateWaiting, .refused .labelCols, .accepted,
     .refused .labelRows, .accepted, .refused .labelNotWaiting, .accepted] := by decide +kernel
-- warning_iff: first update exactly on the threshold (no warning), second above it
example : (run exCfg (init exCfg exRef) (exOps.take 1)).md = 5/8 ∧
    (run exCfg (init exCfg exRef) (exOps.take 1)).waiting = false ∧
    exWarned.md = 23/32 ∧ exWarned.waiting = true ∧ exWarned.drift = .warning ∧
    exWarned.labels = [] ∧ exWarned.oracleReq = 2 := by decide +kernel
-- waiting_run / oracle_round: hypotheses hold for the four calls between warning and decision
example : exWarned.waiting = true ∧ exWarned.labels = [] ∧
    (labelBits exCfg ((exOps.drop 2).take 4)).length + 1 = exWarned.oracleReq ∧
    labelBit exCfg (.label 1 [1, 2, 3] true exNew) = some true := by decide +kernel
-- confirm_iff / after_confirmation: drift reported, reference adopted, idle again
example : (run exCfg (init exCfg exRef) (exOps.take 7)).drift = .drift ∧
    (run exCfg (init exCfg exRef) (exOps.take 7)).waiting = false ∧
    (run exCfg (init exCfg exRef) (exOps.take 7)).md = 1 ∧
    (run exCfg (init exCfg exRef) (exOps.take 7)).ref.len = 2 ∧
    (run exCfg (init exCfg exRef) (exOps.take 7)).total = 2 := by decide +kernel
-- the update after the drift: counted, since restarts at 1, md = (1/2)·1 + (1/2)·0, and (md_std = 0) it warns again
example : (run exCfg (init exCfg exRef) exOps).total = 3 ∧ (run exCfg (init exCfg exRef) exOps).since = 1 ∧
    (run exCfg (init exCfg exRef) exOps).md = 1/2 ∧
    (run exCfg (init exCfg exRef) exOps).drift = .warning := by decide +kernel
-- a decision that rules drift out: both samples right, accuracy 1
example : (run exCfg exWarned [.label 1 [1, 2, 3] true exNew, .label 1 [2, 1, 3] true exNew]).drift = .none ∧
    (run exCfg exWarned [.label 1 [1, 2, 3] true exNew, .label 1 [2, 1, 3] true exNew]).waiting = false := by
  decide +kernel
/-! ## Part B — fields: the exponentially forgotten average -/

section field
set_option linter.unusedSectionVars false
variable {K : Type} [Field K] [LinearOrder K] [IsStrictOrderedRing K]

/-- the forgetting factor is (N-1)/N -/
theorem forgetting_eq (n : Nat) (h : 1 ≤ n) : (forgetting n : K) = ((n : K) - 1) / (n : K) := by
  unfold forgetting; rw [Nat.cast_sub h]; simp

/-- closed form of the recurrence: md_t = λ^t·md_0 + (1-λ)·Σ_{i<t} λ^(t-1-i)·sig_i -/
theorem mdFold_closed (lam md0 : K) (sigs : List Bool) :
    mdFold lam md0 sigs = lam ^ sigs.length * md0 +
      (1 - lam) * ∑ i ∈ Finset.range sigs.length, lam ^ (sigs.length - 1 - i) * sigVal (sigs.getD i false) := by
  induction sigs using List.reverseRecOn with
  | nil => simp [mdFold]
  | append_singleton l a ih =>
    have hf : mdFold lam md0 (l ++ [a]) = lam * mdFold lam md0 l + (1 - lam) * sigVal a := by
      simp [mdFold, List.foldl_append, mdRec, one]
    rw [hf, ih]
    simp only [List.length_append, List.length_singleton]
    rw [Finset.sum_range_succ]
    have hlast : (l ++ [a]).getD l.length false = a := by simp
    have hsum : ∑ i ∈ Finset.range l.length, lam ^ (l.length + 1 - 1 - i) * sigVal ((l ++ [a]).getD i false)
        = lam * ∑ i ∈ Finset.range l.length, lam ^ (l.length - 1 - i) * sigVal (l.getD i false) := by
      rw [Finset.mul_sum]
      apply Finset.sum_congr rfl
      intro i hi
      have hi' : i < l.length := Finset.mem_range.mp hi
      have h1 : l.length + 1 - 1 - i = (l.length - 1 - i) + 1 := by omega
      have h2 : (l ++ [a]).getD i false = l.getD i false := by
        simp [List.getD_eq_getElem?_getD, List.getElem?_append_left hi']
      rw [h1, pow_succ, h2]
      ring
    rw [hsum, hlast]
    have : l.length + 1 - 1 - l.length = 0 := by omega
    rw [this]; ring

/-- **md_closed_form**: in every reachable state with reference size N ≥ 1, after `t ≥ 1` updates
with margin bits `sig_0 … sig_{t-1}` none of which (except possibly the last) raises a warning,
the margin density is λ^t·md_0 + (1-λ)·Σ_{i<t} λ^(t-1-i)·sig_i with λ = (N-1)/N, where md_0 is the
density the stretch starts from (`mdBase`). -/
theorem md_closed_form (c : Cfg K) (s : State K) (sigs : List Bool) (hi : Inv s) (hne : sigs ≠ [])
    (hN : 1 ≤ s.ref.len)
    (hq : ∀ k, k < sigs.length → (run c s (updates (sigs.take k))).waiting = false) :
    (run c s (updates sigs)).md =
      (((s.ref.len : K) - 1) / (s.ref.len : K)) ^ sigs.length * mdBase s +
      (1 - ((s.ref.len : K) - 1) / (s.ref.len : K)) *
        ∑ i ∈ Finset.range sigs.length,
          (((s.ref.len : K) - 1) / (s.ref.len : K)) ^ (sigs.length - 1 - i) * sigVal (sigs.getD i false) := by
  rw [(run_updates_md c s sigs hi hne hq).1, mdFold_closed, hi.lam_eq, forgetting_eq _ hN]

/-- with a reference density in [0,1] the running density stays in [0,1] (λ = (N-1)/N ∈ [0,1)) -/
theorem mdRec_unit_interval (n : Nat) (hN : 1 ≤ n) (md : K) (sig : Bool) (h0 : 0 ≤ md) (h1 : md ≤ 1) :
    0 ≤ mdRec (forgetting n : K) md sig ∧ mdRec (forgetting n : K) md sig ≤ 1 := by
  have hn : (0 : K) < (n : K) := by exact_mod_cast hN
  have hl0 : (0 : K) ≤ forgetting n := by
    rw [forgetting_eq n hN]; apply div_nonneg _ hn.le
    have : (1 : K) ≤ (n : K) := by exact_mod_cast hN
    linarith
  have hl1 : (forgetting n : K) ≤ 1 := by
    rw [forgetting_eq n hN, div_le_one hn]; linarith
  unfold mdRec
  cases sig <;> simp [sigVal, one, zero] <;> constructor <;> nlinarith

-- md_closed_form: its hypotheses hold for a stretch of three updates (sensitivity 10 never warns)
def exCfg10 : Cfg ℚ := { sens := 10, oracleLen := some 2, refCols := [1, 2, 3] }
example : Inv (init exCfg10 exRef) ∧ 1 ≤ (init exCfg10 exRef).ref.len ∧
    (∀ k, k < 3 → (run exCfg10 (init exCfg10 exRef) (updates ([true, false, true].take k))).waiting = false) ∧
    (run exCfg10 (init exCfg10 exRef) (updates [true, false, true])).md = 77/128 :=
  ⟨inv_init _ _ (by decide), by decide, by decide +kernel, by decide +kernel⟩

end field
end MV.MD3
