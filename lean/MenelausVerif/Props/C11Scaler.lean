/-
  C11 — "after a drift the former test window becomes the reference window", with online scaling.

  With `online_scaling=True` PCACD keeps its test window in *standardised* form and un-standardises it
  (`StandardScaler.inverse_transform`) when a drift turns it into the next reference window
  (`Model/Scaler.lean`).  Over `ℝ`:

  * `colVar_nonneg`, `scaleOf_pos`: every fitted scale is positive — the standard deviation of a
    non-constant column, 1 for a constant column (zero-variance rule);
  * `inverse_transform_row`: `inverse_transform (transform row) = row` for every row of the fitted
    width — whatever the window the scaler was fitted on, constant columns included.  So the window
    that becomes the reference is the former test window *in raw units*, which is what
    `Props/C11.lean` `reference_is_former_test` tracks by sample positions;
  * `sqrtVar_shortcut_wrong`: un-standardising with `sqrt(var_)` instead of `scale_` is a different
    function: on a column that was constant in the fitted window every later value is mapped to the
    old constant (closed example over `ℝ`).
-/
import MenelausVerif.Model.Scaler
import Mathlib.Analysis.SpecialFunctions.Pow.Real
import Mathlib.Tactic.FieldSimp
import Mathlib.Tactic.Ring
import Mathlib.Tactic.Positivity
import Mathlib.Tactic.NormNum
set_option linter.unusedSectionVars false
set_option linter.unusedSimpArgs false

namespace MV.Scaler
open MV

noncomputable local instance : HasSqrt ℝ := ⟨Real.sqrt⟩
noncomputable local instance : BEq ℝ := ⟨fun a b => decide (a = b)⟩

theorem sumL_eq_sum (l : List ℝ) : sumL l = l.sum := by
  unfold sumL
  have : ∀ (a : ℝ), l.foldl (· + ·) a = a + l.sum := by
    induction l with
    | nil => intro a; simp
    | cons x xs ih => intro a; simp [List.foldl, ih, add_assoc]
  simpa using this 0

theorem sum_sq_nonneg (l : List ℝ) (m : ℝ) : 0 ≤ (l.map fun x => (x - m) * (x - m)).sum := by
  induction l with
  | nil => simp
  | cons x xs ih => simp only [List.map_cons, List.sum_cons]; nlinarith [mul_self_nonneg (x - m)]

/-- the population variance of a column is non-negative -/
theorem colVar_nonneg (col : List ℝ) : 0 ≤ colVar col := by
  unfold colVar
  simp only [sumL_eq_sum]
  exact div_nonneg (sum_sq_nonneg _ _) (by positivity)

/-- every fitted scale is positive: `sqrt(var)` for `var > 0`, 1 for `var = 0` -/
theorem scaleOf_pos (v : ℝ) (hv : 0 ≤ v) : 0 < scaleOf v := by
  unfold scaleOf
  by_cases h : v = 0
  · simp [h, BEq.beq]
  · have : 0 < v := lt_of_le_of_ne hv (Ne.symm h)
    simp [h, BEq.beq, HasSqrt.sqrt, Real.sqrt_pos.mpr this]

theorem scaleOf_const : scaleOf (0 : ℝ) = 1 := by simp [scaleOf, BEq.beq]

theorem fit_scale_pos (cols : List (List ℝ)) : ∀ s ∈ (fit cols).scale, 0 < s := by
  intro s hs
  simp only [fit, List.mem_map] at hs
  obtain ⟨v, ⟨col, _, rfl⟩, rfl⟩ := hs
  exact scaleOf_pos _ (colVar_nonneg col)

theorem fit_lengths (cols : List (List ℝ)) :
    (fit cols).mean.length = cols.length ∧ (fit cols).scale.length = cols.length ∧ (fit cols).var.length = cols.length := by
  simp [fit]

/-- round trip on lists of (mean, scale) pairs with non-zero scales -/
theorem zip_round_trip (row : List ℝ) (ms : List (ℝ × ℝ)) (hs : ∀ p ∈ ms, p.2 ≠ 0) (hl : row.length ≤ ms.length) :
    List.zipWith (fun (y : ℝ) (p : ℝ × ℝ) => y * p.2 + p.1)
      (List.zipWith (fun (x : ℝ) (p : ℝ × ℝ) => (x - p.1) / p.2) row ms) ms = row := by
  induction row generalizing ms with
  | nil => simp
  | cons x xs ih =>
    cases ms with
    | nil => simp at hl
    | cons p ps =>
      have hp : p.2 ≠ 0 := hs p (by simp)
      simp only [List.zipWith_cons_cons, List.cons.injEq]
      refine ⟨by field_simp; ring, ih ps (fun q hq => hs q (by simp [hq])) (by simpa using hl)⟩

/-- **the un-standardised test window is the raw test window**: for a scaler fitted on any window
    (constant columns included) and any row of the fitted width,
    `inverse_transform (transform row) = row` -/
theorem inverse_transform_row (cols : List (List ℝ)) (row : List ℝ) (hw : row.length = cols.length) :
    inverseRow (fit cols) (transformRow (fit cols) row) = row := by
  unfold inverseRow transformRow
  apply zip_round_trip
  · intro p hp
    have := (List.of_mem_zip hp).2
    exact ne_of_gt (fit_scale_pos cols _ this)
  · have := fit_lengths cols
    simp [List.length_zip, this.1, this.2.1, hw]

/-- rows of a whole window -/
theorem inverse_transform_window (cols : List (List ℝ)) (win : List (List ℝ)) (hw : ∀ r ∈ win, r.length = cols.length) :
    (win.map (transformRow (fit cols))).map (inverseRow (fit cols)) = win := by
  rw [List.map_map]
  conv_rhs => rw [← List.map_id win]
  apply List.map_congr_left
  intro r hr
  simpa using inverse_transform_row cols r (hw r hr)

/-- the shortcut `z * sqrt(var_) + mean_` is a different function: a feature that was constant (= 5) in
    the fitted window and reads 7 afterwards is standardised to 2 and "un-standardised" to 5 -/
theorem sqrtVar_shortcut_wrong :
    let f := fit [[(5 : ℝ), 5, 5]]
    transformRow f [7] = [2] ∧ inverseRow f [2] = [7] ∧ inverseRowSqrtVar f [2] = [5] := by
  have hm : colMean [(5 : ℝ), 5, 5] = 5 := by simp [colMean, sumL]; norm_num
  have hv : colVar [(5 : ℝ), 5, 5] = 0 := by simp [colVar, hm, sumL]
  simp only [fit, List.map_cons, List.map_nil, hm, hv, scaleOf_const]
  refine ⟨?_, ?_, ?_⟩ <;> simp [transformRow, inverseRow, inverseRowSqrtVar, HasSqrt.sqrt] <;> norm_num

/-- non-vacuity: a fitted scaler with a constant and a varying column -/
example : (fit [[(1 : ℝ), 1], [0, 2]]).scale.length = 2 := by simp [fit]

end MV.Scaler
