/-
  C02 for HDDDM / CDBD (the shared `HistogramDensityMethod`) — clean slate after a drift and after
  `set_reference`.

  Model: Model/HDM.lean (unchanged; executed at `Float` by the driver).  Everything here is proved
  for EVERY carrier (no arithmetic law is used: both sides perform the same operations), hence for
  the executed `Float` instance.  Oracle inputs (bootstrap ε₀, `t` critical value, a user
  divergence) are identical on both sides, per call; `SameUpTo.oracleView_eq` shows that related
  states present the same data (reference, `reference_n`, bins, width) to those oracles.

  The fresh twin: `fresh c o' B` = a newly constructed detector on which `set_reference(B)` was
  called; `runFresh c o' B ops` = `run c init (.setRef B o' :: ops)` (`runFresh_eq_run`).
  `RelOpt R` lifts a relation to possibly rejected calls (both accepted and related, or both rejected —
  e.g. `detect_batch = 1` with a drifted batch of fewer than 3 rows, finding F20, is rejected by both).

  Relation `SameUpTo c off s t` (running `s`, twin `t`):
    * equal: established width, `hasRef`, `batches_since_reset`, drift state, reference,
      `reference_n`, bins, the ε list, `total_epsilon`;
    * `total_batches` and `_lambda` both shifted by `off` (so `d_scale = total − λ − 1` is the same:
      `adaptive_shift`);
    * `_prev_distance`, `_prev_feature_distances`, `current_distance` equal once the epoch has a batch
      (`reset()` does not clear them, and they are not read before), `feature_epsilons` equal from the
      epoch's second batch (the first one subtracts the pre-reset `_prev_feature_distances` on the
      running side — stale data that only shows in that public attribute), `beta` equal once the
      test has run in the epoch, `feature_info` equal whenever a drift is flagged on > 1 feature
      (between drifts the attribute is stale on both sides);
    * records `distances`, `epsilon_values`, `thresholds`: the running detector's entries with key
      `> off` are exactly the twin's entries, in order, keys shifted by `off` (`RecShift`;
      `RecShift.mem_iff`: entry `k + off` of the one is entry `k` of the other);
    * well-formedness of the twin side (`since ≤ total`, no `warning`).
  The relation is preserved by every public call — `update` and `set_reference`, any number of
  further drifts (`step_sameUpTo`, `run_sameUpTo`) — and implies equal reports (`SameUpTo.report_eq`).

  Main theorems: `updateCore_sameUpTo`, `reset_sameUpTo`, `setReference_sameUpTo`, `update_sameUpTo`,
  `step_sameUpTo`, `run_sameUpTo`; `reset_fresh`, `first_after_drift` (+ `first_after_drift_counters`,
  `fresh_counters`, `fresh_detect1`, `fresh_detect23`: with `detect_batch = 1` both sides split the
  drifted batch by position — first `⌊n/2⌋` rows reference, the rest a counted proxy batch — so
  `batches_since_reset` restarts at 2 and the twin starts with `total_batches = 1`); `twin`,
  `twin_history`, `twin_epochs`, `pending_history_independent`; `setReference_fresh`,
  `setReference_twin`, `setReference_twin_history`; `twin_records`, `setReference_records` (the dicts
  of the running detector = the entries held at the drift / at the call ++ the twin's entries with
  shifted keys); `run_good` (reachability invariant used by the
  history forms: C07's `Inv`, record keys ≤ batch count, reference a valid batch of the established width).
  Nothing is `_partial`.

  Scope notes.  (1) The continuation after a drift starts with an `update` (the property: "from the
  update that follows a reported drift onwards"); a `set_reference` issued while a drift is pending
  is covered by `setReference_twin` (offset = batch count at the call — with `detect_batch = 1` the
  pending `reset`'s proxy batch is then never counted, so the offset is not that of `twin`).
  (2) `setReference_twin` is about *accepted* calls: a reference whose width differs from the
  established `_input_col_dim` is rejected by the running detector and accepted by a new one.
-/
import MenelausVerif.Model.HDM
import MenelausVerif.Props.C07
namespace MV.HDM
open MV
set_option linter.unusedSectionVars false
set_option linter.unusedSimpArgs false

section anyCarrier
variable {α : Type} [Add α] [Sub α] [Mul α] [Div α] [Neg α] [LT α] [DecidableLT α]
  [LE α] [DecidableLE α] [NatCast α] [BEq α] [HasSqrt α] [HasLogExp α] [HasLog1p α] [HasTrunc α]

/-- a relation lifted to the results of calls that may be rejected: both accepted and related, or
    both rejected -/
def RelOpt {σ τ : Type} (R : σ → τ → Prop) : Option σ → Option τ → Prop
  | some s, some t => R s t
  | none, none => True
  | _, _ => False

/-- keys (batch indices) of a public record moved by `off` -/
def shiftKeys (off : Nat) (l : List (Nat × α)) : List (Nat × α) := l.map (fun p => (p.1 + off, p.2))

/-- the entries of the running detector's record `r` with a key of the current epoch (`> off`) are
    exactly the twin's entries `r'`, in the same order, keys shifted by `off` -/
def RecShift (off : Nat) (r r' : List (Nat × α)) : Prop :=
  r.filter (fun p => decide (off < p.1)) = shiftKeys off r'

/-- **`SameUpTo c off s t`**: the running detector `s` equals the fresh twin `t` up to the offset
    `off` of the batch count.  Everything a later call reads is equal; attributes that `reset()` leaves
    stale are equal from the point of the epoch where they are first written (and are proved not to
    be read before: `updateCore_sameUpTo` needs nothing else); the public records correspond on
    the keys `> off`. -/
structure SameUpTo (c : Cfg α) (off : Nat) (s t : State α) : Prop where
  /-- `_input_col_dim` -/
  dim : s.dim = t.dim
  hasRef : s.hasRef = t.hasRef
  /-- `total_batches` -/
  total : s.total = t.total + off
  /-- `_lambda`: shifted like `total_batches`, so `d_scale = total_batches − _lambda − 1` agrees -/
  lambda : s.lambda = t.lambda + off
  /-- `batches_since_reset` -/
  since : s.since = t.since
  drift : s.drift = t.drift
  reference : s.reference = t.reference
  /-- `reference_n` (read by the `t` critical value and the bootstrap — the oracle inputs) -/
  refN : s.refN = t.refN
  bins : s.bins = t.bins
  /-- `epsilon` (the whole list) and `total_epsilon` -/
  eps : s.eps = t.eps
  totalEps : s.totalEps = t.totalEps
  /-- `_prev_distance`, `_prev_feature_distances`: not cleared by `reset()`, first read by the epoch's
      second batch, rewritten by its first -/
  prev : 1 ≤ t.since → s.prevDist = t.prevDist ∧ s.prevFeat = t.prevFeat
  /-- `current_distance` -/
  curDist : 1 ≤ t.since → s.curDist = t.curDist
  /-- `feature_epsilons`: the epoch's first batch subtracts the stale `_prev_feature_distances` -/
  featEps : 2 ≤ t.since → s.featEps = t.featEps
  /-- `beta`: stale until the first test of the epoch -/
  beta : testsDrift c t.since = true → s.beta = t.beta
  /-- `feature_info`: written only when a drift is flagged on more than one feature -/
  featInfo : t.drift = .drift → ∀ d, t.dim = some d → 1 < d → s.featInfo = t.featInfo
  /-- `distances`, `epsilon_values`, `thresholds` on the keys of the twin's lifetime -/
  distances : RecShift off s.distances t.distances
  epsValues : RecShift off s.epsValues t.epsValues
  thresholds : RecShift off s.thresholds t.thresholds
  /-- well-formedness of the twin side (holds for `init`, kept by every call) -/
  noWarn : t.drift ≠ .warning
  sinceLe : t.since ≤ t.total

/-- `d_scale = total − λ − 1` (and with it ε̂, σ, β) is invariant under a common shift of
    `total_batches` and `_lambda` -/
theorem adaptive_shift (c : Cfg α) (tcrit : α) (since total lambda off : Nat) (eps : List α) (te : α) :
    adaptive c tcrit since (total + off) (lambda + off) eps te = adaptive c tcrit since total lambda eps te := by
  unfold adaptive
  rw [Nat.add_sub_add_right]

theorem recShift_append (off k : Nat) (x : α) (r r' : List (Nat × α)) (h : RecShift off r r') :
    RecShift off (r ++ [(k + off + 1, x)]) (r' ++ [(k + 1, x)]) := by
  unfold RecShift shiftKeys at *
  rw [List.filter_append, h]
  have : off < k + off + 1 := by omega
  simp [this]
  omega

/-- **the body of `update` keeps the relation** (equal batch, equal width, equal oracle values):
    same distance, ε, ε list, `d_scale`, β, decision, reference update, records under the shift -/
theorem updateCore_sameUpTo (c : Cfg α) (o : Oracle α) (off : Nat) (s t : State α) (dim : Nat)
    (X : List (List α)) (h : SameUpTo c off s t) (hn : t.drift = .none) :
    SameUpTo c off (updateCore c o s dim X) (updateCore c o t dim X) := by
  have hfd : stepFd c s dim X = stepFd c t dim X := by simp [stepFd, h.bins, h.reference]
  have hdist : stepDist c s dim X = stepDist c t dim X := by simp [stepDist, hfd]
  have hsn : s.drift = .none := by rw [h.drift, hn]
  have hd1 := recShift_append off t.total (stepDist c t dim X) _ _ h.distances
  by_cases h2 : t.since + 1 ≥ 2
  · have hprev := h.prev (by omega)
    have ht1 : 1 ≤ t.total := by have := h.sinceLe; omega
    have heps : stepEps c s dim X = stepEps c t dim X := by simp [stepEps, hdist, hprev.1]
    have hlist : stepEpsList c o s dim X = stepEpsList c o t dim X := by
      simp [stepEpsList, h.since, h.eps, heps]
    have hthr : stepThr c o s dim X = stepThr c o t dim X := by
      unfold stepThr
      rw [h.since, h.total, h.lambda, hlist, h.totalEps, Nat.add_right_comm, adaptive_shift]
    have hfe : stepFeatEps c s dim X = stepFeatEps c t dim X := by
      unfold stepFeatEps
      have a : s.total + 1 > 1 := by rw [h.total]; omega
      have b : t.total + 1 > 1 := by omega
      simp only [a, b, if_true, hfd, hprev.2]
    have h2s : s.since + 1 ≥ 2 := by rw [h.since]; exact h2
    have he1 := recShift_append off t.total (stepEps c t dim X) _ _ h.epsValues
    by_cases htd : testsDrift c (t.since + 1) = true
    · have htds : testsDrift c (s.since + 1) = true := by rw [h.since]; exact htd
      have ht1' := recShift_append off t.total (stepThr c o t dim X).beta _ _ h.thresholds
      by_cases hb : (stepThr c o t dim X).beta < stepEps c t dim X
      · have hbs : (stepThr c o s dim X).beta < stepEps c s dim X := by rw [hthr, heps]; exact hb
        unfold updateCore appendRef
        simp only [h2, h2s, htd, htds, hb, hbs, if_true]
        constructor <;> simp [h.since, h.total, h.hasRef, h.lambda, h.dim, h.refN, h.bins, h.reference,
          h.eps, h.totalEps, hthr, heps, hlist, hfe, hfd, hdist, hd1, he1, ht1', hprev.1, hprev.2]
        all_goals first | omega | exact h.sinceLe | (intro hd; simp [hd])
      · have hbs : ¬ (stepThr c o s dim X).beta < stepEps c s dim X := by rw [hthr, heps]; exact hb
        unfold updateCore appendRef
        simp only [h2, h2s, htd, htds, hb, hbs, if_true, if_false]
        constructor <;> simp [h.since, h.total, h.hasRef, h.lambda, h.dim, h.refN, h.bins, h.reference,
          h.eps, h.totalEps, hthr, heps, hlist, hfe, hfd, hdist, hd1, he1, ht1', hprev.1, hprev.2, hn, hsn]
        all_goals first | omega | exact h.sinceLe
    · have htds : ¬ testsDrift c (s.since + 1) = true := by rw [h.since]; exact htd
      unfold updateCore appendRef
      simp only [h2, h2s, htd, htds, if_true, if_false]
      constructor <;> simp [h.since, h.total, h.hasRef, h.lambda, h.dim, h.refN, h.bins, h.reference,
        h.eps, h.totalEps, heps, hlist, hfe, hfd, hdist, hd1, he1, hprev.1, hprev.2, hn, hsn, htd]
      all_goals first | omega | exact h.sinceLe | exact h.thresholds
  · have h2s : ¬ s.since + 1 ≥ 2 := by rw [h.since]; exact h2
    have h0 : t.since = 0 := by omega
    have htd : testsDrift c 1 = false := by unfold testsDrift; simp
    unfold updateCore appendRef
    simp only [h2, h2s, if_false]
    constructor <;> simp [h.since, h.total, h.hasRef, h.lambda, h.dim, h.refN, h.bins, h.reference,
      h.eps, h.totalEps, hfd, hdist, hd1, hn, hsn, h0, htd]
    all_goals first | omega | exact h.epsValues | exact h.thresholds

/-! ### `reset`, `set_reference`, `update` preserve the relation -/

/-- validation and the body of `update` (what follows the optional `reset`) -/
def body (c : Cfg α) (o : Oracle α) (s : State α) (X : List (List α)) : Option (State α) :=
  match validBatch c s.dim X with
  | some d => some (updateCore c o s d X)
  | none => none

theorem update_eq_body (c : Cfg α) (o : Oracle α) (s : State α) (X : List (List α)) :
    update c o s X = if s.hasRef then (preState c o s).bind (fun s' => body c o s' X) else none := by
  unfold update preState body
  by_cases hr : s.hasRef = true
  · simp only [hr, if_true]
    cases (if s.drift = Drift.drift then reset c o s else some s) with
    | none => rfl
    | some s' => rfl
  · simp [hr]

theorem body_sameUpTo (c : Cfg α) (o : Oracle α) (off : Nat) (s t : State α) (X : List (List α))
    (h : SameUpTo c off s t) (hn : t.drift = .none) :
    RelOpt (SameUpTo c off) (body c o s X) (body c o t X) := by
  unfold body
  rw [h.dim]
  cases validBatch c t.dim X with
  | none => exact True.intro
  | some d => exact updateCore_sameUpTo c o off s t d X h hn

/-- what `reset` needs of two states to make them `SameUpTo`: everything else is overwritten -/
structure Weak (off : Nat) (s t : State α) : Prop where
  dim : s.dim = t.dim
  hasRef : s.hasRef = t.hasRef
  total : s.total = t.total + off
  lambda : s.lambda = t.lambda + off
  reference : s.reference = t.reference
  distances : RecShift off s.distances t.distances
  epsValues : RecShift off s.epsValues t.epsValues
  thresholds : RecShift off s.thresholds t.thresholds

theorem SameUpTo.weak {c : Cfg α} {off : Nat} {s t : State α} (h : SameUpTo c off s t) : Weak off s t :=
  ⟨h.dim, h.hasRef, h.total, h.lambda, h.reference, h.distances, h.epsValues, h.thresholds⟩

theorem testsDrift_zero (c : Cfg α) : testsDrift c 0 = false := by unfold testsDrift; simp

/-- **`reset` establishes the relation** from the weak one (the two oracle arguments may differ: the
    proxy update of `detect_batch = 1` is the first of its epoch and reads neither) -/
theorem reset_sameUpTo (c : Cfg α) (o o' : Oracle α) (off : Nat) (s t : State α) (h : Weak off s t) :
    RelOpt (SameUpTo c off) (reset c o s) (reset c o' t) := by
  unfold reset
  by_cases h1 : c.detectBatch = 1
  · simp only [h1, if_true]
    rw [h.reference, h.dim]
    cases validBatch c t.dim (List.drop (t.reference.length / 2) t.reference) with
    | none => exact True.intro
    | some d =>
      show SameUpTo c off _ _
      rw [updateCore_first_oracle_irrelevant c o' o _ d _ rfl]
      apply updateCore_sameUpTo
      · constructor <;> simp [h.dim, h.hasRef, h.total, h.lambda, h.distances, h.epsValues, h.thresholds,
          testsDrift_zero]
      · rfl
  · simp only [h1, if_false]
    show SameUpTo c off _ _
    constructor <;> simp [h.dim, h.hasRef, h.total, h.lambda, h.reference, h.distances, h.epsValues,
      h.thresholds, testsDrift_zero]

theorem reset_drift_none (c : Cfg α) (o : Oracle α) (s s' : State α) (h : reset c o s = some s') :
    s'.drift = .none := by
  by_cases h1 : c.detectBatch = 1
  · exact (reset_split c o s s' h1 h).2.2.2.2.2.1
  · rw [reset_restarts c o s h1] at h
    injection h with h; subst h; rfl

/-- **`set_reference` establishes the relation** between any two detectors with the same established
    width, whatever else they went through -/
theorem setReference_sameUpTo (c : Cfg α) (o o' : Oracle α) (off : Nat) (s t : State α) (X : List (List α))
    (hdim : s.dim = t.dim) (htot : s.total = t.total + off)
    (hd : RecShift off s.distances t.distances) (he : RecShift off s.epsValues t.epsValues)
    (ht : RecShift off s.thresholds t.thresholds) :
    RelOpt (SameUpTo c off) (setReference c o s X) (setReference c o' t X) := by
  unfold setReference
  rw [hdim]
  cases validBatch c t.dim X with
  | none => exact True.intro
  | some d =>
    apply reset_sameUpTo
    constructor <;> simp [htot, hd, he, ht]

theorem relOpt_bind {σ τ : Type} {R : σ → τ → Prop} {a : Option σ} {b : Option τ}
    {f : σ → Option σ} {g : τ → Option τ} (h : RelOpt R a b)
    (hfg : ∀ x y, a = some x → b = some y → R x y → RelOpt R (f x) (g y)) :
    RelOpt R (a.bind f) (b.bind g) := by
  cases a <;> cases b <;> simp_all [RelOpt]

theorem preState_drift_none (c : Cfg α) (o : Oracle α) (s s' : State α) (hw : s.drift ≠ .warning)
    (h : preState c o s = some s') : s'.drift = .none := by
  unfold preState at h
  by_cases hd : s.drift = .drift
  · simp only [hd, if_true] at h
    exact reset_drift_none c o s s' h
  · simp only [hd, if_false] at h
    injection h with h; subst h
    cases hdr : s.drift <;> simp_all

/-- **`step_sameUpTo`, `update`**: equal batch and equal oracle inputs keep the relation (both calls
    rejected, or both accepted and related), through any number of further drifts -/
theorem update_sameUpTo (c : Cfg α) (o : Oracle α) (off : Nat) (s t : State α) (X : List (List α))
    (h : SameUpTo c off s t) : RelOpt (SameUpTo c off) (update c o s X) (update c o t X) := by
  rw [update_eq_body, update_eq_body, h.hasRef]
  by_cases hr : t.hasRef = true
  · simp only [hr, if_true]
    apply relOpt_bind (R := SameUpTo c off)
    · unfold preState
      rw [h.drift]
      by_cases hd : t.drift = .drift
      · simp only [hd, if_true]
        exact reset_sameUpTo c o o off s t h.weak
      · simp only [hd, if_false]
        exact h
    · intro x y _ hy hxy
      exact body_sameUpTo c o off x y X hxy (preState_drift_none c o t y h.noWarn hy)
  · simp only [hr]
    exact True.intro

/-- **`step_sameUpTo`**: every public call (`update` or `set_reference`) on equal data and equal
    oracle inputs keeps the relation -/
theorem step_sameUpTo (c : Cfg α) (off : Nat) (s t : State α) (op : Op α) (h : SameUpTo c off s t) :
    RelOpt (SameUpTo c off) (step c s op) (step c t op) := by
  cases op with
  | setRef X o => exact setReference_sameUpTo c o o off s t X h.dim h.total h.distances h.epsValues h.thresholds
  | batch X o => exact update_sameUpTo c o off s t X h

/-! ### what the detector reports -/

/-- What a detector shows after a call, as far as the current epoch determines it: drift state,
    `batches_since_reset`, reference / `reference_n` / bins, the ε list and its sum,
    `current_distance` (once the epoch has a batch), `feature_epsilons` (from the epoch's second
    batch), `beta` (once the test has run in the epoch), `feature_info` (when drift is flagged
    on more than one feature). -/
structure Report (α : Type) where
  drift : Drift
  since : Nat
  reference : List (List α)
  refN : Nat
  bins : Nat
  eps : List α
  totalEps : α
  dist : Option α
  featEps : Option (List α)
  beta : Option α
  featInfo : Option (FeatInfo α)

def multi (s : State α) : Bool := match s.dim with | some d => decide (1 < d) | none => false

def report (c : Cfg α) (s : State α) : Report α :=
  { drift := s.drift, since := s.since, reference := s.reference, refN := s.refN, bins := s.bins,
    eps := s.eps, totalEps := s.totalEps,
    dist := if 1 ≤ s.since then s.curDist else none,
    featEps := if 2 ≤ s.since then s.featEps else none,
    beta := if testsDrift c s.since then s.beta else none,
    featInfo := if s.drift = .drift ∧ multi s = true then s.featInfo else none }

/-- **R ⇒ equal reports** -/
theorem SameUpTo.report_eq {c : Cfg α} {off : Nat} {s t : State α} (h : SameUpTo c off s t) :
    report c s = report c t := by
  unfold report multi
  rw [h.drift, h.since, h.reference, h.refN, h.bins, h.eps, h.totalEps, h.dim]
  congr 1
  · by_cases h1 : 1 ≤ t.since
    · simp [h1, h.curDist h1]
    · simp [h1]
  · by_cases h2 : 2 ≤ t.since
    · simp [h2, h.featEps h2]
    · simp [h2]
  · by_cases h3 : testsDrift c t.since = true
    · simp [h3, h.beta h3]
    · simp [h3]
  · by_cases hd : t.drift = .drift
    · cases hdim : t.dim with
      | none => simp
      | some d =>
        by_cases h1 : 1 < d
        · simp [hd, h1, h.featInfo hd d hdim h1]
        · simp [h1]
    · simp [hd]

/-- the reports after each accepted call of a history (the list ends where a call is rejected) -/
def outs (c : Cfg α) : State α → List (Op α) → List (Report α)
  | _, [] => []
  | s, op :: ops => match step c s op with
    | some s' => report c s' :: outs c s' ops
    | none => []

theorem run_sameUpTo (c : Cfg α) (off : Nat) (ops : List (Op α)) (s t : State α)
    (h : SameUpTo c off s t) :
    RelOpt (SameUpTo c off) (run c s ops) (run c t ops) ∧ outs c s ops = outs c t ops := by
  induction ops generalizing s t with
  | nil => exact ⟨h, rfl⟩
  | cons op ops ih =>
    have hs := step_sameUpTo c off s t op h
    simp only [run, outs]
    cases h1 : step c s op with
    | none =>
      cases h2 : step c t op with
      | none => exact ⟨True.intro, rfl⟩
      | some t' => rw [h1, h2] at hs; exact hs.elim
    | some s' =>
      cases h2 : step c t op with
      | none => rw [h1, h2] at hs; exact hs.elim
      | some t' =>
        rw [h1, h2] at hs
        have hs' : SameUpTo c off s' t' := hs
        obtain ⟨i1, i2⟩ := ih s' t' hs'
        exact ⟨i1, by simp only [hs'.report_eq, i2]⟩

theorem run_append (c : Cfg α) (s : State α) (ops ops' : List (Op α)) :
    run c s (ops ++ ops') = (run c s ops).bind (fun s' => run c s' ops') := by
  induction ops generalizing s with
  | nil => rfl
  | cons op ops ih =>
    simp only [List.cons_append, run]
    cases step c s op with
    | none => rfl
    | some s' => exact ih s'

theorem outs_append (c : Cfg α) (s : State α) (ops ops' : List (Op α)) :
    outs c s (ops ++ ops') = outs c s ops ++
      (match run c s ops with | some s' => outs c s' ops' | none => []) := by
  induction ops generalizing s with
  | nil => rfl
  | cons op ops ih =>
    simp only [List.cons_append, run, outs]
    cases step c s op with
    | none => rfl
    | some s' => simp only [List.cons_append, ih s']

/-! ### validity, reachability invariant -/

def ValidRows (c : Cfg α) (w : Nat) (X : List (List α)) : Prop :=
  2 ≤ X.length ∧ (∀ r ∈ X, r.length = w) ∧ (c.univariate = true → w = 1)

theorem validBatch_some (c : Cfg α) (d w : Nat) (X : List (List α)) :
    validBatch c (some d) X = some w ↔ w = d ∧ ValidRows c d X := by
  cases X with
  | nil => simp [validBatch, ValidRows]
  | cons r rs =>
    simp only [validBatch, ValidRows]
    constructor
    · intro h
      split at h
      · rename_i hc
        injection h with h
        refine ⟨h.symm, hc.1, ?_, hc.2.2⟩
        intro r' hr'
        have := hc.2.1
        rw [List.all_eq_true] at this
        simpa using this r' hr'
      · simp at h
    · rintro ⟨rfl, h2, hall, hu⟩
      have : (r :: rs).all (fun r' => r'.length == w) = true := by
        rw [List.all_eq_true]; intro x hx; simpa using hall x hx
      rw [if_pos ⟨h2, this, hu⟩]

theorem validBatch_none (c : Cfg α) (w : Nat) (X : List (List α)) :
    validBatch c none X = some w ↔ ValidRows c w X := by
  cases X with
  | nil => simp [validBatch, ValidRows]
  | cons r rs =>
    simp only [validBatch, ValidRows]
    constructor
    · intro h
      split at h
      · rename_i hc
        injection h with h
        subst h
        refine ⟨hc.1, ?_, hc.2.2⟩
        intro r' hr'
        have := hc.2.1
        rw [List.all_eq_true] at this
        simpa using this r' hr'
      · simp at h
    · rintro ⟨h2, hall, hu⟩
      have hw : r.length = w := hall r (by simp)
      subst hw
      have : (r :: rs).all (fun r' => r'.length == r.length) = true := by
        rw [List.all_eq_true]; intro x hx; simpa using hall x hx
      rw [if_pos ⟨h2, this, hu⟩]

theorem ValidRows.append {c : Cfg α} {w : Nat} {A B : List (List α)} (ha : ValidRows c w A)
    (hb : ValidRows c w B) : ValidRows c w (A ++ B) := by
  refine ⟨by rw [List.length_append]; have := ha.1; omega, ?_, ha.2.2⟩
  intro r hr
  rcases List.mem_append.1 hr with h | h
  · exact ha.2.1 r h
  · exact hb.2.1 r h

/-- the reference is a valid batch of the established width -/
def WellRef (c : Cfg α) (s : State α) : Prop := ∃ d, s.dim = some d ∧ ValidRows c d s.reference

/-- every key of the public records is a batch index seen so far -/
def KeysLe (s : State α) : Prop :=
  (∀ p ∈ s.distances, p.1 ≤ s.total) ∧ (∀ p ∈ s.epsValues, p.1 ≤ s.total) ∧
  (∀ p ∈ s.thresholds, p.1 ≤ s.total)

theorem updateCore_dim (c : Cfg α) (o : Oracle α) (s : State α) (dim : Nat) (X : List (List α)) :
    (updateCore c o s dim X).dim = some dim := by
  unfold updateCore appendRef
  by_cases h2 : s.since + 1 ≥ 2
  · by_cases htd : testsDrift c (s.since + 1) = true
    · by_cases hb : (stepThr c o s dim X).beta < stepEps c s dim X <;> simp [h2, htd, hb]
    · simp [h2, htd]
  · simp [h2]

theorem updateCore_keysLe (c : Cfg α) (o : Oracle α) (s : State α) (dim : Nat) (X : List (List α))
    (h : KeysLe s) : KeysLe (updateCore c o s dim X) := by
  have hr := updateCore_records c o s dim X
  have hc := (updateCore_counters c o s dim X).1
  simp only at hr
  obtain ⟨h1, h2, h3⟩ := h
  refine ⟨?_, ?_, ?_⟩
  · rw [hr.2.1, hc]
    intro p hp
    rcases List.mem_append.1 hp with hp | hp
    · have := h1 p hp; omega
    · simp at hp; subst hp; simp
  · rw [hr.2.2.1, hc]
    intro p hp
    split at hp
    · rcases List.mem_append.1 hp with hp | hp
      · have := h2 p hp; omega
      · simp at hp; subst hp; simp
    · have := h2 p hp; omega
  · rw [hr.2.2.2.1, hc]
    intro p hp
    split at hp
    · rcases List.mem_append.1 hp with hp | hp
      · have := h3 p hp; omega
      · simp at hp; subst hp; simp
    · have := h3 p hp; omega

theorem reset_keysLe (c : Cfg α) (o : Oracle α) (s s' : State α) (h : KeysLe s)
    (hr : reset c o s = some s') : KeysLe s' := by
  unfold reset at hr
  by_cases h1 : c.detectBatch = 1
  · simp only [h1, if_true] at hr
    split at hr
    · injection hr with hr
      subst hr
      exact updateCore_keysLe _ _ _ _ _ h
    · simp at hr
  · simp only [h1, if_false] at hr
    injection hr with hr
    subst hr
    exact h

theorem setReference_keysLe (c : Cfg α) (o : Oracle α) (s s' : State α) (X : List (List α))
    (h : KeysLe s) (hr : setReference c o s X = some s') : KeysLe s' := by
  unfold setReference at hr
  split at hr
  · simp at hr
  · exact reset_keysLe c o _ s' (by exact h) hr

theorem update_keysLe (c : Cfg α) (o : Oracle α) (s s' : State α) (X : List (List α))
    (h : KeysLe s) (hr : update c o s X = some s') : KeysLe s' := by
  obtain ⟨_, s0, d, hp, _, rfl⟩ := update_eq c o s s' X hr
  apply updateCore_keysLe
  unfold preState at hp
  by_cases hd : s.drift = .drift
  · simp only [hd, if_true] at hp
    exact reset_keysLe c o s s0 h hp
  · simp only [hd, if_false] at hp
    injection hp with hp; subst hp; exact h

theorem step_keysLe (c : Cfg α) (s s' : State α) (op : Op α) (h : KeysLe s)
    (hr : step c s op = some s') : KeysLe s' := by
  cases op with
  | setRef X o => exact setReference_keysLe c o s s' X h hr
  | batch X o => exact update_keysLe c o s s' X h hr

theorem run_keysLe (c : Cfg α) (ops : List (Op α)) (s s' : State α) (h : KeysLe s)
    (hr : run c s ops = some s') : KeysLe s' := by
  induction ops generalizing s with
  | nil => simp [run] at hr; subst hr; exact h
  | cons op ops ih =>
    simp only [run] at hr
    split at hr
    · rename_i s1 hs1
      exact ih s1 (step_keysLe c s s1 op h hs1) hr
    · simp at hr

theorem keysLe_init : KeysLe (init : State α) := by simp [KeysLe, init]

/-- `reset` keeps an established width -/
theorem reset_dim (c : Cfg α) (o : Oracle α) (s s' : State α) (d : Nat) (hd : s.dim = some d)
    (hr : reset c o s = some s') : s'.dim = some d := by
  unfold reset at hr
  by_cases h1 : c.detectBatch = 1
  · simp only [h1, if_true] at hr
    split at hr
    · rename_i d' hv
      injection hr with hr
      subst hr
      rw [hd, validBatch_some] at hv
      rw [updateCore_dim, hv.1]
    · simp at hr
  · simp only [h1, if_false] at hr
    injection hr with hr
    subst hr
    exact hd

theorem reset_hasRef (c : Cfg α) (o : Oracle α) (s s' : State α) (hr : reset c o s = some s') :
    s'.hasRef = s.hasRef := by
  by_cases h1 : c.detectBatch = 1
  · exact (reset_split c o s s' h1 hr).2.2.2.2.2.2.2.2.2.1
  · rw [reset_restarts c o s h1] at hr
    injection hr with hr; subst hr; rfl

theorem reset_reference (c : Cfg α) (o : Oracle α) (s s' : State α) (hr : reset c o s = some s') :
    s'.reference = s.reference := by
  by_cases h1 : c.detectBatch = 1
  · exact (reset_split c o s s' h1 hr).1
  · rw [reset_restarts c o s h1] at hr
    injection hr with hr; subst hr; rfl

/-- the invariant of reachable states used by the history forms: the lifecycle invariant of
    `Props/C07.lean`, record keys bounded by the batch count, a well-formed reference -/
structure Good (c : Cfg α) (s : State α) : Prop where
  inv : Inv s
  keys : KeysLe s
  wellRef : s.hasRef = true → WellRef c s

theorem good_init (c : Cfg α) : Good c (init : State α) :=
  ⟨inv_init, keysLe_init, by simp [init]⟩

theorem step_good (c : Cfg α) (s s' : State α) (op : Op α) (h : Good c s) (hr : step c s op = some s') :
    Good c s' := by
  refine ⟨step_inv c s s' op h.inv hr, step_keysLe c s s' op h.keys hr, ?_⟩
  intro _
  cases op with
  | setRef X o =>
    simp only [step] at hr
    have hX := (setReference_spec c o s s' X hr).1
    unfold setReference at hr
    split at hr
    · simp at hr
    · rename_i d hv
      refine ⟨d, reset_dim c o _ s' d rfl hr, ?_⟩
      rw [hX]
      cases hdim : s.dim with
      | none => rw [hdim, validBatch_none] at hv; exact hv
      | some d0 => rw [hdim, validBatch_some] at hv; rw [hv.1]; exact hv.2
  | batch X o =>
    simp only [step] at hr
    have href := update_reference c o s s' X h.inv hr
    obtain ⟨hasr, s0, d, hp, hv, rfl⟩ := update_eq c o s s' X hr
    obtain ⟨d0, hd0, hrows⟩ := h.wellRef hasr
    have hs0 : s0.dim = some d0 := by
      unfold preState at hp
      by_cases hd : s.drift = .drift
      · simp only [hd, if_true] at hp
        exact reset_dim c o s s0 d0 hd0 hp
      · simp only [hd, if_false] at hp
        injection hp with hp; subst hp; exact hd0
    rw [hs0, validBatch_some] at hv
    obtain ⟨rfl, hX⟩ := hv
    refine ⟨d, updateCore_dim c o s0 d X, ?_⟩
    by_cases hdr : (updateCore c o s0 d X).drift = .drift
    · rw [(href.2 hdr).1]; exact hX
    · rw [(href.1 hdr).1]; exact hrows.append hX

theorem run_good (c : Cfg α) (ops : List (Op α)) (s s' : State α) (h : Good c s)
    (hr : run c s ops = some s') : Good c s' := by
  induction ops generalizing s with
  | nil => simp [run] at hr; subst hr; exact h
  | cons op ops ih =>
    simp only [run] at hr
    split at hr
    · rename_i s1 hs1
      exact ih s1 (step_good c s s1 op h hs1) hr
    · simp at hr


/-! ### the fresh twin -/

/-- a newly constructed detector on which `set_reference(B)` was called (`none`: the call is rejected) -/
def fresh (c : Cfg α) (o' : Oracle α) (B : List (List α)) : Option (State α) := setReference c o' init B

/-- … fed the calls `ops` -/
def runFresh (c : Cfg α) (o' : Oracle α) (B : List (List α)) (ops : List (Op α)) : Option (State α) :=
  (fresh c o' B).bind (fun t => run c t ops)

/-- … and what it reports after each of them -/
def outsFresh (c : Cfg α) (o' : Oracle α) (B : List (List α)) (ops : List (Op α)) : List (Report α) :=
  match fresh c o' B with
  | some t => outs c t ops
  | none => []

/-- the twin is an ordinary history of a new detector -/
theorem runFresh_eq_run (c : Cfg α) (o' : Oracle α) (B : List (List α)) (ops : List (Op α)) :
    runFresh c o' B ops = run c init (.setRef B o' :: ops) := by
  unfold runFresh fresh
  simp only [run, step]
  cases setReference c o' init B <;> rfl

theorem outsFresh_eq_outs (c : Cfg α) (o' : Oracle α) (B : List (List α)) (ops : List (Op α)) :
    outsFresh c o' B ops = (outs c init (.setRef B o' :: ops)).tail := by
  unfold outsFresh fresh
  simp only [outs, step]
  cases setReference c o' init B <;> rfl

/-- the new detector inside `set_reference(B)`, just before its `reset()` -/
def freshPre (d : Nat) (B : List (List α)) : State α :=
  { (init : State α) with dim := some d, hasRef := true, reference := B, lambda := (init : State α).total }

theorem fresh_eq (c : Cfg α) (o' : Oracle α) (B : List (List α)) (d : Nat) (h : ValidRows c d B) :
    fresh c o' B = reset c o' (freshPre d B) := by
  have hv : validBatch c (init : State α).dim B = some d := (validBatch_none c d _).2 h
  unfold fresh setReference
  rw [hv]
  rfl

/-- a state in which a drift has just been reported, as every history leaves it (`Good.pending`) -/
structure Pending (c : Cfg α) (s : State α) : Prop where
  drift : s.drift = .drift
  hasRef : s.hasRef = true
  lambda : s.lambda = s.total
  keys : KeysLe s
  wellRef : WellRef c s

theorem Good.pending {c : Cfg α} {s : State α} (h : Good c s) (hd : s.drift = .drift) : Pending c s :=
  ⟨hd, (h.inv.drifted hd).2.2, (h.inv.drifted hd).1, h.keys, h.wellRef (h.inv.drifted hd).2.2⟩

theorem recShift_nil (off : Nat) (r : List (Nat × α)) (h : ∀ p ∈ r, p.1 ≤ off) : RecShift off r [] := by
  unfold RecShift shiftKeys
  simp only [List.map_nil, List.filter_eq_nil_iff]
  intro p hp
  have := h p hp
  simp; omega

/-- the `reset` that opens the `update` following a drift puts the running detector into the state
    of a new detector with `set_reference(drifted batch)`, up to the batch count -/
theorem reset_fresh (c : Cfg α) (o o' : Oracle α) (s : State α) (hp : Pending c s) :
    RelOpt (SameUpTo c s.total) (reset c o s) (fresh c o' s.reference) := by
  obtain ⟨d, hd, hrows⟩ := hp.wellRef
  rw [fresh_eq c o' _ d hrows]
  apply reset_sameUpTo
  constructor <;> simp [freshPre, init, hd, hp.hasRef, hp.lambda, recShift_nil _ _ hp.keys.1,
    recShift_nil _ _ hp.keys.2.1, recShift_nil _ _ hp.keys.2.2]

/-- **`first_after_drift`** (every `detect_batch`): the update following a drift establishes the
    relation with `fresh.set_reference(drifted batch)` followed by that update; offset = the batch
    count at the drift.  With `detect_batch = 1` both sides split the drifted batch by position
    (first half reference, second half proxy batch, counted), see `fresh_detect1`. -/
theorem first_after_drift (c : Cfg α) (o o' : Oracle α) (s : State α) (X : List (List α))
    (hp : Pending c s) :
    RelOpt (SameUpTo c s.total) (update c o s X)
      ((fresh c o' s.reference).bind (fun t => update c o t X)) := by
  rw [update_eq_body, hp.hasRef]
  simp only [if_true]
  have hpre : preState c o s = reset c o s := by unfold preState; simp [hp.drift]
  rw [hpre]
  apply relOpt_bind (R := SameUpTo c s.total) (reset_fresh c o o' s hp)
  intro x y hx _ hxy
  have hyd : y.drift = .none := by rw [← hxy.drift]; exact reset_drift_none c o s x hx
  have hyr : y.hasRef = true := by rw [← hxy.hasRef, reset_hasRef c o s x hx]; exact hp.hasRef
  have : update c o y X = body c o y X := by
    rw [update_eq_body, hyr]; unfold preState; simp [hyd]
  rw [this]
  exact body_sameUpTo c o _ x y X hxy hyd

theorem run_cons (c : Cfg α) (s : State α) (op : Op α) (ops : List (Op α)) :
    run c s (op :: ops) = (step c s op).bind (fun s' => run c s' ops) := by
  simp only [run]; cases step c s op <;> rfl

/-- **HDM twin theorem** (state form).  `s`: any state in which a drift has just been reported; its
    reference is the drifted batch.  For every next batch and every further continuation (updates
    and `set_reference` calls, any number of further drifts), with the same oracle inputs per call:
    the running detector accepts exactly the calls the twin accepts, after each it reports the
    same, and the states are `SameUpTo` with offset `s.total`. -/
theorem twin (c : Cfg α) (o' : Oracle α) (s : State α) (hp : Pending c s) (X : List (List α))
    (o : Oracle α) (ops : List (Op α)) :
    RelOpt (SameUpTo c s.total) (run c s (.batch X o :: ops)) (runFresh c o' s.reference (.batch X o :: ops)) ∧
    outs c s (.batch X o :: ops) = outsFresh c o' s.reference (.batch X o :: ops) := by
  have hf := first_after_drift c o o' s X hp
  unfold runFresh outsFresh
  simp only [run, outs, step]
  cases hfr : fresh c o' s.reference with
  | none =>
    rw [hfr] at hf
    cases hu : update c o s X with
    | none => exact ⟨True.intro, rfl⟩
    | some s1 => rw [hu] at hf; exact hf.elim
  | some t =>
    rw [hfr] at hf
    simp only [Option.bind_some] at hf ⊢
    cases hu : update c o s X with
    | none =>
      cases hu' : update c o t X with
      | none => exact ⟨True.intro, rfl⟩
      | some t1 => rw [hu, hu'] at hf; exact hf.elim
    | some s1 =>
      cases hu' : update c o t X with
      | none => rw [hu, hu'] at hf; exact hf.elim
      | some t1 =>
        rw [hu, hu'] at hf
        have hf' : SameUpTo c s.total s1 t1 := hf
        obtain ⟨r1, r2⟩ := run_sameUpTo c s.total ops s1 t1 hf'
        exact ⟨r1, by simp only [hf'.report_eq, r2]⟩


/-- a reported drift makes the batch just seen the reference -/
theorem drift_reference (c : Cfg α) (o : Oracle α) (s s' : State α) (X : List (List α)) (hg : Good c s)
    (h : update c o s X = some s') (hd : s'.drift = .drift) : s'.reference = X :=
  ((update_reference c o s s' X hg.inv h).2 hd).1

theorem run_snoc (c : Cfg α) (s s1 : State α) (ops : List (Op α)) (op : Op α)
    (h : run c s (ops ++ [op]) = some s1) : ∃ s', run c s ops = some s' ∧ step c s' op = some s1 := by
  rw [run_append] at h
  cases hr : run c s ops with
  | none => rw [hr] at h; simp at h
  | some s' =>
    rw [hr] at h
    simp only [Option.bind_some, run] at h
    refine ⟨s', rfl, ?_⟩
    cases hs : step c s' op with
    | none => rw [hs] at h; simp at h
    | some s2 => rw [hs] at h; simpa using h

/-- **HDM twin theorem** (history form): every start `s0` satisfying the reachability invariant
    (`good_init`: a newly constructed detector does), every history `ops` followed by an update on
    `X` that reports drift, every continuation that starts with an update: from there on the
    running detector accepts / rejects, reports and records what a new detector with
    `set_reference(X)` does on the continuation alone. -/
theorem twin_history (c : Cfg α) (o' : Oracle α) (s0 s1 : State α) (hg : Good c s0) (ops : List (Op α))
    (X : List (List α)) (o : Oracle α) (h : run c s0 (ops ++ [.batch X o]) = some s1)
    (hd : s1.drift = .drift) (Y : List (List α)) (oy : Oracle α) (ops' : List (Op α)) :
    RelOpt (SameUpTo c s1.total) (run c s0 (ops ++ [.batch X o] ++ .batch Y oy :: ops'))
      (runFresh c o' X (.batch Y oy :: ops')) ∧
    outs c s0 (ops ++ [.batch X o] ++ .batch Y oy :: ops') =
      outs c s0 (ops ++ [.batch X o]) ++ outsFresh c o' X (.batch Y oy :: ops') := by
  obtain ⟨s', hs', hst⟩ := run_snoc c s0 s1 ops _ h
  have href : s1.reference = X := drift_reference c o s' s1 X (run_good c ops s0 s' hg hs') hst hd
  have hp := (run_good c _ s0 s1 hg h).pending hd
  obtain ⟨t1, t2⟩ := twin c o' s1 hp Y oy ops'
  rw [href] at t1 t2
  refine ⟨?_, ?_⟩
  · rw [run_append, h]; exact t1
  · rw [outs_append, h]; simp only [t2]

/-- **Second, third, … drift.**  When the continuation `k ++ [X']` ends in a drift again, the twin
    reports it at the same place, and from then on the running detector and the first twin both
    equal the new detector with `set_reference(X')` — the twin being an ordinary history. -/
theorem twin_epochs (c : Cfg α) (o' o'' : Oracle α) (s0 s1 s2 : State α) (hg : Good c s0)
    (ops : List (Op α)) (X : List (List α)) (o : Oracle α)
    (h1 : run c s0 (ops ++ [.batch X o]) = some s1) (hd1 : s1.drift = .drift)
    (k : List (Op α)) (X' : List (List α)) (ox : Oracle α)
    (hk : ∃ Y oy r, k ++ [.batch X' ox] = .batch Y oy :: r)
    (h2 : run c s0 (ops ++ [.batch X o] ++ (k ++ [.batch X' ox])) = some s2) (hd2 : s2.drift = .drift)
    (Z : List (List α)) (oz : Oracle α) (ops2 : List (Op α)) :
    ∃ t2, runFresh c o' X (k ++ [.batch X' ox]) = some t2 ∧ t2.drift = .drift ∧
      s2.total = t2.total + s1.total ∧
      RelOpt (SameUpTo c s2.total)
        (run c s0 (ops ++ [.batch X o] ++ k ++ [.batch X' ox] ++ .batch Z oz :: ops2))
        (runFresh c o'' X' (.batch Z oz :: ops2)) ∧
      RelOpt (SameUpTo c t2.total) (runFresh c o' X (k ++ [.batch X' ox] ++ .batch Z oz :: ops2))
        (runFresh c o'' X' (.batch Z oz :: ops2)) := by
  obtain ⟨Y, oy, r, hr⟩ := hk
  have t := (twin_history c o' s0 s1 hg ops X o h1 hd1 Y oy r).1
  rw [← hr, h2] at t
  cases hf : runFresh c o' X (k ++ [.batch X' ox]) with
  | none => rw [hf] at t; exact t.elim
  | some t2 =>
    rw [hf] at t
    have t' : SameUpTo c s1.total s2 t2 := t
    have hdt : t2.drift = .drift := by rw [← t'.drift]; exact hd2
    refine ⟨t2, rfl, hdt, t'.total, ?_, ?_⟩
    · have h2' : run c s0 ((ops ++ [.batch X o] ++ k) ++ [.batch X' ox]) = some s2 := by
        simpa [List.append_assoc] using h2
      exact (twin_history c o'' s0 s2 hg _ X' ox h2' hd2 Z oz ops2).1
    · rw [runFresh_eq_run] at hf ⊢
      have := (twin_history c o'' init t2 (good_init c) (.setRef X o' :: k) X' ox hf hdt Z oz ops2).1
      simpa [List.append_assoc] using this

/-- `set_reference` at any time puts the detector into the state of a new detector with the same
    `set_reference`, up to the batch count (and the older records) -/
theorem setReference_fresh (c : Cfg α) (o o' : Oracle α) (s s' : State α) (hk : KeysLe s)
    (B : List (List α)) (h : setReference c o s B = some s') :
    ∃ t, fresh c o' B = some t ∧ SameUpTo c s.total s' t := by
  unfold setReference at h
  split at h
  · simp at h
  · rename_i d hv
    have hrows : ValidRows c d B := by
      cases hdim : s.dim with
      | none => rw [hdim, validBatch_none] at hv; exact hv
      | some d0 => rw [hdim, validBatch_some] at hv; rw [hv.1]; exact hv.2
    have hw : Weak s.total
        { s with dim := some d, hasRef := true, reference := B, lambda := s.total } (freshPre d B) := by
      constructor <;> simp [freshPre, init, recShift_nil _ _ hk.1, recShift_nil _ _ hk.2.1, recShift_nil _ _ hk.2.2]
    have := reset_sameUpTo c o o' s.total _ _ hw
    rw [h] at this
    rw [fresh_eq c o' B d hrows]
    cases hr : reset c o' (freshPre d B) with
    | none => rw [hr] at this; exact this.elim
    | some t => rw [hr] at this; exact ⟨t, rfl, this⟩

/-- **`set_reference` twin theorem.**  At any time (any state whose record keys are batch indices
    seen so far — every reachable state, `run_keysLe`; a drift may be pending or not), an accepted
    `set_reference(B)` is equivalent to starting a new detector on `B`: the new detector accepts
    `B` as well, reports the same right away, and for every continuation with the same oracle
    inputs both accept / reject the same calls, report the same after each, and stay `SameUpTo`
    with offset = the batch count at the call.  (A `set_reference` the running detector rejects
    — wrong width for the established `_input_col_dim` — has no counterpart.) -/
theorem setReference_twin (c : Cfg α) (o o' : Oracle α) (s s' : State α) (hk : KeysLe s)
    (B : List (List α)) (h : setReference c o s B = some s') (ops : List (Op α)) :
    (∃ t, fresh c o' B = some t ∧ report c s' = report c t) ∧
    RelOpt (SameUpTo c s.total) (run c s' ops) (runFresh c o' B ops) ∧
    outs c s' ops = outsFresh c o' B ops := by
  obtain ⟨t, ht, hR⟩ := setReference_fresh c o o' s s' hk B h
  obtain ⟨r1, r2⟩ := run_sameUpTo c s.total ops s' t hR
  refine ⟨⟨t, ht, hR.report_eq⟩, ?_, ?_⟩
  · unfold runFresh; rw [ht]; exact r1
  · unfold outsFresh; rw [ht]; exact r2

/-- … in particular after any history from a newly constructed detector (or any start with bounded keys) -/
theorem setReference_twin_history (c : Cfg α) (o o' : Oracle α) (s0 s : State α) (hk : KeysLe s0)
    (ops : List (Op α)) (h0 : run c s0 ops = some s) (B : List (List α)) (ops' : List (Op α))
    (hacc : (setReference c o s B).isSome = true) :
    RelOpt (SameUpTo c s.total) (run c s0 (ops ++ .setRef B o :: ops')) (runFresh c o' B ops') ∧
    outs c s0 (ops ++ .setRef B o :: ops') = outs c s0 (ops ++ [.setRef B o]) ++ outsFresh c o' B ops' := by
  obtain ⟨s', hs'⟩ := Option.isSome_iff_exists.1 hacc
  obtain ⟨_, r1, r2⟩ := setReference_twin c o o' s s' (run_keysLe c ops s0 s hk h0) B hs' ops'
  have e : ops ++ Op.setRef B o :: ops' = (ops ++ [.setRef B o]) ++ ops' := by simp
  have hrun : run c s0 (ops ++ [.setRef B o]) = some s' := by
    rw [run_append, h0]; simp [run, step, hs']
  refine ⟨?_, ?_⟩
  · rw [e, run_append, hrun]; exact r1
  · rw [e, outs_append, hrun]; simp only [r2]

/-! ### corollaries: records as dicts, history independence, counters, the carry-over spelled out -/

/-- read as dicts: the running detector's entry for batch `k + off` is the twin's entry for batch `k` -/
theorem RecShift.mem_iff {off : Nat} {r r' : List (Nat × α)} (h : RecShift off r r') (k : Nat) (x : α)
    (hk : 0 < k) : (k + off, x) ∈ r ↔ (k, x) ∈ r' := by
  unfold RecShift shiftKeys at h
  have h1 : (k + off, x) ∈ r.filter (fun p => decide (off < p.1)) ↔ (k + off, x) ∈ r := by
    simp only [List.mem_filter, decide_eq_true_eq, and_iff_left_iff_imp]
    intro _; omega
  rw [← h1, h]
  simp only [List.mem_map, Prod.mk.injEq, Prod.exists]
  constructor
  · rintro ⟨a, b, hab, h2, rfl⟩
    have : a = k := by omega
    subst this; exact hab
  · intro hm
    exact ⟨k, x, hm, rfl, rfl⟩

/-- **No statistic accumulated before the drift matters**: two detectors in which a drift has just
    been reported on the same batch — whatever their histories, ε lists, sums, `_lambda`, previous
    distances, bins, thresholds — report the same on every common continuation. -/
theorem pending_history_independent (c : Cfg α) (s s' : State α) (hp : Pending c s) (hp' : Pending c s')
    (href : s.reference = s'.reference) (X : List (List α)) (o : Oracle α) (ops : List (Op α)) :
    outs c s (.batch X o :: ops) = outs c s' (.batch X o :: ops) ∧
    ((run c s (.batch X o :: ops)).isSome = (run c s' (.batch X o :: ops)).isSome) := by
  obtain ⟨a1, a2⟩ := twin c o s hp X o ops
  obtain ⟨b1, b2⟩ := twin c o s' hp' X o ops
  rw [href] at a1 a2
  refine ⟨by rw [a2, b2], ?_⟩
  cases h1 : run c s (.batch X o :: ops) <;> cases h2 : run c s' (.batch X o :: ops) <;>
    cases h3 : runFresh c o s'.reference (.batch X o :: ops) <;> simp_all [RelOpt]

/-- counters of the update that follows a drift: with `detect_batch = 1` the proxy batch is counted,
    `batches_since_reset` restarts at 2, otherwise at 1 -/
theorem first_after_drift_counters (c : Cfg α) (o : Oracle α) (s s' : State α) (X : List (List α))
    (hd : s.drift = .drift) (h : update c o s X = some s') :
    s'.since = (if c.detectBatch = 1 then 2 else 1) ∧
    s'.total = s.total + (if c.detectBatch = 1 then 2 else 1) := by
  obtain ⟨_, s0, d, hp, _, rfl⟩ := update_eq c o s s' X h
  have hc := updateCore_counters c o s0 d X
  rw [hc.1, hc.2]
  unfold preState at hp
  simp only [hd, if_true] at hp
  by_cases h1 : c.detectBatch = 1
  · have := reset_split c o s s0 h1 hp
    simp [h1, this.2.2.2.1, this.2.2.2.2.1]
  · rw [reset_restarts c o s h1] at hp
    injection hp with hp; subst hp
    simp [h1]

/-- … and of the twin before that update: the new detector has counted the proxy batch as well -/
theorem fresh_counters (c : Cfg α) (o' : Oracle α) (B : List (List α)) (t : State α)
    (h : fresh c o' B = some t) :
    t.since = (if c.detectBatch = 1 then 1 else 0) ∧ t.total = (if c.detectBatch = 1 then 1 else 0) ∧
    t.lambda = 0 ∧ t.reference = B ∧ t.drift = .none := by
  have := setReference_spec c o' init t B h
  refine ⟨this.2.2.2.2.2.2.2.1, ?_, this.2.2.2.2.2.2.1, this.1, this.2.2.2.1⟩
  rw [this.2.2.2.2.2.2.2.2.1]; simp [init]

/-- the carry-over with `detect_batch = 1`, exactly as the model does it: the new detector takes
    the first `⌊n/2⌋` rows of the drifted batch as reference and pushes the remaining rows through
    `update` as a proxy batch (rejected when those are fewer than two rows) -/
theorem fresh_detect1 (c : Cfg α) (o' : Oracle α) (B : List (List α)) (d : Nat) (h1 : c.detectBatch = 1)
    (hB : ValidRows c d B) :
    fresh c o' B =
      match validBatch c (some d) (B.drop (B.length / 2)) with
      | some d' => some (updateCore c o'
          { freshPre d B with since := 0, drift := .none, reference := B.take (B.length / 2),
                              refN := (B.take (B.length / 2)).length,
                              bins := Nat.sqrt (B.take (B.length / 2)).length, eps := [], totalEps := zero }
          d' (B.drop (B.length / 2)))
      | none => none := by
  rw [fresh_eq c o' B d hB]
  unfold reset
  simp only [h1, if_true, freshPre]
  cases validBatch c (some d) (List.drop (B.length / 2) B) <;> rfl

/-- the carry-over with `detect_batch ≠ 1`: the drifted batch as it is -/
theorem fresh_detect23 (c : Cfg α) (o' : Oracle α) (B : List (List α)) (d : Nat) (h1 : c.detectBatch ≠ 1)
    (hB : ValidRows c d B) :
    fresh c o' B = some { freshPre d B with since := 0, drift := .none, refN := B.length,
                                            bins := Nat.sqrt B.length, eps := [], totalEps := zero } := by
  rw [fresh_eq c o' B d hB, reset_restarts c o' _ h1]
  rfl


/-- the `reset` that opens an `update` keeps the relation (it is applied on both sides or on none) -/
theorem preState_sameUpTo (c : Cfg α) (o : Oracle α) (off : Nat) (s t : State α) (h : SameUpTo c off s t) :
    RelOpt (SameUpTo c off) (preState c o s) (preState c o t) := by
  unfold preState
  rw [h.drift]
  by_cases hd : t.drift = .drift
  · simp only [hd, if_true]; exact reset_sameUpTo c o o off s t h.weak
  · simp only [hd, if_false]; exact h

/-- what the real code computes the two oracle inputs from, at the moment it does so (after the
    optional `reset`, before the reference is extended): the bootstrap ε₀ from the reference, its
    size, the bins, the width, the batch's range and the global RNG; the `t` critical value from
    `reference_n + test_n - 2` and the significance -/
def oracleView (s : State α) : Option Nat × List (List α) × Nat × Nat := (s.dim, s.reference, s.refN, s.bins)

/-- related states present the same data to the oracles — so feeding both sides the same oracle
    values (under the same RNG state) is what the real code does -/
theorem SameUpTo.oracleView_eq {c : Cfg α} {off : Nat} {s t : State α} (h : SameUpTo c off s t) :
    oracleView s = oracleView t := by
  unfold oracleView; rw [h.dim, h.reference, h.refN, h.bins]

/-- **same records for the batch just processed**: after an update on related states the entries
    written for this batch (key = the respective batch count) are the same on both sides, in each of
    `distances`, `epsilon_values`, `thresholds` -/
theorem SameUpTo.records_now {c : Cfg α} {off : Nat} {s t : State α} (h : SameUpTo c off s t)
    (ht : 0 < t.total) (x : α) :
    ((s.total, x) ∈ s.distances ↔ (t.total, x) ∈ t.distances) ∧
    ((s.total, x) ∈ s.epsValues ↔ (t.total, x) ∈ t.epsValues) ∧
    ((s.total, x) ∈ s.thresholds ↔ (t.total, x) ∈ t.thresholds) := by
  rw [h.total]
  exact ⟨h.distances.mem_iff _ x ht, h.epsValues.mem_iff _ x ht, h.thresholds.mem_iff _ x ht⟩

/-! ### the public dicts in append form -/

/-- record `r'` is record `r` with entries appended whose keys are all `> n` -/
def RecExt (n : Nat) (r r' : List (Nat × α)) : Prop := ∃ l, r' = r ++ l ∧ ∀ p ∈ l, n < p.1

theorem RecExt.refl (n : Nat) (r : List (Nat × α)) : RecExt n r r := ⟨[], by simp, by simp⟩

theorem RecExt.trans {n m : Nat} {a b c : List (Nat × α)} (hnm : n ≤ m) (h1 : RecExt n a b)
    (h2 : RecExt m b c) : RecExt n a c := by
  obtain ⟨l1, rfl, k1⟩ := h1
  obtain ⟨l2, rfl, k2⟩ := h2
  refine ⟨l1 ++ l2, by simp, ?_⟩
  intro p hp
  rcases List.mem_append.1 hp with hp | hp
  · exact k1 p hp
  · have := k2 p hp; omega

/-- the public records only grow, by entries for later batches -/
structure Extends (s s' : State α) : Prop where
  total : s.total ≤ s'.total
  distances : RecExt s.total s.distances s'.distances
  epsValues : RecExt s.total s.epsValues s'.epsValues
  thresholds : RecExt s.total s.thresholds s'.thresholds

theorem Extends.refl (s : State α) : Extends s s := ⟨le_refl _, RecExt.refl _ _, RecExt.refl _ _, RecExt.refl _ _⟩

theorem Extends.trans {a b c : State α} (h1 : Extends a b) (h2 : Extends b c) : Extends a c :=
  ⟨le_trans h1.total h2.total, h1.distances.trans h1.total h2.distances,
   h1.epsValues.trans h1.total h2.epsValues, h1.thresholds.trans h1.total h2.thresholds⟩

theorem Extends.of_same {a a' b : State α} (ht : a.total = a'.total) (h1 : a.distances = a'.distances)
    (h2 : a.epsValues = a'.epsValues) (h3 : a.thresholds = a'.thresholds) (h : Extends a' b) :
    Extends a b := by
  obtain ⟨x, y, z, w⟩ := h
  exact ⟨by rw [ht]; exact x, by rw [ht, h1]; exact y, by rw [ht, h2]; exact z, by rw [ht, h3]; exact w⟩

theorem updateCore_extends (c : Cfg α) (o : Oracle α) (s : State α) (dim : Nat) (X : List (List α)) :
    Extends s (updateCore c o s dim X) := by
  have hr := updateCore_records c o s dim X
  have hc := (updateCore_counters c o s dim X).1
  simp only at hr
  refine ⟨by omega, ?_, ?_, ?_⟩
  · rw [hr.2.1]; exact ⟨_, rfl, by simp⟩
  · rw [hr.2.2.1]
    split
    · exact ⟨_, rfl, by simp⟩
    · exact RecExt.refl _ _
  · rw [hr.2.2.2.1]
    split
    · exact ⟨_, rfl, by simp⟩
    · exact RecExt.refl _ _

theorem reset_extends (c : Cfg α) (o : Oracle α) (s s' : State α) (hr : reset c o s = some s') :
    Extends s s' := by
  unfold reset at hr
  by_cases h1 : c.detectBatch = 1
  · simp only [h1, if_true] at hr
    split at hr
    · injection hr with hr
      subst hr
      refine Extends.of_same ?_ ?_ ?_ ?_ (updateCore_extends c o _ _ _) <;> rfl
    · simp at hr
  · simp only [h1, if_false] at hr
    injection hr with hr
    subst hr
    exact ⟨le_refl _, RecExt.refl _ _, RecExt.refl _ _, RecExt.refl _ _⟩

theorem step_extends (c : Cfg α) (s s' : State α) (op : Op α) (hr : step c s op = some s') :
    Extends s s' := by
  cases op with
  | setRef X o =>
    simp only [step, setReference] at hr
    split at hr
    · simp at hr
    · refine Extends.of_same ?_ ?_ ?_ ?_ (reset_extends c o _ s' hr) <;> rfl
  | batch X o =>
    simp only [step] at hr
    obtain ⟨_, s0, d, hp, _, rfl⟩ := update_eq c o s s' X hr
    have h0 : Extends s s0 := by
      unfold preState at hp
      by_cases hd : s.drift = .drift
      · simp only [hd, if_true] at hp; exact reset_extends c o s s0 hp
      · simp only [hd, if_false] at hp; injection hp with hp; subst hp; exact Extends.refl s
    exact h0.trans (updateCore_extends c o s0 d X)

theorem run_extends (c : Cfg α) (ops : List (Op α)) (s s' : State α) (hr : run c s ops = some s') :
    Extends s s' := by
  induction ops generalizing s with
  | nil => simp [run] at hr; subst hr; exact Extends.refl s
  | cons op ops ih =>
    simp only [run] at hr
    split at hr
    · rename_i s1 hs1
      exact (step_extends c s s1 op hs1).trans (ih s1 hr)
    · simp at hr

theorem recShift_split (off : Nat) (r l r' : List (Nat × α)) (h1 : ∀ p ∈ r, p.1 ≤ off)
    (h2 : ∀ p ∈ l, off < p.1) (h : RecShift off (r ++ l) r') : l = shiftKeys off r' := by
  unfold RecShift at h
  rw [List.filter_append] at h
  have a : r.filter (fun p => decide (off < p.1)) = [] := by
    rw [List.filter_eq_nil_iff]; intro p hp; have := h1 p hp; simp; omega
  have b : l.filter (fun p => decide (off < p.1)) = l := by
    rw [List.filter_eq_self]; intro p hp; simpa using h2 p hp
  rw [a, b] at h
  simpa using h

theorem records_split (c : Cfg α) (s s' t' : State α) (hk : KeysLe s) (hE : Extends s s')
    (hR : SameUpTo c s.total s' t') :
    s'.distances = s.distances ++ shiftKeys s.total t'.distances ∧
    s'.epsValues = s.epsValues ++ shiftKeys s.total t'.epsValues ∧
    s'.thresholds = s.thresholds ++ shiftKeys s.total t'.thresholds := by
  obtain ⟨l1, e1, k1⟩ := hE.distances
  obtain ⟨l2, e2, k2⟩ := hE.epsValues
  obtain ⟨l3, e3, k3⟩ := hE.thresholds
  refine ⟨?_, ?_, ?_⟩
  · rw [e1]; congr 1
    exact recShift_split _ _ _ _ hk.1 k1 (e1 ▸ hR.distances)
  · rw [e2]; congr 1
    exact recShift_split _ _ _ _ hk.2.1 k2 (e2 ▸ hR.epsValues)
  · rw [e3]; congr 1
    exact recShift_split _ _ _ _ hk.2.2 k3 (e3 ▸ hR.thresholds)

/-- **the public dicts after a drift**: whatever follows, the running detector's `distances`,
    `epsilon_values`, `thresholds` are the entries they held when the drift was reported, followed
    by exactly the twin's entries with keys shifted by the batch count at the drift -/
theorem twin_records (c : Cfg α) (o' : Oracle α) (s : State α) (hp : Pending c s) (X : List (List α))
    (o : Oracle α) (ops : List (Op α)) (s' t' : State α)
    (hs : run c s (.batch X o :: ops) = some s')
    (ht : runFresh c o' s.reference (.batch X o :: ops) = some t') :
    s'.distances = s.distances ++ shiftKeys s.total t'.distances ∧
    s'.epsValues = s.epsValues ++ shiftKeys s.total t'.epsValues ∧
    s'.thresholds = s.thresholds ++ shiftKeys s.total t'.thresholds := by
  have hR := (twin c o' s hp X o ops).1
  rw [hs, ht] at hR
  exact records_split c s s' t' hp.keys (run_extends c _ s s' hs) hR

/-- … and after a `set_reference`: the old entries, then the new detector's, keys shifted by the
    batch count at the call -/
theorem setReference_records (c : Cfg α) (o o' : Oracle α) (s s1 : State α) (hk : KeysLe s)
    (B : List (List α)) (h : setReference c o s B = some s1) (ops : List (Op α)) (s' t' : State α)
    (hs : run c s1 ops = some s') (ht : runFresh c o' B ops = some t') :
    s'.distances = s.distances ++ shiftKeys s.total t'.distances ∧
    s'.epsValues = s.epsValues ++ shiftKeys s.total t'.epsValues ∧
    s'.thresholds = s.thresholds ++ shiftKeys s.total t'.thresholds := by
  have hR := (setReference_twin c o o' s s1 hk B h ops).2.1
  rw [hs, ht] at hR
  have hE : Extends s s1 := step_extends c s s1 (.setRef B o) h
  exact records_split c s s' t' hk (hE.trans (run_extends c _ s1 s' hs)) hR

end anyCarrier

/-! ### non-vacuity: concrete detectors reaching the hypotheses (toy carrier `Int`, as in C07) -/
namespace DemoTwin
local instance : HasSqrt Int := ⟨id⟩
local instance : HasLogExp Int := ⟨id, id⟩
local instance : HasLog1p Int := ⟨id⟩
local instance : HasTrunc Int := ⟨Int.toNat⟩

/-- user divergence: the number of batch rows in the first bin; `stdev` statistic with 0 deviations -/
def cfg (db : Nat) : Cfg Int :=
  { div := .user (fun _ t => ((t.headD 0 : Nat) : Int)), detectBatch := db, stat := .stdev, signif := 0 }
def o : Oracle Int := { eps0 := 0, tcrit := 0 }
def A : List (List Int) := [[0], [4]]
def A4 : List (List Int) := [[0], [4], [0], [4]]
def D : List (List Int) := [[0], [0], [0], [0], [4]]
def E : List (List Int) := [[4], [4], [4], [0], [4]]
def Z : List (List Int) := [[4], [4]]

theorem exists_drift {r : Option (State Int)} (h : r.map (·.drift) = some .drift) :
    ∃ s1, r = some s1 ∧ s1.drift = .drift := by
  cases r with
  | none => simp at h
  | some s => exact ⟨s, rfl, by simpa using h⟩

/-- `detect_batch = 3`: hypotheses of `twin_history` (history ending in a drift on `D`) … -/
example : ∃ s1, run (cfg 3) init ([.setRef A o, .batch A o, .batch A o] ++ [.batch D o]) = some s1 ∧
    s1.drift = .drift := exists_drift (by decide +kernel)
/-- … and of `twin_epochs` (continuation `D, D, E` accepted and ending in a second drift) -/
example : ∃ s2, run (cfg 3) init ([.setRef A o, .batch A o, .batch A o] ++ [.batch D o] ++
    ([.batch D o, .batch D o] ++ [.batch E o])) = some s2 ∧ s2.drift = .drift :=
  exists_drift (by decide +kernel)

/-- `detect_batch = 2`: drift on the second batch, and again on the second batch of the next epoch -/
example : ∃ s1, run (cfg 2) init ([.setRef A o, .batch A o] ++ [.batch D o]) = some s1 ∧
    s1.drift = .drift := exists_drift (by decide +kernel)
example : ∃ s2, run (cfg 2) init ([.setRef A o, .batch A o] ++ [.batch D o] ++
    ([.batch D o] ++ [.batch E o])) = some s2 ∧ s2.drift = .drift := exists_drift (by decide +kernel)

/-- `detect_batch = 1`: drift on the first batch; the update that follows (proxy batch + `E`,
    `batches_since_reset = 2`) reports drift again at once (`k = []` in `twin_epochs`), and so does
    the next one -/
example : ∃ s1, run (cfg 1) init ([.setRef A4 o] ++ [.batch D o]) = some s1 ∧ s1.drift = .drift :=
  exists_drift (by decide +kernel)
example : ∃ s2, run (cfg 1) init ([.setRef A4 o] ++ [.batch D o] ++ ([] ++ [.batch E o])) = some s2 ∧
    s2.drift = .drift ∧ s2.since = 2 ∧ s2.total = 4 := by
  obtain ⟨s2, h, hd⟩ := exists_drift (r := run (cfg 1) init ([.setRef A4 o] ++ [.batch D o] ++ ([] ++ [.batch E o])))
    (by decide +kernel)
  have h2 : (run (cfg 1) init ([.setRef A4 o] ++ [.batch D o] ++ ([] ++ [.batch E o]))).map
      (fun s => (s.since, s.total)) = some (2, 4) := by decide +kernel
  rw [h] at h2
  simp only [Option.map_some, Option.some.injEq, Prod.mk.injEq] at h2
  exact ⟨s2, h, hd, h2.1, h2.2⟩
example : ∃ s3, run (cfg 1) init ([.setRef A4 o, .batch D o, .batch E o] ++ [.batch A o]) = some s3 ∧
    s3.drift = .drift := exists_drift (by decide +kernel)

/-- a state with a pending drift as the state form `twin` wants it -/
example : ∃ s, Pending (cfg 1) s := by
  obtain ⟨s1, h, hd⟩ := exists_drift (r := run (cfg 1) init ([.setRef A4 o] ++ [.batch D o])) (by decide +kernel)
  exact ⟨s1, (run_good _ _ _ _ (good_init _) h).pending hd⟩

/-- `setReference_twin_history`: an accepted `set_reference` in the middle of a history (here while a
    drift is pending), continuation accepted -/
example : (run (cfg 1) init ([.setRef A4 o, .batch D o] ++ .setRef A4 o :: [.batch D o])).isSome = true := by
  decide +kernel

/-- the "both rejected" side of `RelOpt` is inhabited: with `detect_batch = 1` a drift on the two-row
    batch `Z` leaves a reference that cannot be split — the next `update` is rejected, and so is
    `set_reference(Z)` on a new detector (finding F20) -/
example : (run (cfg 1) init [.setRef A4 o, .batch Z o]).map (·.drift) = some .drift ∧
    (run (cfg 1) init [.setRef A4 o, .batch Z o, .batch A o]).isNone = true ∧
    (fresh (cfg 1) o Z).isNone = true := by
  decide +kernel

end DemoTwin

end MV.HDM
