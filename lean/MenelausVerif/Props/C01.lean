/-
  C01 — the lifecycle contract.

  Part 1 (this section): the executable acceptor of `Model/Lifecycle.lean`, which the
  driver runs on traces of the real detectors, accepts a trace iff the declarative contract
  `Holds` is true of it, and acceptance implies the user-facing consequences (total counts
  updates and never goes back; the since-reset counter advances by one except where it
  restarts, which happens exactly on the update after a reported drift or when a kdq
  reference completes; nothing is reported before the warm-up; recommendations at a drift end
  at the current sample and start no later).

  Part 2 (`Props/C01Models.lean`): every trace of the Lean detector models is accepted.
-/
import MenelausVerif.Model.Lifecycle
namespace MV.Lifecycle
open MV

/-- the declarative per-row contract -/
structure RowOK (c : Cfg) (m : Mon) (o : Obs) : Prop where
  total : o.total = expectedTotal c m
  since : o.since = expectedSince c m o
  warm : o.drift ≠ .none → warm c m o = true
  recsAtDrift : c.hasRecs = true → o.drift = .drift → recsAtDrift o = true
  recsCleared : c.hasRecs = true → m.prevDrift = .drift → ¬(c.kind = .adwin ∧ o.drift = .drift) → recsFresh o = true
  adwin : c.kind = .adwin → o.drift = .drift → adwinRecs m o = true

/-- the contract over a whole trace -/
def Holds (c : Cfg) : Mon → List Obs → Prop
  | _, [] => True
  | m, o :: os => RowOK c m o ∧ Holds c (advance m o) os

private theorem bool_of_not {P : Prop} {b : Bool} (h : ¬(P ∧ b = false)) (hp : P) : b = true := by
  cases b
  · exact absurd ⟨hp, rfl⟩ h
  · rfl

theorem violated_none_iff (c : Cfg) (m : Mon) (o : Obs) : violated c m o = none ↔ RowOK c m o := by
  constructor
  · intro h
    unfold violated at h
    split at h; · simp at h
    split at h; · simp at h
    split at h; · simp at h
    split at h; · simp at h
    split at h; · simp at h
    split at h; · simp at h
    rename_i h1 h2 h3 h4 h5 h6
    refine ⟨by simpa using h1, by simpa using h2, ?_, ?_, ?_, ?_⟩
    · intro hd; exact bool_of_not h3 hd
    · intro hr hd; exact bool_of_not (P := c.hasRecs = true ∧ o.drift = .drift) (fun ⟨⟨a, b⟩, w⟩ => h4 ⟨a, b, w⟩) ⟨hr, hd⟩
    · intro hr hp hk
      exact bool_of_not (P := c.hasRecs = true ∧ m.prevDrift = .drift ∧ ¬(c.kind = .adwin ∧ o.drift = .drift))
        (fun ⟨⟨a, b, k⟩, w⟩ => h5 ⟨a, b, k, w⟩) ⟨hr, hp, hk⟩
    · intro hk hd; exact bool_of_not (P := c.kind = .adwin ∧ o.drift = .drift) (fun ⟨⟨a, b⟩, w⟩ => h6 ⟨a, b, w⟩) ⟨hk, hd⟩
  · intro ⟨h1, h2, h3, h4, h5, h6⟩
    unfold violated
    rw [if_neg (by simpa using h1), if_neg (by simpa using h2)]
    rw [if_neg (by intro ⟨hd, hw⟩; simp [h3 hd] at hw)]
    rw [if_neg (by intro ⟨hr, hd, hw⟩; simp [h4 hr hd] at hw)]
    rw [if_neg (by intro ⟨hr, hp, hk, hw⟩; simp [h5 hr hp hk] at hw)]
    rw [if_neg (by intro ⟨hk, hd, hw⟩; simp [h6 hk hd] at hw)]

/-- **The acceptor decides the contract.** -/
theorem accept_none_iff (c : Cfg) (m : Mon) (i : Nat) (os : List Obs) :
    accept c m i os = none ↔ Holds c m os := by
  induction os generalizing m i with
  | nil => simp [accept, Holds]
  | cons o os ih =>
    unfold accept Holds
    cases hv : violated c m o with
    | some cl =>
      simp only [reduceCtorEq, false_iff]
      intro ⟨hr, _⟩
      rw [(violated_none_iff c m o).2 hr] at hv; cases hv
    | none =>
      simp only
      rw [ih]
      exact ⟨fun h => ⟨(violated_none_iff c m o).1 hv, h⟩, fun h => h.2⟩

/-! ### consequences of acceptance -/

/-- the last total seen after a trace -/
def lastMon (m : Mon) (os : List Obs) : Mon := os.foldl advance m

/-- **total never goes back** and, where every update counts once, **total counts the updates** -/
theorem total_counts (c : Cfg) (hinc : c.incAfterDrift = 1) (m : Mon) (os : List Obs)
    (h : Holds c m os) : (lastMon m os).total = m.total + os.length := by
  induction os generalizing m with
  | nil => simp [lastMon]
  | cons o os ih =>
    obtain ⟨hr, hrest⟩ := h
    have := ih (advance m o) hrest
    simp only [lastMon, List.foldl_cons, List.length_cons] at *
    rw [this]
    have ht : (advance m o).total = m.total + 1 := by
      simp [advance, hr.total, expectedTotal, hinc]
    omega

theorem total_monotone (c : Cfg) (hinc : 1 ≤ c.incAfterDrift) (m : Mon) (o : Obs)
    (h : RowOK c m o) : m.total < o.total := by
  rw [h.total]; unfold expectedTotal; split <;> omega

/-- the since-reset counter advances by exactly one unless a restart event happens -/
theorem since_advances (c : Cfg) (m : Mon) (o : Obs) (h : RowOK c m o)
    (hd : m.prevDrift ≠ .drift) (hr : o.refDone = false) : o.since = m.since + 1 := by
  rw [h.since]; simp [expectedSince, hd, hr]

/-- … and restarts automatically on the update that follows a reported drift -/
theorem since_restarts (c : Cfg) (m : Mon) (o : Obs) (h : RowOK c m o)
    (hd : m.prevDrift = .drift) (hr : o.refDone = false) : o.since = c.restart := by
  rw [h.since]; simp [expectedSince, hd, hr]

/-- nothing is reported before the documented minimum amount of data (instances) -/
theorem warm_ddm (c : Cfg) (m : Mon) (o : Obs) (h : RowOK c m o) (hk : c.kind = .ddm)
    (hd : o.drift ≠ .none) : o.since ≥ c.a := by
  have := h.warm hd; simpa [warm, hk] using this

theorem warm_burnin (c : Cfg) (m : Mon) (o : Obs) (h : RowOK c m o) (hk : c.kind = .burnin)
    (hd : o.drift ≠ .none) : o.since > c.a := by
  have := h.warm hd; simpa [warm, hk] using this

theorem warm_stepd (c : Cfg) (m : Mon) (o : Obs) (h : RowOK c m o) (hk : c.kind = .stepd)
    (hd : o.drift ≠ .none) : o.since ≥ 2 * c.a := by
  have := h.warm hd; simpa [warm, hk] using this

theorem warm_hdm (c : Cfg) (m : Mon) (o : Obs) (h : RowOK c m o) (hk : c.kind = .hdm)
    (hd : o.drift ≠ .none) : o.since ≥ 2 ∧ o.since ≥ c.a := by
  have := h.warm hd
  simp only [warm, hk, decide_eq_true_eq] at this
  omega

theorem warm_adwin (c : Cfg) (m : Mon) (o : Obs) (h : RowOK c m o) (hk : c.kind = .adwin)
    (hd : o.drift ≠ .none) : o.total % c.b = 0 ∧ m.width + 1 > c.a := by
  have := h.warm hd
  simpa [warm, hk] using this

/-- a recommendation reported with a drift is an index range ending at the current sample -/
theorem recs_at_drift (c : Cfg) (m : Mon) (o : Obs) (h : RowOK c m o) (hr : c.hasRecs = true)
    (hd : o.drift = .drift) : ∃ x y, o.recs = (some x, some y) ∧ x ≤ y ∧ y + 1 = o.total := by
  have := h.recsAtDrift hr hd
  unfold recsAtDrift at this
  rcases hrec : o.recs with ⟨a, b⟩
  rw [hrec] at this
  cases a <;> cases b <;> simp at this
  exact ⟨_, _, rfl, this.1, this.2⟩

/-! ### non-vacuity: a two-epoch DDM-style trace that the acceptor accepts -/
example :
    accept { kind := .ddm, a := 2, b := 1, restart := 1, incAfterDrift := 1, hasRecs := true } {} 0
      [ { drift := .none, total := 1, since := 1, recs := (none, none), err := false, refDone := false },
        { drift := .warning, total := 2, since := 2, recs := (some 1, none), err := false, refDone := false },
        { drift := .drift, total := 3, since := 3, recs := (some 1, some 2), err := false, refDone := false },
        { drift := .none, total := 4, since := 1, recs := (none, none), err := false, refDone := false },
        { drift := .none, total := 5, since := 2, recs := (none, none), err := false, refDone := false },
        { drift := .drift, total := 6, since := 3, recs := (some 5, some 5), err := false, refDone := false } ] = none := by
  decide

/-- … and one it rejects (a warning before `n_threshold`) -/
example :
    accept { kind := .ddm, a := 3, b := 1, restart := 1, incAfterDrift := 1, hasRecs := true } {} 0
      [ { drift := .none, total := 1, since := 1, recs := (none, none), err := false, refDone := false },
        { drift := .warning, total := 2, since := 2, recs := (some 1, none), err := false, refDone := false } ]
      = some (1, "warmup") := by
  decide

end MV.Lifecycle

namespace MV.Lifecycle

/-- rows observed along a run of a detector model -/
def rowsOf {σ ι : Type} (step : σ → ι → σ) (row : σ → ι → Obs) : σ → List ι → List Obs
  | _, [] => []
  | s, x :: xs => row (step s x) x :: rowsOf step row (step s x) xs

/-- **Transfer lemma.**  If an invariant links the acceptor's memory to the model's state and
every step of the model yields a row that violates no clause and re-establishes the
invariant, then every trace of the model is accepted (= satisfies the contract), for all
histories. -/
theorem model_accepted {σ ι : Type} (c : Cfg) (step : σ → ι → σ) (row : σ → ι → Obs)
    (Inv : Mon → σ → Prop)
    (hstep : ∀ m s x, Inv m s → violated c m (row (step s x) x) = none ∧ Inv (advance m (row (step s x) x)) (step s x)) :
    ∀ (xs : List ι) (m : Mon) (s : σ) (i : Nat), Inv m s → accept c m i (rowsOf step row s xs) = none := by
  intro xs
  induction xs with
  | nil => intro m s i _; rfl
  | cons x xs ih =>
    intro m s i h
    obtain ⟨h1, h2⟩ := hstep m s x h
    simp only [rowsOf, accept, h1]
    exact ih _ _ _ h2

end MV.Lifecycle
