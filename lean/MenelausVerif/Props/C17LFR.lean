/-
  C17 — Linear Four Rates (`Model/LFR.lean`): a smaller `detect_level` is stricter; the warning clause.

  The detect bounds of a rate are the percentiles `np.percentile(v, 100·δ)` and
  `np.percentile(v, 100 − 100·δ)` (method `linear`, `percentile` / `lerp` of the model) of the
  simulated statistics `v`, δ = `detect_level`; the warning bounds the same with `warn_level`.  They
  are cached in `_bounds[(rounded rate, denominator)]`, and the cache survives `reset`.

  1. `percentile_mono` (ordered field; `FloorLaw`: the index helper `floorNat` is the floor on
     non-negative values): the linear-interpolation percentile of a *sorted* sample is monotone in
     its level — for every level, also outside [0, 100] (where the model clamps).  Hence
     `simBounds_nested`: under `δ_strict ≤ δ_loose` and `w_strict ≤ w_loose` the detect / warning
     interval simulated under the stricter levels contains the one simulated under the looser levels
     (same draws).
  2. The bounds cache.  The two runs have *different* caches (the cached bounds depend on the
     levels).  `CRel P`: same keys in the same order, the bounds related entry by entry through `P`
     (`Nested`: intervals nested; `DetEq`: detect bounds equal).  `lookup_rel`: a key hits in both
     caches or in neither, so both runs simulate at the same moments and consume the same blocks of
     draws.  `calcRate_rel`, `loop_rel`, `step_rel` (every carrier, no law): one pass / one loop
     over `rates_tracked` / one `update` keeps the relation between the two accumulators / states,
     with the flags related through `FA`, `FW` (implication or equality).
  3. `lfr_first_drift_mono` (ordered field): smaller `detect_level` — and, simultaneously, an
     arbitrary change of `warn_level` in the same direction — never makes the first drift earlier.
  4. Warning clause.  `lfr_drift_ignores_warning` (every carrier, hence the executed `Float` model):
     two configurations that differ in `warn_level` only have the same statistics, equal detect
     bounds in their caches and report drift at exactly the same positions of every history.
     `lfr_warning_only` (ordered field): additionally every position that reports warning under the
     stricter `warn_level` reports warning under the looser one.

  Nothing is partial.  Hypotheses: `FloorLaw K` (satisfied by `⌊·⌋₊`, `floorLaw_natFloor`); no
  hypothesis on `rint` (the cache key is computed identically in both runs), none on `==`.
-/
import MenelausVerif.Props.C17
import MenelausVerif.Lemmas.C17Sim
import MenelausVerif.Props.C06
import Mathlib.Algebra.Order.Field.Basic
import Mathlib.Algebra.Order.Floor.Semiring
import Mathlib.Data.Rat.Floor
import Mathlib.Tactic.Linarith
import Mathlib.Tactic.NormNum
set_option linter.unusedSectionVars false
set_option linter.unusedSimpArgs false

namespace MV.C17.LFR
open MV MV.Mono MV.LFR

/-- the drift flag as a `Bool` -/
def isD (d : Drift) : Bool := d == .drift
theorem isD_false {d : Drift} : isD d = false ↔ d ≠ .drift := by cases d <;> simp [isD]
theorem isD_true {d : Drift} : isD d = true ↔ d = .drift := by cases d <;> simp [isD]

/-! ## 1. the percentile is monotone in its level -/
section percentile
variable {K : Type} [Field K] [LinearOrder K] [IsStrictOrderedRing K] [BEq K] [HasRound K]

/-- what the percentile needs of `floor(virtual_index).astype(intp)` in exact arithmetic -/
structure FloorLaw (K : Type) [Field K] [LinearOrder K] [HasRound K] : Prop where
  le : ∀ x : K, (0 : K) ≤ x → ((floorNat x : Nat) : K) ≤ x
  lt : ∀ x : K, (0 : K) ≤ x → x < ((floorNat x : Nat) : K) + 1

theorem zero_eq : (LFR.zero : K) = 0 := by simp [LFR.zero]
theorem one_eq : (LFR.one : K) = 1 := by simp [LFR.one]
theorem half_eq : (LFR.half : K) = 1 / 2 := by simp [LFR.half]
theorem hundred_eq : (LFR.hundred : K) = 100 := by simp [LFR.hundred]

/-- numpy's `_lerp` is `a + (b - a) t` in exact arithmetic -/
theorem lerp_eq' (a b t : K) : lerp a b t = a + (b - a) * t := by
  unfold lerp
  rw [one_eq]
  split
  · ring
  · rfl

theorem getD_mono_of_sorted (l : List K) (hl : l.Pairwise (· ≤ ·)) (d : K) {i j : Nat}
    (hij : i ≤ j) (hj : j < l.length) : l.getD i d ≤ l.getD j d := by
  have hi : i < l.length := lt_of_le_of_lt hij hj
  have e : ∀ k (hk : k < l.length), l.getD k d = l[k] := by
    intro k hk; simp [List.getD_eq_getElem?_getD, hk]
  rw [e i hi, e j hj]
  rcases Nat.lt_or_eq_of_le hij with h | h
  · exact (List.pairwise_iff_getElem.mp hl) i j hi hj h
  · subst h; exact le_refl _

/-- the interpolation of a sorted list at a virtual index `v` (the body of `percentile`) -/
def interp (l : List K) (v : K) : K :=
  if ((l.length - 1 : Nat) : K) ≤ v then l.getD (l.length - 1) LFR.zero
  else if v < (LFR.zero : K) then l.getD 0 LFR.zero
  else lerp (l.getD (floorNat v) LFR.zero) (l.getD (floorNat v + 1) LFR.zero) (v - ((floorNat v : Nat) : K))

theorem percentile_eq_interp (l : List K) (q : K) :
    percentile l q = interp l (((l.length - 1 : Nat) : K) * (q / LFR.hundred)) := rfl

/-- inside the range the interpolated value lies between its two neighbours, which are positions
    of the list -/
theorem interp_inner (hf : FloorLaw K) (l : List K) (hl : l.Pairwise (· ≤ ·)) (v : K)
    (h0 : 0 ≤ v) (h1 : v < ((l.length - 1 : Nat) : K)) :
    floorNat v + 1 ≤ l.length - 1 ∧ l.length - 1 < l.length ∧
    l.getD (floorNat v) LFR.zero ≤ interp l v ∧ interp l v ≤ l.getD (floorNat v + 1) LFR.zero := by
  have hk1 := hf.le v h0
  have hk2 := hf.lt v h0
  have hklt : floorNat v < l.length - 1 := by
    have : ((floorNat v : Nat) : K) < ((l.length - 1 : Nat) : K) := lt_of_le_of_lt hk1 h1
    exact_mod_cast this
  have hn : l.length - 1 < l.length := by omega
  have hab : l.getD (floorNat v) LFR.zero ≤ l.getD (floorNat v + 1) LFR.zero :=
    getD_mono_of_sorted l hl _ (Nat.le_succ _) (by omega)
  have hi : interp l v = lerp (l.getD (floorNat v) LFR.zero) (l.getD (floorNat v + 1) LFR.zero)
      (v - ((floorNat v : Nat) : K)) := by
    unfold interp
    rw [if_neg (not_le.mpr h1), if_neg (by rw [zero_eq]; exact not_lt.mpr h0)]
  refine ⟨hklt, hn, ?_, ?_⟩
  · rw [hi, lerp_eq']
    have : 0 ≤ (l.getD (floorNat v + 1) LFR.zero - l.getD (floorNat v) LFR.zero) * (v - ((floorNat v : Nat) : K)) :=
      mul_nonneg (by linarith) (by linarith)
    linarith
  · rw [hi, lerp_eq']
    have : (l.getD (floorNat v + 1) LFR.zero - l.getD (floorNat v) LFR.zero) * (v - ((floorNat v : Nat) : K)) ≤
        (l.getD (floorNat v + 1) LFR.zero - l.getD (floorNat v) LFR.zero) * 1 :=
      mul_le_mul_of_nonneg_left (by linarith) (by linarith)
    linarith

/-- **the interpolation of a sorted list is monotone in the virtual index** -/
theorem interp_mono (hf : FloorLaw K) (l : List K) (hl : l.Pairwise (· ≤ ·)) (v1 v2 : K) (h : v1 ≤ v2) :
    interp l v1 ≤ interp l v2 := by
  by_cases hA : ((l.length - 1 : Nat) : K) ≤ v1
  · -- both at or beyond the last position
    have hA2 : ((l.length - 1 : Nat) : K) ≤ v2 := le_trans hA h
    unfold interp
    rw [if_pos hA, if_pos hA2]
  · have hA' : v1 < ((l.length - 1 : Nat) : K) := not_le.mp hA
    by_cases hB : ((l.length - 1 : Nat) : K) ≤ v2
    · -- right end reached by `v2` only
      have e2 : interp l v2 = l.getD (l.length - 1) LFR.zero := by unfold interp; rw [if_pos hB]
      rw [e2]
      by_cases hC : v1 < 0
      · have e1 : interp l v1 = l.getD 0 LFR.zero := by
          unfold interp; rw [if_neg hA, if_pos (by rw [zero_eq]; exact hC)]
        rw [e1]
        by_cases hn : l.length - 1 = 0
        · rw [hn]
        · exact getD_mono_of_sorted l hl _ (Nat.zero_le _) (by omega)
      · obtain ⟨g1, g2, _, g4⟩ := interp_inner hf l hl v1 (not_lt.mp hC) hA'
        exact le_trans g4 (getD_mono_of_sorted l hl _ g1 g2)
    · have hB' : v2 < ((l.length - 1 : Nat) : K) := not_le.mp hB
      by_cases hC : v1 < 0
      · have e1 : interp l v1 = l.getD 0 LFR.zero := by
          unfold interp; rw [if_neg hA, if_pos (by rw [zero_eq]; exact hC)]
        rw [e1]
        by_cases hD : v2 < 0
        · have e2 : interp l v2 = l.getD 0 LFR.zero := by
            unfold interp; rw [if_neg hB, if_pos (by rw [zero_eq]; exact hD)]
          rw [e2]
        · obtain ⟨g1, g2, g3, _⟩ := interp_inner hf l hl v2 (not_lt.mp hD) hB'
          exact le_trans (getD_mono_of_sorted l hl _ (Nat.zero_le _) (by omega)) g3
      · have h10 : 0 ≤ v1 := not_lt.mp hC
        have h20 : 0 ≤ v2 := le_trans h10 h
        obtain ⟨a1, a2, a3, a4⟩ := interp_inner hf l hl v1 h10 hA'
        obtain ⟨b1, b2, b3, b4⟩ := interp_inner hf l hl v2 h20 hB'
        have hk : floorNat v1 ≤ floorNat v2 := by
          have : ((floorNat v1 : Nat) : K) < ((floorNat v2 : Nat) : K) + 1 :=
            lt_of_le_of_lt (le_trans (hf.le v1 h10) h) (hf.lt v2 h20)
          have : ((floorNat v1 : Nat) : K) < ((floorNat v2 + 1 : Nat) : K) := by push_cast; exact this
          have : floorNat v1 < floorNat v2 + 1 := by exact_mod_cast this
          omega
        rcases Nat.lt_or_eq_of_le hk with hlt | heq
        · exact le_trans a4 (le_trans (getD_mono_of_sorted l hl _ hlt (by omega)) b3)
        · -- same cell: `a + (b - a) t` with `a ≤ b` is monotone in `t`
          have hab : l.getD (floorNat v2) LFR.zero ≤ l.getD (floorNat v2 + 1) LFR.zero :=
            getD_mono_of_sorted l hl _ (Nat.le_succ _) (by omega)
          have i1 : interp l v1 = lerp (l.getD (floorNat v2) LFR.zero) (l.getD (floorNat v2 + 1) LFR.zero)
              (v1 - ((floorNat v2 : Nat) : K)) := by
            unfold interp
            rw [if_neg hA, if_neg (by rw [zero_eq]; exact hC), heq]
          have i2 : interp l v2 = lerp (l.getD (floorNat v2) LFR.zero) (l.getD (floorNat v2 + 1) LFR.zero)
              (v2 - ((floorNat v2 : Nat) : K)) := by
            unfold interp
            rw [if_neg hB, if_neg (by rw [zero_eq]; exact not_lt.mpr h20)]
          rw [i1, i2, lerp_eq', lerp_eq']
          have : (l.getD (floorNat v2 + 1) LFR.zero - l.getD (floorNat v2) LFR.zero) * (v1 - ((floorNat v2 : Nat) : K)) ≤
              (l.getD (floorNat v2 + 1) LFR.zero - l.getD (floorNat v2) LFR.zero) * (v2 - ((floorNat v2 : Nat) : K)) :=
            mul_le_mul_of_nonneg_left (by linarith) (by linarith)
          linarith

/-- **`np.percentile(·, q)` (method `linear`) of a sorted sample is monotone in `q`** (every `q`) -/
theorem percentile_mono (hf : FloorLaw K) (l : List K) (hl : l.Pairwise (· ≤ ·)) (q1 q2 : K) (h : q1 ≤ q2) :
    percentile l q1 ≤ percentile l q2 := by
  rw [percentile_eq_interp, percentile_eq_interp]
  apply interp_mono hf l hl
  have hN : (0 : K) ≤ ((l.length - 1 : Nat) : K) := Nat.cast_nonneg _
  have h100 : (0 : K) < LFR.hundred := by rw [hundred_eq]; norm_num
  exact mul_le_mul_of_nonneg_left (div_le_div_of_nonneg_right h h100.le) hN

theorem insertSorted_perm' (x : K) (l : List K) : (insertSorted x l).Perm (x :: l) := by
  induction l with
  | nil => simp [insertSorted]
  | cons y ys ih =>
    simp only [insertSorted]
    split
    · exact List.Perm.refl _
    · exact (List.Perm.cons y ih).trans (List.Perm.swap x y ys)

theorem insertSorted_sorted' (x : K) (l : List K) (h : l.Pairwise (· ≤ ·)) :
    (insertSorted x l).Pairwise (· ≤ ·) := by
  induction l with
  | nil => simp [insertSorted]
  | cons y ys ih =>
    simp only [insertSorted]
    split
    · rename_i hxy
      refine List.Pairwise.cons ?_ h
      intro z hz
      simp only [List.mem_cons] at hz
      rcases hz with rfl | hz
      · exact le_of_lt hxy
      · exact le_trans (le_of_lt hxy) ((List.pairwise_cons.mp h).1 z hz)
    · rename_i hxy
      have hyx : y ≤ x := not_lt.mp hxy
      refine List.Pairwise.cons ?_ (ih (List.pairwise_cons.mp h).2)
      intro z hz
      have := (insertSorted_perm' x ys).mem_iff.mp hz
      simp only [List.mem_cons] at this
      rcases this with rfl | hz
      · exact hyx
      · exact (List.pairwise_cons.mp h).1 z hz

/-- the model's insertion sort sorts (as `LFR.sort_perm_sorted`, without the `LawfulBEq` that
    section of `Props/C06.lean` carries) -/
theorem sort_sorted (l : List K) : (LFR.sort l).Pairwise (· ≤ ·) := by
  induction l with
  | nil => simp [LFR.sort]
  | cons x xs ih =>
    simp only [LFR.sort, List.foldr_cons]
    exact insertSorted_sorted' x _ ih

/-- the four bounds of the stricter run (`bS`) enclose those of the looser run (`bL`) -/
structure Nested (bL bS : Bounds K) : Prop where
  lbWarn : bS.lbWarn ≤ bL.lbWarn
  ubWarn : bL.ubWarn ≤ bS.ubWarn
  lbDetect : bS.lbDetect ≤ bL.lbDetect
  ubDetect : bL.ubDetect ≤ bS.ubDetect

/-- **the simulated intervals are nested**: same draws, same `eta`, smaller levels ⇒ wider
    intervals (`[P_δ, P_{100−δ}]` grows as δ shrinks) -/
theorem simBounds_nested (hf : FloorLaw K) (cL cS : Cfg K) (heta : cL.eta = cS.eta)
    (hw : cS.warnLevel ≤ cL.warnLevel) (hd : cS.detectLevel ≤ cL.detectLevel) (denom : Nat) (block : Block) :
    Nested (simBounds cL denom block) (simBounds cS denom block) := by
  have h100 : (0 : K) ≤ LFR.hundred := by rw [hundred_eq]; norm_num
  unfold simBounds
  simp only [heta]
  have hs := sort_sorted (block.map (statOf cS.eta (prods cS.eta denom)))
  constructor
  · exact percentile_mono hf _ hs _ _ (mul_le_mul_of_nonneg_right hw h100)
  · exact percentile_mono hf _ hs _ _ (by have := mul_le_mul_of_nonneg_right hw h100; linarith)
  · exact percentile_mono hf _ hs _ _ (mul_le_mul_of_nonneg_right hd h100)
  · exact percentile_mono hf _ hs _ _ (by have := mul_le_mul_of_nonneg_right hd h100; linarith)

/-- outside the wider interval ⇒ outside the narrower one -/
theorem outside_nested (x lbL ubL lbS ubS : K) (h1 : lbS ≤ lbL) (h2 : ubL ≤ ubS)
    (h : outside x lbS ubS = true) : outside x lbL ubL = true := by
  simp only [outside, Bool.or_eq_true, decide_eq_true_eq] at h ⊢
  rcases h with h | h
  · exact Or.inl (lt_of_lt_of_le h h1)
  · exact Or.inr (lt_of_le_of_lt h2 h)

end percentile

/-- `⌊·⌋₊` is a lawful index helper (whatever `rint` is) -/
theorem floorLaw_natFloor {K : Type} [Field K] [LinearOrder K] [IsStrictOrderedRing K] [FloorSemiring K]
    (ri : K → K) : @FloorLaw K _ _ ⟨fun x => ⌊x⌋₊, ri⟩ :=
  @FloorLaw.mk K _ _ ⟨fun x => ⌊x⌋₊, ri⟩ (fun _ hx => Nat.floor_le hx) (fun x _ => Nat.lt_floor_add_one x)

/-! ## 2. the two runs, side by side (every carrier) -/
section carrier
variable {α : Type} [Add α] [Sub α] [Mul α] [Div α] [LT α] [DecidableLT α] [LE α] [DecidableLE α]
  [NatCast α] [BEq α] [HasRound α]

/-- two configurations that agree on everything but the two levels (`num_mc` is not read by the
    model: the draws are inputs) -/
structure CfgAgree (cL cS : Cfg α) : Prop where
  eta : cL.eta = cS.eta
  burnIn : cL.burnIn = cS.burnIn
  subsample : cL.subsample = cS.subsample
  tracked : cL.tracked = cS.tracked
  roundVal : cL.roundVal = cS.roundVal

/-- two bounds caches with the same keys in the same order, values related through `P` -/
def CRel (P : Bounds α → Bounds α → Prop) : Cache α → Cache α → Prop :=
  Zip (fun eL eS => eL.1 = eS.1 ∧ P eL.2 eS.2)

/-- a key hits in both caches (with related bounds) or in neither -/
theorem lookup_rel {P : Bounds α → Bounds α → Prop} {cL cS : Cache α} (h : CRel P cL cS) (k : α × Nat) :
    (lookup k cL = none ∧ lookup k cS = none) ∨
    ∃ bL bS, lookup k cL = some bL ∧ lookup k cS = some bS ∧ P bL bS := by
  induction h with
  | nil => exact Or.inl ⟨rfl, rfl⟩
  | @cons eL eS xs ys hq _ ih =>
    obtain ⟨kL, bL⟩ := eL
    obtain ⟨kS, bS⟩ := eS
    obtain ⟨hk, hp⟩ := hq
    simp only at hk hp
    subst hk
    simp only [lookup]
    split
    · exact Or.inr ⟨bL, bS, rfl, rfl, hp⟩
    · exact ih

/-- the flag relations `FA` (alarm flags looser / stricter), `FW` (warning flags) follow from the
    relation `P` between the bounds -/
structure Link (P : Bounds α → Bounds α → Prop) (FA FW : Bool → Bool → Prop) : Prop where
  alarm : ∀ bL bS (x : α), P bL bS → FA (outside x bL.lbDetect bL.ubDetect) (outside x bS.lbDetect bS.ubDetect)
  warn : ∀ bL bS (x : α), P bL bS → FW (outside x bL.lbWarn bL.ubWarn) (outside x bS.lbWarn bS.ubWarn)
  alarm0 : FA false false
  warn0 : FW false false

/-- the accumulators of the two runs inside the loop over `rates_tracked` -/
structure AccRel (P : Bounds α → Bounds α → Prop) (FA FW : Bool → Bool → Prop) (aL aS : Acc α) : Prop where
  r : aL.r = aS.r
  p : aL.p = aS.p
  blocks : aL.blocks = aS.blocks
  cache : CRel P aL.cache aS.cache
  alarm : ∀ rate, FA (aL.alarm rate) (aS.alarm rate)
  warn : ∀ rate, FW (aL.warn rate) (aS.warn rate)

theorem gate_agree {cL cS : Cfg α} (hc : CfgAgree cL cS) (n : Nat) : gate cL n = gate cS n := by
  unfold gate; rw [hc.burnIn, hc.subsample]

theorem newR_agree {cL cS : Cfg α} (hc : CfgAgree cL cS) (x : Ctx α) (cur : α) (rate : Rate) :
    newR cL x cur rate = newR cS x cur rate := by
  unfold newR; rw [hc.eta]

theorem keyOf_agree {cL cS : Cfg α} (hc : CfgAgree cL cS) (est : α) (denom : Nat) :
    keyOf cL est denom = keyOf cS est denom := by
  unfold keyOf; rw [hc.roundVal]

/-- `_update_bounds_dict` in the two runs: both hit or both simulate (on the same block) -/
theorem getBounds_rel {P : Bounds α → Bounds α → Prop} {FA FW : Bool → Bool → Prop} {cL cS : Cfg α}
    (hc : CfgAgree cL cS)
    (hsim : ∀ denom block, P (simBounds cL denom block) (simBounds cS denom block))
    (aL aS : Acc α) (h : AccRel P FA FW aL aS) (est : α) (denom : Nat) :
    P (getBounds cL aL est denom).1 (getBounds cS aS est denom).1 ∧
    AccRel P FA FW (getBounds cL aL est denom).2 (getBounds cS aS est denom).2 := by
  unfold getBounds
  rw [keyOf_agree hc]
  rcases lookup_rel h.cache (keyOf cS est denom) with ⟨e1, e2⟩ | ⟨bL, bS, e1, e2, hp⟩
  · rw [e1, e2]
    simp only [simNext]
    have hb : P (simBounds cL denom (aL.blocks.headD [])) (simBounds cS denom (aS.blocks.headD [])) := by
      rw [h.blocks]; exact hsim _ _
    refine ⟨hb, ⟨h.r, h.p, by simp [h.blocks], ?_, h.alarm, h.warn⟩⟩
    exact Zip.append h.cache (Zip.cons ⟨rfl, hb⟩ Zip.nil)
  · rw [e1, e2]
    exact ⟨hp, h⟩

theorem set_rel {F : Bool → Bool → Prop} (fL fS : Four Bool) (h : ∀ r, F (fL r) (fS r)) (rate : Rate)
    (vL vS : Bool) (hv : F vL vS) : ∀ r, F ((fL.set rate vL) r) ((fS.set rate vS) r) := by
  intro r
  unfold Four.set
  by_cases hr : r = rate
  · simp only [hr, if_true]; exact hv
  · simp only [hr, if_false]; exact h r

/-- **one pass of `_calculate_rate_bounds` in the two runs** -/
theorem calcRate_rel {P : Bounds α → Bounds α → Prop} {FA FW : Bool → Bool → Prop} {cL cS : Cfg α}
    (hc : CfgAgree cL cS) (hl : Link P FA FW)
    (hsim : ∀ denom block, P (simBounds cL denom block) (simBounds cS denom block))
    (x : Ctx α) (aL aS : Acc α) (h : AccRel P FA FW aL aS) (rate : Rate) :
    AccRel P FA FW (calcRate cL x aL rate) (calcRate cS x aS rate) := by
  unfold calcRate
  rw [gate_agree hc, newR_agree hc, h.r, h.p]
  have h1 : AccRel P FA FW
      { aL with p := aS.p.set rate (x.new rate), r := aS.r.set rate (newR cS x (aS.r rate) rate) }
      { aS with p := aS.p.set rate (x.new rate), r := aS.r.set rate (newR cS x (aS.r rate) rate) } :=
    ⟨rfl, rfl, h.blocks, h.cache, h.alarm, h.warn⟩
  cases hg : gate cS x.n with
  | false => simpa using h1
  | true =>
    simp only [if_true]
    obtain ⟨hp, hacc⟩ := getBounds_rel hc hsim _ _ h1 (x.new rate) (x.conf.den rate)
    exact ⟨hacc.r, hacc.p, hacc.blocks, hacc.cache,
      set_rel _ _ hacc.alarm rate _ _ (hl.alarm _ _ _ hp),
      set_rel _ _ hacc.warn rate _ _ (hl.warn _ _ _ hp)⟩

/-- **the loop over `rates_tracked` in the two runs** -/
theorem loop_rel {P : Bounds α → Bounds α → Prop} {FA FW : Bool → Bool → Prop} {cL cS : Cfg α}
    (hc : CfgAgree cL cS) (hl : Link P FA FW)
    (hsim : ∀ denom block, P (simBounds cL denom block) (simBounds cS denom block))
    (x : Ctx α) (l : List Rate) : ∀ (aL aS : Acc α), AccRel P FA FW aL aS →
    AccRel P FA FW (l.foldl (calcRate cL x) aL) (l.foldl (calcRate cS x) aS) := by
  induction l with
  | nil => intro aL aS h; exact h
  | cons r l ih => intro aL aS h; exact ih _ _ (calcRate_rel hc hl hsim x aL aS h r)

/-- the statistics of the two runs: everything the loop reads, caches related through `P`;
    `drift_state` is related separately (it differs between the three theorems) -/
structure StateRel (P : Bounds α → Bounds α → Prop) (sL sS : State α) : Prop where
  total : sL.total = sS.total
  since : sL.since = sS.since
  conf : sL.conf = sS.conf
  p : sL.p = sS.p
  r : sL.r = sS.r
  cache : CRel P sL.cache sS.cache

theorem preReset_rel {P : Bounds α → Bounds α → Prop} {sL sS : State α} (h : StateRel P sL sS)
    (hd : sL.drift = .drift ↔ sS.drift = .drift) : StateRel P (preReset sL) (preReset sS) := by
  unfold preReset
  by_cases hL : sL.drift = .drift
  · rw [if_pos hL, if_pos (hd.1 hL)]
    exact ⟨h.total, rfl, rfl, rfl, rfl, h.cache⟩
  · rw [if_neg hL, if_neg (fun hS => hL (hd.2 hS))]
    exact h

/-- **one `update` in the two runs**: the accumulators at the end of the loop are related, and so are
    the statistics of the successor states -/
theorem step_rel {P : Bounds α → Bounds α → Prop} {FA FW : Bool → Bool → Prop} {cL cS : Cfg α}
    (hc : CfgAgree cL cS) (hl : Link P FA FW)
    (hsim : ∀ denom block, P (simBounds cL denom block) (simBounds cS denom block))
    (sL sS : State α) (h : StateRel P sL sS) (hd : sL.drift = .drift ↔ sS.drift = .drift)
    (yt yp : Bool) (bl : List Block) :
    AccRel P FA FW (stepAcc cL sL yt yp bl) (stepAcc cS sS yt yp bl) ∧
    StateRel P (step cL sL yt yp bl) (step cS sS yt yp bl) := by
  have h0 := preReset_rel h hd
  have hx : ctxOf (preReset sL) yt yp = ctxOf (preReset sS) yt yp := by
    unfold ctxOf; rw [h0.r, h0.conf, h0.since]
  have ha0 : AccRel P FA FW (acc0 (preReset sL) bl) (acc0 (preReset sS) bl) :=
    ⟨h0.r, h0.p, rfl, h0.cache, fun _ => hl.alarm0, fun _ => hl.warn0⟩
  have hacc : AccRel P FA FW (stepAcc cL sL yt yp bl) (stepAcc cS sS yt yp bl) := by
    unfold stepAcc loop
    rw [hx, hc.tracked]
    exact loop_rel hc hl hsim _ _ _ _ ha0
  refine ⟨hacc, ?_⟩
  have eL : step cL sL yt yp bl = finish (preReset sL) yt yp (stepAcc cL sL yt yp bl) := rfl
  have eS : step cS sS yt yp bl = finish (preReset sS) yt yp (stepAcc cS sS yt yp bl) := rfl
  rw [eL, eS]
  exact ⟨by simp [finish, h0.total], by simp [finish, h0.since], by simp [finish, h0.conf],
    hacc.p, hacc.r, hacc.cache⟩

theorem step_drift (c : Cfg α) (s : State α) (yt yp : Bool) (bl : List Block) :
    (step c s yt yp bl).drift = decide3 (stepAcc c s yt yp bl) := rfl

theorem decide3_drift (a : Acc α) : decide3 a = .drift ↔ ∃ r, a.alarm r = true := by
  rw [← any_allRates]
  unfold decide3
  split
  · simp_all
  · split <;> simp_all

theorem decide3_warning (a : Acc α) :
    decide3 a = .warning ↔ (¬ ∃ r, a.alarm r = true) ∧ ∃ r, a.warn r = true := by
  rw [← any_allRates, ← any_allRates]
  unfold decide3
  split
  · simp_all
  · split <;> simp_all

/-! ## 4a. the warning level is not read by the drift decision (every carrier) -/

/-- equal detect bounds -/
def DetEq (bL bS : Bounds α) : Prop := bL.lbDetect = bS.lbDetect ∧ bL.ubDetect = bS.ubDetect

theorem cfgAgree_warn (c : Cfg α) (w1 w2 : α) :
    CfgAgree { c with warnLevel := w1 } { c with warnLevel := w2 } := ⟨rfl, rfl, rfl, rfl, rfl⟩

theorem link_detEq : Link (α := α) DetEq Eq (fun _ _ => True) :=
  ⟨fun _ _ _ h => by rw [h.1, h.2], fun _ _ _ _ => trivial, rfl, trivial⟩

/-- one update under two warning levels: statistics related, drift flag equal -/
theorem step_ignores_warning (c : Cfg α) (w1 w2 : α) (s1 s2 : State α)
    (h : StateRel DetEq s1 s2 ∧ (s1.drift = .drift ↔ s2.drift = .drift)) (o : Op) :
    StateRel DetEq (step { c with warnLevel := w1 } s1 o.yt o.yp o.blocks)
        (step { c with warnLevel := w2 } s2 o.yt o.yp o.blocks) ∧
      ((step { c with warnLevel := w1 } s1 o.yt o.yp o.blocks).drift = .drift ↔
        (step { c with warnLevel := w2 } s2 o.yt o.yp o.blocks).drift = .drift) := by
  obtain ⟨hacc, hst⟩ := step_rel (cfgAgree_warn c w1 w2) link_detEq
    (fun _ _ => ⟨rfl, rfl⟩) s1 s2 h.1 h.2 o.yt o.yp o.blocks
  refine ⟨hst, ?_⟩
  rw [step_drift, step_drift, decide3_drift, decide3_drift]
  constructor
  · rintro ⟨r, hr⟩; exact ⟨r, by rw [← hacc.alarm r]; exact hr⟩
  · rintro ⟨r, hr⟩; exact ⟨r, by rw [hacc.alarm r]; exact hr⟩

/-- **the warning level enters neither the statistics nor the drift decision**: two LFR
    configurations that differ in `warn_level` only have, after every history (same draws), the same
    counters, confusion matrix, `_p_table`, `_r_stat`, the same cache keys with equal detect bounds,
    and report drift at exactly the same positions.  No arithmetic law is used: this holds for every
    carrier, in particular for the executed `Float` model. -/
theorem lfr_drift_ignores_warning (c : Cfg α) (w1 w2 : α) (ops : List Op) :
    StateRel DetEq (run { c with warnLevel := w1 } ops) (run { c with warnLevel := w2 } ops) ∧
    ((run { c with warnLevel := w1 } ops).drift = .drift ↔
      (run { c with warnLevel := w2 } ops).drift = .drift) :=
  foldl_rel₂ _ _ (fun s1 s2 => StateRel DetEq s1 s2 ∧ (s1.drift = .drift ↔ s2.drift = .drift))
    (fun a b o h => step_ignores_warning c w1 w2 a b h o) ops init init
    ⟨⟨rfl, rfl, rfl, rfl, rfl, Zip.nil⟩, Iff.rfl⟩

end carrier

/-! ## 3. first-drift monotonicity, 4b. the warning clause (ordered fields) -/
section field
variable {K : Type} [Field K] [LinearOrder K] [IsStrictOrderedRing K] [BEq K] [HasRound K]

theorem link_nested : Link (α := K) Nested (fun l s => s = true → l = true) (fun l s => s = true → l = true) :=
  ⟨fun _ _ x h => outside_nested x _ _ _ _ h.lbDetect h.ubDetect,
   fun _ _ x h => outside_nested x _ _ _ _ h.lbWarn h.ubWarn, id, id⟩

/-- one update as a function of an `Op` -/
def stepOp (c : Cfg K) (s : State K) (o : Op) : State K := step c s o.yt o.yp o.blocks

/-- the two runs before the first alarm: related statistics, nested cached intervals, not in drift -/
def LRel (sL sS : State K) : Prop := StateRel Nested sL sS ∧ sL.drift ≠ .drift ∧ sS.drift ≠ .drift

/-- **one update under the two settings**: a drift of the stricter run forces a drift of the looser
    run, and unless the looser run reports drift the relation is kept -/
theorem step_sim (hf : FloorLaw K) (cL cS : Cfg K) (hc : CfgAgree cL cS)
    (hw : cS.warnLevel ≤ cL.warnLevel) (hd : cS.detectLevel ≤ cL.detectLevel)
    (sL sS : State K) (o : Op) (h : LRel sL sS) :
    (isD (stepOp cS sS o).drift = true → isD (stepOp cL sL o).drift = true) ∧
    (isD (stepOp cL sL o).drift = false → LRel (stepOp cL sL o) (stepOp cS sS o)) := by
  obtain ⟨hst, hqL, hqS⟩ := h
  obtain ⟨hacc, hst'⟩ := step_rel hc link_nested (simBounds_nested hf cL cS hc.eta hw hd) sL sS hst
    ⟨fun h => absurd h hqL, fun h => absurd h hqS⟩ o.yt o.yp o.blocks
  have himp : (stepOp cS sS o).drift = .drift → (stepOp cL sL o).drift = .drift := by
    unfold stepOp
    rw [step_drift, step_drift, decide3_drift, decide3_drift]
    rintro ⟨r, hr⟩
    exact ⟨r, hacc.alarm r hr⟩
  refine ⟨fun hb => isD_true.2 (himp (isD_true.1 hb)), fun ha => ?_⟩
  have hL := isD_false.1 ha
  exact ⟨hst', hL, fun hS => hL (himp hS)⟩

/-- **LFR: smaller levels never make the first drift earlier.**  Two configurations that agree on
    everything but the levels, `detect_level` (and `warn_level`) of the stricter one at most that of
    the looser one; from every pair of related non-drift states (e.g. the fresh detector), for every
    history of labelled samples and every schedule of Monte-Carlo draws (the same for both runs). -/
theorem lfr_first_drift_mono_cfg (hf : FloorLaw K) (cL cS : Cfg K) (hc : CfgAgree cL cS)
    (hw : cS.warnLevel ≤ cL.warnLevel) (hd : cS.detectLevel ≤ cL.detectLevel)
    (sL sS : State K) (h : LRel sL sS) (ops : List Op) :
    NoLater (firstIdx (driftTrace (stepOp cL) (fun s => isD s.drift) sL ops))
      (firstIdx (driftTrace (stepOp cS) (fun s => isD s.drift) sS ops)) :=
  sim_first_drift_mono_same _ _ _ _ LRel (fun a b o h => step_sim hf cL cS hc hw hd a b o h) ops sL sS h

theorem lRel_init : LRel (init : State K) init :=
  ⟨⟨rfl, rfl, rfl, rfl, rfl, Zip.nil⟩, by simp [init], by simp [init]⟩

/-- **LFR: a smaller `detect_level` never makes the first drift earlier** (only the detection level
    differs; fresh detector, every history, same draws) -/
theorem lfr_first_drift_mono (hf : FloorLaw K) (c : Cfg K) (loose strict : K) (hle : strict ≤ loose)
    (ops : List Op) :
    NoLater (firstIdx (driftTrace (stepOp { c with detectLevel := loose }) (fun s => isD s.drift) init ops))
      (firstIdx (driftTrace (stepOp { c with detectLevel := strict }) (fun s => isD s.drift) init ops)) :=
  lfr_first_drift_mono_cfg hf { c with detectLevel := loose } { c with detectLevel := strict }
    ⟨rfl, rfl, rfl, rfl, rfl⟩ (le_refl _) hle init init lRel_init ops

/-- the positions of `driftTrace` are the states of `run` -/
theorem run_eq_foldl (c : Cfg K) (ops : List Op) : run c ops = ops.foldl (stepOp c) init := rfl

/-! ### the warning clause -/

/-- equal detect bounds and nested warning bounds -/
def WarnNested (bL bS : Bounds K) : Prop := DetEq bL bS ∧ bS.lbWarn ≤ bL.lbWarn ∧ bL.ubWarn ≤ bS.ubWarn

theorem link_warnNested : Link (α := K) WarnNested Eq (fun l s => s = true → l = true) :=
  ⟨fun _ _ _ h => by rw [h.1.1, h.1.2],
   fun _ _ x h => outside_nested x _ _ _ _ h.2.1 h.2.2, rfl, id⟩

/-- the relation kept along the whole history by two runs that differ in `warn_level` only -/
def WRel (sL sS : State K) : Prop :=
  StateRel WarnNested sL sS ∧ (sL.drift = .drift ↔ sS.drift = .drift) ∧
    (sS.drift = .warning → sL.drift = .warning)

theorem step_wrel (hf : FloorLaw K) (c : Cfg K) (wL wS : K) (hle : wS ≤ wL) (sL sS : State K) (o : Op)
    (h : WRel sL sS) :
    WRel (stepOp { c with warnLevel := wL } sL o) (stepOp { c with warnLevel := wS } sS o) := by
  obtain ⟨hst, hd, _⟩ := h
  have hsim : ∀ denom block, WarnNested (simBounds { c with warnLevel := wL } denom block)
      (simBounds { c with warnLevel := wS } denom block) := by
    intro denom block
    have hn := simBounds_nested hf { c with warnLevel := wL } { c with warnLevel := wS } rfl hle
      (le_refl _) denom block
    exact ⟨⟨rfl, rfl⟩, hn.lbWarn, hn.ubWarn⟩
  obtain ⟨hacc, hst'⟩ := step_rel (cfgAgree_warn c wL wS) link_warnNested hsim sL sS hst hd
    o.yt o.yp o.blocks
  have halarm : (∃ r, (stepAcc { c with warnLevel := wL } sL o.yt o.yp o.blocks).alarm r = true) ↔
      (∃ r, (stepAcc { c with warnLevel := wS } sS o.yt o.yp o.blocks).alarm r = true) := by
    constructor
    · rintro ⟨r, hr⟩; exact ⟨r, by rw [← hacc.alarm r]; exact hr⟩
    · rintro ⟨r, hr⟩; exact ⟨r, by rw [hacc.alarm r]; exact hr⟩
  refine ⟨hst', ?_, ?_⟩
  · unfold stepOp
    rw [step_drift, step_drift, decide3_drift, decide3_drift]
    exact halarm
  · unfold stepOp
    rw [step_drift, step_drift, decide3_warning, decide3_warning]
    rintro ⟨h1, r, hr⟩
    exact ⟨fun h => h1 (halarm.1 h), r, hacc.warn r hr⟩

/-- **LFR, warning clause.**  Two configurations that differ in `warn_level` only (`wS ≤ wL`: the
    first is looser) report, after every history (same draws), drift at exactly the same positions,
    have the same statistics, and wherever the stricter one reports warning the looser one reports
    warning too. -/
theorem lfr_warning_only (hf : FloorLaw K) (c : Cfg K) (wL wS : K) (hle : wS ≤ wL) (ops : List Op) :
    ((run { c with warnLevel := wL } ops).drift = .drift ↔
      (run { c with warnLevel := wS } ops).drift = .drift) ∧
    ((run { c with warnLevel := wS } ops).drift = .warning →
      (run { c with warnLevel := wL } ops).drift = .warning) ∧
    StateRel WarnNested (run { c with warnLevel := wL } ops) (run { c with warnLevel := wS } ops) := by
  have := foldl_rel₂ _ _ WRel (fun a b o h => step_wrel hf c wL wS hle a b o h) ops init init
    ⟨⟨rfl, rfl, rfl, rfl, rfl, Zip.nil⟩, Iff.rfl, id⟩
  exact ⟨this.2.1, this.2.2, this.1⟩

end field

/-! ## Non-vacuity: carrier `ℚ`, `floorNat = ⌊·⌋₊`, `rint = id` (exact cache keys), `eta = 1/2`, TPR
    tracked, no burn-in; every update is offered one block of five 8-bit draw vectors (consumed only
    when the rate's key is new).  Stream: one hit, then misses: the TPR statistic falls
    3/4, 3/8, 3/16, 3/32, 3/64; then (after the reset) the same again, now served from the cache. -/
namespace Examples
local instance exRound : HasRound ℚ := ⟨fun x => ⌊x⌋₊, id⟩

theorem exFloor : FloorLaw ℚ := floorLaw_natFloor id

def cfg (w d : ℚ) : Cfg ℚ :=
  { eta := 1 / 2, warnLevel := w, detectLevel := d, burnIn := 0, numMc := 5, subsample := 1,
    tracked := [.tpr], roundVal := 2 }
def blk : Block :=
  [[true, true, true, true, true, true, true, true], [false, false, false, false, false, false, false, false],
   [true, false, true, false, true, false, true, false], [false, true, false, true, false, true, false, true],
   [true, true, false, false, true, true, false, false]]
def op (yt yp : Bool) : Op := ⟨yt, yp, [blk]⟩
def ops : List Op :=
  [op true true, op true false, op true false, op true false, op true false, op true true, op true false]
def fd (c : Cfg ℚ) (l : List Op) : Option Nat := firstIdx (driftTrace (stepOp c) (fun s => isD s.drift) init l)

/-- `detect_level = 1/10` alarms on the fourth sample, `1/20` only on the fifth, `0` never here -/
example : fd (cfg (1 / 4) (1 / 10)) ops = some 3 ∧ fd (cfg (1 / 4) (1 / 20)) ops = some 4 ∧
    fd (cfg (1 / 4) 0) ops = none := by decide +kernel
example (l : List Op) : NoLater (fd { cfg (1 / 4) 0 with detectLevel := 1 / 10 } l)
    (fd { cfg (1 / 4) 0 with detectLevel := 1 / 20 } l) :=
  lfr_first_drift_mono exFloor (cfg (1 / 4) 0) (1 / 10) (1 / 20) (by norm_num) l

/-- before either alarms the caches differ (the detect bounds of the key (2/3, 3) are [1/10, 31/40]
    under `1/10` and [1/20, 33/40] under `1/20`) — same keys, nested intervals -/
example : ((ops.take 1).foldl (stepOp (cfg (1 / 4) (1 / 10))) init).cache.map
      (fun e => (e.1, e.2.lbDetect, e.2.ubDetect)) = [((2 / 3, 3), 1 / 10, 31 / 40)] ∧
    ((ops.take 1).foldl (stepOp (cfg (1 / 4) (1 / 20))) init).cache.map
      (fun e => (e.1, e.2.lbDetect, e.2.ubDetect)) = [((2 / 3, 3), 1 / 20, 33 / 40)] := by decide +kernel

/-- warning clause: `warn_level = 1/4` warns after 1, 3, 4 samples, `1/10` only after 4; both report
    drift after 5; after the reset the cached bounds are used (the cache keeps its 5 entries) -/
example : ops.length = 7 ∧
    (run (cfg (1 / 4) (1 / 20)) (ops.take 1)).drift = .warning ∧
    (run (cfg (1 / 10) (1 / 20)) (ops.take 1)).drift = .none ∧
    (run (cfg (1 / 4) (1 / 20)) (ops.take 4)).drift = .warning ∧
    (run (cfg (1 / 10) (1 / 20)) (ops.take 4)).drift = .warning ∧
    (run (cfg (1 / 4) (1 / 20)) (ops.take 5)).drift = .drift ∧
    (run (cfg (1 / 10) (1 / 20)) (ops.take 5)).drift = .drift ∧
    (run (cfg (1 / 4) (1 / 20)) (ops.take 6)).drift = .warning ∧
    (run (cfg (1 / 10) (1 / 20)) (ops.take 6)).drift = .none ∧
    (run (cfg (1 / 4) (1 / 20)) ops).cache.length = 5 := by decide +kernel
example (l : List Op) : True := by
  have _h := lfr_warning_only exFloor (cfg 0 (1 / 20)) (1 / 4) (1 / 10) (by norm_num) l
  have _g := lfr_drift_ignores_warning (cfg 0 (1 / 20)) (1 / 4) (1 / 10) l
  trivial

end Examples

end MV.C17.LFR
