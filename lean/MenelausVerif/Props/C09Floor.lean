/-
  C09 — the streaming persistence rule in whole samples.

  `Props/C09.lean` `stream_drift_iff` (every carrier): drift is reported exactly when the last update
  was an exceeding evaluation and `persistence * window_size < (length of the current uninterrupted
  run of exceeding evaluations)`.  The run length is a natural number, so over an ordered field with a
  floor (`ℚ`, `ℝ`) the comparison is the same as `⌊persistence * window_size⌋₊ < run`, i.e. the run
  has at least `⌊persistence * window_size⌋ + 1` samples: the bound is *floored*, never rounded
  (`persistence * window_size = 3.75` needs 4 samples in a row, not 5).

  `counter_bound_iff_floor` is the arithmetic fact; `stream_drift_iff_floor` restates the rule;
  `rounded_bound_differs` is the closed counter-example showing that a rounded bound is a different
  rule (run of 4 at a bound of 3.75).
-/
import MenelausVerif.Props.C09
import Mathlib.Algebra.Order.Field.Basic
import Mathlib.Algebra.Order.Floor.Semiring
import Mathlib.Tactic.NormNum
import Mathlib.Data.Rat.Floor
set_option linter.unusedSectionVars false
set_option linter.unusedSimpArgs false

namespace MV.KdqDet
open MV MV.Kdq

section floor
variable {K : Type} [Field K] [LinearOrder K] [IsStrictOrderedRing K] [FloorSemiring K]

/-- for a natural counter, `x < counter` is `⌊x⌋₊ < counter` (non-negative bound) -/
theorem counter_bound_iff_floor (x : K) (hx : 0 ≤ x) (n : Nat) : x < (n : K) ↔ Nat.floor x < n :=
  (Nat.floor_lt hx).symm

/-- ... and a negative bound is exceeded by every counter, as by `⌊x⌋₊ = 0 < n` for `n ≥ 1`; at `n = 0`
    the two differ (`x < 0` holds, `0 < 0` does not): the model compares with `x`, so a negative
    persistence alarms on the first exceeding evaluation at the latest (the run is then ≥ 1 anyway) -/
theorem counter_bound_neg (x : K) (hx : x < 0) (n : Nat) : x < (n : K) :=
  lt_of_lt_of_le hx (Nat.cast_nonneg n)

variable [Inhabited K] [BEq K] [HasLogExp K] [HasRint K] [HasTrunc K]

/-- **streaming rule in whole samples**: for a non-negative persistence factor, drift is reported
    exactly when the last update was an exceeding evaluation and the current uninterrupted run of
    exceeding evaluations is longer than `⌊persistence * window_size⌋` -/
theorem stream_drift_iff_floor (c : SCfg K) (hp : 0 ≤ c.persistence)
    (inputs : List (List K × List (List Nat))) (s : SState K) (evs : List Ev)
    (h : sRun c sInit inputs = some (s, evs)) :
    (s.drift = .drift ↔
      evs.getLast? = some (.eval true) ∧ Nat.floor (c.persistence * (c.window : K)) < runLength evs) := by
  have h0 := (stream_drift_iff c inputs s evs h).2.1
  have hx : 0 ≤ c.persistence * (c.window : K) := mul_nonneg hp (Nat.cast_nonneg _)
  rw [h0, counter_bound_iff_floor _ hx]

end floor

/-- a rounded bound is a different rule: at `persistence * window_size = 15/4` a run of 4 exceeds the
    bound (`⌊15/4⌋ = 3 < 4`) but does not exceed the bound rounded to the nearest integer (4) -/
theorem rounded_bound_differs :
    ((15 : ℚ) / 4 < ((4 : Nat) : ℚ)) ∧ Nat.floor ((15 : ℚ) / 4) = 3 ∧ ¬ ((4 : ℚ) < ((4 : Nat) : ℚ)) := by
  refine ⟨by norm_num, ?_, by norm_num⟩
  rw [Nat.floor_eq_iff (by norm_num)]
  norm_num

end MV.KdqDet
