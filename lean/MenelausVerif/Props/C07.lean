/-
  C07 — HDDDM / CDBD alarm exactly when the distance change exceeds the adaptive bound.

  Model: Model/HDM.lean (carrier-polymorphic; executed at `Float` by the driver).

  Every carrier (no arithmetic law; holds for the executed `Float` instance):
    `hist_length`, `testsDrift_iff`, `updateCore_drift_iff`, `updateCore_records`,
    `updateCore_no_drift`, `updateCore_on_drift`, `updateCore_feature_info`, `reset_restarts`,
    `reset_split`, `updateCore_first_oracle_irrelevant`, `run_inv` (lifecycle invariant over every
    history), `update_drift_iff` (drift ⇔ recorded ε > recorded β on a due batch), `update_no_early_drift`,
    `update_distance` (what `current_distance` is), `update_reference`, `update_counters`,
    `setReference_spec`.
  Linear orders: `argmaxFirst_spec`.
  Ordered fields: `eps_def`, `beta_def`, `update_beta` (β over every history, in terms of the public
    `epsilon_values`), via the invariant `EpsInv`.
  ℝ (Lemmas/HDMReal.lean): `hellinger_facts`, `jensenShannon_facts` (0 on equal histograms,
    symmetric, within `[0, √2]` / `[0, √ln 2]`), `jensenShannon_radicand_nonneg`, `hist_total`,
    `histPair_totals`, `distance_self`, `distance_symm`, `distance_bounds`, `bins_floor_sqrt`,
    `recorded_distance_bounds`, `recorded_distance_self` (on reachable states), `betaSpec_bootstrap`,
    `binIndex_spec` (numpy's index rule puts a value into the bin whose linspace edges bracket it).
  Nothing is `_partial`.  Not covered by a theorem: rounding of the `Float` instance (where the
  ±1 edge corrections of `np.histogram` matter — tied to numpy by the correspondence check on
  adversarial inputs); the bootstrap estimate and the `t` critical value (inputs of the model).
-/
import MenelausVerif.Model.HDM
import MenelausVerif.Lemmas.HDMReal
import Mathlib.Data.Nat.Sqrt
import Mathlib.Algebra.Order.Field.Basic
import Mathlib.Data.List.Infix
import Mathlib.Tactic.Ring
import Mathlib.Tactic.FieldSimp
import Mathlib.Tactic.Linarith
namespace MV.HDM
open MV
set_option linter.unusedSectionVars false

section anyCarrier
variable {α : Type} [Add α] [Sub α] [Mul α] [Div α] [Neg α] [LT α] [DecidableLT α]
  [LE α] [DecidableLE α] [NatCast α] [BEq α] [HasSqrt α] [HasLogExp α] [HasLog1p α] [HasTrunc α]

/-- a histogram has exactly `bins` entries -/
theorem hist_length (bins : Nat) (lo hi : α) (xs : List α) : (hist bins lo hi xs).length = bins := by
  simp [hist]

/-- the drift test runs from the `detect_batch`-th batch of an epoch on (for `detect_batch = 1`
    the proxy batch is the epoch's first, so the first real batch is the second) -/
theorem testsDrift_iff (c : Cfg α) (since : Nat) (h : c.detectBatch = 1 ∨ c.detectBatch = 2 ∨ c.detectBatch = 3) :
    testsDrift c since = true ↔ since ≥ max 2 c.detectBatch := by
  unfold testsDrift
  rcases h with h | h | h <;> simp [h] <;> omega

/-- **drift iff**: after the body of `update`, the state is `drift` exactly when the test is due
    on this batch and this batch's ε exceeds this batch's β (strictly). -/
theorem updateCore_drift_iff (c : Cfg α) (o : Oracle α) (s : State α) (dim : Nat) (X : List (List α))
    (hs : s.drift = .none) :
    (updateCore c o s dim X).drift = .drift ↔
      (testsDrift c (s.since + 1) = true ∧ (stepThr c o s dim X).beta < stepEps c s dim X) := by
  unfold updateCore appendRef
  by_cases h2 : s.since + 1 ≥ 2
  · by_cases ht : testsDrift c (s.since + 1) = true
    · by_cases hb : (stepThr c o s dim X).beta < stepEps c s dim X <;> simp [h2, ht, hb, hs]
    · simp [h2, ht, hs]
  · have : testsDrift c (s.since + 1) = false := by
      unfold testsDrift; simp; omega
    simp [h2, this, hs]


/-- what one `update` body records: distance always, ε from the epoch's second batch on, β exactly
    when the test is due; keys are the running batch count -/
theorem updateCore_records (c : Cfg α) (o : Oracle α) (s : State α) (dim : Nat) (X : List (List α)) :
    let s' := updateCore c o s dim X
    s'.curDist = some (stepDist c s dim X) ∧
    s'.distances = s.distances ++ [(s.total + 1, stepDist c s dim X)] ∧
    s'.epsValues = (if s.since + 1 ≥ 2 then s.epsValues ++ [(s.total + 1, stepEps c s dim X)] else s.epsValues) ∧
    s'.thresholds = (if testsDrift c (s.since + 1) then s.thresholds ++ [(s.total + 1, (stepThr c o s dim X).beta)]
                     else s.thresholds) ∧
    s'.beta = (if testsDrift c (s.since + 1) then some (stepThr c o s dim X).beta else s.beta) ∧
    s'.featEps = stepFeatEps c s dim X := by
  have ht : s.since + 1 < 2 → testsDrift c (s.since + 1) = false := by
    intro h; unfold testsDrift; simp; omega
  unfold updateCore appendRef
  by_cases h2 : s.since + 1 ≥ 2
  · by_cases htd : testsDrift c (s.since + 1) = true
    · by_cases hb : (stepThr c o s dim X).beta < stepEps c s dim X <;> simp [h2, htd, hb]
    · simp [h2, htd]
  · simp [h2, ht (by omega)]

/-- counters of the `update` body -/
theorem updateCore_counters (c : Cfg α) (o : Oracle α) (s : State α) (dim : Nat) (X : List (List α)) :
    (updateCore c o s dim X).total = s.total + 1 ∧ (updateCore c o s dim X).since = s.since + 1 := by
  unfold updateCore appendRef
  by_cases h2 : s.since + 1 ≥ 2
  · by_cases htd : testsDrift c (s.since + 1) = true
    · by_cases hb : (stepThr c o s dim X).beta < stepEps c s dim X <;> simp [h2, htd, hb]
    · simp [h2, htd]
  · simp [h2]

/-- **reference update, no drift**: the batch is appended to the reference; `reference_n` and the
    number of bins follow (`floor(sqrt n)`); the distances are remembered for the next ε. -/
theorem updateCore_no_drift (c : Cfg α) (o : Oracle α) (s : State α) (dim : Nat) (X : List (List α))
    (h : (updateCore c o s dim X).drift ≠ .drift) :
    let s' := updateCore c o s dim X
    s'.reference = s.reference ++ X ∧ s'.refN = s.reference.length + X.length ∧
    s'.bins = Nat.sqrt (s.reference.length + X.length) ∧
    s'.prevDist = stepDist c s dim X ∧ s'.prevFeat = stepFd c s dim X ∧ s'.lambda = s.lambda := by
  revert h
  unfold updateCore appendRef
  by_cases h2 : s.since + 1 ≥ 2
  · by_cases htd : testsDrift c (s.since + 1) = true
    · by_cases hb : (stepThr c o s dim X).beta < stepEps c s dim X <;> simp [h2, htd, hb]
    · simp [h2, htd]
  · simp [h2]

/-- **reference update, drift**: the batch replaces the reference, `_lambda` becomes the batch
    index; `reference_n`, the bins and the remembered distances are left as they were (they are
    recomputed by the `reset` at the start of the next `update`, see `reset_restarts`). -/
theorem updateCore_on_drift (c : Cfg α) (o : Oracle α) (s : State α) (dim : Nat) (X : List (List α))
    (hs : s.drift = .none) (h : (updateCore c o s dim X).drift = .drift) :
    let s' := updateCore c o s dim X
    s'.reference = X ∧ s'.lambda = s.total + 1 ∧ s'.refN = s.refN ∧ s'.bins = s.bins ∧
    s'.prevDist = s.prevDist ∧ s'.prevFeat = s.prevFeat := by
  revert h
  unfold updateCore appendRef
  by_cases h2 : s.since + 1 ≥ 2
  · by_cases htd : testsDrift c (s.since + 1) = true
    · by_cases hb : (stepThr c o s dim X).beta < stepEps c s dim X <;> simp [h2, htd, hb, hs]
    · simp [h2, htd, hs]
  · simp [h2, hs]

/-- **feature_info**: on a drift with more than one feature it holds this batch's per-feature
    ε's, the per-feature distances and the first position of the largest ε. -/
theorem updateCore_feature_info (c : Cfg α) (o : Oracle α) (s : State α) (dim : Nat) (X : List (List α))
    (hs : s.drift = .none) (hts : s.since ≤ s.total)
    (h : (updateCore c o s dim X).drift = .drift) (hd : dim > 1) :
    (updateCore c o s dim X).featInfo =
      some { epsilons := List.zipWith (· - ·) (stepFd c s dim X) s.prevFeat,
             featDist := stepFd c s dim X,
             argmax := argmaxFirst (List.zipWith (· - ·) (stepFd c s dim X) s.prevFeat) } := by
  have hd' := (updateCore_drift_iff c o s dim X hs).1 h
  have h2 : s.since + 1 ≥ 2 := by
    have := hd'.1
    unfold testsDrift at this; simp at this; omega
  have hfe : stepFeatEps c s dim X = some (List.zipWith (· - ·) (stepFd c s dim X) s.prevFeat) := by
    unfold stepFeatEps
    have : s.total + 1 > 1 := by omega
    simp [this]
  unfold updateCore appendRef
  simp [h2, hd'.1, hd'.2, hd, hfe]

/-! ### `reset`, `update`, `set_reference` -/

/-- an accepted batch has at least two rows -/
theorem validBatch_length (c : Cfg α) (dim : Option Nat) (X : List (List α)) (d : Nat)
    (h : validBatch c dim X = some d) : X.length ≥ 2 := by
  unfold validBatch at h
  cases X with
  | nil => simp at h
  | cons r rs =>
    by_cases hl : (r :: rs).length ≥ 2
    · exact hl
    · exfalso
      have hl' : ¬ (1 ≤ rs.length) := by simpa using hl
      cases dim <;> simp [hl'] at h

/-- the first batch of an epoch (`batches_since_reset` 0 → 1) is only measured and appended:
    no ε, no β, no test, and the oracle values are not read -/
theorem updateCore_first (c : Cfg α) (o : Oracle α) (s : State α) (dim : Nat) (X : List (List α))
    (h0 : s.since = 0) :
    updateCore c o s dim X =
      appendRef { s with dim := some dim, total := s.total + 1, since := 1,
                         curDist := some (stepDist c s dim X),
                         distances := s.distances ++ [(s.total + 1, stepDist c s dim X)],
                         featEps := stepFeatEps c s dim X }
        (stepDist c s dim X) (stepFd c s dim X) X := by
  unfold updateCore
  simp [h0]

theorem updateCore_first_oracle_irrelevant (c : Cfg α) (o o' : Oracle α) (s : State α) (dim : Nat)
    (X : List (List α)) (h0 : s.since = 0) : updateCore c o s dim X = updateCore c o' s dim X := by
  rw [updateCore_first c o s dim X h0, updateCore_first c o' s dim X h0]

/-- **statistics restart** (`detect_batch ≠ 1`): `reset` keeps the reference (which `update`
    replaced by the drifting batch / `set_reference` by the new data), re-derives `reference_n`
    and the bins from it, empties the ε list and its running sum, and clears the counters. -/
theorem reset_restarts (c : Cfg α) (o : Oracle α) (s : State α) (h1 : c.detectBatch ≠ 1) :
    reset c o s = some { s with since := 0, drift := .none, refN := s.reference.length,
                                bins := Nat.sqrt s.reference.length, eps := [], totalEps := zero } := by
  unfold reset; simp [h1]

/-- **statistics restart** (`detect_batch = 1`): the reference is split by position, the second
    half is measured against the first as a proxy batch (counted in both counters) and appended
    again: afterwards the reference is the whole data again, `batches_since_reset = 1`. -/
theorem reset_split (c : Cfg α) (o : Oracle α) (s s' : State α) (h1 : c.detectBatch = 1)
    (h : reset c o s = some s') :
    s'.reference = s.reference ∧ s'.refN = s.reference.length ∧ s'.bins = Nat.sqrt s.reference.length ∧
    s'.since = 1 ∧ s'.total = s.total + 1 ∧ s'.drift = .none ∧ s'.eps = [] ∧ s'.totalEps = zero ∧
    s'.lambda = s.lambda ∧ s'.hasRef = s.hasRef ∧
    (s.reference.length - s.reference.length / 2 ≥ 2) ∧
    s'.distances = s.distances ++ [(s.total + 1, s'.prevDist)] ∧ s'.epsValues = s.epsValues ∧
    s'.thresholds = s.thresholds := by
  unfold reset at h
  simp only [h1, if_true] at h
  split at h
  · rename_i d hv
    injection h with h
    subst h
    rw [updateCore_first _ _ _ _ _ rfl]
    have hlen := validBatch_length _ _ _ _ hv
    simp only [appendRef, List.take_append_drop, stepDist, and_self, and_true, true_and]
    rw [List.length_drop] at hlen
    exact hlen
  · simp at h

/-! ### lifecycle invariant over arbitrary histories -/

/-- what holds in every state reachable from `init` by accepted calls -/
structure Inv (s : State α) : Prop where
  noWarn : s.drift ≠ .warning
  sinceLe : s.since ≤ s.total
  /-- inside an epoch the batch index relative to the last drift / `set_reference` is the epoch counter -/
  epoch : s.drift = .none → s.total = s.lambda + s.since
  /-- a drift is flagged on a batch that is at least the second of its epoch; `_lambda` names it -/
  drifted : s.drift = .drift → s.lambda = s.total ∧ s.since ≥ 2 ∧ s.hasRef = true
  /-- `reference_n` and the number of bins follow the reference: `bins = floor(sqrt n)` -/
  refOk : s.drift = .none → s.hasRef = true →
    s.refN = s.reference.length ∧ s.bins = Nat.sqrt s.reference.length

theorem inv_init : Inv (init : State α) := by
  constructor <;> simp [init]

theorem updateCore_hasRef (c : Cfg α) (o : Oracle α) (s : State α) (dim : Nat) (X : List (List α)) :
    (updateCore c o s dim X).hasRef = s.hasRef := by
  unfold updateCore appendRef
  by_cases h2 : s.since + 1 ≥ 2
  · by_cases htd : testsDrift c (s.since + 1) = true
    · by_cases hb : (stepThr c o s dim X).beta < stepEps c s dim X <;> simp [h2, htd, hb]
    · simp [h2, htd]
  · simp [h2]

theorem updateCore_drift_cases (c : Cfg α) (o : Oracle α) (s : State α) (dim : Nat) (X : List (List α))
    (hs : s.drift = .none) :
    (updateCore c o s dim X).drift = .none ∨ (updateCore c o s dim X).drift = .drift := by
  unfold updateCore appendRef
  by_cases h2 : s.since + 1 ≥ 2
  · by_cases htd : testsDrift c (s.since + 1) = true
    · by_cases hb : (stepThr c o s dim X).beta < stepEps c s dim X <;> simp [h2, htd, hb, hs]
    · simp [h2, htd, hs]
  · simp [h2, hs]

theorem updateCore_inv (c : Cfg α) (o : Oracle α) (s : State α) (dim : Nat) (X : List (List α))
    (hi : Inv s) (hs : s.drift = .none) (hr : s.hasRef = true) : Inv (updateCore c o s dim X) := by
  have hc := updateCore_counters c o s dim X
  have hcases := updateCore_drift_cases c o s dim X hs
  have hep := hi.epoch hs
  constructor
  · rcases hcases with h | h <;> simp [h]
  · rw [hc.1, hc.2]; have := hi.sinceLe; omega
  · intro hn
    have := updateCore_no_drift c o s dim X (by simp [hn])
    rw [hc.1, hc.2, this.2.2.2.2.2]; omega
  · intro hd
    have h1 := updateCore_on_drift c o s dim X hs hd
    have h2 := (updateCore_drift_iff c o s dim X hs).1 hd
    refine ⟨by rw [h1.2.1, hc.1], ?_, by rw [updateCore_hasRef]; exact hr⟩
    rw [hc.2]
    have := h2.1
    unfold testsDrift at this; simp at this; omega
  · intro hn _
    have := updateCore_no_drift c o s dim X (by simp [hn])
    rw [this.1, this.2.1, this.2.2.1]; simp

/-- `reset` (called with `_lambda = total_batches`, as both call sites do) opens a fresh epoch -/
theorem reset_inv (c : Cfg α) (o : Oracle α) (s s' : State α) (hl : s.lambda = s.total)
    (h : reset c o s = some s') :
    Inv s' ∧ s'.drift = .none ∧ s'.hasRef = s.hasRef ∧ s'.since ≤ 1 ∧ s'.eps = [] ∧ s'.totalEps = zero ∧
    s'.reference = s.reference := by
  by_cases h1 : c.detectBatch = 1
  · have := reset_split c o s s' h1 h
    refine ⟨?_, this.2.2.2.2.2.1, this.2.2.2.2.2.2.2.2.2.1, by omega, this.2.2.2.2.2.2.1,
      this.2.2.2.2.2.2.2.1, this.1⟩
    constructor
    · simp [this.2.2.2.2.2.1]
    · omega
    · intro _; rw [this.2.2.2.2.1, this.2.2.2.2.2.2.2.2.1, this.2.2.2.1, hl]
    · intro hd; rw [this.2.2.2.2.2.1] at hd; cases hd
    · intro _ _; rw [this.1]; exact ⟨this.2.1, this.2.2.1⟩
  · rw [reset_restarts c o s h1] at h
    injection h with h
    subst h
    refine ⟨?_, rfl, rfl, by simp, rfl, rfl, rfl⟩
    constructor <;> simp [hl]

theorem step_inv (c : Cfg α) (s s' : State α) (op : Op α) (hi : Inv s) (h : step c s op = some s') :
    Inv s' := by
  cases op with
  | setRef X o =>
    simp only [step, setReference] at h
    split at h
    · simp at h
    · exact (reset_inv c o _ s' rfl h).1
  | batch X o =>
    simp only [step, update] at h
    split at h
    · rename_i hr
      split at h
      · simp at h
      · rename_i s0 hs0
        split at h
        · rename_i d hv
          injection h with h
          subst h
          by_cases hd : s.drift = .drift
          · simp only [hd, if_true] at hs0
            have := reset_inv c o s s0 (hi.drifted hd).1 hs0
            exact updateCore_inv c o s0 d X this.1 this.2.1 (by rw [this.2.2.1]; exact hr)
          · simp only [hd, if_false] at hs0
            injection hs0 with hs0
            subst hs0
            have hn : s.drift = .none := by
              have := hi.noWarn
              cases hdr : s.drift <;> simp_all
            exact updateCore_inv c o s d X hi hn hr
        · simp at h
    · simp at h

/-- **the invariant holds after every accepted history** (any length, any mix of `update` and
    `set_reference`, any number of drifts) -/
theorem run_inv (c : Cfg α) (ops : List (Op α)) (s s' : State α) (hi : Inv s)
    (h : run c s ops = some s') : Inv s' := by
  induction ops generalizing s with
  | nil => simp [run] at h; subst h; exact hi
  | cons op ops ih =>
    simp only [run] at h
    split at h
    · rename_i s1 hs1
      exact ih s1 (step_inv c s s1 op hi hs1) h
    · simp at h

/-! ### the public call `update` -/

/-- the state in which the body of `update` runs (after the `reset` that follows a drift) -/
def preState (c : Cfg α) (o : Oracle α) (s : State α) : Option (State α) :=
  if s.drift = .drift then reset c o s else some s

theorem update_eq (c : Cfg α) (o : Oracle α) (s s' : State α) (X : List (List α))
    (h : update c o s X = some s') :
    s.hasRef = true ∧ ∃ s0 d, preState c o s = some s0 ∧ validBatch c s0.dim X = some d ∧
      s' = updateCore c o s0 d X := by
  unfold update at h
  split at h
  · rename_i hr
    refine ⟨hr, ?_⟩
    split at h
    · simp at h
    · rename_i s0 hs0
      split at h
      · rename_i d hv
        injection h with h
        exact ⟨s0, d, hs0, hv, h.symm⟩
      · simp at h
  · simp at h

/-- the pre-state of an accepted `update` from a reachable state is an in-epoch state -/
theorem preState_inv (c : Cfg α) (o : Oracle α) (s s0 : State α) (hi : Inv s) (hr : s.hasRef = true)
    (h : preState c o s = some s0) : Inv s0 ∧ s0.drift = .none ∧ s0.hasRef = true := by
  unfold preState at h
  by_cases hd : s.drift = .drift
  · simp only [hd, if_true] at h
    have := reset_inv c o s s0 (hi.drifted hd).1 h
    exact ⟨this.1, this.2.1, by rw [this.2.2.1]; exact hr⟩
  · simp only [hd, if_false] at h
    injection h with h
    subst h
    have hn : s.drift = .none := by
      have := hi.noWarn
      cases hdr : s.drift <;> simp_all
    exact ⟨hi, hn, hr⟩

/-- **Drift exactly when ε exceeds β** — on the public records: after an accepted `update` from
    any reachable state, `drift_state == "drift"` iff the drift test is due on this batch of the
    epoch (`testsDrift`, see `testsDrift_iff`) and the ε and β recorded for this batch in
    `epsilon_values` / `thresholds` satisfy `ε > β` (strictly). -/
theorem update_drift_iff (c : Cfg α) (o : Oracle α) (s s' : State α) (X : List (List α))
    (hi : Inv s) (h : update c o s X = some s') :
    s'.drift = .drift ↔
      (testsDrift c s'.since = true ∧
        ∃ e b, s'.epsValues.getLast? = some (s'.total, e) ∧
               s'.thresholds.getLast? = some (s'.total, b) ∧ b < e) := by
  obtain ⟨hr, s0, d, hp, _, rfl⟩ := update_eq c o s s' X h
  obtain ⟨_, hn, _⟩ := preState_inv c o s s0 hi hr hp
  have hc := updateCore_counters c o s0 d X
  have hrec := updateCore_records c o s0 d X
  simp only at hrec
  rw [updateCore_drift_iff c o s0 d X hn, hc.1, hc.2]
  constructor
  · rintro ⟨ht, hb⟩
    have h2 : s0.since + 1 ≥ 2 := by
      unfold testsDrift at ht; simp at ht; omega
    refine ⟨ht, stepEps c s0 d X, (stepThr c o s0 d X).beta, ?_, ?_, hb⟩
    · rw [hrec.2.2.1]; simp [h2]
    · rw [hrec.2.2.2.1]; simp [ht]
  · rintro ⟨ht, e, b, he, hb, hlt⟩
    have h2 : s0.since + 1 ≥ 2 := by
      unfold testsDrift at ht; simp at ht; omega
    rw [hrec.2.2.1] at he
    rw [hrec.2.2.2.1] at hb
    simp [h2] at he
    simp [ht] at hb
    subst he; subst hb
    exact ⟨ht, hlt⟩

/-- no drift on a batch before the test is due, whatever the data -/
theorem update_no_early_drift (c : Cfg α) (o : Oracle α) (s s' : State α) (X : List (List α))
    (hi : Inv s) (h : update c o s X = some s') (ht : testsDrift c s'.since = false) :
    s'.drift = .none := by
  have hinv := step_inv c s s' (.batch X o) hi h
  have := (update_drift_iff c o s s' X hi h)
  cases hd : s'.drift with
  | none => rfl
  | warning => exact absurd hd hinv.noWarn
  | drift => rw [hd] at this; simp [ht] at this

end anyCarrier



/-! ## every carrier: the public calls -/

section anyCarrier2
variable {α : Type} [Add α] [Sub α] [Mul α] [Div α] [Neg α] [LT α] [DecidableLT α]
  [LE α] [DecidableLE α] [NatCast α] [BEq α] [HasSqrt α] [HasLogExp α] [HasLog1p α] [HasTrunc α]

theorem preState_reference (c : Cfg α) (o : Oracle α) (s s0 : State α) (hi : Inv s)
    (h : preState c o s = some s0) : s0.reference = s.reference := by
  unfold preState at h
  by_cases hd : s.drift = .drift
  · simp only [hd, if_true] at h
    exact (reset_inv c o s s0 (hi.drifted hd).1 h).2.2.2.2.2.2
  · simp only [hd, if_false] at h
    injection h with h; subst h; rfl

/-- **The recorded distance** — after an accepted `update` from any reachable state,
    `current_distance` (also stored as `distances[total_batches]`) is the feature average of the
    per-feature distances between the histograms of the reference (for a state flagged `drift`:
    the batch that was flagged) and of the batch, built on the common range of both with
    `floor(sqrt(reference size))` bins. -/
theorem update_distance (c : Cfg α) (o : Oracle α) (s s' : State α) (X : List (List α))
    (hi : Inv s) (h : update c o s X = some s') :
    ∃ dim, s'.dim = some dim ∧
      s'.curDist = some (average dim
        (featureDistances c.div dim (Nat.sqrt s.reference.length) s.reference X)) ∧
      s'.distances.getLast? = some (s'.total, average dim
        (featureDistances c.div dim (Nat.sqrt s.reference.length) s.reference X)) := by
  obtain ⟨hr, s0, d, hp, hv, rfl⟩ := update_eq c o s s' X h
  obtain ⟨hi0, hn, hr0⟩ := preState_inv c o s s0 hi hr hp
  have href := preState_reference c o s s0 hi hp
  have hrec := updateCore_records c o s0 d X
  have hb := (hi0.refOk hn hr0).2
  have hc := updateCore_counters c o s0 d X
  simp only at hrec
  refine ⟨d, ?_, ?_, ?_⟩
  · have : (updateCore c o s0 d X).dim = some d := by
      unfold updateCore appendRef
      by_cases h2 : s0.since + 1 ≥ 2
      · by_cases htd : testsDrift c (s0.since + 1) = true
        · by_cases hb : (stepThr c o s0 d X).beta < stepEps c s0 d X <;> simp [h2, htd, hb]
        · simp [h2, htd]
      · simp [h2]
    exact this
  · rw [hrec.1, stepDist, stepFd, hb, href]
  · rw [hrec.2.1, hc.1, stepDist, stepFd, hb, href]; simp

/-- **Reference update** on the public call: without drift the batch is appended to the reference
    (after a drift: to the batch that replaced it) and `reference_n`, bins follow; with drift the
    batch becomes the reference. -/
theorem update_reference (c : Cfg α) (o : Oracle α) (s s' : State α) (X : List (List α))
    (hi : Inv s) (h : update c o s X = some s') :
    (s'.drift ≠ .drift → s'.reference = s.reference ++ X ∧
        s'.refN = s.reference.length + X.length ∧ s'.bins = Nat.sqrt (s.reference.length + X.length)) ∧
    (s'.drift = .drift → s'.reference = X ∧ s'.lambda = s'.total) := by
  obtain ⟨hr, s0, d, hp, hv, rfl⟩ := update_eq c o s s' X h
  obtain ⟨hi0, hn, hr0⟩ := preState_inv c o s s0 hi hr hp
  have href := preState_reference c o s s0 hi hp
  constructor
  · intro hnd
    have := updateCore_no_drift c o s0 d X hnd
    simp only at this
    rw [this.1, this.2.1, this.2.2.1, href]
    exact ⟨rfl, rfl, rfl⟩
  · intro hd
    have := updateCore_on_drift c o s0 d X hn hd
    simp only at this
    rw [this.1, this.2.1, (updateCore_counters c o s0 d X).1]
    exact ⟨rfl, rfl⟩

/-- **Counters** of the public call: one per `update`, plus one proxy batch when a new epoch is
    opened with `detect_batch = 1`. -/
theorem update_counters (c : Cfg α) (o : Oracle α) (s s' : State α) (X : List (List α))
    (hi : Inv s) (h : update c o s X = some s') :
    s'.total = s.total + 1 + (if s.drift = .drift ∧ c.detectBatch = 1 then 1 else 0) ∧
    s'.since = (if s.drift = .drift then (if c.detectBatch = 1 then 2 else 1) else s.since + 1) := by
  obtain ⟨hr, s0, d, hp, hv, rfl⟩ := update_eq c o s s' X h
  have hc := updateCore_counters c o s0 d X
  rw [hc.1, hc.2]
  unfold preState at hp
  by_cases hd : s.drift = .drift
  · simp only [hd, if_true] at hp
    by_cases h1 : c.detectBatch = 1
    · have := reset_split c o s s0 h1 hp
      simp [hd, h1, this.2.2.2.1, this.2.2.2.2.1]
    · rw [reset_restarts c o s h1] at hp
      injection hp with hp; subst hp
      simp [hd, h1]
  · simp only [hd, if_false] at hp
    injection hp with hp; subst hp
    simp [hd]

/-- **`set_reference`** installs the data as reference and restarts everything an epoch owns
    (`_lambda` included — the fix f08e627), keeping the public records and `total_batches`. -/
theorem setReference_spec (c : Cfg α) (o : Oracle α) (s s' : State α) (X : List (List α))
    (h : setReference c o s X = some s') :
    s'.reference = X ∧ s'.refN = X.length ∧ s'.bins = Nat.sqrt X.length ∧ s'.drift = .none ∧
    s'.eps = [] ∧ s'.totalEps = zero ∧ s'.lambda = s.total ∧
    s'.since = (if c.detectBatch = 1 then 1 else 0) ∧
    s'.total = s.total + (if c.detectBatch = 1 then 1 else 0) ∧
    s'.epsValues = s.epsValues ∧ s'.thresholds = s.thresholds := by
  unfold setReference at h
  split at h
  · simp at h
  · rename_i d hv
    by_cases h1 : c.detectBatch = 1
    · have := reset_split c o _ s' h1 h
      simp only at this
      simp only [h1, if_true]
      exact ⟨this.1, this.2.1, this.2.2.1, this.2.2.2.2.2.1, this.2.2.2.2.2.2.1, this.2.2.2.2.2.2.2.1,
        this.2.2.2.2.2.2.2.2.1, this.2.2.2.1, this.2.2.2.2.1, this.2.2.2.2.2.2.2.2.2.2.2.2.1,
        this.2.2.2.2.2.2.2.2.2.2.2.2.2⟩
    · rw [reset_restarts c o _ h1] at h
      injection h with h; subst h
      simp [h1]

end anyCarrier2

section order
variable {K : Type} [LinearOrder K]

theorem argmaxFrom_spec (l : List K) (b : K) (bi i : Nat) (pre : List K)
    (hpre : pre.length = i) (hbi : bi < i) (hb : pre[bi]? = some b)
    (hmax : ∀ (j : Nat) (x : K), pre[j]? = some x → x ≤ b) (hfirst : ∀ (j : Nat) (x : K), j < bi → pre[j]? = some x → x < b) :
    let k := argmaxFrom b bi i l
    ∃ m, (pre ++ l)[k]? = some m ∧ (∀ (j : Nat) (x : K), (pre ++ l)[j]? = some x → x ≤ m) ∧
      (∀ (j : Nat) (x : K), j < k → (pre ++ l)[j]? = some x → x < m) := by
  induction l generalizing b bi i pre with
  | nil =>
    simp only [argmaxFrom, List.append_nil]
    exact ⟨b, hb, hmax, hfirst⟩
  | cons x xs ih =>
    simp only [argmaxFrom]
    have happ : pre ++ x :: xs = (pre ++ [x]) ++ xs := by simp
    by_cases hlt : b < x
    · simp only [hlt, if_true]
      rw [happ]
      apply ih x i (i + 1) (pre ++ [x]) (by simp [hpre]) (by omega)
      · rw [List.getElem?_append_right (by omega)]; simp [hpre]
      · intro j y hj
        by_cases hjl : j < pre.length
        · rw [List.getElem?_append_left hjl] at hj
          exact le_of_lt (lt_of_le_of_lt (hmax j y hj) hlt)
        · rw [List.getElem?_append_right (by omega)] at hj
          have : j - pre.length = 0 := by
            by_contra hne
            have : (([x] : List K))[j - pre.length]? = none := by
              apply List.getElem?_eq_none; simp; omega
            rw [this] at hj; cases hj
          rw [this] at hj; simp at hj; rw [← hj]
      · intro j y hji hj
        have hjl : j < pre.length := by omega
        rw [List.getElem?_append_left hjl] at hj
        exact lt_of_le_of_lt (hmax j y hj) hlt
    · simp only [hlt, if_false]
      rw [happ]
      apply ih b bi (i + 1) (pre ++ [x]) (by simp [hpre]) (by omega)
      · rw [List.getElem?_append_left (by omega)]; exact hb
      · intro j y hj
        by_cases hjl : j < pre.length
        · rw [List.getElem?_append_left hjl] at hj; exact hmax j y hj
        · rw [List.getElem?_append_right (by omega)] at hj
          have : j - pre.length = 0 := by
            by_contra hne
            have : (([x] : List K))[j - pre.length]? = none := by
              apply List.getElem?_eq_none; simp; omega
            rw [this] at hj; cases hj
          rw [this] at hj; simp at hj; rw [← hj]; exact not_lt.mp hlt
      · intro j y hji hj
        have hjl : j < pre.length := by omega
        rw [List.getElem?_append_left hjl] at hj
        exact hfirst j y hji hj

/-- **`feature_info` names the first feature with the largest ε**: `argmaxFirst l` is a position
    of `l` holding a maximum, and every earlier position holds a strictly smaller value. -/
theorem argmaxFirst_spec (l : List K) (hne : l ≠ []) :
    ∃ m, l[argmaxFirst l]? = some m ∧ (∀ (j : Nat) (x : K), l[j]? = some x → x ≤ m) ∧
      (∀ (j : Nat) (x : K), j < argmaxFirst l → l[j]? = some x → x < m) := by
  cases l with
  | nil => exact absurd rfl hne
  | cons x xs =>
    have := argmaxFrom_spec xs x 0 1 [x] rfl (by omega) (by simp)
      (by intro j y hj; cases j with
          | zero => simp at hj; rw [hj]
          | succ j => simp at hj)
      (by intro j y hj; omega)
    simpa [argmaxFirst] using this

end order

/-! ## ordered fields: ε and β as documented -/

section field
variable {K : Type} [Field K] [LinearOrder K] [IsStrictOrderedRing K] [BEq K] [HasSqrt K]
  [HasLogExp K] [HasLog1p K] [HasTrunc K]

@[simp] theorem zero_eq : (zero : K) = 0 := by simp [zero]
@[simp] theorem one_eq : (one : K) = 1 := by simp [one]

theorem foldl_add_eq (a : K) (l : List K) : l.foldl (· + ·) a = a + l.sum := by
  induction l generalizing a with
  | nil => simp
  | cons x xs ih => simp [ih, add_assoc]

theorem sumF_eq (l : List K) : sumF l = l.sum := by
  simp [sumF, foldl_add_eq]

/-- the documented threshold: mean of the past ε's of the epoch plus the scaled deviation, both
    with the code's divisor `d` -/
def meanOf (l : List K) (d : Nat) : K := l.sum / (d : K)
def devOf (l : List K) (d : Nat) : K := sqrt ((l.map (fun e => (e - meanOf l d) ^ 2)).sum / (d : K))
def betaSpec (c : Cfg K) (tcrit : K) (l : List K) (d : Nat) : K :=
  match c.stat with
  | .tstat => meanOf l d + tcrit * (devOf l d / sqrt (d : K))
  | .stdev => meanOf l d + c.signif * devOf l d

/-- the real (non-bootstrap) ε's of the current epoch held in `self.epsilon` -/
def realEps (c : Cfg K) (s : State K) : List K :=
  if s.since = 2 ∧ c.detectBatch ≠ 3 then s.eps.tail else s.eps

/-- the ε's that enter the threshold of the next batch: the bootstrap value alone on the second
    batch of an epoch, afterwards the real ε's of the epoch so far -/
def pastEps (c : Cfg K) (o : Oracle K) (s : State K) : List K :=
  if s.since = 1 ∧ c.detectBatch ≠ 3 then [o.eps0] else realEps c s

structure EpsInv (c : Cfg K) (s : State K) : Prop where
  total : s.totalEps = s.eps.dropLast.sum
  len : s.eps.length = (s.since - 1) + (if s.since = 2 ∧ c.detectBatch ≠ 3 then 1 else 0)
  recorded : realEps c s <:+ s.epsValues.map Prod.snd

theorem penult_append (l : List K) (a b : K) : penult (l ++ [a, b]) = a := by
  unfold penult
  have : l ++ [a, b] = (l ++ [a]) ++ [b] := by simp
  rw [this, List.dropLast_concat]; simp

theorem adaptive_general (c : Cfg K) (tcrit : K) (since total lambda : Nat) (eps : List K) (totalEps : K) :
    let th := adaptive c tcrit since total lambda eps totalEps
    th.beta = (match c.stat with
      | .tstat => th.epsHat + tcrit * (th.stdev / sqrt (th.dScale : K))
      | .stdev => th.epsHat + c.signif * th.stdev) := by
  unfold adaptive
  cases c.stat <;> simp

theorem betaSpec_of (c : Cfg K) (tcrit : K) (past : List K) (d : Nat) (x : K) :
    (match c.stat with
      | .tstat => ((1:K) / (d:K)) * past.sum + tcrit *
          (sqrt (sumF (past.map (fun e => sq (e - ((1:K) / (d:K)) * past.sum))) / (d:K)) / sqrt (d : K))
      | .stdev => ((1:K) / (d:K)) * past.sum + c.signif *
          sqrt (sumF (past.map (fun e => sq (e - ((1:K) / (d:K)) * past.sum))) / (d:K)))
      = betaSpec c tcrit past d := by
  have hm : ((1:K) / (d:K)) * past.sum = meanOf past d := by
    unfold meanOf; rw [one_div, inv_mul_eq_div]
  unfold betaSpec devOf
  rw [hm, sumF_eq]
  have : (past.map (fun e => sq (e - meanOf past d))) = past.map (fun e => (e - meanOf past d) ^ 2) := by
    apply List.map_congr_left; intro e _; simp [sq, pow_two]
  rw [this]

theorem adaptive_nosurgery (c : Cfg K) (tcrit : K) (since total lambda : Nat) (m : List K) (a x : K)
    (hs : ¬ (since = 3 ∧ c.detectBatch ≠ 3)) :
    let d := if since = 2 ∧ c.detectBatch ≠ 3 then 1 else total - lambda - 1
    let th := adaptive c tcrit since total lambda (m ++ [a, x]) m.sum
    th.eps = m ++ [a, x] ∧ th.totalEps = (m ++ [a]).sum ∧ th.beta = betaSpec c tcrit (m ++ [a]) d := by
  intro d th
  have hsurg : (since == 3 && c.detectBatch != 3) = false := by
    by_cases h3 : since = 3 <;> by_cases hd : c.detectBatch = 3 <;> simp_all
  have hd : (if (since == 2 && c.detectBatch != 3) = true then 1 else total - lambda - 1) = d := by
    simp only [d]
    by_cases h2 : since = 2 <;> by_cases hd : c.detectBatch = 3 <;> simp_all
  have hdl : (m ++ [a, x]).dropLast = m ++ [a] := by
    have : m ++ [a, x] = (m ++ [a]) ++ [x] := by simp
    rw [this, List.dropLast_concat]
  refine ⟨?_, ?_, ?_⟩
  · simp [th, adaptive, hsurg]
  · simp [th, adaptive, hsurg, penult_append]
  · rw [← betaSpec_of c tcrit (m ++ [a]) d x]
    simp only [th, adaptive, hsurg, hd, penult_append, hdl, one_eq]
    cases c.stat <;> simp [penult_append]

theorem adaptive_surgery (c : Cfg K) (tcrit : K) (total lambda : Nat) (e0 c2 x : K)
    (hdb : c.detectBatch ≠ 3) :
    let th := adaptive c tcrit 3 total lambda [e0, c2, x] e0
    th.eps = [c2, x] ∧ th.totalEps = c2 ∧ th.beta = betaSpec c tcrit [c2] (total - lambda - 1) := by
  intro th
  have hsurg : ((3:Nat) == 3 && c.detectBatch != 3) = true := by simp [hdb]
  have hd : (((3:Nat) == 2 && c.detectBatch != 3) = true) = False := by simp
  refine ⟨?_, ?_, ?_⟩
  · simp [th, adaptive, hdb]
  · simp [th, adaptive, hdb, penult]
  · rw [← betaSpec_of c tcrit [c2] (total - lambda - 1) x]
    simp only [th, adaptive, hsurg, hd, one_eq]
    cases c.stat <;> simp [penult]

/-- **β as documented/coded.**  In an epoch state satisfying the invariants, the threshold computed
    on the next batch is `ε̂ + t·σ/√d` (`tstat`) resp. `ε̂ + s·σ` (`stdev`), where `ε̂ = Σ past / d`,
    `σ = √(Σ (e − ε̂)² / d)`, `past` = the ε's of the epoch before this batch (the bootstrap value
    alone on the epoch's second batch — it is dropped on the third) and `d` = the number of
    batches of the epoch before this one (`t − λ − 1`; `1` on the second batch). -/
theorem beta_def (c : Cfg K) (o : Oracle K) (s : State K) (dim : Nat) (X : List (List K))
    (hJ : EpsInv c s) (hep : s.total = s.lambda + s.since)
    (ht : testsDrift c (s.since + 1) = true) :
    let th := stepThr c o s dim X
    th.eps = pastEps c o s ++ [stepEps c s dim X] ∧
    th.totalEps = (pastEps c o s).sum ∧
    th.beta = betaSpec c o.tcrit (pastEps c o s) s.since := by
  intro th
  have hlen := hJ.len
  have htot := hJ.total
  have hs1 : s.since ≥ 1 := by
    unfold testsDrift at ht; simp at ht; omega
  by_cases h1 : s.since = 1
  · -- second batch of the epoch; the test is due only for detect_batch ≠ 3
    have hdb : c.detectBatch ≠ 3 := by
      unfold testsDrift at ht; simp [h1] at ht; exact ht
    have he : s.eps = [] := by
      apply List.eq_nil_of_length_eq_zero; rw [hlen]; simp [h1]
    have ht0 : s.totalEps = ([] : List K).sum := by rw [htot, he]; simp
    have := adaptive_nosurgery c o.tcrit (s.since + 1) (s.total + 1) s.lambda [] o.eps0 (stepEps c s dim X)
      (by omega)
    simp only [h1] at this
    simp only [th, stepThr, stepEpsList, h1, he, ht0, pastEps]
    simpa [hdb] using this
  · by_cases h2 : s.since = 2 ∧ c.detectBatch ≠ 3
    · -- third batch, bootstrap value dropped
      obtain ⟨h2, hdb⟩ := h2
      have hl2 : s.eps.length = 2 := by rw [hlen]; simp [h2, hdb]
      obtain ⟨e0, c2, he⟩ : ∃ e0 c2, s.eps = [e0, c2] := by
        match hh : s.eps, hl2 with
        | [a, b], _ => exact ⟨a, b, rfl⟩
      have ht0 : s.totalEps = e0 := by rw [htot, he]; simp
      have := adaptive_surgery c o.tcrit (s.total + 1) s.lambda e0 c2 (stepEps c s dim X) hdb
      have hd : s.total + 1 - s.lambda - 1 = s.since := by omega
      simp only [th, stepThr, stepEpsList, h2, he, ht0, pastEps, realEps, hdb]
      rw [hd, h2] at this
      simpa [hdb] using this
    · -- later batches (or the third for detect_batch = 3)
      have hne : s.eps ≠ [] := by
        intro he; rw [he] at hlen; simp at hlen; omega
      obtain ⟨m, a, he⟩ : ∃ m a, s.eps = m ++ [a] :=
        ⟨s.eps.dropLast, s.eps.getLast hne, (List.dropLast_append_getLast hne).symm⟩
      have ht0 : s.totalEps = m.sum := by rw [htot, he]; simp
      have hns : ¬ (s.since + 1 = 3 ∧ c.detectBatch ≠ 3) := by
        intro h; exact h2 ⟨by omega, h.2⟩
      have := adaptive_nosurgery c o.tcrit (s.since + 1) (s.total + 1) s.lambda m a (stepEps c s dim X) hns
      have hd : (if s.since + 1 = 2 ∧ c.detectBatch ≠ 3 then 1 else s.total + 1 - s.lambda - 1) = s.since := by
        have : ¬ (s.since + 1 = 2 ∧ c.detectBatch ≠ 3) := by intro h; omega
        simp only [this, if_false]; omega
      simp only [hd] at this
      have hb : (s.since + 1 == 2 && c.detectBatch != 3) = false := by
        have : ¬ (s.since + 1 = 2) := by omega
        simp [this, h1]
      have hp : pastEps c o s = m ++ [a] := by
        unfold pastEps realEps; simp [h1, h2, he]
      simp only [th, stepThr, stepEpsList, hb, he, ht0, hp]
      simpa using this

theorem pastEps_length (c : Cfg K) (o : Oracle K) (s : State K)
    (hlen : s.eps.length = (s.since - 1) + (if s.since = 2 ∧ c.detectBatch ≠ 3 then 1 else 0))
    (hs1 : s.since ≥ 1) :
    (pastEps c o s).length + 1 = s.since + (if s.since + 1 = 2 ∧ c.detectBatch ≠ 3 then 1 else 0) := by
  by_cases hdb : c.detectBatch = 3
  · simp only [pastEps, realEps, hdb, ne_eq, not_true_eq_false, and_false, if_false]
    rw [hlen]; simp only [hdb, ne_eq, not_true_eq_false, and_false, if_false]; omega
  · by_cases h1 : s.since = 1
    · simp [pastEps, h1, hdb]
    · by_cases h2 : s.since = 2
      · have hl2 : s.eps.length = 2 := by rw [hlen]; simp [h2, hdb]
        simp [pastEps, realEps, h2, hdb, hl2]
      · have h3 : ¬ (s.since + 1 = 2) := by omega
        simp only [pastEps, realEps, h1, h2, h3, false_and, if_false]
        rw [hlen]; simp only [h2, false_and, if_false]; omega

theorem updateCore_eps (c : Cfg K) (o : Oracle K) (s : State K) (dim : Nat) (X : List (List K)) :
    (updateCore c o s dim X).eps =
      (if testsDrift c (s.since + 1) = true then (stepThr c o s dim X).eps
       else if s.since + 1 ≥ 2 then stepEpsList c o s dim X else s.eps) ∧
    (updateCore c o s dim X).totalEps =
      (if testsDrift c (s.since + 1) = true then (stepThr c o s dim X).totalEps else s.totalEps) := by
  have ht : s.since + 1 < 2 → testsDrift c (s.since + 1) = false := by
    intro h; unfold testsDrift; simp; omega
  unfold updateCore appendRef
  by_cases h2 : s.since + 1 ≥ 2
  · by_cases htd : testsDrift c (s.since + 1) = true
    · by_cases hb : (stepThr c o s dim X).beta < stepEps c s dim X <;> simp [h2, htd, hb]
    · simp [h2, htd]
  · simp [h2, ht (by omega)]

theorem epsInv_init (c : Cfg K) : EpsInv c (init : State K) := by
  constructor <;> simp [init, realEps]

theorem epsInv_updateCore (c : Cfg K) (o : Oracle K) (s : State K) (dim : Nat) (X : List (List K))
    (hJ : EpsInv c s) (hep : s.total = s.lambda + s.since) :
    EpsInv c (updateCore c o s dim X) := by
  have hc := updateCore_counters c o s dim X
  have he := updateCore_eps c o s dim X
  have hr := (updateCore_records c o s dim X).2.2.1
  by_cases ht : testsDrift c (s.since + 1) = true
  · have hb := beta_def c o s dim X hJ hep ht
    simp only at hb
    have h2 : s.since + 1 ≥ 2 := by unfold testsDrift at ht; simp at ht; omega
    simp only [ht, if_true] at he
    simp only [h2, if_true] at hr
    constructor
    · rw [he.2, he.1, hb.1, hb.2.1]; simp
    · rw [he.1, hb.1, hc.2, List.length_append, List.length_singleton,
        pastEps_length c o s hJ.len (by omega)]
      simp
    · rw [hr, List.map_append]
      have hrec := hJ.recorded
      unfold realEps
      rw [he.1, hb.1, hc.2]
      unfold pastEps
      by_cases h1 : s.since = 1
      · have hdb : c.detectBatch ≠ 3 := by
          unfold testsDrift at ht; simp [h1] at ht; exact ht
        simp only [h1, hdb, ne_eq, not_false_eq_true, and_self, if_true]
        simp
      · have : ¬ (s.since + 1 = 2 ∧ c.detectBatch ≠ 3) := by omega
        simp only [h1, false_and, if_false, this]
        simp only [List.map_cons, List.map_nil]
        exact List.suffix_append_self_iff.mpr hrec
  · simp only [ht] at he
    have hlen := hJ.len
    have htot := hJ.total
    by_cases h0 : s.since = 0
    · have h2 : ¬ (s.since + 1 ≥ 2) := by omega
      simp only [h2, if_false] at he hr
      have hnil : s.eps = [] := by
        apply List.eq_nil_of_length_eq_zero; rw [hlen]; simp [h0]
      constructor
      · rw [he.2, he.1]; exact htot
      · rw [he.1, hc.2, hnil, h0]; simp
      · rw [hr]; unfold realEps; rw [he.1, hnil]; simp
    · -- second batch with detect_batch = 3: ε is recorded, no threshold yet
      have hdb : c.detectBatch = 3 ∧ s.since = 1 := by
        unfold testsDrift at ht; simp at ht
        have hdb3 := ht.1 (by omega)
        refine ⟨hdb3, ?_⟩
        by_cases h2 : 2 ≤ s.since
        · exact absurd hdb3 (ht.2 h2)
        · omega
      have h2 : s.since + 1 ≥ 2 := by omega
      simp only [h2, if_true] at he hr
      have hnil : s.eps = [] := by
        apply List.eq_nil_of_length_eq_zero; rw [hlen]; simp [hdb.2]
      have hl : stepEpsList c o s dim X = [stepEps c s dim X] := by
        unfold stepEpsList; simp [hdb.1, hnil]
      constructor
      · rw [he.2, he.1, hl, htot, hnil]; simp
      · rw [he.1, hl, hc.2, hdb.2]; simp [hdb.1]
      · rw [hr]; unfold realEps; rw [he.1, hl, hc.2]; simp [hdb.1]

theorem epsInv_reset (c : Cfg K) (o : Oracle K) (s s' : State K) (h : reset c o s = some s') :
    EpsInv c s' := by
  by_cases h1 : c.detectBatch = 1
  · have := reset_split c o s s' h1 h
    have he := this.2.2.2.2.2.2.1
    have ht := this.2.2.2.2.2.2.2.1
    have hs := this.2.2.2.1
    constructor
    · rw [ht, he]; simp
    · rw [he, hs]; simp
    · unfold realEps; rw [he, hs]; simp
  · rw [reset_restarts c o s h1] at h
    injection h with h
    subst h
    constructor <;> simp [realEps]

theorem epsInv_step (c : Cfg K) (s s' : State K) (op : Op K) (hi : Inv s) (hJ : EpsInv c s)
    (h : step c s op = some s') : EpsInv c s' := by
  cases op with
  | setRef X o =>
    simp only [step, setReference] at h
    split at h
    · simp at h
    · exact epsInv_reset c o _ s' h
  | batch X o =>
    obtain ⟨hr, s0, d, hp, _, rfl⟩ := update_eq c o s s' X h
    obtain ⟨hi0, hn, _⟩ := preState_inv c o s s0 hi hr hp
    have hJ0 : EpsInv c s0 := by
      unfold preState at hp
      by_cases hd : s.drift = .drift
      · simp only [hd, if_true] at hp; exact epsInv_reset c o s s0 hp
      · simp only [hd, if_false] at hp; injection hp with hp; subst hp; exact hJ
    exact epsInv_updateCore c o s0 d X hJ0 (hi0.epoch hn)

theorem run_epsInv (c : Cfg K) (ops : List (Op K)) (s s' : State K) (hi : Inv s) (hJ : EpsInv c s)
    (h : run c s ops = some s') : EpsInv c s' := by
  induction ops generalizing s with
  | nil => simp [run] at h; subst h; exact hJ
  | cons op ops ih =>
    simp only [run] at h
    split at h
    · rename_i s1 hs1
      exact ih s1 (step_inv c s s1 op hi hs1) (epsInv_step c s s1 op hi hJ hs1) h
    · simp at h

/-- **The recorded threshold is the documented one — for every history.**  After any accepted
    history from a fresh detector, an accepted `update` on which the drift test is due records
    `thresholds[t] = ε̂ + t·σ/√d` (resp. `ε̂ + s·σ`) with `d = batches_since_reset − 1`, where the
    ε's entering `ε̂, σ` are: on the epoch's second batch the bootstrap estimate alone; afterwards
    exactly the `d − 1` values recorded in `epsilon_values` immediately before this batch's ε
    (the real ε's of the current epoch — the bootstrap value is dropped on the third batch). -/
theorem update_beta (c : Cfg K) (ops : List (Op K)) (s s' : State K) (o : Oracle K) (X : List (List K))
    (hrun : run c init ops = some s) (h : update c o s X = some s')
    (ht : testsDrift c s'.since = true) :
    ∃ past e, s'.thresholds.getLast? = some (s'.total, betaSpec c o.tcrit past (s'.since - 1)) ∧
      s'.epsValues.getLast? = some (s'.total, e) ∧
      ((s'.since = 2 ∧ past = [o.eps0]) ∨
       (s'.since ≥ 3 ∧ past.length = s'.since - 2 ∧ past ++ [e] <:+ s'.epsValues.map Prod.snd)) := by
  have hi := run_inv c ops init s inv_init hrun
  have hJ := run_epsInv c ops init s inv_init (epsInv_init c) hrun
  obtain ⟨hr, s0, d, hp, _, rfl⟩ := update_eq c o s s' X h
  obtain ⟨hi0, hn, _⟩ := preState_inv c o s s0 hi hr hp
  have hJ0 : EpsInv c s0 := by
    unfold preState at hp
    by_cases hd : s.drift = .drift
    · simp only [hd, if_true] at hp; exact epsInv_reset c o s s0 hp
    · simp only [hd, if_false] at hp; injection hp with hp; subst hp; exact hJ
  have hc := updateCore_counters c o s0 d X
  have hrec := updateCore_records c o s0 d X
  simp only at hrec
  rw [hc.2] at ht
  have hb := beta_def c o s0 d X hJ0 (hi0.epoch hn) ht
  simp only at hb
  have h2 : s0.since + 1 ≥ 2 := by unfold testsDrift at ht; simp at ht; omega
  refine ⟨pastEps c o s0, stepEps c s0 d X, ?_, ?_, ?_⟩
  · rw [hrec.2.2.2.1, hc.1, hc.2, Nat.add_sub_cancel, ← hb.2.2]; simp [ht]
  · rw [hrec.2.2.1, hc.1]; simp [h2]
  · rw [hc.2, hrec.2.2.1]
    simp only [h2, if_true, List.map_append, List.map_cons, List.map_nil]
    by_cases h1 : s0.since = 1
    · left
      have hdb : c.detectBatch ≠ 3 := by
        unfold testsDrift at ht; simp [h1] at ht; exact ht
      exact ⟨by omega, by simp [pastEps, h1, hdb]⟩
    · right
      have hpl := pastEps_length c o s0 hJ0.len (by omega)
      have h3 : ¬ (s0.since + 1 = 2) := by omega
      simp only [h3, false_and, if_false, Nat.add_zero] at hpl
      refine ⟨by omega, by omega, ?_⟩
      have : pastEps c o s0 = realEps c s0 := by simp [pastEps, h1]
      rw [this]
      exact List.suffix_append_self_iff.mpr hJ0.recorded

end field

/-! ## ℝ: the recorded distance is a bounded, symmetric, reflexive-zero quantity -/
section real

/-- the three facts the property states about the distance between two count vectors -/
structure MetricFacts (d : Divergence ℝ) (B : ℝ) : Prop where
  self : ∀ h, d.apply h h = 0
  symm : ∀ r t, d.apply r t = d.apply t r
  bound : ∀ r t, r.length = t.length → 0 ≤ d.apply r t ∧ d.apply r t ≤ B

/-- **Hellinger distance: 0 on equal histograms, symmetric, within `[0, √2]`** -/
theorem hellinger_facts : MetricFacts (.hellinger : Divergence ℝ) (Real.sqrt 2) :=
  ⟨hellinger_self, hellinger_symm, fun r t h => ⟨hellinger_nonneg r t, hellinger_le_sqrt2 r t h⟩⟩

/-- **Jensen-Shannon distance: 0 on equal histograms, symmetric, within `[0, √(ln 2)]`** -/
theorem jensenShannon_facts : MetricFacts (.js : Divergence ℝ) (Real.sqrt (Real.log 2)) :=
  ⟨jensenShannon_self, jensenShannon_symm,
   fun r t h => ⟨by show (0:ℝ) ≤ jensenShannon r t; rw [jensenShannon_eq]; exact Real.sqrt_nonneg _,
     jensenShannon_le r t h⟩⟩

theorem histPair_lengths (bins : Nat) (ref X : List (List ℝ)) (f : Nat) :
    (histPair bins ref X f).1.length = (histPair bins ref X f).2.length := by
  simp [histPair, hist_length]

/-- **identical batch ⇒ distance 0**: the feature-averaged distance of the reference to itself -/
theorem distance_self (d : Divergence ℝ) (B : ℝ) (hd : MetricFacts d B) (dim bins : Nat)
    (ref : List (List ℝ)) : average dim (featureDistances d dim bins ref ref) = 0 := by
  have : featureDistances d dim bins ref ref = (List.range dim).map (fun _ => (0 : ℝ)) := by
    unfold featureDistances
    apply List.map_congr_left
    intro f _
    simp only [featureDistance, histPair]
    exact hd.self _
  rw [this, average, rsumF]
  simp

/-- **symmetry for equal sizes**: exchanging the roles of reference and batch (equal numbers of
    rows, hence the same `floor(sqrt n)` bins and the same common range) gives the same distance -/
theorem distance_symm (d : Divergence ℝ) (B : ℝ) (hd : MetricFacts d B) (dim : Nat)
    (ref X : List (List ℝ)) (hlen : ref.length = X.length) :
    average dim (featureDistances d dim (Nat.sqrt ref.length) ref X) =
      average dim (featureDistances d dim (Nat.sqrt X.length) X ref) := by
  congr 1
  unfold featureDistances
  apply List.map_congr_left
  intro f _
  simp only [featureDistance]
  rw [hlen, histPair_comm (Nat.sqrt X.length) ref X f]
  exact hd.symm _ _

theorem sum_range_bounds (g : Nat → ℝ) (B : ℝ) (n : Nat) (h : ∀ f, 0 ≤ g f ∧ g f ≤ B) :
    0 ≤ ((List.range n).map g).sum ∧ ((List.range n).map g).sum ≤ n * B := by
  induction n with
  | zero => simp
  | succ n ih =>
    rw [List.range_succ, List.map_append, List.sum_append]
    have := h n
    simp only [List.map_cons, List.map_nil, List.sum_cons, List.sum_nil, add_zero, Nat.cast_add,
      Nat.cast_one]
    constructor <;> nlinarith [ih.1, ih.2, this.1, this.2]

/-- **the feature average inherits the bounds**: `0 ≤ distance ≤ B` for at least one feature -/
theorem distance_bounds (d : Divergence ℝ) (B : ℝ) (hd : MetricFacts d B) (dim bins : Nat)
    (hdim : 1 ≤ dim) (ref X : List (List ℝ)) :
    0 ≤ average dim (featureDistances d dim bins ref X) ∧
    average dim (featureDistances d dim bins ref X) ≤ B := by
  have hb := sum_range_bounds (featureDistance d bins ref X) B dim
    (fun f => hd.bound _ _ (histPair_lengths bins ref X f))
  have hpos : (0 : ℝ) < dim := by exact_mod_cast hdim
  unfold average featureDistances
  rw [rsumF, rone]
  constructor
  · exact mul_nonneg (by positivity) hb.1
  · rw [one_div, inv_mul_le_iff₀ hpos]; exact hb.2

/-- `bins = floor(sqrt n)`: `bins² ≤ n < (bins + 1)²` -/
theorem bins_floor_sqrt (n : Nat) : Nat.sqrt n ^ 2 ≤ n ∧ n < (Nat.sqrt n + 1) ^ 2 :=
  ⟨Nat.sqrt_le' n, Nat.lt_succ_sqrt' n⟩

/-- **histograms count every row**: in `update`, each of the two aligned histograms of feature `f`
    sums to the number of rows of its data set (the common range spans both columns) -/
theorem histPair_totals (bins : Nat) (hb : 0 < bins) (ref X : List (List ℝ)) (f : Nat)
    (hne : colOf ref f ++ colOf X f ≠ []) :
    (histPair bins ref X f).1.sum = (colOf ref f).length ∧
    (histPair bins ref X f).2.sum = (colOf X f).length := by
  have hmin := minOf_spec _ hne
  have hmax := maxOf_spec _ hne
  have hle : minOf (colOf ref f ++ colOf X f) ≤ maxOf (colOf ref f ++ colOf X f) :=
    hmin.2 _ hmax.1
  simp only [histPair, rangeOf]
  constructor
  · apply hist_total bins hb _ _ _ hle
    intro x hx
    exact ⟨hmin.2 x (by simp [hx]), hmax.2 x (by simp [hx])⟩
  · apply hist_total bins hb _ _ _ hle
    intro x hx
    exact ⟨hmin.2 x (by simp [hx]), hmax.2 x (by simp [hx])⟩

/-- **the recorded distance is 0-bounded**: for HDDDM (`hellinger_facts`, `B = √2`) and CDBD
    (`jensenShannon_facts`, `B = √(ln 2)`) every distance recorded after an accepted `update` from a
    reachable state lies in `[0, B]`. -/
theorem recorded_distance_bounds (c : Cfg ℝ) (B : ℝ) (hd : MetricFacts c.div B) (o : Oracle ℝ)
    (s s' : State ℝ) (X : List (List ℝ)) (hi : Inv s) (h : update c o s X = some s')
    (hdim : ∀ d, s'.dim = some d → 1 ≤ d) :
    ∃ v, s'.curDist = some v ∧ 0 ≤ v ∧ v ≤ B := by
  obtain ⟨dim, hdm, hcur, _⟩ := update_distance c o s s' X hi h
  have := distance_bounds c.div B hd dim (Nat.sqrt s.reference.length) (hdim dim hdm) s.reference X
  exact ⟨_, hcur, this.1, this.2⟩

/-- … and it is 0 when the batch is the reference itself -/
theorem recorded_distance_self (c : Cfg ℝ) (B : ℝ) (hd : MetricFacts c.div B) (o : Oracle ℝ)
    (s s' : State ℝ) (hi : Inv s) (h : update c o s s.reference = some s') :
    s'.curDist = some 0 := by
  obtain ⟨dim, _, hcur, _⟩ := update_distance c o s s' s.reference hi h
  rw [hcur, distance_self c.div B hd]

end real

/-! ## ε as documented; the bootstrap value as threshold -/

section field2
variable {K : Type} [Field K] [LinearOrder K] [IsStrictOrderedRing K] [BEq K] [HasSqrt K]
  [HasLogExp K] [HasLog1p K] [HasTrunc K]

/-- **ε is the absolute change of the distance** between consecutive batches of an epoch -/
theorem eps_def (c : Cfg K) (s : State K) (dim : Nat) (X : List (List K)) :
    stepEps c s dim X = |stepDist c s dim X - s.prevDist| := by
  unfold stepEps absOf
  simp only [one_eq, mul_one]
  by_cases h : stepDist c s dim X - s.prevDist < ((0 : Nat) : K)
  · simp only [h, if_true]
    rw [abs_of_neg (by simpa using h)]
  · simp only [h, if_false]
    rw [abs_of_nonneg (by simpa using h)]

end field2

section real2
/-- on the second batch of an epoch (`detect_batch ≠ 3`) the threshold is the bootstrap estimate
    itself — this is why the harness can read ε₀ off `thresholds[t]` -/
theorem betaSpec_bootstrap (c : Cfg ℝ) (tcrit e0 : ℝ) : betaSpec c tcrit [e0] 1 = e0 := by
  unfold betaSpec devOf meanOf
  cases c.stat <;> simp [rsqrt]

end real2

/-! ### non-vacuity: concrete detectors that reach the hypotheses above -/
namespace Demo
local instance : HasSqrt Int := ⟨id⟩
local instance : HasLogExp Int := ⟨id, id⟩
local instance : HasLog1p Int := ⟨id⟩
local instance : HasTrunc Int := ⟨Int.toNat⟩

/-- toy carrier `Int` (every theorem of the "every carrier" sections applies to it); the user
    divergence is the number of batch rows in the first bin -/
def cfg : Cfg Int :=
  { div := .user (fun _ t => ((t.headD 0 : Nat) : Int)), detectBatch := 3, stat := .stdev, signif := 0 }
def o : Oracle Int := { eps0 := 0, tcrit := 0 }
def ops : List (Op Int) :=
  [.setRef [[0], [4]] o, .batch [[0], [4]] o, .batch [[0], [4]] o]

/-- an accepted history of three calls: the hypothesis `run c init ops = some s` of `run_inv`,
    `update_beta` is satisfiable with a non-empty history -/
example : (run cfg init ops).isSome = true := rfl

/-- the state that history reaches (`#eval`), written out -/
def s2 : State Int :=
  { dim := some 1, hasRef := true, total := 2, since := 2, drift := .none,
    reference := [[0], [4], [0], [4], [0], [4]], refN := 6, bins := 2, eps := [1], totalEps := 0,
    lambda := 0, prevDist := 1, prevFeat := [1], curDist := some 1, featEps := some [1], beta := none,
    featInfo := none, distances := [(1, 2), (2, 1)], epsValues := [(2, 1)], thresholds := [] }

example : Inv s2 := by
  have h6 : Nat.sqrt 6 = 2 := (Nat.eq_sqrt.2 ⟨by norm_num, by norm_num⟩).symm
  constructor <;> simp [s2, h6]

/-- third batch of the epoch, four of five rows in the first bin: ε = 3 > β = 0 ⇒ drift, the batch
    becomes the reference (hypotheses of `updateCore_drift_iff`, `updateCore_on_drift`) -/
example : (updateCore cfg o s2 1 [[0], [0], [0], [0], [4]]).drift = .drift ∧
    (updateCore cfg o s2 1 [[0], [0], [0], [0], [4]]).reference = [[0], [0], [0], [0], [4]] ∧
    testsDrift cfg 3 = true := by decide

/-- … and a batch like the previous ones: ε = 0, not `> β = 0` ⇒ no drift, the batch is appended
    (hypothesis of `updateCore_no_drift`; also shows the strictness of the comparison) -/
example : (updateCore cfg o s2 1 [[0], [4]]).drift = .none ∧
    (updateCore cfg o s2 1 [[0], [4]]).reference.length = 8 := by decide

end Demo

/-- the Hellinger bound is attained on disjoint histograms (so `hellinger_facts` is tight) -/
example : (hellinger [1, 0] [0, 1] : ℝ) = Real.sqrt 2 := by
  rw [hellinger_eq]; unfold hellSum; norm_num

/-- a state in the middle of an epoch satisfying the ε-invariant (hypothesis of `beta_def`) -/
example : ∃ (c : Cfg ℝ) (s : State ℝ), EpsInv c s ∧ s.since = 2 ∧ s.total = s.lambda + s.since ∧
    testsDrift c (s.since + 1) = true :=
  ⟨{ div := .hellinger, detectBatch := 3, stat := .tstat, signif := 1 },
   { (init : State ℝ) with since := 2, total := 2, eps := [1], epsValues := [(2, 1)] },
   by constructor <;> simp [realEps, init], rfl, rfl, by decide⟩


end MV.HDM
