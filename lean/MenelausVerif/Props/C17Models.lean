/-
  C17 — instances of the first-alarm monotonicity for CUSUM, DDM, EDDM, STEPD, NNDVI, ADWIN,
  and the warning clause (`*_warning_only`) for DDM, EDDM, STEPD.

  Every instance has the same shape (namespace `MV.C17.<Det>`):
  * `blank`  — the statistics of a detector state: everything but the drift flag (and the
               `retraining_recs` derived from it);
  * `stat`   — one threshold-free update of the statistics; `stat_threshold_free` says that it does
               not read the threshold (`stat { c with θ := _ } = stat c`);
  * `dec θ`  — the drift decision of the update with the next input, taken on the statistics before
               it, under the threshold `θ`;
  * `sys`    — the `MV.Mono.Sys` built from them by `MV.Mono.lag` (the abstract state is the pair
               "statistics before the latest input, latest input", so that decisions that read
               intermediate values of an update — CUSUM's raise, EDDM's "was it an error", NNDVI's
               distance — need no extra bookkeeping);
  * `link`   — the hypothesis of `MV.Mono.first_drift_eq`: as long as no drift has been reported the
               model's state projects to the statistics run and its drift flag is `dec`;
  * `first_drift_is_first_alarm`, `dec_antitone`, and the conclusion `<det>_first_drift_mono`,
    stated on the drift flags of the *model's own run* (with its automatic resets).

  (NNDVI: the statistics update takes no configuration at all; ADWIN: before the first drift the
  detector state *is* the statistics, `stat = afterAdd`, and the link carries the invariants
  `SInv` / `FInv` of `Props/C03.lean`.)

  Warning clause (DDM, EDDM, STEPD): `<det>_drift_ignores_warning` — for *every* carrier (no law used,
  so also for the executed `Float` model) two configurations that differ in the warning parameter
  only have the same statistics and the same drift flags after every history;
  `<det>_warning_only` — over ordered fields, additionally every position that reports warning under
  the stricter warning parameter reports warning under the looser one.

  Carriers: ordered fields (`sqrt` abstract; DDM and NNDVI additionally assume `∀ x, 0 ≤ sqrt x`, the
  only property of the square root they need); ADWIN over `ℝ` (it needs `Real.log`, `Real.sqrt`:
  `Props/C03.lean` `checkEps_mono_delta`).  Nothing is partial here; PageHinkley stays partial
  (`Props/C17PH.lean`, finding F12).
-/
import MenelausVerif.Props.C17
import MenelausVerif.Model.Cusum
import MenelausVerif.Model.DDM
import MenelausVerif.Model.EDDM
import MenelausVerif.Model.STEPD
import MenelausVerif.Model.NNSP
import MenelausVerif.Props.C03
import Mathlib.Algebra.Order.Field.Basic
import Mathlib.Tactic.Linarith
import Mathlib.Tactic.NormNum
import Mathlib.Algebra.Order.BigOperators.Group.List
set_option linter.unusedSectionVars false

/-! ## Generic: lagged systems -/
namespace MV.Mono
section lag
variable {Θ σ σ' ι : Type}

/-- The system "statistics before the latest input, latest input": `stat` is the threshold-free
update of the statistics, `dec θ p x` the alarm decision of the update that feeds `x` to the
statistics `p`. -/
def lag (i : σ') (stat : σ' → ι → σ') (dec : Θ → σ' → ι → Bool) : Sys Θ (σ' × Option ι) ι where
  init := (i, none)
  stat := fun p x => ((match p.2 with | none => p.1 | some y => stat p.1 y), some x)
  dec := fun θ p => match p.2 with | none => false | some x => dec θ p.1 x

/-- the statistics after all inputs seen so far -/
def cur (stat : σ' → ι → σ') (p : σ' × Option ι) : σ' :=
  match p.2 with | none => p.1 | some y => stat p.1 y

theorem foldl_invariant {β γ : Type} (f : β → γ → β) (Q : β → Prop) (h : ∀ b x, Q b → Q (f b x)) :
    ∀ (l : List γ) (b : β), Q b → Q (l.foldl f b) := by
  intro l
  induction l with
  | nil => intro b hb; exact hb
  | cons x l ih => intro b hb; exact ih _ (h b x hb)

/-- **Link lemma for lagged systems.**  `proj` maps a detector state to its statistics; `I` is an
invariant of the detector states met before the first drift. -/
theorem lag_first_drift_eq (step : σ → ι → σ) (isDrift : σ → Bool) (i : σ') (stat : σ' → ι → σ')
    (dec : Θ → σ' → ι → Bool) (θ : Θ) (proj : σ → σ') (I : σ → Prop)
    (h : ∀ s x, I s → isDrift s = false →
      isDrift (step s x) = dec θ (proj s) x ∧
      (isDrift (step s x) = false → proj (step s x) = stat (proj s) x ∧ I (step s x)))
    (xs : List ι) (s : σ) (hI : I s) (hd : isDrift s = false) :
    firstIdx (driftTrace step isDrift s xs)
      = firstIdx (decisions (lag i stat dec) θ (proj s, none) xs) := by
  refine first_drift_eq step isDrift (lag i stat dec) θ (fun s p => I s ∧ proj s = cur stat p) ?_
    xs s (proj s, none) ⟨hI, rfl⟩ hd
  rintro s p x ⟨hIs, hp⟩ hds
  obtain ⟨h1, h2⟩ := h s x hIs hds
  have e : (lag i stat dec).stat p x = (cur stat p, some x) := rfl
  rw [e]
  refine ⟨?_, ?_⟩
  · rw [h1, hp]; rfl
  · intro hnd
    obtain ⟨h3, h4⟩ := h2 hnd
    exact ⟨h4, by rw [h3, hp]; rfl⟩

/-- **First-alarm monotonicity for lagged systems**, with an invariant `P` of the statistics run
(e.g. "the running std is non-negative") that the antitonicity of the decision may use. -/
theorem lag_alarm_mono (i : σ') (stat : σ' → ι → σ') (dec : Θ → σ' → ι → Bool) (loose strict : Θ)
    (P : σ' → Prop) (hP : ∀ p x, P p → P (stat p x))
    (hanti : ∀ p x, P p → dec strict p x = true → dec loose p x = true)
    (p0 : σ') (hP0 : P p0) (xs : List ι) :
    NoLater (firstIdx (decisions (lag i stat dec) loose (p0, none) xs))
      (firstIdx (decisions (lag i stat dec) strict (p0, none) xs)) := by
  apply first_alarm_mono_on (lag i stat dec) loose strict (fun p => P p.1)
  · rintro ⟨p, o⟩ hp hs
    cases o with
    | none => simp [lag] at hs
    | some x => exact hanti p x hp hs
  · intro k _
    have hQ : ∀ (l : List ι) (b : σ' × Option ι), (P b.1 ∧ P (cur stat b)) →
        (P (l.foldl (lag i stat dec).stat b).1 ∧ P (cur stat (l.foldl (lag i stat dec).stat b))) := by
      apply foldl_invariant
      rintro b x ⟨_, h2⟩
      exact ⟨h2, hP _ x h2⟩
    exact (hQ _ (p0, none) ⟨hP0, hP0⟩).1

/-- **The combination used by every instance**: two runs of a detector (`stepL` under the loose,
`stepS` under the strict threshold) that are both linked to the same lagged system. -/
theorem lag_first_drift_mono (stepL stepS : σ → ι → σ) (isDrift : σ → Bool) (i : σ')
    (stat : σ' → ι → σ') (dec : Θ → σ' → ι → Bool) (loose strict : Θ) (proj : σ → σ')
    (I : σ → Prop) (P : σ' → Prop)
    (hL : ∀ s x, I s → isDrift s = false →
      isDrift (stepL s x) = dec loose (proj s) x ∧
      (isDrift (stepL s x) = false → proj (stepL s x) = stat (proj s) x ∧ I (stepL s x)))
    (hS : ∀ s x, I s → isDrift s = false →
      isDrift (stepS s x) = dec strict (proj s) x ∧
      (isDrift (stepS s x) = false → proj (stepS s x) = stat (proj s) x ∧ I (stepS s x)))
    (hP : ∀ p x, P p → P (stat p x))
    (hanti : ∀ p x, P p → dec strict p x = true → dec loose p x = true)
    (s : σ) (hI : I s) (hd : isDrift s = false) (hP0 : P (proj s)) (xs : List ι) :
    NoLater (firstIdx (driftTrace stepL isDrift s xs)) (firstIdx (driftTrace stepS isDrift s xs)) := by
  rw [lag_first_drift_eq stepL isDrift i stat dec loose proj I hL xs s hI hd,
    lag_first_drift_eq stepS isDrift i stat dec strict proj I hS xs s hI hd]
  exact lag_alarm_mono i stat dec loose strict P hP hanti (proj s) hP0 xs

end lag
end MV.Mono

namespace MV.C17
open MV MV.Mono

/-- the drift flag as a `Bool` -/
def isD (d : Drift) : Bool := d == .drift

theorem isD_false {d : Drift} : isD d = false ↔ d ≠ .drift := by cases d <;> simp [isD]
theorem isD_true {d : Drift} : isD d = true ↔ d = .drift := by cases d <;> simp [isD]

/-- a relation kept by every pair of steps is kept along every history -/
theorem foldl_rel {σ ι : Type} (f g : σ → ι → σ) (R : σ → σ → Prop)
    (h : ∀ a b x, R a b → R (f a x) (g b x)) : ∀ (xs : List ι) (a b : σ), R a b →
    R (xs.foldl f a) (xs.foldl g b) := by
  intro xs
  induction xs with
  | nil => intro a b hab; exact hab
  | cons x xs ih => intro a b hab; exact ih _ _ (h a b x hab)

/-! ## CUSUM — a larger `threshold` is stricter

  `CUSUM.update` may raise (`Model/Cusum.lean`, `Outcome`).  The theorem is stated on the detector
  states `(step c s x).1` of *every* history: an update that raises leaves the drift flag alone, so it
  counts as a position without drift.  For a history on which no update raises
  (`run c xs = some _`) these are the states of the completed run (`states_of_run`). -/
namespace Cusum
open MV.Cusum

section carrier
variable {α : Type} [Add α] [Sub α] [Mul α] [Div α] [LT α] [DecidableLT α] [NatCast α] [BEq α]
  [HasSqrt α]

/-- the statistics of a state: everything but `drift_state` -/
def blank (s : State α) : State α := { s with drift := .none }

/-- the detector state after `update`, raised or not -/
def stepS (c : Cfg α) (s : State α) (x : α) : State α := (step c s x).1

def stat (c : Cfg α) (p : State α) (x : α) : State α := blank (core c p x).1

/-- the drift decision of the update with `x` on the statistics `p`, under `threshold = θ` -/
def dec (c : Cfg α) (θ : α) (p : State α) (x : α) : Bool :=
  isD (core { c with threshold := θ } p x).1.drift

def sys (c : Cfg α) : Sys α (State α × Option α) α := lag (blank (init c)) (stat c) (dec c)

/-- the part of `core` after `base` (which reads no threshold) -/
def rest (c : Cfg α) (b : State α) (x : α) : State α × Outcome :=
  if sdIsZero b.sd = true ∧ b.since > c.burnIn then (b, .valueError)
  else match b.target, b.sd with
    | none, _ => if b.since > c.burnIn then (b, .otherError) else (b, .ok)
    | some _, none => (b, .otherError)
    | some t, some d => (advance c b x t d, .ok)

theorem core_eq (c : Cfg α) (s : State α) (x : α) : core c s x = rest c (base c s x) x := rfl

theorem base_threshold_free (c : Cfg α) (θ : α) (s : State α) (x : α) :
    base { c with threshold := θ } s x = base c s x := rfl

theorem blank_base (c : Cfg α) {s s' : State α} (x : α) (hs : blank s = blank s') :
    blank (base c s x) = blank (base c s' x) := by
  obtain ⟨t, n, d, tg, sd, sh, sl, h⟩ := s
  obtain ⟨t', n', d', tg', sd', sh', sl', h'⟩ := s'
  simp only [blank, State.mk.injEq, true_and] at hs
  obtain ⟨rfl, rfl, rfl, rfl, rfl, rfl, rfl⟩ := hs
  rfl

theorem base_drift (c : Cfg α) (s : State α) (x : α) : (base c s x).drift = s.drift := rfl

theorem blank_rest (c : Cfg α) (θ θ' : α) {b b' : State α} (x : α) (hb : blank b = blank b') :
    blank (rest { c with threshold := θ } b x).1 = blank (rest { c with threshold := θ' } b' x).1 := by
  obtain ⟨t, n, d, tg, sd, sh, sl, h⟩ := b
  obtain ⟨t', n', d', tg', sd', sh', sl', h'⟩ := b'
  simp only [blank, State.mk.injEq, true_and] at hb
  obtain ⟨rfl, rfl, rfl, rfl, rfl, rfl, rfl⟩ := hb
  simp only [rest]
  split
  · rfl
  · split
    · split <;> rfl
    · rfl
    · simp only [advance, finish, blank]
      split <;> split <;> rfl

/-- the statistics after an update depend on the statistics before it and on the configuration
without its threshold -/
theorem blank_core_congr (c : Cfg α) (θ θ' : α) {s s' : State α} (x : α) (hs : blank s = blank s') :
    blank (core { c with threshold := θ } s x).1 = blank (core { c with threshold := θ' } s' x).1 := by
  rw [core_eq, core_eq, base_threshold_free, base_threshold_free]
  exact blank_rest c θ θ' x (blank_base c x hs)

theorem drift_rest_congr (c : Cfg α) {b b' : State α} (x : α) (hb : blank b = blank b')
    (hdd : b.drift = .drift ↔ b'.drift = .drift) :
    (rest c b x).1.drift = .drift ↔ (rest c b' x).1.drift = .drift := by
  obtain ⟨t, n, d, tg, sd, sh, sl, h⟩ := b
  obtain ⟨t', n', d', tg', sd', sh', sl', h'⟩ := b'
  simp only [blank, State.mk.injEq, true_and] at hb
  obtain ⟨rfl, rfl, rfl, rfl, rfl, rfl, rfl⟩ := hb
  simp only at hdd
  simp only [rest]
  split
  · exact hdd
  · split
    · split <;> exact hdd
    · exact hdd
    · simp only [advance, finish]
      split <;> simp [hdd]

/-- the drift decision depends on the statistics only -/
theorem drift_core_congr (c : Cfg α) {s s' : State α} (x : α) (hs : blank s = blank s')
    (hdd : s.drift = .drift ↔ s'.drift = .drift) :
    (core c s x).1.drift = .drift ↔ (core c s' x).1.drift = .drift := by
  rw [core_eq, core_eq]
  exact drift_rest_congr c x (blank_base c x hs) (by rw [base_drift, base_drift]; exact hdd)

/-- **the statistics run does not read the threshold** -/
theorem stat_threshold_free (c : Cfg α) (θ : α) : stat { c with threshold := θ } = stat c := by
  funext p x
  exact blank_core_congr c θ c.threshold x rfl

theorem blank_blank (s : State α) : blank (blank s) = blank s := rfl

theorem link (c : Cfg α) (θ : α) (s : State α) (x : α) (hd : isD s.drift = false) :
    isD (stepS { c with threshold := θ } s x).drift = dec c θ (blank s) x ∧
    (isD (stepS { c with threshold := θ } s x).drift = false →
      blank (stepS { c with threshold := θ } s x) = stat c (blank s) x ∧ True) := by
  have hnd : s.drift ≠ .drift := isD_false.1 hd
  have hstep : stepS { c with threshold := θ } s x = (core { c with threshold := θ } s x).1 := by
    simp [stepS, step, prep, hnd]
  rw [hstep]
  refine ⟨?_, fun _ => ⟨blank_core_congr c θ c.threshold x (blank_blank s).symm, trivial⟩⟩
  unfold dec
  have := drift_core_congr { c with threshold := θ } (s := s) (s' := blank s) x
    (blank_blank s).symm (by simp [blank, hnd])
  cases h1 : (core { c with threshold := θ } s x).1.drift <;>
    cases h2 : (core { c with threshold := θ } (blank s) x).1.drift <;> simp_all [isD]

/-- the first drift CUSUM reports is the first alarm of `sys c` at its threshold -/
theorem first_drift_is_first_alarm (c : Cfg α) (xs : List α) :
    firstIdx (driftTrace (stepS c) (fun s => isD s.drift) (init c) xs) = firstAlarm (sys c) c.threshold xs :=
  lag_first_drift_eq (stepS c) (fun s => isD s.drift) (blank (init c)) (stat c) (dec c) c.threshold blank
    (fun _ => True) (fun s x _ hd => link c c.threshold s x hd) xs (init c) trivial rfl

/-- on a history on which no update raises, the states `stepS` walks through are those of the run -/
theorem states_of_runFrom (c : Cfg α) (xs : List α) : ∀ (s s' : State α), runFrom c s xs = some s' →
    xs.foldl (stepS c) s = s' := by
  induction xs with
  | nil => intro s s' h; simpa [runFrom] using h
  | cons x xs ih =>
    intro s s' h
    simp only [runFrom] at h
    simp only [List.foldl_cons]
    split at h
    · rename_i s1 heq
      have : stepS c s x = s1 := by simp [stepS, heq]
      rw [this]; exact ih _ _ h
    · cases h

theorem states_of_run (c : Cfg α) (xs : List α) (s' : State α) (h : run c xs = some s') :
    xs.foldl (stepS c) (init c) = s' := states_of_runFrom c xs _ _ h

end carrier

section field
variable {K : Type} [Field K] [LinearOrder K] [IsStrictOrderedRing K] [HasSqrt K]

theorem alarm_antitone (c : Cfg K) (loose strict : K) (hle : loose ≤ strict) (sh sl : K)
    (h : alarm { c with threshold := strict } sh sl = true) :
    alarm { c with threshold := loose } sh sl = true := by
  obtain ⟨t0, s0, bi, dl, th, dir⟩ := c
  unfold alarm at *
  cases dir <;> simp only [Bool.or_eq_true, decide_eq_true_eq] at h ⊢
  · rcases h with h | h
    · exact Or.inl (lt_of_le_of_lt hle h)
    · exact Or.inr (lt_of_le_of_lt hle h)
  · exact lt_of_le_of_lt hle h
  · exact lt_of_le_of_lt hle h

/-- a statistic above the larger threshold is above the smaller one -/
theorem dec_antitone (c : Cfg K) (loose strict : K) (hle : loose ≤ strict)
    (p : State K) (x : K) (h : dec c strict p x = true) : dec c loose p x = true := by
  unfold dec at *
  rw [isD_true] at *
  rw [core_eq, base_threshold_free] at *
  generalize base c p x = b at *
  revert h
  simp only [rest]
  split
  · exact id
  · split
    · split <;> exact id
    · exact id
    · simp only [advance, finish]
      intro h
      split at h
      · rename_i hc
        rw [if_pos ⟨hc.1, alarm_antitone c loose strict hle _ _ hc.2⟩]
      · split
        · rfl
        · exact h

/-- **CUSUM: a larger `threshold` never makes the first drift earlier** — for every configuration
(known or estimated target / sd, any burn-in, delta and direction), every pair `loose ≤ strict` and
every history; `sqrt` may be any function. -/
theorem cusum_first_drift_mono (c : Cfg K) (loose strict : K) (hle : loose ≤ strict) (xs : List K) :
    NoLater
      (firstIdx (driftTrace (stepS { c with threshold := loose }) (fun s => isD s.drift) (init c) xs))
      (firstIdx (driftTrace (stepS { c with threshold := strict }) (fun s => isD s.drift) (init c) xs)) :=
  lag_first_drift_mono _ _ (fun s => isD s.drift) (blank (init c)) (stat c) (dec c) loose strict blank
    (fun _ => True) (fun _ => True)
    (fun s x _ hd => link c loose s x hd) (fun s x _ hd => link c strict s x hd)
    (fun _ _ _ => trivial) (fun p x _ h => dec_antitone c loose strict hle p x h)
    (init c) trivial rfl trivial xs

end field
end Cusum

/-! ## DDM — a larger `drift_scale` is stricter -/
namespace DDM
open MV.DDM

section carrier
variable {α : Type} [Add α] [Sub α] [Mul α] [Div α] [LE α] [DecidableLE α] [NatCast α] [HasSqrt α]

/-- the statistics of a state: everything but `drift_state` and `retraining_recs` -/
def blank (s : State α) : State α := { s with drift := .none, recs := Recs.empty }

/-- one update of the statistics (no reset: used before the first drift only) -/
def stat (c : Cfg α) (p : State α) (e : Bool) : State α := blank (core c p e)

/-- the drift decision of the update with `e` on the statistics `p`, under `drift_scale = θ` -/
def dec (c : Cfg α) (θ : α) (p : State α) (e : Bool) : Bool :=
  isD (core { c with driftScale := θ } p e).drift

def sys (c : Cfg α) : Sys α (State α × Option Bool) Bool := lag (blank init) (stat c) (dec c)

/-- the new running rate / std / stored minimum of `p + s` computed by an update -/
def nrate (p : State α) (e : Bool) : α := newRate p.rate (bit e) (p.since + 1)
def nstd (p : State α) (e : Bool) : α := newStd p.std p.rate (nrate p e) (bit e) (p.since + 1)
def nmin (p : State α) (e : Bool) : α := (newMins p.mins (nrate p e) (nstd p e)).1

/-- the statistics after an update depend on the statistics before it and on `n_threshold` only:
neither on the two scales nor on the drift flag / recs -/
theorem blank_core_congr (c c' : Cfg α) (s s' : State α) (e : Bool) (hn : c.nThreshold = c'.nThreshold)
    (hs : blank s = blank s') : blank (core c s e) = blank (core c' s' e) := by
  obtain ⟨t, n, d, r, sd, m, rc⟩ := s
  obtain ⟨t', n', d', r', sd', m', rc'⟩ := s'
  simp only [blank, State.mk.injEq, true_and, and_true] at hs
  obtain ⟨rfl, rfl, rfl, rfl, rfl⟩ := hs
  simp only [core, blank, hn]
  split <;> rfl

/-- the drift decision of one update, spelled out: inside the burn-in the flag is kept, afterwards
`rate_min + drift_scale * std ≤ rate + std` on the new estimates -/
theorem core_drift_iff (c : Cfg α) (p : State α) (e : Bool) :
    (core c p e).drift = .drift ↔
      if p.since + 1 < c.nThreshold then p.drift = .drift
      else nmin p e + c.driftScale * nstd p e ≤ nrate p e + nstd p e := by
  simp only [core, decide3, nmin, nstd, nrate]
  split
  · rfl
  · split
    · simp_all
    · split <;> simp_all

/-- the warning decision of one update, spelled out -/
theorem core_warning_iff (c : Cfg α) (p : State α) (e : Bool) :
    (core c p e).drift = .warning ↔
      if p.since + 1 < c.nThreshold then p.drift = .warning
      else ¬ (nmin p e + c.driftScale * nstd p e ≤ nrate p e + nstd p e) ∧
        nmin p e + c.warningScale * nstd p e ≤ nrate p e + nstd p e := by
  simp only [core, decide3, nmin, nstd, nrate]
  split
  · rfl
  · split
    · simp_all
    · split <;> simp_all

theorem blank_fields {s s' : State α} (hs : blank s = blank s') :
    s.since = s'.since ∧ s.rate = s'.rate ∧ s.std = s'.std ∧ s.mins = s'.mins := by
  obtain ⟨t, n, d, r, sd, m, rc⟩ := s
  obtain ⟨t', n', d', r', sd', m', rc'⟩ := s'
  simp only [blank, State.mk.injEq, true_and, and_true] at hs
  simp_all

/-- the drift decision depends on the statistics, `n_threshold` and `drift_scale` only -/
theorem drift_core_congr (c c' : Cfg α) (s s' : State α) (e : Bool) (hn : c.nThreshold = c'.nThreshold)
    (hd : c.driftScale = c'.driftScale) (hs : blank s = blank s')
    (hdd : s.drift = .drift ↔ s'.drift = .drift) :
    (core c s e).drift = .drift ↔ (core c' s' e).drift = .drift := by
  obtain ⟨h1, h2, h3, h4⟩ := blank_fields hs
  rw [core_drift_iff, core_drift_iff]
  simp only [nmin, nstd, nrate, h1, h2, h3, h4, hn, hd, hdd]

/-- **the statistics run does not read the drift threshold** -/
theorem stat_threshold_free (c : Cfg α) (θ : α) : stat { c with driftScale := θ } = stat c := by
  funext p e
  exact blank_core_congr _ _ _ _ _ rfl rfl

theorem blank_blank (s : State α) : blank (blank s) = blank s := rfl

theorem link (c : Cfg α) (θ : α) (s : State α) (e : Bool) (hd : isD s.drift = false) :
    isD (step { c with driftScale := θ } s e).drift = dec c θ (blank s) e ∧
    (isD (step { c with driftScale := θ } s e).drift = false →
      blank (step { c with driftScale := θ } s e) = stat c (blank s) e ∧ True) := by
  have hnd : s.drift ≠ .drift := isD_false.1 hd
  have hstep : step { c with driftScale := θ } s e = core { c with driftScale := θ } s e := by
    simp [step, hnd]
  rw [hstep]
  refine ⟨?_, fun _ => ⟨blank_core_congr _ _ _ _ _ rfl (blank_blank s).symm, trivial⟩⟩
  unfold dec
  have := drift_core_congr { c with driftScale := θ } { c with driftScale := θ } s (blank s) e rfl rfl
    (blank_blank s).symm (by simp [blank, hnd])
  cases h1 : (core { c with driftScale := θ } s e).drift <;>
    cases h2 : (core { c with driftScale := θ } (blank s) e).drift <;> simp_all [isD]

/-- the first drift DDM reports is the first alarm of `sys c` at its `drift_scale` -/
theorem first_drift_is_first_alarm (c : Cfg α) (xs : List Bool) :
    firstIdx (driftTrace (step c) (fun s => isD s.drift) init xs) = firstAlarm (sys c) c.driftScale xs :=
  lag_first_drift_eq (step c) (fun s => isD s.drift) (blank init) (stat c) (dec c) c.driftScale blank
    (fun _ => True) (fun s e _ hd => link c c.driftScale s e hd) xs init trivial rfl


/-! ### the warning parameter (every carrier) -/

/-- two states with the same statistics and the same drift flag -/
def WRel (s1 s2 : State α) : Prop := blank s1 = blank s2 ∧ (s1.drift = .drift ↔ s2.drift = .drift)

theorem blank_reset {s s' : State α} (hs : blank s = blank s') : blank (reset s) = blank (reset s') := by
  obtain ⟨t, n, d, r, sd, m, rc⟩ := s
  obtain ⟨t', n', d', r', sd', m', rc'⟩ := s'
  simp only [blank, State.mk.injEq, true_and, and_true] at hs
  simp_all [blank, reset]

theorem pre_wrel {s1 s2 : State α} (h : WRel s1 s2) :
    WRel (if s1.drift = .drift then reset s1 else s1) (if s2.drift = .drift then reset s2 else s2) := by
  obtain ⟨h1, h2⟩ := h
  by_cases hd : s1.drift = .drift
  · rw [if_pos hd, if_pos (h2.1 hd)]
    exact ⟨blank_reset h1, by simp [reset]⟩
  · rw [if_neg hd, if_neg (fun h => hd (h2.2 h))]
    exact ⟨h1, h2⟩

theorem step_wrel (c : Cfg α) (w1 w2 : α) (s1 s2 : State α) (e : Bool) (h : WRel s1 s2) :
    WRel (step { c with warningScale := w1 } s1 e) (step { c with warningScale := w2 } s2 e) := by
  obtain ⟨h1, h2⟩ := pre_wrel h
  exact ⟨blank_core_congr _ _ _ _ _ rfl h1, drift_core_congr _ _ _ _ _ rfl rfl h1 h2⟩

/-- **the warning parameter enters neither the statistics nor the drift decision**: two DDM
configurations that differ in `warning_scale` only have, after every history, the same statistics
(counters, rate, std, stored minimum) and report drift at exactly the same positions.  No
arithmetic law is used: this holds for every carrier, in particular for the executed `Float` model. -/
theorem ddm_drift_ignores_warning (c : Cfg α) (w1 w2 : α) (xs : List Bool) :
    blank (run { c with warningScale := w1 } xs) = blank (run { c with warningScale := w2 } xs) ∧
    ((run { c with warningScale := w1 } xs).drift = .drift ↔
      (run { c with warningScale := w2 } xs).drift = .drift) :=
  foldl_rel _ _ WRel (fun a b x h => step_wrel c w1 w2 a b x h) xs init init ⟨rfl, Iff.rfl⟩

end carrier

section field
variable {K : Type} [Field K] [LinearOrder K] [IsStrictOrderedRing K] [HasSqrt K]

theorem nstd_nonneg (hsqrt : ∀ x : K, 0 ≤ sqrt x) (p : State K) (e : Bool) : 0 ≤ nstd p e := hsqrt _

/-- with a non-negative std a larger `drift_scale` is a larger bound -/
theorem dec_antitone (hsqrt : ∀ x : K, 0 ≤ sqrt x) (c : Cfg K) (loose strict : K) (hle : loose ≤ strict)
    (p : State K) (e : Bool) (h : dec c strict p e = true) : dec c loose p e = true := by
  unfold dec at *
  rw [isD_true, core_drift_iff] at *
  simp only at h ⊢
  split
  · simpa [*] using h
  · rename_i hb
    rw [if_neg hb] at h
    have := mul_le_mul_of_nonneg_right hle (nstd_nonneg hsqrt p e)
    linarith

/-- **DDM: a larger `drift_scale` never makes the first drift earlier** — for every configuration,
every pair `loose ≤ strict` and every history of prediction results; `sqrt` may be any function
with non-negative values. -/
theorem ddm_first_drift_mono (hsqrt : ∀ x : K, 0 ≤ sqrt x) (c : Cfg K) (loose strict : K) (hle : loose ≤ strict)
    (xs : List Bool) :
    NoLater (firstIdx (driftTrace (step { c with driftScale := loose }) (fun s => isD s.drift) init xs))
      (firstIdx (driftTrace (step { c with driftScale := strict }) (fun s => isD s.drift) init xs)) :=
  lag_first_drift_mono _ _ (fun s => isD s.drift) (blank init) (stat c) (dec c) loose strict blank
    (fun _ => True) (fun _ => True)
    (fun s e _ hd => link c loose s e hd) (fun s e _ hd => link c strict s e hd)
    (fun _ _ _ => trivial) (fun p e _ h => dec_antitone hsqrt c loose strict hle p e h)
    init trivial rfl trivial xs


/-! ### the warning parameter (ordered field) -/

/-- as `WRel`, and the second run warns wherever the first one does -/
def WRel' (s1 s2 : State K) : Prop := WRel s1 s2 ∧ (s1.drift = .warning → s2.drift = .warning)

theorem step_wrel' (hsqrt : ∀ x : K, 0 ≤ sqrt x) (c : Cfg K) (w1 w2 : K) (hle : w2 ≤ w1)
    (s1 s2 : State K) (e : Bool) (h : WRel' s1 s2) :
    WRel' (step { c with warningScale := w1 } s1 e) (step { c with warningScale := w2 } s2 e) := by
  obtain ⟨h0, hw⟩ := h
  refine ⟨step_wrel c w1 w2 s1 s2 e h0, ?_⟩
  have hp := pre_wrel h0
  unfold step
  generalize hp1 : (if s1.drift = .drift then reset s1 else s1) = p1 at hp ⊢
  generalize hp2 : (if s2.drift = .drift then reset s2 else s2) = p2 at hp ⊢
  have hpw : p1.drift = .warning → p2.drift = .warning := by
    subst hp1 hp2
    by_cases hd : s1.drift = .drift
    · rw [if_pos hd]; simp [reset]
    · rw [if_neg hd, if_neg (fun h => hd (h0.2.2 h))]; exact hw
  obtain ⟨f1, f2, f3, f4⟩ := blank_fields hp.1
  rw [core_warning_iff, core_warning_iff]
  simp only [nmin, nstd, nrate, f1, f2, f3, f4]
  split
  · exact hpw
  · rintro ⟨g1, g2⟩
    refine ⟨g1, ?_⟩
    have := mul_le_mul_of_nonneg_right hle (nstd_nonneg hsqrt p2 e)
    simp only [nstd, nrate] at this
    linarith

/-- **DDM, warning clause.**  Two configurations that differ in `warning_scale` only
(`w2 ≤ w1`: the second is looser) have the same statistics and the same drift flags after every
history, and wherever the first reports warning the second reports warning too. -/
theorem ddm_warning_only (hsqrt : ∀ x : K, 0 ≤ sqrt x) (c : Cfg K) (w1 w2 : K) (hle : w2 ≤ w1) (xs : List Bool) :
    blank (run { c with warningScale := w1 } xs) = blank (run { c with warningScale := w2 } xs) ∧
    ((run { c with warningScale := w1 } xs).drift = .drift ↔
      (run { c with warningScale := w2 } xs).drift = .drift) ∧
    ((run { c with warningScale := w1 } xs).drift = .warning →
      (run { c with warningScale := w2 } xs).drift = .warning) := by
  have := foldl_rel _ _ WRel' (fun a b x h => step_wrel' hsqrt c w1 w2 hle a b x h) xs init init
    ⟨⟨rfl, Iff.rfl⟩, id⟩
  exact ⟨this.1.1, this.1.2, this.2⟩

end field
end DDM


/-! ## EDDM — a smaller `drift_thresh` is stricter -/
namespace EDDM
open MV.EDDM

section carrier
variable {α : Type} [Add α] [Sub α] [Mul α] [Div α] [LT α] [DecidableLT α] [LE α] [DecidableLE α]
  [NatCast α] [HasSqrt α]

/-- the statistics of a state: everything but `drift_state` and `retraining_recs` -/
def blank (s : State α) : State α := { s with drift := .none, recs := Recs.empty }

def stat (c : Cfg α) (p : State α) (e : Bool) : State α := blank (core c p e)

/-- the drift decision of the update with `e` on the statistics `p`, under `drift_thresh = θ` -/
def dec (c : Cfg α) (θ : α) (p : State α) (e : Bool) : Bool :=
  isD (core { c with driftThresh := θ } p e).drift

def sys (c : Cfg α) : Sys α (State α × Option Bool) Bool := lag (blank init) (stat c) (dec c)

/-- distance of a new error to the previous one, new mean / std of the distances, and the ratio
`(mean + 2 std) / max` that is compared with the thresholds -/
def ndist (p : State α) : α := ((p.since + 1 - 1 - p.idxCurr : Nat) : α)
def nmean (p : State α) : α := newMean p.distMean (ndist p) (p.nErrors + 1)
def nstd (p : State α) : α := newStd p.distStd p.distMean (nmean p) (ndist p) (p.nErrors + 1)
def ratio (p : State α) : α :=
  numerator (nmean p) (nstd p) / newMax p.maxNum (numerator (nmean p) (nstd p))

theorem blank_core_congr (c c' : Cfg α) (s s' : State α) (e : Bool) (hn : c.nThreshold = c'.nThreshold)
    (hs : blank s = blank s') : blank (core c s e) = blank (core c' s' e) := by
  obtain ⟨t, n, d, ne, ic, dm, ds, mx, rc⟩ := s
  obtain ⟨t', n', d', ne', ic', dm', ds', mx', rc'⟩ := s'
  simp only [blank, State.mk.injEq, true_and, and_true] at hs
  obtain ⟨rfl, rfl, rfl, rfl, rfl, rfl, rfl⟩ := hs
  simp only [core, blank, hn]
  split
  · rfl
  · split <;> rfl

theorem core_drift_iff (c : Cfg α) (p : State α) (e : Bool) :
    (core c p e).drift = .drift ↔
      if e = true ∧ ¬ p.nErrors + 1 < c.nThreshold then ratio p ≤ c.driftThresh else p.drift = .drift := by
  simp only [core, decide3, ratio, nstd, nmean, ndist]
  cases e
  · simp
  · simp only [Bool.not_true, Bool.false_eq_true, if_false, true_and]
    split
    · simp_all
    · simp_all only
      split
      · simp_all
      · split <;> simp_all

theorem core_warning_iff (c : Cfg α) (p : State α) (e : Bool) :
    (core c p e).drift = .warning ↔
      if e = true ∧ ¬ p.nErrors + 1 < c.nThreshold then ¬ ratio p ≤ c.driftThresh ∧ ratio p ≤ c.warningThresh
      else p.drift = .warning := by
  simp only [core, decide3, ratio, nstd, nmean, ndist]
  cases e
  · simp
  · simp only [Bool.not_true, Bool.false_eq_true, if_false, true_and]
    split
    · simp_all
    · simp_all only
      split
      · simp_all
      · split <;> simp_all

theorem blank_fields {s s' : State α} (hs : blank s = blank s') :
    s.since = s'.since ∧ s.nErrors = s'.nErrors ∧ s.idxCurr = s'.idxCurr ∧ s.distMean = s'.distMean ∧
    s.distStd = s'.distStd ∧ s.maxNum = s'.maxNum := by
  obtain ⟨t, n, d, ne, ic, dm, ds, mx, rc⟩ := s
  obtain ⟨t', n', d', ne', ic', dm', ds', mx', rc'⟩ := s'
  simp only [blank, State.mk.injEq, true_and, and_true] at hs
  simp_all

theorem drift_core_congr (c c' : Cfg α) (s s' : State α) (e : Bool) (hn : c.nThreshold = c'.nThreshold)
    (hd : c.driftThresh = c'.driftThresh) (hs : blank s = blank s')
    (hdd : s.drift = .drift ↔ s'.drift = .drift) :
    (core c s e).drift = .drift ↔ (core c' s' e).drift = .drift := by
  obtain ⟨h1, h2, h3, h4, h5, h6⟩ := blank_fields hs
  rw [core_drift_iff, core_drift_iff]
  simp only [ratio, nstd, nmean, ndist, h1, h2, h3, h4, h5, h6, hn, hd, hdd]

/-- **the statistics run does not read the drift threshold** -/
theorem stat_threshold_free (c : Cfg α) (θ : α) : stat { c with driftThresh := θ } = stat c := by
  funext p e
  exact blank_core_congr _ _ _ _ _ rfl rfl

theorem blank_blank (s : State α) : blank (blank s) = blank s := rfl

theorem link (c : Cfg α) (θ : α) (s : State α) (e : Bool) (hd : isD s.drift = false) :
    isD (step { c with driftThresh := θ } s e).drift = dec c θ (blank s) e ∧
    (isD (step { c with driftThresh := θ } s e).drift = false →
      blank (step { c with driftThresh := θ } s e) = stat c (blank s) e ∧ True) := by
  have hnd : s.drift ≠ .drift := isD_false.1 hd
  have hstep : step { c with driftThresh := θ } s e = core { c with driftThresh := θ } s e := by
    simp [step, hnd]
  rw [hstep]
  refine ⟨?_, fun _ => ⟨blank_core_congr _ _ _ _ _ rfl (blank_blank s).symm, trivial⟩⟩
  unfold dec
  have := drift_core_congr { c with driftThresh := θ } { c with driftThresh := θ } s (blank s) e rfl rfl
    (blank_blank s).symm (by simp [blank, hnd])
  cases h1 : (core { c with driftThresh := θ } s e).drift <;>
    cases h2 : (core { c with driftThresh := θ } (blank s) e).drift <;> simp_all [isD]

/-- the first drift EDDM reports is the first alarm of `sys c` at its `drift_thresh` -/
theorem first_drift_is_first_alarm (c : Cfg α) (xs : List Bool) :
    firstIdx (driftTrace (step c) (fun s => isD s.drift) init xs) = firstAlarm (sys c) c.driftThresh xs :=
  lag_first_drift_eq (step c) (fun s => isD s.drift) (blank init) (stat c) (dec c) c.driftThresh blank
    (fun _ => True) (fun s e _ hd => link c c.driftThresh s e hd) xs init trivial rfl

/-! ### the warning parameter (every carrier) -/

def WRel (s1 s2 : State α) : Prop := blank s1 = blank s2 ∧ (s1.drift = .drift ↔ s2.drift = .drift)

theorem blank_reset {s s' : State α} (hs : blank s = blank s') : blank (reset s) = blank (reset s') := by
  obtain ⟨t, n, d, ne, ic, dm, ds, mx, rc⟩ := s
  obtain ⟨t', n', d', ne', ic', dm', ds', mx', rc'⟩ := s'
  simp only [blank, State.mk.injEq, true_and, and_true] at hs
  simp_all [blank, reset]

theorem pre_wrel {s1 s2 : State α} (h : WRel s1 s2) :
    WRel (if s1.drift = .drift then reset s1 else s1) (if s2.drift = .drift then reset s2 else s2) := by
  obtain ⟨h1, h2⟩ := h
  by_cases hd : s1.drift = .drift
  · rw [if_pos hd, if_pos (h2.1 hd)]
    exact ⟨blank_reset h1, by simp [reset]⟩
  · rw [if_neg hd, if_neg (fun h => hd (h2.2 h))]
    exact ⟨h1, h2⟩

theorem step_wrel (c : Cfg α) (w1 w2 : α) (s1 s2 : State α) (e : Bool) (h : WRel s1 s2) :
    WRel (step { c with warningThresh := w1 } s1 e) (step { c with warningThresh := w2 } s2 e) := by
  obtain ⟨h1, h2⟩ := pre_wrel h
  exact ⟨blank_core_congr _ _ _ _ _ rfl h1, drift_core_congr _ _ _ _ _ rfl rfl h1 h2⟩

/-- **the warning parameter enters neither the statistics nor the drift decision** (every carrier,
so also the executed `Float` model): same statistics, drift at exactly the same positions. -/
theorem eddm_drift_ignores_warning (c : Cfg α) (w1 w2 : α) (xs : List Bool) :
    blank (run { c with warningThresh := w1 } xs) = blank (run { c with warningThresh := w2 } xs) ∧
    ((run { c with warningThresh := w1 } xs).drift = .drift ↔
      (run { c with warningThresh := w2 } xs).drift = .drift) :=
  foldl_rel _ _ WRel (fun a b x h => step_wrel c w1 w2 a b x h) xs init init ⟨rfl, Iff.rfl⟩

end carrier

section field
variable {K : Type} [Field K] [LinearOrder K] [IsStrictOrderedRing K] [HasSqrt K]

/-- a larger `drift_thresh` accepts every ratio a smaller one accepts (whatever `sqrt` is) -/
theorem dec_antitone (c : Cfg K) (loose strict : K) (hle : strict ≤ loose)
    (p : State K) (e : Bool) (h : dec c strict p e = true) : dec c loose p e = true := by
  unfold dec at *
  rw [isD_true, core_drift_iff] at *
  simp only at h ⊢
  by_cases hb : e = true ∧ ¬ p.nErrors + 1 < c.nThreshold
  · rw [if_pos hb] at h ⊢
    exact le_trans h hle
  · rw [if_neg hb] at h ⊢
    exact h

/-- **EDDM: a smaller `drift_thresh` never makes the first drift earlier** — for every configuration,
every pair `strict ≤ loose` and every history of prediction results; `sqrt` may be any function. -/
theorem eddm_first_drift_mono (c : Cfg K) (loose strict : K) (hle : strict ≤ loose) (xs : List Bool) :
    NoLater (firstIdx (driftTrace (step { c with driftThresh := loose }) (fun s => isD s.drift) init xs))
      (firstIdx (driftTrace (step { c with driftThresh := strict }) (fun s => isD s.drift) init xs)) :=
  lag_first_drift_mono _ _ (fun s => isD s.drift) (blank init) (stat c) (dec c) loose strict blank
    (fun _ => True) (fun _ => True)
    (fun s e _ hd => link c loose s e hd) (fun s e _ hd => link c strict s e hd)
    (fun _ _ _ => trivial) (fun p e _ h => dec_antitone c loose strict hle p e h)
    init trivial rfl trivial xs

/-! ### the warning parameter (ordered field) -/

def WRel' (s1 s2 : State K) : Prop := WRel s1 s2 ∧ (s1.drift = .warning → s2.drift = .warning)

theorem step_wrel' (c : Cfg K) (w1 w2 : K) (hle : w1 ≤ w2)
    (s1 s2 : State K) (e : Bool) (h : WRel' s1 s2) :
    WRel' (step { c with warningThresh := w1 } s1 e) (step { c with warningThresh := w2 } s2 e) := by
  obtain ⟨h0, hw⟩ := h
  refine ⟨step_wrel c w1 w2 s1 s2 e h0, ?_⟩
  have hp := pre_wrel h0
  unfold step
  generalize hp1 : (if s1.drift = .drift then reset s1 else s1) = p1 at hp ⊢
  generalize hp2 : (if s2.drift = .drift then reset s2 else s2) = p2 at hp ⊢
  have hpw : p1.drift = .warning → p2.drift = .warning := by
    subst hp1 hp2
    by_cases hd : s1.drift = .drift
    · rw [if_pos hd]; simp [reset]
    · rw [if_neg hd, if_neg (fun h => hd (h0.2.2 h))]; exact hw
  obtain ⟨f1, f2, f3, f4, f5, f6⟩ := blank_fields hp.1
  rw [core_warning_iff, core_warning_iff]
  simp only [ratio, nstd, nmean, ndist, f1, f2, f3, f4, f5, f6]
  by_cases hb : e = true ∧ ¬ p2.nErrors + 1 < c.nThreshold
  · rw [if_pos hb, if_pos hb]
    rintro ⟨g1, g2⟩
    exact ⟨g1, le_trans g2 hle⟩
  · rw [if_neg hb, if_neg hb]
    exact hpw

/-- **EDDM, warning clause.**  Two configurations that differ in `warning_thresh` only
(`w1 ≤ w2`: the second is looser) have the same statistics and the same drift flags after every
history, and wherever the first reports warning the second reports warning too. -/
theorem eddm_warning_only (c : Cfg K) (w1 w2 : K) (hle : w1 ≤ w2) (xs : List Bool) :
    blank (run { c with warningThresh := w1 } xs) = blank (run { c with warningThresh := w2 } xs) ∧
    ((run { c with warningThresh := w1 } xs).drift = .drift ↔
      (run { c with warningThresh := w2 } xs).drift = .drift) ∧
    ((run { c with warningThresh := w1 } xs).drift = .warning →
      (run { c with warningThresh := w2 } xs).drift = .warning) := by
  have := foldl_rel _ _ WRel' (fun a b x h => step_wrel' c w1 w2 hle a b x h) xs init init
    ⟨⟨rfl, Iff.rfl⟩, id⟩
  exact ⟨this.1.1, this.1.2, this.2⟩

end field
end EDDM


/-! ## STEPD — a larger drift critical value `zDrift` (= a smaller `alpha_drift`) is stricter

  The model tests `z > zcrit` with the critical values of `alpha_drift` / `alpha_warning` as
  configuration inputs (`Model/STEPD.lean`); "smaller alpha" is "larger critical value" because the
  normal quantile function is increasing — that step is the oracle hypothesis of DESIGN §7 C17. -/
namespace STEPD
open MV.STEPD

/-- the statistics of a state: everything but `drift_state` and `retraining_recs` -/
def blank (s : State) : State := { s with drift := .none, recs := Recs.empty }

theorem blank_blank (s : State) : blank (blank s) = blank s := rfl

theorem blank_push {s s' : State} (w : Nat) (ok : Bool) (hs : blank s = blank s') :
    blank (push w s ok) = blank (push w s' ok) := by
  obtain ⟨t, n, d, si, rp, wi, rc⟩ := s
  obtain ⟨t', n', d', si', rp', wi', rc'⟩ := s'
  simp only [blank, State.mk.injEq, true_and, and_true] at hs
  obtain ⟨rfl, rfl, rfl, rfl, rfl⟩ := hs
  simp only [push, blank]
  split
  · split <;> rfl
  · rfl

theorem push_drift (w : Nat) (s : State) (ok : Bool) : (push w s ok).drift = s.drift := by
  unfold push
  grind

theorem blank_reset {s s' : State} (hs : blank s = blank s') : blank (reset s) = blank (reset s') := by
  obtain ⟨t, n, d, si, rp, wi, rc⟩ := s
  obtain ⟨t', n', d', si', rp', wi', rc'⟩ := s'
  simp only [blank, State.mk.injEq, true_and, and_true] at hs
  simp_all [blank, reset]

section carrier
variable {α : Type} [Add α] [Sub α] [Mul α] [Div α] [Neg α] [LT α] [DecidableLT α] [NatCast α] [HasSqrt α]

def stat (c : Cfg α) (p : State) (e : Bool) : State := blank (core c p e)

/-- the drift decision of the update with `e` on the statistics `p`, under `zDrift = θ` -/
def dec (c : Cfg α) (θ : α) (p : State) (e : Bool) : Bool :=
  isD (core { c with zDrift := θ } p e).drift

def sys (c : Cfg α) : Sys α (State × Option Bool) Bool := lag (blank init) (stat c) (dec c)

/-- "the recent accuracy is below the past accuracy", and the test statistic, on a pushed state -/
def decreased (s1 : State) : Prop := (recentAcc s1 : α) < pastAcc s1
def zOf (w : Nat) (s1 : State) : α := statistic w s1

theorem decide3_drift_iff (c : Cfg α) (s1 : State) :
    decide3 c s1 = .drift ↔ decreased (α := α) s1 ∧ c.zDrift < zOf c.window s1 := by
  simp only [decide3, decreased, zOf, decide_eq_true_eq]
  split
  · simp_all
  · split <;> simp_all

theorem decide3_warning_iff (c : Cfg α) (s1 : State) :
    decide3 c s1 = .warning ↔
      ¬ (decreased (α := α) s1 ∧ c.zDrift < zOf c.window s1) ∧
      (decreased (α := α) s1 ∧ c.zWarn < zOf c.window s1) := by
  simp only [decide3, decreased, zOf, decide_eq_true_eq]
  split
  · simp_all
  · split <;> simp_all

/-- the accuracies and the statistic read the counters and the window only -/
theorem decreased_blank (s1 : State) : decreased (α := α) (blank s1) ↔ decreased (α := α) s1 := Iff.rfl
theorem zOf_blank (w : Nat) (s1 : State) : (zOf w (blank s1) : α) = zOf w s1 := rfl

theorem core_drift_iff (c : Cfg α) (p : State) (e : Bool) :
    (core c p e).drift = .drift ↔
      if 2 * c.window ≤ (push c.window p (!e)).since then
        decreased (α := α) (push c.window p (!e)) ∧ c.zDrift < zOf c.window (push c.window p (!e))
      else p.drift = .drift := by
  rw [← decide3_drift_iff]
  simp only [core]
  split
  · generalize decide3 c (push c.window p (!e)) = st
    cases st <;> simp
  · rw [push_drift]

theorem core_warning_iff (c : Cfg α) (p : State) (e : Bool) :
    (core c p e).drift = .warning ↔
      if 2 * c.window ≤ (push c.window p (!e)).since then
        ¬ (decreased (α := α) (push c.window p (!e)) ∧ c.zDrift < zOf c.window (push c.window p (!e))) ∧
        (decreased (α := α) (push c.window p (!e)) ∧ c.zWarn < zOf c.window (push c.window p (!e)))
      else p.drift = .warning := by
  rw [← decide3_warning_iff]
  simp only [core]
  split
  · generalize decide3 c (push c.window p (!e)) = st
    cases st <;> simp
  · rw [push_drift]

/-- an update leaves the statistics of the pushed state -/
theorem blank_core (c : Cfg α) (s : State) (e : Bool) :
    blank (core c s e) = blank (push c.window s (!e)) := by
  simp only [core]
  split
  · generalize decide3 c (push c.window s (!e)) = st
    cases st <;> rfl
  · rfl

theorem blank_core_congr (c c' : Cfg α) (s s' : State) (e : Bool) (hw : c.window = c'.window)
    (hs : blank s = blank s') : blank (core c s e) = blank (core c' s' e) := by
  rw [blank_core, blank_core, ← hw]
  exact blank_push c.window (!e) hs

theorem pushed_congr {s s' : State} (w : Nat) (ok : Bool) (hs : blank s = blank s') :
    (push w s ok).since = (push w s' ok).since ∧
    (decreased (α := α) (push w s ok) ↔ decreased (α := α) (push w s' ok)) ∧
    (zOf w (push w s ok) : α) = zOf w (push w s' ok) := by
  have hp := blank_push w ok hs
  refine ⟨by have := congrArg State.since hp; exact this, ?_, ?_⟩
  · rw [← decreased_blank, hp, decreased_blank]
  · rw [← zOf_blank, hp, zOf_blank]

theorem drift_core_congr (c c' : Cfg α) (s s' : State) (e : Bool) (hw : c.window = c'.window)
    (hd : c.zDrift = c'.zDrift) (hs : blank s = blank s')
    (hdd : s.drift = .drift ↔ s'.drift = .drift) :
    (core c s e).drift = .drift ↔ (core c' s' e).drift = .drift := by
  obtain ⟨h1, h2, h3⟩ := pushed_congr (α := α) c.window (!e) hs
  rw [core_drift_iff, core_drift_iff]
  simp only [← hw, ← hd, h1, h2, h3, hdd]

/-- **the statistics run does not read the drift threshold** -/
theorem stat_threshold_free (c : Cfg α) (θ : α) : stat { c with zDrift := θ } = stat c := by
  funext p e
  exact blank_core_congr _ _ _ _ _ rfl rfl

theorem link (c : Cfg α) (θ : α) (s : State) (e : Bool) (hd : isD s.drift = false) :
    isD (step { c with zDrift := θ } s e).drift = dec c θ (blank s) e ∧
    (isD (step { c with zDrift := θ } s e).drift = false →
      blank (step { c with zDrift := θ } s e) = stat c (blank s) e ∧ True) := by
  have hnd : s.drift ≠ .drift := isD_false.1 hd
  have hstep : step { c with zDrift := θ } s e = core { c with zDrift := θ } s e := by
    simp [step, hnd]
  rw [hstep]
  refine ⟨?_, fun _ => ⟨blank_core_congr _ _ _ _ _ rfl (blank_blank s).symm, trivial⟩⟩
  unfold dec
  have := drift_core_congr { c with zDrift := θ } { c with zDrift := θ } s (blank s) e rfl rfl
    (blank_blank s).symm (by simp [blank, hnd])
  cases h1 : (core { c with zDrift := θ } s e).drift <;>
    cases h2 : (core { c with zDrift := θ } (blank s) e).drift <;> simp_all [isD]

/-- the first drift STEPD reports is the first alarm of `sys c` at its `zDrift` -/
theorem first_drift_is_first_alarm (c : Cfg α) (xs : List Bool) :
    firstIdx (driftTrace (step c) (fun s => isD s.drift) init xs) = firstAlarm (sys c) c.zDrift xs :=
  lag_first_drift_eq (step c) (fun s => isD s.drift) (blank init) (stat c) (dec c) c.zDrift blank
    (fun _ => True) (fun s e _ hd => link c c.zDrift s e hd) xs init trivial rfl

/-! ### the warning parameter (every carrier) -/

def WRel (s1 s2 : State) : Prop := blank s1 = blank s2 ∧ (s1.drift = .drift ↔ s2.drift = .drift)

theorem pre_wrel {s1 s2 : State} (h : WRel s1 s2) :
    WRel (if s1.drift = .drift then reset s1 else s1) (if s2.drift = .drift then reset s2 else s2) := by
  obtain ⟨h1, h2⟩ := h
  by_cases hd : s1.drift = .drift
  · rw [if_pos hd, if_pos (h2.1 hd)]
    exact ⟨blank_reset h1, by simp [reset]⟩
  · rw [if_neg hd, if_neg (fun h => hd (h2.2 h))]
    exact ⟨h1, h2⟩

theorem step_wrel (c : Cfg α) (w1 w2 : α) (s1 s2 : State) (e : Bool) (h : WRel s1 s2) :
    WRel (step { c with zWarn := w1 } s1 e) (step { c with zWarn := w2 } s2 e) := by
  obtain ⟨h1, h2⟩ := pre_wrel h
  exact ⟨blank_core_congr _ _ _ _ _ rfl h1, drift_core_congr _ _ _ _ _ rfl rfl h1 h2⟩

/-- **the warning parameter enters neither the statistics nor the drift decision** (every carrier,
so also the executed `Float` model): same counters and window, drift at exactly the same positions. -/
theorem stepd_drift_ignores_warning (c : Cfg α) (w1 w2 : α) (xs : List Bool) :
    blank (run { c with zWarn := w1 } xs) = blank (run { c with zWarn := w2 } xs) ∧
    ((run { c with zWarn := w1 } xs).drift = .drift ↔ (run { c with zWarn := w2 } xs).drift = .drift) :=
  foldl_rel _ _ WRel (fun a b x h => step_wrel c w1 w2 a b x h) xs init init ⟨rfl, Iff.rfl⟩

end carrier

section field
variable {K : Type} [Field K] [LinearOrder K] [IsStrictOrderedRing K] [HasSqrt K]

/-- a statistic above the larger critical value is above the smaller one (whatever `sqrt` is) -/
theorem dec_antitone (c : Cfg K) (loose strict : K) (hle : loose ≤ strict)
    (p : State) (e : Bool) (h : dec c strict p e = true) : dec c loose p e = true := by
  unfold dec at *
  rw [isD_true, core_drift_iff] at *
  simp only at h ⊢
  by_cases hb : 2 * c.window ≤ (push c.window p (!e)).since
  · rw [if_pos hb] at h ⊢
    exact ⟨h.1, lt_of_le_of_lt hle h.2⟩
  · rw [if_neg hb] at h ⊢
    exact h

/-- **STEPD: a larger drift critical value (a smaller `alpha_drift`) never makes the first drift
earlier** — for every window size, every pair `loose ≤ strict` of critical values and every history
of prediction results; `sqrt` may be any function. -/
theorem stepd_first_drift_mono (c : Cfg K) (loose strict : K) (hle : loose ≤ strict) (xs : List Bool) :
    NoLater (firstIdx (driftTrace (step { c with zDrift := loose }) (fun s => isD s.drift) init xs))
      (firstIdx (driftTrace (step { c with zDrift := strict }) (fun s => isD s.drift) init xs)) :=
  lag_first_drift_mono _ _ (fun s => isD s.drift) (blank init) (stat c) (dec c) loose strict blank
    (fun _ => True) (fun _ => True)
    (fun s e _ hd => link c loose s e hd) (fun s e _ hd => link c strict s e hd)
    (fun _ _ _ => trivial) (fun p e _ h => dec_antitone c loose strict hle p e h)
    init trivial rfl trivial xs

/-! ### the warning parameter (ordered field) -/

def WRel' (s1 s2 : State) : Prop := WRel s1 s2 ∧ (s1.drift = .warning → s2.drift = .warning)

theorem step_wrel' (c : Cfg K) (w1 w2 : K) (hle : w2 ≤ w1)
    (s1 s2 : State) (e : Bool) (h : WRel' s1 s2) :
    WRel' (step { c with zWarn := w1 } s1 e) (step { c with zWarn := w2 } s2 e) := by
  obtain ⟨h0, hw⟩ := h
  refine ⟨step_wrel c w1 w2 s1 s2 e h0, ?_⟩
  have hp := pre_wrel h0
  unfold step
  generalize hp1 : (if s1.drift = .drift then reset s1 else s1) = p1 at hp ⊢
  generalize hp2 : (if s2.drift = .drift then reset s2 else s2) = p2 at hp ⊢
  have hpw : p1.drift = .warning → p2.drift = .warning := by
    subst hp1 hp2
    by_cases hd : s1.drift = .drift
    · rw [if_pos hd]; simp [reset]
    · rw [if_neg hd, if_neg (fun h => hd (h0.2.2 h))]; exact hw
  obtain ⟨f1, f2, f3⟩ := pushed_congr (α := K) c.window (!e) hp.1
  rw [core_warning_iff, core_warning_iff]
  simp only [f1, f2, f3]
  by_cases hb : 2 * c.window ≤ (push c.window p2 (!e)).since
  · rw [if_pos hb, if_pos hb]
    rintro ⟨g1, g2, g3⟩
    exact ⟨g1, g2, lt_of_le_of_lt hle g3⟩
  · rw [if_neg hb, if_neg hb]
    exact hpw

/-- **STEPD, warning clause.**  Two configurations that differ in the warning critical value only
(`w2 ≤ w1`: the second is looser, i.e. has the larger `alpha_warning`) have the same statistics and
the same drift flags after every history, and wherever the first reports warning the second reports
warning too. -/
theorem stepd_warning_only (c : Cfg K) (w1 w2 : K) (hle : w2 ≤ w1) (xs : List Bool) :
    blank (run { c with zWarn := w1 } xs) = blank (run { c with zWarn := w2 } xs) ∧
    ((run { c with zWarn := w1 } xs).drift = .drift ↔ (run { c with zWarn := w2 } xs).drift = .drift) ∧
    ((run { c with zWarn := w1 } xs).drift = .warning → (run { c with zWarn := w2 } xs).drift = .warning) := by
  have := foldl_rel _ _ WRel' (fun a b x h => step_wrel' c w1 w2 hle a b x h) xs init init
    ⟨⟨rfl, Iff.rfl⟩, id⟩
  exact ⟨this.1.1, this.1.2, this.2⟩

end field
end STEPD


/-! ## NNDVI — a larger `z = norm.ppf(1 - alpha)` (= a smaller `alpha`) is stricter

  One input of the model is what one `update` consumes: the test batch, the k-NN graph of the pooled
  points (oracle) and the `sampling_times` permutations drawn.  Before the first drift the reference
  batch is the one set initially, so the statistics (counters, reference) evolve without the
  threshold `z * std + mean` (always defined); the antitone decision needs `std ≥ 0`, i.e. the
  hypothesis `∀ x, 0 ≤ sqrt x` on the abstract square root (as for DDM). -/
namespace NNDVI
open MV.NNSP MV.NNDVI

section carrier
variable {α : Type} [LT α] [DecidableLT α] [Add α] [Sub α] [Mul α] [Div α] [Neg α] [NatCast α] [HasSqrt α]

/-- what one `update` consumes: batch, k-NN adjacency matrix, permutations -/
abbrev In (α : Type) := List (Row α) × List (List Bool) × List (List Nat)

def blank (s : State α) : State α := { s with drift := .none }

def stepS (c : Cfg α) (s : State α) (i : In α) : State α := (step c s i.1 i.2.1 i.2.2).1

/-- the statistics update before the first drift: the counters advance, the reference stays.
It does not even take the configuration. -/
def stat (p : State α) (_ : In α) : State α := { p with total := p.total + 1, since := p.since + 1 }

/-- the drift decision of the update with `i` on the statistics `p`, under `z = θ` -/
def dec (c : Cfg α) (θ : α) (p : State α) (i : In α) : Bool := isD (stepS { c with z := θ } p i).drift

def sys (c : Cfg α) (p0 : State α) : Sys α (State α × Option (In α)) (In α) := lag (blank p0) stat (dec c)

/-- the drift decision of one update, spelled out -/
theorem step_drift_iff (c : Cfg α) (s : State α) (X : List (Row α)) (adj : List (List Bool))
    (perms : List (List Nat)) :
    (step c s X adj perms).1.drift = .drift ↔
      ∃ ref b, s.reference = some ref ∧ build c.k ref X adj = some b ∧
        exceeds (nnpsDistance b.nnps b.v1 b.v2)
          (threshold c.z (perms.map (shuffleDist b.nnps b.v1))) = true := by
  have h0 : (if s.drift = .drift then reset s else s).drift ≠ .drift := by split <;> simp_all [reset]
  have hr : (if s.drift = .drift then reset s else s).reference = s.reference := by split <;> rfl
  unfold step
  simp only
  generalize (if s.drift = .drift then reset s else s) = s0 at *
  rw [← hr]
  cases href : s0.reference with
  | none => simp [h0]
  | some ref =>
    simp only [Option.some.injEq, exists_and_left, exists_eq_left']
    cases hb : build c.k ref X adj with
    | none => simp [h0]
    | some b =>
      simp only [Option.some.injEq, exists_eq_left']
      split <;> simp_all

/-- an update that does not report drift advances the counters and keeps the reference -/
theorem step_quiet (c : Cfg α) (s : State α) (X : List (Row α)) (adj : List (List Bool))
    (perms : List (List Nat)) (hs : s.drift ≠ .drift) (h : (step c s X adj perms).1.drift ≠ .drift) :
    blank (step c s X adj perms).1 = { blank s with total := s.total + 1, since := s.since + 1 } := by
  obtain ⟨t, n, d, r⟩ := s
  simp only at hs
  revert h
  unfold step
  simp only [if_neg hs]
  cases r with
  | none => intro _; rfl
  | some ref =>
    simp only
    cases hb : build c.k ref X adj with
    | none => intro _; rfl
    | some b =>
      simp only
      split
      · intro h; exact absurd rfl h
      · intro _; rfl

theorem link (c : Cfg α) (θ : α) (s : State α) (i : In α) (hd : isD s.drift = false) :
    isD (stepS { c with z := θ } s i).drift = dec c θ (blank s) i ∧
    (isD (stepS { c with z := θ } s i).drift = false →
      blank (stepS { c with z := θ } s i) = stat (blank s) i ∧ True) := by
  have hnd : s.drift ≠ .drift := isD_false.1 hd
  refine ⟨?_, fun h => ⟨step_quiet _ s _ _ _ hnd (isD_false.1 h), trivial⟩⟩
  unfold dec stepS
  have e1 := step_drift_iff { c with z := θ } s i.1 i.2.1 i.2.2
  have e2 := step_drift_iff { c with z := θ } (blank s) i.1 i.2.1 i.2.2
  have : (blank s).reference = s.reference := rfl
  rw [this, ← e1] at e2
  cases h1 : (step { c with z := θ } s i.1 i.2.1 i.2.2).1.drift <;>
    cases h2 : (step { c with z := θ } (blank s) i.1 i.2.1 i.2.2).1.drift <;> simp_all [isD]

/-- the first drift NNDVI reports after the state `s` (e.g. `setReference init ref`) is the first
alarm of the system at its `z` -/
theorem first_drift_is_first_alarm (c : Cfg α) (s : State α) (hd : s.drift ≠ .drift) (xs : List (In α)) :
    firstIdx (driftTrace (stepS c) (fun s => isD s.drift) s xs)
      = firstIdx (decisions (sys c s) c.z (blank s, none) xs) :=
  lag_first_drift_eq (stepS c) (fun s => isD s.drift) (blank s) stat (dec c) c.z blank
    (fun _ => True) (fun s i _ hd => link c c.z s i hd) xs s trivial (isD_false.2 hd)

end carrier

section field
variable {K : Type} [Field K] [LinearOrder K] [IsStrictOrderedRing K] [HasSqrt K]

theorem stdPop_nonneg (hsqrt : ∀ x : K, 0 ≤ sqrt x) (ds : List K) : 0 ≤ stdPop ds := hsqrt _

/-- `d > z * std + mean` with `std ≥ 0`: a larger `z` is a larger bound -/
theorem exceeds_antitone (hsqrt : ∀ x : K, 0 ≤ sqrt x) (loose strict : K) (hle : loose ≤ strict) (d : K)
    (ds : List K) (h : exceeds d (threshold strict ds) = true) : exceeds d (threshold loose ds) = true := by
  simp only [exceeds, threshold] at h ⊢
  have h' := of_decide_eq_true h
  have := mul_le_mul_of_nonneg_right hle (stdPop_nonneg hsqrt ds)
  exact decide_eq_true (by linarith)

theorem dec_antitone (hsqrt : ∀ x : K, 0 ≤ sqrt x) (c : Cfg K) (loose strict : K) (hle : loose ≤ strict)
    (p : State K) (i : In K) (h : dec c strict p i = true) : dec c loose p i = true := by
  unfold dec stepS at *
  rw [isD_true, step_drift_iff] at *
  obtain ⟨ref, b, h1, h2, h3⟩ := h
  exact ⟨ref, b, h1, h2, exceeds_antitone hsqrt loose strict hle _ _ h3⟩

/-- **NNDVI: a larger `z` (a smaller `alpha`) never makes the first drift earlier** — from every
state that is not in drift (in particular after `set_reference`), for every `k`, every pair
`loose ≤ strict` and every sequence of batches, k-NN graphs and drawn permutations (the same draws
on both sides: the property's seed schedule); `sqrt` may be any function with non-negative values. -/
theorem nndvi_first_drift_mono (hsqrt : ∀ x : K, 0 ≤ sqrt x) (c : Cfg K) (loose strict : K) (hle : loose ≤ strict)
    (s : State K) (hd : s.drift ≠ .drift) (xs : List (In K)) :
    NoLater (firstIdx (driftTrace (stepS { c with z := loose }) (fun s => isD s.drift) s xs))
      (firstIdx (driftTrace (stepS { c with z := strict }) (fun s => isD s.drift) s xs)) :=
  lag_first_drift_mono _ _ (fun s => isD s.drift) (blank s) stat (dec c) loose strict blank
    (fun _ => True) (fun _ => True)
    (fun s i _ hd => link c loose s i hd) (fun s i _ hd => link c strict s i hd)
    (fun _ _ _ => trivial) (fun p i _ h => dec_antitone hsqrt c loose strict hle p i h)
    s trivial (isD_false.2 hd) trivial xs

end field
end NNDVI


/-! ## ADWIN — a smaller `delta` is stricter (over `ℝ`)

  ADWIN keeps its window across drifts, but C17 is about the *first* drift: until then no bucket
  has been dropped, the window is the whole history, and an update is `afterAdd` (add the sample,
  compress) — which reads `max_buckets` only.  The decision of an update is "the check is scheduled
  and a scan of the window after the addition finds a cut" (`Props/C03.lean` `step_drift_iff`); a
  scan that finds a cut for the stricter `delta` finds one for the looser (`checkEps_mono_delta`,
  which needs a window of at least two samples — guaranteed by `subwindow_size_thresh ≥ 1` at any
  admissible split — and a non-negative running variance — guaranteed by the exact-statistics
  invariant `FInv`).  Domain: `1 ≤ subwindow_size_thresh`, `0 < delta`. -/
namespace Adwin
open MV.Adwin

section real
attribute [local instance] MV.Adwin.realHasSqrt MV.Adwin.realHasLogExp

/-- the threshold-free statistics update: add the sample, compress the buckets -/
noncomputable def stat (c : Cfg ℝ) (p : State ℝ) (x : ℝ) : State ℝ := afterAdd c p x

/-- the drift decision of the update with `x` on the statistics `p`, under `delta = δ` -/
noncomputable def dec (c : Cfg ℝ) (δ : ℝ) (p : State ℝ) (x : ℝ) : Bool :=
  scheduled c (afterAdd c p x) && hit { c with delta := δ } (afterAdd c p x)

noncomputable def sys (c : Cfg ℝ) : Sys ℝ (State ℝ × Option ℝ) ℝ := lag init (stat c) (dec c)

/-- **the statistics run does not read `delta`** (nor anything but `max_buckets`) -/
theorem stat_threshold_free (c : Cfg ℝ) (δ : ℝ) : stat { c with delta := δ } = stat c := rfl

/-- the detector states met before the first drift -/
def Quiet (s : State ℝ) : Prop := SInv s ∧ s.drift = .none

theorem sinv_afterAdd (c : Cfg ℝ) (s : State ℝ) (hs : SInv s) (x : ℝ) :
    SInv (afterAdd c s x) ∧ (afterAdd c s x).drift = .none := by
  obtain ⟨a1, a2, a3, a4, a5, _⟩ := afterAdd_spec c s hs x
  exact ⟨{ shape := a1, le_total := by rw [a2, a3]; have := hs.le_total; omega,
           recs := fun _ => a5, nowarn := by rw [a4]; simp }, a4⟩

theorem link (c : Cfg ℝ) (hsub : 1 ≤ c.subThresh) (δ : ℝ) (s : State ℝ) (x : ℝ) (hq : Quiet s) :
    isD (step { c with delta := δ } s x).drift = dec c δ s x ∧
    (isD (step { c with delta := δ } s x).drift = false →
      step { c with delta := δ } s x = stat c s x ∧ Quiet (step { c with delta := δ } s x)) := by
  obtain ⟨hs, _⟩ := hq
  have hiff := step_drift_iff { c with delta := δ } hsub s hs x
  have hsch : scheduled { c with delta := δ } (afterAdd { c with delta := δ } s x)
      = scheduled c (afterAdd c s x) := rfl
  have haa : afterAdd { c with delta := δ } s x = afterAdd c s x := rfl
  rw [hsch, haa] at hiff
  refine ⟨?_, ?_⟩
  · unfold dec
    cases h1 : (step { c with delta := δ } s x).drift <;>
      cases h2 : scheduled c (afterAdd c s x) <;>
      cases h3 : hit { c with delta := δ } (afterAdd c s x) <;> simp_all [isD]
  · intro hnd
    obtain ⟨hinv, _, k, _, _, h0, hpos, _, _⟩ := step_spec { c with delta := δ } hsub s hs x
    rcases Nat.eq_zero_or_pos k with hk | hk
    · have e : step { c with delta := δ } s x = afterAdd c s x := h0 hk
      refine ⟨e, ?_⟩
      rw [e]
      exact sinv_afterAdd c s hs x
    · have := (hpos hk).2.2.1
      rw [this] at hnd
      simp [isD] at hnd

/-- the first drift ADWIN reports is the first alarm of `sys c` at its `delta` -/
theorem first_drift_is_first_alarm (c : Cfg ℝ) (hsub : 1 ≤ c.subThresh) (xs : List ℝ) :
    firstIdx (driftTrace (step c) (fun s => isD s.drift) init xs) = firstAlarm (sys c) c.delta xs :=
  lag_first_drift_eq (step c) (fun s => isD s.drift) init (stat c) (dec c) c.delta id Quiet
    (fun s x hq _ => link c hsub c.delta s x hq) xs init ⟨sinv_init, rfl⟩ rfl

/-- what the statistics run maintains: the structural invariant and the exact statistics of some
window (before the first drift: of the whole history) -/
def Exact (p : State ℝ) : Prop := SInv p ∧ ∃ win, FInv p win

theorem exact_stat (c : Cfg ℝ) (p : State ℝ) (x : ℝ) (h : Exact p) : Exact (stat c p x) := by
  obtain ⟨hs, win, hf⟩ := h
  exact ⟨(sinv_afterAdd c p hs x).1, win ++ [x], finv_afterAdd c p win hf x⟩

theorem var_nonneg_of_finv (s : State ℝ) (win : List ℝ) (hf : FInv s win) : 0 ≤ s.var := by
  have h := dev_eq win
  rw [hf.var, ← hf.len, ← h]
  unfold dev
  apply List.sum_nonneg
  intro y hy
  obtain ⟨z, _, rfl⟩ := List.mem_map.1 hy
  exact mul_self_nonneg _

/-- **one-step antitonicity of the cut decision in `delta`**: on a state with exact statistics, a
scan that finds a cut under the stricter `d1` finds one under the looser `d2 ≥ d1` -/
theorem hit_mono_delta (c : Cfg ℝ) (hsub : 1 ≤ c.subThresh) (d1 d2 : ℝ) (h1 : 0 < d1) (h12 : d1 ≤ d2)
    (s : State ℝ) (hv : 0 ≤ s.var) (h : hit { c with delta := d1 } s = true) :
    hit { c with delta := d2 } s = true := by
  rw [hit_iff] at h ⊢
  obtain ⟨k, hk, g1, g2, g3, g4⟩ := h
  refine ⟨k, hk, g1, g2, g3, ?_⟩
  have hW : 2 ≤ s.W := by
    have e2 : c.subThresh ≤ MV.Adwin.sizeOf ((flat s.rows).take (k + 1)) := g2
    have e3 : c.subThresh ≤ s.W - MV.Adwin.sizeOf ((flat s.rows).take (k + 1)) := g3
    omega
  exact checkEps_mono_delta c d1 d2 h1 h12 s hW hv _ _ _ _ g4

theorem dec_antitone (c : Cfg ℝ) (hsub : 1 ≤ c.subThresh) (strict loose : ℝ) (h0 : 0 < strict)
    (hle : strict ≤ loose) (p : State ℝ) (x : ℝ) (hp : Exact p) (h : dec c strict p x = true) :
    dec c loose p x = true := by
  unfold dec at *
  rw [Bool.and_eq_true] at h ⊢
  obtain ⟨_, win, hf⟩ := exact_stat c p x hp
  exact ⟨h.1, hit_mono_delta c hsub strict loose h0 hle _ (var_nonneg_of_finv _ win hf) h.2⟩

/-- **ADWIN: a smaller `delta` never makes the first drift earlier** — for every configuration with
`subwindow_size_thresh ≥ 1` (both bounds, any `max_buckets`, check schedule and window threshold),
every pair `0 < strict ≤ loose` and every real-valued history. -/
theorem adwin_first_drift_mono (c : Cfg ℝ) (hsub : 1 ≤ c.subThresh) (strict loose : ℝ) (h0 : 0 < strict)
    (hle : strict ≤ loose) (xs : List ℝ) :
    NoLater (firstIdx (driftTrace (step { c with delta := loose }) (fun s => isD s.drift) init xs))
      (firstIdx (driftTrace (step { c with delta := strict }) (fun s => isD s.drift) init xs)) :=
  lag_first_drift_mono _ _ (fun s => isD s.drift) init (stat c) (dec c) loose strict id Quiet Exact
    (fun s x hq _ => link c hsub loose s x hq) (fun s x hq _ => link c hsub strict s x hq)
    (fun p x h => exact_stat c p x h) (fun p x hp h => dec_antitone c hsub strict loose h0 hle p x hp h)
    init ⟨sinv_init, rfl⟩ rfl ⟨sinv_init, [], finv_init⟩ xs

/-- the same for ADWINAccuracy (ADWIN on the agreement indicators, `Props/C03.lean`
`adwinAcc_eq_adwin`), whatever the label type -/
theorem adwinAcc_first_drift_mono {β : Type} [DecidableEq β] (c : Cfg ℝ) (hsub : 1 ≤ c.subThresh)
    (strict loose : ℝ) (h0 : 0 < strict) (hle : strict ≤ loose) (ys : List (β × β)) :
    NoLater
      (firstIdx (driftTrace (AdwinAcc.step { c with delta := loose }) (fun s => isD s.drift) init ys))
      (firstIdx (driftTrace (AdwinAcc.step { c with delta := strict }) (fun s => isD s.drift) init ys)) := by
  have hmap : ∀ (c' : Cfg ℝ) (ys : List (β × β)) (s : State ℝ),
      driftTrace (AdwinAcc.step c') (fun s => isD s.drift) s ys
        = driftTrace (step c') (fun s => isD s.drift) s (ys.map fun y => AdwinAcc.indicator y.1 y.2) := by
    intro c' ys
    induction ys with
    | nil => intro s; rfl
    | cons y ys ih => intro s; simp only [driftTrace, List.map_cons, AdwinAcc.step, ih]
  rw [hmap, hmap]
  exact adwin_first_drift_mono c hsub strict loose h0 hle _

end real
end Adwin


/-! ## Non-vacuity: concrete configurations and histories over `ℚ` (with a non-negative stand-in for
    `sqrt`) on which the looser setting alarms strictly earlier, and on which the looser warning
    parameter warns strictly more often -/
namespace Examples
local instance exSqrt : HasSqrt ℚ := ⟨fun x => if x < 0 then 0 else x⟩

theorem exSqrt_nonneg : ∀ x : ℚ, 0 ≤ sqrt x := by
  intro x
  show 0 ≤ (if x < 0 then 0 else x)
  split
  · exact le_refl _
  · rename_i h; exact not_lt.1 h

/-- first reported drift of a run -/
def fd {σ ι : Type} (step : σ → ι → σ) (drift : σ → Drift) (s : σ) (xs : List ι) : Option Nat :=
  firstIdx (driftTrace step (fun s => isD (drift s)) s xs)

/-! CUSUM, known target 0 and sd 1, burn-in 1, one-sided: `s_h = 1, 2, 3, …` on the stream 1, 1, 1, … -/
def cc : MV.Cusum.Cfg ℚ :=
  { target0 := some 0, sd0 := some 1, burnIn := 1, delta := 0, threshold := 0, dir := .positive }
example : fd (Cusum.stepS { cc with threshold := 1 }) (·.drift) (MV.Cusum.init cc) [1, 1, 1, 1, 1] = some 1 ∧
    fd (Cusum.stepS { cc with threshold := 3 }) (·.drift) (MV.Cusum.init cc) [1, 1, 1, 1, 1] = some 3 := by
  decide +kernel
example : NoLater (some 1) (some 3) := by show (1 : Nat) ≤ 3; decide
example (l : List ℚ) : True := by
  have _h := Cusum.cusum_first_drift_mono cc 1 3 (by norm_num) l
  trivial

/-! DDM -/
def cd : MV.DDM.Cfg ℚ := ⟨2, 1 / 2, 2⟩
def xd : List Bool := [true, false, false, false, true, true, true, true]
example : fd (MV.DDM.step { cd with driftScale := 1 }) (·.drift) MV.DDM.init xd = some 1 ∧
    fd (MV.DDM.step { cd with driftScale := 2 }) (·.drift) MV.DDM.init xd = some 4 ∧
    fd (MV.DDM.step { cd with driftScale := 3 }) (·.drift) MV.DDM.init xd = some 5 := by decide +kernel
example (l : List Bool) : True := by
  have _h := DDM.ddm_first_drift_mono exSqrt_nonneg cd 2 3 (by norm_num) l
  trivial
/-- the looser `warning_scale = 1/2` warns after 2, 3, 4 updates, the stricter `3/2` does not;
    both report drift after 5 and after 7 updates -/
example : (MV.DDM.run { cd with warningScale := 1 / 2 } (xd.take 3)).drift = .warning ∧
    (MV.DDM.run { cd with warningScale := 3 / 2 } (xd.take 3)).drift = .none ∧
    (MV.DDM.run { cd with warningScale := 1 / 2 } (xd.take 5)).drift = .drift ∧
    (MV.DDM.run { cd with warningScale := 3 / 2 } (xd.take 5)).drift = .drift ∧
    (MV.DDM.run { cd with warningScale := 1 / 2 } (xd.take 7)).drift = .drift := by decide +kernel
example (l : List Bool) : True := by
  have _h := DDM.ddm_warning_only exSqrt_nonneg cd (3 / 2) (1 / 2) (by norm_num) l
  trivial

/-! EDDM -/
def ce : MV.EDDM.Cfg ℚ := ⟨2, 9 / 10, 1 / 2⟩
def xe : List Bool := [false, false, false, true, false, false, true, true, true, true, true, true, true]
example : fd (MV.EDDM.step { ce with driftThresh := 7 / 10 }) (·.drift) MV.EDDM.init xe = some 9 ∧
    fd (MV.EDDM.step { ce with driftThresh := 1 / 2 }) (·.drift) MV.EDDM.init xe = some 10 ∧
    fd (MV.EDDM.step { ce with driftThresh := 1 / 4 }) (·.drift) MV.EDDM.init xe = none := by decide +kernel
example (l : List Bool) : True := by
  have _h := EDDM.eddm_first_drift_mono ce (7 / 10) (1 / 2) (by norm_num) l
  trivial
/-- the looser `warning_thresh = 9/10` already warns after 9 updates, the stricter `6/10` only after 10 -/
example : (MV.EDDM.run { ce with warningThresh := 9 / 10 } (xe.take 9)).drift = .warning ∧
    (MV.EDDM.run { ce with warningThresh := 6 / 10 } (xe.take 9)).drift = .none ∧
    (MV.EDDM.run { ce with warningThresh := 6 / 10 } (xe.take 10)).drift = .warning ∧
    (MV.EDDM.run { ce with warningThresh := 9 / 10 } (xe.take 11)).drift = .drift ∧
    (MV.EDDM.run { ce with warningThresh := 6 / 10 } (xe.take 11)).drift = .drift := by decide +kernel
example (l : List Bool) : True := by
  have _h := EDDM.eddm_warning_only ce (6 / 10) (9 / 10) (by norm_num) l
  trivial

/-! STEPD -/
def cs : MV.STEPD.Cfg ℚ := ⟨2, 1 / 4, 3 / 2⟩
def xs : List Bool := [false, false, false, false, false, true, true]
example : fd (MV.STEPD.step { cs with zDrift := 1 / 2 }) (·.drift) MV.STEPD.init xs = some 5 ∧
    fd (MV.STEPD.step { cs with zDrift := 3 / 2 }) (·.drift) MV.STEPD.init xs = some 6 ∧
    fd (MV.STEPD.step { cs with zDrift := 10 }) (·.drift) MV.STEPD.init xs = none := by decide +kernel
example (l : List Bool) : NoLater (fd (MV.STEPD.step { cs with zDrift := 1 / 2 }) (·.drift) MV.STEPD.init l)
    (fd (MV.STEPD.step { cs with zDrift := 3 / 2 }) (·.drift) MV.STEPD.init l) :=
  STEPD.stepd_first_drift_mono cs (1 / 2) (3 / 2) (by norm_num) l
example : (MV.STEPD.run { cs with zWarn := 1 / 4 } (xs.take 6)).drift = .warning ∧
    (MV.STEPD.run { cs with zWarn := 1 / 4 } (xs.take 7)).drift = .drift ∧
    (MV.STEPD.run { cs with zWarn := 5 / 4 } (xs.take 6)).drift = .none ∧
    (MV.STEPD.run { cs with zWarn := 5 / 4 } (xs.take 7)).drift = .drift := by decide +kernel
example (l : List Bool) : True := by
  have _h := STEPD.stepd_warning_only cs (5 / 4) (1 / 4) (by norm_num) l
  trivial

/-! NNDVI: reference {0, 1}, batch {2, 3}, `k = 2`: distance 1, re-assignment distances 0 and 1,
    so mean 1/2 and (stand-in) std 1/4: drift iff `z / 4 + 1 / 2 < 1` -/
def cn : MV.NNDVI.Cfg ℚ := { k := 2, samplingTimes := 2, z := 1 }
def adjN : List (List Bool) :=
  [[true, true, false, false], [true, true, false, false], [false, false, true, true], [false, false, true, true]]
def sN : MV.NNDVI.State ℚ := MV.NNDVI.setReference MV.NNDVI.init [[0], [1]]
def inN : NNDVI.In ℚ := ([[2], [3]], adjN, [[0, 1, 2, 3], [0, 2, 1, 3]])
example : fd (NNDVI.stepS ({ cn with z := 1 } : MV.NNDVI.Cfg ℚ)) (·.drift) sN [inN, inN] = some 0 ∧
    fd (NNDVI.stepS ({ cn with z := 3 } : MV.NNDVI.Cfg ℚ)) (·.drift) sN [inN, inN] = none := by decide +kernel
example (l : List (NNDVI.In ℚ)) : True := by
  have _h := NNDVI.nndvi_first_drift_mono exSqrt_nonneg cn 1 3 (by norm_num) sN (by decide) l
  trivial

/-! ADWIN (over `ℝ`, not evaluable): the hypotheses are satisfiable -/
noncomputable def ca : MV.Adwin.Cfg ℝ :=
  { delta := 1, maxBuckets := 2, newSampleThresh := 1, windowThresh := 0, subThresh := 1, conservative := false }
example (l : List ℝ) : True := by
  have _h := Adwin.adwin_first_drift_mono ca (by decide) (1 / 100) (1 / 2) (by norm_num) (by norm_num) l
  trivial

end Examples

end MV.C17
