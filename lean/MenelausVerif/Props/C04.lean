/-
  C04 — CUSUM and Page-Hinkley apply their sequential tests to the current observations.

  Part 1 (every carrier, hence also the executed `Float` instance): lifecycle, no alarm during the
  burn-in, the decision is the threshold test, the step reads only the current epoch, fresh-twin
  theorems for whole histories.
  Part 2 (ordered fields): the statistics are the declarative ones — CUSUM's one-sided sums are the
  maximal sums of the most recent standardised observations minus delta (max suffix sum, empty suffix
  included) with constants given / estimated from the first burn_in observations / re-estimated from
  the last burn_in observations before the epoch; Page-Hinkley's running mean is the arithmetic mean
  of the epoch, its sum / min / max the documented statistic and its extrema.
-/
import Mathlib.Tactic.Ring
import Mathlib.Tactic.FieldSimp
import Mathlib.Tactic.LinearCombination
import Mathlib.Tactic.Linarith
import Mathlib.Tactic.NormNum
import Mathlib.Algebra.Order.Field.Basic
import Mathlib.Algebra.BigOperators.Group.List.Basic
import Mathlib.Data.List.Induction
import MenelausVerif.Model.Cusum
import MenelausVerif.Model.PageHinkley
set_option linter.unusedSectionVars false

namespace MV.Cusum
section anyCarrier
variable {α : Type} [Add α] [Sub α] [Mul α] [Div α] [LT α] [DecidableLT α] [NatCast α] [BEq α]
  [HasSqrt α]

@[simp] theorem finish_total (c : Cfg α) (s : State α) : (finish c s).total = s.total := by
  unfold finish; split <;> rfl
@[simp] theorem finish_since (c : Cfg α) (s : State α) : (finish c s).since = s.since := by
  unfold finish; split <;> rfl
@[simp] theorem finish_target (c : Cfg α) (s : State α) : (finish c s).target = s.target := by
  unfold finish; split <;> rfl
@[simp] theorem finish_sd (c : Cfg α) (s : State α) : (finish c s).sd = s.sd := by
  unfold finish; split <;> rfl
@[simp] theorem finish_sh (c : Cfg α) (s : State α) : (finish c s).sh = s.sh := by
  unfold finish; split <;> rfl
@[simp] theorem finish_sl (c : Cfg α) (s : State α) : (finish c s).sl = s.sl := by
  unfold finish; split <;> rfl
@[simp] theorem finish_hist (c : Cfg α) (s : State α) : (finish c s).hist = s.hist := by
  unfold finish; split <;> rfl

theorem finish_drift (c : Cfg α) (s : State α) (h : s.drift ≠ .drift) :
    (finish c s).drift = .drift ↔ s.since > c.burnIn ∧ alarm c s.sh s.sl = true := by
  unfold finish; split <;> simp_all

theorem prep_drift (c : Cfg α) (s : State α) : (prep c s).drift ≠ .drift := by
  unfold prep; split <;> simp_all

@[simp] theorem prep_total (c : Cfg α) (s : State α) : (prep c s).total = s.total := by
  unfold prep; split <;> rfl
@[simp] theorem prep_hist (c : Cfg α) (s : State α) : (prep c s).hist = s.hist := by
  unfold prep; split <;> rfl
theorem prep_since (c : Cfg α) (s : State α) :
    (prep c s).since = if s.drift = .drift then 0 else s.since := by
  unfold prep; split <;> rfl

/-- the three ways `core` can end -/
theorem core_cases (c : Cfg α) (s : State α) (x : α) :
    ((core c s x).1 = base c s x ∧ (core c s x).2 ≠ .ok) ∨
    (core c s x = (base c s x, .ok) ∧ (base c s x).target = none ∧ (base c s x).since ≤ c.burnIn) ∨
    (∃ t d, (base c s x).target = some t ∧ (base c s x).sd = some d ∧
      ¬ (sdIsZero (some d) = true ∧ (base c s x).since > c.burnIn) ∧
      core c s x = (advance c (base c s x) x t d, .ok)) := by
  unfold core
  simp only
  split
  · left; simp
  · rename_i hz
    split
    · rename_i ht
      split
      · left; simp
      · right; left; refine ⟨rfl, ht, by omega⟩
    · left; simp
    · rename_i t d ht hd
      right; right; exact ⟨t, d, ht, hd, by rw [← hd]; exact hz, rfl⟩

@[simp] theorem advance_total (c : Cfg α) (b : State α) (x t d : α) :
    (advance c b x t d).total = b.total := by simp [advance]
@[simp] theorem advance_since (c : Cfg α) (b : State α) (x t d : α) :
    (advance c b x t d).since = b.since := by simp [advance]
@[simp] theorem advance_hist (c : Cfg α) (b : State α) (x t d : α) :
    (advance c b x t d).hist = b.hist := by simp [advance]
@[simp] theorem advance_target (c : Cfg α) (b : State α) (x t d : α) :
    (advance c b x t d).target = b.target := by simp [advance]
@[simp] theorem advance_sd (c : Cfg α) (b : State α) (x t d : α) :
    (advance c b x t d).sd = b.sd := by simp [advance]
@[simp] theorem advance_sh (c : Cfg α) (b : State α) (x t d : α) :
    (advance c b x t d).sh = upper c.delta b.sh ((x - t) / d) := by simp [advance]
@[simp] theorem advance_sl (c : Cfg α) (b : State α) (x t d : α) :
    (advance c b x t d).sl = lower c.delta b.sl ((x - t) / d) := by simp [advance]

/-- what `core` does to the counters and the stream, whatever the outcome -/
theorem core_counters (c : Cfg α) (s : State α) (x : α) :
    (core c s x).1.total = s.total + 1 ∧ (core c s x).1.since = s.since + 1 ∧
    (core c s x).1.hist = x :: s.hist := by
  rcases core_cases c s x with h | h | ⟨t, d, _, _, _, h⟩
  · rw [h.1]; simp [base]
  · rw [h.1]; simp [base]
  · rw [h]; simp [base]

/-! ### lifecycle, every carrier -/

/-- `total_samples` counts every update (also one that raises) -/
theorem step_total (c : Cfg α) (s : State α) (x : α) : (step c s x).1.total = s.total + 1 := by
  unfold step; rw [(core_counters c _ x).1]; simp

/-- `samples_since_reset` restarts at 1 on the update after an alarm -/
theorem step_since (c : Cfg α) (s : State α) (x : α) :
    (step c s x).1.since = if s.drift = .drift then 1 else s.since + 1 := by
  unfold step; rw [(core_counters c _ x).2.1, prep_since]; split <;> rfl

/-- `_stream` is only ever appended to -/
theorem step_hist (c : Cfg α) (s : State α) (x : α) : (step c s x).1.hist = x :: s.hist := by
  unfold step; rw [(core_counters c _ x).2.2]; simp

/-- **No alarm during the burn-in**: whatever the state and the observation, an update that leaves
    `samples_since_reset ≤ burn_in` does not leave the detector in drift. -/
theorem no_alarm_in_burnin (c : Cfg α) (s : State α) (x : α)
    (h : (step c s x).1.since ≤ c.burnIn) : (step c s x).1.drift ≠ .drift := by
  unfold step at *
  have hp := prep_drift c s
  rcases core_cases c (prep c s) x with h' | h' | ⟨t, d, _, _, _, h'⟩
  · rw [h'.1]; simpa [base] using hp
  · rw [h'.1]; simpa [base] using hp
  · rw [h'] at h ⊢
    simp only [advance_since] at h
    intro hd
    unfold advance at hd
    rw [finish_drift] at hd
    · simp at hd; omega
    · simpa [base] using hp

/-- the drift decision of an update that returned normally: the threshold test in the configured
    direction on the two statistics, and only past the burn-in (and only once the constants exist) -/
theorem step_decision (c : Cfg α) (s : State α) (x : α) (hok : (step c s x).2 = .ok) :
    (step c s x).1.drift = .drift ↔
      (step c s x).1.since > c.burnIn ∧ (step c s x).1.target.isSome = true ∧
        alarm c (step c s x).1.sh (step c s x).1.sl = true := by
  unfold step at *
  have hp := prep_drift c s
  rcases core_cases c (prep c s) x with h' | h' | ⟨t, d, ht, _, _, h'⟩
  · exact absurd hok h'.2
  · rw [h'.1]
    have : (base c (prep c s) x).drift ≠ .drift := by simpa [base] using hp
    simp [this, h'.2.1]
  · rw [h']
    simp only [advance_since, advance_target, ht, Option.isSome_some, true_and]
    unfold advance
    rw [finish_drift]
    · simp
    · simpa [base] using hp


/-! ### reachable states, every carrier -/

/-- bookkeeping facts that hold in every state reached by updates -/
structure WF (c : Cfg α) (s : State α) : Prop where
  len : s.hist.length = s.total
  le : s.since ≤ s.total
  past : s.drift = .drift → c.burnIn < s.since
  first : s.target = none → s.total = s.since

theorem init_wf (c : Cfg α) : WF c (init c) := by
  constructor <;> simp [init]

theorem step_wf (c : Cfg α) (s : State α) (x : α) (h : WF c s) : WF c (step c s x).1 := by
  have ht := step_total c s x
  have hs := step_since c s x
  have hh := step_hist c s x
  refine ⟨by rw [hh, ht]; simp [h.len], by rw [hs, ht]; have := h.le; split <;> omega, ?_, ?_⟩
  · intro hd
    exact Nat.lt_of_not_le (fun hle => no_alarm_in_burnin c s x hle hd)
  · intro hn
    rw [ht, hs]
    have hp : (prep c s).target = none := by
      unfold step at hn
      rcases core_cases c (prep c s) x with h' | h' | ⟨t, d, ht', _, _, h'⟩
      · rw [h'.1] at hn; simp only [base] at hn; split at hn <;> simp_all
      · rw [h'.1] at hn; simp only [base] at hn; split at hn <;> simp_all
      · rw [h'] at hn; simp [ht'] at hn
    have hnd : s.drift ≠ .drift := by
      intro hd; simp [prep, hd] at hp
    have : s.target = none := by simpa [prep, hnd] using hp
    simp [hnd, h.first this]

theorem runFrom_wf (c : Cfg α) (xs : List α) (s s' : State α) (h : WF c s)
    (hr : runFrom c s xs = some s') : WF c s' := by
  induction xs generalizing s with
  | nil => simp [runFrom] at hr; exact hr ▸ h
  | cons x xs ih =>
    have hw := step_wf c s x h
    unfold runFrom at hr
    split at hr
    · rename_i s1 heq
      rw [heq] at hw
      exact ih s1 hw hr
    · simp at hr

theorem runFrom_hist (c : Cfg α) (xs : List α) (s s' : State α)
    (hr : runFrom c s xs = some s') :
    s'.hist = xs.reverse ++ s.hist ∧ s'.total = s.total + xs.length := by
  induction xs generalizing s with
  | nil => simp [runFrom] at hr; subst hr; simp
  | cons x xs ih =>
    unfold runFrom at hr
    split at hr
    · rename_i s1 heq
      have := ih s1 hr
      have hh := step_hist c s x
      have ht := step_total c s x
      rw [heq] at hh ht
      simp only at hh ht
      rw [this.1, this.2, hh, ht]; simp; omega
    · simp at hr

/-- **Lifecycle of a whole history** (no update raised): `total_samples` is the number of updates,
    `_stream` is the history, `samples_since_reset ≤ total_samples`, a detector in drift is past its
    burn-in, and an unknown target means the detector is still in its first epoch. -/
theorem run_lifecycle (c : Cfg α) (xs : List α) (s : State α) (h : run c xs = some s) :
    s.total = xs.length ∧ s.hist = xs.reverse ∧ WF c s := by
  have h1 := runFrom_hist c xs (init c) s h
  have h2 := runFrom_wf c xs (init c) s (init_wf c) h
  simp [init] at h1
  exact ⟨h1.2, h1.1, h2⟩

theorem runFrom_append (c : Cfg α) (xs ys : List α) (s : State α) :
    runFrom c s (xs ++ ys) = (runFrom c s xs).bind (fun s' => runFrom c s' ys) := by
  induction xs generalizing s with
  | nil => simp [runFrom]
  | cons x xs ih =>
    simp only [List.cons_append, runFrom]
    split
    · rename_i s1 heq; exact ih s1
    · simp


/-! ### the step reads only the current epoch, every carrier -/

/-- Two detector states that agree on everything `update` can read: the per-epoch counter, the drift
    flag, the constants, the two statistics and the observations of the current epoch (of which, at the
    re-estimation after an alarm, the last `burn_in` are read).  `total_samples` and the older part
    of `_stream` are free. -/
structure EpochRel (b : Nat) (s s' : State α) : Prop where
  since : s.since = s'.since
  drift : s.drift = s'.drift
  target : s.target = s'.target
  sd : s.sd = s'.sd
  sh : s.sh = s'.sh
  sl : s.sl = s'.sl
  epoch : s.hist.take s.since = s'.hist.take s'.since
  le : s.since ≤ s.hist.length
  le' : s'.since ≤ s'.hist.length
  past : s.drift = .drift → b < s.since
  first : s.target = none → s.hist.length = s.since ∧ s'.hist.length = s'.since

theorem take_window {b n : Nat} (hb : 1 ≤ b) (hn : b < n) (l l' : List α)
    (h : l.take n = l'.take n) : window b l = window b l' := by
  have h1 : l.take b = (l.take n).take b := by rw [List.take_take]; congr 1; omega
  have h2 : l'.take b = (l'.take n).take b := by rw [List.take_take]; congr 1; omega
  unfold window
  rw [if_neg (by omega), if_neg (by omega), h1, h2, h]

theorem prep_epochRel (c : Cfg α) (hb : 1 ≤ c.burnIn) (s s' : State α)
    (h : EpochRel c.burnIn s s') : EpochRel c.burnIn (prep c s) (prep c s') := by
  unfold prep
  by_cases hd : s.drift = .drift
  · have hd' : s'.drift = .drift := h.drift ▸ hd
    have hw : window c.burnIn s.hist = window c.burnIn s'.hist :=
      take_window hb (h.past hd) _ _ (by rw [h.epoch, h.since])
    rw [if_pos hd, if_pos hd', hw]
    constructor <;> simp
  · have hd' : ¬ s'.drift = .drift := h.drift ▸ hd
    rw [if_neg hd, if_neg hd']; exact h

theorem base_epochRel (c : Cfg α) (s s' : State α) (x : α) (h : EpochRel c.burnIn s s') :
    (base c s x).since = (base c s' x).since ∧ (base c s x).drift = (base c s' x).drift ∧
    (base c s x).target = (base c s' x).target ∧ (base c s x).sd = (base c s' x).sd ∧
    (base c s x).sh = (base c s' x).sh ∧ (base c s x).sl = (base c s' x).sl := by
  have he : estNow c s = estNow c s' := by simp [estNow, h.target, h.since]
  have hy : early c s = early c s' := by simp [early, h.target, h.since]
  have hh : estNow c s = true → s.hist = s'.hist := by
    intro hest
    have hn : s.target = none := by
      simp [estNow] at hest; exact hest.1
    have := h.first hn
    have e := h.epoch
    rw [← this.1, ← this.2, List.take_length, List.take_length] at e
    exact e
  simp only [base, ← he, ← hy, h.since, h.drift, h.target, h.sd, h.sh, h.sl, true_and]
  by_cases hest : estNow c s = true
  · simp [hest, hh hest]
  · simp [hest]

theorem core_epoch_only (c : Cfg α) (s s' : State α) (x : α) (h : EpochRel c.burnIn s s')
    (hd : s.drift ≠ .drift) :
    (core c s x).2 = (core c s' x).2 ∧ EpochRel c.burnIn (core c s x).1 (core c s' x).1 := by
  obtain ⟨b1, b2, b3, b4, b5, b6⟩ := base_epochRel c s s' x h
  have hd' : s'.drift ≠ .drift := h.drift ▸ hd
  have hc := core_counters c s x
  have hc' := core_counters c s' x
  have hnd : (base c s x).drift ≠ .drift := by simpa [base] using hd
  have hnd' : (base c s' x).drift ≠ .drift := by simpa [base] using hd'
  have hbs : (base c s x).since = s.since + 1 := rfl
  have hep : ((core c s x).1.hist).take (core c s x).1.since
      = ((core c s' x).1.hist).take (core c s' x).1.since := by
    rw [hc.2.2, hc.2.1, hc'.2.2, hc'.2.1, List.take_succ_cons, List.take_succ_cons, h.epoch]
  have hle : (core c s x).1.since ≤ (core c s x).1.hist.length := by
    rw [hc.2.2, hc.2.1]; simp [h.le]
  have hle' : (core c s' x).1.since ≤ (core c s' x).1.hist.length := by
    rw [hc'.2.2, hc'.2.1]; simp [h.le']
  have hfirst : (base c s x).target = none →
      (core c s x).1.hist.length = (core c s x).1.since ∧
      (core c s' x).1.hist.length = (core c s' x).1.since := by
    intro hn
    have : s.target = none := by
      simp only [base] at hn; split at hn <;> simp_all
    have := h.first this
    rw [hc.2.2, hc.2.1, hc'.2.2, hc'.2.1]; simp [this]
  -- same branch on both sides
  unfold core
  simp only
  rw [← b1, ← b3, ← b4]
  by_cases hz : sdIsZero (base c s x).sd = true ∧ (base c s x).since > c.burnIn
  · rw [if_pos hz, if_pos hz]
    refine ⟨rfl, ⟨b1, b2, b3, b4, b5, b6, ?_, ?_, ?_, ?_, ?_⟩⟩
    · simpa [base] using h.epoch
    · simpa [base] using h.le
    · simpa [base] using h.le'
    · intro hh; exact absurd hh hnd
    · intro hn; have := hfirst hn; rw [hc.2.2, hc.2.1, hc'.2.2, hc'.2.1] at this
      simpa [base] using this
  · rw [if_neg hz, if_neg hz]
    cases ht : (base c s x).target with
    | none =>
      simp only
      have hfl := hfirst ht
      rw [hc.2.2, hc.2.1, hc'.2.2, hc'.2.1] at hfl
      by_cases hp : (base c s x).since > c.burnIn
      · rw [if_pos hp, if_pos hp]
        refine ⟨rfl, ⟨b1, b2, b3, b4, b5, b6, ?_, ?_, ?_, ?_, ?_⟩⟩
        · simpa [base] using h.epoch
        · simpa [base] using h.le
        · simpa [base] using h.le'
        · intro hh; exact absurd hh hnd
        · intro _; simpa [base] using hfl
      · rw [if_neg hp, if_neg hp]
        refine ⟨rfl, ⟨b1, b2, b3, b4, b5, b6, ?_, ?_, ?_, ?_, ?_⟩⟩
        · simpa [base] using h.epoch
        · simpa [base] using h.le
        · simpa [base] using h.le'
        · intro hh; exact absurd hh hnd
        · intro _; simpa [base] using hfl
    | some t =>
      cases hsd : (base c s x).sd with
      | none =>
        simp only
        refine ⟨by trivial, ⟨b1, b2, b3, b4, b5, b6, ?_, ?_, ?_, ?_, ?_⟩⟩
        · simpa [base] using h.epoch
        · simpa [base] using h.le
        · simpa [base] using h.le'
        · intro hh; exact absurd hh hnd
        · intro hn; rw [ht] at hn; cases hn
      | some d =>
        simp only
        refine ⟨by trivial, ⟨by simp [b1], ?_, by simp [b3], by simp [b4], by simp [b5], by simp [b6],
          ?_, ?_, ?_, ?_, ?_⟩⟩
        · unfold advance finish
          simp only [b1, b5, b6, b2]
          split <;> simp
        · simpa [base] using h.epoch
        · simpa [base] using h.le
        · simpa [base] using h.le'
        · intro hh
          unfold advance at hh
          have := (finish_drift c _ (by exact hnd)).1 hh
          simpa using this.1
        · intro hn; simp [ht] at hn


/-- **The step reads only the current epoch** (plus, at the re-estimation after an alarm, the last
    `burn_in` observations, which then belong to the epoch that just ended): two detectors that agree
    on the epoch state return the same way and agree on the epoch state afterwards — whatever their
    `total_samples` and their older history. -/
theorem step_epoch_only (c : Cfg α) (hb : 1 ≤ c.burnIn) (s s' : State α) (x : α)
    (h : EpochRel c.burnIn s s') :
    (step c s x).2 = (step c s' x).2 ∧ EpochRel c.burnIn (step c s x).1 (step c s' x).1 := by
  unfold step
  exact core_epoch_only c _ _ x (prep_epochRel c hb s s' h) (prep_drift c s)

/-- lifting of a relation to `Option` results: both raise or both return related states -/
def OptRel (r : State α → State α → Prop) : Option (State α) → Option (State α) → Prop
  | some a, some b => r a b
  | none, none => True
  | _, _ => False

theorem runFrom_epoch_only (c : Cfg α) (hb : 1 ≤ c.burnIn) (xs : List α) (s s' : State α)
    (h : EpochRel c.burnIn s s') :
    OptRel (EpochRel c.burnIn) (runFrom c s xs) (runFrom c s' xs) := by
  induction xs generalizing s s' with
  | nil => simpa [runFrom, OptRel] using h
  | cons x xs ih =>
    obtain ⟨ho, hr⟩ := step_epoch_only c hb s s' x h
    unfold runFrom
    generalize hstep : step c s x = r at ho hr
    generalize hstep' : step c s' x = r' at ho hr
    obtain ⟨s1, o1⟩ := r
    obtain ⟨s1', o1'⟩ := r'
    simp only at ho hr
    subst ho
    cases o1 with
    | ok => exact ih s1 s1' hr
    | valueError => simp [OptRel]
    | otherError => simp [OptRel]

/-- `step` never reads the constructor arguments `target` / `sd_hat` (only `init` does) -/
theorem step_cfg_consts (c : Cfg α) (t d : Option α) (s : State α) (x : α) :
    step { c with target0 := t, sd0 := d } s x = step c s x := rfl

theorem runFrom_cfg_consts (c : Cfg α) (t d : Option α) (s : State α) (xs : List α) :
    runFrom { c with target0 := t, sd0 := d } s xs = runFrom c s xs := by
  induction xs generalizing s with
  | nil => rfl
  | cons x xs ih => simp only [runFrom, step_cfg_consts, ih]

theorem prep_of_not_drift (c : Cfg α) (s : State α) (h : s.drift ≠ .drift) : prep c s = s := by
  unfold prep; rw [if_neg h]

theorem step_prep (c : Cfg α) (s : State α) (x : α) : step c (prep c s) x = step c s x := by
  unfold step; rw [prep_of_not_drift c _ (prep_drift c s)]

/-- **Each decision depends on the current epoch only** (history form).  Once a history `xs` has ended
    in an alarm, the detector continues on any further observations `ys` exactly like a *fresh*
    detector that was given the mean / population standard deviation of the last `burn_in`
    observations of `xs` as its known constants: same outcome of every update, same
    `samples_since_reset`, drift state, `target`, `sd_hat` and statistics after every update. -/
theorem after_drift_fresh (c : Cfg α) (hb : 1 ≤ c.burnIn) (xs : List α) (s : State α)
    (h : run c xs = some s) (hd : s.drift = .drift) (y : α) (ys : List α) :
    OptRel (EpochRel c.burnIn) (run c (xs ++ y :: ys))
      (run { c with target0 := some (mean (window c.burnIn xs.reverse)),
                    sd0 := some (std (window c.burnIn xs.reverse)) } (y :: ys)) := by
  obtain ⟨_, hh, hw⟩ := run_lifecycle c xs s h
  unfold run at *
  rw [runFrom_append, h, runFrom_cfg_consts]
  simp only [Option.bind_some]
  have hrel : EpochRel c.burnIn (prep c s)
      (init { c with target0 := some (mean (window c.burnIn xs.reverse)),
                     sd0 := some (std (window c.burnIn xs.reverse)) }) := by
    unfold prep
    rw [if_pos hd, hh]
    constructor <;> simp [init]
  have := runFrom_epoch_only c hb (y :: ys) _ _ hrel
  have e : runFrom c (prep c s) (y :: ys) = runFrom c s (y :: ys) := by
    simp only [runFrom, step_prep]
  rw [e] at this
  exact this

end anyCarrier
end MV.Cusum

namespace MV.Cusum
section field
variable {K : Type} [Field K] [LinearOrder K] [IsStrictOrderedRing K] [HasSqrt K]

theorem zero_eq : (zero : K) = 0 := by simp [zero]

theorem pyMax_zero (a : K) : pyMax (zero : K) a = max 0 a := by
  unfold pyMax; rw [zero_eq]
  rcases lt_or_ge 0 a with h | h
  · rw [if_pos h, max_eq_right h.le]
  · rw [if_neg (not_lt.2 h), max_eq_left h]

theorem foldl_add (xs : List K) (a : K) : xs.foldl (· + ·) a = a + xs.sum := by
  induction xs generalizing a with
  | nil => simp
  | cons x xs ih => simp [List.foldl_cons, ih, add_assoc]

/-- the model's left-to-right sum is the sum -/
theorem sum_eq (xs : List K) : sum xs = xs.sum := by
  unfold sum; rw [foldl_add, zero_eq, zero_add]

/-- `np.mean`: the arithmetic mean -/
theorem mean_eq (xs : List K) : mean xs = xs.sum / (xs.length : K) := by
  unfold mean; rw [sum_eq]

/-- `np.std`: the square root of the mean squared deviation from the mean (population form) -/
theorem std_eq (xs : List K) :
    std xs = sqrt ((xs.map (fun x => (x - xs.sum / (xs.length : K)) ^ 2)).sum / (xs.length : K)) := by
  unfold std; simp only [mean_eq, List.length_map]
  congr 3
  apply List.map_congr_left; intro x _; ring

/-- `v` is the largest sum of the `k` most recent values, over all `k ≥ 0` (`ys` is newest first;
    in chronological terms: the maximal suffix sum, the empty suffix included) -/
def IsMaxRecent (ys : List K) (v : K) : Prop :=
  (∀ k, (ys.take k).sum ≤ v) ∧ ∃ k, (ys.take k).sum = v

theorem isMaxRecent_nil : IsMaxRecent ([] : List K) 0 :=
  ⟨fun k => by simp, ⟨0, by simp⟩⟩

/-- the CUSUM recurrence `s ← max(0, s + y)` maintains the maximal suffix sum -/
theorem isMaxRecent_cons {ys : List K} {v : K} (h : IsMaxRecent ys v) (y : K) :
    IsMaxRecent (y :: ys) (max 0 (v + y)) := by
  constructor
  · intro k
    cases k with
    | zero => simp
    | succ k =>
      rw [List.take_succ_cons, List.sum_cons]
      have := h.1 k
      exact le_trans (by linarith) (le_max_right _ _)
  · obtain ⟨k, hk⟩ := h.2
    rcases le_total 0 (v + y) with hle | hle
    · exact ⟨k + 1, by rw [List.take_succ_cons, List.sum_cons, hk, max_eq_right hle, add_comm]⟩
    · exact ⟨0, by simp [max_eq_left hle]⟩

/-- a maximal suffix sum is unique, and non-negative -/
theorem IsMaxRecent.unique {ys : List K} {v w : K} (h : IsMaxRecent ys v) (h' : IsMaxRecent ys w) :
    v = w := by
  obtain ⟨k, hk⟩ := h.2
  obtain ⟨k', hk'⟩ := h'.2
  exact le_antisymm (hk ▸ h'.1 k) (hk' ▸ h.1 k')

/-- contribution of one observation to the upper / lower statistic -/
def up (c : Cfg K) (t d x : K) : K := (x - t) / d - c.delta
def lo (c : Cfg K) (t d x : K) : K := -((x - t) / d) - c.delta

theorem upper_eq (c : Cfg K) (sh t d x : K) :
    upper c.delta sh ((x - t) / d) = max 0 (sh + up c t d x) := by
  unfold upper up; rw [pyMax_zero]; congr 1; ring

theorem lower_eq (c : Cfg K) (sl t d x : K) :
    lower c.delta sl ((x - t) / d) = max 0 (sl + lo c t d x) := by
  unfold lower lo; rw [pyMax_zero]; congr 1; ring


/-- number of observations at the start of the current epoch that did not enter the statistics:
    `burn_in - 1` in a first epoch whose constants had to be estimated, none otherwise -/
def skip (c : Cfg K) (s : State K) : Nat :=
  if c.target0.isNone = true ∧ s.total = s.since then c.burnIn - 1 else 0

/-- the observations of the current epoch that entered the statistics, newest first -/
def tested (c : Cfg K) (s : State K) : List K := s.hist.take (s.since - skip c s)

/-- what every state reached by updates (none of which raised) satisfies -/
structure Inv (c : Cfg K) (s : State K) : Prop where
  wf : WF c s
  /-- first epoch, constants given to the constructor -/
  given : s.total = s.since → c.target0.isSome = true → s.target = c.target0 ∧ s.sd = c.sd0
  /-- first epoch, constants to be estimated, burn-in not completed: nothing computed yet -/
  notyet : s.total = s.since → c.target0 = none → s.since < c.burnIn →
    s.target = none ∧ s.sh = 0 ∧ s.sl = 0
  /-- first epoch, constants estimated from the first `burn_in` observations of the stream -/
  estimated : s.total = s.since → c.target0 = none → c.burnIn ≤ s.since →
    s.target = some (mean (s.hist.reverse.take c.burnIn)) ∧
    s.sd = some (std (s.hist.reverse.take c.burnIn))
  /-- later epochs: constants re-estimated from the last `burn_in` observations before the epoch -/
  reestimated : s.total ≠ s.since →
    s.target = some (mean (window c.burnIn (s.hist.drop s.since))) ∧
    s.sd = some (std (window c.burnIn (s.hist.drop s.since)))
  /-- the one-sided statistics are the maximal suffix sums of the standardised current observations -/
  stats : ∀ t d, s.target = some t → s.sd = some d → d ≠ 0 →
    IsMaxRecent ((tested c s).map (up c t d)) s.sh ∧ IsMaxRecent ((tested c s).map (lo c t d)) s.sl
  /-- the decision is the threshold test, past the burn-in -/
  decision : s.drift = .drift ↔ s.since > c.burnIn ∧ alarm c s.sh s.sl = true

theorem init_inv (c : Cfg K) (hb : 1 ≤ c.burnIn) : Inv c (init c) := by
  refine ⟨init_wf c, ?_, ?_, ?_, ?_, ?_, ?_⟩
  · intro _ _; exact ⟨rfl, rfl⟩
  · intro _ h _; exact ⟨h, zero_eq, zero_eq⟩
  · intro _ _ h; simp [init] at h; omega
  · intro h; simp [init] at h
  · intro t d _ _ _
    have : tested c (init c) = [] := by simp [tested, init]
    rw [this]; simp only [List.map_nil, init, zero_eq]; exact ⟨isMaxRecent_nil, isMaxRecent_nil⟩
  · simp [init]

theorem target_some_of_past (c : Cfg K) (s : State K) (h : Inv c s) (hp : c.burnIn ≤ s.since) :
    s.target.isSome = true := by
  cases ht : s.target with
  | some t => rfl
  | none =>
    exfalso
    have hf := h.wf.first ht
    cases h0 : c.target0 with
    | none => have := (h.estimated hf h0 hp).1; rw [ht] at this; cases this
    | some t0 =>
      have := (h.given hf (by simp [h0])).1; rw [ht, h0] at this; cases this

theorem reverse_cons_take (x : K) (l : List K) (b : Nat) (h : b ≤ l.length) :
    (x :: l).reverse.take b = l.reverse.take b := by
  rw [List.reverse_cons, List.take_append_of_le_length (by simpa using h)]

theorem take_succ_sub (x : K) (l : List K) (n k : Nat) (h : k ≤ n) :
    (x :: l).take (n + 1 - k) = x :: l.take (n - k) := by
  have : n + 1 - k = (n - k) + 1 := by omega
  rw [this, List.take_succ_cons]

/-- the invariant is preserved by every update that returns normally -/
theorem step_inv (c : Cfg K) (hb : 1 ≤ c.burnIn) (s : State K) (x : K) (h : Inv c s)
    (hok : (step c s x).2 = .ok) : Inv c (step c s x).1 := by
  have hwf' := step_wf c s x h.wf
  have htot := step_total c s x
  have hsince := step_since c s x
  have hhist := step_hist c s x
  have hdec := step_decision c s x hok
  have hp := prep_drift c s
  unfold step at hok
  rcases core_cases c (prep c s) x with h1 | ⟨heq, htn, hle⟩ | ⟨t, d, ht, hd, hz, heq⟩
  · exact absurd hok h1.2
  · ------------------------------------------------ nothing computed: still inside an unknown-target burn-in
    have hs' : (step c s x).1 = base c (prep c s) x := by unfold step; rw [heq]
    have hpn : (prep c s).target = none ∧ estNow c (prep c s) = false := by
      simp only [base] at htn; split at htn
      · cases htn
      · rename_i he; exact ⟨htn, by simpa using he⟩
    have hnd : s.drift ≠ .drift := by
      intro hdd; have := hpn.1; simp [prep, hdd] at this
    have hps : prep c s = s := prep_of_not_drift c s hnd
    rw [hps] at hpn hs' hle htn
    have hfirst := h.wf.first hpn.1
    have hsn : (step c s x).1.since = s.since + 1 := by rw [hsince, if_neg hnd]
    have hlt : s.since + 1 < c.burnIn := by
      have h1 : (base c s x).since = s.since + 1 := rfl
      rw [h1] at hle
      have h2 := hpn.2
      simp [estNow, hpn.1] at h2
      omega
    have hearly : early c s = true := by simp [early, hpn.1, hlt]
    have ht' : (step c s x).1.target = none := by rw [hs']; exact htn
    refine ⟨hwf', ?_, ?_, ?_, ?_, ?_, ?_⟩
    · intro _ h0
      cases h00 : c.target0 with
      | none => simp [h00] at h0
      | some t0 =>
        have := (h.given hfirst (by simp [h00])).1; rw [hpn.1, h00] at this; cases this
    · intro _ _ _
      refine ⟨ht', ?_, ?_⟩ <;> rw [hs'] <;> simp [base, hearly, zero_eq]
    · intro _ _ hge; rw [hsn] at hge; omega
    · intro hne; rw [htot, hsn, hfirst] at hne; exact absurd rfl hne
    · intro t d ht'' _ _; rw [ht'] at ht''; cases ht''
    · constructor
      · intro hdr; have := (hdec.1 hdr).2.1; simp [ht'] at this
      · intro ⟨h1, _⟩; rw [hsn] at h1; omega
  · ------------------------------------------------ statistics advanced with constants t, d
    have hs' : (step c s x).1 = advance c (base c (prep c s) x) x t d := by unfold step; rw [heq]
    have ht' : (step c s x).1.target = some t := by rw [hs']; simpa using ht
    have hd' : (step c s x).1.sd = some d := by rw [hs']; simpa using hd
    have hsh : (step c s x).1.sh = max 0 ((base c (prep c s) x).sh + up c t d x) := by
      rw [hs', advance_sh, upper_eq]
    have hsl : (step c s x).1.sl = max 0 ((base c (prep c s) x).sl + lo c t d x) := by
      rw [hs', advance_sl, lower_eq]
    have hdecision : (step c s x).1.drift = .drift ↔
        (step c s x).1.since > c.burnIn ∧ alarm c (step c s x).1.sh (step c s x).1.sl = true := by
      rw [hdec, ht']; simp
    by_cases hdd : s.drift = .drift
    · ---------------------------------------------- first update after an alarm
      have hpast := h.wf.past hdd
      have hle := h.wf.le
      have hsn : (step c s x).1.since = 1 := by rw [hsince, if_pos hdd]
      have hne : (step c s x).1.total ≠ (step c s x).1.since := by rw [htot, hsn]; omega
      have hbt : (base c (prep c s) x).target = some (mean (window c.burnIn s.hist)) ∧
          (base c (prep c s) x).sd = some (std (window c.burnIn s.hist)) ∧
          (base c (prep c s) x).sh = 0 ∧ (base c (prep c s) x).sl = 0 := by
        simp [base, prep, hdd, estNow, early, zero_eq]
      have hdrop : (step c s x).1.hist.drop (step c s x).1.since = s.hist := by
        rw [hhist, hsn]; rfl
      refine ⟨hwf', ?_, ?_, ?_, ?_, ?_, hdecision⟩
      · intro he; exact absurd he hne
      · intro he; exact absurd he hne
      · intro he; exact absurd he hne
      · intro _
        rw [hdrop, ht', hd', ← ht, ← hd]; exact ⟨hbt.1, hbt.2.1⟩
      · intro t2 d2 ht2 hd2 hd0
        rw [ht'] at ht2; rw [hd'] at hd2
        cases ht2; cases hd2
        have htested : tested c (step c s x).1 = [x] := by
          have hsk : skip c (step c s x).1 = 0 := by
            unfold skip; rw [if_neg]; intro hh; exact hne hh.2
          unfold tested; rw [hsk, hsn, hhist]; rfl
        rw [htested, hsh, hsl, hbt.2.2.1, hbt.2.2.2]
        exact ⟨isMaxRecent_cons isMaxRecent_nil _, isMaxRecent_cons isMaxRecent_nil _⟩
    · have hps : prep c s = s := prep_of_not_drift c s hdd
      rw [hps] at ht hd hsh hsl hs'
      have hsn : (step c s x).1.since = s.since + 1 := by rw [hsince, if_neg hdd]
      have hflag : (step c s x).1.total = (step c s x).1.since ↔ s.total = s.since := by
        rw [htot, hsn]; omega
      cases hst : s.target with
      | none =>
        -------------------------------------------- the update that completes an unknown-target burn-in
        have hfirst := h.wf.first hst
        have hest : estNow c s = true := by
          cases he : estNow c s with
          | true => rfl
          | false => simp [base, he, hst] at ht
        have hb1 : s.since + 1 = c.burnIn := by simpa [estNow, hst] using hest
        have h0 : c.target0 = none := by
          cases h00 : c.target0 with
          | none => rfl
          | some t0 => have := (h.given hfirst (by simp [h00])).1; rw [hst, h00] at this; cases this
        have hny := h.notyet hfirst h0 (by omega)
        have hearly : early c s = false := by simp [early, hb1]
        have hlen : (x :: s.hist).length = c.burnIn := by
          simp [h.wf.len, hfirst, hb1]
        have hbt : (base c s x).target = some (mean (x :: s.hist).reverse) ∧
            (base c s x).sd = some (std (x :: s.hist).reverse) ∧
            (base c s x).sh = 0 ∧ (base c s x).sl = 0 := by
          simp [base, hest, hearly, hny.2.1, hny.2.2]
        refine ⟨hwf', ?_, ?_, ?_, ?_, ?_, hdecision⟩
        · intro _ hh; simp [h0] at hh
        · intro _ _ hlt; rw [hsn] at hlt; omega
        · intro _ _ _
          rw [hhist, List.take_of_length_le (by rw [List.length_reverse, hlen]), ht', hd', ← ht, ← hd]
          exact ⟨hbt.1, hbt.2.1⟩
        · intro hne; exact absurd (hflag.2 hfirst) hne
        · intro t2 d2 ht2 hd2 hd0
          rw [ht'] at ht2; rw [hd'] at hd2
          cases ht2; cases hd2
          have htested : tested c (step c s x).1 = [x] := by
            have hsk : skip c (step c s x).1 = c.burnIn - 1 := by
              unfold skip; rw [if_pos ⟨by simp [h0], hflag.2 hfirst⟩]
            unfold tested; rw [hsk, hsn, hhist]
            have : s.since + 1 - (c.burnIn - 1) = 1 := by omega
            rw [this]; rfl
          rw [htested, hsh, hsl, hbt.2.2.1, hbt.2.2.2]
          exact ⟨isMaxRecent_cons isMaxRecent_nil _, isMaxRecent_cons isMaxRecent_nil _⟩
      | some t0 =>
        -------------------------------------------- ordinary update inside an epoch
        have hest : estNow c s = false := by simp [estNow, hst]
        have hearly : early c s = false := by simp [early, hst]
        have hbt : (base c s x).target = s.target ∧ (base c s x).sd = s.sd ∧
            (base c s x).sh = s.sh ∧ (base c s x).sl = s.sl := by
          simp [base, hest, hearly]
        rw [hbt.1] at ht; rw [hbt.2.1] at hd; rw [hbt.2.2.1] at hsh; rw [hbt.2.2.2] at hsl
        have hlen := h.wf.len
        -- in a first epoch with estimated constants the burn-in is complete
        have hcomplete : s.total = s.since → c.target0 = none → c.burnIn ≤ s.since := by
          intro hf h0
          by_contra hlt
          have := (h.notyet hf h0 (by omega)).1
          rw [hst] at this; cases this
        refine ⟨hwf', ?_, ?_, ?_, ?_, ?_, hdecision⟩
        · intro hf h0; rw [ht', hd', ← ht, ← hd]; exact h.given (hflag.1 hf) h0
        · intro hf h0 hlt
          have := hcomplete (hflag.1 hf) h0
          rw [hsn] at hlt; omega
        · intro hf h0 _
          have hge := hcomplete (hflag.1 hf) h0
          rw [hhist, reverse_cons_take x s.hist c.burnIn (by rw [hlen, hflag.1 hf]; exact hge),
            ht', hd', ← ht, ← hd]
          exact h.estimated (hflag.1 hf) h0 hge
        · intro hne
          have hne' : s.total ≠ s.since := fun hh => hne (hflag.2 hh)
          rw [hhist, hsn, List.drop_succ_cons, ht', hd', ← ht, ← hd]
          exact h.reestimated hne'
        · intro t2 d2 ht2 hd2 hd0
          rw [ht'] at ht2; rw [hd'] at hd2
          cases ht2; cases hd2
          have hsk : skip c (step c s x).1 = skip c s := by
            unfold skip; simp only [hflag]
          have hskle : skip c s ≤ s.since := by
            unfold skip; split
            · rename_i hh
              have := hcomplete hh.2 (by simpa using hh.1)
              omega
            · omega
          have htested : tested c (step c s x).1 = x :: tested c s := by
            unfold tested; rw [hsk, hsn, hhist, take_succ_sub x s.hist _ _ hskle]
          have ih := h.stats t d ht hd hd0
          rw [htested, hsh, hsl, List.map_cons, List.map_cons]
          exact ⟨isMaxRecent_cons ih.1 _, isMaxRecent_cons ih.2 _⟩


theorem runFrom_inv (c : Cfg K) (hb : 1 ≤ c.burnIn) (xs : List K) (s s' : State K) (h : Inv c s)
    (hr : runFrom c s xs = some s') : Inv c s' := by
  induction xs generalizing s with
  | nil => simp [runFrom] at hr; exact hr ▸ h
  | cons x xs ih =>
    unfold runFrom at hr
    split at hr
    · rename_i s1 heq
      have := step_inv c hb s x h (by rw [heq])
      rw [heq] at this
      exact ih s1 this hr
    · simp at hr

/-- the threshold test, spelled out -/
theorem alarm_iff (c : Cfg K) (sh sl : K) :
    alarm c sh sl = true ↔
      match c.dir with
      | .both => c.threshold < sh ∨ c.threshold < sl
      | .positive => c.threshold < sh
      | .negative => c.threshold < sl := by
  unfold alarm; cases c.dir <;> simp

/-- **CUSUM applies the cumulative-sum test to the standardised current observations.**
    After any history `xs` of updates none of which raised, with `n = samples_since_reset`:
    * `total_samples = |xs|`, `n ≤ |xs|`;
    * the constants are the ones given to the constructor, or — first epoch, none given — unknown
      while `n < burn_in` and afterwards the mean / population standard deviation of the first
      `burn_in` observations, or — after an alarm — those of the `burn_in` observations that
      immediately precede the current epoch;
    * for constants `t`, `d ≠ 0`, `s_h` (`s_l`) is the maximum over `k ≥ 0` of the sum of the `k` most
      recent values of `(x − t)/d − δ` (resp. `−(x − t)/d − δ`) — the maximal suffix sum, empty suffix
      included — over the observations of the current epoch (in an estimating first epoch: from the
      `burn_in`-th observation on);
    * the detector is in drift iff `n > burn_in` and the threshold test in the configured direction
      holds for these statistics. -/
theorem cusum_spec (c : Cfg K) (hb : 1 ≤ c.burnIn) (xs : List K) (s : State K)
    (h : run c xs = some s) :
    s.total = xs.length ∧ s.since ≤ xs.length ∧
    (s.total = s.since → c.target0.isSome = true → s.target = c.target0 ∧ s.sd = c.sd0) ∧
    (s.total = s.since → c.target0 = none → s.since < c.burnIn → s.target = none) ∧
    (s.total = s.since → c.target0 = none → c.burnIn ≤ s.since →
      s.target = some (mean (xs.take c.burnIn)) ∧ s.sd = some (std (xs.take c.burnIn))) ∧
    (s.total ≠ s.since →
      s.target = some (mean (window c.burnIn (xs.reverse.drop s.since))) ∧
      s.sd = some (std (window c.burnIn (xs.reverse.drop s.since)))) ∧
    (∀ t d, s.target = some t → s.sd = some d → d ≠ 0 →
      IsMaxRecent ((xs.reverse.take (s.since - skip c s)).map (up c t d)) s.sh ∧
      IsMaxRecent ((xs.reverse.take (s.since - skip c s)).map (lo c t d)) s.sl) ∧
    (s.drift = .drift ↔ s.since > c.burnIn ∧
      match c.dir with
      | .both => c.threshold < s.sh ∨ c.threshold < s.sl
      | .positive => c.threshold < s.sh
      | .negative => c.threshold < s.sl) := by
  obtain ⟨htot, hhist, hwf⟩ := run_lifecycle c xs s h
  have hi := runFrom_inv c hb xs (init c) s (init_inv c hb) h
  refine ⟨htot, by rw [← htot]; exact hwf.le, hi.given, fun a b d => (hi.notyet a b d).1, ?_, ?_, ?_, ?_⟩
  · intro a b d
    have := hi.estimated a b d
    rwa [hhist, List.reverse_reverse] at this
  · intro a
    have := hi.reestimated a
    rwa [hhist] at this
  · intro t d ht hd hd0
    have := hi.stats t d ht hd hd0
    unfold tested at this
    rwa [hhist] at this
  · rw [hi.decision, alarm_iff]

/-- corollary: the maximal suffix sums are determined by the observations — any two histories
    whose current epochs (the part that entered the statistics) and constants coincide carry the
    same statistics -/
theorem cusum_suffix_unique (c : Cfg K) (hb : 1 ≤ c.burnIn) (xs ys : List K) (s s' : State K)
    (h : run c xs = some s) (h' : run c ys = some s') (t d : K) (hd0 : d ≠ 0)
    (ht : s.target = some t) (hd : s.sd = some d) (ht' : s'.target = some t) (hd' : s'.sd = some d)
    (he : xs.reverse.take (s.since - skip c s) = ys.reverse.take (s'.since - skip c s')) :
    s.sh = s'.sh ∧ s.sl = s'.sl := by
  have a := (cusum_spec c hb xs s h).2.2.2.2.2.2.1 t d ht hd hd0
  have b := (cusum_spec c hb ys s' h').2.2.2.2.2.2.1 t d ht' hd' hd0
  rw [he] at a
  exact ⟨a.1.unique b.1, a.2.unique b.2⟩


/-- `cusum_suffix` (DESIGN §7): the statistics clause of `cusum_spec` on its own -/
theorem cusum_suffix (c : Cfg K) (hb : 1 ≤ c.burnIn) (xs : List K) (s : State K)
    (h : run c xs = some s) (t d : K) (ht : s.target = some t) (hd : s.sd = some d) (hd0 : d ≠ 0) :
    IsMaxRecent ((xs.reverse.take (s.since - skip c s)).map (up c t d)) s.sh ∧
    IsMaxRecent ((xs.reverse.take (s.since - skip c s)).map (lo c t d)) s.sl :=
  (cusum_spec c hb xs s h).2.2.2.2.2.2.1 t d ht hd hd0

/-- `cusum_estimates` (DESIGN §7): where the standardisation constants come from -/
theorem cusum_estimates (c : Cfg K) (hb : 1 ≤ c.burnIn) (xs : List K) (s : State K)
    (h : run c xs = some s) :
    (s.total = s.since → c.target0 = none → c.burnIn ≤ s.since →
      s.target = some ((xs.take c.burnIn).sum / ((xs.take c.burnIn).length : K)) ∧
      s.sd = some (std (xs.take c.burnIn))) ∧
    (s.total ≠ s.since →
      s.target = some ((window c.burnIn (xs.reverse.drop s.since)).sum /
        ((window c.burnIn (xs.reverse.drop s.since)).length : K)) ∧
      s.sd = some (std (window c.burnIn (xs.reverse.drop s.since)))) := by
  have := cusum_spec c hb xs s h
  refine ⟨fun a b d => ?_, fun a => ?_⟩
  · have := this.2.2.2.2.1 a b d; rwa [mean_eq] at this
  · have := this.2.2.2.2.2.1 a; rwa [mean_eq] at this

/-- the estimation window after an alarm is the `burn_in` observations that end the previous epoch,
    in chronological order -/
theorem window_eq (b : Nat) (hb : 1 ≤ b) (l : List K) : window b l = (l.take b).reverse := by
  unfold window; rw [if_neg (by omega)]

end field

section examples
/-- the theorems hold for any `sqrt`; the examples use a stand-in on `ℚ` -/
local instance : HasSqrt ℚ := ⟨fun x => x⟩

local macro "cusum_eval" : tactic =>
  `(tactic| (simp [run, runFrom, step, core, prep, base, advance, finish, alarm, init, estNow, early,
    sdIsZero, upper, lower, pyMax, zero, window, mean, std, sum, HasSqrt.sqrt] <;> norm_num))

/-- known constants `target = 0`, `sd_hat = 1` -/
def exKnown : Cfg ℚ :=
  { target0 := some 0, sd0 := some 1, burnIn := 2, delta := 0, threshold := 1, dir := .both }
/-- constants to be estimated -/
def exEst : Cfg ℚ :=
  { target0 := none, sd0 := none, burnIn := 2, delta := 0, threshold := 1, dir := .positive }

/-- an alarm at the first update past the burn-in (`no_alarm_in_burnin` is tight) -/
example : (run exKnown [0, 0, 3]).map (fun s => (s.drift, s.total, s.since, s.sh)) =
    some (.drift, 3, 3, 3) := by
  simp [exKnown]; cusum_eval

/-- a second epoch is reached (`total ≠ since`): constants re-estimated from the last two observations -/
example : (run exKnown [0, 0, 3, 4]).map (fun s => (s.drift, s.total, s.since, s.target, s.sd, s.sh)) =
    some (.none, 4, 1, some (3 / 2), some (9 / 4), 10 / 9) := by
  simp [exKnown]; cusum_eval

/-- estimated constants: nothing before the burn-in completes, an alarm afterwards -/
example : (run exEst [1, 3]).map (fun s => (s.drift, s.since, s.target, s.sd, s.sh)) =
    some (.none, 2, some 2, some 1, 1) := by
  simp [exEst]; cusum_eval
example : (run exEst [1, 3, 5]).map (fun s => (s.drift, s.since, s.sh)) = some (.drift, 3, 4) := by
  simp [exEst]; cusum_eval

/-- a constant burn-in window: `sd_hat = 0`, the first update past the burn-in raises -/
example : run exEst [1, 1] ≠ none ∧ run exEst [1, 1, 1] = none := by
  constructor <;> (simp [exEst]; cusum_eval)

/-- `step_epoch_only` / `EpochRel`: two detectors with different pasts (5 updates vs 1) and the same
    current epoch -/
example : EpochRel 2
    ({ total := 5, since := 1, drift := .none, target := some 0, sd := some 1, sh := 0, sl := 0,
       hist := [7, 1, 2, 3, 4] } : State ℚ)
    { total := 1, since := 1, drift := .none, target := some 0, sd := some 1, sh := 0, sl := 0,
      hist := [7] } := by
  constructor <;> simp

/-- `after_drift_fresh` has a satisfiable hypothesis: this history ends in an alarm -/
example : ∃ s, run exKnown [0, 0, 3] = some s ∧ s.drift = .drift := by
  simp [exKnown]; cusum_eval

end examples
end MV.Cusum

namespace MV.PH
section anyCarrier
variable {α : Type} [Add α] [Sub α] [Mul α] [Div α] [LT α] [DecidableLT α] [NatCast α]

theorem prepped_drift (s : State α) : (if s.drift = .drift then reset s else s).drift ≠ .drift := by
  split <;> simp_all [reset]

/-- `total_samples` counts every update -/
theorem step_total (c : Cfg α) (s : State α) (x : α) : (step c s x).1.total = s.total + 1 := by
  unfold step core; split <;> simp [reset]

/-- `samples_since_reset` restarts at 1 on the update after an alarm -/
theorem step_since (c : Cfg α) (s : State α) (x : α) :
    (step c s x).1.since = if s.drift = .drift then 1 else s.since + 1 := by
  unfold step core; split <;> simp [reset]

theorem core_drift_eq (c : Cfg α) (s : State α) (x : α) :
    (core c s x).1.drift =
      if (core c s x).2.check = true ∧ (core c s x).1.since > c.burnIn then .drift else s.drift :=
  rfl

theorem core_decision (c : Cfg α) (s : State α) (x : α) (hp : s.drift ≠ .drift) :
    (core c s x).1.drift = .drift ↔
      (core c s x).1.since > c.burnIn ∧ (core c s x).2.check = true := by
  rw [core_drift_eq]
  split
  · rename_i h; simp only [true_iff]; exact ⟨h.2, h.1⟩
  · rename_i h
    constructor
    · intro hd; exact absurd hd hp
    · intro ⟨h1, h2⟩; exact absurd ⟨h2, h1⟩ h

/-- the drift decision of an update is the documented test — `ph_difference > threshold * mean`, as
    recorded in the row's `drift_detected` — and only past the burn-in -/
theorem step_decision (c : Cfg α) (s : State α) (x : α) :
    (step c s x).1.drift = .drift ↔
      (step c s x).1.since > c.burnIn ∧ (step c s x).2.check = true :=
  core_decision c _ x (prepped_drift s)

/-- the row's test: `drift_detected = (theta < ph_difference)` with `theta = threshold * mean` and the
    difference taken in the configured direction -/
theorem step_row (c : Cfg α) (s : State α) (x : α) :
    let r := (step c s x).2
    let s' := (step c s x).1
    r.x = x ∧ r.mean = s'.mean ∧ r.sum = s'.sum ∧ r.mn = s'.mn ∧ r.mx = s'.mx ∧
    r.theta = c.threshold * s'.mean ∧
    r.diff = (match c.dir with | .positive => s'.sum - s'.mn | .negative => s'.mx - s'.sum) ∧
    r.check = decide (r.theta < r.diff) := by
  intro r s'
  exact ⟨rfl, rfl, rfl, rfl, rfl, rfl, rfl, rfl⟩

/-- **No alarm during the burn-in.** -/
theorem no_alarm_in_burnin (c : Cfg α) (s : State α) (x : α)
    (h : (step c s x).1.since ≤ c.burnIn) : (step c s x).1.drift ≠ .drift := by
  intro hd
  have := ((step_decision c s x).1 hd).1
  omega

/-- agreement on everything but `total_samples` -/
def SameEpoch (s s' : State α) : Prop :=
  s.since = s'.since ∧ s.drift = s'.drift ∧ s.mean = s'.mean ∧ s.sum = s'.sum ∧ s.mn = s'.mn ∧
    s.mx = s'.mx

/-- **The step reads only the epoch state and the supplied observation**: same row, same next epoch
    state, whatever the two detectors' `total_samples`. -/
theorem step_epoch_only (c : Cfg α) (s s' : State α) (x : α) (h : SameEpoch s s') :
    (step c s x).2 = (step c s' x).2 ∧ SameEpoch (step c s x).1 (step c s' x).1 := by
  obtain ⟨h1, h2, h3, h4, h5, h6⟩ := h
  unfold step
  by_cases hd : s.drift = .drift
  · have hd' : s'.drift = .drift := h2 ▸ hd
    rw [if_pos hd, if_pos hd']
    simp [core, reset, SameEpoch]
  · have hd' : ¬ s'.drift = .drift := h2 ▸ hd
    rw [if_neg hd, if_neg hd']
    simp [core, SameEpoch, h1, h2, h3, h4, h5, h6]

/-- the rows appended by a sequence of updates -/
def rowsFrom (c : Cfg α) (s : State α) : List α → List (Row α)
  | [] => []
  | x :: xs => (step c s x).2 :: rowsFrom c (step c s x).1 xs

def runFrom (c : Cfg α) (s : State α) (xs : List α) : State α :=
  xs.foldl (fun s x => (step c s x).1) s

theorem runFrom_epoch_only (c : Cfg α) (xs : List α) (s s' : State α) (h : SameEpoch s s') :
    rowsFrom c s xs = rowsFrom c s' xs ∧ SameEpoch (runFrom c s xs) (runFrom c s' xs) := by
  induction xs generalizing s s' with
  | nil => exact ⟨rfl, h⟩
  | cons x xs ih =>
    obtain ⟨hr, hs⟩ := step_epoch_only c s s' x h
    obtain ⟨ih1, ih2⟩ := ih _ _ hs
    exact ⟨by simp only [rowsFrom, hr, ih1], by simpa [runFrom] using ih2⟩

theorem run_total (c : Cfg α) (xs : List α) (s : State α) :
    (runFrom c s xs).total = s.total + xs.length := by
  induction xs generalizing s with
  | nil => rfl
  | cons x xs ih =>
    simp only [runFrom, List.foldl_cons, List.length_cons] at ih ⊢
    rw [ih, step_total]; omega

/-- **Each decision depends on the current epoch only** (history form).  Once a history `xs` has
    ended in an alarm, the detector continues on any further observations exactly like a fresh
    detector: the same `to_dataframe()` rows and the same epoch state after every update. -/
theorem after_drift_fresh (c : Cfg α) (xs : List α) (hd : (run c xs).drift = .drift) (y : α)
    (ys : List α) :
    rowsFrom c (run c xs) (y :: ys) = rowsFrom c init (y :: ys) ∧
    SameEpoch (run c (xs ++ y :: ys)) (run c (y :: ys)) := by
  have h1 : SameEpoch (step c (run c xs) y).1 (step (α := α) c init y).1 ∧
      (step c (run c xs) y).2 = (step (α := α) c init y).2 := by
    unfold step
    rw [if_pos hd, if_neg (by simp [init])]
    simp [core, reset, init, SameEpoch]
  obtain ⟨hr, hs⟩ := runFrom_epoch_only c ys _ _ h1.1
  constructor
  · simp only [rowsFrom, h1.2, hr]
  · have e1 : run c (xs ++ y :: ys) = runFrom c (step c (run c xs) y).1 ys := by
      simp [run, runFrom, List.foldl_append]
    have e2 : run c (y :: ys) = runFrom c (step (α := α) c init y).1 ys := by
      simp [run, runFrom]
    rw [e1, e2]; exact hs

end anyCarrier
end MV.PH

namespace MV.PH
section field
variable {K : Type} [Field K] [LinearOrder K] [IsStrictOrderedRing K]

/-- arithmetic mean of a list (`0` for the empty list, as `PageHinkley.reset` sets `_mean = 0`) -/
def meanR (E : List K) : K := E.sum / (E.length : K)

/-- the Page-Hinkley statistic `m_T = Σ_{t ≤ T} (x_t − x̄_t − δ)`, `x̄_t` the mean of the first `t`
    observations; the list is the epoch newest-first, so its tails are the epoch's time prefixes -/
def cumR (δ : K) : List K → K
  | [] => 0
  | x :: E => cumR δ E + (x - meanR (x :: E) - δ)

/-- `min(0, m_1, …, m_T)` -/
def minR (δ : K) : List K → K
  | [] => 0
  | x :: E => min (minR δ E) (cumR δ (x :: E))

/-- `max(0, m_1, …, m_T)` -/
def maxR (δ : K) : List K → K
  | [] => 0
  | x :: E => max (maxR δ E) (cumR δ (x :: E))

/-- `minR` is the least of the statistics of all time prefixes (the empty one, with `m_0 = 0`, included) -/
theorem minR_le (δ : K) (E U : List K) (h : U <:+ E) : minR δ E ≤ cumR δ U := by
  induction E with
  | nil => rw [List.suffix_nil] at h; subst h; simp [minR, cumR]
  | cons x E ih =>
    rcases List.suffix_cons_iff.1 h with h | h
    · subst h; exact min_le_right _ _
    · exact le_trans (min_le_left _ _) (ih h)

theorem minR_attained (δ : K) (E : List K) : ∃ U, U <:+ E ∧ minR δ E = cumR δ U := by
  induction E with
  | nil => exact ⟨[], List.suffix_refl _, rfl⟩
  | cons x E ih =>
    obtain ⟨U, hU, hm⟩ := ih
    rcases le_total (minR δ E) (cumR δ (x :: E)) with hle | hle
    · exact ⟨U, List.suffix_cons_iff.2 (Or.inr hU), by rw [minR, min_eq_left hle, hm]⟩
    · exact ⟨x :: E, List.suffix_refl _, by rw [minR, min_eq_right hle]⟩

theorem le_maxR (δ : K) (E U : List K) (h : U <:+ E) : cumR δ U ≤ maxR δ E := by
  induction E with
  | nil => rw [List.suffix_nil] at h; subst h; simp [maxR, cumR]
  | cons x E ih =>
    rcases List.suffix_cons_iff.1 h with h | h
    · subst h; exact le_max_right _ _
    · exact le_trans (ih h) (le_max_left _ _)

theorem maxR_attained (δ : K) (E : List K) : ∃ U, U <:+ E ∧ maxR δ E = cumR δ U := by
  induction E with
  | nil => exact ⟨[], List.suffix_refl _, rfl⟩
  | cons x E ih =>
    obtain ⟨U, hU, hm⟩ := ih
    rcases le_total (cumR δ (x :: E)) (maxR δ E) with hle | hle
    · exact ⟨U, List.suffix_cons_iff.2 (Or.inr hU), by rw [maxR, max_eq_left hle, hm]⟩
    · exact ⟨x :: E, List.suffix_refl _, by rw [maxR, max_eq_right hle]⟩

/-- the incremental mean update is the arithmetic mean -/
theorem mean_step (n : ℕ) (S x : K) (h : n = 0 → S = 0) :
    S / (n : K) + (x - S / (n : K)) / ((n + 1 : ℕ) : K) = (x + S) / ((n + 1 : ℕ) : K) := by
  rcases Nat.eq_zero_or_pos n with h0 | hpos
  · subst h0; simp [h rfl]
  · have hn : (n : K) ≠ 0 := Nat.cast_ne_zero.2 (by omega)
    have hn1 : ((n + 1 : ℕ) : K) ≠ 0 := Nat.cast_ne_zero.2 (by omega)
    push_cast at hn1 ⊢
    field_simp
    ring

/-- the epoch state holds the statistics of the epoch `E` (newest first) -/
structure Stat (c : Cfg K) (s : State K) (E : List K) : Prop where
  since : s.since = E.length
  mean : s.mean = meanR E
  sum : s.sum = cumR c.delta E
  mn : s.mn = minR c.delta E
  mx : s.mx = maxR c.delta E

theorem init_stat (c : Cfg K) : Stat c init [] := by
  constructor <;> simp [init, zero, meanR, cumR, minR, maxR]

theorem reset_stat (c : Cfg K) (s : State K) : Stat c (reset s) [] := by
  constructor <;> simp [reset, zero, meanR, cumR, minR, maxR]

theorem core_stat (c : Cfg K) (s : State K) (E : List K) (x : K) (h : Stat c s E) :
    Stat c (core c s x).1 (x :: E) := by
  have hmean : (core c s x).1.mean = meanR (x :: E) := by
    show s.mean + (x - s.mean) / ((s.since + 1 : ℕ) : K) = meanR (x :: E)
    rw [h.mean, h.since]
    unfold meanR
    rw [mean_step E.length E.sum x (by intro h0; rw [List.length_eq_zero_iff.1 h0]; simp)]
    simp
  have hsum : (core c s x).1.sum = cumR c.delta (x :: E) := by
    show s.sum + x - (core c s x).1.mean - c.delta = _
    rw [hmean, h.sum]; simp only [cumR]; ring
  refine ⟨by show s.since + 1 = _; simp [h.since], hmean, hsum, ?_, ?_⟩
  · show (if (core c s x).1.sum < s.mn then (core c s x).1.sum else s.mn) = _
    rw [hsum, h.mn]; simp only [minR]
    rcases lt_or_ge (cumR c.delta (x :: E)) (minR c.delta E) with hlt | hge
    · rw [if_pos hlt, min_eq_right hlt.le]
    · rw [if_neg (not_lt.2 hge), min_eq_left hge]
  · show (if s.mx < (core c s x).1.sum then (core c s x).1.sum else s.mx) = _
    rw [hsum, h.mx]; simp only [maxR]
    rcases lt_or_ge (maxR c.delta E) (cumR c.delta (x :: E)) with hlt | hge
    · rw [if_pos hlt, max_eq_right hlt.le]
    · rw [if_neg (not_lt.2 hge), max_eq_left hge]

theorem step_stat (c : Cfg K) (s : State K) (E : List K) (x : K) (h : Stat c s E) :
    Stat c (step c s x).1 (x :: (if s.drift = .drift then [] else E)) := by
  unfold step
  split
  · exact core_stat c _ _ x (reset_stat c s)
  · exact core_stat c _ _ x h

theorem decision_of_stat (c : Cfg K) (s0 : State K) (x : K) (E : List K)
    (hs : Stat c (step c s0 x).1 E) :
    (step c s0 x).1.drift = .drift ↔ (step c s0 x).1.since > c.burnIn ∧
      c.threshold * meanR E <
        (match c.dir with
          | .positive => cumR c.delta E - minR c.delta E
          | .negative => maxR c.delta E - cumR c.delta E) := by
  rw [step_decision]
  obtain ⟨_, _, _, _, _, hth, hdiff, hchk⟩ := step_row c s0 x
  rw [hchk, decide_eq_true_iff, hth, hdiff, hs.mean, hs.sum, hs.mn, hs.mx]

theorem run_snoc (c : Cfg K) (xs : List K) (x : K) :
    run c (xs ++ [x]) = (step c (run c xs) x).1 := by
  simp [run, List.foldl_append]

theorem run_stat (c : Cfg K) (xs : List K) :
    ∃ k, k ≤ xs.length ∧ Stat c (run c xs) (xs.reverse.take k) := by
  induction xs using List.reverseRecOn with
  | nil => exact ⟨0, le_refl _, by simpa [run] using init_stat c⟩
  | append_singleton xs x ih =>
    obtain ⟨k, hk, hs⟩ := ih
    have := step_stat c (run c xs) _ x hs
    rw [run_snoc]
    by_cases hd : (run c xs).drift = .drift
    · refine ⟨1, by simp, ?_⟩
      simpa [hd] using this
    · refine ⟨k + 1, by simp; omega, ?_⟩
      simpa [hd] using this

/-- **Page-Hinkley computes the documented statistics of the current epoch.**  After any history
    `xs`, with `E` the observations since the last reset (the `samples_since_reset` most recent
    ones, newest first): the running mean is the arithmetic mean of `E`; `_sum` is
    `Σ_t (x_t − x̄_t − δ)` over the epoch; `_min` / `_max` are the extrema of that statistic over
    all time prefixes of the epoch and `0`; and the detector is in drift iff it is past its burn-in
    and `ph_difference > threshold * mean` in the configured direction. -/
theorem ph_spec (c : Cfg K) (xs : List K) (s : State K) (E : List K)
    (hrun : s = run c xs) (hE : E = xs.reverse.take s.since) :
    s.total = xs.length ∧ s.since ≤ xs.length ∧
    s.mean = meanR E ∧ s.sum = cumR c.delta E ∧ s.mn = minR c.delta E ∧ s.mx = maxR c.delta E ∧
    (s.drift = .drift ↔ s.since > c.burnIn ∧
      c.threshold * meanR E <
        (match c.dir with
          | .positive => cumR c.delta E - minR c.delta E
          | .negative => maxR c.delta E - cumR c.delta E)) := by
  obtain ⟨k, hk, hs⟩ := run_stat c xs
  rw [← hrun] at hs
  have hk' : s.since = k := by
    have := hs.since; simp at this; rw [this]; omega
  rw [← hk', ← hE] at hs
  refine ⟨?_, by omega, hs.mean, hs.sum, hs.mn, hs.mx, ?_⟩
  · have := run_total c xs (init : State K)
    rw [hrun]
    show (runFrom c init xs).total = xs.length
    rw [this]; simp [init]
  · rcases List.eq_nil_or_concat xs with hnil | ⟨ys, x, hcat⟩
    · have h0 : s.since = 0 := by subst hnil; simp at hk; omega
      have hd : s.drift = .none := by rw [hrun, hnil]; rfl
      simp [hd, h0]
    · have hrun' : s = (step c (run c ys) x).1 := by
        rw [hrun, hcat, List.concat_eq_append]; exact run_snoc c ys x
      rw [hrun'] at hs ⊢
      exact decision_of_stat c _ x E hs


/-- `ph_mean` (DESIGN §7): the running mean is the arithmetic mean of the current epoch -/
theorem ph_mean (c : Cfg K) (xs : List K) :
    (run c xs).mean = (xs.reverse.take (run c xs).since).sum /
      ((xs.reverse.take (run c xs).since).length : K) :=
  (ph_spec c xs _ _ rfl rfl).2.2.1

end field

def exCfg : Cfg ℚ := { delta := 0, threshold := 0, burnIn := 1, dir := .positive }

example : ((run exCfg [0, 2]).drift, (run exCfg [0, 2]).mean, (run exCfg [0, 2]).sum) = (.drift, 1, 1) := by
  simp [run, step, core, reset, init, zero, exCfg]; norm_num
example : ((run exCfg [0, 2, 5]).total, (run exCfg [0, 2, 5]).since, (run exCfg [0, 2, 5]).mean) = (3, 1, 5) := by
  simp [run, step, core, reset, init, zero, exCfg]; norm_num
end MV.PH
