/-
  C19 (reference statistics) — "MD3 summarises its reference batch of N rows by the mean and
  standard deviation, over k cross-validation folds, of the margin density and of the
  classifier's accuracy".

  Model: Model/MD3Ref.lean (`refStats`, and MD3 run with fold bit lists: `initF`/`stepF`/`runF`).
  Oracle inputs that remain: which rows are in which fold (KFold, shuffled, random_state 42),
  and per test sample the margin bit and the correctness bit under the re-fitted classifier.

  Part A (every carrier, no arithmetic law — so also the executed `Float` instance):
    `len` is the number of samples; the standard deviations are `sqrt` of the radicands;
    the summary does not depend on the order of the samples inside a fold;
    **connection**: MD3 run with fold bit lists is the oracle-form model of Model/MD3.lean fed
    `refStats folds` (call by call, state and outcome), so every theorem of Props/C19.lean
    transfers (`inv_reachableF`, `oracle_roundF` are two of them, transferred);
    in every reachable state the reference is `refStats` of the initial folds or of the folds
    of one of the label calls, and the forgetting factor is `forgetting` of *its* length.
  Part B (ordered fields; `sqrt` enters only through `HasSqrt`, about which nothing is assumed
    unless a hypothesis says so):
    numpy's pairwise summation is the sum; `md` / `acc` are the arithmetic means over the folds
    of (count / fold size); radicand · k = Σ (x_fold − mean)²; radicands ≥ 0; 0 ≤ md, acc ≤ 1;
    folds of equal size ⇒ fold mean = pooled ratio; closed counter-example with unequal folds;
    forgetting factor = (len − 1)/len for the modelled len.

  Inputs the real code rejects (KFold raises ValueError): k < 2 and k > number of rows; hence
  no fold is empty.  The algebraic statements below do not need these hypotheses (a field's
  `x / 0 = 0` keeps them true); where a hypothesis `folds ≠ []` / equal sizes appears it is needed.
-/
import MenelausVerif.Model.MD3Ref
import MenelausVerif.Props.C19
import Mathlib.Tactic.Ring
import Mathlib.Tactic.FieldSimp
import Mathlib.Tactic.Linarith
import Mathlib.Tactic.Positivity
import Mathlib.Algebra.Order.Field.Basic
import Mathlib.Algebra.BigOperators.Group.List.Basic
import Mathlib.Analysis.Real.Sqrt
namespace MV.MD3
open MV

/-- number of in-margin test samples of a fold -/
def inCount (f : Fold) : Nat := (f.map Prod.fst).count true
/-- number of correctly classified test samples of a fold -/
def okCount (f : Fold) : Nat := (f.map Prod.snd).count true

theorem inCount_eq_countP (f : Fold) : inCount f = f.countP (fun s => s.1) := by
  simp [inCount, List.count_eq_countP, List.countP_map, Function.comp_def]

theorem okCount_eq_countP (f : Fold) : okCount f = f.countP (fun s => s.2) := by
  simp [okCount, List.count_eq_countP, List.countP_map, Function.comp_def]

/-! ## Part A — every carrier -/

section anyCarrier
set_option linter.unusedSectionVars false
variable {α : Type} [Add α] [Sub α] [Mul α] [Div α] [Neg α] [LT α] [DecidableLT α] [NatCast α]
  [HasSqrt α]

/-- **len**: the modelled length is the sum of the fold sizes … -/
theorem refStats_len (folds : List Fold) :
    (refStats folds : Ref α).len = (folds.map List.length).sum := rfl

/-- … which is the total number of samples -/
theorem totalLen_eq_flatten (folds : List Fold) : totalLen folds = folds.flatten.length := by
  simp [totalLen, List.length_flatten]

/-- the five statistics, field by field: means of the per-fold ratios and `sqrt` of the radicands -/
theorem refStats_fields (folds : List Fold) :
    (refStats folds : Ref α).md = npMean (folds.map foldMd) ∧
    (refStats folds : Ref α).mdStd = sqrt (mdVar folds) ∧
    (refStats folds : Ref α).acc = npMean (folds.map foldAcc) ∧
    (refStats folds : Ref α).accStd = sqrt (accVar folds) ∧
    (refStats folds : Ref α).len = folds.flatten.length :=
  ⟨rfl, rfl, rfl, rfl, by rw [refStats_len]; exact totalLen_eq_flatten folds⟩

/-- a fold's margin density / accuracy read only the fold's size and the two counts -/
theorem foldMd_foldAcc_counts (f : Fold) :
    (foldMd f : α) = ((inCount f : Nat) : α) / ((f.length : Nat) : α) ∧
    (foldAcc f : α) = ((okCount f : Nat) : α) / ((f.length : Nat) : α) := by
  simp [foldMd, foldAcc, ratio, inCount, okCount]

theorem fold_perm (f g : Fold) (hp : f.Perm g) :
    (foldMd f : α) = foldMd g ∧ (foldAcc f : α) = foldAcc g := by
  simp [foldMd, foldAcc, ratio, (hp.map Prod.fst).count_eq, (hp.map Prod.snd).count_eq, hp.length_eq]

/-- the summary does not depend on the order of the samples inside a fold (the order of
    `test_index`), only on the folds' sizes and counts -/
theorem refStats_perm_within (folds folds' : List Fold) (h : List.Forall₂ List.Perm folds folds') :
    (refStats folds : Ref α) = refStats folds' := by
  have key : (foldMds folds : List α) = foldMds folds' ∧ (foldAccs folds : List α) = foldAccs folds' ∧
      totalLen folds = totalLen folds' := by
    induction h with
    | nil => exact ⟨rfl, rfl, rfl⟩
    | cons hp _ ih =>
      obtain ⟨h1, h2, h3⟩ := ih
      obtain ⟨e1, e2⟩ := fold_perm (α := α) _ _ hp
      refine ⟨?_, ?_, ?_⟩
      · simp only [foldMds, List.map_cons] at h1 ⊢; rw [h1, e1]
      · simp only [foldAccs, List.map_cons] at h2 ⊢; rw [h2, e2]
      · simp only [totalLen, List.map_cons, List.sum_cons] at h3 ⊢; rw [h3, hp.length_eq]
  obtain ⟨h1, h2, h3⟩ := key
  simp only [refStats, h1, h2, h3]

/-- the `fuel` of `pairwiseSum` only bounds the recursion depth: every amount of fuel that is at
    least the length of the vector gives the same additions in the same order (each recursive call
    is on a strictly shorter vector), so `npSum`'s `fuel = length` never runs out and the split
    branch of numpy's routine is followed all the way down to blocks of at most 128 elements -/
theorem pairwiseSum_fuel_irrelevant (f1 : Nat) : ∀ (f2 : Nat) (xs : List α),
    xs.length ≤ f1 → xs.length ≤ f2 → pairwiseSum f1 xs = pairwiseSum f2 xs := by
  induction f1 with
  | zero =>
    intro f2 xs h1 _
    have : xs = [] := List.eq_nil_of_length_eq_zero (by omega)
    subst this
    cases f2 <;> simp [pairwiseSum, pwBlock]
  | succ n ih =>
    intro f2 xs h1 h2
    cases f2 with
    | zero =>
      have : xs = [] := List.eq_nil_of_length_eq_zero (by omega)
      subst this
      simp [pairwiseSum, pwBlock]
    | succ m =>
      unfold pairwiseSum
      split
      · rfl
      · rename_i hlen
        have hs : 1 ≤ pwSplit xs.length ∧ pwSplit xs.length < xs.length := by
          unfold pwSplit; unfold pwBlock at hlen; omega
        rw [ih m (xs.take _) (by rw [List.length_take]; omega) (by rw [List.length_take]; omega),
          ih m (xs.drop _) (by rw [List.length_drop]; omega) (by rw [List.length_drop]; omega)]

/-! ### Connection with the oracle-form model (Model/MD3.lean, Props/C19.lean) -/

theorem initF_eq_init (c : Cfg α) (folds : List Fold) : initF c folds = init c (refStats folds) := rfl

/-- one call: same state and same outcome as the oracle-form model given `refStats folds` -/
theorem stepF_eq_step (c : Cfg α) (s : State α) (op : OpF) : stepF c s op = step c s op.toOp := by
  cases op <;> rfl

theorem runF_eq_run (c : Cfg α) (s : State α) (ops : List OpF) :
    runF c s ops = run c s (ops.map OpF.toOp) := by
  induction ops generalizing s with
  | nil => rfl
  | cons op ops ih =>
    have h1 : runF c s (op :: ops) = runF c (stepF c s op).1 ops := rfl
    rw [h1, ih, stepF_eq_step, List.map_cons, run_cons]

/-- **connection**: the MD3 model that computes its reference summaries from fold bit lists
    equals, on every history, the oracle-form model of Model/MD3.lean fed the modelled statistics
    `refStats folds` (initially and at every label call).  Every theorem of Props/C19.lean about
    `run c (init c r) ops` therefore holds for the modelled statistics. -/
theorem refStats_connection (c : Cfg α) (folds0 : List Fold) (ops : List OpF) :
    runF c (initF c folds0) ops = run c (init c (refStats folds0)) (ops.map OpF.toOp) := by
  rw [runF_eq_run, initF_eq_init]

/-- transferred: `inv_reachable` -/
theorem inv_reachableF (c : Cfg α) (folds0 : List Fold)
    (h : 0 < c.oracleLen.getD (totalLen folds0)) (ops : List OpF) :
    Inv (runF c (initF c folds0) ops) := by
  rw [refStats_connection]
  exact inv_reachable c (refStats folds0) h _

/-- transferred: `oracle_round`, with the adopted reference now *computed*: any history with exactly
    N−1 well-formed labelled samples followed by one more whose accumulated batch has k-fold bits
    `folds` ends with reference `refStats folds`, forgetting factor `forgetting (Σ fold sizes)` and
    the margin density restarted at the fold-mean margin density. -/
theorem oracle_roundF (c : Cfg α) (s : State α) (ops : List OpF) (cols : List Nat) (b : Bool)
    (folds : List Fold) (hw : s.waiting = true) (hl : s.labels = [])
    (hn : (labelBits c (ops.map OpF.toOp)).length + 1 = s.oracleReq)
    (hc : sameColumns cols c.refCols = true) :
    runF c s (ops ++ [.label 1 cols b folds]) =
      { s with drift := if confirmTest c s.ref (b :: (labelBits c (ops.map OpF.toOp)).reverse) = true
                          then .drift else .none,
               waiting := false, labels := [], ref := refStats folds,
               lam := forgetting (totalLen folds), md := npMean (foldMds folds) } := by
  have hb : labelBit c (OpF.label 1 cols b folds).toOp = some b := by
    simp [OpF.toOp, labelBit, hc]
  obtain ⟨nr, ⟨rows', cols', hop⟩, hrun, _⟩ :=
    oracle_round c s (ops.map OpF.toOp) (OpF.label 1 cols b folds).toOp b hw hl hn hb
  have hnr : nr = refStats folds := by
    simp only [OpF.toOp] at hop
    injection hop with _ _ _ h4
    exact h4.symm
  rw [runF_eq_run, List.map_append, List.map_singleton, hrun, hnr]
  rfl

/-- one call either keeps reference and forgetting factor, or it is a label call and the new
    reference is the modelled summary of *its* folds, with forgetting factor and restarted margin
    density taken from that summary -/
theorem stepF_ref (c : Cfg α) (s : State α) (op : OpF) :
    ((stepF c s op).1.ref = s.ref ∧ (stepF c s op).1.lam = s.lam) ∨
    ∃ rows cols b folds, op = .label rows cols b folds ∧
      (stepF c s op).1.ref = refStats folds ∧
      (stepF c s op).1.lam = forgetting (totalLen folds) ∧
      (stepF c s op).1.md = npMean (foldMds folds) := by
  cases op with
  | update rows sig =>
    left
    simp only [stepF]
    constructor <;> grind [update, updateCore, prep, reset]
  | label rows cols b folds =>
    by_cases h : s.waiting = true ∧ rows = 1 ∧ sameColumns cols c.refCols = true ∧
        s.labels.length + 1 = s.oracleReq
    · right
      obtain ⟨h1, h2, h3, h4⟩ := h
      refine ⟨rows, cols, b, folds, rfl, ?_⟩
      simp [stepF, labelF, labelCoreF, decideF, setReferenceF, h1, h2, h3, h4, refStats]
    · left
      simp only [stepF]
      constructor <;> grind [labelF, labelCoreF, decideF, setReferenceF]

theorem runF_ref (c : Cfg α) (ops : List OpF) : ∀ (s : State α) (folds0 : List Fold),
    s.ref = refStats folds0 → s.lam = forgetting (totalLen folds0) →
    ∃ folds, (folds = folds0 ∨ ∃ rows cols b, OpF.label rows cols b folds ∈ ops) ∧
      (runF c s ops).ref = refStats folds ∧ (runF c s ops).lam = forgetting (totalLen folds) := by
  induction ops with
  | nil => intro s folds0 h1 h2; exact ⟨folds0, Or.inl rfl, h1, h2⟩
  | cons op ops ih =>
    intro s folds0 h1 h2
    have hr : runF c s (op :: ops) = runF c (stepF c s op).1 ops := rfl
    rw [hr]
    rcases stepF_ref c s op with ⟨e1, e2⟩ | ⟨rows, cols, b, folds1, hop, e1, e2, _⟩
    · obtain ⟨folds, hf, r1, r2⟩ := ih (stepF c s op).1 folds0 (e1.trans h1) (e2.trans h2)
      refine ⟨folds, ?_, r1, r2⟩
      rcases hf with rfl | ⟨rows, cols, b, hm⟩
      · exact Or.inl rfl
      · exact Or.inr ⟨rows, cols, b, List.mem_cons_of_mem _ hm⟩
    · obtain ⟨folds, hf, r1, r2⟩ := ih (stepF c s op).1 folds1 e1 e2
      refine ⟨folds, Or.inr ?_, r1, r2⟩
      rcases hf with rfl | ⟨rows', cols', b', hm⟩
      · exact ⟨rows, cols, b, by rw [hop]; exact List.mem_cons_self⟩
      · exact ⟨rows', cols', b', List.mem_cons_of_mem _ hm⟩

/-- **the reference is always a modelled summary, and the forgetting factor follows its length**:
    after any history, the detector's reference is `refStats` of the initial folds or of the folds
    carried by one of the history's label calls, and `forgetting_factor` is `forgetting` of the
    number of samples in *those* folds (see `forgetting_modelled` for the field reading (len−1)/len). -/
theorem ref_is_modelled (c : Cfg α) (folds0 : List Fold) (ops : List OpF) :
    ∃ folds, (folds = folds0 ∨ ∃ rows cols b, OpF.label rows cols b folds ∈ ops) ∧
      (runF c (initF c folds0) ops).ref = refStats folds ∧
      (runF c (initF c folds0) ops).lam = forgetting (totalLen folds) :=
  runF_ref c ops (initF c folds0) folds0 rfl rfl

end anyCarrier

/-! ## Part B — ordered fields -/

section field
set_option linter.unusedSectionVars false
variable {K : Type} [Field K] [LinearOrder K] [IsStrictOrderedRing K]

/-! ### numpy's pairwise summation is the sum -/

theorem addSeq_eq (r : K) (xs : List K) : addSeq r xs = r + xs.sum := by
  induction xs generalizing r with
  | nil => simp [addSeq]
  | cons a t ih =>
    have : addSeq r (a :: t) = addSeq (r + a) t := rfl
    rw [this, ih, List.sum_cons]; ring

theorem lanesGo_eq (r : Lanes K) (xs : List K) :
    (lanesGo r xs).1.combine + (lanesGo r xs).2.sum = r.combine + xs.sum := by
  fun_induction lanesGo r xs with
  | case1 r a0 a1 a2 a3 a4 a5 a6 a7 rest ih =>
    rw [ih]; simp only [Lanes.combine, List.sum_cons]; ring
  | case2 r rest h => rfl

theorem blockSum_eq (xs : List K) : blockSum xs = xs.sum := by
  fun_cases blockSum xs with
  | case1 a0 a1 a2 a3 a4 a5 a6 a7 rest p =>
    rw [addSeq_eq, lanesGo_eq]; simp only [Lanes.combine, List.sum_cons]; ring
  | case2 xs h => rw [addSeq_eq]; simp [zero]

theorem pairwiseSum_eq (fuel : Nat) (xs : List K) : pairwiseSum fuel xs = xs.sum := by
  induction fuel generalizing xs with
  | zero => exact blockSum_eq xs
  | succ n ih =>
    unfold pairwiseSum
    split
    · exact blockSum_eq xs
    · rw [ih, ih, List.sum_take_add_sum_drop]

/-- `np.add.reduce` (8 lanes, blocks of 128, recursive halving) adds up to the plain sum;
    whatever the `fuel` (so the bound on the recursion depth plays no role in exact arithmetic) -/
theorem npSum_eq_sum (xs : List K) : npSum xs = xs.sum := pairwiseSum_eq _ xs

theorem npMean_eq (xs : List K) : npMean xs = xs.sum / (xs.length : K) := by
  unfold npMean; rw [npSum_eq_sum]

theorem npVar_eq (xs : List K) :
    npVar xs = (xs.map (fun x => (x - npMean xs) ^ 2)).sum / (xs.length : K) := by
  show npSum (xs.map (fun x => (x - npMean xs) * (x - npMean xs))) / _ = _
  rw [npSum_eq_sum]
  simp only [pow_two]

/-- the radicand of `np.std`, times the number of values, is the sum of squared deviations from the mean -/
theorem npVar_mul_length (xs : List K) (h : xs ≠ []) :
    npVar xs * (xs.length : K) = (xs.map (fun x => (x - npMean xs) ^ 2)).sum := by
  have hk : (xs.length : K) ≠ 0 := by
    have : xs.length ≠ 0 := by simpa using h
    exact_mod_cast this
  rw [npVar_eq, div_mul_cancel₀ _ hk]

theorem npVar_nonneg (xs : List K) : 0 ≤ npVar xs := by
  rw [npVar_eq]
  apply div_nonneg _ (Nat.cast_nonneg _)
  apply List.sum_nonneg
  intro x hx
  obtain ⟨y, _, rfl⟩ := List.mem_map.1 hx
  positivity

theorem sum_unit (xs : List K) (h : ∀ x ∈ xs, 0 ≤ x ∧ x ≤ 1) :
    0 ≤ xs.sum ∧ xs.sum ≤ (xs.length : K) := by
  induction xs with
  | nil => simp
  | cons a t ih =>
    obtain ⟨h0, h1⟩ := ih (fun x hx => h x (List.mem_cons_of_mem _ hx))
    obtain ⟨a0, a1⟩ := h a List.mem_cons_self
    simp only [List.sum_cons, List.length_cons, Nat.cast_add, Nat.cast_one]
    constructor <;> linarith

/-- the mean of values in [0,1] is in [0,1] -/
theorem npMean_unit (xs : List K) (h : ∀ x ∈ xs, 0 ≤ x ∧ x ≤ 1) :
    0 ≤ npMean xs ∧ npMean xs ≤ 1 := by
  obtain ⟨h0, h1⟩ := sum_unit xs h
  rw [npMean_eq]
  exact ⟨div_nonneg h0 (Nat.cast_nonneg _), div_le_one_of_le₀ h1 (Nat.cast_nonneg _)⟩

theorem ratio_unit (bits : List Bool) : 0 ≤ (ratio bits : K) ∧ (ratio bits : K) ≤ 1 := by
  unfold ratio
  refine ⟨div_nonneg (Nat.cast_nonneg _) (Nat.cast_nonneg _), div_le_one_of_le₀ ?_ (Nat.cast_nonneg _)⟩
  exact_mod_cast List.count_le_length

/-! ### The k-fold summary -/

variable [HasSqrt K]

theorem foldMds_eq (folds : List Fold) :
    (foldMds folds : List K) = folds.map (fun f => (inCount f : K) / (f.length : K)) := by
  unfold foldMds; apply List.map_congr_left; intro f _; exact (foldMd_foldAcc_counts f).1

theorem foldAccs_eq (folds : List Fold) :
    (foldAccs folds : List K) = folds.map (fun f => (okCount f : K) / (f.length : K)) := by
  unfold foldAccs; apply List.map_congr_left; intro f _; exact (foldMd_foldAcc_counts f).2

/-- **md is the arithmetic mean over the folds of (in-margin count / fold size)** -/
theorem refStats_md (folds : List Fold) :
    (refStats folds : Ref K).md =
      (folds.map (fun f => (inCount f : K) / (f.length : K))).sum / (folds.length : K) := by
  show npMean (foldMds folds) = _
  rw [npMean_eq, foldMds_eq, List.length_map]

/-- **acc is the arithmetic mean over the folds of (correct count / fold size)** -/
theorem refStats_acc (folds : List Fold) :
    (refStats folds : Ref K).acc =
      (folds.map (fun f => (okCount f : K) / (f.length : K))).sum / (folds.length : K) := by
  show npMean (foldAccs folds) = _
  rw [npMean_eq, foldAccs_eq, List.length_map]

/-- **md_std, without the square root**: `md_std = sqrt (mdVar folds)` (`refStats_fields`), and the
    radicand times k is the sum over the folds of the squared deviation of the fold's margin
    density from `md` (population variance: divisor k, not k−1) -/
theorem mdVar_mul_k (folds : List Fold) (h : folds ≠ []) :
    (mdVar folds : K) * (folds.length : K) =
      (folds.map (fun f => ((inCount f : K) / (f.length : K) - (refStats folds : Ref K).md) ^ 2)).sum := by
  have := npVar_mul_length (foldMds folds : List K) (by simpa [foldMds] using h)
  simpa [mdVar, foldMds, refStats, foldMd, ratio, inCount, Function.comp_def] using this

/-- **acc_std, without the square root** -/
theorem accVar_mul_k (folds : List Fold) (h : folds ≠ []) :
    (accVar folds : K) * (folds.length : K) =
      (folds.map (fun f => ((okCount f : K) / (f.length : K) - (refStats folds : Ref K).acc) ^ 2)).sum := by
  have := npVar_mul_length (foldAccs folds : List K) (by simpa [foldAccs] using h)
  simpa [accVar, foldAccs, refStats, foldAcc, ratio, okCount, Function.comp_def] using this

/-- the radicands are non-negative (so a genuine square root is applied inside its domain) -/
theorem radicands_nonneg (folds : List Fold) : 0 ≤ (mdVar folds : K) ∧ 0 ≤ (accVar folds : K) :=
  ⟨npVar_nonneg _, npVar_nonneg _⟩

/-- **md_std² · k = Σ (md_fold − md)²** and the same for the accuracy, for every carrier whose
    `sqrt` squares back on non-negative arguments (`Real.sqrt` does: example below) -/
theorem std_sq_mul_k (hs : ∀ x : K, 0 ≤ x → sqrt x * sqrt x = x) (folds : List Fold) (h : folds ≠ []) :
    (refStats folds : Ref K).mdStd * (refStats folds : Ref K).mdStd * (folds.length : K) =
      (folds.map (fun f => ((inCount f : K) / (f.length : K) - (refStats folds : Ref K).md) ^ 2)).sum ∧
    (refStats folds : Ref K).accStd * (refStats folds : Ref K).accStd * (folds.length : K) =
      (folds.map (fun f => ((okCount f : K) / (f.length : K) - (refStats folds : Ref K).acc) ^ 2)).sum := by
  have h1 : (refStats folds : Ref K).mdStd = sqrt (mdVar folds) := rfl
  have h2 : (refStats folds : Ref K).accStd = sqrt (accVar folds) := rfl
  rw [h1, h2, hs _ (radicands_nonneg folds).1, hs _ (radicands_nonneg folds).2]
  exact ⟨mdVar_mul_k folds h, accVar_mul_k folds h⟩

/-- **0 ≤ md ≤ 1 and 0 ≤ acc ≤ 1** -/
theorem refStats_unit (folds : List Fold) :
    (0 ≤ (refStats folds : Ref K).md ∧ (refStats folds : Ref K).md ≤ 1) ∧
    (0 ≤ (refStats folds : Ref K).acc ∧ (refStats folds : Ref K).acc ≤ 1) := by
  constructor
  · apply npMean_unit
    intro x hx
    obtain ⟨f, _, rfl⟩ := List.mem_map.1 hx
    exact ratio_unit _
  · apply npMean_unit
    intro x hx
    obtain ⟨f, _, rfl⟩ := List.mem_map.1 hx
    exact ratio_unit _

theorem npMean_perm {xs ys : List K} (h : xs.Perm ys) : npMean xs = npMean ys := by
  rw [npMean_eq, npMean_eq, h.sum_eq, h.length_eq]

theorem npVar_perm {xs ys : List K} (h : xs.Perm ys) : npVar xs = npVar ys := by
  rw [npVar_eq, npVar_eq, npMean_perm h, (h.map _).sum_eq, h.length_eq]

/-- in exact arithmetic the order in which `KFold.split` yields the folds is immaterial (at `Float`
    it shows in the last bits through the order of the additions, which is why the model keeps it) -/
theorem refStats_perm_folds (folds folds' : List Fold) (h : folds.Perm folds') :
    (refStats folds : Ref K) = refStats folds' := by
  have h1 := h.map (foldMd (α := K))
  have h2 := h.map (foldAcc (α := K))
  have h3 : totalLen folds = totalLen folds' := (h.map List.length).sum_eq
  simp only [refStats, npStd, foldMds, foldAccs, npMean_perm h1, npMean_perm h2, npVar_perm h1,
    npVar_perm h2, h3]

/-! ### Fold mean versus pooled ratio -/

/-- for folds of one common size m, the sum of the per-fold ratios of a bit is the pooled count
    over m, and there are k·m samples -/
theorem equal_folds_sum (p : Sample → Bool) (m : Nat) (folds : List Fold)
    (h : ∀ f ∈ folds, f.length = m) :
    (folds.map (fun f => (ratio (f.map p) : K))).sum =
      (((folds.flatten.map p).count true : Nat) : K) / (m : K) ∧
    folds.flatten.length = folds.length * m := by
  induction folds with
  | nil => simp
  | cons f t ih =>
    obtain ⟨h1, h2⟩ := ih (fun g hg => h g (List.mem_cons_of_mem _ hg))
    have hf : f.length = m := h f List.mem_cons_self
    constructor
    · rw [List.map_cons, List.sum_cons, h1, List.flatten_cons, List.map_append, List.count_append,
        Nat.cast_add, add_div]
      simp [ratio, hf]
    · simp only [List.flatten_cons, List.length_append, h2, hf, List.length_cons]; ring

/-- **equal-size folds ⇒ fold mean = pooled ratio**: when all k folds have the same size, `md` is
    the in-margin count of the whole batch over N, and `acc` the correct count over N -/
theorem refStats_pooled_of_equal_folds (folds : List Fold) (m : Nat)
    (h : ∀ f ∈ folds, f.length = m) :
    (refStats folds : Ref K).md = (inCount folds.flatten : K) / ((refStats folds : Ref K).len : K) ∧
    (refStats folds : Ref K).acc = (okCount folds.flatten : K) / ((refStats folds : Ref K).len : K) := by
  have hlen : (refStats folds : Ref K).len = folds.length * m := by
    rw [refStats_len, ← (equal_folds_sum (K := K) Prod.fst m folds h).2]
    exact totalLen_eq_flatten folds
  obtain ⟨s1, _⟩ := equal_folds_sum (K := K) Prod.fst m folds h
  obtain ⟨s2, _⟩ := equal_folds_sum (K := K) Prod.snd m folds h
  have e1 : (refStats folds : Ref K).md =
      (folds.map (fun f => (ratio (f.map Prod.fst) : K))).sum / (folds.length : K) := by
    show npMean (foldMds folds) = _
    rw [npMean_eq]; simp only [foldMds, List.length_map]; rfl
  have e2 : (refStats folds : Ref K).acc =
      (folds.map (fun f => (ratio (f.map Prod.snd) : K))).sum / (folds.length : K) := by
    show npMean (foldAccs folds) = _
    rw [npMean_eq]; simp only [foldAccs, List.length_map]; rfl
  refine ⟨?_, ?_⟩
  · rw [e1, s1, hlen, Nat.cast_mul, div_div, mul_comm (m : K)]; rfl
  · rw [e2, s2, hlen, Nat.cast_mul, div_div, mul_comm (m : K)]; rfl

/-! ### The forgetting factor -/

/-- **forgetting factor = (len − 1)/len with the modelled len**, initially … -/
theorem initF_forgetting (c : Cfg K) (folds : List Fold) (h : 1 ≤ totalLen folds) :
    (initF c folds).lam = ((totalLen folds : K) - 1) / (totalLen folds : K) ∧
    (initF c folds).ref.len = totalLen folds ∧ (initF c folds).md = (refStats folds : Ref K).md :=
  ⟨forgetting_eq _ h, rfl, rfl⟩

/-- … and after any history: the reference is the modelled summary of some folds (the initial
    ones or those of a label call of the history) and λ = (N − 1)/N for the number N of samples in
    those folds -/
theorem forgetting_modelled (c : Cfg K) (folds0 : List Fold) (ops : List OpF) :
    ∃ folds, (folds = folds0 ∨ ∃ rows cols b, OpF.label rows cols b folds ∈ ops) ∧
      (runF c (initF c folds0) ops).ref = refStats folds ∧
      (1 ≤ totalLen folds →
        (runF c (initF c folds0) ops).lam = ((totalLen folds : K) - 1) / (totalLen folds : K)) := by
  obtain ⟨folds, hf, h1, h2⟩ := ref_is_modelled c folds0 ops
  exact ⟨folds, hf, h1, fun h => by rw [h2]; exact forgetting_eq _ h⟩

end field

/-! ## Closed examples (ℚ) and non-vacuity -/

/-- exact on squares of rationals; only used to evaluate the closed examples below -/
local instance ratSqrt : HasSqrt ℚ := ⟨fun q => (Nat.sqrt q.num.toNat : ℚ) / (Nat.sqrt q.den : ℚ)⟩

/-- 2 folds of sizes 1 and 3: the only in-margin sample is alone in its fold -/
def exUnequal : List Fold := [[(true, true)], [(false, true), (false, false), (false, true)]]
/-- 2 folds of size 2 -/
def exEqual : List Fold := [[(true, true), (false, true)], [(false, false), (false, true)]]

/-- **counter-example (unequal fold sizes)**: the fold mean is not the pooled ratio — md is
    (1/1 + 0/3)/2 = 1/2 whereas 1 of the 4 samples is in the margin; acc is (1 + 2/3)/2 = 5/6
    whereas 3 of 4 are correct.  (A regression that pools the samples before dividing is visible
    exactly here.) -/
theorem fold_mean_ne_pooled :
    (refStats exUnequal : Ref ℚ).md = 1 / 2 ∧
    (inCount exUnequal.flatten : ℚ) / ((refStats exUnequal : Ref ℚ).len : ℚ) = 1 / 4 ∧
    (refStats exUnequal : Ref ℚ).acc = 5 / 6 ∧
    (okCount exUnequal.flatten : ℚ) / ((refStats exUnequal : Ref ℚ).len : ℚ) = 3 / 4 ∧
    (refStats exUnequal : Ref ℚ).len = 4 := by decide +kernel

-- the whole summary of `exUnequal`: md = 1/2 ± 1/2, acc = 5/6 ± 1/6 (population deviation, divisor k = 2)
example : (refStats exUnequal : Ref ℚ).mdStd = 1 / 2 ∧ (refStats exUnequal : Ref ℚ).accStd = 1 / 6 ∧
    (mdVar exUnequal : ℚ) = 1 / 4 ∧ (accVar exUnequal : ℚ) = 1 / 36 := by decide +kernel
-- equal folds (hypothesis of `refStats_pooled_of_equal_folds` with m = 2): md = (1/2 + 0)/2 = 1/4 = 1 of 4
example : (∀ f ∈ exEqual, f.length = 2) ∧ (refStats exEqual : Ref ℚ).md = 1 / 4 ∧
    (refStats exEqual : Ref ℚ).acc = 3 / 4 ∧ (refStats exEqual : Ref ℚ).len = 4 := by decide +kernel
-- `mdVar_mul_k` / `std_sq_mul_k`: folds ≠ [] is satisfiable and the deviations are not all zero
example : exEqual ≠ [] ∧ (mdVar exEqual : ℚ) * 2 = 1 / 8 ∧ (refStats exEqual : Ref ℚ).mdStd = 1 / 4 := by
  decide +kernel
-- `refStats_perm_within` (and `refStats_perm_folds`: `exUnequal.reverse` is a permutation of `exUnequal`)
example : List.Forall₂ List.Perm exEqual [[(false, true), (true, true)], [(false, true), (false, false)]] :=
  .cons (List.Perm.swap _ _ _) (.cons (List.Perm.swap _ _ _) .nil)

-- the 8-lane branch and the remainder loop of numpy's summation are exercised: 11 folds
def exEleven : List Fold :=
  [[(true, true)], [(false, true)], [(true, false)], [(false, false)], [(true, true)], [(false, true)],
   [(true, true)], [(false, true)], [(true, false)], [(true, true), (false, false)], [(false, true), (false, true), (true, true)]]
example : (refStats exEleven : Ref ℚ).md = (5 + 1 / 2 + 1 / 3) / 11 ∧ (refStats exEleven : Ref ℚ).len = 14 := by
  decide +kernel

-- the recursive branch (more than 128 folds: split at 144 = 300/2 rounded down to a multiple of 8)
example : npSum (List.replicate 300 (1 / 3 : ℚ)) = 100 ∧ pwSplit 300 = 144 ∧
    pairwiseSum 1000 (List.replicate 300 (1 / 3 : ℚ)) = 100 := by decide +kernel

/-- a reference of 4 rows in 2 folds, then a history with one complete oracle round (N = 2) whose
    adopted batch has folds of sizes 1 and 1 -/
def exCfgF : Cfg ℚ := { sens := 1, oracleLen := some 2, refCols := [1, 2, 3] }
def exNewFolds : List Fold := [[(true, false)], [(true, true)]]
def exOpsF : List OpF :=
  [.update 1 true, .update 1 true, .label 1 [1, 4, 3] true exNewFolds, .label 1 [3, 1, 2] false exNewFolds,
   .label 1 [1, 2, 3] true exNewFolds, .update 1 false]

-- `refStats_connection` / `inv_reachableF`: hypothesis satisfiable
example : 0 < exCfgF.oracleLen.getD (totalLen exEqual) := by decide
-- the run (reference md 1/4 ± 1/4, acc 3/4 ± 1/4, λ = 3/4): md 7/16 (deviation 3/16, no warning), md 37/64
-- (deviation 21/64 > 1/4: warning); a refused label (renamed column), two accepted ones (accuracy 1/2: the drop
-- 1/4 is not more than 1·1/4, drift ruled out); the decision adopts `refStats exNewFolds` (md 1 ± 0,
-- acc 1/2 ± 1/2, len 2, λ = 1/2) and the next update starts from md = 1
example : (runF exCfgF (initF exCfgF exEqual) (exOpsF.take 2)).waiting = true ∧
    (runF exCfgF (initF exCfgF exEqual) (exOpsF.take 5)).ref.len = 2 ∧
    (runF exCfgF (initF exCfgF exEqual) (exOpsF.take 5)).ref.acc = 1 / 2 ∧
    (runF exCfgF (initF exCfgF exEqual) (exOpsF.take 5)).ref.accStd = 1 / 2 ∧
    (runF exCfgF (initF exCfgF exEqual) (exOpsF.take 5)).lam = 1 / 2 ∧
    (runF exCfgF (initF exCfgF exEqual) (exOpsF.take 5)).md = 1 ∧
    (runF exCfgF (initF exCfgF exEqual) (exOpsF.take 5)).waiting = false ∧
    (runF exCfgF (initF exCfgF exEqual) (exOpsF.take 5)).drift = .none ∧
    (runF exCfgF (initF exCfgF exEqual) (exOpsF.take 1)).md = 7 / 16 ∧
    (runF exCfgF (initF exCfgF exEqual) (exOpsF.take 2)).md = 37 / 64 ∧
    (runF exCfgF (initF exCfgF exEqual) exOpsF).md = 1 / 2 := by decide +kernel
-- `oracle_roundF`: its hypotheses hold in the state where the warning was raised
example : (runF exCfgF (initF exCfgF exEqual) (exOpsF.take 2)).labels = [] ∧
    (labelBits exCfgF (((exOpsF.drop 2).take 2).map OpF.toOp)).length + 1
      = (runF exCfgF (initF exCfgF exEqual) (exOpsF.take 2)).oracleReq ∧
    sameColumns [1, 2, 3] exCfgF.refCols = true := by decide +kernel

-- `std_sq_mul_k`: its hypothesis on `sqrt` holds for the real square root
noncomputable local instance realHasSqrtC19 : HasSqrt ℝ := ⟨Real.sqrt⟩
example : ∀ x : ℝ, 0 ≤ x → sqrt x * sqrt x = x := fun _ hx => Real.mul_self_sqrt hx

end MV.MD3
