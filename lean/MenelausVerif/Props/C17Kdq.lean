/-
  C17 — kdq-tree detectors (`KdqTreeBatch`, `KdqTreeStreaming`): a smaller `alpha` is stricter.

  The critical value is `np.quantile(bootstrap KLDs, 1 - alpha, method="nearest")`
  (`Model/KdqDetect.lean`: `criticalKld`, `quantileNearest`): the element of rank
  `rint((B-1)·(1-alpha))` of the ascending bootstrap divergences.

  1. `getD_mono_of_sorted`, `quantileNearest_mono_of_rank` (any linear order): for a fixed sample a
     larger rank index gives a larger (≥) order statistic.
  2. `RintLaw K`: what the rank computation needs of the rounding helper `HasRint.rint` on a lawful
     carrier — monotone on non-negative arguments and the identity on naturals.  `rintHE_law`: the
     round-half-to-even function `rintHE` (the transcription of `np.around` that `rintFloat` is the
     `Float` version of) satisfies it on every ordered field with a floor (`ℚ`, `ℝ`);
     `rank_mono`, `rank_lt_length`: hence the model's rank is monotone in the level and in range for
     levels in `[0, 1]` (numpy raises for levels outside `[0, 1]`).
  3. `quantileNearest_mono`, `critical_antitone`: the critical value is antitone in `alpha`.
  4. Batch: before the first alarm the two runs differ in the stored critical value only
     (`BRel`); `kdqBatch_first_drift_mono`.
  5. Streaming: the persistence counter is part of the pre-alarm state and depends on the critical
     value, so there is no threshold-free statistics run.  The right formulation is the simulation
     `SRel`: all fields equal except `critical` (looser ≤ stricter) and `counter`
     (stricter ≤ looser).  `stream_sim`: it is kept by every update that does not alarm under the
     looser setting, and an alarm under the stricter setting forces an alarm under the looser one at
     the same update.  `kdqStream_first_drift_mono` (alpha), `kdqStream_first_drift_mono_cfg`
     (alpha and `persistence` together: a larger persistence factor is stricter too).

  Carrier: ordered fields `K` (`log` arbitrary: no property of the divergence is used, both runs
  compute the *same* divergences), rounding helper subject to `RintLaw`.  Updates whose tree
  construction runs out of fuel (`none` = Python's `RecursionError`) leave the state alone in the
  total step functions `bStepT` / `sStepT`, so they count as positions without drift (they are the
  same positions in both runs before the first alarm; over an ordered field with `cplb ≥ 0` there are
  none, `Props/C08.lean` `build_terminates`).
-/
import MenelausVerif.Props.C17
import MenelausVerif.Lemmas.C17Sim
import MenelausVerif.Props.C09
import Mathlib.Algebra.Order.Field.Basic
import Mathlib.Algebra.Order.Floor.Ring
import Mathlib.Tactic.Linarith
import Mathlib.Tactic.NormNum
set_option linter.unusedSectionVars false
set_option linter.unusedSimpArgs false

namespace MV.C17.Kdq
open MV MV.Mono MV.Kdq MV.KdqDet

/-- the drift flag as a `Bool` -/
def isD (d : Drift) : Bool := d == .drift
theorem isD_false {d : Drift} : isD d = false ↔ d ≠ .drift := by cases d <;> simp [isD]
theorem isD_true {d : Drift} : isD d = true ↔ d = .drift := by cases d <;> simp [isD]

/-! ## 1. order statistics of a sorted sample -/
section order
variable {K : Type} [LinearOrder K]

/-- in an ascending list a later position holds a larger (≥) element -/
theorem getD_mono_of_sorted (l : List K) (hl : l.Pairwise (· ≤ ·)) (d : K) {i j : Nat}
    (hij : i ≤ j) (hj : j < l.length) : l.getD i d ≤ l.getD j d := by
  have hi : i < l.length := lt_of_le_of_lt hij hj
  have e : ∀ k (hk : k < l.length), l.getD k d = l[k] := by
    intro k hk; simp [List.getD_eq_getElem?_getD, hk]
  rw [e i hi, e j hj]
  rcases Nat.lt_or_eq_of_le hij with h | h
  · exact (List.pairwise_iff_getElem.mp hl) i j hi hj h
  · subst h; exact le_refl _

theorem sortAsc_length (l : List K) : (sortAsc l).length = l.length := (sortAsc_perm l).length_eq

variable [Inhabited K] [Mul K] [NatCast K] [HasRint K]

/-- the rank index `np.quantile(xs, q, method="nearest")` reads -/
def rank (n : Nat) (q : K) : Nat := HasRint.rint (((n - 1 : Nat) : K) * q)

theorem quantileNearest_eq (xs : List K) (q : K) :
    quantileNearest xs q = (sortAsc xs).getD (rank xs.length q) default := rfl

/-- **nearest-rank quantile, at the level of the rank index**: whatever the rounding helper does,
    if it orders the two ranks and the larger one is a position of the sample, the quantiles are
    ordered the same way -/
theorem quantileNearest_mono_of_rank (xs : List K) (q1 q2 : K)
    (hr : rank xs.length q1 ≤ rank xs.length q2) (hlt : rank xs.length q2 < xs.length) :
    quantileNearest xs q1 ≤ quantileNearest xs q2 := by
  rw [quantileNearest_eq, quantileNearest_eq]
  exact getD_mono_of_sorted _ (sortAsc_sorted xs) default hr (by rw [sortAsc_length]; exact hlt)

end order

/-! ## 2. the rounding helper on a lawful carrier -/

/-- what the rank computation needs of `np.around(x).astype(intp)` in exact arithmetic -/
structure RintLaw (K : Type) [Field K] [LinearOrder K] [HasRint K] : Prop where
  mono : ∀ x y : K, (0 : K) ≤ x → x ≤ y → HasRint.rint x ≤ HasRint.rint y
  natCast : ∀ n : Nat, HasRint.rint ((n : Nat) : K) = n

section rint
variable {K : Type} [Field K] [LinearOrder K] [IsStrictOrderedRing K]

/-- round half to even on a non-negative value, written like `rintFloat` (floor, fractional part
    against 1/2, parity of the floor on a tie) -/
def rintHE [FloorRing K] (x : K) : Nat :=
  let f := ⌊x⌋
  if x - f < 1 / 2 then f.toNat
  else if 1 / 2 < x - f then f.toNat + 1
  else if f % 2 = 0 then f.toNat else f.toNat + 1

theorem rintHE_ge_floor [FloorRing K] (x : K) : ⌊x⌋.toNat ≤ rintHE x := by
  unfold rintHE; simp only; split
  · exact le_refl _
  · split
    · omega
    · split <;> omega

theorem rintHE_le_floor_succ [FloorRing K] (x : K) : rintHE x ≤ ⌊x⌋.toNat + 1 := by
  unfold rintHE; simp only; split
  · omega
  · split
    · omega
    · split <;> omega

theorem rintHE_mono [FloorRing K] (x y : K) (hx : 0 ≤ x) (hxy : x ≤ y) : rintHE x ≤ rintHE y := by
  have hf : ⌊x⌋ ≤ ⌊y⌋ := Int.floor_mono hxy
  have hf0 : 0 ≤ ⌊x⌋ := Int.floor_nonneg.mpr hx
  rcases lt_or_eq_of_le hf with hlt | heq
  · calc rintHE x ≤ ⌊x⌋.toNat + 1 := rintHE_le_floor_succ x
      _ ≤ ⌊y⌋.toNat := by omega
      _ ≤ rintHE y := rintHE_ge_floor y
  · unfold rintHE
    simp only [← heq]
    have hd : x - (⌊x⌋ : K) ≤ y - (⌊x⌋ : K) := by linarith
    by_cases h1 : x - (⌊x⌋ : K) < 1 / 2
    · rw [if_pos h1]
      split
      · exact le_refl _
      · split
        · omega
        · split <;> omega
    · rw [if_neg h1]
      have h1' : ¬ y - (⌊x⌋ : K) < 1 / 2 := fun h => h1 (lt_of_le_of_lt hd h)
      rw [if_neg h1']
      by_cases h2 : 1 / 2 < x - (⌊x⌋ : K)
      · rw [if_pos h2, if_pos (lt_of_lt_of_le h2 hd)]
      · rw [if_neg h2]
        split_ifs <;> omega

theorem rintHE_natCast [FloorRing K] (n : Nat) : rintHE (n : K) = n := by
  unfold rintHE
  simp

/-- **the round-half-to-even helper is lawful** on every ordered field with a floor -/
theorem rintHE_law [FloorRing K] : @RintLaw K _ _ ⟨rintHE⟩ :=
  @RintLaw.mk K _ _ ⟨rintHE⟩ rintHE_mono rintHE_natCast

variable [HasRint K]

/-- the model's rank is monotone in the level (levels ≥ 0) -/
theorem rank_mono (hr : RintLaw K) (n : Nat) (q1 q2 : K) (h0 : 0 ≤ q1) (h12 : q1 ≤ q2) :
    rank n q1 ≤ rank n q2 := by
  have hn : (0 : K) ≤ ((n - 1 : Nat) : K) := Nat.cast_nonneg _
  exact hr.mono _ _ (mul_nonneg hn h0) (mul_le_mul_of_nonneg_left h12 hn)

/-- for a level in `[0, 1]` the rank is a position of a non-empty sample -/
theorem rank_lt_length (hr : RintLaw K) (n : Nat) (hn : 0 < n) (q : K) (h0 : 0 ≤ q) (h1 : q ≤ 1) :
    rank n q < n := by
  have hc : (0 : K) ≤ ((n - 1 : Nat) : K) := Nat.cast_nonneg _
  have : rank n q ≤ n - 1 := by
    calc rank n q ≤ HasRint.rint (((n - 1 : Nat) : K)) :=
          hr.mono _ _ (mul_nonneg hc h0) (by nlinarith)
      _ = n - 1 := hr.natCast _
  omega

variable [Inhabited K]

/-! ## 3. the nearest-rank quantile is monotone in its level, the critical value antitone in alpha -/

/-- **`np.quantile(xs, q, method="nearest")` is monotone in `q ∈ [0, 1]`** -/
theorem quantileNearest_mono (hr : RintLaw K) (xs : List K) (q1 q2 : K) (h0 : 0 ≤ q1) (h12 : q1 ≤ q2)
    (h1 : q2 ≤ 1) : quantileNearest xs q1 ≤ quantileNearest xs q2 := by
  cases xs with
  | nil => exact le_of_eq rfl
  | cons x xs =>
    exact quantileNearest_mono_of_rank _ q1 q2 (rank_mono hr _ q1 q2 h0 h12)
      (rank_lt_length hr _ (by simp) q2 (le_trans h0 h12) h1)

variable [BEq K] [HasLogExp K]

/-- **a smaller `alpha` gives a larger (≥) critical value** (same bootstrap draws) -/
theorem critical_antitone (hr : RintLaw K) (k s : Nat) (draws : List (List Nat)) (strict loose : K)
    (h0 : 0 ≤ strict) (hle : strict ≤ loose) (h1 : loose ≤ 1) :
    criticalKld k s draws loose ≤ criticalKld k s draws strict := by
  unfold criticalKld
  have e : ((1 : Nat) : K) = 1 := Nat.cast_one
  rw [e]
  exact quantileNearest_mono hr _ _ _ (by linarith) (by linarith) (by linarith)

end rint

/-! ## 4. `KdqTreeBatch` -/
section batch
variable {K : Type} [Field K] [LinearOrder K] [IsStrictOrderedRing K] [Inhabited K] [BEq K]
  [HasLogExp K] [HasRint K] [HasTrunc K]

/-- the stored critical value of the looser run is at most that of the stricter run -/
def critLe : Option K → Option K → Prop
  | none, none => True
  | some x, some y => x ≤ y
  | _, _ => False

theorem critLe_getD {a b : Option K} (h : critLe a b) (d : K) : a.getD d ≤ b.getD d := by
  cases a <;> cases b <;> simp_all [critLe]

/-- what one `update` consumes: number of columns, batch, bootstrap draws (used only by an update
    that builds a reference) -/
abbrev BIn (K : Type) := Nat × List (List K) × List (List Nat)

/-- `update` as a total function: a tree construction that runs out of fuel leaves the state -/
def bStepT (c : BCfg K) (s : BState K) (i : BIn K) : BState K :=
  match bStep c s i.1 i.2.1 i.2.2 with
  | some r => r.1
  | none => s

/-- the two runs before the first alarm: same state except for the stored critical value -/
structure BRel (a b : BState K) : Prop where
  total : a.total = b.total
  since : a.since = b.since
  drift : a.drift = b.drift
  quiet : a.drift ≠ .drift
  tree : a.tree = b.tree
  testDist : a.testDist = b.testDist
  refData : a.refData = b.refData
  crit : critLe a.critical b.critical

theorem bRel_refl (s : BState K) (h : s.drift ≠ .drift) : BRel s s :=
  ⟨rfl, rfl, rfl, h, rfl, rfl, rfl, by cases s.critical <;> simp [critLe]⟩

/-- `set_reference` under the two settings, from related states -/
theorem bSetRef_rel (hr : RintLaw K) (cL cS : BCfg K) (hp : cL.part = cS.part) (h0 : 0 ≤ cS.alpha)
    (hle : cS.alpha ≤ cL.alpha) (h1 : cL.alpha ≤ 1) (a b : BState K)
    (ht : a.total = b.total) (hrd : a.refData = b.refData) (m : Nat) (X : List (List K))
    (d : List (List Nat)) :
    (bSetRef cL a m X d = none ∧ bSetRef cS b m X d = none) ∨
    ∃ a' b', bSetRef cL a m X d = some a' ∧ bSetRef cS b m X d = some b' ∧ BRel a' b' := by
  unfold bSetRef
  rw [hp]
  cases build cS.part m X with
  | none => exact Or.inl ⟨rfl, rfl⟩
  | some t =>
    refine Or.inr ⟨_, _, rfl, rfl, ?_⟩
    exact ⟨ht, rfl, rfl, by simp, rfl, rfl, hrd, critical_antitone hr _ _ d _ _ h0 hle h1⟩

/-- **one batch update under the two settings** -/
theorem batch_sim (hr : RintLaw K) (cL cS : BCfg K) (hp : cL.part = cS.part) (h0 : 0 ≤ cS.alpha)
    (hle : cS.alpha ≤ cL.alpha) (h1 : cL.alpha ≤ 1) (a b : BState K) (i : BIn K) (h : BRel a b) :
    (isD (bStepT cS b i).drift = true → isD (bStepT cL a i).drift = true) ∧
    (isD (bStepT cL a i).drift = false → BRel (bStepT cL a i) (bStepT cS b i)) := by
  obtain ⟨m, X, d⟩ := i
  obtain ⟨h_t, h_s, h_d, h_q, h_tr, h_td, h_rd, h_c⟩ := h
  have h_qb : b.drift ≠ .drift := h_d ▸ h_q
  unfold bStepT bStep
  simp only [if_neg h_q, if_neg h_qb]
  rw [← h_tr]
  cases htr : a.tree with
  | none =>
    simp only []
    rcases bSetRef_rel hr cL cS hp h0 hle h1
        { a with total := a.total + 1, since := a.since + 1, tree := none }
        { b with total := b.total + 1, since := b.since + 1, tree := none } (by simp [h_t]) h_rd m X d with
      ⟨e1, e2⟩ | ⟨a', b', e1, e2, hrel⟩
    · rw [e1, e2]
      simp only [Option.map_none]
      exact ⟨fun hb => absurd (isD_true.1 hb) h_qb, fun _ => ⟨h_t, h_s, h_d, h_q, by rw [htr, ← h_tr, htr], h_td, h_rd, h_c⟩⟩
    · rw [e1, e2]
      simp only [Option.map_some]
      exact ⟨fun hb => by rw [isD_true] at hb ⊢; rw [hrel.drift]; exact hb, fun _ => hrel⟩
  | some t =>
    simp only []
    have hcd := critLe_getD h_c default
    by_cases hS : b.critical.getD default < divergence (fill testId true X t)
    · have hL : a.critical.getD default < divergence (fill testId true X t) := lt_of_le_of_lt hcd hS
      simp [hS, hL, isD]
    · by_cases hL : a.critical.getD default < divergence (fill testId true X t)
      · simp [hS, hL, isD, h_qb]
      · simp only [hS, hL, decide_false, Bool.false_eq_true, if_false]
        refine ⟨fun hb => absurd (isD_true.1 hb) h_qb, fun _ => ?_⟩
        exact ⟨by simp [h_t], by simp [h_s], h_d, h_q, rfl, rfl, h_rd, h_c⟩

/-- **KdqTreeBatch: a smaller `alpha` never makes the first drift earlier** — from every pair of
    states that are related as the two runs are before an alarm (`BRel`: e.g. the same fresh state,
    or the two states after `set_reference` of the same batch with the same draws), for every
    sequence of batches and bootstrap draws. -/
theorem kdqBatch_first_drift_mono_from (hr : RintLaw K) (c : BCfg K) (loose strict : K) (h0 : 0 ≤ strict)
    (hle : strict ≤ loose) (h1 : loose ≤ 1) (a b : BState K) (h : BRel a b) (xs : List (BIn K)) :
    NoLater (firstIdx (driftTrace (bStepT { c with alpha := loose }) (fun s => isD s.drift) a xs))
      (firstIdx (driftTrace (bStepT { c with alpha := strict }) (fun s => isD s.drift) b xs)) :=
  sim_first_drift_mono_same _ _ _ _ BRel
    (fun a b i h => batch_sim hr { c with alpha := loose } { c with alpha := strict } rfl h0 hle h1 a b i h)
    xs a b h

/-- … in particular from the fresh detector (whose first update installs the reference) -/
theorem kdqBatch_first_drift_mono (hr : RintLaw K) (c : BCfg K) (loose strict : K) (h0 : 0 ≤ strict)
    (hle : strict ≤ loose) (h1 : loose ≤ 1) (xs : List (BIn K)) :
    NoLater (firstIdx (driftTrace (bStepT { c with alpha := loose }) (fun s => isD s.drift) bInit xs))
      (firstIdx (driftTrace (bStepT { c with alpha := strict }) (fun s => isD s.drift) bInit xs)) :=
  kdqBatch_first_drift_mono_from hr c loose strict h0 hle h1 bInit bInit (bRel_refl _ (by simp [bInit])) xs

end batch

/-! ## 5. `KdqTreeStreaming` -/
section stream
variable {K : Type} [Field K] [LinearOrder K] [IsStrictOrderedRing K] [Inhabited K] [BEq K]
  [HasLogExp K] [HasRint K] [HasTrunc K]

/-- what one `update` consumes: the sample and the bootstrap draws (used only by the update that
    completes the reference window) -/
abbrev SIn (K : Type) := List K × List (List Nat)

/-- `update` as a total function: a tree construction that runs out of fuel leaves the state -/
def sStepT (c : SCfg K) (s : SState K) (i : SIn K) : SState K :=
  match sStep c s i.1 i.2 with
  | some r => r.1
  | none => s

/-- **the simulation**: the run under the looser setting (`a`) against the run under the stricter one
    (`b`) while neither has alarmed — every field equal except the stored critical value
    (looser ≤ stricter) and the persistence counter (stricter ≤ looser) -/
structure SRel (a b : SState K) : Prop where
  total : a.total = b.total
  since : a.since = b.since
  drift : a.drift = b.drift
  quiet : a.drift ≠ .drift
  refData : a.refData = b.refData
  testSize : a.testSize = b.testSize
  tree : a.tree = b.tree
  testDist : a.testDist = b.testDist
  crit : critLe a.critical b.critical
  counter : b.counter ≤ a.counter

theorem sRel_refl (s : SState K) (h : s.drift ≠ .drift) : SRel s s :=
  ⟨rfl, rfl, rfl, h, rfl, rfl, rfl, rfl, by cases s.critical <;> simp [critLe], le_refl _⟩

/-- the persistence rule is monotone in the counter and antitone in the persistence factor -/
theorem alarms_mono (cL cS : SCfg K) (hw : cL.window = cS.window) (hp : cL.persistence ≤ cS.persistence)
    {n m : Nat} (hnm : n ≤ m) (h : alarms cS n = true) : alarms cL m = true := by
  simp only [alarms, decide_eq_true_eq] at h ⊢
  rw [hw]
  have hw0 : (0 : K) ≤ (cS.window : K) := Nat.cast_nonneg _
  have hc : (n : K) ≤ (m : K) := Nat.cast_le.mpr hnm
  calc cL.persistence * (cS.window : K) ≤ cS.persistence * (cS.window : K) :=
        mul_le_mul_of_nonneg_right hp hw0
    _ < (n : K) := h
    _ ≤ (m : K) := hc

/-- **one streaming update under the two settings**: an alarm under the stricter setting forces an
    alarm under the looser one, and unless the looser run alarms the simulation is kept -/
theorem stream_sim (hr : RintLaw K) (cL cS : SCfg K) (hw : cL.window = cS.window) (hp : cL.part = cS.part)
    (hpers : cL.persistence ≤ cS.persistence) (h0 : 0 ≤ cS.alpha) (hle : cS.alpha ≤ cL.alpha)
    (h1 : cL.alpha ≤ 1) (a b : SState K) (i : SIn K) (h : SRel a b) :
    (isD (sStepT cS b i).drift = true → isD (sStepT cL a i).drift = true) ∧
    (isD (sStepT cL a i).drift = false → SRel (sStepT cL a i) (sStepT cS b i)) := by
  obtain ⟨x, d⟩ := i
  obtain ⟨h_t, h_s, h_d, h_q, h_rd, h_ts, h_tr, h_td, h_c, h_n⟩ := h
  have h_qb : b.drift ≠ .drift := h_d ▸ h_q
  unfold sStepT sStep sEvaluate
  simp only [if_neg h_q, if_neg h_qb]
  rw [← h_tr, ← h_rd, ← h_ts, hw, hp]
  cases htr : a.tree with
  | none =>
    simp only []
    by_cases hlen : (a.refData ++ [x]).length = cS.window
    · simp only [if_pos hlen]
      cases build cS.part x.length (a.refData ++ [x]) with
      | none =>
        simp only []
        exact ⟨fun hb => absurd (isD_true.1 hb) h_qb,
          fun _ => ⟨h_t, h_s, h_d, h_q, h_rd, h_ts, by rw [htr, ← h_tr, htr], h_td, h_c, h_n⟩⟩
      | some t =>
        simp only [sReset]
        refine ⟨fun hb => by simp [isD] at hb, fun _ => ?_⟩
        refine ⟨by simp [h_t], rfl, rfl, by simp, rfl, rfl, rfl, rfl, ?_, le_refl _⟩
        exact critical_antitone hr _ _ d _ _ h0 hle h1
    · simp only [if_neg hlen]
      exact ⟨fun hb => absurd (isD_true.1 hb) h_qb,
        fun _ => ⟨by simp [h_t], by simp [h_s], h_d, h_q, rfl, rfl, rfl, h_td, h_c, h_n⟩⟩
  | some t =>
    simp only []
    by_cases hsz : cS.window ≤ a.testSize + 1
    · simp only [if_pos hsz]
      have hcd := critLe_getD h_c default
      by_cases hS : b.critical.getD default < divergence (fill testId false [x] t)
      · have hL : a.critical.getD default < divergence (fill testId false [x] t) := lt_of_le_of_lt hcd hS
        simp only [hS, hL, decide_true, if_true]
        constructor
        · intro hb
          rw [isD_true] at hb ⊢
          by_cases hab : alarms cS (b.counter + 1) = true
          · have := alarms_mono cL cS hw hpers (Nat.succ_le_succ h_n) hab
            simp [this]
          · simp only [hab] at hb
            exact absurd hb h_qb
        · intro ha
          rw [isD_false] at ha
          have haL : alarms cL (a.counter + 1) = false := by
            cases hx : alarms cL (a.counter + 1) with
            | false => rfl
            | true => simp [hx] at ha
          have haS : alarms cS (b.counter + 1) = false := by
            cases hx : alarms cS (b.counter + 1) with
            | false => rfl
            | true => rw [alarms_mono cL cS hw hpers (Nat.succ_le_succ h_n) hx] at haL; cases haL
          simp only [haL, haS, Bool.false_eq_true, if_false]
          exact ⟨by simp [h_t], by simp [h_s], h_d, h_q, rfl, by simp [h_ts], rfl, rfl, h_c,
            Nat.succ_le_succ h_n⟩
      · by_cases hL : a.critical.getD default < divergence (fill testId false [x] t)
        · simp only [hS, hL, decide_true, decide_false, if_true, Bool.false_eq_true, if_false]
          refine ⟨fun hb => absurd (isD_true.1 hb) h_qb, fun ha => ?_⟩
          rw [isD_false] at ha
          have haL : alarms cL (a.counter + 1) = false := by
            cases hx : alarms cL (a.counter + 1) with
            | false => rfl
            | true => simp [hx] at ha
          simp only [haL, Bool.false_eq_true, if_false]
          exact ⟨by simp [h_t], by simp [h_s], h_d, h_q, rfl, by simp [h_ts], rfl, rfl, h_c, Nat.zero_le _⟩
        · simp only [hS, hL, decide_false, Bool.false_eq_true, if_false]
          exact ⟨fun hb => absurd (isD_true.1 hb) h_qb, fun _ =>
            ⟨by simp [h_t], by simp [h_s], h_d, h_q, rfl, by simp [h_ts], rfl, rfl, h_c, le_refl _⟩⟩
    · simp only [if_neg hsz]
      exact ⟨fun hb => absurd (isD_true.1 hb) h_qb, fun _ =>
        ⟨by simp [h_t], by simp [h_s], h_d, h_q, rfl, by simp [h_ts], rfl, h_td, h_c, h_n⟩⟩

/-- **KdqTreeStreaming: a smaller `alpha` and/or a larger `persistence` never make the first drift
    earlier** — two configurations with the same window and partitioner settings, from every pair of
    `SRel`-related states, for every stream and bootstrap draws. -/
theorem kdqStream_first_drift_mono_cfg (hr : RintLaw K) (cL cS : SCfg K) (hw : cL.window = cS.window)
    (hp : cL.part = cS.part) (hpers : cL.persistence ≤ cS.persistence) (h0 : 0 ≤ cS.alpha)
    (hle : cS.alpha ≤ cL.alpha) (h1 : cL.alpha ≤ 1) (a b : SState K) (h : SRel a b) (xs : List (SIn K)) :
    NoLater (firstIdx (driftTrace (sStepT cL) (fun s => isD s.drift) a xs))
      (firstIdx (driftTrace (sStepT cS) (fun s => isD s.drift) b xs)) :=
  sim_first_drift_mono_same _ _ _ _ SRel
    (fun a b i h => stream_sim hr cL cS hw hp hpers h0 hle h1 a b i h) xs a b h

/-- **KdqTreeStreaming: a smaller `alpha` never makes the first drift earlier** (fresh detector,
    every stream, same draws) -/
theorem kdqStream_first_drift_mono (hr : RintLaw K) (c : SCfg K) (loose strict : K) (h0 : 0 ≤ strict)
    (hle : strict ≤ loose) (h1 : loose ≤ 1) (xs : List (SIn K)) :
    NoLater (firstIdx (driftTrace (sStepT { c with alpha := loose }) (fun s => isD s.drift) sInit xs))
      (firstIdx (driftTrace (sStepT { c with alpha := strict }) (fun s => isD s.drift) sInit xs)) :=
  kdqStream_first_drift_mono_cfg hr { c with alpha := loose } { c with alpha := strict } rfl rfl
    (le_refl _) h0 hle h1 sInit sInit
    (sRel_refl _ (by simp [sInit])) xs

end stream

/-! ## Non-vacuity (carrier `ℚ`, the surrogate `log` and the half-even `rint` of `Props/C09.lean`)

  Reference {0, 1} (two leaves), three bootstrap draws with divergences 0, 16/5, 4/9: the critical
  value is 4/9 for `alpha = 1/2` (rank 1) and 16/5 for `alpha = 0` (rank 2).  Then samples / batches in
  the left leaf only: the divergence grows 4/5, 9/7, 16/9, 25/11, 36/13, 49/15, … -/
section examples

/-- the `ℚ` instance of `Props/C09.lean` is the half-even rounding, hence lawful -/
theorem exRint : RintLaw ℚ := rintHE_law

def exDraws : List (List Nat) := [[0, 1, 0, 1], [0, 0, 1, 1], [0, 0, 0, 1]]

example : criticalKld 2 2 exDraws (1 / 2 : ℚ) = 4 / 9 ∧ criticalKld 2 2 exDraws (0 : ℚ) = 16 / 5 := by
  decide +kernel
example : rank 3 (1 / 2 : ℚ) = 1 ∧ rank 3 (1 : ℚ) = 2 ∧ rank 4 (1 / 2 : ℚ) = 2 ∧ rank 6 (1 / 2 : ℚ) = 2 := by
  decide +kernel

def exSC : SCfg ℚ := { window := 2, persistence := 1, alpha := 0, part := { countUbound := 1, cplb := 0 } }
def exSIn : List (SIn ℚ) := [([0], []), ([1], exDraws)] ++ List.replicate 9 ([0], [])

/-- streaming, alarm when more than `1·2` evaluations in a row exceed: under `alpha = 1/2` the 4th–6th
    updates exceed (first drift at position 5), under `alpha = 0` only the 9th–11th do (position 10) -/
example : firstIdx (driftTrace (sStepT { exSC with alpha := 1 / 2 }) (fun s => isD s.drift) sInit exSIn) = some 5 ∧
    firstIdx (driftTrace (sStepT { exSC with alpha := 0 }) (fun s => isD s.drift) sInit exSIn) = some 10 := by
  decide +kernel
/-- before either alarms the counters differ (2 against 0 after five updates): the statistics run is
    *not* threshold-free, the simulation `SRel` is what is kept -/
example : ((exSIn.take 5).foldl (sStepT { exSC with alpha := 1 / 2 }) sInit).counter = 2 ∧
    ((exSIn.take 5).foldl (sStepT { exSC with alpha := 0 }) sInit).counter = 0 ∧
    ((exSIn.take 5).foldl (sStepT { exSC with alpha := 1 / 2 }) sInit).drift = .none := by
  decide +kernel
example (l : List (SIn ℚ)) :
    NoLater (firstIdx (driftTrace (sStepT { exSC with alpha := 1 / 2 }) (fun s => isD s.drift) sInit l))
      (firstIdx (driftTrace (sStepT { exSC with alpha := 0 }) (fun s => isD s.drift) sInit l)) :=
  kdqStream_first_drift_mono exRint exSC (1 / 2) 0 (le_refl _) (by norm_num) (by norm_num) l

def exBC : BCfg ℚ := { alpha := 0, part := { countUbound := 1, cplb := 0 } }
def exBIn : List (BIn ℚ) :=
  [(1, [[0], [1]], exDraws), (1, [[0], [1]], []), (1, [[0], [0]], []), (1, [[0], [0], [0]], []),
   (1, List.replicate 7 [0], [])]

/-- batch: the third batch (divergence 4/5) drifts under `alpha = 1/2`, only the fifth (49/15) under
    `alpha = 0` -/
example : firstIdx (driftTrace (bStepT { exBC with alpha := 1 / 2 }) (fun s => isD s.drift) bInit exBIn) = some 2 ∧
    firstIdx (driftTrace (bStepT { exBC with alpha := 0 }) (fun s => isD s.drift) bInit exBIn) = some 4 := by
  decide +kernel
example (l : List (BIn ℚ)) :
    NoLater (firstIdx (driftTrace (bStepT { exBC with alpha := 1 / 2 }) (fun s => isD s.drift) bInit l))
      (firstIdx (driftTrace (bStepT { exBC with alpha := 0 }) (fun s => isD s.drift) bInit l)) :=
  kdqBatch_first_drift_mono exRint exBC (1 / 2) 0 (le_refl _) (by norm_num) (by norm_num) l

end examples

end MV.C17.Kdq
