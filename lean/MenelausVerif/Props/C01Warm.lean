/-
  C01 — "no warning or drift before the documented minimum amount of data": the user-facing
  corollaries of the lifecycle acceptor for the detector kinds that `Props/C01.lean` did not spell out
  (it has `warm_ddm`, `warm_burnin`, `warm_stepd`, `warm_hdm`, `warm_adwin`).  With them every kind of
  the acceptor's table has its corollary: a row accepted by the acceptor (`RowOK`) that reports a
  warning or a drift satisfies the kind's warm-up condition.  Together with the `…_accepted` theorems
  (`Props/C01Models.lean`, `Props/C01More.lean`: every history of every detector model is accepted)
  this is the warm-up clause of the property for the models.
-/
import MenelausVerif.Props.C01
namespace MV.Lifecycle

/-- EDDM: at least `n_threshold` errors have been seen in the current epoch -/
theorem warm_eddm (c : Cfg) (m : Mon) (o : Obs) (h : RowOK c m o) (hk : c.kind = .eddm)
    (hd : o.drift ≠ .none) : errsNow m o ≥ c.a := by
  have := h.warm hd; simpa [warm, hk] using this

/-- LinearFourRates: past the burn-in and on a multiple of `subsample` -/
theorem warm_lfr (c : Cfg) (m : Mon) (o : Obs) (h : RowOK c m o) (hk : c.kind = .lfr)
    (hd : o.drift ≠ .none) : o.since > c.a ∧ o.since % c.b = 0 := by
  have := h.warm hd; simpa [warm, hk] using this

/-- KdqTreeStreaming: the reference tree exists, the update is not the one that completed the reference
    window nor the one that follows a drift, and the epoch has at least `window_size` samples -/
theorem warm_kdqS (c : Cfg) (m : Mon) (o : Obs) (h : RowOK c m o) (hk : c.kind = .kdqS)
    (hd : o.drift ≠ .none) :
    m.refBuilt = true ∧ o.refDone = false ∧ m.prevDrift ≠ .drift ∧ o.since ≥ c.a := by
  have := h.warm hd
  simp only [warm, hk, Bool.and_eq_true, Bool.not_eq_true', decide_eq_true_eq, decide_eq_false_iff_not] at this
  exact ⟨this.1.1.1, this.1.1.2, this.1.2, this.2⟩

/-- KdqTreeBatch, NNDVI: at least one test batch after the reference -/
theorem warm_batch1 (c : Cfg) (m : Mon) (o : Obs) (h : RowOK c m o) (hk : c.kind = .batch1)
    (hd : o.drift ≠ .none) : o.since ≥ 1 := by
  have := h.warm hd; simpa [warm, hk] using this

/-- PCACD: on the score schedule, and both windows full — `2 * window_size` samples in the first epoch,
    `window_size` in an epoch that follows a drift -/
theorem warm_pcacd (c : Cfg) (m : Mon) (o : Obs) (h : RowOK c m o) (hk : c.kind = .pcacd)
    (hd : o.drift ≠ .none) :
    (o.total - 1) % c.b = 0 ∧ o.since ≥ (if m.epoch = 0 then 2 * c.a else c.a) := by
  have := h.warm hd; simpa [warm, hk] using this

/-- every kind: a reported warning / drift satisfies the kind's warm-up predicate (the table itself) -/
theorem warm_of_reported (c : Cfg) (m : Mon) (o : Obs) (h : RowOK c m o) (hd : o.drift ≠ .none) :
    warm c m o = true := h.warm hd

end MV.Lifecycle
