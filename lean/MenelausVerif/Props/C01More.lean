/-
  C01, part 3 — the remaining detector models satisfy the lifecycle contract: every history of
  accepted updates of the **KdqTreeStreaming**, **KdqTreeBatch** (`Model/KdqDetect.lean`) and
  **HDDDM / CDBD** (`Model/HDM.lean`, `detect_batch` 1, 2, 3) models produces a row sequence that the
  acceptor of `Model/Lifecycle.lean` accepts — for every configuration, every carrier (no arithmetic
  law is used, so the statements hold for the executed `Float` instance), histories of any length
  with any number of drifts.  With `Props/C01Models.lean` this covers all 15 detectors of the property.

  The three models can *reject* an update (`none`: the kdq-tree build runs out of fuel — Python's
  RecursionError —; HDM's `_validate_X` / the one-row proxy batch of `detect_batch = 1`), and the
  contract quantifies over accepted updates only, so the rows of a history are `rowsOfOpt … = some os`
  (defined exactly when no update of the history is rejected) and the transfer lemma is
  `model_accepted_opt`.  A prefix of a history is a history, so the rows up to a first rejected update
  are covered as well.

  The rows are those `harness/checks/c01.py` feeds to the same acceptor for the real classes, with the
  `Cfg` of `harness/impl/zoo.py` (`Family.lifecycle`):
  * KdqTreeStreaming — `kdqS window 1 1 1`, no recs; `refDone` is **derived from the inputs** as in the
    harness (`epoch_pos == window_size`, where `epoch_pos` restarts at 1 on the update after a reported
    drift): the model state is paired with that counter (`KdqSL`), and `kdqS_refDone_iff_built` shows
    that the signal coincides with the model's own `built` event on every reachable state.
  * KdqTreeBatch — `batch1 0 1 1 1`; the harness runs it both after `set_reference(X0)` and without
    (then `refDone = (i == 0)`: the first update only installs its batch as the reference).  Both are
    covered by `kdqBatch_accepted` (`ref : Option …`); `set_reference` has no row of its own — its place
    in the acceptor's input is the `init total since` line, i.e. the acceptor's starting memory — so an
    explicit `set_reference` *later* in a history is covered by `kdqBatch_accepted_after_setRef`: from
    the state after any `set_reference` (whatever preceded it) the following updates are accepted by
    the acceptor started from the counters observed at that point.
  * HDDDM / CDBD — `hdm detect_batch 1 r r` with `r = 2` for `detect_batch = 1` (the proxy batch split
    off the reference is pushed through `update` by `reset` and counted in both counters), else 1; the
    harness always calls `set_reference` first (`update` before it raises) and starts the acceptor
    with `init 1 1` (`detect_batch = 1`) / `init 0 0`: `hdm_accepted` (`hdmMon0`).  The general form
    `hdm_accepted_after_setRef` starts from `set_reference` in an arbitrary state.  Hypothesis
    `detect_batch ≤ 3`: the constructor does not validate the documented range {1, 2, 3}; for
    `detect_batch = 4` the code tests from the second batch on and the acceptor rejects (`example` at
    the end) — outside the documented configurations, not a finding.

  Nothing is `_partial`; no clause of the acceptor was weakened.  Non-vacuity: the `example`s at the end
  exhibit, per detector, a history whose hypotheses hold (`rowsOfOpt … = some …`) with several drifts,
  the restart after each, a completed reference window, back-to-back drifts for HDM(1).
-/
import MenelausVerif.Props.C01
import MenelausVerif.Props.C07
import MenelausVerif.Props.C09
set_option linter.unusedSectionVars false
namespace MV.Lifecycle
open MV

/-! ### models whose update can be rejected -/

/-- rows observed along a run of a detector model whose update may be rejected (`none`): `some rows`
    exactly when every update of the history is accepted -/
def rowsOfOpt {σ ι : Type} (step : σ → ι → Option σ) (row : σ → ι → Obs) : σ → List ι → Option (List Obs)
  | _, [] => some []
  | s, x :: xs =>
    match step s x with
    | none => none
    | some s' => (rowsOfOpt step row s' xs).map (fun os => row s' x :: os)

/-- **Transfer lemma, partial models.**  As `model_accepted`, for a step that may be rejected: the
    rows of every history of accepted updates are accepted by the acceptor. -/
theorem model_accepted_opt {σ ι : Type} (c : Cfg) (step : σ → ι → Option σ) (row : σ → ι → Obs)
    (Inv : Mon → σ → Prop)
    (hstep : ∀ m s x s', Inv m s → step s x = some s' →
      violated c m (row s' x) = none ∧ Inv (advance m (row s' x)) s') :
    ∀ (xs : List ι) (m : Mon) (s : σ) (i : Nat) (os : List Obs), Inv m s →
      rowsOfOpt step row s xs = some os → accept c m i os = none := by
  intro xs
  induction xs with
  | nil =>
    intro m s i os _ h
    simp only [rowsOfOpt, Option.some.injEq] at h
    subst h; rfl
  | cons x xs ih =>
    intro m s i os hinv h
    simp only [rowsOfOpt] at h
    cases hs : step s x with
    | none => simp [hs] at h
    | some s' =>
      simp only [hs] at h
      cases hr : rowsOfOpt step row s' xs with
      | none => simp [hr] at h
      | some os' =>
        simp only [hr, Option.map_some, Option.some.injEq] at h
        subst h
        obtain ⟨h1, h2⟩ := hstep m s x s' hinv hs
        simp only [accept, h1]
        exact ih _ _ _ _ h2 hr

/-! ### KdqTreeStreaming (kind `kdqS`) -/
section KdqStream
open MV.KdqDet MV.Kdq
variable {α : Type} [Inhabited α] [Add α] [Sub α] [Mul α] [Div α] [LT α] [DecidableLT α]
  [LE α] [DecidableLE α] [NatCast α] [BEq α] [HasLogExp α] [HasRint α] [Kdq.HasTrunc α]

theorem kdqS_step_facts (c : SCfg α) (s s' : SState α) (x : List α) (d : List (List Nat)) (ev : Ev)
    (h : sStep c s x d = some (s', ev)) (hnw : s.drift ≠ .warning) :
    s'.total = s.total + 1 ∧ s'.drift ≠ .warning ∧
    (((sPre s).tree = none ∧ (sPre s).refData.length + 1 ≠ c.window ∧ s'.tree = none ∧
        s'.refData.length = (sPre s).refData.length + 1 ∧ s'.since = (sPre s).since + 1 ∧ s'.drift = .none ∧
        ev = .building) ∨
     ((sPre s).tree = none ∧ (sPre s).refData.length + 1 = c.window ∧ s'.tree.isSome = true ∧
        s'.since = 0 ∧ s'.testSize = 0 ∧ s'.drift = .none ∧ ev = .built) ∨
     ((sPre s).tree.isSome = true ∧ ev ≠ .built ∧ s'.tree.isSome = true ∧ s'.since = (sPre s).since + 1 ∧
        s'.testSize = (sPre s).testSize + 1 ∧ (s'.drift ≠ .none → c.window ≤ s'.testSize))) := by
  have hpd : (sPre s).drift = .none := by
    have := sPre_not_drift s
    unfold sPre at this ⊢
    split <;> simp_all [sReset]
    cases hd : s.drift <;> simp_all
  have hpt : (sPre s).total = s.total := by unfold sPre; split <;> simp [sReset]
  rw [sStep_eq] at h
  generalize sPre s = P at h hpd hpt
  rw [← hpt]
  unfold sEvaluate at h
  cases ht : P.tree with
  | none =>
    simp only [ht] at h
    by_cases hw : P.refData.length + 1 = c.window
    · cases hb : build c.part x.length (P.refData ++ [x]) with
      | none => simp [hw, hb] at h
      | some t =>
        simp [hw, hb, sReset] at h
        obtain ⟨rfl, rfl⟩ := h
        simp [hw]
    · simp [hw] at h
      obtain ⟨rfl, rfl⟩ := h
      simp [hw, hpd]
  | some t =>
    simp only [ht] at h
    by_cases hwin : c.window ≤ P.testSize + 1
    · by_cases hex : P.critical.getD default < divergence (fill testId false [x] t)
      · simp [hwin, hex] at h
        obtain ⟨rfl, rfl⟩ := h
        simp [hwin, hpd]
        split <;> simp
      · simp [hwin, hex] at h
        obtain ⟨rfl, rfl⟩ := h
        simp [hwin, hpd]
    · simp [hwin] at h
      obtain ⟨rfl, rfl⟩ := h
      simp [hpd]

/-- the detector paired with the harness's position counter: `epoch_pos` of `harness/checks/c01.py`
    (1 on the update after a reported drift, else one more than before) -/
structure KdqSL (α : Type) where
  st : SState α
  pos : Nat

/-- one `update(x)`: the sample and the bootstrap draws the update consumes if it completes a reference -/
abbrev KdqSIn (α : Type) := List α × List (List Nat)

def kdqSInitL : KdqSL α := ⟨sInit, 0⟩

def kdqSStepL (c : SCfg α) (s : KdqSL α) (i : KdqSIn α) : Option (KdqSL α) :=
  (sStep c s.st i.1 i.2).map (fun r => ⟨r.1, if s.st.drift = .drift then 1 else s.pos + 1⟩)

def kdqSCfg (c : SCfg α) : Cfg :=
  { kind := .kdqS, a := c.window, b := 1, restart := 1, incAfterDrift := 1, hasRecs := false }

def kdqSRow (c : SCfg α) (s : KdqSL α) (_ : KdqSIn α) : Obs :=
  { drift := s.st.drift, total := s.st.total, since := s.st.since, recs := (none, none), err := false,
    refDone := decide (s.pos = c.window) }

def kdqSInv (c : SCfg α) (m : Mon) (s : KdqSL α) : Prop :=
  m.total = s.st.total ∧ m.since = s.st.since ∧ m.prevDrift = s.st.drift ∧ m.refBuilt = s.st.tree.isSome ∧
  s.st.drift ≠ .warning ∧
  (s.st.tree = none → s.st.refData.length = s.pos) ∧
  (s.st.tree.isSome = true → c.window ≤ s.pos ∧ s.st.since = s.st.testSize)

theorem sPre_fields (s : SState α) :
    (sPre s).tree = (if s.drift = .drift then none else s.tree) ∧
    (sPre s).refData = (if s.drift = .drift then [] else s.refData) ∧
    (sPre s).since = (if s.drift = .drift then 0 else s.since) ∧
    (sPre s).testSize = (if s.drift = .drift then 0 else s.testSize) := by
  unfold sPre; split <;> simp [sReset]

theorem kdqS_step_ok (c : SCfg α) (m : Mon) (s s' : KdqSL α) (i : KdqSIn α) (h : kdqSInv c m s)
    (hs : kdqSStepL c s i = some s') :
    violated (kdqSCfg c) m (kdqSRow c s' i) = none ∧ kdqSInv c (advance m (kdqSRow c s' i)) s' := by
  obtain ⟨h1, h2, h3, h4, h5, h6, h7⟩ := h
  unfold kdqSStepL at hs
  cases hst : sStep c s.st i.1 i.2 with
  | none => simp [hst] at hs
  | some r =>
    obtain ⟨t', ev⟩ := r
    simp only [hst, Option.map_some, Option.some.injEq] at hs
    subst hs
    obtain ⟨f1, f2, f3⟩ := kdqS_step_facts c s.st t' i.1 i.2 ev hst h5
    obtain ⟨p1, p2, p3, p4⟩ := sPre_fields s.st
    rw [p1, p2, p3, p4] at f3
    have hrow : kdqSRow c ⟨t', if s.st.drift = .drift then 1 else s.pos + 1⟩ i =
        { drift := t'.drift, total := t'.total, since := t'.since, recs := (none, none), err := false,
          refDone := decide ((if s.st.drift = .drift then 1 else s.pos + 1) = c.window) } := rfl
    rw [hrow]
    constructor
    · rw [violated_none_iff]
      constructor
      · simp [kdqSCfg, expectedTotal, f1, h1]
      · simp only [kdqSCfg, expectedSince, h2, h3]
        grind
      · simp only [kdqSCfg, warm, h3, h4]
        grind
      · intro hk; simp [kdqSCfg] at hk
      · intro hk; simp [kdqSCfg] at hk
      · intro hk; simp [kdqSCfg] at hk
    · simp only [kdqSInv, advance, h3, h4]
      grind

/-- the harness's input-derived signal "this update completed the reference window" (`epoch_pos ==
    window_size`) is the model's `built` event, on every reachable state -/
theorem kdqS_refDone_iff_built (c : SCfg α) (m : Mon) (s : KdqSL α) (i : KdqSIn α) (t' : SState α) (ev : Ev)
    (h : kdqSInv c m s) (hst : sStep c s.st i.1 i.2 = some (t', ev)) :
    (if s.st.drift = .drift then 1 else s.pos + 1) = c.window ↔ ev = .built := by
  obtain ⟨h1, h2, h3, h4, h5, h6, h7⟩ := h
  obtain ⟨f1, f2, f3⟩ := kdqS_step_facts c s.st t' i.1 i.2 ev hst h5
  obtain ⟨p1, p2, p3, p4⟩ := sPre_fields s.st
  rw [p1, p2, p3, p4] at f3
  grind

/-- **KdqTreeStreaming satisfies the lifecycle contract on every history of accepted updates** (every
    configuration — window size, persistence, alpha, partitioner bounds —, every sequence of samples and
    bootstrap draws on which no update is rejected, i.e. the tree build never runs out of fuel).  The
    rows are the ones `harness/checks/c01.py` hands to the acceptor for the real class: the `refDone`
    signal is derived from the position in the epoch, not read from the detector. -/
theorem kdqStream_accepted (c : SCfg α) (xs : List (KdqSIn α)) (os : List Obs)
    (h : rowsOfOpt (kdqSStepL c) (kdqSRow c) kdqSInitL xs = some os) :
    accept (kdqSCfg c) {} 0 os = none :=
  model_accepted_opt (kdqSCfg c) _ (kdqSRow c) (kdqSInv c)
    (fun m s x s' hi hs => kdqS_step_ok c m s s' x hi hs) xs {} kdqSInitL 0 os
    (by simp [kdqSInv, kdqSInitL, sInit]) h

end KdqStream

/-! ### KdqTreeBatch (kind `batch1`; the first update of a detector without `set_reference` only
    builds the reference) -/
section KdqBatch
open MV.KdqDet MV.Kdq
variable {α : Type} [Inhabited α] [Add α] [Sub α] [Mul α] [Div α] [LT α] [DecidableLT α]
  [LE α] [DecidableLE α] [NatCast α] [BEq α] [HasLogExp α] [HasRint α] [Kdq.HasTrunc α]

/-- everything the contract reads of one accepted `KdqTreeBatch.update` -/
theorem kdqB_step_facts (c : BCfg α) (s s' : BState α) (w : Nat) (X : List (List α)) (d : List (List Nat))
    (flag : Option Bool) (h : bStep c s w X d = some (s', flag)) :
    s'.total = s.total + 1 ∧ s'.tree.isSome = true ∧
    ((s.drift = .drift ∧ s'.since = 1 ∧ flag.isSome = true) ∨
     (s.drift ≠ .drift ∧ s.tree = none ∧ s'.since = 0 ∧ s'.drift = .none ∧ flag = none) ∨
     (s.drift ≠ .drift ∧ s.tree.isSome = true ∧ s'.since = s.since + 1 ∧ flag.isSome = true)) := by
  unfold bStep at h
  by_cases hd : s.drift = .drift
  · simp only [hd, if_true] at h
    unfold bSetRef at h
    cases hb : build c.part w (s.refData.getD []) with
    | none => simp [hb] at h
    | some t =>
      simp [hb] at h
      obtain ⟨rfl, rfl⟩ := h
      simp [hd]
  · simp only [hd, if_false] at h
    cases ht : s.tree with
    | none =>
      simp only [ht] at h
      unfold bSetRef at h
      cases hb : build c.part w X with
      | none => simp [hb] at h
      | some t =>
        simp [hb] at h
        obtain ⟨rfl, rfl⟩ := h
        simp [hd]
    | some t =>
      simp [ht] at h
      obtain ⟨rfl, rfl⟩ := h
      simp [hd]

/-- `set_reference` leaves a reference tree, state `None` and `batches_since_reset = 0`; `total_batches`
    is untouched -/
theorem kdqB_setRef_facts (c : BCfg α) (s s0 : BState α) (w : Nat) (R : List (List α)) (d : List (List Nat))
    (h : bSetRef c s w R d = some s0) :
    s0.total = s.total ∧ s0.since = 0 ∧ s0.drift = .none ∧ s0.tree.isSome = true := by
  unfold bSetRef at h
  cases hb : build c.part w R with
  | none => simp [hb] at h
  | some t =>
    simp [hb] at h
    subst h
    simp

/-- the detector paired with the number of updates fed so far (the harness's loop index) -/
structure KdqBL (α : Type) where
  st : BState α
  n : Nat

/-- one `update(X)`: the established width, the batch, the bootstrap draws of the reference (re)build -/
abbrev KdqBIn (α : Type) := Nat × List (List α) × List (List Nat)

def kdqBStepL (c : BCfg α) (s : KdqBL α) (i : KdqBIn α) : Option (KdqBL α) :=
  (bStep c s.st i.1 i.2.1 i.2.2).map (fun r => ⟨r.1, s.n + 1⟩)

def kdqBCfg : Cfg :=
  { kind := .batch1, a := 0, b := 1, restart := 1, incAfterDrift := 1, hasRecs := false }

/-- `noRef` = the history started without `set_reference`; `refDone` is the harness's
    `no_setref and i == 0` -/
def kdqBRow (noRef : Bool) (s : KdqBL α) (_ : KdqBIn α) : Obs :=
  { drift := s.st.drift, total := s.st.total, since := s.st.since, recs := (none, none), err := false,
    refDone := noRef && s.n == 1 }

def kdqBInv (noRef : Bool) (m : Mon) (s : KdqBL α) : Prop :=
  m.total = s.st.total ∧ m.since = s.st.since ∧ m.prevDrift = s.st.drift ∧
  ((noRef = true ∧ s.n = 0) → s.st.tree = none ∧ s.st.drift ≠ .drift) ∧
  (¬(noRef = true ∧ s.n = 0) → s.st.tree.isSome = true)

theorem kdqB_step_ok (c : BCfg α) (noRef : Bool) (m : Mon) (s s' : KdqBL α) (i : KdqBIn α)
    (h : kdqBInv noRef m s) (hs : kdqBStepL c s i = some s') :
    violated kdqBCfg m (kdqBRow noRef s' i) = none ∧ kdqBInv noRef (advance m (kdqBRow noRef s' i)) s' := by
  obtain ⟨h1, h2, h3, h4, h5⟩ := h
  unfold kdqBStepL at hs
  cases hst : bStep c s.st i.1 i.2.1 i.2.2 with
  | none => simp [hst] at hs
  | some r =>
    obtain ⟨t', flag⟩ := r
    simp only [hst, Option.map_some, Option.some.injEq] at hs
    subst hs
    obtain ⟨f1, f2, f3⟩ := kdqB_step_facts c s.st t' i.1 i.2.1 i.2.2 flag hst
    have hrow : kdqBRow noRef ⟨t', s.n + 1⟩ i =
        { drift := t'.drift, total := t'.total, since := t'.since, recs := (none, none), err := false,
          refDone := noRef && decide (s.n = 0) } := by
      simp only [kdqBRow, Obs.mk.injEq, true_and]
      generalize s.n = k
      cases noRef <;> cases k <;> simp
    rw [hrow]
    constructor
    · rw [violated_none_iff]
      constructor
      · simp [kdqBCfg, expectedTotal, f1, h1]
      · simp only [kdqBCfg, expectedSince, h2, h3]
        grind
      · simp only [kdqBCfg, warm]
        grind
      · intro hk; simp [kdqBCfg] at hk
      · intro hk; simp [kdqBCfg] at hk
      · intro hk; simp [kdqBCfg] at hk
    · simp only [kdqBInv, advance]
      grind

/-- the detector before its first update: fresh (`none`) or after `set_reference(X)` (`some (width, X,
    bootstrap draws)`; rejected when the tree build fails) -/
def kdqBStart (c : BCfg α) : Option (KdqBIn α) → Option (KdqBL α)
  | none => some ⟨bInit, 0⟩
  | some r => (bSetRef c bInit r.1 r.2.1 r.2.2).map (fun s => ⟨s, 0⟩)

/-- **KdqTreeBatch satisfies the lifecycle contract on every history of accepted updates**, with or
    without a `set_reference` call before the first update (both ways are exercised by
    `harness/checks/c01.py`; without it the first update only installs its batch as the reference and
    its row carries `refDone`). -/
theorem kdqBatch_accepted (c : BCfg α) (ref : Option (KdqBIn α)) (s0 : KdqBL α) (xs : List (KdqBIn α))
    (os : List Obs) (h0 : kdqBStart c ref = some s0)
    (h : rowsOfOpt (kdqBStepL c) (kdqBRow ref.isNone) s0 xs = some os) :
    accept kdqBCfg {} 0 os = none := by
  refine model_accepted_opt kdqBCfg _ (kdqBRow ref.isNone) (kdqBInv ref.isNone)
    (fun m s x s' hi hs => kdqB_step_ok c ref.isNone m s s' x hi hs) xs {} s0 0 os ?_ h
  cases ref with
  | none =>
    simp only [kdqBStart, Option.some.injEq] at h0
    subst h0
    simp [kdqBInv, bInit]
  | some r =>
    simp only [kdqBStart] at h0
    cases hr : bSetRef c bInit r.1 r.2.1 r.2.2 with
    | none => simp [hr] at h0
    | some s1 =>
      simp only [hr, Option.map_some, Option.some.injEq] at h0
      subst h0
      obtain ⟨g1, g2, g3, g4⟩ := kdqB_setRef_facts c bInit s1 r.1 r.2.1 r.2.2 hr
      simp [kdqBInv, g1, g2, g3, g4, bInit]

/-- **… and after a `set_reference` call at any point** (whatever state `s` the detector was in): the
    updates that follow form an accepted trace for the acceptor started — as the harness does with its
    `init` line — from the counters observed right after `set_reference`. -/
theorem kdqBatch_accepted_after_setRef (c : BCfg α) (s s0 : BState α) (w : Nat) (R : List (List α))
    (d : List (List Nat)) (h0 : bSetRef c s w R d = some s0) (xs : List (KdqBIn α)) (os : List Obs)
    (h : rowsOfOpt (kdqBStepL c) (kdqBRow false) ⟨s0, 0⟩ xs = some os) :
    accept kdqBCfg { total := s0.total, since := s0.since } 0 os = none := by
  obtain ⟨g1, g2, g3, g4⟩ := kdqB_setRef_facts c s s0 w R d h0
  exact model_accepted_opt kdqBCfg _ (kdqBRow false) (kdqBInv false)
    (fun m s x s' hi hs => kdqB_step_ok c false m s s' x hi hs) xs _ ⟨s0, 0⟩ 0 os
    (by simp [kdqBInv, g3, g4]) h

end KdqBatch

/-! ### HDDDM / CDBD (kind `hdm`: nothing before the `detect_batch`-th batch of an epoch, and never on
    the first; with `detect_batch = 1` the proxy batch split off the reference is counted, so the
    counters restart at 2 / grow by 2 on the update after a drift) -/
section HDM
open MV.HDM
variable {α : Type} [Add α] [Sub α] [Mul α] [Div α] [Neg α] [LT α] [DecidableLT α]
  [LE α] [DecidableLE α] [NatCast α] [BEq α] [HasSqrt α] [HasLogExp α] [HDM.HasLog1p α] [HDM.HasTrunc α]

/-- the configuration `harness/impl/zoo.py` (`HdddmF.lifecycle`) hands to the acceptor -/
def hdmCfg (c : HDM.Cfg α) : Cfg :=
  { kind := .hdm, a := c.detectBatch, b := 1,
    restart := if c.detectBatch = 1 then 2 else 1,
    incAfterDrift := if c.detectBatch = 1 then 2 else 1, hasRecs := false }

/-- one `update(X)`: the batch and the external values it consumes (bootstrap ε₀, `t` critical value) -/
abbrev HdmIn (α : Type) := List (List α) × HDM.Oracle α

def hdmStep (c : HDM.Cfg α) (s : HDM.State α) (i : HdmIn α) : Option (HDM.State α) := HDM.update c i.2 s i.1

def hdmRow (s : HDM.State α) (_ : HdmIn α) : Obs :=
  { drift := s.drift, total := s.total, since := s.since, recs := (none, none), err := false, refDone := false }

/-- the drift test is not due before the `detect_batch`-th batch of the epoch, nor on its first -/
theorem testsDrift_ge (c : HDM.Cfg α) (n : Nat) (h3 : c.detectBatch ≤ 3) (h : testsDrift c n = true) :
    n ≥ max 2 c.detectBatch := by
  unfold testsDrift at h
  simp at h
  omega

def hdmInv (c : HDM.Cfg α) (m : Mon) (s : HDM.State α) : Prop :=
  m.total = s.total ∧ m.since = s.since ∧ m.prevDrift = s.drift ∧ HDM.Inv s ∧
  (s.drift ≠ .none → s.since ≥ max 2 c.detectBatch)

theorem hdm_step_ok (c : HDM.Cfg α) (h3 : c.detectBatch ≤ 3) (m : Mon) (s s' : HDM.State α) (i : HdmIn α)
    (h : hdmInv c m s) (hs : hdmStep c s i = some s') :
    violated (hdmCfg c) m (hdmRow s' i) = none ∧ hdmInv c (advance m (hdmRow s' i)) s' := by
  obtain ⟨h1, h2, h3', h4, h5⟩ := h
  unfold hdmStep at hs
  obtain ⟨ct, cs⟩ := update_counters c i.2 s s' i.1 h4 hs
  have hinv : HDM.Inv s' := step_inv c s s' (.batch i.1 i.2) h4 hs
  have hw : s'.drift ≠ .none → s'.since ≥ max 2 c.detectBatch := by
    intro hne
    have hd : s'.drift = .drift := by
      have := hinv.noWarn
      cases hdd : s'.drift <;> simp_all
    exact testsDrift_ge c _ h3 ((update_drift_iff c i.2 s s' i.1 h4 hs).1 hd).1
  constructor
  · rw [violated_none_iff]
    constructor
    · simp only [hdmCfg, hdmRow, expectedTotal, ct, h1, h3']
      by_cases hd : s.drift = .drift <;> by_cases hb : c.detectBatch = 1 <;> simp [hd, hb]
    · simp only [hdmCfg, hdmRow, expectedSince, cs, h2, h3']
      by_cases hd : s.drift = .drift <;> simp [hd]
    · intro hd
      have := hw hd
      simpa [warm, hdmCfg, hdmRow] using this
    · intro hk; simp [hdmCfg] at hk
    · intro hk; simp [hdmCfg] at hk
    · intro hk; simp [hdmCfg] at hk
  · exact ⟨by simp [advance, hdmRow], by simp [advance, hdmRow], by simp [advance, hdmRow], hinv, hw⟩

/-- `set_reference` opens an epoch in state `None`, whatever the detector's state was before -/
theorem hdm_setRef_inv (c : HDM.Cfg α) (o : HDM.Oracle α) (s s0 : HDM.State α) (X : List (List α))
    (h : setReference c o s X = some s0) : HDM.Inv s0 ∧ s0.drift = .none := by
  have hd := (setReference_spec c o s s0 X h).2.2.2.1
  unfold setReference at h
  split at h
  · simp at h
  · exact ⟨(reset_inv c o _ s0 rfl h).1, hd⟩

/-- **HDDDM / CDBD satisfy the lifecycle contract after a `set_reference` call at any point** (whatever
    state `s` the detector was in — fresh, or after any history): every sequence of accepted updates
    that follows is an accepted trace for the acceptor started, as the harness does with its `init`
    line, from the counters observed right after `set_reference`.  `detect_batch ≤ 3` covers the
    documented values 1, 2, 3 (the constructor does not check it; with `detect_batch = 4` the code
    tests from the second batch on, which the contract's table — "the `detect_batch`-th batch" —
    would reject). -/
theorem hdm_accepted_after_setRef (c : HDM.Cfg α) (h3 : c.detectBatch ≤ 3) (s s0 : HDM.State α)
    (X0 : List (List α)) (o0 : HDM.Oracle α) (h0 : setReference c o0 s X0 = some s0)
    (xs : List (HdmIn α)) (os : List Obs) (h : rowsOfOpt (hdmStep c) hdmRow s0 xs = some os) :
    accept (hdmCfg c) { total := s0.total, since := s0.since } 0 os = none := by
  obtain ⟨g1, g2⟩ := hdm_setRef_inv c o0 s s0 X0 h0
  exact model_accepted_opt (hdmCfg c) _ hdmRow (hdmInv c)
    (fun m s x s' hi hs => hdm_step_ok c h3 m s s' x hi hs) xs _ s0 0 os
    ⟨rfl, rfl, by simp [g2], g1, by simp [g2]⟩ h

/-- the acceptor's memory after the harness's `init` line for a fresh detector given its reference:
    both counters are 1 with `detect_batch = 1` (the proxy batch), else 0 -/
def hdmMon0 (c : HDM.Cfg α) : Mon :=
  { total := if c.detectBatch = 1 then 1 else 0, since := if c.detectBatch = 1 then 1 else 0 }

/-- **HDDDM / CDBD satisfy the lifecycle contract on every history** `set_reference(X0)`, then any
    sequence of accepted updates, from a fresh detector — for `detect_batch` 1, 2 and 3, both statistics,
    every divergence (Hellinger, Jensen–Shannon, user function), HDDDM and CDBD (`univariate`), whatever
    bootstrap / `t` values the updates are given. -/
theorem hdm_accepted (c : HDM.Cfg α) (h3 : c.detectBatch ≤ 3) (s0 : HDM.State α)
    (X0 : List (List α)) (o0 : HDM.Oracle α) (h0 : setReference c o0 HDM.init X0 = some s0)
    (xs : List (HdmIn α)) (os : List Obs) (h : rowsOfOpt (hdmStep c) hdmRow s0 xs = some os) :
    accept (hdmCfg c) (hdmMon0 c) 0 os = none := by
  have := hdm_accepted_after_setRef c h3 HDM.init s0 X0 o0 h0 xs os h
  obtain ⟨_, _, _, _, _, _, _, hs, ht, _⟩ := setReference_spec c o0 HDM.init s0 X0 h0
  rw [hs, ht] at this
  simpa [hdmMon0, HDM.init] using this

/-- the histories the theorem quantifies over are exactly the accepted call histories of C07's
    `HDM.run`: when `run` accepts `set_reference` followed by the updates, the rows exist, one per update -/
theorem hdm_rows_of_run (c : HDM.Cfg α) (xs : List (HdmIn α)) (s s' : HDM.State α)
    (h : HDM.run c s (xs.map (fun i => Op.batch i.1 i.2)) = some s') :
    ∃ os, rowsOfOpt (hdmStep c) hdmRow s xs = some os ∧ os.length = xs.length := by
  induction xs generalizing s with
  | nil => exact ⟨[], rfl, rfl⟩
  | cons x xs ih =>
    simp only [List.map_cons, HDM.run, HDM.step] at h
    cases hu : update c x.2 s x.1 with
    | none => simp [hu] at h
    | some s1 =>
      simp only [hu] at h
      obtain ⟨os, ho, hl⟩ := ih s1 h
      refine ⟨hdmRow s1 x :: os, ?_, by simp [hl]⟩
      simp [rowsOfOpt, hdmStep, hu, ho]

end HDM

/-! ### Non-vacuity: per detector a concrete accepted history — `(drift_state, total, since, refDone)`
    per row — satisfying the hypotheses of the theorems above (computable toy carriers `ℚ` / `Int`; the
    theorems hold for every carrier). -/
namespace MoreEx
open MV.KdqDet MV.HDM

def viewRows (os : List Obs) : List (Drift × Nat × Nat × Bool) := os.map (fun o => (o.drift, o.total, o.since, o.refDone))

/-- KdqTreeStreaming, window 2: reference built on the 2nd sample (`since` restarts at 0), a drift after
    two exceeding evaluations, restart at 1, the next reference built on the 2nd sample of the new epoch -/
example : (rowsOfOpt (kdqSStepL exS) (kdqSRow exS) kdqSInitL (exIn ++ [([0], [[0, 1, 0, 1]]), ([0], [])])).map viewRows =
    some [(.none, 1, 1, false), (.none, 2, 0, true), (.none, 3, 1, false), (.none, 4, 2, false),
          (.drift, 5, 3, false), (.none, 6, 1, false), (.none, 7, 0, true), (.none, 8, 1, false)] := by
  decide +kernel

/-- KdqTreeBatch without `set_reference`: the first update builds the reference, the second drifts, the
    third restarts at 1 (tree rebuilt from the drifted batch) -/
example : (kdqBStart exB none).bind (fun s0 => (rowsOfOpt (kdqBStepL exB) (kdqBRow true) s0
      [(1, [[0], [1]], [[0, 1, 0, 1]]), (1, [[0], [0]], []), (1, [[0], [0]], [[0, 0, 0, 0]]), (1, [[0], [0]], [])]).map viewRows) =
    some [(.none, 1, 0, true), (.drift, 2, 1, false), (.none, 3, 1, false), (.none, 4, 2, false)] := by
  decide +kernel

/-- KdqTreeBatch after `set_reference`: drift on the first update, restart -/
example : (kdqBStart exB (some (1, [[0], [1]], [[0, 1, 0, 1]]))).bind (fun s0 =>
      (rowsOfOpt (kdqBStepL exB) (kdqBRow false) s0
        [(1, [[0], [0]], []), (1, [[0], [0]], [[0, 0, 0, 0]]), (1, [[0], [0]], [])]).map viewRows) =
    some [(.drift, 1, 1, false), (.none, 2, 1, false), (.none, 3, 2, false)] := by
  decide +kernel

local instance : HasSqrt Int := ⟨id⟩
local instance : HasLogExp Int := ⟨id, id⟩
local instance : HDM.HasLog1p Int := ⟨id⟩
local instance : HDM.HasTrunc Int := ⟨Int.toNat⟩

/-- toy HDM at `Int`: the user divergence is the number of batch rows in the first bin -/
def exHdm (detectBatch : Nat) : HDM.Cfg Int :=
  { div := .user (fun _ t => ((t.headD 0 : Nat) : Int)), detectBatch := detectBatch, stat := .stdev, signif := 0 }
def exO : HDM.Oracle Int := { eps0 := 0, tcrit := 0 }
def exA : List (List Int) := [[0], [4], [0], [4]]
def exB' : List (List Int) := [[0], [0], [0], [4]]
def exHdmIn : List (HdmIn Int) := [(exA, exO), (exB', exO), (exA, exO), (exB', exO), (exB', exO), (exA, exO), (exA, exO)]

/-- rows of `set_reference(A ++ A)` followed by the seven updates -/
def exHdmRows (db : Nat) : Option (List Obs) :=
  (setReference (exHdm db) exO HDM.init (exA ++ exA)).bind (fun s0 => rowsOfOpt (hdmStep (exHdm db)) hdmRow s0 exHdmIn)

/-- `detect_batch = 1`: the acceptor starts at `init 1 1`; drifts on the first real batch of an epoch
    (`since = 2`), twice back to back; after each the counters restart at 2 / grow by 2 -/
example : (exHdmRows 1).map viewRows =
    some [(.none, 2, 2, false), (.drift, 3, 3, false), (.none, 5, 2, false), (.drift, 6, 3, false),
          (.drift, 8, 2, false), (.none, 10, 2, false), (.none, 11, 3, false)] := by decide +kernel

/-- `detect_batch = 2`: drift on the second batch of every epoch, restart at 1 -/
example : (exHdmRows 2).map viewRows =
    some [(.none, 1, 1, false), (.drift, 2, 2, false), (.none, 3, 1, false), (.drift, 4, 2, false),
          (.none, 5, 1, false), (.drift, 6, 2, false), (.none, 7, 1, false)] := by decide +kernel

/-- `detect_batch = 3`: nothing before the third batch of an epoch -/
example : (exHdmRows 3).map viewRows =
    some [(.none, 1, 1, false), (.none, 2, 2, false), (.drift, 3, 3, false), (.none, 4, 1, false),
          (.none, 5, 2, false), (.drift, 6, 3, false), (.none, 7, 1, false)] := by decide +kernel

/-- the conclusion of `hdm_accepted` on these histories, computed -/
example : ((exHdmRows 1).map (accept (hdmCfg (exHdm 1)) (hdmMon0 (exHdm 1)) 0)) = some none ∧
    ((exHdmRows 3).map (accept (hdmCfg (exHdm 3)) (hdmMon0 (exHdm 3)) 0)) = some none := by decide +kernel

/-- the hypothesis `detect_batch ≤ 3` of `hdm_accepted` cannot be dropped: an (undocumented)
    `detect_batch = 4` tests from the second batch on, before "the `detect_batch`-th batch" -/
example : ((exHdmRows 4).map (accept (hdmCfg (exHdm 4)) (hdmMon0 (exHdm 4)) 0)) = some (some (1, "warmup")) := by
  decide +kernel

/-- … and the acceptor is not trivially accepting for these kinds: a streaming row that claims a drift
    while the reference window is still filling is rejected -/
example : accept (kdqSCfg exS) {} 0
    [{ drift := .drift, total := 1, since := 1, recs := (none, none), err := false, refDone := false }] =
    some (0, "warmup") := by decide

end MoreEx
end MV.Lifecycle
