/-
  C13 — each election returns exactly what its voting rule says, for every vote
  pattern (all n, all parameters).
-/
import MenelausVerif.Model.Election
namespace MV.Election
open MV

/-! ### SimpleMajority -/

theorem majority_iff (vs : List Drift) :
    simpleMajority vs = .drift ↔ 2 * vs.count .drift > vs.length := by
  unfold simpleMajority
  split <;> simp <;> omega

theorem majority_range (vs : List Drift) :
    simpleMajority vs = .drift ∨ simpleMajority vs = .none := by
  unfold simpleMajority; split <;> simp

/-! ### MinimumApproval -/

theorem minApprovalLoop_iff (a : Nat) (h : 1 ≤ a) (n : Nat) (hn : n < a) (vs : List Drift) :
    minApprovalLoop a n vs = .drift ↔ n + vs.count .drift ≥ a := by
  induction vs generalizing n with
  | nil => simp [minApprovalLoop]; omega
  | cons d ds ih =>
    unfold minApprovalLoop
    by_cases hd : d = .drift
    · subst hd
      simp only [if_true, List.count_cons_self]
      by_cases hge : n + 1 ≥ a
      · simp [hge]; omega
      · simp only [hge, if_false]
        rw [ih (n + 1) (by omega)]; omega
    · have hc : List.count Drift.drift (d :: ds) = List.count Drift.drift ds := by
        rw [List.count_cons]; simp [hd]
      simp only [hd, if_false, hc]
      have : ¬ n ≥ a := by omega
      simp only [this, if_false]
      exact ih n hn

/-- `MinimumApprovalElection(a)` alarms iff at least `a` members report drift (documented domain `a ≥ 1`). -/
theorem minimum_iff (a : Nat) (h : 1 ≤ a) (vs : List Drift) :
    minApproval a vs = .drift ↔ vs.count .drift ≥ a := by
  unfold minApproval
  rw [minApprovalLoop_iff a h 0 (by omega)]; omega

/-- the degenerate parameter `a = 0`: alarms iff there is at least one member -/
theorem minimum_zero (vs : List Drift) : minApproval 0 vs = .drift ↔ vs ≠ [] := by
  unfold minApproval
  cases vs with
  | nil => simp [minApprovalLoop]
  | cons d ds => simp [minApprovalLoop]

theorem minApprovalLoop_range (a n : Nat) (vs : List Drift) :
    minApprovalLoop a n vs = .drift ∨ minApprovalLoop a n vs = .none := by
  induction vs generalizing n with
  | nil => simp [minApprovalLoop]
  | cons d ds ih => grind [minApprovalLoop]

theorem minimum_range (a : Nat) (vs : List Drift) :
    minApproval a vs = .drift ∨ minApproval a vs = .none := minApprovalLoop_range a 0 vs

/-! ### OrderedApproval -/

theorem orderedLoop_iff (a c : Nat) (_h : 1 ≤ a + c) (na nc : Nat)
    (hinv : (na < a ∧ nc = 0) ∨ (na = a ∧ nc < c)) (vs : List Drift) :
    orderedLoop a c na nc vs = .drift ↔ na + nc + vs.count .drift ≥ a + c := by
  induction vs generalizing na nc with
  | nil => simp [orderedLoop]; omega
  | cons d ds ih =>
    unfold orderedLoop
    by_cases hd : d = .drift
    · subst hd
      simp only [if_true, List.count_cons_self]
      by_cases hlt : na < a
      · simp only [hlt, if_true]
        by_cases hdone : na + 1 ≥ a ∧ nc ≥ c
        · rw [if_pos hdone]; simp only [true_iff]; omega
        · rw [if_neg hdone, ih (na + 1) nc (by omega)]; omega
      · simp only [hlt, if_false]
        by_cases hdone : na ≥ a ∧ nc + 1 ≥ c
        · rw [if_pos hdone]; simp only [true_iff]; omega
        · rw [if_neg hdone, ih na (nc + 1) (by omega)]; omega
    · have hc : List.count Drift.drift (d :: ds) = List.count Drift.drift ds := by
        rw [List.count_cons]; simp [hd]
      simp only [hd, if_false, hc]
      exact ih na nc hinv

/-- `OrderedApprovalElection(a, c)` alarms iff at least `a + c` members report drift. -/
theorem ordered_iff (a c : Nat) (h : 1 ≤ a + c) (vs : List Drift) :
    ordered a c vs = .drift ↔ vs.count .drift ≥ a + c := by
  unfold ordered
  rw [orderedLoop_iff a c h 0 0 (by omega)]; omega

/-- the degenerate `a = c = 0`: alarms iff at least one member reports drift -/
theorem ordered_zero (vs : List Drift) : ordered 0 0 vs = .drift ↔ vs.count .drift ≥ 1 := by
  unfold ordered
  induction vs with
  | nil => simp [orderedLoop]
  | cons d ds ih =>
    unfold orderedLoop
    by_cases hd : d = .drift
    · subst hd; simp
    · have hc : List.count Drift.drift (d :: ds) = List.count Drift.drift ds := by
        rw [List.count_cons]; simp [hd]
      simp only [hd, if_false, hc]; exact ih

theorem orderedLoop_range (a c na nc : Nat) (vs : List Drift) :
    orderedLoop a c na nc vs = .drift ∨ orderedLoop a c na nc vs = .none := by
  induction vs generalizing na nc with
  | nil => simp [orderedLoop]
  | cons d ds ih => grind [orderedLoop]

theorem ordered_range (a c : Nat) (vs : List Drift) :
    ordered a c vs = .drift ∨ ordered a c vs = .none := orderedLoop_range a c 0 0 vs

/-! ### Monotonicity: turning one more member to drift never retracts a drift verdict -/

/-- `ws` is `vs` with some members turned to drift -/
def MoreDrift : List Drift → List Drift → Prop
  | [], [] => True
  | v :: vs, w :: ws => (w = v ∨ w = .drift) ∧ MoreDrift vs ws
  | _, _ => False

theorem MoreDrift.length_eq : ∀ {vs ws : List Drift}, MoreDrift vs ws → vs.length = ws.length
  | [], [], _ => rfl
  | _ :: vs, _ :: ws, h => by simp [MoreDrift.length_eq (vs := vs) (ws := ws) h.2]
  | [], _ :: _, h => h.elim
  | _ :: _, [], h => h.elim

theorem MoreDrift.count_le : ∀ {vs ws : List Drift}, MoreDrift vs ws →
    vs.count .drift ≤ ws.count .drift
  | [], [], _ => by simp
  | v :: vs, w :: ws, h => by
    have ih := MoreDrift.count_le (vs := vs) (ws := ws) h.2
    rcases h.1 with rfl | rfl
    · simp only [List.count_cons]; omega
    · simp only [List.count_cons]; split <;> simp <;> omega
  | [], _ :: _, h => h.elim
  | _ :: _, [], h => h.elim

theorem majority_monotone {vs ws : List Drift} (h : MoreDrift vs ws)
    (hv : simpleMajority vs = .drift) : simpleMajority ws = .drift := by
  rw [majority_iff] at *
  have := h.count_le; have := h.length_eq; omega

theorem minimum_monotone (a : Nat) {vs ws : List Drift} (h : MoreDrift vs ws)
    (hv : minApproval a vs = .drift) : minApproval a ws = .drift := by
  by_cases ha : 1 ≤ a
  · rw [minimum_iff a ha] at *
    have := h.count_le; omega
  · have : a = 0 := by omega
    subst this
    rw [minimum_zero] at *
    intro hw; subst hw
    cases vs with
    | nil => exact hv rfl
    | cons _ _ => exact h.elim

theorem ordered_monotone (a c : Nat) {vs ws : List Drift} (h : MoreDrift vs ws)
    (hv : ordered a c vs = .drift) : ordered a c ws = .drift := by
  by_cases ha : 1 ≤ a + c
  · rw [ordered_iff a c ha] at *
    have := h.count_le; omega
  · have h0 : a = 0 ∧ c = 0 := by omega
    obtain ⟨rfl, rfl⟩ := h0
    rw [ordered_zero] at *
    have := h.count_le; omega

/-! ### ConfirmedElection: refinement to the documented automaton -/

/-- the documented per-member automaton: idle, or still voting for `r` more calls -/
inductive Mem where
  | idle
  | waiting (r : Nat)
  deriving DecidableEq, Repr

/-- specification step of one member -/
def Mem.step (w : Nat) : Mem → Drift → Ballot × Mem
  | .idle, .drift => (.voter, if w = 0 then .idle else .waiting w)
  | .idle, .warning => (.warn, .idle)
  | .idle, .none => (.nothing, .idle)
  | .waiting r, .warning => (.warn, .waiting r)
  | .waiting r, _ => (.voter, if r - 1 = 0 then .idle else .waiting (r - 1))

/-- abstraction of a counter value -/
def absCtr (w : Nat) (c : Nat) : Mem := if c = 0 then .idle else .waiting (w + 1 - c)

/-- One member: the code's counter arithmetic implements the documented automaton. -/
theorem member_refines (w c : Nat) (hc : c ≤ w) (st : Drift) :
    (memberStep c st).1 = (Mem.step w (absCtr w c) st).1 ∧
    absCtr w (expire w (memberStep c st).2) = (Mem.step w (absCtr w c) st).2 ∧
    expire w (memberStep c st).2 ≤ w := by
  cases st <;> grind [memberStep, absCtr, expire, Mem.step]

/-- all counters ≤ wait -/
def CtrsOk (w : Nat) : Option (List Nat) → Prop
  | Option.none => True
  | some cs => ∀ c ∈ cs, c ≤ w

/-- After every call the per-member wait counters never exceed `wait_time`. -/
theorem counters_le_wait (e : Confirmed) (vs : List Drift) :
    CtrsOk e.wait (e.call vs).2.ctrs := by
  unfold Confirmed.call CtrsOk
  simp only [List.mem_map]
  rintro c ⟨b, _, rfl⟩
  unfold expire; split <;> omega

/-- number of voters / warners according to the specification automaton -/
def specBallots (w : Nat) (ms : List Mem) (vs : List Drift) : List Ballot :=
  List.zipWith (fun m v => (Mem.step w m v).1) ms vs

theorem ballots_refine (w : Nat) (cs : List Nat) (vs : List Drift) (hcs : ∀ c ∈ cs, c ≤ w) :
    (List.zipWith memberStep cs vs).map (·.1) = specBallots w (cs.map (absCtr w)) vs := by
  induction cs generalizing vs with
  | nil => simp [specBallots]
  | cons c cs ih =>
    cases vs with
    | nil => simp [specBallots]
    | cons v vs =>
      simp only [List.zipWith_cons_cons, List.map_cons, specBallots]
      rw [(member_refines w c (hcs c (by simp)) v).1]
      congr 1
      exact ih vs (fun c hc => hcs c (by simp [hc]))

theorem ctrs_refine (w : Nat) (cs : List Nat) (vs : List Drift) (hcs : ∀ c ∈ cs, c ≤ w) :
    ((List.zipWith memberStep cs vs).map (fun b => expire w b.2)).map (absCtr w) =
      List.zipWith (fun m v => (Mem.step w m v).2) (cs.map (absCtr w)) vs := by
  induction cs generalizing vs with
  | nil => simp
  | cons c cs ih =>
    cases vs with
    | nil => simp
    | cons v vs =>
      simp only [List.zipWith_cons_cons, List.map_cons]
      rw [(member_refines w c (hcs c (by simp)) v).2.1]
      congr 1
      exact ih vs (fun c hc => hcs c (by simp [hc]))

/-- verdict of the documented rule from a list of ballots -/
def verdictOf (sens : Nat) (bs : List Ballot) : Drift :=
  let nd := bs.count .voter
  let nw := bs.count .warn
  if nd ≥ sens then .drift else if nw + nd ≥ sens then .warning else .none

theorem filter_length_eq_count (bs : List (Ballot × Nat)) (b : Ballot) :
    (bs.filter (fun x => x.1 = b)).length = (bs.map (·.1)).count b := by
  induction bs with
  | nil => simp
  | cons x xs ih =>
    simp only [List.filter_cons, List.map_cons, List.count_cons]
    by_cases h : x.1 = b
    · simp [h, ih]
    · simp [h, ih]

/-- **Refinement**: a call of `ConfirmedElection` returns the documented verdict
of the abstract automata and moves every member's counter to the abstraction of
the automaton's next state. -/
theorem confirmed_refines (e : Confirmed) (vs : List Drift) (cs : List Nat)
    (hc : e.ctrs = some cs) (hcs : ∀ c ∈ cs, c ≤ e.wait) :
    (e.call vs).1 = verdictOf e.sens (specBallots e.wait (cs.map (absCtr e.wait)) vs) ∧
    ∃ cs', (e.call vs).2.ctrs = some cs' ∧
      cs'.map (absCtr e.wait) =
        List.zipWith (fun m v => (Mem.step e.wait m v).2) (cs.map (absCtr e.wait)) vs := by
  unfold Confirmed.call
  simp only [hc, Option.getD_some]
  refine ⟨?_, _, rfl, ctrs_refine e.wait cs vs hcs⟩
  unfold verdictOf
  simp only [filter_length_eq_count, ballots_refine e.wait cs vs hcs]

/-- first call: counters start at zero = every member idle -/
theorem confirmed_first (e : Confirmed) (vs : List Drift) (hc : e.ctrs = Option.none) :
    (e.call vs).1 = verdictOf e.sens (specBallots e.wait (List.replicate vs.length .idle) vs) := by
  have h := (confirmed_refines { e with ctrs := some (List.replicate vs.length 0) } vs
    (List.replicate vs.length 0) rfl (by simp)).1
  have habs : (List.replicate vs.length 0).map (absCtr e.wait) = List.replicate vs.length Mem.idle := by
    simp [absCtr]
  rw [habs] at h
  rw [← h]
  unfold Confirmed.call
  simp [hc]

theorem confirmed_range (e : Confirmed) (vs : List Drift) :
    (e.call vs).1 = .drift ∨ (e.call vs).1 = .warning ∨ (e.call vs).1 = .none := by
  unfold Confirmed.call
  simp only
  split
  · simp
  · split <;> simp

/-! ### non-vacuity -/
example : minApproval 2 [.drift, .none, .drift] = .drift := by decide
example : ordered 1 1 [.drift, .warning, .none] = .none := by decide
example : simpleMajority [.drift, .drift, .none, .none] = .none := by decide
example : let e : Confirmed := { sens := 2, wait := 2 }
    let r1 := e.call [.drift, .none]
    let r2 := r1.2.call [.none, .drift]
    r1.1 = .none ∧ r2.1 = .drift ∧ r2.2.ctrs = some [2, 1] := by decide

end MV.Election

namespace MV.Election
open MV

/-! ### ConfirmedElection over whole call histories -/

/-- verdicts of the implementation model along a history of calls -/
def Confirmed.verdicts (e : Confirmed) : List (List Drift) → List Drift
  | [] => []
  | vs :: rest => (e.call vs).1 :: Confirmed.verdicts (e.call vs).2 rest

/-- verdicts of the documented automaton along a history of calls -/
def specVerdicts (sens w : Nat) (ms : List Mem) : List (List Drift) → List Drift
  | [] => []
  | vs :: rest =>
    verdictOf sens (specBallots w ms vs) ::
      specVerdicts sens w (List.zipWith (fun m v => (Mem.step w m v).2) ms vs) rest

theorem call_sens_wait (e : Confirmed) (vs : List Drift) :
    (e.call vs).2.sens = e.sens ∧ (e.call vs).2.wait = e.wait := by
  unfold Confirmed.call; exact ⟨rfl, rfl⟩

/-- **Refinement over histories.**  From any state whose counters are within `wait_time`, the
sequence of verdicts returned over an arbitrary history of calls is the sequence the documented
per-member automata (abstraction of the counters) produce. -/
theorem confirmed_history_refines (e : Confirmed) (cs : List Nat) (hc : e.ctrs = some cs)
    (hcs : ∀ c ∈ cs, c ≤ e.wait) (hist : List (List Drift)) :
    e.verdicts hist = specVerdicts e.sens e.wait (cs.map (absCtr e.wait)) hist := by
  induction hist generalizing e cs with
  | nil => rfl
  | cons vs rest ih =>
    obtain ⟨hv, cs', hc', habs⟩ := confirmed_refines e vs cs hc hcs
    have hle : ∀ c ∈ cs', c ≤ (e.call vs).2.wait := by
      have := counters_le_wait e vs
      rw [hc'] at this
      rw [(call_sens_wait e vs).2]
      exact this
    have ih' := ih (e.call vs).2 cs' hc' hle
    simp only [Confirmed.verdicts, specVerdicts, hv]
    rw [ih', (call_sens_wait e vs).1, (call_sens_wait e vs).2, habs]

/-- … in particular from the freshly constructed election (first call initialises the counters). -/
theorem confirmed_history_from_init (sens wait : Nat) (vs : List Drift) (rest : List (List Drift)) :
    ({ sens := sens, wait := wait } : Confirmed).verdicts (vs :: rest) =
      specVerdicts sens wait (List.replicate vs.length .idle) (vs :: rest) := by
  let e0 : Confirmed := { sens := sens, wait := wait, ctrs := some (List.replicate vs.length 0) }
  have h := confirmed_history_refines e0 (List.replicate vs.length 0) rfl (by simp) (vs :: rest)
  have habs : (List.replicate vs.length 0).map (absCtr wait) = List.replicate vs.length Mem.idle := by
    simp [absCtr]
  simp only [e0, habs] at h
  rw [← h]
  simp only [Confirmed.verdicts, Confirmed.call, Option.getD_none, Option.getD_some]

example : ({ sens := 2, wait := 1 } : Confirmed).verdicts [[.drift, .none], [.none, .warning], [.none, .drift]]
    = [.none, .warning, .none] := by decide

end MV.Election
