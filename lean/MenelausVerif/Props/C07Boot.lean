/-
  C07 — the bootstrap estimate ε₀ of HDDDM / CDBD (`_estimate_initial_epsilon`), modelled in
  Model/HDMBoot.lean, and `update` with that estimate computed by the model (`updateB`).

  Every carrier (no arithmetic law; holds for the executed `Float` instance):
    `bootSize_def`                      the subset size is `trunc((1 − 1/k) · reference_n)` as coded
    `pairsOf_length`, `boot_counts`     `s(s−1)/2` pairwise distances for `s` subsets, `m(m−1)/2` ε-terms for `m` distances
    `validDraws_iff`, `sampleRows_length`  what the executable precondition on the draws says; valid draws pick `size` rows
    `boot_reads_only_sampled_rows`      ε₀ depends on the reference only through the sampled rows
    `bootEps_perm_within`               … and not on the order of the positions inside a subset
    `bootDistances_const_of_perm`       subsets drawing the same multiset of rows ⇒ all pairwise distances coincide
    `bootEps_few_subsets`               with at most two subsets there is no ε-term: ε₀ = `0 / k`
    `reset_oracle_irrelevant`, `setReferenceB_eq`, `updateB_eq_update`, `updateB_some`, `stepB_eq_step`,
    `runB_eq_run`, `runB_some`          **connection**: the bootstrap form equals the oracle form of Model/HDM.lean
                                        when the oracle value is the model's ε₀ — every C07 theorem transfers:
    `runB_inv`, `updateB_drift_iff`     (two transferred theorems, as instances)
    `drawsOk_iff`                       on reachable states the driver's draw check is about `len(reference)`
    `updateB_zero_subsets`              `subsets = 0` ⇒ the bootstrapping call is rejected
  Ordered fields:
    `bootEps_nonneg`                    ε₀ ≥ 0
    `bootEps_eq_zero_iff`               ε₀ = 0 ⇔ all pairwise subset distances coincide (k ≠ 0)
    `bootEps_eq_zero_of_perm`           ε₀ = 0 when all subsets draw the same multiset of rows
    `bootEps_two_subsets`               ε₀ = 0 whenever `subsets ≤ 2`
    `bootSize_eq_div`, `bootSize_le`, `bootSize_pos`   (floor semiring, `truncNat = ⌊·⌋₊`) size = `(k−1)·n / k`
  ℝ:
    `updateB_threshold_is_bootEps`      after any accepted history, on the second batch of an epoch
                                        (`detect_batch ≠ 3`) the recorded `thresholds[t]` is the model's ε₀
  Nothing is `_partial`.  Not covered: rounding of the `Float` instance; the distribution of the draws
  (they are inputs; their shape is the executable predicate `validDraws`, evaluated by the driver).
-/
import MenelausVerif.Model.HDMBoot
import MenelausVerif.Props.C07
import Mathlib.Algebra.Order.Floor.Semiring
import Mathlib.Algebra.Order.Floor.Semifield
import Mathlib.Algebra.Order.BigOperators.Group.List
import Mathlib.Tactic.Ring
import Mathlib.Tactic.FieldSimp
import Mathlib.Tactic.Linarith
namespace MV.HDM
open MV
set_option linter.unusedSectionVars false

section anyCarrier
variable {α : Type} [Add α] [Sub α] [Mul α] [Div α] [Neg α] [LT α] [DecidableLT α]
  [LE α] [DecidableLE α] [NatCast α] [BEq α] [HasSqrt α] [HasLogExp α] [HasLog1p α] [HasTrunc α]

/-! ### sizes and counts -/

/-- **subset size** as coded: `int((1 - (1 / num_subsets)) * reference_n)` -/
theorem bootSize_def (k refN : Nat) :
    bootSize α k refN = truncNat (((one : α) - (one : α) / (k : α)) * (refN : α)) := rfl

theorem pairsOf_length_two_mul {β : Type} (l : List β) :
    2 * (pairsOf l).length = l.length * (l.length - 1) := by
  induction l with
  | nil => rfl
  | cons x xs ih =>
    simp only [pairsOf, List.length_append, List.length_map, List.length_cons, Nat.add_sub_cancel]
    rw [Nat.mul_add, ih]
    cases xs.length with
    | zero => rfl
    | succ m => simp only [Nat.add_sub_cancel]; ring

/-- the two nested loops `i < j` visit `n(n−1)/2` pairs -/
theorem pairsOf_length {β : Type} (l : List β) :
    (pairsOf l).length = l.length * (l.length - 1) / 2 := by
  have := pairsOf_length_two_mul l
  omega

theorem mem_pairsOf {β : Type} (l : List β) (p : β × β) (h : p ∈ pairsOf l) : p.1 ∈ l ∧ p.2 ∈ l := by
  induction l with
  | nil => simp [pairsOf] at h
  | cons x xs ih =>
    simp only [pairsOf, List.mem_append, List.mem_map] at h
    rcases h with ⟨y, hy, rfl⟩ | h
    · simp [hy]
    · have := ih h
      simp [this.1, this.2]

/-- **number of pairwise distances and of ε-terms**: `s` subsets give `s(s−1)/2` distances, and `m`
    distances give `m(m−1)/2` summands of ε₀ -/
theorem boot_counts (d : Divergence α) (bins dim : Nat) (rg : Nat → α × α) (ref : List (List α))
    (draws : List (List Nat)) :
    (bootHists bins dim rg ref draws).length = draws.length ∧
    (bootDistances d (bootHists bins dim rg ref draws)).length = draws.length * (draws.length - 1) / 2 ∧
    ∀ ds : List α, (epsTerms ds).length = ds.length * (ds.length - 1) / 2 := by
  refine ⟨by simp [bootHists], ?_, ?_⟩
  · simp [bootDistances, pairsOf_length, bootHists]
  · intro ds; simp [epsTerms, pairsOf_length]

/-- every subset has one histogram per feature, each with `bins` entries -/
theorem subsetHists_shape (bins dim : Nat) (rg : Nat → α × α) (rows : List (List α)) :
    (subsetHists bins dim rg rows).length = dim ∧ ∀ h ∈ subsetHists bins dim rg rows, h.length = bins := by
  constructor
  · simp [subsetHists]
  · intro h hh
    simp only [subsetHists, List.mem_map] at hh
    obtain ⟨f, _, rfl⟩ := hh
    exact hist_length _ _ _ _

/-- what the executable precondition on the draws says -/
theorem validDraws_iff (k refN refLen : Nat) (draws : List (List Nat)) :
    validDraws α k refN refLen draws = true ↔
      draws.length = k ∧ ∀ idx ∈ draws, idx.length = bootSize α k refN ∧ ∀ i ∈ idx, i < refLen := by
  simp [validDraws]

/-- positions inside the frame all pick a row: a valid draw yields a subset of exactly `size` rows -/
theorem sampleRows_length (ref : List (List α)) (idx : List Nat) (h : ∀ i ∈ idx, i < ref.length) :
    (sampleRows ref idx).length = idx.length := by
  induction idx with
  | nil => rfl
  | cons i is ih =>
    have hi : i < ref.length := h i (by simp)
    have : ref[i]? = some ref[i] := List.getElem?_eq_getElem hi
    simp only [sampleRows, List.filterMap_cons, this, List.length_cons]
    have := ih (fun j hj => h j (by simp [hj]))
    simp only [sampleRows] at this
    rw [this]

/-! ### what ε₀ reads -/

/-- **ε₀ depends on the reference only through the sampled rows**: two references that agree at every
    drawn position give the same estimate (whatever else they contain, whatever their lengths) -/
theorem boot_reads_only_sampled_rows (d : Divergence α) (bins dim : Nat) (rg : Nat → α × α) (k : Nat)
    (ref ref' : List (List α)) (draws : List (List Nat))
    (h : ∀ idx ∈ draws, ∀ i ∈ idx, ref[i]? = ref'[i]?) :
    bootEps d bins dim rg k ref draws = bootEps d bins dim rg k ref' draws := by
  have : bootHists bins dim rg ref draws = bootHists bins dim rg ref' draws := by
    unfold bootHists
    apply List.map_congr_left
    intro idx hidx
    have : sampleRows ref idx = sampleRows ref' idx := by
      unfold sampleRows
      exact List.filterMap_congr (h idx hidx)
    rw [this]
  unfold bootEps
  rw [this]

/-- `np.histogram` of a permuted column gives the same counts (no law needed; cf. `C18.hist_perm`,
    stated there for linear orders) -/
theorem hist_perm' (bins : Nat) (lo hi : α) {xs xs' : List α} (h : xs.Perm xs') :
    hist bins lo hi xs = hist bins lo hi xs' := by
  unfold hist binIndices
  apply List.map_congr_left
  intro k _
  exact ((h.filter _).map _).count_eq k

/-- the histograms of a subset depend on the multiset of drawn positions only -/
theorem subsetHists_perm (bins dim : Nat) (rg : Nat → α × α) (ref : List (List α)) {idx idx' : List Nat}
    (h : idx.Perm idx') :
    subsetHists bins dim rg (sampleRows ref idx) = subsetHists bins dim rg (sampleRows ref idx') := by
  unfold subsetHists
  apply List.map_congr_left
  intro f _
  apply hist_perm'
  unfold colOf sampleRows
  exact (h.filterMap _).filterMap _

/-- **the order of the positions inside a subset is irrelevant** -/
theorem bootEps_perm_within (d : Divergence α) (bins dim : Nat) (rg : Nat → α × α) (k : Nat)
    (ref : List (List α)) (draws draws' : List (List Nat)) (h : List.Forall₂ List.Perm draws draws') :
    bootEps d bins dim rg k ref draws = bootEps d bins dim rg k ref draws' := by
  have : bootHists bins dim rg ref draws = bootHists bins dim rg ref draws' := by
    unfold bootHists
    induction h with
    | nil => rfl
    | cons hp _ ih => simp only [List.map_cons, ih, subsetHists_perm bins dim rg ref hp]
  unfold bootEps
  rw [this]

/-- **subsets that draw the same multiset of rows are indistinguishable**: all pairwise distances
    coincide (each is the distance of one and the same histogram list to itself) -/
theorem bootDistances_const_of_perm (d : Divergence α) (bins dim : Nat) (rg : Nat → α × α)
    (ref : List (List α)) (draws : List (List Nat)) (h : ∀ i ∈ draws, ∀ j ∈ draws, i.Perm j) :
    ∀ a ∈ bootDistances d (bootHists bins dim rg ref draws),
      ∀ b ∈ bootDistances d (bootHists bins dim rg ref draws), a = b := by
  have hh : ∀ x ∈ bootHists bins dim rg ref draws, ∀ y ∈ bootHists bins dim rg ref draws, x = y := by
    intro x hx y hy
    simp only [bootHists, List.mem_map] at hx hy
    obtain ⟨i, hi, rfl⟩ := hx
    obtain ⟨j, hj, rfl⟩ := hy
    exact subsetHists_perm bins dim rg ref (h i hi j hj)
  intro a ha b hb
  simp only [bootDistances, List.mem_map] at ha hb
  obtain ⟨p, hp, rfl⟩ := ha
  obtain ⟨q, hq, rfl⟩ := hb
  have hp' := mem_pairsOf _ p hp
  have hq' := mem_pairsOf _ q hq
  rw [hh p.1 hp'.1 q.1 hq'.1, hh p.2 hp'.2 q.2 hq'.2]

/-- with at most two subsets there is at most one pairwise distance, hence no ε-term at all:
    ε₀ is `0 / num_subsets` whatever the data (in particular for the menu value `subsets = 2`) -/
theorem bootEps_few_subsets (d : Divergence α) (bins dim : Nat) (rg : Nat → α × α) (k : Nat)
    (ref : List (List α)) (draws : List (List Nat)) (h : draws.length ≤ 2) :
    bootEps d bins dim rg k ref draws = (zero : α) / (k : α) := by
  have hl := (boot_counts d bins dim rg ref draws).2.1
  have hle : (bootDistances d (bootHists bins dim rg ref draws)).length ≤ 1 := by
    rw [hl]
    have : draws.length = 0 ∨ draws.length = 1 ∨ draws.length = 2 := by omega
    rcases this with e | e | e <;> simp [e]
  have ht : epsTerms (bootDistances d (bootHists bins dim rg ref draws)) = [] := by
    match hds : bootDistances d (bootHists bins dim rg ref draws), hle with
    | [], _ => rfl
    | [_], _ => rfl
  unfold bootEps epsOfDistances
  rw [ht]
  rfl

/-! ### connection with the oracle form of Model/HDM.lean -/

/-- `reset` never reads the oracle record (its proxy batch is the first of the epoch) -/
theorem reset_oracle_irrelevant (c : Cfg α) (o o' : Oracle α) (s : State α) :
    reset c o s = reset c o' s := by
  unfold reset
  by_cases h1 : c.detectBatch = 1
  · simp only [h1, if_true]
    split
    · rw [updateCore_first_oracle_irrelevant c o o' _ _ _ rfl]
    · rfl
  · simp only [h1, if_false]

theorem preStateB_eq (c : Cfg α) (o : Oracle α) (s : State α) :
    preStateB c o.tcrit s = preState c o s := by
  unfold preStateB preState
  split
  · exact reset_oracle_irrelevant c _ _ s
  · rfl

/-- `set_reference` in bootstrap form is `set_reference` in oracle form, for any oracle record -/
theorem setReferenceB_eq (c : Cfg α) (tc : α) (o : Oracle α) (s : State α) (X : List (List α)) :
    setReferenceB c tc s X = setReference c o s X := by
  unfold setReferenceB setReference
  split
  · rfl
  · exact reset_oracle_irrelevant c _ _ _

theorem oracleOf_tcrit (c : Cfg α) (k : Nat) (e : Ext α) (s : State α) (X : List (List α)) :
    (oracleOf c k e s X).tcrit = e.tcrit := by
  unfold oracleOf
  split
  · split <;> rfl
  · rfl

/-- **connection (one call)**: for `subsets ≠ 0`, `update` with the modelled bootstrap *is* the
    oracle-form `update` of Model/HDM.lean when the oracle value is the model's ε₀
    (`oracleOf … = ⟨bootEps … , tcrit⟩` on a bootstrapping batch) -/
theorem updateB_eq_update (c : Cfg α) (k : Nat) (hk : k ≠ 0) (e : Ext α) (s : State α) (X : List (List α)) :
    updateB c k e s X = update c (oracleOf c k e s X) s X := by
  have hpre : (if s.drift = .drift then reset c (oracleOf c k e s X) s else some s) = preStateB c e.tcrit s := by
    unfold preStateB
    split
    · exact reset_oracle_irrelevant c _ _ s
    · rfl
  unfold updateB update
  rw [hpre]
  by_cases hr : s.hasRef = true
  · simp only [hr, if_true]
    cases hp : preStateB c e.tcrit s with
    | none => rfl
    | some s0 =>
      simp only
      cases hv : validBatch c s0.dim X with
      | none => rfl
      | some d =>
        have ho : oracleOf c k e s X = stepOracle c k e s0 d X := by
          unfold oracleOf; simp only [hp, hv]
        have hk' : (k == 0) = false := by simp [hk]
        simp only [hk', Bool.and_false, ho]
        rfl
  · simp only [hr]
    rfl

/-- **connection (one call, any `subsets`)**: whatever the bootstrap form accepts, the oracle form
    accepts with the same result (`subsets = 0` only adds the `ZeroDivisionError` rejection) -/
theorem updateB_some (c : Cfg α) (k : Nat) (e : Ext α) (s s' : State α) (X : List (List α))
    (h : updateB c k e s X = some s') : update c (oracleOf c k e s X) s X = some s' := by
  by_cases hk : k = 0
  · have hpre : (if s.drift = .drift then reset c (oracleOf c k e s X) s else some s) = preStateB c e.tcrit s := by
      unfold preStateB
      split
      · exact reset_oracle_irrelevant c _ _ s
      · rfl
    unfold updateB at h
    unfold update
    rw [hpre]
    by_cases hr : s.hasRef = true
    · simp only [hr, if_true] at h ⊢
      cases hp : preStateB c e.tcrit s with
      | none => rw [hp] at h; simp at h
      | some s0 =>
        rw [hp] at h
        simp only at h ⊢
        cases hv : validBatch c s0.dim X with
        | none => rw [hv] at h; simp at h
        | some d =>
          rw [hv] at h
          have ho : oracleOf c k e s X = stepOracle c k e s0 d X := by
            unfold oracleOf; simp only [hp, hv]
          simp only at h ⊢
          split at h
          · simp at h
          · rw [ho]; exact h
    · simp [hr] at h
  · rw [← updateB_eq_update c k hk]; exact h

/-- one public call: bootstrap form = oracle form of the translated call -/
theorem stepB_eq_step (c : Cfg α) (k : Nat) (hk : k ≠ 0) (s : State α) (op : OpB α) :
    stepB c k s op = step c s (toOp c k s op) := by
  cases op with
  | setRef X tc => exact setReferenceB_eq c tc _ s X
  | batch X e => exact updateB_eq_update c k hk e s X

theorem stepB_some (c : Cfg α) (k : Nat) (s s' : State α) (op : OpB α) (h : stepB c k s op = some s') :
    step c s (toOp c k s op) = some s' := by
  cases op with
  | setRef X tc => rw [← h]; exact (setReferenceB_eq c tc _ s X).symm
  | batch X e => exact updateB_some c k e s s' X h

/-- **connection (histories)**: a history in bootstrap form runs exactly like its oracle-form
    translation `toOps` (same data, each oracle record filled in with the model's ε₀) — so every
    theorem about `run` / `update` of Model/HDM.lean (Props/C07, C02HDM, C17HDM, C18) applies to the
    detector with the modelled bootstrap. -/
theorem runB_eq_run (c : Cfg α) (k : Nat) (hk : k ≠ 0) (s : State α) (ops : List (OpB α)) :
    runB c k s ops = run c s (toOps c k s ops) := by
  induction ops generalizing s with
  | nil => rfl
  | cons op ops ih =>
    simp only [runB, toOps, run]
    rw [← stepB_eq_step c k hk s op]
    cases hs : stepB c k s op with
    | none => rfl
    | some s1 => exact ih s1

/-- … and for any `subsets` (including 0) an accepted bootstrap-form history is an accepted oracle-form history -/
theorem runB_some (c : Cfg α) (k : Nat) (s s' : State α) (ops : List (OpB α))
    (h : runB c k s ops = some s') : run c s (toOps c k s ops) = some s' := by
  induction ops generalizing s with
  | nil => exact h
  | cons op ops ih =>
    simp only [runB] at h
    simp only [toOps, run]
    cases hs : stepB c k s op with
    | none => rw [hs] at h; simp at h
    | some s1 =>
      rw [hs] at h
      rw [stepB_some c k s s1 op hs]
      exact ih s1 h

/-! ### two transferred theorems, as instances -/

/-- the lifecycle invariant of Props/C07 holds after every accepted history of the detector with the
    modelled bootstrap (transfer of `run_inv`) -/
theorem runB_inv (c : Cfg α) (k : Nat) (ops : List (OpB α)) (s s' : State α) (hi : Inv s)
    (h : runB c k s ops = some s') : Inv s' :=
  run_inv c _ s s' hi (runB_some c k s s' ops h)

/-- **drift exactly when ε exceeds β**, with β computed from the modelled ε₀ (transfer of
    `update_drift_iff`) -/
theorem updateB_drift_iff (c : Cfg α) (k : Nat) (e : Ext α) (s s' : State α) (X : List (List α))
    (hi : Inv s) (h : updateB c k e s X = some s') :
    s'.drift = .drift ↔
      (testsDrift c s'.since = true ∧
        ∃ ε β, s'.epsValues.getLast? = some (s'.total, ε) ∧
               s'.thresholds.getLast? = some (s'.total, β) ∧ β < ε) :=
  update_drift_iff c _ s s' X hi (updateB_some c k e s s' X h)

/-- in the state in which a bootstrapping `update` body runs (reachable, in an epoch), `reference_n` is
    the length of the reference, so the driver's check of the captured draws says: `subsets` vectors of
    `size(subsets, len(reference))` positions inside the reference -/
theorem drawsOk_iff (c : Cfg α) (k : Nat) (draws : List (List Nat)) (s : State α) (hi : Inv s)
    (hn : s.drift = .none) (hr : s.hasRef = true) (hdue : bootDue c s = true) :
    drawsOk c k draws s = true ↔
      draws.length = k ∧ ∀ idx ∈ draws, idx.length = bootSize α k s.reference.length ∧
        ∀ i ∈ idx, i < s.reference.length := by
  unfold drawsOk
  rw [if_pos hdue, validDraws_iff, (hi.refOk hn hr).1]

/-- `subsets = 0`: the call on which the bootstrap is due is rejected (`1 / num_subsets` raises) -/
theorem updateB_zero_subsets (c : Cfg α) (e : Ext α) (s s0 : State α) (X : List (List α)) (d : Nat)
    (hp : preStateB c e.tcrit s = some s0) (hv : validBatch c s0.dim X = some d)
    (hdue : bootDue c s0 = true) : updateB c 0 e s X = none := by
  unfold updateB
  split
  · simp [hp, hv, hdue]
  · rfl

end anyCarrier

/-! ## ordered fields: sign and zeros of ε₀ -/

section field
variable {K : Type} [Field K] [LinearOrder K] [IsStrictOrderedRing K] [BEq K] [HasSqrt K]
  [HasLogExp K] [HasLog1p K] [HasTrunc K]

theorem absOf_eq_abs (x : K) : absOf x = |x| := by
  unfold absOf
  by_cases h : x < ((0 : Nat) : K)
  · simp only [h, if_true]
    rw [abs_of_neg (by simpa using h)]
  · simp only [h, if_false]
    rw [abs_of_nonneg (by simpa using h)]

/-- the summands of ε₀ are the absolute differences of the pairwise distances -/
theorem epsTerms_eq (ds : List K) : epsTerms ds = (pairsOf ds).map (fun p => |p.1 - p.2|) := by
  unfold epsTerms
  apply List.map_congr_left
  intro p _
  rw [absOf_eq_abs, one_eq, mul_one]

/-- ε₀ written with the field's operations: the sum of `|d_a − d_b|` over pairs of pairwise distances,
    divided by the number of subsets -/
theorem epsOfDistances_eq (k : Nat) (ds : List K) :
    epsOfDistances k ds = ((pairsOf ds).map (fun p => |p.1 - p.2|)).sum / (k : K) := by
  unfold epsOfDistances
  rw [sumF_eq, epsTerms_eq]

theorem sum_abs_nonneg (ps : List (K × K)) : 0 ≤ (ps.map (fun p => |p.1 - p.2|)).sum := by
  apply List.sum_nonneg
  intro x hx
  simp only [List.mem_map] at hx
  obtain ⟨p, _, rfl⟩ := hx
  exact abs_nonneg _

theorem sum_abs_eq_zero_iff (ps : List (K × K)) :
    (ps.map (fun p => |p.1 - p.2|)).sum = 0 ↔ ∀ p ∈ ps, p.1 = p.2 := by
  induction ps with
  | nil => simp
  | cons q qs ih =>
    simp only [List.map_cons, List.sum_cons, List.mem_cons, forall_eq_or_imp]
    have h1 : 0 ≤ |q.1 - q.2| := abs_nonneg _
    have h2 := sum_abs_nonneg qs
    constructor
    · intro h
      have ha : |q.1 - q.2| = 0 := by linarith
      have hb : (qs.map (fun p => |p.1 - p.2|)).sum = 0 := by linarith
      exact ⟨sub_eq_zero.mp (abs_eq_zero.mp ha), ih.mp hb⟩
    · rintro ⟨ha, hb⟩
      rw [ih.mpr hb, ha, sub_self, abs_zero, add_zero]

theorem pairsOf_all_eq_iff {β : Type} (l : List β) :
    (∀ p ∈ pairsOf l, p.1 = p.2) ↔ ∀ a ∈ l, ∀ b ∈ l, a = b := by
  constructor
  · intro h
    induction l with
    | nil => intro a ha; simp at ha
    | cons x xs ih =>
      have hx : ∀ y ∈ xs, x = y := by
        intro y hy
        exact h (x, y) (by simp only [pairsOf, List.mem_append, List.mem_map]; exact Or.inl ⟨y, hy, rfl⟩)
      have hxs := ih (fun p hp => h p (by simp only [pairsOf, List.mem_append]; exact Or.inr hp))
      intro a ha b hb
      rcases List.mem_cons.mp ha with ha | ha <;> rcases List.mem_cons.mp hb with hb | hb
      · rw [ha, hb]
      · rw [ha]; exact hx b hb
      · rw [hb]; exact (hx a ha).symm
      · exact hxs a ha b hb
  · intro h p hp
    have := mem_pairsOf l p hp
    exact h _ this.1 _ this.2

/-- **ε₀ ≥ 0** (for every number of subsets, every data, every draws, every divergence) -/
theorem bootEps_nonneg (d : Divergence K) (bins dim : Nat) (rg : Nat → K × K) (k : Nat)
    (ref : List (List K)) (draws : List (List Nat)) :
    0 ≤ bootEps d bins dim rg k ref draws := by
  unfold bootEps
  rw [epsOfDistances_eq]
  exact div_nonneg (sum_abs_nonneg _) (Nat.cast_nonneg k)

/-- **ε₀ = 0 exactly when all pairwise subset distances coincide** (`subsets ≠ 0`) -/
theorem bootEps_eq_zero_iff (d : Divergence K) (bins dim : Nat) (rg : Nat → K × K) (k : Nat) (hk : k ≠ 0)
    (ref : List (List K)) (draws : List (List Nat)) :
    bootEps d bins dim rg k ref draws = 0 ↔
      ∀ a ∈ bootDistances d (bootHists bins dim rg ref draws),
        ∀ b ∈ bootDistances d (bootHists bins dim rg ref draws), a = b := by
  unfold bootEps
  rw [epsOfDistances_eq, ← pairsOf_all_eq_iff, ← sum_abs_eq_zero_iff]
  have : (k : K) ≠ 0 := Nat.cast_ne_zero.mpr hk
  constructor
  · intro h
    rcases div_eq_zero_iff.mp h with h | h
    · exact h
    · exact absurd h this
  · intro h; rw [h, zero_div]

/-- **ε₀ = 0 when all subsets draw the same multiset of rows** (histograms are permutation
    invariant, so all subsets have the same histograms and all pairwise distances coincide —
    whatever the divergence, even one with `d(h, h) ≠ 0`) -/
theorem bootEps_eq_zero_of_perm (d : Divergence K) (bins dim : Nat) (rg : Nat → K × K) (k : Nat)
    (ref : List (List K)) (draws : List (List Nat)) (h : ∀ i ∈ draws, ∀ j ∈ draws, i.Perm j) :
    bootEps d bins dim rg k ref draws = 0 := by
  have hc := bootDistances_const_of_perm d bins dim rg ref draws h
  unfold bootEps
  rw [epsOfDistances_eq, (sum_abs_eq_zero_iff _).mpr ((pairsOf_all_eq_iff _).mpr hc), zero_div]

/-- **`subsets ≤ 2` makes the bootstrap vacuous**: ε₀ = 0 whatever the reference and the draws, so on
    the second batch of an epoch the threshold is 0 and any change of the distance is a drift -/
theorem bootEps_two_subsets (d : Divergence K) (bins dim : Nat) (rg : Nat → K × K) (k : Nat)
    (ref : List (List K)) (draws : List (List Nat)) (h : draws.length ≤ 2) :
    bootEps d bins dim rg k ref draws = 0 := by
  rw [bootEps_few_subsets d bins dim rg k ref draws h, zero_eq, zero_div]

/-! ### the subset size with exact arithmetic -/

/-- **subset size**: with exact arithmetic and `int(·)` = floor, `size = ⌊(k−1)·n / k⌋` (integer division) -/
theorem bootSize_eq_div [FloorSemiring K] (htr : ∀ x : K, truncNat x = ⌊x⌋₊) (k n : Nat) (hk : k ≠ 0) :
    bootSize K k n = (k - 1) * n / k := by
  have hk1 : 1 ≤ k := Nat.one_le_iff_ne_zero.mpr hk
  have hkK : (k : K) ≠ 0 := Nat.cast_ne_zero.mpr hk
  have : ((one : K) - (one : K) / (k : K)) * (n : K) = (((k - 1) * n : Nat) : K) / (k : K) := by
    rw [one_eq]
    push_cast [Nat.cast_sub hk1]
    field_simp
  rw [bootSize_def, htr, this, Nat.floor_div_eq_div]

/-- a subset is never larger than `reference_n` -/
theorem bootSize_le [FloorSemiring K] (htr : ∀ x : K, truncNat x = ⌊x⌋₊) (k n : Nat) (hk : k ≠ 0) :
    bootSize K k n ≤ n := by
  rw [bootSize_eq_div htr k n hk]
  apply Nat.div_le_of_le_mul
  exact Nat.mul_le_mul_right n (Nat.sub_le k 1)

/-- at least two subsets of a reference of at least two rows are non-empty
    (`subsets = 1` gives `size = 0`) -/
theorem bootSize_pos [FloorSemiring K] (htr : ∀ x : K, truncNat x = ⌊x⌋₊) (k n : Nat) (hk : 2 ≤ k) (hn : 2 ≤ n) :
    1 ≤ bootSize K k n := by
  rw [bootSize_eq_div htr k n (by omega)]
  apply (Nat.one_le_div_iff (by omega)).mpr
  obtain ⟨m, rfl⟩ : ∃ m, k = m + 2 := ⟨k - 2, by omega⟩
  simp only [show m + 2 - 1 = m + 1 by omega]
  nlinarith

theorem bootSize_one [FloorSemiring K] (htr : ∀ x : K, truncNat x = ⌊x⌋₊) (n : Nat) :
    bootSize K 1 n = 0 := by
  rw [bootSize_eq_div htr 1 n (by omega)]; simp

end field

/-! ## ℝ: the recorded threshold of a bootstrapping batch is the model's ε₀ -/

section real

/-- **the threshold of the epoch's second batch is the modelled bootstrap estimate** — after any
    accepted history (in bootstrap form, from a fresh detector), an accepted `update` that is the
    second batch of its epoch (`detect_batch ≠ 3`) records `thresholds[t] = ε₀`, with ε₀ =
    `bootEps` of the reference, bins and ranges of the state the body of `update` runs in.
    (Transfer of `update_beta` + `betaSpec_bootstrap` through `runB_some` / `updateB_some`.) -/
theorem updateB_threshold_is_bootEps (c : Cfg ℝ) (k : Nat) (ops : List (OpB ℝ)) (s s' : State ℝ) (e : Ext ℝ)
    (X : List (List ℝ)) (hrun : runB c k init ops = some s) (h : updateB c k e s X = some s')
    (h2 : s'.since = 2) (hdb : c.detectBatch ≠ 3) :
    ∃ s0 d, preStateB c e.tcrit s = some s0 ∧ validBatch c s0.dim X = some d ∧
      s'.thresholds.getLast? = some (s'.total, stepBootEps c k e.draws s0 d X) := by
  have hrun' := runB_some c k init s ops hrun
  have hup := updateB_some c k e s s' X h
  have ht : testsDrift c s'.since = true := by
    unfold testsDrift; simp [h2, hdb]
  obtain ⟨past, ε, hthr, _, hcase⟩ :=
    update_beta c (toOps c k init ops) s s' (oracleOf c k e s X) X hrun' hup ht
  obtain ⟨_, s0, d, hp, hv, hs'⟩ := update_eq c (oracleOf c k e s X) s s' X hup
  have hp' : preStateB c e.tcrit s = some s0 := by
    rw [← oracleOf_tcrit c k e s X, preStateB_eq]; exact hp
  have ho : oracleOf c k e s X = stepOracle c k e s0 d X := by
    unfold oracleOf; simp only [hp', hv]
  have hsince : s0.since + 1 = 2 := by
    have := (updateCore_counters c (oracleOf c k e s X) s0 d X).2
    rw [← hs'] at this; omega
  have hdue : bootDue c s0 = true := by
    unfold bootDue; simp [hsince, hdb]
  refine ⟨s0, d, hp', hv, ?_⟩
  rcases hcase with ⟨_, hpast⟩ | ⟨h3, _⟩
  · rw [hthr, hpast, h2, betaSpec_bootstrap, ho]
    simp [stepOracle, hdue]
  · omega

end real

/-! ### non-vacuity: concrete instances of the hypotheses above -/
namespace DemoBoot
local instance : HasSqrt Int := ⟨id⟩
local instance : HasLogExp Int := ⟨id, id⟩
local instance : HasLog1p Int := ⟨id⟩
local instance : HasTrunc Int := ⟨Int.toNat⟩

/-- the loop order of the pairs (`pairsOf_length`: 3 = 3·2/2) -/
example : pairsOf [1, 2, 3] = [(1, 2), (1, 3), (2, 3)] := rfl

/-- toy carrier `Int` (every theorem of the "every carrier" section applies to it); the user
    divergence is the signed difference of the first-bin counts (asymmetric, so the argument order
    `distance_function(bootstraps[i][f], bootstraps[j][f])`, `i < j`, is visible) -/
def dv : Divergence Int := .user (fun r t => ((r.headD 0 : Nat) : Int) - ((t.headD 0 : Nat) : Int))
def ref : List (List Int) := [[0], [4], [0], [4], [8], [8]]
def rg : Nat → Int × Int := fun _ => (0, 8)
def draws : List (List Nat) := [[0, 1, 2], [1, 1, 4], [0, 0, 0], [5, 4, 4]]

/-- four subsets of three rows: their histograms, the 6 pairwise distances, the 15 summands, and an
    estimate that is not 0 (`boot_counts`; `bootEps_nonneg` is not about a constant) -/
example : bootHists 2 1 rg ref draws = [[[2, 1]], [[0, 3]], [[3, 0]], [[0, 3]]] ∧
    bootDistances dv (bootHists 2 1 rg ref draws) = [2, -1, 2, -3, 0, 3] ∧
    (epsTerms (bootDistances dv (bootHists 2 1 rg ref draws))).length = 15 ∧
    bootEps dv 2 1 rg 4 ref draws = 10 := by decide

/-- hypothesis of `sampleRows_length` / the position part of `validDraws` -/
example : ∀ idx ∈ draws, ∀ i ∈ idx, i < ref.length := by decide

/-- hypothesis of `boot_reads_only_sampled_rows`: a different reference (row 3 changed, two rows
    appended) that agrees with `ref` at every drawn position -/
example : (∀ idx ∈ draws, ∀ i ∈ idx, ref[i]? = ([[0], [4], [0], [7], [8], [8], [1], [2]] : List (List Int))[i]?) ∧
    ref ≠ [[0], [4], [0], [7], [8], [8], [1], [2]] := by decide

/-- hypothesis of `bootEps_perm_within` -/
example : List.Forall₂ List.Perm [[0, 1, 2], [1, 1, 4]] [[2, 0, 1], [1, 4, 1]] :=
  .cons (by decide) (.cons (by decide) .nil)

/-- hypothesis of `bootDistances_const_of_perm` / `bootEps_eq_zero_of_perm`: three subsets drawing the
    same rows in different orders; and indeed the estimate vanishes -/
example : (∀ i ∈ [[0, 1, 4], [4, 0, 1], [1, 4, 0]], ∀ j ∈ [[0, 1, 4], [4, 0, 1], [1, 4, 0]], List.Perm i j) ∧
    bootEps dv 2 1 rg 3 ref [[0, 1, 4], [4, 0, 1], [1, 4, 0]] = 0 := by decide

/-- `bootEps_few_subsets`: two subsets, however different, give no ε-term -/
example : bootEps dv 2 1 rg 2 ref [[0, 0, 0], [4, 4, 4]] = 0 := by decide

/-- an accepted history in bootstrap form that reaches the bootstrap (`detect_batch = 2`, 4 subsets):
    hypotheses of `runB_eq_run`, `runB_some`, `runB_inv` -/
def cfg : Cfg Int := { div := dv, detectBatch := 2, stat := .stdev, signif := 0 }
def ops : List (OpB Int) := [.setRef [[0], [4]] 0, .batch [[0], [4], [8], [8]] ⟨[], 0⟩]

example : (runB cfg 4 init ops).map (fun s => (s.since, s.reference, s.bins, s.refN, s.drift)) =
    some (1, ref, 2, 6, .none) := by decide +kernel   -- (`Nat.sqrt` is by well-founded recursion)

/-- the next `update` is the epoch's second batch: it bootstraps, records `thresholds[2] = ε₀ = 10`
    (`updateB_threshold_is_bootEps`, here on the toy carrier) and, ε = 1 not exceeding it, no drift;
    with draws that all pick the same rows ε₀ = 0 < ε and the same batch is a drift
    (both directions of `updateB_drift_iff`) -/
example : ((runB cfg 4 init ops).bind (fun s => updateB cfg 4 ⟨draws, 0⟩ s [[0], [0], [0], [4]])).map
      (fun s => (s.since, s.thresholds, s.epsValues, s.drift)) =
    some (2, [(2, (10 : Int))], [(2, (1 : Int))], Drift.none) := by decide +kernel

example : ((runB cfg 4 init ops).bind (fun s => updateB cfg 4 ⟨[[0, 1, 4], [4, 0, 1], [1, 4, 0], [0, 4, 1]], 0⟩ s
      [[0], [0], [0], [4]])).map (fun s => (s.since, s.thresholds, s.epsValues, s.drift)) =
    some (2, [(2, (0 : Int))], [(2, (1 : Int))], Drift.drift) := by decide +kernel

/-- `subsets = 0`: the bootstrapping call is rejected in bootstrap form (`ZeroDivisionError`) while the
    oracle form, which never divides, accepts — the hypothesis `k ≠ 0` of `updateB_eq_update` /
    `runB_eq_run` cannot be dropped (and `updateB_some` is the half that survives) -/
example : ((runB cfg 0 init ops).bind (fun s => updateB cfg 0 ⟨[], 0⟩ s [[0], [0], [0], [4]])).isSome = false ∧
    ((runB cfg 0 init ops).bind (fun s => update cfg (oracleOf cfg 0 ⟨[], 0⟩ s [[0], [0], [0], [4]]) s
      [[0], [0], [0], [4]])).isSome = true := by decide

end DemoBoot

/-- `bootSize_eq_div` / `validDraws_iff` at `ℝ` (`truncNat = ⌊·⌋₊`): 3 subsets of a 6-row reference have
    `⌊(2/3)·6⌋ = 4` rows each, and these draws are valid -/
example : bootSize ℝ 3 6 = 4 ∧ validDraws ℝ 3 6 6 [[0, 1, 2, 0], [1, 1, 4, 5], [0, 0, 0, 0]] = true := by
  have h : bootSize ℝ 3 6 = 4 := by rw [bootSize_eq_div (fun _ => rfl) 3 6 (by decide)]
  refine ⟨h, ?_⟩
  rw [validDraws_iff, h]
  decide

/-- the hypotheses of `updateB_threshold_is_bootEps` are jointly satisfiable at `ℝ`: a two-call history
    from a fresh detector, then an accepted `update` that is the second batch of its epoch -/
example : ∃ (c : Cfg ℝ) (ops : List (OpB ℝ)) (s s' : State ℝ) (e : Ext ℝ) (X : List (List ℝ)),
    runB c 3 init ops = some s ∧ updateB c 3 e s X = some s' ∧ s'.since = 2 ∧ c.detectBatch ≠ 3 := by
  refine ⟨{ div := .user (fun _ _ => 0), detectBatch := 2, stat := .stdev, signif := 0 },
    [.setRef [[0], [1]] 0, .batch [[0], [1]] ⟨[], 0⟩], _, _, ⟨[[0, 1], [1, 1], [0, 0]], 0⟩, [[0], [1]],
    rfl, rfl, ?_, by decide⟩
  rw [(updateCore_counters _ _ _ _ _).2]
  rfl

end MV.HDM
