/-
  C18 (kdq-tree part) — the kdq-tree partitioner and the KdqTreeBatch detector ignore the order of
  the rows inside a batch.

  Models: Model/KdqTree.lean (`build`, `buildAux`, `fill`, `leafCountsD`, `klCounts`, `klDistance?`),
  Model/KdqDetect.lean (`bSetRef`, `bStep`, `criticalKld`).  `d ~ d'` below is `List.Perm` on the
  list of rows (core Lean).

  Laws used (said precisely, nothing else is assumed about the carrier; `+ - * / trunc log rint` and
  the numerals are arbitrary operations, so no arithmetic law is used anywhere in this file):
    * `minOf` / `maxOf` (`np.min`, `np.max`): `<` comes from a **linear order** (`minOf` is then the
      least, `maxOf` the greatest element, `Lemmas/KdqArith.lean`).  Without an order law the left
      fold `if b < a then b else a` depends on the order of the elements (a NaN in a `Float` column
      is the standard counter-example).
    * `uniqueCount` (`np.unique(data).size`, coded as "prepend `x` unless some element already seen
      is `== x`", then take the length): `==` is a **partial equivalence** (`PartialEquivBEq`:
      symmetric and transitive; reflexivity is *not* needed — an element with `x == x = false` is
      related to nothing and is counted once per occurrence in either order).  `LawfulBEq` /
      `EquivBEq` carriers (ℚ, ℝ, …) are instances.  The `==` need not be related to the order.
    * `filter` by `goesUp` / `goesDown`, `fill`, `leafCountsD`, `klDistance?`: **no law at all**
      (`fill_perm`, `leafCounts_perm`, `kl_distance_perm` hold for every carrier, in particular for
      the executed `Float` instance): `fill` reads only the *lengths* of the filtered lists.

  Partitioner:
    `minOf_perm`, `maxOf_perm`, `ptp_perm`, `midpoint_perm`, `uniqueCount_perm`, `stops_perm`
    `goesUp_filter_perm`, `goesDown_filter_perm`, `minCutpointSizes_perm`
    `buildAux_perm`, `build_perm`      the SAME tree (split axes, midpoints, per-id counts), and the same
                                       out-of-fuel / `RecursionError` outcome
    `fill_perm`                        the same tree after filing permuted data (any id, any `reset`)
    `leafCounts_perm`, `kl_distance_perm`, `divergence_perm`
    `build_fill_kl_perm`               reference and test batch both permuted: same tree and divergence
  KdqTreeBatch:
    `BRel`                             the relation between the states of the two runs: every field
                                       equal except `refData` (the remembered drifted batch, stored
                                       *in row order*), which is a permutation (`OptRel List.Perm`)
    `bStep_perm_nobuild`               EVERY carrier (no law; holds for the executed `Float` model): an
                                       `update` against an existing reference with no drift pending
                                       builds nothing, so a permuted test batch gives the same event,
                                       divergence, decision and counts
    `bSetRef_perm`, `bStep_perm`       one `set_reference` / `update` with the same bootstrap draws
                                       (including the `update` after a drift, which adopts the
                                       remembered batch); `…_observables` spell out the attributes
    `bRun_perm`, `kdqBatch_trace_perm` whole histories of `set_reference` / `update` calls: both runs
                                       hit the recursion limit at the same call or never, the final
                                       states are related and the observables after every call are equal
    `kdqBatch_decisions_perm`          the sequences of drift decisions and of divergences alone
  "The same draws" is meaningful: the bootstrap draws are vectors of *leaf indices*, and the leaves
  are the same list in both runs (`build_perm`).  That the real code, under a fixed seed, draws the
  same indices in both runs is NOT proved here (numpy's `choice(p=ref_dist)` is an oracle, DESIGN §3.3);
  it is plausible because `ref_dist` and the sizes are equal (`bSetRef_perm`) and checked by the
  harness on the real classes.
-/
import MenelausVerif.Model.KdqTree
import MenelausVerif.Model.KdqDetect
import MenelausVerif.Lemmas.KdqTree
import MenelausVerif.Lemmas.KdqArith
import MenelausVerif.Props.C08
import MenelausVerif.Props.C09
import MenelausVerif.Props.C18
set_option linter.unusedSectionVars false
set_option linter.unusedSimpArgs false

namespace MV.Kdq.C18
open MV MV.Kdq

/-! ## The quantities `build` reads -/

section order
variable {α : Type} [Inhabited α] [LinearOrder α]

/-- `np.min` of a column does not depend on the row order (linear order) -/
theorem minOf_perm {l l' : List α} (h : l.Perm l') : minOf l = minOf l' := by
  by_cases hne : l = []
  · subst hne; rw [h.symm.eq_nil]
  · have hne' : l' ≠ [] := fun e => hne (by subst e; exact h.eq_nil)
    exact le_antisymm (minOf_le (h.symm.subset (minOf_mem hne'))) (minOf_le (h.subset (minOf_mem hne)))

/-- `np.max` of a column does not depend on the row order (linear order) -/
theorem maxOf_perm {l l' : List α} (h : l.Perm l') : maxOf l = maxOf l' := by
  by_cases hne : l = []
  · subst hne; rw [h.symm.eq_nil]
  · have hne' : l' ≠ [] := fun e => hne (by subst e; exact h.eq_nil)
    exact le_antisymm (le_maxOf (h.subset (maxOf_mem hne))) (le_maxOf (h.symm.subset (maxOf_mem hne')))

variable [Sub α]

/-- `np.ptp` -/
theorem ptp_perm {l l' : List α} (h : l.Perm l') : ptp l = ptp l' := by
  unfold ptp; rw [minOf_perm h, maxOf_perm h]

end order

section col
variable {α : Type} [Inhabited α]

/-- a column of permuted rows is a permuted column -/
theorem col_perm {d d' : List (List α)} (h : d.Perm d') (a : Nat) : (col d a).Perm (col d' a) :=
  h.map _

end col

section midpoint
variable {α : Type} [Inhabited α] [LinearOrder α] [Add α] [Sub α] [Div α] [NatCast α]

/-- `min + ptp / 2` along an axis -/
theorem midpoint_perm {d d' : List (List α)} (h : d.Perm d') (a : Nat) : midpoint d a = midpoint d' a := by
  unfold midpoint; rw [minOf_perm (col_perm h a), ptp_perm (col_perm h a)]

end midpoint

/-! ### `np.unique(data).size` -/

section unique
variable {α : Type} [BEq α]

/-- one step of the fold in `uniqueCount` -/
def seenStep (seen : List α) (x : α) : List α := if seen.any (· == x) then seen else x :: seen

theorem uniqueCount_eq (xs : List α) : uniqueCount xs = (xs.foldl seenStep []).length := rfl

/-- two "seen" lists that the fold cannot tell apart: same length, same membership test -/
def SeenRel (s s' : List α) : Prop := s.length = s'.length ∧ ∀ z, s.any (· == z) = s'.any (· == z)

theorem SeenRel.refl (s : List α) : SeenRel s s := ⟨rfl, fun _ => rfl⟩

theorem SeenRel.trans {s1 s2 s3 : List α} (h1 : SeenRel s1 s2) (h2 : SeenRel s2 s3) : SeenRel s1 s3 :=
  ⟨h1.1.trans h2.1, fun z => (h1.2 z).trans (h2.2 z)⟩

theorem SeenRel.cons {s s' : List α} (h : SeenRel s s') (x : α) : SeenRel (x :: s) (x :: s') :=
  ⟨by simp [h.1], fun z => by simp [h.2 z]⟩

theorem SeenRel.step {s s' : List α} (h : SeenRel s s') (x : α) : SeenRel (seenStep s x) (seenStep s' x) := by
  unfold seenStep
  rw [← h.2 x]
  split
  · exact h
  · exact h.cons x

theorem SeenRel.foldl {s s' : List α} (h : SeenRel s s') (l : List α) :
    SeenRel (l.foldl seenStep s) (l.foldl seenStep s') := by
  induction l generalizing s s' with
  | nil => exact h
  | cons x xs ih => exact ih (h.step x)

variable [PartialEquivBEq α]

/-- the two orders of filing two values lead to indistinguishable "seen" lists
    (symmetry and transitivity of `==`) -/
theorem SeenRel.swap {s s' : List α} (h : SeenRel s s') (x y : α) :
    SeenRel (seenStep (seenStep s y) x) (seenStep (seenStep s' x) y) := by
  have hxy : (y == x) = (x == y) := BEq.comm
  obtain ⟨hl, ha⟩ := h
  have hx' := ha x
  have hy' := ha y
  unfold seenStep
  cases hy : s.any (· == y) <;> cases hx : s.any (· == x) <;> rw [hx] at hx' <;> rw [hy] at hy'
  · -- neither seen
    simp only [← hx', ← hy', Bool.false_eq_true, if_false, List.any_cons, hx, hy, Bool.or_false, hxy]
    cases hb : (x == y)
    · simp only [Bool.false_eq_true, if_false]
      refine ⟨by simp [hl], fun z => ?_⟩
      simp only [List.any_cons, ha z]
      cases (x == z) <;> cases (y == z) <;> simp
    · simp only [if_true]
      refine ⟨by simp [hl], fun z => ?_⟩
      simp only [List.any_cons, ha z]
      have : (y == z) = (x == z) := by
        apply Bool.eq_iff_iff.2
        constructor
        · intro h1; exact PartialEquivBEq.trans hb h1
        · intro h1; exact PartialEquivBEq.trans (BEq.symm hb) h1
      rw [this]
  · -- x seen, y not
    simp only [← hx', ← hy', Bool.false_eq_true, if_false, if_true, List.any_cons, hx, hy, Bool.or_true,
      Bool.or_false]
    exact (SeenRel.cons ⟨hl, ha⟩ y)
  · -- y seen, x not
    simp only [← hx', ← hy', Bool.false_eq_true, if_false, if_true, List.any_cons, hx, hy, Bool.or_true,
      Bool.or_false]
    exact (SeenRel.cons ⟨hl, ha⟩ x)
  · simp only [← hx', ← hy', if_true, hx, hy]
    exact ⟨hl, ha⟩

theorem SeenRel.foldl_perm {l l' : List α} (h : l.Perm l') :
    ∀ {s s' : List α}, SeenRel s s' → SeenRel (l.foldl seenStep s) (l'.foldl seenStep s') := by
  induction h with
  | nil => intro s s' hs; exact hs
  | cons x _ ih => intro s s' hs; exact ih (hs.step x)
  | swap x y l => intro s s' hs; exact (hs.swap x y).foldl l
  | trans _ _ ih1 ih2 => intro s s' hs; exact (ih1 hs).trans (ih2 (SeenRel.refl s'))

/-- `np.unique(data).size` as coded (a fold that keeps the values not `==` to one kept before) is
    invariant under permutations when `==` is symmetric and transitive -/
theorem uniqueCount_perm {l l' : List α} (h : l.Perm l') : uniqueCount l = uniqueCount l' :=
  (SeenRel.foldl_perm h (SeenRel.refl [])).1

end unique

/-! ### the stop rule, the two halves, `min_cutpoint_sizes` -/

section stops
variable {α : Type} [Inhabited α] [Add α] [Sub α] [Mul α] [Div α] [LinearOrder α] [NatCast α]
  [BEq α] [PartialEquivBEq α]

/-- the stop rule of `KDQTreeNode.build` reads the row count, `np.unique(data).size` of the flattened
    array, and min / ptp of one column — all invariant -/
theorem stops_perm (ub : Nat) (mins : List α) {d d' : List (List α)} (h : d.Perm d') (a : Nat) :
    stops ub mins d a = stops ub mins d' a := by
  unfold stops
  rw [h.length_eq, uniqueCount_perm h.flatten, midpoint_perm h a, minOf_perm (col_perm h a)]

end stops

section halves
variable {α : Type} [Inhabited α] [LT α] [DecidableLT α] [LE α] [DecidableLE α]

/-- `data[data[:, axis] > mid]` of permuted data is a permutation (no law needed) -/
theorem goesUp_filter_perm (a : Nat) (mid : α) {d d' : List (List α)} (h : d.Perm d') :
    (d.filter (goesUp a mid)).Perm (d'.filter (goesUp a mid)) := h.filter _

/-- `data[data[:, axis] <= mid]` of permuted data is a permutation (no law needed) -/
theorem goesDown_filter_perm (a : Nat) (mid : α) {d d' : List (List α)} (h : d.Perm d') :
    (d.filter (goesDown a mid)).Perm (d'.filter (goesDown a mid)) := h.filter _

end halves

section build
variable {α : Type} [Inhabited α] [Add α] [Sub α] [Mul α] [Div α] [LinearOrder α] [NatCast α]
  [BEq α] [PartialEquivBEq α]

/-- `min_cutpoint_sizes = [int(cplb * ptp(column)) …]` (`trunc` and `*` arbitrary) -/
theorem minCutpointSizes_perm [HasTrunc α] (c : Cfg α) (m : Nat) {d d' : List (List α)} (h : d.Perm d') :
    minCutpointSizes c m d = minCutpointSizes c m d' := by
  unfold minCutpointSizes
  apply List.map_congr_left
  intro a _
  rw [ptp_perm (col_perm h a)]

/-- **`KDQTreeNode.build` on permuted rows returns the same tree** — same split axes, same midpoints,
    same `"build"` counts at every node, same leaves in the same order — for every fuel, depth, bound
    and `min_cutpoint_sizes`; and it runs out of fuel on the one input iff it does on the other -/
theorem buildAux_perm (ub : Nat) (mins : List α) (m : Nat) :
    ∀ (fuel depth : Nat) {d d' : List (List α)}, d.Perm d' →
      buildAux ub mins m fuel depth d = buildAux ub mins m fuel depth d' := by
  intro fuel
  induction fuel with
  | zero => intro depth d d' _; rfl
  | succ fuel ih =>
    intro depth d d' h
    have hm := midpoint_perm h (depth % m)
    have hup := goesUp_filter_perm (depth % m) (midpoint d (depth % m)) h
    have hdn := goesDown_filter_perm (depth % m) (midpoint d (depth % m)) h
    have ihu := ih (depth + 1) hup
    have ihd := ih (depth + 1) hdn
    simp only [buildAux]
    rw [← h.length_eq, ← stops_perm ub mins h (depth % m), ← hm, ← ihu, ← ihd, ← hup.length_eq, ← hdn.length_eq]

/-- **`KDQTreePartitioner.build` on permuted rows returns the same tree** (including the per-id counts;
    `none` = `RecursionError` on both or on neither) -/
theorem build_perm [HasTrunc α] (c : Cfg α) (m : Nat) {d d' : List (List α)} (h : d.Perm d') :
    build c m d = build c m d' := by
  unfold build
  rw [minCutpointSizes_perm c m h, h.length_eq]
  exact buildAux_perm _ _ _ _ _ h

end build

/-! ## fill, leaf counts, divergence — no law at all -/

section fill
variable {α : Type} [Inhabited α] [LT α] [DecidableLT α] [LE α] [DecidableLE α]

/-- **`fill` with permuted data gives the same tree** (every carrier, every tree — built or not —,
    every id, with or without `reset`): only the sizes of the routed sub-arrays are stored -/
theorem fill_perm (id : Nat) (rs : Bool) (t : Tree α) :
    ∀ {d d' : List (List α)}, d.Perm d' → fill id rs d t = fill id rs d' t := by
  induction t with
  | nil => intro d d' _; simp [fill]
  | leaf c => intro d d' h; simp [fill, h.length_eq]
  | node a mid c l r ihl ihr =>
    intro d d' h
    have hup := goesUp_filter_perm a mid h
    have hdn := goesDown_filter_perm a mid h
    simp only [fill]
    rw [ihl hdn, ihr hup, hup.length_eq, hdn.length_eq]

/-- a sequence of fills (several ids, accumulating or resetting), batch by batch permuted -/
theorem runFills_perm (t : Tree α) {ops ops' : List (FillOp α)}
    (h : List.Forall₂ (fun a b => a.id = b.id ∧ a.reset = b.reset ∧ a.pts.Perm b.pts) ops ops') :
    runFills t ops = runFills t ops' := by
  induction h generalizing t with
  | nil => rfl
  | @cons a b as bs hab _ ih =>
    obtain ⟨h1, h2, h3⟩ := hab
    simp only [runFills, List.foldl_cons] at ih ⊢
    rw [h1, h2, fill_perm b.id b.reset t h3]
    exact ih _

/-- `leaf_counts(tree_id)` after a fill with permuted data (any id `j`) -/
theorem leafCounts_perm (id : Nat) (rs : Bool) (t : Tree α) {d d' : List (List α)} (h : d.Perm d') (j : Nat) :
    leafCountsD (fill id rs d t) j = leafCountsD (fill id rs d' t) j ∧
    leafCounts? (fill id rs d t) j = leafCounts? (fill id rs d' t) j := by
  rw [fill_perm id rs t h]; exact ⟨rfl, rfl⟩

section kl
variable {γ : Type} [Add γ] [Mul γ] [Div γ] [LT γ] [DecidableLT γ] [LE γ] [DecidableLE γ]
  [NatCast γ] [BEq γ] [HasLogExp γ]

/-- `kl_distance(id1, id2)` after a fill with permuted data: same outcome (`None`, `KeyError` or
    the same value), whatever carrier `γ` the divergence is computed in -/
theorem kl_distance_perm (id : Nat) (rs : Bool) (t : Tree α) {d d' : List (List α)} (h : d.Perm d') (i j : Nat) :
    (klDistance? (fill id rs d t) i j : Res γ) = klDistance? (fill id rs d' t) i j := by
  rw [fill_perm id rs t h]

end kl
end fill

section divergence
variable {α : Type} [Inhabited α] [Add α] [Sub α] [Mul α] [Div α] [LT α] [DecidableLT α]
  [LE α] [DecidableLE α] [NatCast α] [BEq α] [HasLogExp α]

/-- the detectors' divergence (test counts against build counts) after filing a permuted batch —
    every carrier, no law -/
theorem divergence_perm (t : Tree α) {x x' : List (List α)} (h : x.Perm x') (rs : Bool) :
    KdqDet.divergence (fill KdqDet.testId rs x t) = KdqDet.divergence (fill KdqDet.testId rs x' t) := by
  rw [fill_perm _ rs t h]

end divergence

section buildfill
variable {α : Type} [Inhabited α] [Add α] [Sub α] [Mul α] [Div α] [LinearOrder α] [NatCast α]
  [BEq α] [PartialEquivBEq α] [HasTrunc α] [HasLogExp α]

/-- **reference batch and test batch both permuted**: the same tree (or the same `RecursionError`), and
    the same `kl_distance("build", id)` after filing the test batch under any id, with or without reset -/
theorem build_fill_kl_perm (c : Cfg α) (m : Nat) {d d' x x' : List (List α)} (hd : d.Perm d') (hx : x.Perm x')
    (id : Nat) (rs : Bool) :
    build c m d = build c m d' ∧
    (build c m d).map (fun t => (klDistance? (fill id rs x t) 0 id : Res α)) =
      (build c m d').map (fun t => klDistance? (fill id rs x' t) 0 id) := by
  refine ⟨build_perm c m hd, ?_⟩
  rw [← build_perm c m hd]
  cases build c m d with
  | none => rfl
  | some t => simp only [Option.map_some, kl_distance_perm id rs t hx]

end buildfill

/-! ### non-vacuity, and why the laws are needed -/

section examples

/-- five 2-d rows (one duplicated) and a rearrangement of them -/
def exD : List (List ℚ) := [[0, 3], [1, 2], [2, 1], [3, 0], [1, 2]]
def exD' : List (List ℚ) := [[1, 2], [3, 0], [0, 3], [1, 2], [2, 1]]
theorem exD_perm : exD.Perm exD' := by decide

/-- `build_perm` applies, and the tree it speaks about is a real one (three splits, four leaves) -/
example : build exCfg 2 exD = build exCfg 2 exD' := build_perm exCfg 2 exD_perm
example : (build exCfg 2 exD).map (fun t => (t.numLeaves, leafCountsD t 0)) = some (4, [2, 1, 1, 1]) := by
  decide +kernel
example : stops 1 [0, 0] exD 0 = false ∧ midpoint exD 0 = 3 / 2 ∧ uniqueCount exD.flatten = 4 ∧
    (exD.filter (goesUp 0 (3 / 2))).length = 2 := by decide +kernel

/-- `fill_perm` / `kl_distance_perm` on that tree: a test batch and its reversal -/
example (t : Tree ℚ) : (klDistance? (fill 1 true exD t) 0 1 : Res ℚ) = klDistance? (fill 1 true exD' t) 0 1 :=
  kl_distance_perm 1 true t exD_perm 0 1
example : (build exCfg 2 exD).map (fun t => leafCountsD (fill 1 true [[0, 0], [3, 3], [0, 1], [0, 3]] t) 1) =
    some [2, 1, 0, 1] := by decide +kernel

/-- **a linear order is needed for `minOf_perm`**: with the (non-total) componentwise strict order on
    pairs the fold keeps whichever incomparable element comes first -/
structure Pt where
  a : Nat
  b : Nat
  deriving DecidableEq
instance : Inhabited Pt := ⟨⟨0, 0⟩⟩
instance : LT Pt := ⟨fun p q => p.a < q.a ∧ p.b < q.b⟩
instance : DecidableLT Pt := fun p q => inferInstanceAs (Decidable (p.a < q.a ∧ p.b < q.b))
example : minOf [(⟨0, 1⟩ : Pt), ⟨1, 0⟩] ≠ minOf [(⟨1, 0⟩ : Pt), ⟨0, 1⟩] := by decide

/-- **transitivity of `==` is needed for `uniqueCount_perm`**: with "differ by at most one" as `==`
    the count of `0, 1, 2` is 2 but that of `1, 0, 2` is 1 -/
structure Near where
  v : Nat
instance : BEq Near := ⟨fun p q => decide (p.v ≤ q.v + 1 ∧ q.v ≤ p.v + 1)⟩
example : uniqueCount [(⟨0⟩ : Near), ⟨1⟩, ⟨2⟩] = 2 ∧ uniqueCount [(⟨1⟩ : Near), ⟨0⟩, ⟨2⟩] = 1 := by decide

end examples

end MV.Kdq.C18

/-! ## KdqTreeBatch -/

namespace MV.KdqDet.C18
open MV MV.Kdq MV.KdqDet MV.C18 MV.Kdq.C18

/-! ### vocabulary (every carrier) -/

section defs
variable {α : Type} [Inhabited α] [Add α] [Sub α] [Mul α] [Div α] [LT α] [DecidableLT α]
  [LE α] [DecidableLE α] [NatCast α] [BEq α] [HasLogExp α] [HasRint α] [HasTrunc α]

/-- **the relation between the states of the original and the row-permuted run.**  `ref_data` (the
    drifted batch that the next `update` turns into the reference) is stored *in row order*, so the
    two runs hold permutations of one another there (or both nothing); every other field — counters,
    drift state, the whole tree with its `"build"` and `"test"` counts, critical value, last
    divergence — is equal.  Equality of states would be false after the first drift. -/
structure BRel (s s' : BState α) : Prop where
  total : s.total = s'.total
  since : s.since = s'.since
  drift : s.drift = s'.drift
  tree : s.tree = s'.tree
  critical : s.critical = s'.critical
  testDist : s.testDist = s'.testDist
  refData : OptRel List.Perm s.refData s'.refData

theorem BRel.refl (s : BState α) : BRel s s := by
  refine ⟨rfl, rfl, rfl, rfl, rfl, rfl, ?_⟩
  cases s.refData with
  | none => exact True.intro
  | some r => exact List.Perm.refl r

theorem BRel.symm {s s' : BState α} (h : BRel s s') : BRel s' s := by
  refine ⟨h.total.symm, h.since.symm, h.drift.symm, h.tree.symm, h.critical.symm, h.testDist.symm, ?_⟩
  have := h.refData
  revert this
  cases s.refData <;> cases s'.refData <;> simp [OptRel]
  exact List.Perm.symm

theorem BRel.trans {s1 s2 s3 : BState α} (h : BRel s1 s2) (h' : BRel s2 s3) : BRel s1 s3 := by
  refine ⟨h.total.trans h'.total, h.since.trans h'.since, h.drift.trans h'.drift, h.tree.trans h'.tree,
    h.critical.trans h'.critical, h.testDist.trans h'.testDist, ?_⟩
  have a := h.refData
  have b := h'.refData
  revert a b
  cases s1.refData <;> cases s2.refData <;> cases s3.refData <;> simp [OptRel]
  exact List.Perm.trans

/-- the remembered batches, read the way `update` reads them (`ref_data`, `[]` if absent), are permutations -/
theorem BRel.refData_getD {s s' : BState α} (h : BRel s s') : (s.refData.getD []).Perm (s'.refData.getD []) := by
  have := h.refData
  revert this
  cases s.refData <;> cases s'.refData <;> simp [OptRel]

/-- the part of `KdqTreeBatch.update` after the pending-drift branch and the counter bookkeeping -/
def bEval (c : BCfg α) (s : BState α) (m : Nat) (X : List (List α)) (draws : List (List Nat)) :
    Option (BState α × Option Bool) :=
  match s.tree with
  | none => (bSetRef c s m X draws).map (fun s => (s, none))
  | some t =>
    let t := fill testId true X t
    let d := divergence t
    let exceeds := decide (s.critical.getD default < d)
    some ({ s with tree := some t, testDist := some d,
                   drift := if exceeds then .drift else s.drift,
                   refData := if exceeds then some X else s.refData }, some exceeds)

/-- `total_updates += 1`, `updates_since_reset += 1` -/
def bBump (s : BState α) : BState α := { s with total := s.total + 1, since := s.since + 1 }

/-- `KdqTreeBatch.update` = pending-drift branch, then bookkeeping, then evaluation -/
theorem bStep_eq (c : BCfg α) (s : BState α) (m : Nat) (X : List (List α)) (draws : List (List Nat)) :
    bStep c s m X draws =
      (if s.drift = .drift then bSetRef c s m (s.refData.getD []) draws else some s).bind
        (fun s => bEval c (bBump s) m X draws) := by
  unfold bStep bEval bBump
  cases (if s.drift = .drift then bSetRef c s m (s.refData.getD []) draws else some s) <;> rfl

/-- related results of one step: related states, the same event -/
def StepRel (a b : BState α × Option Bool) : Prop := BRel a.1 b.1 ∧ a.2 = b.2

theorem bBump_perm {s s' : BState α} (hs : BRel s s') : BRel (bBump s) (bBump s') :=
  ⟨by simp [bBump, hs.total], by simp [bBump, hs.since], hs.drift, hs.tree, hs.critical, hs.testDist, hs.refData⟩

/-- evaluation of a permuted *test* batch against an existing reference tree: no law needed -/
theorem bEval_perm_tree (c : BCfg α) {s s' : BState α} (hs : BRel s s') (m : Nat) {X X' : List (List α)}
    (h : X.Perm X') (draws : List (List Nat)) {t : Kdq.Tree α} (ht : s.tree = some t) :
    OptRel StepRel (bEval c s m X draws) (bEval c s' m X' draws) := by
  unfold bEval
  rw [← hs.tree, ht]
  simp only [OptRel, StepRel, ← fill_perm testId true t h, ← hs.critical]
  refine ⟨⟨hs.total, hs.since, by simp [hs.drift], rfl, rfl, rfl, ?_⟩, trivial⟩
  by_cases hex : s.critical.getD default < divergence (fill testId true X t)
  · simp only [hex, decide_true, if_true]; exact h
  · simp only [hex, decide_false, Bool.false_eq_true, if_false]; exact hs.refData

/-- **one `update` against an existing reference, permuted test batch — every carrier** (no order law,
    no law on `==`; in particular the executed `Float` instance, NaN or not): when no drift is pending
    and a reference tree is in place, nothing is built in this call, and the two calls yield the same
    event, divergence, decision and tree counts; only the remembered batch is stored in its own order -/
theorem bStep_perm_nobuild (c : BCfg α) {s s' : BState α} (hs : BRel s s') (m : Nat) {X X' : List (List α)}
    (h : X.Perm X') (draws : List (List Nat)) (hd : s.drift ≠ .drift) {t : Kdq.Tree α} (ht : s.tree = some t) :
    ∃ r r', bStep c s m X draws = some r ∧ bStep c s' m X' draws = some r' ∧ StepRel r r' := by
  have hs1 := bBump_perm hs
  have ht1 : (bBump s).tree = some t := by simp [bBump, ht]
  have ht1' : (bBump s').tree = some t := by rw [← hs1.tree]; exact ht1
  have := bEval_perm_tree c hs1 m h draws ht1
  rw [bStep_eq, bStep_eq, ← hs.drift]
  simp only [hd, if_false, Option.bind_some]
  cases h1 : bEval c (bBump s) m X draws with
  | none => simp [bEval, ht1] at h1
  | some r =>
    cases h2 : bEval c (bBump s') m X' draws with
    | none => simp [bEval, ht1'] at h2
    | some r' => rw [h1, h2] at this; exact ⟨r, r', rfl, rfl, this⟩

/-! ### histories -/

/-- a public call on `KdqTreeBatch` (after validation), with the bootstrap draws it consumes -/
inductive BOp (α : Type) where
  | setRef (m : Nat) (data : List (List α)) (draws : List (List Nat))
  | update (m : Nat) (X : List (List α)) (draws : List (List Nat))

/-- the same call with a row-permuted batch and the same draws -/
def OpRel : BOp α → BOp α → Prop
  | .setRef m d w, .setRef m' d' w' => m = m' ∧ d.Perm d' ∧ w = w'
  | .update m d w, .update m' d' w' => m = m' ∧ d.Perm d' ∧ w = w'
  | _, _ => False

def bApply (c : BCfg α) (s : BState α) : BOp α → Option (BState α × Option Bool)
  | .setRef m d w => (bSetRef c s m d w).map (fun s => (s, none))
  | .update m X w => bStep c s m X w

/-- everything observable after a call: the event (`some true` = the batch exceeded the critical
    value), `drift_state`, the counters, the divergence, the critical value, the tree with all counts -/
structure Obs (α : Type) where
  event : Option Bool
  drift : Drift
  total : Nat
  since : Nat
  testDist : Option α
  critical : Option α
  tree : Option (Kdq.Tree α)

def obsOf (r : BState α × Option Bool) : Obs α :=
  { event := r.2, drift := r.1.drift, total := r.1.total, since := r.1.since, testDist := r.1.testDist,
    critical := r.1.critical, tree := r.1.tree }

/-- final state of a history; `none` when some call hit the recursion limit -/
def bRun (c : BCfg α) : BState α → List (BOp α) → Option (BState α)
  | s, [] => some s
  | s, op :: ops =>
    match bApply c s op with
    | none => none
    | some r => bRun c r.1 ops

/-- the observables after every call, up to and including the first call that hits the recursion
    limit (`none`; a Python `RecursionError` leaves the object half-updated, nothing is claimed after it) -/
def bTrace (c : BCfg α) : BState α → List (BOp α) → List (Option (Obs α))
  | _, [] => []
  | s, op :: ops =>
    match bApply c s op with
    | none => [none]
    | some r => some (obsOf r) :: bTrace c r.1 ops

/-- the drift decisions alone -/
def bDecisions (c : BCfg α) (s : BState α) (ops : List (BOp α)) : List (Option Drift) :=
  (bTrace c s ops).map (fun o => o.map (·.drift))

/-- the measured divergences alone -/
def bDivergences (c : BCfg α) (s : BState α) (ops : List (BOp α)) : List (Option (Option α)) :=
  (bTrace c s ops).map (fun o => o.map (·.testDist))

end defs

/-! ### the theorems (linear order on the coordinates, `==` a partial equivalence) -/

section batch
variable {α : Type} [Inhabited α] [Add α] [Sub α] [Mul α] [Div α] [LinearOrder α] [NatCast α]
  [BEq α] [PartialEquivBEq α] [HasLogExp α] [HasRint α] [HasTrunc α]

/-- **`set_reference` / adoption of a reference, permuted rows, same bootstrap draws**: both calls are
    accepted or both hit the recursion limit; the results are related — in particular the same tree
    and the same critical value (it depends on the leaf counts and the draws only) -/
theorem bSetRef_perm (c : BCfg α) {s s' : BState α} (hs : BRel s s') (m : Nat) {d d' : List (List α)}
    (h : d.Perm d') (draws : List (List Nat)) :
    OptRel BRel (bSetRef c s m d draws) (bSetRef c s' m d' draws) := by
  unfold bSetRef
  rw [← build_perm c.part m h]
  cases build c.part m d with
  | none => exact True.intro
  | some t => exact ⟨hs.total, rfl, rfl, rfl, rfl, rfl, hs.refData⟩

/-- what `bSetRef_perm` says when the call is accepted: the same tree, the same critical value -/
theorem bSetRef_perm_observables (c : BCfg α) {s s' : BState α} (hs : BRel s s') (m : Nat) {d d' : List (List α)}
    (h : d.Perm d') (draws : List (List Nat)) {r : BState α} (hr : bSetRef c s m d draws = some r) :
    ∃ r', bSetRef c s' m d' draws = some r' ∧ r'.tree = r.tree ∧ r'.critical = r.critical ∧ r'.drift = r.drift ∧
      r'.testDist = r.testDist ∧ r'.total = r.total ∧ r'.since = r.since ∧ OptRel List.Perm r.refData r'.refData := by
  have := bSetRef_perm c hs m h draws
  rw [hr] at this
  cases h' : bSetRef c s' m d' draws with
  | none => rw [h'] at this; exact this.elim
  | some r' =>
    rw [h'] at this
    exact ⟨r', rfl, this.tree.symm, this.critical.symm, this.drift.symm, this.testDist.symm, this.total.symm,
      this.since.symm, this.refData⟩

theorem bEval_perm (c : BCfg α) {s s' : BState α} (hs : BRel s s') (m : Nat) {X X' : List (List α)}
    (h : X.Perm X') (draws : List (List Nat)) :
    OptRel StepRel (bEval c s m X draws) (bEval c s' m X' draws) := by
  cases ht : s.tree with
  | some t => exact bEval_perm_tree c hs m h draws ht
  | none =>
    unfold bEval
    rw [← hs.tree, ht]
    have := bSetRef_perm c hs m h draws
    revert this
    cases bSetRef c s m X draws <;> cases bSetRef c s' m X' draws <;> simp [OptRel, StepRel]

/-- **one `KdqTreeBatch.update`, permuted batch, same draws, related states** (the state may carry a
    pending drift: then the remembered drifted batch — a permutation in the other run — first becomes
    the reference): both calls are accepted or both hit the recursion limit; the same event (reference
    adopted / exceeded / not exceeded) and related states — equal tree, equal critical value, equal
    divergence and drift state, remembered batches permutations of one another -/
theorem bStep_perm (c : BCfg α) {s s' : BState α} (hs : BRel s s') (m : Nat) {X X' : List (List α)}
    (h : X.Perm X') (draws : List (List Nat)) :
    OptRel StepRel (bStep c s m X draws) (bStep c s' m X' draws) := by
  rw [bStep_eq, bStep_eq, ← hs.drift]
  by_cases hd : s.drift = .drift
  · simp only [hd, if_true]
    have := bSetRef_perm c hs m hs.refData_getD draws
    revert this
    cases bSetRef c s m (s.refData.getD []) draws <;> cases bSetRef c s' m (s'.refData.getD []) draws <;>
      simp [OptRel]
    intro h0
    exact bEval_perm c (bBump_perm h0) m h draws
  · simp only [hd, if_false, Option.bind_some]
    exact bEval_perm c (bBump_perm hs) m h draws

/-- what `bStep_perm` says about the public attributes -/
theorem bStep_perm_observables (c : BCfg α) {s s' : BState α} (hs : BRel s s') (m : Nat) {X X' : List (List α)}
    (h : X.Perm X') (draws : List (List Nat)) {r : BState α × Option Bool} (hr : bStep c s m X draws = some r) :
    ∃ r', bStep c s' m X' draws = some r' ∧ r'.2 = r.2 ∧ r'.1.drift = r.1.drift ∧ r'.1.testDist = r.1.testDist ∧
      r'.1.critical = r.1.critical ∧ r'.1.tree = r.1.tree ∧ r'.1.total = r.1.total ∧ r'.1.since = r.1.since ∧
      OptRel List.Perm r.1.refData r'.1.refData := by
  have := bStep_perm c hs m h draws
  rw [hr] at this
  cases h' : bStep c s' m X' draws with
  | none => rw [h'] at this; exact this.elim
  | some r' =>
    rw [h'] at this
    obtain ⟨hb, he⟩ := this
    exact ⟨r', rfl, he.symm, hb.drift.symm, hb.testDist.symm, hb.critical.symm, hb.tree.symm, hb.total.symm,
      hb.since.symm, hb.refData⟩

theorem bApply_perm (c : BCfg α) {s s' : BState α} (hs : BRel s s') {op op' : BOp α} (ho : OpRel op op') :
    OptRel StepRel (bApply c s op) (bApply c s' op') := by
  cases op with
  | setRef m d w =>
    cases op' with
    | update _ _ _ => exact ho.elim
    | setRef m' d' w' =>
      obtain ⟨rfl, hd, rfl⟩ := ho
      have := bSetRef_perm c hs m hd w
      revert this
      simp only [bApply]
      cases bSetRef c s m d w <;> cases bSetRef c s' m d' w <;> simp [OptRel, StepRel]
  | update m d w =>
    cases op' with
    | setRef _ _ _ => exact ho.elim
    | update m' d' w' =>
      obtain ⟨rfl, hd, rfl⟩ := ho
      exact bStep_perm c hs m hd w

/-- **whole histories, final states**: the relation is preserved by every call (`set_reference`,
    `update`, the `update` after a drift that adopts the drifted batch) -/
theorem bRun_perm (c : BCfg α) {s s' : BState α} {ops ops' : List (BOp α)} (hs : BRel s s')
    (ho : List.Forall₂ OpRel ops ops') : OptRel BRel (bRun c s ops) (bRun c s' ops') := by
  induction ho generalizing s s' with
  | nil => exact hs
  | @cons op op' ops ops' hop _ ih =>
    have := bApply_perm c hs hop
    simp only [bRun]
    revert this
    cases bApply c s op <;> cases bApply c s' op' <;> simp [OptRel]
    intro h
    exact ih h.1

/-- **C18 for KdqTreeBatch**: two histories whose i-th calls are the same call on row-permuted batches
    (reference batches included) with the same bootstrap draws, started in related states (e.g. both
    fresh), show the same observables after every call: event, drift state, counters, divergence,
    critical value, tree and counts; they hit the recursion limit at the same call or not at all -/
theorem kdqBatch_trace_perm (c : BCfg α) {s s' : BState α} {ops ops' : List (BOp α)} (hs : BRel s s')
    (ho : List.Forall₂ OpRel ops ops') : bTrace c s ops = bTrace c s' ops' := by
  induction ho generalizing s s' with
  | nil => rfl
  | @cons op op' ops ops' hop _ ih =>
    have := bApply_perm c hs hop
    simp only [bTrace]
    revert this
    cases h1 : bApply c s op <;> cases h2 : bApply c s' op' <;> simp [OptRel]
    intro h
    obtain ⟨hb, he⟩ := h
    refine ⟨?_, ih hb⟩
    simp [obsOf, he, hb.drift, hb.total, hb.since, hb.testDist, hb.critical, hb.tree]

/-- the complete sequence of drift decisions and the sequence of divergences are unchanged -/
theorem kdqBatch_decisions_perm (c : BCfg α) {s s' : BState α} {ops ops' : List (BOp α)} (hs : BRel s s')
    (ho : List.Forall₂ OpRel ops ops') :
    bDecisions c s ops = bDecisions c s' ops' ∧ bDivergences c s ops = bDivergences c s' ops' := by
  unfold bDecisions bDivergences
  rw [kdqBatch_trace_perm c hs ho]
  exact ⟨rfl, rfl⟩

/-- … in particular for two fresh detectors -/
theorem kdqBatch_fresh_perm (c : BCfg α) {ops ops' : List (BOp α)} (ho : List.Forall₂ OpRel ops ops') :
    bTrace c bInit ops = bTrace c bInit ops' :=
  kdqBatch_trace_perm c (BRel.refl _) ho

end batch

section examples

/-- a history with everything in it: the first `update` adopts its batch as the reference (4 leaves);
    a balanced batch does not exceed; a batch concentrated in one cell exceeds (drift; it is remembered);
    the next `update` rebuilds the tree from the remembered batch (2 leaves) and its batch exceeds again;
    `set_reference` clears the drift; a last batch exceeds. -/
def opsA : List (BOp ℚ) :=
  [.update 1 [[0], [1], [2], [3]] [[0, 1, 2, 3, 0, 1, 2, 3], [0, 1, 2, 3, 3, 2, 1, 0], [0, 0, 1, 1, 2, 2, 3, 3]],
   .update 1 [[1], [3], [0], [2]] [],
   .update 1 [[0], [0], [1/2], [0]] [],
   .update 1 [[1/2], [1/2], [0]] [[0, 0, 0, 1, 0, 0, 1, 0]],
   .setRef 1 [[5], [7]] [[0, 1, 1, 0]],
   .update 1 [[5], [6]] []]
/-- the same calls with the rows of every batch (reference batches included) rearranged -/
def opsB : List (BOp ℚ) :=
  [.update 1 [[3], [1], [0], [2]] [[0, 1, 2, 3, 0, 1, 2, 3], [0, 1, 2, 3, 3, 2, 1, 0], [0, 0, 1, 1, 2, 2, 3, 3]],
   .update 1 [[2], [0], [3], [1]] [],
   .update 1 [[1/2], [0], [0], [0]] [],
   .update 1 [[0], [1/2], [1/2]] [[0, 0, 0, 1, 0, 0, 1, 0]],
   .setRef 1 [[7], [5]] [[0, 1, 1, 0]],
   .update 1 [[6], [5]] []]

theorem ops_rel : List.Forall₂ OpRel opsA opsB := by
  refine .cons ⟨rfl, ?_, rfl⟩ (.cons ⟨rfl, ?_, rfl⟩ (.cons ⟨rfl, ?_, rfl⟩ (.cons ⟨rfl, ?_, rfl⟩
    (.cons ⟨rfl, ?_, rfl⟩ (.cons ⟨rfl, ?_, rfl⟩ .nil)))))
  all_goals decide +kernel

/-- `kdqBatch_trace_perm` applies to the two histories … -/
example : bTrace exB bInit opsA = bTrace exB bInit opsB := kdqBatch_fresh_perm exB ops_rel

/-- … and the common trace is not trivial: no recursion failure, both decisions occur, two reference
    rebuilds after a drift, leaf counts of the rebuilt trees -/
example : (bTrace exB bInit opsA).map (fun o => o.map (fun o => (o.event, o.drift, o.testDist))) =
    [some (none, .none, none), some (some false, .none, some 0), some (some true, .drift, some (4 / 3)),
     some (some true, .drift, some (169 / 375)), some (none, .none, none), some (some true, .drift, some (4 / 5))] := by
  decide +kernel
example : (bTrace exB bInit opsA).map (fun o => o.map (fun o =>
      o.tree.map (fun t => (leafCountsD t 0, leafCountsD t 1)))) =
    [some (some ([1, 1, 1, 1], [0, 0, 0, 0])), some (some ([1, 1, 1, 1], [1, 1, 1, 1])),
     some (some ([1, 1, 1, 1], [4, 0, 0, 0])), some (some ([3, 1], [1, 2])),
     some (some ([1, 1], [0, 0])), some (some ([1, 1], [2, 0]))] := by decide +kernel

/-- **equality of states is too strong**: after the third call the two runs remember the drifted batch
    in their own row orders (`BRel` relates them, `=` does not) -/
example : (bRun exB bInit (opsA.take 3)).map (·.refData) = some (some [[0], [0], [1/2], [0]]) ∧
    (bRun exB bInit (opsB.take 3)).map (·.refData) = some (some [[1/2], [0], [0], [0]]) := by decide +kernel

/-- `bStep_perm` with a pending drift (the step that adopts the remembered batch): its hypotheses hold
    for the states reached after three calls -/
example : OptRel BRel (bRun exB bInit (opsA.take 3)) (bRun exB bInit (opsB.take 3)) :=
  bRun_perm exB (BRel.refl _) (by
    refine .cons ⟨rfl, ?_, rfl⟩ (.cons ⟨rfl, ?_, rfl⟩ (.cons ⟨rfl, ?_, rfl⟩ .nil))
    all_goals decide +kernel)

/-- the hypotheses of `bStep_perm_nobuild` (no pending drift, a tree in place) hold after the first call -/
example : (bRun exB bInit (opsA.take 1)).map (fun s => (decide (s.drift ≠ .drift) && s.tree.isSome)) = some true := by
  decide +kernel

/-- `bStep_perm_nobuild` and `fill_perm` instantiate at the executed `Float` carrier -/
example (c : BCfg Float) (s : BState Float) (m : Nat) {X X' : List (List Float)} (h : X.Perm X')
    (draws : List (List Nat)) (hd : s.drift ≠ .drift) {t : Kdq.Tree Float} (ht : s.tree = some t) :
    ∃ r r', bStep c s m X draws = some r ∧ bStep c s m X' draws = some r' ∧ StepRel r r' :=
  bStep_perm_nobuild c (BRel.refl s) m h draws hd ht
example (t : Kdq.Tree Float) {X X' : List (List Float)} (h : X.Perm X') :
    fill testId true X t = fill testId true X' t := fill_perm _ _ t h

end examples

end MV.KdqDet.C18
