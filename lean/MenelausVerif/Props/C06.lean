/-
  C06 — Linear Four Rates tracks the four rates and tests them against simulated bounds.

  Part 1 (every carrier, no arithmetic law — holds for the executed `Float` instance;
  `ReflBEq` = reflexivity of `==`, which at `Float` fails for NaN only):
    `decision`, `cache_*`, `untracked_irrelevant`, `untracked_stat_const`,
    `p_table_tracked`, `lifecycle`, `recs_spec`, `conf_is_epoch_counts`.
  Part 2 (ordered fields): `rate_changed_iff`, `rstat_is_ewma`, `ewma_closed_form`,
    `statOf_closed_form`, `rates_in_unit_interval`, `sort_perm_sorted`, `lerp_eq`, `lerp_between`.
  Not proved: monotonicity of `percentile` in the level (DESIGN mentions it for C17) and any statement about the
  *distribution* of the simulated bounds (trusted to numpy's RNG; thorough tier runs a statistical test).
  All statements about tracked rates assume `rates_tracked` has no repeated name
  (the 15 non-empty subsets in any order); the model itself also reproduces what the
  code does with repetitions.
-/
import MenelausVerif.Lemmas.LFRLoop
import Mathlib.Tactic.Ring
import Mathlib.Tactic.FieldSimp
import Mathlib.Tactic.Linarith
import Mathlib.Tactic.Positivity
import Mathlib.Algebra.Order.Field.Basic
import Mathlib.Algebra.BigOperators.Group.Finset.Basic
import Mathlib.Algebra.BigOperators.Intervals
import Mathlib.Algebra.BigOperators.Ring.Finset
namespace MV.LFR
set_option linter.unusedSectionVars false

variable {α : Type} [Add α] [Sub α] [Mul α] [Div α] [LT α] [DecidableLT α] [LE α] [DecidableLE α]
  [NatCast α] [BEq α] [HasRound α]

/-! ## the step, unfolded once -/

theorem step_fields (c : Cfg α) (s : State α) (yt yp : Bool) (bl : List Block) :
    let s0 := preReset s
    let A := loopFrom c (ctxOf s0 yt yp) (acc0 s0 bl) c.tracked
    (step c s yt yp bl).total = s0.total + 1 ∧ (step c s yt yp bl).since = s0.since + 1 ∧
    (step c s yt yp bl).drift = decide3 A ∧ (step c s yt yp bl).recs = recsUpd s0.recs (decide3 A) s0.total ∧
    (step c s yt yp bl).conf = s0.conf.bump yt yp ∧ (step c s yt yp bl).p = A.p ∧ (step c s yt yp bl).r = A.r ∧
    (step c s yt yp bl).cache = A.cache ∧ (step c s yt yp bl).states = s0.states ++ [decide3 A] := by
  simp [step, finish, loop, loopFrom]

theorem preReset_fields (s : State α) :
    (preReset s).total = s.total ∧ (preReset s).cache = s.cache ∧ (preReset s).states = s.states ∧
    (preReset s).since = (if s.drift = .drift then 0 else s.since) ∧
    (preReset s).recs = (if s.drift = .drift then Recs.empty else s.recs) ∧
    (preReset s).conf = (if s.drift = .drift then Conf.init else s.conf) := by
  unfold preReset reset; split <;> simp

theorem any_allRates (f : Four Bool) : allRates.any f = true ↔ ∃ r, f r = true := by
  constructor
  · intro h
    simp only [allRates, List.any_cons, List.any_nil, Bool.or_false, Bool.or_eq_true] at h
    rcases h with h | h | h | h
    · exact ⟨_, h⟩
    · exact ⟨_, h⟩
    · exact ⟨_, h⟩
    · exact ⟨_, h⟩
  · rintro ⟨r, h⟩
    cases r <;> simp [allRates, h]

/-! ## decision -/

/-- the cache key of a rate in a state: (rounded current rate estimate, its denominator) -/
def keyAt (c : Cfg α) (cf : Conf) (r : Rate) : α × Nat := keyOf c (rates cf r) (cf.den r)

/-- the rate's statistic lies outside the detect (`detect = true`) / warning bounds that the cache
    holds for the rate's current key -/
def Flagged (c : Cfg α) (s : State α) (detect : Bool) (r : Rate) : Prop :=
  ∃ bd, lookup (keyAt c s.conf r) s.cache = some bd ∧
    (if detect then outside (s.r r) bd.lbDetect bd.ubDetect else outside (s.r r) bd.lbWarn bd.ubWarn) = true

/-- **Decision.**  Outside the test schedule (`samples_since_reset ≤ burn_in` or not a multiple of
    `subsample`) the state is `None` and nothing is simulated.  On the schedule every tracked rate has
    bounds cached for its current key, and the state is `drift` iff some *tracked* rate's statistic is
    outside the detect bounds cached for its key; `warning` iff none is but some tracked rate's statistic
    is outside the warning bounds. -/
theorem decision [ReflBEq α] (c : Cfg α) (hnd : c.tracked.Nodup) (s : State α) (yt yp : Bool) (bl : List Block) :
    (gate c (step c s yt yp bl).since = false →
      (step c s yt yp bl).drift = .none ∧ (step c s yt yp bl).cache = s.cache) ∧
    (gate c (step c s yt yp bl).since = true →
      (∀ r ∈ c.tracked, ∃ bd, lookup (keyAt c (step c s yt yp bl).conf r) (step c s yt yp bl).cache = some bd) ∧
      ((step c s yt yp bl).drift = .drift ↔ ∃ r ∈ c.tracked, Flagged c (step c s yt yp bl) true r) ∧
      ((step c s yt yp bl).drift = .warning ↔
        (¬ ∃ r ∈ c.tracked, Flagged c (step c s yt yp bl) true r) ∧
        ∃ r ∈ c.tracked, Flagged c (step c s yt yp bl) false r)) := by
  obtain ⟨-, hsince, hdrift, -, hconf, -, hr, hcache, -⟩ := step_fields c s yt yp bl
  generalize hs0 : preReset s = s0 at *
  generalize hA : loopFrom c (ctxOf s0 yt yp) (acc0 s0 bl) c.tracked = A at *
  have hn : (ctxOf s0 yt yp).n = (step c s yt yp bl).since := by rw [hsince]; rfl
  have hnew : ∀ r, (ctxOf s0 yt yp).new r = rates (step c s yt yp bl).conf r := by intro r; rw [hconf]; rfl
  have hden : ∀ r, (ctxOf s0 yt yp).conf.den r = (step c s yt yp bl).conf.den r := by intro r; rw [hconf]; rfl
  constructor
  · intro hg
    rw [← hn] at hg
    obtain ⟨hw, ha, hc, -⟩ := loop_closed c (ctxOf s0 yt yp) c.tracked (acc0 s0 bl) hg
    rw [hA] at hw ha hc
    refine ⟨?_, ?_⟩
    · rw [hdrift]; unfold decide3; rw [ha, hw]; simp [acc0, allRates]
    · rw [hcache, hc, ← hs0]; exact (preReset_fields s).2.1
  · intro hg
    rw [← hn] at hg
    -- per tracked rate: flags = tests against the cached bounds
    have hopen : ∀ r ∈ c.tracked, ∃ bd, lookup (keyAt c (step c s yt yp bl).conf r) (step c s yt yp bl).cache = some bd ∧
        A.warn r = outside ((step c s yt yp bl).r r) bd.lbWarn bd.ubWarn ∧
        A.alarm r = outside ((step c s yt yp bl).r r) bd.lbDetect bd.ubDetect := by
      intro r hrt
      obtain ⟨bd, h1, h2, h3⟩ := loop_open c (ctxOf s0 yt yp) hg c.tracked hnd (acc0 s0 bl) r hrt
      rw [hA] at h1 h2 h3
      refine ⟨bd, ?_, by rw [hr]; exact h2, by rw [hr]; exact h3⟩
      unfold keyAt; rw [← hnew, ← hden, hcache]; exact h1
    have hoff : ∀ r, r ∉ c.tracked → A.warn r = false ∧ A.alarm r = false := by
      intro r hrt
      obtain ⟨-, -, h3, h4⟩ := loop_frame c (ctxOf s0 yt yp) c.tracked (acc0 s0 bl) r hrt
      rw [hA] at h3 h4
      exact ⟨h3, h4⟩
    have hD : (∃ r, A.alarm r = true) ↔ ∃ r ∈ c.tracked, Flagged c (step c s yt yp bl) true r := by
      constructor
      · rintro ⟨r, h⟩
        by_cases hrt : r ∈ c.tracked
        · obtain ⟨bd, h1, -, h3⟩ := hopen r hrt
          exact ⟨r, hrt, bd, h1, by simpa [h3] using h⟩
        · rw [(hoff r hrt).2] at h; cases h
      · rintro ⟨r, hrt, bd, h1, h2⟩
        obtain ⟨bd', h1', -, h3⟩ := hopen r hrt
        rw [h1] at h1'; cases h1'
        exact ⟨r, by rw [h3]; simpa using h2⟩
    have hW : (∃ r, A.warn r = true) ↔ ∃ r ∈ c.tracked, Flagged c (step c s yt yp bl) false r := by
      constructor
      · rintro ⟨r, h⟩
        by_cases hrt : r ∈ c.tracked
        · obtain ⟨bd, h1, h2, -⟩ := hopen r hrt
          exact ⟨r, hrt, bd, h1, by simpa [h2] using h⟩
        · rw [(hoff r hrt).1] at h; cases h
      · rintro ⟨r, hrt, bd, h1, h2⟩
        obtain ⟨bd', h1', h3, -⟩ := hopen r hrt
        rw [h1] at h1'; cases h1'
        exact ⟨r, by rw [h3]; simpa using h2⟩
    refine ⟨fun r hrt => (hopen r hrt).imp (fun _ h => h.1), ?_, ?_⟩
    · rw [hdrift, ← hD, ← any_allRates]; unfold decide3
      split
      · simp [*]
      · split <;> simp [*]
    · rw [hdrift, ← hD, ← hW, ← any_allRates, ← any_allRates]; unfold decide3
      split
      · simp [*]
      · split <;> simp [*]

/-! ## cache semantics -/

/-- `reset` keeps the cache -/
theorem cache_reset (s : State α) : (reset s).cache = s.cache := rfl

/-- an entry, once present, is returned unchanged after any further update (first simulation wins) -/
theorem cache_step_mono (c : Cfg α) (s : State α) (yt yp : Bool) (bl : List Block) {k : α × Nat} {b : Bounds α}
    (h : lookup k s.cache = some b) : lookup k (step c s yt yp bl).cache = some b := by
  obtain ⟨-, -, -, -, -, -, -, hcache, -⟩ := step_fields c s yt yp bl
  rw [hcache]
  apply loop_mono
  show lookup k (preReset s).cache = some b
  rw [(preReset_fields s).2.1]; exact h

theorem run_append (c : Cfg α) (ops more : List Op) :
    run c (ops ++ more) = more.foldl (fun s o => step c s o.yt o.yp o.blocks) (run c ops) := by
  simp [run, List.foldl_append]

/-- … and therefore after any continuation of the history, across drifts and resets -/
theorem cache_persists (c : Cfg α) (ops more : List Op) {k : α × Nat} {b : Bounds α}
    (h : lookup k (run c ops).cache = some b) : lookup k (run c (ops ++ more)).cache = some b := by
  rw [run_append]
  generalize run c ops = s at h
  induction more generalizing s with
  | nil => exact h
  | cons o more ih => exact ih _ (cache_step_mono c s o.yt o.yp o.blocks h)

/-- an entry that appears during an update belongs to the current (rounded rate, denominator) key of a
    tracked rate, the update is on the test schedule, and the value is the Monte-Carlo simulation
    `simBounds` for that denominator on one block of draws -/
theorem cache_new_entry (c : Cfg α) (s : State α) (yt yp : Bool) (bl : List Block) {k : α × Nat} {b : Bounds α}
    (h0 : lookup k s.cache = none) (h1 : lookup k (step c s yt yp bl).cache = some b) :
    gate c (step c s yt yp bl).since = true ∧
    ∃ r ∈ c.tracked, keyEq (keyAt c (step c s yt yp bl).conf r) k = true ∧
      ∃ block, b = simBounds c ((step c s yt yp bl).conf.den r) block := by
  obtain ⟨-, hsince, -, -, hconf, -, -, hcache, -⟩ := step_fields c s yt yp bl
  rw [hcache] at h1
  have h0' : lookup k (acc0 (preReset s) bl).cache = none := by
    show lookup k (preReset s).cache = none
    rw [(preReset_fields s).2.1]; exact h0
  obtain ⟨hg, r, hr, hk, hb⟩ := loop_new c _ c.tracked _ h0' h1
  refine ⟨by rw [hsince]; exact hg, r, hr, ?_, ?_⟩
  · unfold keyAt; rw [hconf]; exact hk
  · rw [hconf]; exact hb

/-- if every tracked rate's key is already cached, the update simulates nothing: the cache is unchanged -/
theorem cache_all_hits (c : Cfg α) (s : State α) (yt yp : Bool) (bl : List Block)
    (h : ∀ r ∈ c.tracked, ∃ b, lookup (keyAt c (step c s yt yp bl).conf r) s.cache = some b) :
    (step c s yt yp bl).cache = s.cache := by
  obtain ⟨-, -, -, -, hconf, -, -, hcache, -⟩ := step_fields c s yt yp bl
  rw [hcache]
  have hpc : (preReset s).cache = s.cache := (preReset_fields s).2.1
  rw [hconf] at h
  generalize preReset s = s0 at *
  have key : ∀ (l : List Rate) (a : Acc α), a.cache = s.cache → (∀ r ∈ l, r ∈ c.tracked) →
      (loopFrom c (ctxOf s0 yt yp) a l).cache = s.cache := by
    intro l
    induction l with
    | nil => intro a ha _; simpa using ha
    | cons r l ih =>
      intro a ha hl
      rw [loopFrom_cons]
      apply ih
      · obtain ⟨b, hb⟩ := h r (hl r (by simp))
        rw [calcRate_hit c _ a r (b := b) (by rw [ha]; exact hb)]; exact ha
      · intro r' hr'; exact hl r' (by simp [hr'])
  exact key c.tracked _ hpc (fun _ h => h)

/-! ## untracked rates: never written, never read -/

/-- the statistic and `_p_table` entry of an untracked rate are never written: they stay at ½ -/
theorem untracked_stat_const (c : Cfg α) (ops : List Op) (r : Rate) (hr : r ∉ c.tracked) :
    (run c ops).r r = half ∧ (run c ops).p r = half := by
  unfold run
  suffices ∀ (s : State α), (s.r r = half ∧ s.p r = half) →
      ((ops.foldl (fun s o => step c s o.yt o.yp o.blocks) s).r r = half ∧
       (ops.foldl (fun s o => step c s o.yt o.yp o.blocks) s).p r = half) from this init ⟨rfl, rfl⟩
  induction ops with
  | nil => intro s h; exact h
  | cons o ops ih =>
    intro s h
    apply ih
    obtain ⟨-, -, -, -, -, hp, hr', -, -⟩ := step_fields c s o.yt o.yp o.blocks
    rw [hp, hr']
    obtain ⟨f1, f2, -, -⟩ := loop_frame c (ctxOf (preReset s) o.yt o.yp) c.tracked (acc0 (preReset s) o.blocks) r hr
    rw [f1, f2]
    show (preReset s).r r = half ∧ (preReset s).p r = half
    unfold preReset reset; split
    · exact ⟨rfl, rfl⟩
    · exact h

/-- after at least one update of the epoch the `_p_table` entry of a tracked rate is that rate of the
    epoch's confusion matrix -/
theorem p_table_tracked (c : Cfg α) (hnd : c.tracked.Nodup) (s : State α) (yt yp : Bool) (bl : List Block)
    (r : Rate) (hr : r ∈ c.tracked) :
    (step c s yt yp bl).p r = rates (step c s yt yp bl).conf r := by
  obtain ⟨-, -, -, -, hconf, hp, -, -, -⟩ := step_fields c s yt yp bl
  rw [hp, hconf]
  exact (loop_r c _ c.tracked hnd _ r hr).2

/-- which samples a rate reads: its own row / column of the confusion matrix -/
def affects : Rate → Bool → Bool → Bool
  | .tpr, yt, _ => yt
  | .tnr, yt, _ => !yt
  | .ppv, _, yp => yp
  | .npv, _, yp => !yp

theorem bump_unaffected (cf : Conf) (r : Rate) (yt yp : Bool) (h : affects r yt yp = false) :
    (cf.bump yt yp).num r = cf.num r ∧ (cf.bump yt yp).den r = cf.den r := by
  cases r <;> cases yt <;> cases yp <;> simp_all [affects, Conf.bump, Conf.num, Conf.den]

theorem bump_same_cells (cf cf' : Conf) (r : Rate) (yt yp : Bool)
    (hn : cf.num r = cf'.num r) (hd : cf.den r = cf'.den r) :
    (cf.bump yt yp).num r = (cf'.bump yt yp).num r ∧ (cf.bump yt yp).den r = (cf'.bump yt yp).den r := by
  cases r <;> cases yt <;> cases yp <;> simp_all [Conf.bump, Conf.num, Conf.den] <;> omega

theorem rates_congr (cf cf' : Conf) (r : Rate) (hn : cf.num r = cf'.num r) (hd : cf.den r = cf'.den r) :
    (rates cf r : α) = rates cf' r := by
  unfold rates; rw [hn, hd]

/-- two detector states that agree on everything the tracked rates `T` read or decide with:
    counters, state, recs, cache, `all_drift_states`, and for each rate of `T` its statistic,
    `_p_table` entry, numerator cell and denominator (row / column sum).  The other confusion cells and
    the entries of the other rates are unconstrained. -/
structure StateSim (T : List Rate) (s t : State α) : Prop where
  total : s.total = t.total
  since : s.since = t.since
  drift : s.drift = t.drift
  recs : s.recs = t.recs
  cache : s.cache = t.cache
  states : s.states = t.states
  tracked : ∀ r ∈ T, s.r r = t.r r ∧ s.p r = t.p r ∧ s.conf.num r = t.conf.num r ∧ s.conf.den r = t.conf.den r

/-- two samples that every rate of `T` cannot tell apart: a rate whose row / column contains the
    first sample sees the same sample, any other rate is not affected by either -/
def InEq (T : List Rate) (yt yp yt' yp' : Bool) : Prop :=
  ∀ r ∈ T, if affects r yt yp = true then (yt' = yt ∧ yp' = yp) else affects r yt' yp' = false

structure AccSim (T : List Rate) (a a' : Acc α) : Prop where
  rp : ∀ r ∈ T, a.r r = a'.r r ∧ a.p r = a'.p r
  warn : a.warn = a'.warn
  alarm : a.alarm = a'.alarm
  cache : a.cache = a'.cache
  blocks : a.blocks = a'.blocks

structure CtxSim (T : List Rate) (x x' : Ctx α) : Prop where
  n : x.n = x'.n
  per : ∀ r ∈ T, x.new r = x'.new r ∧ x.old r = x'.old r ∧ x.rPrev r = x'.rPrev r ∧
    x.conf.den r = x'.conf.den r ∧ ((x.new r == x.old r) = false → x.agree = x'.agree)

theorem preReset_sim (T : List Rate) (s t : State α) (h : StateSim T s t) : StateSim T (preReset s) (preReset t) := by
  unfold preReset
  rw [h.drift]
  split
  · exact ⟨h.total, rfl, rfl, rfl, h.cache, h.states, fun r _ => ⟨rfl, rfl, rfl, rfl⟩⟩
  · exact h

theorem ctx_sim [ReflBEq α] (T : List Rate) (s t : State α) (h : StateSim T s t) (yt yp yt' yp' : Bool)
    (hi : InEq T yt yp yt' yp') : CtxSim T (ctxOf s yt yp) (ctxOf t yt' yp') := by
  refine ⟨by simp [ctxOf, h.since], ?_⟩
  intro r hr
  obtain ⟨h1, -, h3, h4⟩ := h.tracked r hr
  have hir := hi r hr
  have hold : (rates s.conf r : α) = rates t.conf r := rates_congr _ _ r h3 h4
  by_cases ha : affects r yt yp = true
  · rw [if_pos ha] at hir
    obtain ⟨e1, e2⟩ := hir; subst e1; subst e2
    obtain ⟨b1, b2⟩ := bump_same_cells s.conf t.conf r yt' yp' h3 h4
    exact ⟨rates_congr _ _ r b1 b2, hold, h1, b2, fun _ => rfl⟩
  · rw [if_neg ha] at hir
    have ha' : affects r yt yp = false := by simpa using ha
    obtain ⟨u1, u2⟩ := bump_unaffected s.conf r yt yp ha'
    obtain ⟨v1, v2⟩ := bump_unaffected t.conf r yt' yp' hir
    refine ⟨rates_congr _ _ r (by rw [u1, v1, h3]) (by rw [u2, v2, h4]), hold, h1, ?_, ?_⟩
    · show (s.conf.bump yt yp).den r = (t.conf.bump yt' yp').den r
      rw [u2, v2, h4]
    · intro hne
      have : ((ctxOf s yt yp).new r : α) = (ctxOf s yt yp).old r := rates_congr _ _ r u1 u2
      rw [this] at hne
      simp at hne

theorem getBounds_congr (c : Cfg α) (a a' : Acc α) (est : α) (denom : Nat)
    (hc : a.cache = a'.cache) (hb : a.blocks = a'.blocks) :
    (getBounds c a est denom).1 = (getBounds c a' est denom).1 ∧
    (getBounds c a est denom).2.cache = (getBounds c a' est denom).2.cache ∧
    (getBounds c a est denom).2.blocks = (getBounds c a' est denom).2.blocks := by
  unfold getBounds simNext
  rw [hc, hb]
  split <;> simp [hc, hb]

theorem calcRate_sim (c : Cfg α) (T : List Rate) (x x' : Ctx α) (hx : CtxSim T x x') (a a' : Acc α)
    (ha : AccSim T a a') (rate : Rate) (hr : rate ∈ T) :
    AccSim T (calcRate c x a rate) (calcRate c x' a' rate) := by
  obtain ⟨e1, e2, e3, e4, e5⟩ := hx.per rate hr
  have hnr : newR c x (a.r rate) rate = newR c x' (a'.r rate) rate := by
    unfold newR
    rw [← e1, ← e2, ← e3, ← (ha.rp rate hr).1]
    cases hcmp : (x.new rate == x.old rate)
    · simp [e5 hcmp]
    · simp
  have hrp1 := calcRate_r c x a rate
  have hrp2 := calcRate_r c x' a' rate
  have hrp : ∀ r ∈ T, (calcRate c x a rate).r r = (calcRate c x' a' rate).r r ∧
      (calcRate c x a rate).p r = (calcRate c x' a' rate).p r := by
    intro r hrT
    rw [hrp1.1, hrp1.2, hrp2.1, hrp2.2, hnr, e1]
    by_cases h : r = rate
    · subst h; simp
    · rw [Four.set_other _ _ h, Four.set_other _ _ h, Four.set_other _ _ h, Four.set_other _ _ h]
      exact ha.rp r hrT
  cases hg : gate c x.n
  · have hg' : gate c x'.n = false := by rw [← hx.n]; exact hg
    obtain ⟨p1, p2, p3, p4⟩ := calcRate_closed c x a rate hg
    obtain ⟨q1, q2, q3, q4⟩ := calcRate_closed c x' a' rate hg'
    exact ⟨hrp, by rw [p1, q1, ha.warn], by rw [p2, q2, ha.alarm], by rw [p3, q3, ha.cache], by rw [p4, q4, ha.blocks]⟩
  · have hg' : gate c x'.n = true := by rw [← hx.n]; exact hg
    obtain ⟨p1, p2, p3, p4⟩ := calcRate_gate_open c x a rate hg
    obtain ⟨q1, q2, q3, q4⟩ := calcRate_gate_open c x' a' rate hg'
    obtain ⟨g1, g2, g3⟩ := getBounds_congr c (acc1 c x a rate) (acc1 c x' a' rate) (x.new rate) (x.conf.den rate)
      ha.cache ha.blocks
    have f1 := getBounds_frame c (acc1 c x a rate) (x.new rate) (x.conf.den rate)
    have f2 := getBounds_frame c (acc1 c x' a' rate) (x.new rate) (x.conf.den rate)
    rw [← e1, ← e4] at q1 q2 q3 q4
    rw [← hnr] at q1 q2
    refine ⟨hrp, ?_, ?_, by rw [p3, q3, g2], by rw [p4, q4, g3]⟩
    · rw [p1, q1, f1.2.2.1, f2.2.2.1, g1]; exact congrArg (fun w => Four.set w rate _) ha.warn
    · rw [p2, q2, f1.2.2.2, f2.2.2.2, g1]; exact congrArg (fun w => Four.set w rate _) ha.alarm

theorem loop_sim (c : Cfg α) (T : List Rate) (x x' : Ctx α) (hx : CtxSim T x x') (l : List Rate)
    (hl : ∀ r ∈ l, r ∈ T) (a a' : Acc α) (ha : AccSim T a a') :
    AccSim T (loopFrom c x a l) (loopFrom c x' a' l) := by
  induction l generalizing a a' with
  | nil => simpa using ha
  | cons r l ih =>
    rw [loopFrom_cons, loopFrom_cons]
    exact ih (fun r' hr' => hl r' (by simp [hr'])) _ _ (calcRate_sim c T x x' hx a a' ha r (hl r (by simp)))

/-- one update preserves the relation, for samples the tracked rates cannot tell apart and the same draws -/
theorem step_sim [ReflBEq α] (c : Cfg α) (s t : State α) (h : StateSim c.tracked s t) (yt yp yt' yp' : Bool)
    (hi : InEq c.tracked yt yp yt' yp') (bl : List Block) :
    StateSim c.tracked (step c s yt yp bl) (step c t yt' yp' bl) := by
  have h0 := preReset_sim c.tracked s t h
  have hx := ctx_sim c.tracked _ _ h0 yt yp yt' yp' hi
  have ha0 : AccSim c.tracked (acc0 (preReset s) bl) (acc0 (preReset t) bl) :=
    ⟨fun r hr => ⟨(h0.tracked r hr).1, (h0.tracked r hr).2.1⟩, rfl, rfl, h0.cache, rfl⟩
  have hA := loop_sim c c.tracked _ _ hx c.tracked (fun _ h => h) _ _ ha0
  obtain ⟨a1, a2, a3, a4, a5, a6, a7, a8, a9⟩ := step_fields c s yt yp bl
  obtain ⟨b1, b2, b3, b4, b5, b6, b7, b8, b9⟩ := step_fields c t yt' yp' bl
  have hd : decide3 (loopFrom c (ctxOf (preReset s) yt yp) (acc0 (preReset s) bl) c.tracked) =
      decide3 (loopFrom c (ctxOf (preReset t) yt' yp') (acc0 (preReset t) bl) c.tracked) := by
    unfold decide3; rw [hA.warn, hA.alarm]
  refine ⟨by rw [a1, b1, h0.total], by rw [a2, b2, h0.since], by rw [a3, b3, hd],
    by rw [a4, b4, hd, h0.recs, h0.total], by rw [a8, b8]; exact hA.cache, by rw [a9, b9, hd, h0.states], ?_⟩
  intro r hr
  rw [a7, b7, a6, b6, a5, b5]
  refine ⟨(hA.rp r hr).1, (hA.rp r hr).2, ?_, ?_⟩
  · have hir := hi r hr
    obtain ⟨-, -, h3, h4⟩ := h0.tracked r hr
    by_cases ha : affects r yt yp = true
    · rw [if_pos ha] at hir; obtain ⟨e1, e2⟩ := hir; subst e1; subst e2
      exact (bump_same_cells _ _ r yt' yp' h3 h4).1
    · rw [if_neg ha] at hir
      rw [(bump_unaffected _ r yt yp (by simpa using ha)).1, (bump_unaffected _ r yt' yp' hir).1, h3]
  · exact (hx.per r hr).2.2.2.1

/-- a twin history: the same draws, and at every position a sample the tracked rates cannot tell apart -/
def twinOf (l : List (Op × Bool × Bool)) : List Op := l.map (fun t => ⟨t.2.1, t.2.2, t.1.blocks⟩)

/-- **Untracked rates never influence the state.**  Two histories that differ only in samples (or
    coordinates of samples) outside the rows / columns of the tracked rates — i.e. only in data that
    would move *untracked* rates — and see the same draws produce the same `drift_state`,
    `retraining_recs`, counters, `all_drift_states` and cache after every update.  (With a single tracked
    rate, e.g. TPR, `y_pred` may be changed freely on every sample with `y_true = 0`.) -/
theorem untracked_irrelevant [ReflBEq α] (c : Cfg α) (l : List (Op × Bool × Bool))
    (h : ∀ t ∈ l, InEq c.tracked t.1.yt t.1.yp t.2.1 t.2.2) :
    StateSim c.tracked (run c (l.map Prod.fst)) (run c (twinOf l)) := by
  unfold run twinOf
  suffices ∀ (s t : State α), StateSim c.tracked s t →
      StateSim c.tracked ((l.map Prod.fst).foldl (fun s o => step c s o.yt o.yp o.blocks) s)
        ((l.map (fun t : Op × Bool × Bool => (⟨t.2.1, t.2.2, t.1.blocks⟩ : Op))).foldl
          (fun s o => step c s o.yt o.yp o.blocks) t) from
    this init init ⟨rfl, rfl, rfl, rfl, rfl, rfl, fun _ _ => ⟨rfl, rfl, rfl, rfl⟩⟩
  induction l with
  | nil => intro s t hst; simpa using hst
  | cons o l ih =>
    intro s t hst
    simp only [List.map_cons, List.foldl_cons]
    apply ih (fun t ht => h t (by simp [ht]))
    exact step_sim c s t hst _ _ _ _ (h o (by simp)) _

/-! ## lifecycle, `all_drift_states`, `retraining_recs` -/

/-- what the property says about counters, the state trace and the recommendations, as an invariant of
    (`total_samples`, `samples_since_reset`, `drift_state`, `retraining_recs`, `all_drift_states`);
    the current epoch is the index range `[total − since, total)` -/
structure LInv (total since : Nat) (st : Drift) (recs : Recs) (tr : List Drift) : Prop where
  len : tr.length = total
  le : since ≤ total
  last : 0 < since → tr[total - 1]? = some st
  fresh : since = 0 → st = .none ∧ total = 0
  /-- inside an epoch only its last state can be `drift` -/
  inner : ∀ i, total - since ≤ i → i + 1 < total → tr[i]? ≠ some .drift
  /-- no recommendation start yet iff every state of the epoch so far is `None` -/
  none1 : recs.1 = none ↔ ∀ i, total - since ≤ i → i < total → tr[i]? = some .none
  /-- the recommendation start is the first index of the epoch whose state is not `None` -/
  first : ∀ i, recs.1 = some i →
    total - since ≤ i ∧ i < total ∧ tr[i]? ≠ some .none ∧ ∀ j, total - since ≤ j → j < i → tr[j]? = some .none
  /-- the recommendation end is set exactly while the state is `drift`, to the index of that update -/
  second : ∀ j, recs.2 = some j ↔ (st = .drift ∧ j + 1 = total)

theorem LInv.init : LInv 0 0 .none Recs.empty [] := by
  refine ⟨rfl, Nat.le_refl _, by simp, by simp, by simp, by simp [Recs.empty], by simp [Recs.empty], by simp [Recs.empty]⟩

theorem LInv.step {total since : Nat} {st : Drift} {recs : Recs} {tr : List Drift}
    (h : LInv total since st recs tr) (d : Drift) :
    LInv (total + 1) ((if st = .drift then 0 else since) + 1) d
      (recsUpd (if st = .drift then Recs.empty else recs) d total) (tr ++ [d]) := by
  obtain ⟨hlen, hle, hlast, hfresh, hinner, hnone, hfirst, hsecond⟩ := h
  have idx : ∀ i, (tr ++ [d])[i]? = if i < total then tr[i]? else if i = total then some d else none := by
    intro i
    by_cases h1 : i < total
    · rw [if_pos h1, List.getElem?_append_left (by omega)]
    · rw [if_neg h1]
      by_cases h2 : i = total
      · subst h2; rw [if_pos rfl, ← hlen]; simp
      · rw [if_neg h2]; simp; omega
  by_cases hd : st = .drift
  · -- the previous update ended in drift: a new epoch consisting of this update only
    subst hd
    simp only [if_true]
    refine ⟨by simp [hlen], by omega, ?_, by omega, ?_, ?_, ?_, ?_⟩
    · intro _; rw [idx]; simp
    · intro i h1 h2; omega
    · cases d <;> simp [recsUpd, Recs.empty] <;>
        first
          | (intro i h1 h2; have : i = total := by omega
             subst this; rw [idx]; simp)
          | (refine ⟨total, by omega, by omega, ?_⟩; rw [idx]; simp)
    · intro i hi
      cases d <;> simp [recsUpd, Recs.empty] at hi
      all_goals
        subst hi
        refine ⟨by omega, by omega, ?_, fun j h1 h2 => by omega⟩
        rw [idx]; simp
    · intro j
      cases d <;> simp [recsUpd, Recs.empty] <;> omega
  · simp only [if_neg hd]
    have hsub : total + 1 - (since + 1) = total - since := by omega
    refine ⟨by simp [hlen], by omega, ?_, by omega, ?_, ?_, ?_, ?_⟩
    · intro _; rw [idx]; simp
    · intro i h1 h2
      rw [hsub] at h1
      rw [idx, if_pos (by omega)]
      by_cases h3 : i + 1 < total
      · exact hinner i h1 h3
      · have : i = total - 1 := by omega
        subst this
        have hs : 0 < since := by omega
        rw [hlast hs]; simpa using hd
    · rw [hsub]
      have key : (∀ i, total - since ≤ i → i < total + 1 → (tr ++ [d])[i]? = some Drift.none) ↔
          (d = .none ∧ ∀ i, total - since ≤ i → i < total → tr[i]? = some .none) := by
        constructor
        · intro hall
          refine ⟨?_, fun i h1 h2 => ?_⟩
          · have := hall total (by omega) (by omega)
            rw [idx] at this; simpa using this
          · have := hall i h1 (by omega)
            rw [idx, if_pos h2] at this; exact this
        · rintro ⟨hd0, hall⟩ i h1 h2
          rw [idx]
          by_cases h3 : i < total
          · rw [if_pos h3]; exact hall i h1 h3
          · have : i = total := by omega
            subst this; simp [hd0]
      rw [key, ← hnone]
      cases d <;> cases h1 : recs.1 <;> simp [recsUpd, h1]
    · intro i hi
      rw [hsub]
      cases h1 : recs.1 with
      | none =>
        have hall := hnone.mp h1
        cases d <;> simp [recsUpd, h1] at hi
        all_goals
          subst hi
          refine ⟨by omega, by omega, ?_, fun j h2 h3 => ?_⟩
          · rw [idx]; simp
          · rw [idx, if_pos h3]; exact hall j h2 h3
      | some i0 =>
        have hi0 : i = i0 := by
          cases d <;> simp [recsUpd, h1] at hi <;> exact hi.symm
        subst hi0
        obtain ⟨g1, g2, g3, g4⟩ := hfirst i h1
        refine ⟨g1, by omega, ?_, fun j h2 h3 => ?_⟩
        · rw [idx, if_pos g2]; exact g3
        · rw [idx, if_pos (by omega)]; exact g4 j h2 h3
    · intro j
      have hs2 : recs.2 = none := by
        cases h2 : recs.2 with
        | none => rfl
        | some j0 => exact absurd ((hsecond j0).mp h2).1 hd
      cases d with
      | none => simp [recsUpd, hs2]
      | warning =>
        have : (recsUpd recs .warning total).2 = recs.2 := by
          show (if recs.1.isNone then (some total, recs.2) else recs).2 = recs.2
          split <;> rfl
        rw [this, hs2]; simp
      | drift => simp [recsUpd]; omega

/-- **Lifecycle and recommendations**, for every history: `total_samples` counts the updates;
    `all_drift_states` has one entry per update, the last one being `drift_state`; the epoch restarts on
    the update after a drift; `retraining_recs[0]` is the first index of the current epoch with a
    non-`None` state (`None` iff there is none), `retraining_recs[1]` is the index of the drift, set
    exactly while `drift_state == "drift"`. -/
theorem lifecycle (c : Cfg α) (ops : List Op) :
    LInv (run c ops).total (run c ops).since (run c ops).drift (run c ops).recs (run c ops).states ∧
    (run c ops).total = ops.length := by
  unfold run
  suffices ∀ (s : State α) (n : Nat), LInv s.total s.since s.drift s.recs s.states → s.total = n →
      (let s' := ops.foldl (fun s o => step c s o.yt o.yp o.blocks) s
       LInv s'.total s'.since s'.drift s'.recs s'.states ∧ s'.total = n + ops.length) by
    simpa using this init 0 LInv.init rfl
  induction ops with
  | nil => intro s n h hn; exact ⟨h, by simpa using hn⟩
  | cons o ops ih =>
    intro s n h hn
    simp only [List.foldl_cons, List.length_cons]
    have := ih (step c s o.yt o.yp o.blocks) (n + 1) ?_ ?_
    · simpa [Nat.add_assoc, Nat.add_comm 1] using this
    · obtain ⟨a1, a2, a3, a4, -, -, -, -, a9⟩ := step_fields c s o.yt o.yp o.blocks
      obtain ⟨p1, -, p3, p4, p5, -⟩ := preReset_fields s
      rw [a1, a2, a4, a9, p1, p3, p4, p5]
      have hstep := h.step (step c s o.yt o.yp o.blocks).drift
      rw [a3] at hstep ⊢
      exact hstep
    · rw [(step_fields c s o.yt o.yp o.blocks).1, (preReset_fields s).1, hn]

/-- `samples_since_reset` after an update: 1 after a drift, one more otherwise (reset on the update after drift) -/
theorem since_step (c : Cfg α) (s : State α) (yt yp : Bool) (bl : List Block) :
    (step c s yt yp bl).since = (if s.drift = .drift then 0 else s.since) + 1 := by
  rw [(step_fields c s yt yp bl).2.1, (preReset_fields s).2.2.2.1]

/-! ## the confusion matrix is the epoch's, plus one per cell -/

/-- the samples of the current epoch: restart on the update that follows a drift -/
def epochStep (d : Drift) (e : List (Bool × Bool)) (yt yp : Bool) : List (Bool × Bool) :=
  (if d = .drift then [] else e) ++ [(yt, yp)]

/-- the run, together with the (ghost) list of the current epoch's samples -/
def runE (c : Cfg α) (ops : List Op) : State α × List (Bool × Bool) :=
  ops.foldl (fun se o => (step c se.1 o.yt o.yp o.blocks, epochStep se.1.drift se.2 o.yt o.yp)) (init, [])

def epoch (c : Cfg α) (ops : List Op) : List (Bool × Bool) := (runE c ops).2

theorem runE_fst (c : Cfg α) (ops : List Op) : (runE c ops).1 = run c ops := by
  unfold runE run
  suffices ∀ (s : State α) (e : List (Bool × Bool)),
      (ops.foldl (fun se o => (step c se.1 o.yt o.yp o.blocks, epochStep se.1.drift se.2 o.yt o.yp)) (s, e)).1 =
        ops.foldl (fun s o => step c s o.yt o.yp o.blocks) s from this _ _
  induction ops with
  | nil => intro s e; rfl
  | cons o ops ih => intro s e; simp only [List.foldl_cons]; exact ih _ _

/-- count of the samples of one confusion cell -/
def cell (e : List (Bool × Bool)) (yt yp : Bool) : Nat := (e.filter (fun x => x.1 == yt && x.2 == yp)).length

/-- the confusion matrix of a list of samples, one pseudo-count per cell -/
def confOf (e : List (Bool × Bool)) : Conf :=
  { tn := 1 + cell e false false, fn := 1 + cell e true false,
    fp := 1 + cell e false true, tp := 1 + cell e true true }

theorem confOf_nil : confOf [] = Conf.init := rfl

theorem confOf_snoc (e : List (Bool × Bool)) (yt yp : Bool) : confOf (e ++ [(yt, yp)]) = (confOf e).bump yt yp := by
  cases yt <;> cases yp <;> simp [confOf, cell, Conf.bump, List.filter_append] <;> omega

/-- **The rates are the rates of the epoch's confusion matrix.**  After every history the confusion
    matrix is the count of the current epoch's samples per cell plus one pseudo-count
    (`tp = 1 + #{y_true=1,y_pred=1}` …), `samples_since_reset` is the epoch's length, and the rates the
    detector works with are `rates` of it: `tp/(tp+fn)`, `tn/(tn+fp)`, `tp/(fp+tp)`, `tn/(tn+fn)`. -/
theorem conf_is_epoch_counts (c : Cfg α) (ops : List Op) :
    (run c ops).conf = confOf (epoch c ops) ∧ (run c ops).since = (epoch c ops).length := by
  unfold epoch
  rw [← runE_fst]
  unfold runE
  suffices ∀ (se : State α × List (Bool × Bool)), (se.1.conf = confOf se.2 ∧ se.1.since = se.2.length) →
      ((ops.foldl (fun se o => (step c se.1 o.yt o.yp o.blocks, epochStep se.1.drift se.2 o.yt o.yp)) se).1.conf =
        confOf (ops.foldl (fun se o => (step c se.1 o.yt o.yp o.blocks, epochStep se.1.drift se.2 o.yt o.yp)) se).2 ∧
       (ops.foldl (fun se o => (step c se.1 o.yt o.yp o.blocks, epochStep se.1.drift se.2 o.yt o.yp)) se).1.since =
        (ops.foldl (fun se o => (step c se.1 o.yt o.yp o.blocks, epochStep se.1.drift se.2 o.yt o.yp)) se).2.length) from
    this (init, []) ⟨rfl, rfl⟩
  induction ops with
  | nil => intro se h; exact h
  | cons o ops ih =>
    intro se h
    simp only [List.foldl_cons]
    apply ih
    obtain ⟨-, a2, -, -, a5, -⟩ := step_fields c se.1 o.yt o.yp o.blocks
    obtain ⟨-, -, -, p4, -, p6⟩ := preReset_fields se.1
    show (step c se.1 o.yt o.yp o.blocks).conf = confOf (epochStep se.1.drift se.2 o.yt o.yp) ∧
      (step c se.1 o.yt o.yp o.blocks).since = (epochStep se.1.drift se.2 o.yt o.yp).length
    rw [a5, a2, p4, p6]
    unfold epochStep
    split
    · exact ⟨by rw [List.nil_append, ← confOf_nil, ← confOf_snoc]; rfl, by simp⟩
    · exact ⟨by rw [confOf_snoc, h.1], by simp [h.2]⟩


/-- … spelled out: the four values are TPR, TNR, PPV, NPV of the epoch's counts plus one per cell -/
theorem rates_are_rates (c : Cfg α) (ops : List Op) :
    let e := epoch c ops
    let tp := 1 + cell e true true
    let tn := 1 + cell e false false
    let fp := 1 + cell e false true
    let fn := 1 + cell e true false
    rates (run c ops).conf .tpr = ((tp : Nat) : α) / ((tp + fn : Nat) : α) ∧
    rates (run c ops).conf .tnr = ((tn : Nat) : α) / ((tn + fp : Nat) : α) ∧
    rates (run c ops).conf .ppv = ((tp : Nat) : α) / ((fp + tp : Nat) : α) ∧
    rates (run c ops).conf .npv = ((tn : Nat) : α) / ((tn + fn : Nat) : α) ∧
    (run c ops).conf.den .tpr = tp + fn ∧ (run c ops).conf.den .tnr = tn + fp ∧
    (run c ops).conf.den .ppv = fp + tp ∧ (run c ops).conf.den .npv = tn + fn := by
  simp only [(conf_is_epoch_counts c ops).1]
  exact ⟨rfl, rfl, rfl, rfl, rfl, rfl, rfl, rfl⟩

/-PART2-/
/-! # Part 2 — ordered fields

`K` is any ordered field (ℚ, ℝ, …) with a lawful `==`; the model's `+ - * /`, `<`, `≤` and casts are
the field's, so there is no diamond.  `HasRound K` is arbitrary (no law needed below). -/

section Field
variable {K : Type} [Field K] [LinearOrder K] [IsStrictOrderedRing K] [BEq K] [LawfulBEq K] [HasRound K]

theorem one_eq : (one : K) = 1 := by simp [one]
theorem zero_eq : (zero : K) = 0 := by simp [zero]
theorem half_eq : (half : K) = 1 / 2 := by simp [half]

theorem powNat_eq (x : K) (k : ℕ) : powNat x k = x ^ k := by
  induction k with
  | zero => simp [powNat, one_eq]
  | succ k ih => rw [powNat, ih, pow_succ]

theorem frac_ne {a d a' d' : ℕ} (hd : 0 < d) (hd' : 0 < d') (hcross : a' * d ≠ a * d') :
    (a' : K) / (d' : K) ≠ (a : K) / (d : K) := by
  intro h
  have h1 : (d : K) ≠ 0 := Nat.cast_ne_zero.mpr (by omega)
  have h2 : (d' : K) ≠ 0 := Nat.cast_ne_zero.mpr (by omega)
  rw [div_eq_div_iff h2 h1] at h
  apply hcross
  exact_mod_cast h

/-- every cell is at least the pseudo-count -/
def Conf.Pos (cf : Conf) : Prop := 1 ≤ cf.tn ∧ 1 ≤ cf.fn ∧ 1 ≤ cf.fp ∧ 1 ≤ cf.tp

theorem confOf_pos (e : List (Bool × Bool)) : (confOf e).Pos := by
  simp [Conf.Pos, confOf]

/-- **A rate changes exactly on the samples of its row / column**: with one pseudo-count per cell,
    TPR moves iff `y_true = 1`, TNR iff `y_true = 0`, PPV iff `y_pred = 1`, NPV iff `y_pred = 0`
    (both an increment of the numerator cell and of the other cell of the denominator move the quotient). -/
theorem rate_changed_iff (cf : Conf) (hp : cf.Pos) (r : Rate) (yt yp : Bool) :
    (rates (cf.bump yt yp) r : K) ≠ rates cf r ↔ affects r yt yp = true := by
  obtain ⟨h1, h2, h3, h4⟩ := hp
  constructor
  · intro h
    by_contra ha
    have ha' : affects r yt yp = false := by simpa using ha
    obtain ⟨u1, u2⟩ := bump_unaffected cf r yt yp ha'
    exact h (rates_congr _ _ r u1 u2)
  · intro ha
    unfold rates
    cases r <;> cases yt <;> cases yp <;> simp only [affects, Bool.not_true, Bool.not_false] at ha <;>
      first
        | exact absurd ha (by decide)
        | (simp only [Conf.bump, Conf.num, Conf.den]
           apply frac_ne (by omega) (by omega)
           intro h; nlinarith)

/-- the exponentially weighted average: start at ½, then `R ← η·R + (1−η)·1{agree}` per sample -/
def ewma (eta : K) (l : List Bool) : K :=
  l.foldl (fun R a => eta * R + (1 - eta) * (if a then 1 else 0)) (1 / 2)

/-- `1{y_true = y_pred}` on the samples of the rate's own row / column of the epoch, in order -/
def agreements (r : Rate) (e : List (Bool × Bool)) : List Bool :=
  (e.filter (fun x => affects r x.1 x.2)).map (fun x => x.1 == x.2)

theorem agreements_snoc (r : Rate) (e : List (Bool × Bool)) (yt yp : Bool) :
    agreements r (e ++ [(yt, yp)]) = agreements r e ++ (if affects r yt yp = true then [yt == yp] else []) := by
  unfold agreements
  rw [List.filter_append, List.map_append]
  by_cases h : affects r yt yp = true <;> simp [h]

/-- the new statistic of a tracked rate in one update -/
theorem newR_field (c : Cfg K) (s0 : State K) (hp : s0.conf.Pos) (yt yp : Bool) (r : Rate) :
    newR c (ctxOf s0 yt yp) (s0.r r) r =
      if affects r yt yp = true then c.eta * s0.r r + (1 - c.eta) * (if (yt == yp) = true then 1 else 0) else s0.r r := by
  unfold newR
  have hch := rate_changed_iff (K := K) s0.conf hp r yt yp
  by_cases ha : affects r yt yp = true
  · have hne : ((ctxOf s0 yt yp).new r == (ctxOf s0 yt yp).old r) = false := by
      rw [beq_eq_false_iff_ne]; exact hch.mpr ha
    simp only [hne, Bool.not_false, if_true, ha, one_eq, zero_eq]
    rfl
  · have heq : ((ctxOf s0 yt yp).new r == (ctxOf s0 yt yp).old r) = true := by
      rw [beq_iff_eq]; by_contra hne; exact ha (hch.mp hne)
    simp only [heq, Bool.not_true, if_neg ha]
    rfl

/-- **The statistic of a tracked rate is the exponentially weighted average over exactly the samples
    of its row / column** of the current epoch (started at ½ at the beginning of the epoch). -/
theorem rstat_is_ewma (c : Cfg K) (hnd : c.tracked.Nodup) (ops : List Op) (r : Rate) (hr : r ∈ c.tracked) :
    (run c ops).r r = ewma c.eta (agreements r (epoch c ops)) := by
  unfold epoch
  rw [← runE_fst]
  unfold runE
  suffices ∀ (se : State K × List (Bool × Bool)),
      (se.1.conf = confOf se.2 ∧ se.1.r r = ewma c.eta (agreements r se.2)) →
      ((ops.foldl (fun se o => (step c se.1 o.yt o.yp o.blocks, epochStep se.1.drift se.2 o.yt o.yp)) se).1.r r =
        ewma c.eta (agreements r
          (ops.foldl (fun se o => (step c se.1 o.yt o.yp o.blocks, epochStep se.1.drift se.2 o.yt o.yp)) se).2)) from
    this (init, []) ⟨rfl, by simp [init, ewma, agreements, half_eq]⟩
  induction ops with
  | nil => intro se h; exact h.2
  | cons o ops ih =>
    intro se h
    simp only [List.foldl_cons]
    apply ih
    obtain ⟨-, -, -, -, a5, -, a7, -, -⟩ := step_fields c se.1 o.yt o.yp o.blocks
    show (step c se.1 o.yt o.yp o.blocks).conf = confOf (epochStep se.1.drift se.2 o.yt o.yp) ∧
      (step c se.1 o.yt o.yp o.blocks).r r = ewma c.eta (agreements r (epochStep se.1.drift se.2 o.yt o.yp))
    rw [a5, a7, (loop_r c _ c.tracked hnd _ r hr).1]
    -- the state after the optional reset, and its epoch
    have h0 : (preReset se.1).conf = confOf (if se.1.drift = .drift then [] else se.2) ∧
        (preReset se.1).r r = ewma c.eta (agreements r (if se.1.drift = .drift then [] else se.2)) := by
      unfold preReset reset
      split
      · exact ⟨rfl, by simp [ewma, agreements, half_eq]⟩
      · exact h
    unfold epochStep
    generalize preReset se.1 = s0 at h0 ⊢
    generalize (if se.1.drift = Drift.drift then [] else se.2) = e0 at h0 ⊢
    refine ⟨by rw [confOf_snoc, h0.1], ?_⟩
    show newR c (ctxOf s0 o.yt o.yp) (s0.r r) r = _
    rw [newR_field c s0 (by rw [h0.1]; exact confOf_pos e0), agreements_snoc, h0.2]
    by_cases ha : affects r o.yt o.yp = true
    · simp [ha, ewma, List.foldl_append]
    · simp [ha]

open Finset in
/-- **Closed form** of the weighted average after `k` samples `a₀ … a_{k-1}`:
    `η^k/2 + (1−η)·Σ_j η^(k−1−j)·a_j` — newest sample weight `(1−η)`, each older one `η` times less. -/
theorem ewma_closed_form (eta : K) (l : List Bool) :
    ewma eta l = eta ^ l.length / 2 +
      (1 - eta) * ∑ j ∈ range l.length, eta ^ (l.length - 1 - j) * (if l.getD j false = true then 1 else 0) := by
  induction l using List.reverseRecOn with
  | nil => simp [ewma]
  | append_singleton l a ih =>
    have hstep : ewma eta (l ++ [a]) = eta * ewma eta l + (1 - eta) * (if a = true then 1 else 0) := by
      simp [ewma, List.foldl_append]
    rw [hstep, ih, List.length_append, List.length_singleton, sum_range_succ]
    have hlast : (l ++ [a]).getD l.length false = a := by simp [List.getD]
    have hinit : ∀ j ∈ range l.length,
        eta ^ (l.length + 1 - 1 - j) * (if (l ++ [a]).getD j false = true then (1 : K) else 0) =
        eta * (eta ^ (l.length - 1 - j) * (if l.getD j false = true then 1 else 0)) := by
      intro j hj
      have hj' : j < l.length := mem_range.mp hj
      have e1 : (l ++ [a]).getD j false = l.getD j false := by
        simp [List.getD, List.getElem?_append_left hj']
      have e2 : l.length + 1 - 1 - j = (l.length - 1 - j) + 1 := by omega
      rw [e1, e2, pow_succ]; ring
    rw [sum_congr rfl hinit, ← mul_sum, hlast]
    have e3 : l.length + 1 - 1 - l.length = 0 := by omega
    rw [e3]
    ring

/-- the Monte-Carlo statistic `get_Rj` has the same weights: for `N` draws `b₀ … b_{N-1}` it is
    `(1−η)·Σ_i η^(N−1−i)·b_i`, i.e. the closed form of the rate statistic without the `η^k/2` start term,
    with Bernoulli draws in place of the agreement indicators -/
theorem statOf_closed_form (eta : K) (bits : List Bool) :
    statOf eta (prods eta bits.length) bits =
      (1 - eta) * ∑ i ∈ Finset.range bits.length,
        eta ^ (bits.length - 1 - i) * (if bits.getD i false = true then 1 else 0) := by
  unfold statOf
  -- peel the draws from the front
  have hprods : ∀ n, prods eta (n + 1) = eta ^ n :: prods eta n := by
    intro n
    unfold prods
    rw [List.range_succ_eq_map, List.map_cons, List.map_map]
    simp only [powNat_eq]
    congr 1
    apply List.map_congr_left
    intro i _
    show eta ^ (n + 1 - (i + 1 + 1)) = eta ^ (n - (i + 1))
    congr 1
    omega
  have key : ∀ (bits : List Bool) (acc : K),
      (List.zipWith (fun p (b : Bool) => p * (if b then (one : K) else zero)) (prods eta bits.length) bits).foldl (· + ·) acc =
        acc + ∑ i ∈ Finset.range bits.length, eta ^ (bits.length - 1 - i) * (if bits.getD i false = true then 1 else 0) := by
    intro bits
    induction bits with
    | nil => intro acc; simp [prods]
    | cons b bs ih =>
      intro acc
      rw [List.length_cons, hprods, List.zipWith_cons_cons, List.foldl_cons, ih, Finset.sum_range_succ']
      simp only [one_eq, zero_eq]
      have : ∀ i ∈ Finset.range bs.length,
          eta ^ (bs.length + 1 - 1 - (i + 1)) * (if (b :: bs).getD (i + 1) false = true then (1 : K) else 0) =
          eta ^ (bs.length - 1 - i) * (if bs.getD i false = true then 1 else 0) := by
        intro i _
        have e : bs.length + 1 - 1 - (i + 1) = bs.length - 1 - i := by omega
        have e1 : (b :: bs).getD (i + 1) false = bs.getD i false := by simp [List.getD]
        rw [e, e1]
      rw [Finset.sum_congr rfl this]
      simp [List.getD]
      ring
  rw [key bits zero, zero_eq, zero_add, one_eq]

/-- the four rates lie strictly between 0 and 1 (so the Bernoulli parameter of the simulation is valid) -/
theorem rates_in_unit_interval (cf : Conf) (hp : cf.Pos) (r : Rate) :
    (0 : K) < rates cf r ∧ (rates cf r : K) < 1 := by
  obtain ⟨h1, h2, h3, h4⟩ := hp
  unfold rates
  have hnum : 0 < cf.num r := by cases r <;> simp [Conf.num] <;> omega
  have hlt : cf.num r < cf.den r := by cases r <;> simp [Conf.num, Conf.den] <;> omega
  have hden : (0 : K) < (cf.den r : K) := by exact_mod_cast (by omega : 0 < cf.den r)
  constructor
  · apply div_pos _ hden; exact_mod_cast hnum
  · rw [div_lt_one hden]; exact_mod_cast hlt

/-! ### the percentile sees the order statistics of the simulated values -/

theorem insertSorted_perm (x : K) (l : List K) : (insertSorted x l).Perm (x :: l) := by
  induction l with
  | nil => simp [insertSorted]
  | cons y ys ih =>
    unfold insertSorted
    split
    · exact List.Perm.refl _
    · exact (List.Perm.cons y ih).trans (List.Perm.swap x y ys)

theorem insertSorted_sorted (x : K) (l : List K) (h : l.Pairwise (· ≤ ·)) : (insertSorted x l).Pairwise (· ≤ ·) := by
  induction l with
  | nil => simp [insertSorted]
  | cons y ys ih =>
    unfold insertSorted
    rw [List.pairwise_cons] at h
    split
    · rename_i hxy
      refine List.pairwise_cons.mpr ⟨?_, List.pairwise_cons.mpr h⟩
      intro z hz
      rcases List.mem_cons.mp hz with rfl | hz
      · exact le_of_lt hxy
      · exact le_trans (le_of_lt hxy) (h.1 z hz)
    · rename_i hxy
      refine List.pairwise_cons.mpr ⟨?_, ih h.2⟩
      intro z hz
      rcases List.mem_cons.mp ((insertSorted_perm x ys).subset hz) with rfl | hz
      · exact le_of_not_gt hxy
      · exact h.1 z hz

/-- `sort` (what `np.percentile` does to the sample first) returns the sample's order statistics -/
theorem sort_perm_sorted (l : List K) : (sort l).Perm l ∧ (sort l).Pairwise (· ≤ ·) := by
  induction l with
  | nil => simp [sort]
  | cons x xs ih =>
    have : sort (x :: xs) = insertSorted x (sort xs) := rfl
    rw [this]
    exact ⟨(insertSorted_perm x _).trans (List.Perm.cons x ih.1), insertSorted_sorted x _ ih.2⟩

/-- numpy's two-branch `_lerp` is the linear interpolation `a + (b − a)·t` -/
theorem lerp_eq (a b t : K) : lerp a b t = a + (b - a) * t := by
  unfold lerp
  split
  · rw [one_eq]; ring
  · rfl

/-- … and stays between the two order statistics it interpolates -/
theorem lerp_between (a b t : K) (hab : a ≤ b) (h0 : 0 ≤ t) (h1 : t ≤ 1) : a ≤ lerp a b t ∧ lerp a b t ≤ b := by
  rw [lerp_eq]
  have : 0 ≤ b - a := sub_nonneg.mpr hab
  constructor
  · nlinarith [mul_nonneg this h0]
  · nlinarith [mul_le_mul_of_nonneg_left h1 this]

end Field

/-! ## non-vacuity: the hypotheses are satisfiable, the branches are reachable -/

section Examples

/-- a toy carrier on which everything computes by `decide` (`/` is integer division, rounding is the identity) -/
local instance : HasRound Int := ⟨Int.toNat, id⟩

def cI : Cfg Int :=
  { eta := 0, warnLevel := 0, detectLevel := 0, burnIn := 0, numMc := 1, subsample := 1, tracked := [.tpr], roundVal := 0 }
def cI2 : Cfg Int := { cI with burnIn := 1, tracked := [.tpr, .npv] }

-- `decision`: on the schedule, a drift and a non-drift; off the schedule
example : cI.tracked.Nodup ∧ gate cI (step cI init true true [[[true, true, true]]]).since = true ∧
    (step cI init true true [[[true, true, true]]]).drift = .drift := by decide
example : (step cI init true true [[[true, true, false]]]).drift = .none := by decide
example : gate cI2 (step cI2 init true true []).since = false := by decide
-- `cache_new_entry` / `cache_step_mono` / `cache_all_hits`: an entry appears, then is reused without draws
example : lookup (keyAt cI (step cI init true true [[[true, true, false]]]).conf .tpr) (init : State Int).cache = none ∧
    (lookup (keyAt cI (step cI init true true [[[true, true, false]]]).conf .tpr)
      (step cI init true true [[[true, true, false]]]).cache).isSome = true := by decide
example : (step cI (step cI init true true [[[true, true, false]]]) false true []).cache.length = 1 := by decide
-- `untracked_irrelevant`: with only TPR tracked, (y_true, y_pred) = (0,1) and (0,0) are interchangeable, (1,1) and (1,0) are not
example : InEq [Rate.tpr] false true false false := by
  intro r hr; simp at hr; subst hr; decide
example : ¬ InEq [Rate.tpr] true true true false := by
  intro h; have := h .tpr (by simp); simp [affects] at this
-- `lifecycle` / `recs_spec`: a drift sets both recommendations, the next update starts a new epoch
example : (step cI init true true [[[true, true, true]]]).recs = (some 0, some 0) ∧
    (step cI (step cI init true true [[[true, true, true]]]) true true [[[true, true, true]]]).since = 1 ∧
    (step cI (step cI init true true [[[true, true, true]]]) true true []).recs = (some 1, some 1) := by decide
-- `conf_is_epoch_counts` / `rate_changed_iff`: the pseudo-counts satisfy `Conf.Pos`; TPR moves on (1,1): 2/3 ≠ 1/2
example : Conf.init.Pos := by simp [Conf.Pos, Conf.init]
example : (rates (Conf.init.bump true true) .tpr : ℚ) = 2 / 3 ∧ (rates Conf.init .tpr : ℚ) = 1 / 2 := by
  constructor <;> norm_num [rates, Conf.init, Conf.bump, Conf.num, Conf.den]
-- `ewma_closed_form`: η = 1/2, samples agree, disagree → R = 3/8
example : ewma (1 / 2 : ℚ) [true, false] = 3 / 8 := by norm_num [ewma]

end Examples

end MV.LFR
