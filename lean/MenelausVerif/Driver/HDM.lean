/-
  Line protocol of the HDM model (HDDDM / CDBD), run at `Float`.

    new hdm <H|KL|tv|shift|skew> <detect_batch> <t|s> <signif> <univariate 0|1>
    setref <rows> <cols> <eps0> <tcrit> <df|_> <x…>     (row-major bit patterns)
    batch  <rows> <cols> <eps0> <tcrit> <df|_> <x…>
    hist <bins> <lo> <hi> <x…>                          → counts of `np.histogram`
  Bootstrap form (Model/HDMBoot.lean): in `setref` / `batch` the `<eps0>` field may instead be
    D<subsets>[/<i,i,…>]*      the row positions drawn by `DataFrame.sample`, one `/`-group per subset
                               (`D3` alone = the call drew nothing; `D1/` = one empty draw)
  and ε₀ is computed by the model (`updateB`).  The output then has a 12th section
    <eps0|_> <size|_> <ok|bad-draws> <pairwise distances of the subsets, comma separated|_>
  (`bad-draws`: the draws are not `subsets` vectors of `size` row positions of the reference on a call
  that bootstraps, or there are draws on a call that does not).
    dist <H|KL|tv|shift|skew> <k> <r₁…r_k> <t₁…t_k>          → distance of two count vectors

  Output of setref / batch (sections separated by ` | `):
    ok <D|N> <total> <since> <refN> <bins> | curDist | new distances k:v,… | new epsilon_values |
    new thresholds | beta | feature_epsilons | feature_info (argmax;eps,…;dist,…) | margin of the
    drift test | df check (ok/bad/_) | histogram pairs of the call (r,…;t,… per feature)
  or `reject` (the call raises in the implementation; the state is then not modelled further).
-/
import MenelausVerif.Driver.Core
import MenelausVerif.Model.HDM
import MenelausVerif.Model.HDMBoot
namespace MV.Driver
open MV MV.HDM

/-- user divergence "tv": `0.5 * Σ |r_i/Σr − t_i/Σt|` (sequential, from `0.0`) -/
private def userTV (r t : List Nat) : Float :=
  let rs := Float.ofNat r.sum
  let ts := Float.ofNat t.sum
  0.5 * (List.zip r t).foldl (fun acc p => acc + Float.abs (Float.ofNat p.1 / rs - Float.ofNat p.2 / ts)) 0.0

/-- user divergence "shift" (signed, not symmetric): `Σ (i+1)·(t_i/Σt − r_i/Σr)` -/
private def userShift (r t : List Nat) : Float :=
  let rs := Float.ofNat r.sum
  let ts := Float.ofNat t.sum
  ((List.zip r t).zipIdx.foldl
    (fun acc p => acc + Float.ofNat (p.2 + 1) * (Float.ofNat p.1.2 / ts - Float.ofNat p.1.1 / rs)) 0.0)

/-- user divergence "skew" (neither symmetric nor antisymmetric): `Σ (i+1)·(t_i/Σt − 2·r_i/Σr)` -/
private def userSkew (r t : List Nat) : Float :=
  let rs := Float.ofNat r.sum
  let ts := Float.ofNat t.sum
  ((List.zip r t).zipIdx.foldl
    (fun acc p => acc + Float.ofNat (p.2 + 1) * (Float.ofNat p.1.2 / ts - 2.0 * Float.ofNat p.1.1 / rs)) 0.0)

private def parseDiv? : String → Option (Divergence Float)
  | "H" => some .hellinger
  | "KL" => some .js
  | "tv" => some (.user userTV)
  | "shift" => some (.user userShift)
  | "skew" => some (.user userSkew)
  | _ => none

private structure HdmM where
  cfg : Cfg Float
  s : State Float

private def showOptF : Option Float → String
  | some x => showFloat x
  | none => "_"

private def showList (l : List Float) : String := ",".intercalate (l.map showFloat)
private def showNatList (l : List Nat) : String := ",".intercalate (l.map toString)

private def showEntries (l : List (Nat × Float)) (after : Nat) : String :=
  let es := l.filter (fun e => e.1 > after)
  if es.isEmpty then "_" else ",".intercalate (es.map (fun e => toString e.1 ++ ":" ++ showFloat e.2))

private def showFeatInfo : Option (FeatInfo Float) → String
  | none => "_"
  | some fi => toString fi.argmax ++ ";" ++ showList fi.epsilons ++ ";" ++ showList fi.featDist

private def mkRows (r c : Nat) (xs : List Float) : Option (List (List Float)) :=
  if xs.length = r * c then
    some ((List.range r).map (fun i => (xs.drop (i * c)).take c))
  else none

private def lastWithKey (l : List (Nat × Float)) (k : Nat) : Option Float :=
  match l.getLast? with
  | some e => if e.1 = k then some e.2 else none
  | none => none

private def hdmOut (before : State Float) (pre : Option (State Float)) (X : List (List Float)) (df : Option Nat)
    (s : State Float) : String :=
  let margin := match lastWithKey s.epsValues s.total, lastWithKey s.thresholds s.total with
    | some e, some b =>
      let m := Float.abs (e - b) / (max 1.0 (max (Float.abs e) (Float.abs b)))
      showFloat m
    | _, _ => "_"
  let (dfc, hists) := match pre with
    | some p =>
      let dfc := match df with
        | some d => if d + 2 = p.refN + X.length then "ok" else "bad"
        | none => "_"
      let dim := s.dim.getD 0
      let hs := (List.range dim).map (fun f =>
        let h := histPair p.bins p.reference X f
        showNatList h.1 ++ ";" ++ showNatList h.2)
      (dfc, " ".intercalate hs)
    | none => ("_", "_")
  " | ".intercalate
    [ "ok " ++ s.drift.toStr ++ " " ++ toString s.total ++ " " ++ toString s.since ++ " " ++
        toString s.refN ++ " " ++ toString s.bins,
      showOptF s.curDist,
      showEntries s.distances before.total,
      showEntries s.epsValues before.total,
      showEntries s.thresholds before.total,
      showOptF s.beta,
      (match s.featEps with | some l => showList l | none => "_"),
      showFeatInfo s.featInfo,
      margin, dfc, hists ]

private def parseDf? : String → Option (Option Nat)
  | "_" => some none
  | t => t.toNat?.map some

/-- `D<k>[/<i,i,…>]*` → (`subsets`, draws) -/
private def parseDraws? (t : String) : Option (Nat × List (List Nat)) :=
  match t.splitOn "/" with
  | [] => none
  | h :: gs =>
    if h.startsWith "D" then
      match (h.drop 1).toNat?, gs.mapM (fun g => if g == "" then some [] else (g.splitOn ",").mapM String.toNat?) with
      | some k, some ds => some (k, ds)
      | _, _ => none
    else none

/-- 12th output section of the bootstrap form -/
private def bootOut (cfg : Cfg Float) (k : Nat) (draws : List (List Nat)) (pre : Option (State Float))
    (X : List (List Float)) : String :=
  match pre with
  | some p =>
    let ok := if drawsOk cfg k draws p then "ok" else "bad-draws"
    match validBatch cfg p.dim X with
    | some d =>
      if bootDue cfg p then
        let ds := bootDistances cfg.div (bootHists p.bins d (rangeOf p.reference X) p.reference draws)
        showFloat (stepBootEps cfg k draws p d X) ++ " " ++ toString (bootSize Float k p.refN) ++ " " ++ ok ++
          " " ++ (if ds.isEmpty then "_" else showList ds)
      else "_ _ " ++ ok ++ " _"
    | none => "_ _ " ++ ok ++ " _"
  | none => "_ _ " ++ (if draws.isEmpty then "ok" else "bad-draws") ++ " _"

private def hdmStepB (m : HdmM) : List String → Option (String × HdmM)
  | "setref" :: r :: c :: e0 :: tc :: df :: xs =>
    match r.toNat?, c.toNat?, parseDraws? e0, parseFloat? tc, parseDf? df, parseFloats? xs with
    | some r, some c, some (_, draws), some tc, some _, some xs =>
      match mkRows r c xs with
      | some X =>
        match setReferenceB m.cfg tc m.s X with
        | some s' => some (hdmOut m.s none X none s' ++ " | " ++ bootOut m.cfg 0 draws none X, { m with s := s' })
        | none => some ("reject", m)
      | none => none
    | _, _, _, _, _, _ => none
  | "batch" :: r :: c :: e0 :: tc :: df :: xs =>
    match r.toNat?, c.toNat?, parseDraws? e0, parseFloat? tc, parseDf? df, parseFloats? xs with
    | some r, some c, some (k, draws), some tc, some df, some xs =>
      match mkRows r c xs with
      | some X =>
        let pre := preStateB m.cfg tc m.s
        match updateB m.cfg k { draws := draws, tcrit := tc } m.s X with
        | some s' => some (hdmOut m.s pre X df s' ++ " | " ++ bootOut m.cfg k draws pre X, { m with s := s' })
        | none => some ("reject", m)
      | none => none
    | _, _, _, _, _, _ => none
  | _ => none

/-- oracle form: ε₀ handed in -/
private def hdmStepO (m : HdmM) : List String → Option (String × HdmM)
  | "setref" :: r :: c :: e0 :: tc :: df :: xs =>
    match r.toNat?, c.toNat?, parseFloat? e0, parseFloat? tc, parseDf? df, parseFloats? xs with
    | some r, some c, some e0, some tc, some _, some xs =>
      match mkRows r c xs with
      | some X =>
        match setReference m.cfg { eps0 := e0, tcrit := tc } m.s X with
        | some s' => some (hdmOut m.s none X none s', { m with s := s' })
        | none => some ("reject", m)
      | none => none
    | _, _, _, _, _, _ => none
  | "batch" :: r :: c :: e0 :: tc :: df :: xs =>
    match r.toNat?, c.toNat?, parseFloat? e0, parseFloat? tc, parseDf? df, parseFloats? xs with
    | some r, some c, some e0, some tc, some df, some xs =>
      match mkRows r c xs with
      | some X =>
        let o : Oracle Float := { eps0 := e0, tcrit := tc }
        let pre := if m.s.drift = .drift then reset m.cfg o m.s else some m.s
        match update m.cfg o m.s X with
        | some s' => some (hdmOut m.s pre X df s', { m with s := s' })
        | none => some ("reject", m)
      | none => none
    | _, _, _, _, _, _ => none
  | _ => none

private def hdmStep (m : HdmM) : List String → Option (String × HdmM)
  | kind :: r :: c :: e0 :: rest =>
    if e0.startsWith "D" then hdmStepB m (kind :: r :: c :: e0 :: rest) else hdmStepO m (kind :: r :: c :: e0 :: rest)
  | _ => none

private def hdmPure : List String → Option String
  | "hist" :: b :: lo :: hi :: xs =>
    match b.toNat?, parseFloat? lo, parseFloat? hi, parseFloats? xs with
    | some b, some lo, some hi, some xs => some (showNats (hist b lo hi xs))
    | _, _, _, _ => none
  | "dist" :: d :: k :: cs =>
    match parseDiv? d, k.toNat?, parseNats? cs with
    | some d, some k, some cs =>
      if cs.length = 2 * k then some (showFloat (d.apply (cs.take k) (cs.drop k))) else none
    | _, _, _ => none
  | _ => none

def mkHDM : List String → Option Machine
  | ["hdm", d, db, st, sg, uni] =>
    match parseDiv? d, db.toNat?, (match st with | "t" => some Stat.tstat | "s" => some Stat.stdev | _ => none),
          parseFloat? sg, parseBool? uni with
    | some d, some db, some st, some sg, some uni =>
      some { σ := HdmM,
             s := { cfg := { div := d, detectBatch := db, stat := st, signif := sg, univariate := uni },
                    s := HDM.init },
             step := hdmStep }
    | _, _, _, _, _ => none
  | ["hdm.pure"] => some (pureMachine hdmPure)
  | _ => none

end MV.Driver
