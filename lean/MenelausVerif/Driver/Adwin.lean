import MenelausVerif.Driver.Core
import MenelausVerif.Model.Adwin
namespace MV.Driver
open MV MV.Adwin

/-- relative distance between the two sides of `_check_epsilon`'s comparison
    (`+inf` when a side is NaN: then the comparison is False on both sides) -/
private def epsMargin (c : Cfg Float) (s : State Float) (n0 : Nat) (t0 : Float) (n1 : Nat) (t1 : Float) : Float :=
  let e := epsCut c s.W (variance s) n0 n1
  let d := absOf (windowDiff n0 t0 n1 t1)
  if e.isNaN || d.isNaN then 1.0 / 0.0
  else
    let m := (d - e).abs / (max 1.0 (max d.abs e.abs))
    if m.isNaN then 0.0 else m

/-- smallest margin over the admissible splits evaluated by one scan (same traversal as `scan`) -/
private def scanMargin (c : Cfg Float) (s : State Float) : Nat → Nat → Float → Float → List (Nat × Bucket Float) → Float
  | _, _, _, _, [] => 1.0 / 0.0
  | n0, n1, t0, t1, (i, b) :: rest =>
    let n0' := n0 + 2 ^ i
    let n1' := n1 - 2 ^ i
    let t0' := t0 + b.1
    let t1' := t1 - b.1
    if i = 0 ∧ rest.isEmpty then 1.0 / 0.0
    else if c.subThresh ≤ n0' ∧ c.subThresh ≤ n1' then
      let m := epsMargin c s n0' t0' n1' t1'
      if checkEps c s n0' t0' n1' t1' then m
      else min m (scanMargin c s n0' n1' t0' t1' rest)
    else scanMargin c s n0' n1' t0' t1' rest

private def loopMargin (c : Cfg Float) : Nat → State Float → Float
  | 0, _ => 1.0 / 0.0
  | fuel + 1, s =>
    let m := scanMargin c s 0 s.W 0.0 s.sum (flat s.rows)
    if hit c s then min m (loopMargin c fuel (cut s)) else m

/-- smallest decision margin of the update that leads from `s` (before) with input `x` -/
private def stepMargin (c : Cfg Float) (s : State Float) (x : Float) : Float :=
  let s0 := if s.drift ≠ .none then reset s else s
  let s1 := addSample c.maxBuckets { s0 with total := s0.total + 1, W := s0.W + 1 } x
  if scheduled c s1 then loopMargin c (flat s1.rows).length s1 else 1.0 / 0.0

private def adwinOut (m : Float) (s : State Float) : String :=
  s.drift.toStr ++ " " ++ s.recs.toStr ++ " " ++ toString s.total ++ " " ++ toString s.W ++ " "
    ++ showFloat (mean s) ++ " " ++ showFloat (variance s) ++ " " ++ showFloat m ++ " "
    ++ toString (flat s.rows).length

private def adwinStep (c : Cfg Float) (s : State Float) : List String → Option (String × State Float)
  | ["u", t] =>
    match parseFloat? t with
    | some x => let s' := Adwin.step c s x; some (adwinOut (stepMargin c s x) s', s')
    | none => none
  | ["reset"] => let s' := Adwin.reset s; some (adwinOut (1.0 / 0.0) s', s')      -- a manual `reset()` between updates
  | _ => none

/-- `y <y_true> <y_pred>`: labels as natural-number ids (the harness maps each encoding injectively) -/
private def adwinAccStep (c : Cfg Float) (s : State Float) : List String → Option (String × State Float)
  | ["y", a, b] =>
    match a.toNat?, b.toNat? with
    | some yt, some yp =>
      let s' := AdwinAcc.step c s (yt, yp)
      some (adwinOut (stepMargin c s (AdwinAcc.indicator yt yp)) s', s')
    | _, _ => none
  | ["reset"] => let s' := Adwin.reset s; some (adwinOut (1.0 / 0.0) s', s')
  | _ => none

private def parseCfg? : List String → Option (Cfg Float)
  | [d, m, n, w, k, cb] =>
    match parseFloat? d, m.toNat?, n.toNat?, w.toNat?, k.toNat?, parseBool? cb with
    | some d, some m, some n, some w, some k, some cb =>
      -- outside this domain the real constructor / first update raises
      if m ≥ 1 ∧ n ≥ 1 then
        some { delta := d, maxBuckets := m, newSampleThresh := n, windowThresh := w, subThresh := k, conservative := cb }
      else none
    | _, _, _, _, _, _ => none
  | _ => none

def mkAdwin : List String → Option Machine
  | "adwin" :: ps =>
    match parseCfg? ps with
    | some c => some { σ := State Float, s := Adwin.init, step := adwinStep c }
    | none => none
  | "adwinacc" :: ps =>
    match parseCfg? ps with
    | some c => some { σ := State Float, s := Adwin.init, step := adwinAccStep c }
    | none => none
  | _ => none

end MV.Driver
