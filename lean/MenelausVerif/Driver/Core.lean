/-
  Line-protocol plumbing shared by all component drivers.  Import-free.

  A `Machine` is an existentially packed state with a step function from the
  tokens of one input line to one output line.  `new <component> <params…>`
  selects a machine; every following line is handed to it.  A line that cannot
  be parsed yields `bad-op` and leaves the state unchanged (never a default).
-/
import MenelausVerif.Base.Drift
import MenelausVerif.Base.Arith
namespace MV.Driver

structure Machine where
  σ : Type
  s : σ
  step : σ → List String → Option (String × σ)

def Machine.feed (m : Machine) (toks : List String) : String × Machine :=
  match m.step m.s toks with
  | some (out, s') => (out, { m with s := s' })
  | none => ("bad-op", m)

/-- floats cross the protocol as the decimal value of their IEEE-754 bit pattern -/
def parseFloat? (t : String) : Option Float :=
  t.toNat?.map (fun n => Float.ofBits (UInt64.ofNat n))

def showFloat (f : Float) : String := toString f.toBits.toNat

def parseNats? (ts : List String) : Option (List Nat) := ts.mapM String.toNat?
def parseFloats? (ts : List String) : Option (List Float) := ts.mapM parseFloat?
def parseDrifts? (ts : List String) : Option (List Drift) := ts.mapM Drift.ofStr?

def parseBool? : String → Option Bool
  | "1" => some true | "0" => some false | _ => none

def showBool (b : Bool) : String := if b then "1" else "0"

def showNats (ns : List Nat) : String := " ".intercalate (ns.map toString)
def showFloats (fs : List Float) : String := " ".intercalate (fs.map showFloat)

/-- a stateless machine from a pure function on token lists -/
def pureMachine (f : List String → Option String) : Machine :=
  { σ := Unit, s := (), step := fun _ ts => (f ts).map (·, ()) }

end MV.Driver
