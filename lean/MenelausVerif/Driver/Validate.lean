/-
  Driver for Model/Validate.lean.

    new validate <stream|batch|uni|cdbd|hdm1|cdbd1|labels|acc>
    R <input>                       validation done by `set_reference` (batch kinds; hdm1 / cdbd1 = detect_batch 1)
    X <input>                       the kind's X validation (`_validate_X`, ADWIN-style wrapper, CDBD wrapper)
    Y <input>                       `_validate_y` of the base (stream / batch kinds; stateless)
    I <input|none> ; <input|none> ; <input|none>     `_validate_input(X, y_true, y_pred)`
    L <input> ; <input>             `_validate_input(None, y_true, y_pred)` of the label detectors

    <input> ::= sc v | li v* | ne r c v* | a1 v* | a2 r c v* | se v* | df <names|-> r v*
    (names comma-separated, `-` = no column; values are naturals — validation never looks at them)

  Output: `ok <arr>… | <cols> | <dim>` or `rej:<reason> | <cols> | <dim>`; `<arr>` = `<r>x<c>:<v,v,…>`.
-/
import MenelausVerif.Driver.Core
import MenelausVerif.Model.Validate
namespace MV.Driver
open MV MV.Validate

private inductive VKind where
  | base (m : Mode) | uni | cdbd | labels | hdm1 (guard : Bool) | acc

private def parseInput? : List String → Option (Input Nat)
  | ["sc", v] => v.toNat?.map Input.scalar
  | "li" :: vs => (parseNats? vs).map Input.list
  | "a1" :: vs => (parseNats? vs).map Input.ndarray1d
  | "se" :: vs => (parseNats? vs).map Input.series
  | "ne" :: r :: c :: vs =>
    match r.toNat?, c.toNat?, parseNats? vs with
    | some r, some c, some vs => some (Input.nested r c vs)
    | _, _, _ => none
  | "a2" :: r :: c :: vs =>
    match r.toNat?, c.toNat?, parseNats? vs with
    | some r, some c, some vs => some (Input.ndarray2d r c vs)
    | _, _, _ => none
  | "df" :: names :: r :: vs =>
    match r.toNat?, parseNats? vs with
    | some r, some vs => some (Input.dataframe (if names = "-" then [] else names.splitOn ",") r vs)
    | _, _ => none
  | _ => none

private def parseInputOpt? : List String → Option (Option (Input Nat))
  | ["none"] => some none
  | ts => (parseInput? ts).map some

/-- split a token list at the `;` tokens -/
private def splitSemi (ts : List String) : List (List String) :=
  ts.foldr (fun t acc =>
    if t = ";" then [] :: acc
    else match acc with
      | [] => [[t]]
      | a :: rest => (t :: a) :: rest) [[]]

private def showArr (a : Arr Nat) : String :=
  toString a.rows ++ "x" ++ toString a.cols ++ ":" ++
    (if a.vals.isEmpty then "-" else ",".intercalate (a.vals.map toString))

private def showArrOpt : Option (Arr Nat) → String
  | none => "none"
  | some a => showArr a

private def showVState (s : VState) : String :=
  (match s.cols with
    | none => "_"
    | some [] => "-"
    | some cs => ",".intercalate cs) ++ " | " ++
  (match s.dim with
    | none => "_"
    | some d => toString d)

private def showRes {β : Type} (sh : β → String) (r : VState × Except Reason β) : String × VState :=
  match r with
  | (s, .ok b) => ("ok " ++ sh b ++ " | " ++ showVState s, s)
  | (s, .error e) => ("rej:" ++ e.toStr ++ " | " ++ showVState s, s)

private def modeOf : VKind → Option Mode
  | .base m => some m
  | .labels => some .stream
  | .acc => some .stream
  | _ => none

private def validateStep (k : VKind) (s : VState) : List String → Option (String × VState)
  | "X" :: ts =>
    match parseInput? ts with
    | none => none
    | some x =>
      match k with
      | .base m => some (showRes showArr (validateX m s x))
      | .uni => some (showRes showArr (validateUni s x))
      | .cdbd => some (showRes showArr (validateCdbd s x))
      | .hdm1 g => some (showRes showArr (if g then validateCdbd s x else validateX .batch s x))
      | .labels => none
      | .acc => none
  | "R" :: ts =>       -- set_reference
    match parseInput? ts with
    | none => none
    | some x =>
      match k with
      | .base .batch => some (showRes showArr (validateX .batch s x))
      | .cdbd => some (showRes showArr (validateCdbd s x))
      | .hdm1 g => some (showRes showArr (validateHdmRef g s x))
      | _ => none
  | "Y" :: ts =>
    match modeOf k, parseInput? ts with
    | some m, some y =>
      match validateY m y with
      | .ok a => some ("ok " ++ showArr a, s)
      | .error e => some ("rej:" ++ e.toStr, s)
    | _, _ => none
  | "I" :: ts =>
    match modeOf k, (splitSemi ts).map parseInputOpt? with
    | some m, [some x, some yt, some yp] =>
      some (showRes (fun (v : Valid Nat) =>
        "X=" ++ showArrOpt v.x ++ " yt=" ++ showArrOpt v.yTrue ++ " yp=" ++ showArrOpt v.yPred)
        (validateInput m s { x := x, yTrue := yt, yPred := yp }))
    | _, _ => none
  | "L" :: ts =>
    match k, (splitSemi ts).map parseInput? with
    | .labels, [some yt, some yp] =>
      some (showRes (fun (p : Arr Nat × Arr Nat) => showArr p.1 ++ " " ++ showArr p.2)
        (validateLabels s (yt, yp)))
    | .acc, [some yt, some yp] =>
      some (showRes showArr (validateAccuracy (fun p => if p.1.vals == p.2.vals then 1 else 0) s (yt, yp)))
    | _, _ => none
  | _ => none

def mkValidate : List String → Option Machine
  | ["validate", kind] =>
    let k : Option VKind := match kind with
      | "stream" => some (.base .stream)
      | "batch" => some (.base .batch)
      | "uni" => some .uni
      | "cdbd" => some .cdbd
      | "labels" => some .labels
      | "acc" => some .acc
      | "hdm1" => some (.hdm1 false)
      | "cdbd1" => some (.hdm1 true)
      | _ => none
    match k with
    | some k => some { σ := VState, s := VState.init, step := validateStep k }
    | none => none
  | _ => none

end MV.Driver
