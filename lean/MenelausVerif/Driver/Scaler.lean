/-
  Line protocol of the StandardScaler model (Model/Scaler.lean) at `Float`.

    new scaler
    fit <rows> <cols> <bits…>     (row-major window)  →  `<mean bits…> | <var bits…> | <scale bits…>`
    tr <bits…>                    →  transformed row
    inv <bits…>                   →  inverse-transformed row
-/
import MenelausVerif.Driver.Core
import MenelausVerif.Model.Scaler
namespace MV.Driver
open MV MV.Scaler

private def columns (r c : Nat) (xs : List Float) : List (List Float) :=
  (List.range c).map fun j => (List.range r).map fun i => xs.getD (i * c + j) 0.0

private def scalerStep (f : Option (Fit Float)) : List String → Option (String × Option (Fit Float))
  | "fit" :: r :: c :: rest =>
    match r.toNat?, c.toNat?, parseFloats? rest with
    | some r, some c, some xs =>
      if xs.length ≠ r * c ∨ r = 0 then none else
      let ft := fit (columns r c xs)
      some (showFloats ft.mean ++ " | " ++ showFloats ft.var ++ " | " ++ showFloats ft.scale, some ft)
    | _, _, _ => none
  | "tr" :: rest =>
    match f, parseFloats? rest with
    | some ft, some xs => if xs.length ≠ ft.mean.length then none else some (showFloats (transformRow ft xs), f)
    | _, _ => none
  | "inv" :: rest =>
    match f, parseFloats? rest with
    | some ft, some xs => if xs.length ≠ ft.mean.length then none else some (showFloats (inverseRow ft xs), f)
    | _, _ => none
  | _ => none

def mkScaler : List String → Option Machine
  | ["scaler"] => some { σ := Option (Fit Float), s := none, step := scalerStep }
  | _ => none

end MV.Driver
