/-
  Driver for the sequential change detectors of C04: CUSUM and Page-Hinkley, run at `Float`.

    new cusum <target|_> <sd|_> <burnIn> <delta> <threshold> <B|P|N>
      u <x>   ->  <ok|V|O> <drift> <total> <since> <target|_> <sd|_> <sh> <sl>
    new ph <delta> <threshold> <burnIn> <P|N>
      u <x>   ->  <drift> <total> <since> <x> <sum> <diff> <theta> <check> <max> <min> <mean>
-/
import MenelausVerif.Driver.Core
import MenelausVerif.Model.Cusum
import MenelausVerif.Model.PageHinkley
namespace MV.Driver
open MV

private def parseOptFloat? (t : String) : Option (Option Float) :=
  if t = "_" then some Option.none else (parseFloat? t).map some

private def showOptFloat : Option Float → String
  | some f => showFloat f
  | Option.none => "_"

private def cusumDir? : String → Option Cusum.Dir
  | "B" => some .both | "P" => some .positive | "N" => some .negative | _ => Option.none

private def showOutcome : Cusum.Outcome → String
  | .ok => "ok" | .valueError => "V" | .otherError => "O"

private def cusumStep (c : Cusum.Cfg Float) (s : Cusum.State Float) :
    List String → Option (String × Cusum.State Float)
  | ["u", t] =>
    match parseFloat? t with
    | some x =>
      let (s', o) := Cusum.step c s x
      some (showOutcome o ++ " " ++ s'.drift.toStr ++ " " ++ toString s'.total ++ " " ++ toString s'.since
            ++ " " ++ showOptFloat s'.target ++ " " ++ showOptFloat s'.sd
            ++ " " ++ showFloat s'.sh ++ " " ++ showFloat s'.sl, s')
    | Option.none => Option.none
  | ["reset"] =>
    let s' := Cusum.reset s
    some ("ok " ++ s'.drift.toStr ++ " " ++ toString s'.total ++ " " ++ toString s'.since
          ++ " " ++ showOptFloat s'.target ++ " " ++ showOptFloat s'.sd
          ++ " " ++ showFloat s'.sh ++ " " ++ showFloat s'.sl, s')
  | _ => Option.none

private def phDir? : String → Option PH.Dir
  | "P" => some .positive | "N" => some .negative | _ => Option.none

private def phStep (c : PH.Cfg Float) (s : PH.State Float) : List String → Option (String × PH.State Float)
  | ["u", t] =>
    match parseFloat? t with
    | some x =>
      let (s', r) := PH.step c s x
      some (s'.drift.toStr ++ " " ++ toString s'.total ++ " " ++ toString s'.since ++ " "
            ++ showFloat r.x ++ " " ++ showFloat r.sum ++ " " ++ showFloat r.diff ++ " "
            ++ showFloat r.theta ++ " " ++ showBool r.check ++ " " ++ showFloat r.mx ++ " "
            ++ showFloat r.mn ++ " " ++ showFloat r.mean, s')
    | Option.none => Option.none
  | ["reset"] =>
    let s' := PH.reset s
    some (s'.drift.toStr ++ " " ++ toString s'.total ++ " " ++ toString s'.since, s')
  | _ => Option.none

def mkSequential : List String → Option Machine
  | ["cusum", t, sd, b, d, thr, dir] =>
    match parseOptFloat? t, parseOptFloat? sd, b.toNat?, parseFloat? d, parseFloat? thr, cusumDir? dir with
    | some t, some sd, some b, some d, some thr, some dir =>
      let c : Cusum.Cfg Float :=
        { target0 := t, sd0 := sd, burnIn := b, delta := d, threshold := thr, dir := dir }
      some { σ := Cusum.State Float, s := Cusum.init c, step := cusumStep c }
    | _, _, _, _, _, _ => Option.none
  | ["ph", d, thr, b, dir] =>
    match parseFloat? d, parseFloat? thr, b.toNat?, phDir? dir with
    | some d, some thr, some b, some dir =>
      let c : PH.Cfg Float := { delta := d, threshold := thr, burnIn := b, dir := dir }
      some { σ := PH.State Float, s := PH.init, step := phStep c }
    | _, _, _, _ => Option.none
  | _ => Option.none

end MV.Driver
