/-
  Line protocol for the kdq-tree partitioner model (C08).

    new kdq <count_ubound> <cplb bits>
    build <n> <m> <n*m bit patterns, row major>      -> tree | RECURSION | VALUEERROR (n = 0 < m)
    fill <id> <reset 0/1> <n> <m> <bits…>            -> tree | NONE
    reset <value> <id>                               -> tree
    leafcounts <id>                                  -> NONE | KEYERR | c c c …
    kl <id1> <id2>                                   -> NONE | KEYERR | <bits>
    plotly <id1> <id2|_> <maxdepth|_>                -> KEYERR | ATTRERR | ROWS idx:parent:cell:depth:diff:axis:side:kss …
    shape                                            -> <nodes> <leaves> <noNilBelow 0/1>

  tree = pre-order token list: `_` (None) | `L <counts>` | `N <axis> <mid bits> <counts> <left> <right>`,
  counts = `id=count,…` sorted by id.
-/
import MenelausVerif.Driver.Core
import MenelausVerif.Model.KdqTree
namespace MV.Driver
open MV MV.Kdq

private def insertKV (kv : Nat × Nat) : List (Nat × Nat) → List (Nat × Nat)
  | [] => [kv]
  | x :: xs => if kv.1 < x.1 then kv :: x :: xs else x :: insertKV kv xs

private def showCounts (c : Counts) : String :=
  let s := c.foldl (fun acc kv => insertKV kv acc) []
  if s.isEmpty then "-" else ",".intercalate (s.map (fun kv => toString kv.1 ++ "=" ++ toString kv.2))

private def showTree : Tree Float → List String
  | .nil => ["_"]
  | .leaf c => ["L", showCounts c]
  | .node a mid c l r => ["N", toString a, showFloat mid, showCounts c] ++ showTree l ++ showTree r

private def treeStr (t : Tree Float) : String := " ".intercalate (showTree t)

private def chunk (m : Nat) : Nat → List Float → List (List Float)
  | 0, _ => []
  | n + 1, xs => xs.take m :: chunk m n (xs.drop m)

/-- `<n> <m> <bits…>` -/
def parseData? : List String → Option (Nat × List (List Float))
  | n :: m :: bits =>
    match n.toNat?, m.toNat?, parseFloats? bits with
    | some n, some m, some xs => if xs.length = n * m then some (m, chunk m n xs) else none
    | _, _, _ => none
  | _ => none

private structure KdqState where
  cfg : Cfg Float
  tree : Tree Float

private def optNat? (s : String) : Option (Option Nat) :=
  if s = "_" then some none else s.toNat?.map some

private def showRow (rk : Row × Option Float) : String :=
  let r := rk.1
  let p := match r.parent with | some p => toString p | none => "_"
  let d := match r.diff with | some d => toString d | none => "_"
  let (ax, side) := match r.via with
    | some (a, s) => (toString a, if s then ">" else "<=")
    | none => ("_", "_")
  let k := match rk.2 with | some k => showFloat k | none => "_"
  ":".intercalate [toString r.idx, p, toString r.cell, toString r.depth, d, ax, side, k]

private def kdqStep (s : KdqState) : List String → Option (String × KdqState)
  | "build" :: rest =>
    match parseData? rest with
    | some (m, data) =>
      -- numpy raises ValueError from `np.ptp` on a column with zero rows
      if data.length = 0 ∧ m > 0 then some ("VALUEERROR", s) else
      match build s.cfg m data with
      | some t => some (treeStr t, { s with tree := t })
      | none => some ("RECURSION", s)
    | none => none
  | "fill" :: id :: rs :: rest =>
    match id.toNat?, parseBool? rs, parseData? rest with
    | some id, some rs, some (_, data) =>
      match s.tree with
      | .nil => some ("NONE", s)
      | t => let t' := fill id rs data t; some (treeStr t', { s with tree := t' })
    | _, _, _ => none
  | ["reset", v, id] =>
    match v.toNat?, id.toNat? with
    | some v, some id => let t' := resetCounts id v s.tree; some (treeStr t', { s with tree := t' })
    | _, _ => none
  | ["leafcounts", id] =>
    match id.toNat? with
    | some id =>
      match leafCounts? s.tree id with
      | .none => some ("NONE", s)
      | .keyError => some ("KEYERR", s)
      | .ok cs => some ("C " ++ showNats cs, s)
    | none => none
  | ["kl", a, b] =>
    match a.toNat?, b.toNat? with
    | some a, some b =>
      match (klDistance? s.tree a b : Res Float) with
      | .none => some ("NONE", s)
      | .keyError => some ("KEYERR", s)
      | .ok v => some (showFloat v, s)
    | _, _ => none
  | ["plotly", a, b, d] =>
    match a.toNat?, optNat? b, optNat? d with
    | some a, some b, some d =>
      match (plotly s.tree a b d : Except PlotlyExc (List (Row × Option Float))) with
      | .error .keyError => some ("KEYERR", s)
      | .error .attributeError => some ("ATTRERR", s)
      | .ok rows => some (" ".intercalate ("ROWS" :: rows.map showRow), s)
    | _, _, _ => none
  | ["shape"] =>
    some (s!"{s.tree.numNodes} {s.tree.numLeaves} {showBool s.tree.noNilBelow}", s)
  | _ => none

def mkKdqTree : List String → Option Machine
  | ["kdq", ub, cplb] =>
    match ub.toNat?, parseFloat? cplb with
    | some ub, some cplb =>
      some { σ := KdqState, s := { cfg := { countUbound := ub, cplb := cplb }, tree := .nil }, step := kdqStep }
    | _, _ => none
  | _ => none

end MV.Driver
