import MenelausVerif.Driver.Core
import MenelausVerif.Model.Election
namespace MV.Driver
open MV MV.Election

private def voteOf (f : List Drift → Drift) : List String → Option String
  | "vote" :: ts => (parseDrifts? ts).map (fun vs => (f vs).toStr)
  | _ => none

private def confirmedStep (e : Confirmed) : List String → Option (String × Confirmed)
  | "vote" :: ts => do
    let vs ← parseDrifts? ts
    let (v, e') := e.call vs
    let cs := match e'.ctrs with
      | some cs => showNats cs
      | Option.none => "_"
    pure (v.toStr ++ " | " ++ cs, e')
  | "set" :: ts => do
    let cs ← parseNats? ts
    pure ("ok", { e with ctrs := some cs })
  | _ => none

def mkElection : List String → Option Machine
  | ["el.majority"] => some (pureMachine (voteOf simpleMajority))
  | ["el.min", a] =>
    match a.toNat? with
    | some a => some (pureMachine (voteOf (minApproval a)))
    | _ => none
  | ["el.ordered", a, c] =>
    match a.toNat?, c.toNat? with
    | some a, some c => some (pureMachine (voteOf (ordered a c)))
    | _, _ => none
  | ["el.confirmed", s, w] =>
    match s.toNat?, w.toNat? with
    | some s, some w => some { σ := Confirmed, s := { sens := s, wait := w }, step := confirmedStep }
    | _, _ => none
  | _ => none

end MV.Driver
