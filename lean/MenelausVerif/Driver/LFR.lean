/-
  Driver for Model/LFR.lean.

    new lfr <eta> <warn> <detect> <burn_in> <num_mc> <subsample> <round_val> <rates>
        eta/warn/detect as float bit patterns, <rates> = comma separated names in
        the order of `rates_tracked`, e.g. `tpr,ppv`
    u <y_true> <y_pred> <block>*
        one block per simulation the implementation ran during this update, each
        block = the `num_mc` captured binomial vectors as bit strings joined by `,`
        →  <state> <recs> <total> <since> <#all_drift_states> <sims run> <blocks given>
           <shape ok> <min margin bits> | <est bits>:<denom> …   (one per simulation run)
           | <R bits of tpr tnr ppv npv>   (`_r_stat` at the current index)
    states   → all_drift_states as a string over N/W/D
    push / pop → save / restore the detector state (prefix sharing for exhaustive runs)
-/
import MenelausVerif.Driver.Core
import MenelausVerif.Model.LFR
namespace MV.Driver
open MV MV.LFR

private def parseRate? : String → Option Rate
  | "tpr" => some .tpr | "tnr" => some .tnr | "ppv" => some .ppv | "npv" => some .npv | _ => none

private def parseBits? (t : String) : Option (List Bool) :=
  t.toList.mapM (fun ch => if ch = '1' then some true else if ch = '0' then some false else none)

private def parseBlock? (t : String) : Option Block := (t.splitOn ",").mapM parseBits?

private structure LfrM where
  cfg : Cfg Float
  s : State Float
  stack : List (State Float)

private def fabs (x : Float) : Float := if x < 0 then -x else x
private def fmax (a b : Float) : Float := if a < b then b else a
private def fmin (a b : Float) : Float := if b < a then b else a

private def marginOf (x y : Float) : Float := fabs (x - y) / fmax 1 (fmax (fabs x) (fabs y))

private def minMargin (log : List (Rate × Float × Bounds Float)) : Float :=
  log.foldl (fun m (_, r, b) =>
    fmin m (fmin (fmin (marginOf r b.lbWarn) (marginOf r b.ubWarn))
                 (fmin (marginOf r b.lbDetect) (marginOf r b.ubDetect)))) (1.0 / 0.0)

private def lfrStep (m : LfrM) : List String → Option (String × LfrM)
  | "u" :: yt :: yp :: bs => do
    let yt ← parseBool? yt
    let yp ← parseBool? yp
    let blocks ← bs.mapM parseBlock?
    let a := stepAcc m.cfg m.s yt yp blocks
    let s' := step m.cfg m.s yt yp blocks
    let shapeOk := a.sims.all (fun r => r.supplied && r.block.length == m.cfg.numMc
                                        && r.block.all (fun v => v.length == r.denom))
    let sims := " ".intercalate (a.sims.map (fun r => showFloat r.est ++ ":" ++ toString r.denom))
    let out := s'.drift.toStr ++ " " ++ s'.recs.toStr ++ " " ++ toString s'.total ++ " " ++
      toString s'.since ++ " " ++ toString s'.states.length ++ " " ++ toString a.sims.length ++ " " ++
      toString blocks.length ++ " " ++ showBool shapeOk ++ " " ++ showFloat (minMargin a.log) ++ " | " ++ sims ++
      " | " ++ showFloats (allRates.map s'.r)
    pure (out, { m with s := s' })
  | ["states"] => some (String.join (m.s.states.map Drift.toStr), m)
  | ["push"] => some ("ok", { m with stack := m.s :: m.stack })
  | ["pop"] =>
    match m.stack with
    | s :: rest => some ("ok", { m with s := s, stack := rest })
    | [] => none
  | _ => none

def mkLFR : List String → Option Machine
  | ["lfr", eta, warn, det, burn, nmc, sub, rv, rates] =>
    match parseFloat? eta, parseFloat? warn, parseFloat? det, burn.toNat?, nmc.toNat?, sub.toNat?,
          rv.toNat?, (rates.splitOn ",").mapM parseRate? with
    | some eta, some warn, some det, some burn, some nmc, some sub, some rv, some rates =>
      if sub = 0 ∨ nmc = 0 then none else
      some { σ := LfrM,
             s := { cfg := { eta := eta, warnLevel := warn, detectLevel := det, burnIn := burn,
                             numMc := nmc, subsample := sub, tracked := rates, roundVal := rv },
                    s := LFR.init, stack := [] },
             step := lfrStep }
    | _, _, _, _, _, _, _, _ => none
  | _ => none

end MV.Driver
