/-
  Line protocol for the kdq-tree detectors (C09).

    new kdqs <window> <persistence bits> <alpha bits> <count_ubound> <cplb bits>
    u <m> <m bit patterns> | <nb> <len> <nb*len leaf indices>
        -> <drift> <total> <since> <counter> <event> <test_dist bits|_> <critical bits|_> | <build leaf counts> | <test leaf counts>
           (event: building | built | waiting | eval1 | eval0)       or RECURSION
    new kdqb <alpha bits> <count_ubound> <cplb bits>
    u <n> <m> <bits…> | <nb> <len> <indices>      (draws used only when a reference is (re)built in this call)
    setref <n> <m> <bits…> | <nb> <len> <indices>
        -> <drift> <total> <since> <exceeds 1/0/_> <test_dist bits|_> <critical bits|_> | <build leaf counts> | <test leaf counts>
-/
import MenelausVerif.Driver.Core
import MenelausVerif.Driver.KdqTree
import MenelausVerif.Model.KdqDetect
namespace MV.Driver
open MV MV.Kdq MV.KdqDet

private def splitBar (ts : List String) : List String × List String :=
  (ts.takeWhile (· ≠ "|"), (ts.dropWhile (· ≠ "|")).drop 1)

private def chunkNat (len : Nat) : Nat → List Nat → List (List Nat)
  | 0, _ => []
  | n + 1, xs => xs.take len :: chunkNat len n (xs.drop len)

/-- `<nb> <len> <indices…>` -/
private def parseDraws? : List String → Option (List (List Nat))
  | nb :: len :: rest =>
    match nb.toNat?, len.toNat?, parseNats? rest with
    | some nb, some len, some xs => if xs.length = nb * len then some (chunkNat len nb xs) else none
    | _, _, _ => none
  | _ => none

private def optF (o : Option Float) : String := match o with | some x => showFloat x | none => "_"

private def leafPart (t : Option (Tree Float)) : String :=
  match t with
  | some t => showNats (leafCountsD t 0) ++ " | " ++ showNats (leafCountsD t testId)
  | none => "_ | _"

private def evStr : Ev → String
  | .building => "building" | .built => "built" | .waiting => "waiting"
  | .eval true => "eval1" | .eval false => "eval0"

private def kdqsStep (cs : SCfg Float × SState Float) : List String → Option (String × (SCfg Float × SState Float))
  | "u" :: rest =>
    let (a, b) := splitBar rest
    match a with
    | m :: bits =>
      match m.toNat?, parseFloats? bits, parseDraws? b with
      | some m, some x, some draws =>
        if x.length ≠ m then none else
        match sStep cs.1 cs.2 x draws with
        | none => some ("RECURSION", cs)
        | some (s, ev) =>
          some (s!"{s.drift.toStr} {s.total} {s.since} {s.counter} {evStr ev} {optF s.testDist} {optF s.critical} | {leafPart s.tree}",
                (cs.1, s))
      | _, _, _ => none
    | _ => none
  | _ => none

private def showBState (s : BState Float) (ex : Option Bool) : String :=
  let e := match ex with | some true => "1" | some false => "0" | none => "_"
  s!"{s.drift.toStr} {s.total} {s.since} {e} {optF s.testDist} {optF s.critical} | {leafPart s.tree}"

private def kdqbStep (cs : BCfg Float × BState Float) : List String → Option (String × (BCfg Float × BState Float))
  | "u" :: rest =>
    let (a, b) := splitBar rest
    match parseData? a, parseDraws? b with
    | some (m, X), some draws =>
      match bStep cs.1 cs.2 m X draws with
      | none => some ("RECURSION", cs)
      | some (s, ex) => some (showBState s ex, (cs.1, s))
    | _, _ => none
  | "setref" :: rest =>
    let (a, b) := splitBar rest
    match parseData? a, parseDraws? b with
    | some (m, X), some draws =>
      match bSetRef cs.1 cs.2 m X draws with
      | none => some ("RECURSION", cs)
      | some s => some (showBState s none, (cs.1, s))
    | _, _ => none
  | _ => none

def mkKdqDetect : List String → Option Machine
  | ["kdqs", w, p, a, ub, cplb] =>
    match w.toNat?, parseFloat? p, parseFloat? a, ub.toNat?, parseFloat? cplb with
    | some w, some p, some a, some ub, some cplb =>
      some { σ := SCfg Float × SState Float,
             s := ({ window := w, persistence := p, alpha := a, part := { countUbound := ub, cplb := cplb } }, sInit),
             step := kdqsStep }
    | _, _, _, _, _ => none
  | ["kdqb", a, ub, cplb] =>
    match parseFloat? a, ub.toNat?, parseFloat? cplb with
    | some a, some ub, some cplb =>
      some { σ := BCfg Float × BState Float,
             s := ({ alpha := a, part := { countUbound := ub, cplb := cplb } }, bInit),
             step := kdqbStep }
    | _, _, _ => none
  | _ => none

end MV.Driver
