/-
  Drivers for the error-sequence detectors DDM, EDDM, STEPD (Float instance).

    new ddm   <n_threshold> <warning_scale bits> <drift_scale bits>
    new eddm  <n_threshold> <warning_thresh bits> <drift_thresh bits>
    new stepd <window_size> <z_warning bits> <z_drift bits>
    u <0|1>            1 = the prediction was wrong

  Output of `u`:  `<state> <recs> <total> <since> <margin bits> <stat bits>`  (+ for stepd the
  bits of recent / past / overall accuracy).  `margin` is the smallest relative gap
  `|l - r| / max(1,|l|,|r|)` over the float comparisons evaluated in this update
  (1 when none was evaluated; for stepd only the comparison of the two accuracies —
  the harness derives the gap of the p-value test from `stat`); `stat` is the test
  statistic of this update (eddm: the ratio, stepd: z, ddm: rate + std; NaN when no
  test ran).  Both are computed here, outside the model.
-/
import MenelausVerif.Driver.Core
import MenelausVerif.Model.DDM
import MenelausVerif.Model.EDDM
import MenelausVerif.Model.STEPD
namespace MV.Driver
open MV

private def relGap (a b : Float) : Float :=
  if a == b then 0.0
  else
    let g := (a - b).abs / (max 1.0 (max a.abs b.abs))
    if g.isNaN then 1.0 else g

private def minGap (gs : List Float) : Float := gs.foldl (fun m g => if g < m then g else m) 1.0

private def obsLine (st : Drift) (recs : Recs) (total since : Nat) (margin stat : Float) : String :=
  st.toStr ++ " " ++ recs.toStr ++ " " ++ toString total ++ " " ++ toString since ++ " " ++ showFloat margin
    ++ " " ++ showFloat stat

private def nan : Float := 0.0 / 0.0

/-! ### DDM -/

private def ddmMargin (c : DDM.Cfg Float) (s0 s1 : DDM.State Float) : Float :=
  if s1.since < c.nThreshold then 1.0
  else
    let l := s1.rate + s1.std
    let g0 := match s0.mins with
      | some (pm, sm) => [relGap l (pm + sm)]
      | none => []
    let g1 := match s1.mins with
      | some (pm, _) => [relGap l (pm + c.driftScale * s1.std), relGap l (pm + c.warningScale * s1.std)]
      | none => []
    minGap (g0 ++ g1)

private def ddmStep (c : DDM.Cfg Float) (s : DDM.State Float) : List String → Option (String × DDM.State Float)
  | ["u", b] =>
    match parseBool? b with
    | some e =>
      let s0 := if s.drift = .drift then DDM.reset s else s
      let s1 := DDM.step c s e
      some (obsLine s1.drift s1.recs s1.total s1.since (ddmMargin c s0 s1)
              (if s1.since < c.nThreshold then nan else s1.rate + s1.std), s1)
    | none => none
  | _ => none

/-! ### EDDM -/

private def eddmMargin (c : EDDM.Cfg Float) (s0 s1 : EDDM.State Float) (err : Bool) : Float :=
  if !err || s1.nErrors < c.nThreshold then 1.0
  else
    let cur := EDDM.numerator s1.distMean s1.distStd
    let ts := cur / s1.maxNum
    minGap [relGap s0.maxNum cur, relGap ts c.driftThresh, relGap ts c.warningThresh]

private def eddmStep (c : EDDM.Cfg Float) (s : EDDM.State Float) : List String → Option (String × EDDM.State Float)
  | ["u", b] =>
    match parseBool? b with
    | some e =>
      let s0 := if s.drift = .drift then EDDM.reset s else s
      let s1 := EDDM.step c s e
      some (obsLine s1.drift s1.recs s1.total s1.since (eddmMargin c s0 s1 e)
              (if !e || s1.nErrors < c.nThreshold then nan
               else EDDM.numerator s1.distMean s1.distStd / s1.maxNum), s1)
    | none => none
  | _ => none

/-! ### STEPD -/

private def stepdMargin (c : STEPD.Cfg Float) (s1 : STEPD.State) : Float :=
  if s1.since < 2 * c.window then 1.0
  else
    relGap (STEPD.recentAcc s1 : Float) (STEPD.pastAcc s1)

private def stepdStep (c : STEPD.Cfg Float) (s : STEPD.State) : List String → Option (String × STEPD.State)
  | ["u", b] =>
    match parseBool? b with
    | some e =>
      let s1 := STEPD.step c s e
      some (obsLine s1.drift s1.recs s1.total s1.since (stepdMargin c s1)
                (if s1.since < 2 * c.window then nan else STEPD.statistic c.window s1) ++ " "
              ++ showFloats [STEPD.recentAcc s1, STEPD.pastAcc s1, STEPD.overallAcc s1], s1)
    | none => none
  | _ => none

def mkErrDetectors : List String → Option Machine
  | ["ddm", n, w, d] =>
    match n.toNat?, parseFloat? w, parseFloat? d with
    | some n, some w, some d =>
      some { σ := DDM.State Float, s := DDM.init,
             step := ddmStep { nThreshold := n, warningScale := w, driftScale := d } }
    | _, _, _ => none
  | ["eddm", n, w, d] =>
    match n.toNat?, parseFloat? w, parseFloat? d with
    | some n, some w, some d =>
      some { σ := EDDM.State Float, s := EDDM.init,
             step := eddmStep { nThreshold := n, warningThresh := w, driftThresh := d } }
    | _, _, _ => none
  | ["stepd", n, w, d] =>
    match n.toNat?, parseFloat? w, parseFloat? d with
    | some n, some w, some d =>
      if n = 0 then none
      else some { σ := STEPD.State, s := STEPD.init,
                  step := stepdStep { window := n, zWarn := w, zDrift := d } }
    | _, _, _ => none
  | _ => none

end MV.Driver
