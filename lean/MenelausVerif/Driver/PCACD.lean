/-
  Line protocol for the PCACD model (Model/PCACD.lean) at `Float`.

    new pcacd <window_size> <sample_period bits> <delta bits> <i|k> <online_scaling 0|1>
    cfg                       -> `<step> <ph_threshold> <bins>`
    u                         one update that needs no oracle value
    b <k> <ref scores: k*w bits, component-major> <test scores: k*w bits>     (metric i)
    b <k>                                                                      (metric k)
    p <k bits>                sliding update, projection of the new sample     (metric i)
    j <k bits>                scheduled sliding update, per-component JS value (metric k)

  Samples are identified by their 1-based position in the stream (`X = Nat`).
  An operation whose tag is not the one `need` asks for, or whose sizes are
  inconsistent with `window_size` / `num_pcs`, is rejected (`bad-op`).
  Every update prints
    <drift> <since> <total> <num_pcs|_> <len(_change_score)> <last score bits>
    <PH margin bits|_> <need of the NEXT update> <ref first> <ref len> <test first> <test len>
-/
import MenelausVerif.Driver.Core
import MenelausVerif.Model.PCACD
namespace MV.Driver
open MV MV.PCACD

private structure PcaM where
  c : Cfg Float
  s : State Nat Float

private def chunks (n : Nat) : Nat → List Float → List (List Float)
  | 0, _ => []
  | k + 1, l => l.take n :: chunks n k (l.drop n)

private def needStr : Need → String
  | .none => "u" | .build => "b" | .proj => "p" | .js => "j"

private def fabs (x : Float) : Float := if x < 0 then -x else x

private def pcaOut (m : PcaM) (row : Option (PH.Row Float)) : String :=
  let s := m.s
  let margin := match row with
    | some r =>
      let a := fabs r.diff
      let b := fabs r.theta
      let d := if a < b then b else a
      let d := if d < 1 then 1 else d
      showFloat (fabs (r.diff - r.theta) / d)
    | none => "_"
  let np := match s.numPcs with | some k => toString k | none => "_"
  " ".intercalate
    [s.drift.toStr, toString s.since, toString s.total, np, toString s.scores.length,
     showFloat (s.scores.getLastD 0), margin, needStr (need m.c s),
     toString (s.ref.headD 0), toString s.ref.length, toString (s.test.headD 0), toString s.test.length]

private def pcaApply (m : PcaM) (o : Oracle Float) : Option (String × PcaM) :=
  let row := phRow m.c m.s o
  let s' := step m.c m.s (m.s.total + 1) o
  let m' := { m with s := s' }
  some (pcaOut m' row, m')

private def pcaStep (m : PcaM) : List String → Option (String × PcaM)
  | ["cfg"] =>
    some (s!"{m.c.step} {showFloat m.c.ph.threshold} {m.c.bins}", m)
  | ["u"] =>
    if need m.c m.s = .none then pcaApply m {} else none
  | "b" :: k :: ts =>
    if need m.c m.s ≠ .build then none else
    match k.toNat?, parseFloats? ts with
    | some k, some fs =>
      match m.c.metric with
      | .kl => if fs.isEmpty then pcaApply m { numPcs := k } else none
      | .intersection =>
        if fs.length ≠ 2 * k * m.c.w then none else
        let r := chunks m.c.w k fs
        let t := chunks m.c.w k (fs.drop (k * m.c.w))
        pcaApply m { numPcs := k, refProj := r, testProj := t }
    | _, _ => none
  | "p" :: ts =>
    if need m.c m.s ≠ .proj then none else
    match parseFloats? ts with
    | some fs => if some fs.length = m.s.numPcs then pcaApply m { proj := fs } else none
    | none => none
  | "j" :: ts =>
    if need m.c m.s ≠ .js then none else
    match parseFloats? ts with
    | some fs => if some fs.length = m.s.numPcs then pcaApply m { js := fs } else none
    | none => none
  | _ => none

def mkPCACD : List String → Option Machine
  | ["pcacd", w, sp, delta, metric, sc] =>
    match w.toNat?, parseFloat? sp, parseFloat? delta, parseBool? sc with
    | some w, some sp, some delta, some sc =>
      let mt : Option Metric := match metric with
        | "i" => some .intersection | "k" => some .kl | _ => none
      match mt with
      | some mt =>
        match mkCfg w sp delta mt sc with
        | some c => some { σ := PcaM, s := { c := c, s := PCACD.init }, step := pcaStep }
        | none => none
      | none => none
    | _, _, _, _ => none
  | _ => none

end MV.Driver
