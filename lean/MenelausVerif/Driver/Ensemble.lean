/-
  Driver for Model/Ensemble.lean.  The abstract members are instantiated by
  *scripted* machines: member i's state is a position in the list of observations
  (drift_state, retraining_recs or "no such attribute") that an independently run
  twin of the real member showed after each call made on it; every call that
  reaches the member (update / reset / set_reference) moves it one position on,
  and the call "raises" when the twin's call raised (observation prefixed `!`).
  The ensemble model (member loop with abandonment, election call, own counters,
  views) is run unchanged on top of them.

    new ensemble <election> members <n> { <name> <len> <obs>*len }*n
        <election> ::= majority | min <a> | ordered <a> <c> | confirmed <sens> <wait>
        <obs>      ::= [!]<N|W|D>:-  |  [!]<N|W|D>:<a|_>,<b|_>
    show | u | reset | setref
        -> [! ]<verdict> | <total> <since> | name=<state> … | name=<recs> … | <confirmed counters or ->
           (`! ` = the call did not return normally)
-/
import MenelausVerif.Driver.Core
import MenelausVerif.Model.Ensemble
namespace MV.Driver
open MV MV.Election MV.Ensemble

private abbrev Obs := Drift × Option Recs

private def parseOptNat? : String → Option (Option Nat)
  | "_" => some Option.none
  | t => t.toNat?.map some

private def parseObs? (t : String) : Option Obs :=
  match t.splitOn ":" with
  | [d, r] =>
    match Drift.ofStr? d with
    | some d =>
      if r = "-" then some (d, Option.none)
      else match r.splitOn "," with
        | [a, b] =>
          match parseOptNat? a, parseOptNat? b with
          | some a, some b => some (d, some (a, b))
          | _, _ => Option.none
        | _ => Option.none
    | Option.none => Option.none
  | _ => Option.none

/-- script entry: did the call that led here raise, and what the twin showed afterwards -/
private abbrev Entry := Bool × Obs

private def parseEntry? (t : String) : Option Entry :=
  if t.startsWith "!" then (parseObs? (t.drop 1).toString).map (true, ·)
  else (parseObs? t).map (false, ·)

private def noEntry : Entry := (false, Drift.none, Option.none)

/-- a member that replays what its independently run twin did and showed -/
private def scripted (name : String) (script : Array Entry) : Member Unit Unit :=
  { name := name, σ := Nat, Xi := Unit, sel := fun _ => (),
    step := fun k _ _ => (k + 1, !(script.getD (k + 1) noEntry).1),
    setRef := fun k _ _ => (k + 1, !(script.getD (k + 1) noEntry).1),
    reset := fun k => k + 1,
    drift := fun k => (script.getD k noEntry).2.1,
    recs := fun k => (script.getD k noEntry).2.2 }

private def parseMembers : Nat → List String → Option (List (String × Array Entry))
  | 0, [] => some []
  | 0, _ => Option.none
  | n + 1, name :: len :: rest =>
    match len.toNat? with
    | some l =>
      if rest.length < l then Option.none
      else match (rest.take l).mapM parseEntry? with
        | some obs => (parseMembers n (rest.drop l)).map ((name, obs.toArray) :: ·)
        | Option.none => Option.none
    | Option.none => Option.none
  | _, _ => Option.none

private def parseElec? : List String → Option Elec
  | ["majority"] => some .majority
  | ["min", a] => a.toNat?.map .minApproval
  | ["ordered", a, c] =>
    match a.toNat?, c.toNat? with
    | some a, some c => some (.ordered a c)
    | _, _ => Option.none
  | ["confirmed", s, w] =>
    match s.toNat?, w.toNat? with
    | some s, some w => some (.confirmed { sens := s, wait := w })
    | _, _ => Option.none
  | _ => Option.none

private def zeros : (specs : List (String × Array Entry)) → States (specs.map fun p => scripted p.1 p.2)
  | [] => ()
  | _ :: ps => ((0 : Nat), zeros ps)

/-- every member's position is inside its script (the driver never reads a default) -/
private def inScript : (specs : List (String × Array Entry)) → States (specs.map fun p => scripted p.1 p.2) → Bool
  | [], _ => true
  | p :: ps, st => let k : Nat := st.1; decide (k < p.2.size) && inScript ps st.2

private def showElec : Elec → String
  | .confirmed e => match e.ctrs with
    | some cs => if cs.isEmpty then "." else showNats cs
    | Option.none => "_"
  | _ => "-"

private def showEns {ms : List (Member Unit Unit)} (s : State ms) : String :=
  let ds := (driftStates ms s.mem).map (fun p => p.1 ++ "=" ++ p.2.toStr)
  let rs := (retrainingRecs ms s.mem).map (fun p => p.1 ++ "=" ++ Recs.toStr p.2)
  s.drift.toStr ++ " | " ++ toString s.total ++ " " ++ toString s.since ++ " | " ++
    " ".intercalate ds ++ " | " ++ " ".intercalate rs ++ " | " ++ showElec s.elec

private def ensStep (specs : List (String × Array Entry)) (st : State (specs.map fun p => scripted p.1 p.2)) :
    List String → Option (String × State (specs.map fun p => scripted p.1 p.2))
  | ["show"] => some (showEns st, st)
  | [op] =>
    let o : Option (Op Unit Unit) := match op with
      | "u" => some (.update () ())
      | "reset" => some .reset
      | "setref" => some (.setRef () ())
      | _ => Option.none
    match o with
    | some o =>
      let st' := st.apply o
      if inScript specs st'.mem then
        some ((if st.completes o then "" else "! ") ++ showEns st', st')
      else Option.none
    | Option.none => Option.none
  | _ => Option.none

private def splitAtTok (t : String) : List String → Option (List String × List String)
  | [] => Option.none
  | x :: xs => if x = t then some ([], xs) else (splitAtTok t xs).map (fun p => (x :: p.1, p.2))

def mkEnsemble : List String → Option Machine
  | "ensemble" :: rest =>
    match splitAtTok "members" rest with
    | some (el, n :: mtoks) =>
      match parseElec? el, n.toNat? with
      | some e, some n =>
        match parseMembers n mtoks with
        | some specs =>
          if specs.all (fun p => p.2.size ≥ 1 ∧ !(p.2.getD 0 noEntry).1) then
            some { σ := State (specs.map fun p => scripted p.1 p.2),
                   s := init _ (zeros specs) e, step := ensStep specs }
          else Option.none
        | Option.none => Option.none
      | _, _ => Option.none
    | _ => Option.none
  | _ => Option.none

end MV.Driver
