import MenelausVerif.Driver.Core
import MenelausVerif.Model.Lifecycle
namespace MV.Driver
open MV MV.Lifecycle

private def parseKind? : String → Option Kind
  | "adwin" => some .adwin | "burnin" => some .burnin | "ddm" => some .ddm | "eddm" => some .eddm
  | "stepd" => some .stepd | "lfr" => some .lfr | "md3" => some .md3 | "kdqS" => some .kdqS
  | "batch1" => some .batch1 | "hdm" => some .hdm | "pcacd" => some .pcacd | _ => none

private def lcOptNat? (t : String) : Option (Option Nat) :=
  if t = "_" then some Option.none else t.toNat?.map some

private def parseRecs? (t : String) : Option Recs :=
  match t.splitOn "," with
  | [a, b] => do
    let a ← lcOptNat? a
    let b ← lcOptNat? b
    pure (a, b)
  | _ => Option.none

/-- `o <drift> <total> <since> <recs> <err> <refDone>` → `ok` | `viol <clause>` -/
private def lifecycleStep (c : Cfg) (m : Mon) : List String → Option (String × Mon)
  | ["o", d, t, s, r, e, rd] => do
    let d ← Drift.ofStr? d
    let t ← t.toNat?
    let s ← s.toNat?
    let r ← parseRecs? r
    let e ← parseBool? e
    let rd ← parseBool? rd
    let o : Obs := { drift := d, total := t, since := s, recs := r, err := e, refDone := rd }
    let out := match violated c m o with
      | some cl => "viol " ++ cl
      | Option.none => "ok"
    pure (out, advance m o)
  | ["init", t, s] => do
    let t ← t.toNat?
    let s ← s.toNat?
    pure ("ok", { m with total := t, since := s })
  | _ => Option.none

def mkLifecycle : List String → Option Machine
  | ["lifecycle", k, a, b, r, inc, hr] =>
    match parseKind? k, a.toNat?, b.toNat?, r.toNat?, inc.toNat?, parseBool? hr with
    | some k, some a, some b, some r, some inc, some hr =>
      let c : Cfg := { kind := k, a := a, b := b, restart := r, incAfterDrift := inc, hasRecs := hr }
      some { σ := Mon, s := {}, step := lifecycleStep c }
    | _, _, _, _, _, _ => Option.none
  | _ => Option.none

end MV.Driver
