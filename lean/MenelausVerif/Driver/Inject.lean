/-
  Line protocol for the injector models (Model/Inject.lean), executed at `Float`.

    new inject
    <op> <data> <params…>

  data   := A <n> <w> <n·w cells>            (ndarray)
          | F <n> <w> <w labels> <n·w cells> (DataFrame)
  label / column argument := i<k> (Python int) | s<name> (Python str)
  cells and float parameters are IEEE bit patterns in decimal.

    shift <data> <from> <to> <col> <shift_factor> <alpha>
    swap  <data> <from> <to> <col1> <col2>
    lswap <data> <from> <to> <col> <class1> <class2>
    ljoin <data> <from> <to> <col> <class1> <class2> <new>
    brown <data> <from> <to> <col> <x0> <k> <k draws: 1 = +1, 0 = -1>
    prob  <data> <from> <to> <col> <m> <m × (key prob)> <k> <k sampled row numbers>
    dir   <data> <from> <to> <col> <m> <m keys> <m'> <m' dirichlet values> <k> <k sampled row numbers>
    cover <data> <col> <sample_size> <g> <g × (k, k positions)>

  output: `ok <data>` (prob/dir: followed by `P <k> <k grouped row numbers> <k probabilities>`)
          or `err <ValueError|IndexError|KeyError|ZeroDivisionError|baddraws>`.
-/
import MenelausVerif.Driver.Core
import MenelausVerif.Model.Inject
namespace MV.Driver
open MV MV.Inject

/-- token-consuming parser -/
private abbrev TP (β : Type) := List String → Option (β × List String)

private def tpNat : TP Nat
  | t :: ts => t.toNat?.map (·, ts)
  | [] => none

private def tpFloat : TP Float
  | t :: ts => (parseFloat? t).map (·, ts)
  | [] => none

private def tpBool : TP Bool
  | t :: ts => (parseBool? t).map (·, ts)
  | [] => none

private def tpLbl : TP Lbl
  | t :: ts =>
    match t.toList with
    | 'i' :: cs => (String.ofList cs).toNat?.map (fun k => (Lbl.int k, ts))
    | 's' :: cs => some (Lbl.str (String.ofList cs), ts)
    | _ => none
  | [] => none

private def tpMany {β : Type} (p : TP β) : Nat → TP (List β)
  | 0, ts => some ([], ts)
  | k + 1, ts =>
    match p ts with
    | some (x, ts') =>
      match tpMany p k ts' with
      | some (xs, ts'') => some (x :: xs, ts'')
      | none => none
    | none => none

/-- `<k> <k items>` -/
private def tpCounted {β : Type} (p : TP β) : TP (List β) := fun ts =>
  match tpNat ts with
  | some (k, ts') => tpMany p k ts'
  | none => none

private def chunk {β : Type} (w : Nat) : Nat → List β → List (List β)
  | 0, _ => []
  | n + 1, xs => xs.take w :: chunk w n (xs.drop w)

private def tpData : TP (Data Float)
  | "A" :: ts =>
    match tpNat ts with
    | some (n, ts1) =>
      match tpNat ts1 with
      | some (w, ts2) =>
        match tpMany tpFloat (n * w) ts2 with
        | some (cs, ts3) => some ({ labels := none, width := w, rows := chunk w n cs }, ts3)
        | none => none
      | none => none
    | none => none
  | "F" :: ts =>
    match tpNat ts with
    | some (n, ts1) =>
      match tpNat ts1 with
      | some (w, ts2) =>
        match tpMany tpLbl w ts2 with
        | some (ls, ts3) =>
          match tpMany tpFloat (n * w) ts3 with
          | some (cs, ts4) => some ({ labels := some ls, width := w, rows := chunk w n cs }, ts4)
          | none => none
        | none => none
      | none => none
    | none => none
  | _ => none

private def showLbl : Lbl → String
  | .int k => "i" ++ toString k
  | .str s => "s" ++ s

private def joinToks (ts : List String) : String := " ".intercalate (ts.filter (· ≠ ""))

private def showData (d : Data Float) : String :=
  let cells := showFloats d.rows.flatten
  match d.labels with
  | none => joinToks ["A", toString d.rows.length, toString d.width, cells]
  | some ls => joinToks ["F", toString d.rows.length, toString d.width,
      " ".intercalate (ls.map showLbl), cells]

private def showErr : Err → String
  | .value => "err ValueError"
  | .index => "err IndexError"
  | .key => "err KeyError"
  | .zeroDiv => "err ZeroDivisionError"
  | .badDraws => "err baddraws"

private def showRes : Except Err (Data Float) → String
  | .ok d => "ok " ++ showData d
  | .error e => showErr e

private def showResP : Except Err (Data Float × Plan Float) → String
  | .ok (d, pl) => joinToks ["ok", showData d, "P", toString pl.grouped.length, showNats pl.grouped,
      showFloats pl.p]
  | .error e => showErr e

private def tpPair : TP (Float × Float) := fun ts =>
  match tpFloat ts with
  | some (k, ts1) =>
    match tpFloat ts1 with
    | some (v, ts2) => some ((k, v), ts2)
    | none => none
  | none => none

/-- `<data> <from> <to> <col>` -/
private def tpWin : TP (Data Float × Nat × Nat × Lbl) := fun ts =>
  match tpData ts with
  | some (d, ts1) =>
    match tpNat ts1 with
    | some (f, ts2) =>
      match tpNat ts2 with
      | some (t, ts3) =>
        match tpLbl ts3 with
        | some (c, ts4) => some ((d, f, t, c), ts4)
        | none => none
      | none => none
    | none => none
  | none => none

private def injectOp : List String → Option String
  | "shift" :: ts =>
    match tpWin ts with
    | some ((d, f, t, c), ts1) =>
      match tpMany tpFloat 2 ts1 with
      | some ([sf, al], []) => some (showRes (featureShift d f t c sf al))
      | _ => none
    | none => none
  | "swap" :: ts =>
    match tpWin ts with
    | some ((d, f, t, c), ts1) =>
      match tpLbl ts1 with
      | some (c2, []) => some (showRes (featureSwap d f t c c2))
      | _ => none
    | none => none
  | "lswap" :: ts =>
    match tpWin ts with
    | some ((d, f, t, c), ts1) =>
      match tpMany tpFloat 2 ts1 with
      | some ([a, b], []) => some (showRes (labelSwap d f t c a b))
      | _ => none
    | none => none
  | "ljoin" :: ts =>
    match tpWin ts with
    | some ((d, f, t, c), ts1) =>
      match tpMany tpFloat 3 ts1 with
      | some ([a, b, nw], []) => some (showRes (labelJoin d f t c a b nw))
      | _ => none
    | none => none
  | "brown" :: ts =>
    match tpWin ts with
    | some ((d, f, t, c), ts1) =>
      match tpFloat ts1 with
      | some (x0, ts2) =>
        match tpCounted tpBool ts2 with
        | some (ds, []) => some (showRes (brownian d f t c x0 ds))
        | _ => none
      | none => none
    | none => none
  | "prob" :: ts =>
    match tpWin ts with
    | some ((d, f, t, c), ts1) =>
      match tpCounted tpPair ts1 with
      | some (cp, ts2) =>
        match tpCounted tpNat ts2 with
        | some (smp, []) => some (showResP (labelProb d f t c cp smp))
        | _ => none
      | none => none
    | none => none
  | "dir" :: ts =>
    match tpWin ts with
    | some ((d, f, t, c), ts1) =>
      match tpCounted tpFloat ts1 with
      | some (keys, ts2) =>
        match tpCounted tpFloat ts2 with
        | some (dv, ts3) =>
          match tpCounted tpNat ts3 with
          | some (smp, []) => some (showResP (labelDirichlet d f t c keys dv smp))
          | _ => none
        | none => none
      | none => none
    | none => none
  | "cover" :: ts =>
    match tpData ts with
    | some (d, ts1) =>
      match tpLbl ts1 with
      | some (c, ts2) =>
        match tpNat ts2 with
        | some (ss, ts3) =>
          match tpCounted (tpCounted tpNat) ts3 with
          | some (draws, []) => some (showRes (featureCover d c ss draws))
          | _ => none
        | none => none
      | none => none
    | none => none
  | _ => none

def mkInject : List String → Option Machine
  | ["inject"] => some (pureMachine injectOp)
  | _ => none

end MV.Driver
